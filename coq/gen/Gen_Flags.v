(* REGENERATED on every run by harness/py/checks/c02_flags.py from the implementation:
   gen_flag_table        = pkg/cli FLAG_TABLE, every entry, in the order FlagTable.Parse searches (implrun flag-table)
   gen_base              = every field of TOptions (reflection; unexported ones too) after parsing NO flag and
                           FinalizeReaderOptions + FinalizeWriterOptions, plus DecideFinalFlatten/Unflatten
   gen_evals             = for each evaluated main-flag argv: None when a token is rejected or Finalize* fails, else the
                           fields of the FINAL dump that differ from gen_base (implrun flag-eval)
   gen_sep_*/gen_default_* = SEPARATOR_NAMES_TO_VALUES, SEPARATOR_REGEX_NAMES_TO_VALUES, defaultFSes/PSes/RSes/AllowRepeatIFSes
   fld_i / tok_i / v_*   = shared constants for field names, argv tokens and frequent values
   WriterOptions.FlushOnEveryRecord reads <env> when no flag set it (isatty of stdout). *)
From Miller Require Import Base.Bytes.

Definition v_true : bytes := B "true".
Definition v_false : bytes := B "false".
Definition v_na : bytes := B "N/A".

Definition fld_0 : bytes := (B "ReaderOptions.InputFileFormat").
Definition fld_1 : bytes := (B "ReaderOptions.IFS").
Definition fld_2 : bytes := (B "ReaderOptions.IPS").
Definition fld_3 : bytes := (B "ReaderOptions.IRS").
Definition fld_4 : bytes := (B "ReaderOptions.AllowRepeatIFS").
Definition fld_5 : bytes := (B "ReaderOptions.IFSRegex").
Definition fld_6 : bytes := (B "ReaderOptions.IPSRegex").
Definition fld_7 : bytes := (B "ReaderOptions.DedupeFieldNames").
Definition fld_8 : bytes := (B "ReaderOptions.ifsWasSpecified").
Definition fld_9 : bytes := (B "ReaderOptions.ipsWasSpecified").
Definition fld_10 : bytes := (B "ReaderOptions.irsWasSpecified").
Definition fld_11 : bytes := (B "ReaderOptions.allowRepeatIFSWasSpecified").
Definition fld_12 : bytes := (B "ReaderOptions.UseImplicitHeader").
Definition fld_13 : bytes := (B "ReaderOptions.AllowRaggedCSVInput").
Definition fld_14 : bytes := (B "ReaderOptions.SkipTrivialRecords").
Definition fld_15 : bytes := (B "ReaderOptions.CSVLazyQuotes").
Definition fld_16 : bytes := (B "ReaderOptions.CSVTrimLeadingSpace").
Definition fld_17 : bytes := (B "ReaderOptions.BarredPprintInput").
Definition fld_18 : bytes := (B "ReaderOptions.IncrementImplicitKey").
Definition fld_19 : bytes := (B "ReaderOptions.FixedWidthSpec").
Definition fld_20 : bytes := (B "ReaderOptions.CommentHandling").
Definition fld_21 : bytes := (B "ReaderOptions.CommentString").
Definition fld_22 : bytes := (B "ReaderOptions.GeneratorOptions.FieldName").
Definition fld_23 : bytes := (B "ReaderOptions.GeneratorOptions.StartAsString").
Definition fld_24 : bytes := (B "ReaderOptions.GeneratorOptions.StepAsString").
Definition fld_25 : bytes := (B "ReaderOptions.GeneratorOptions.StopAsString").
Definition fld_26 : bytes := (B "ReaderOptions.Prepipe").
Definition fld_27 : bytes := (B "ReaderOptions.PrepipeIsRaw").
Definition fld_28 : bytes := (B "ReaderOptions.FileInputEncoding").
Definition fld_29 : bytes := (B "ReaderOptions.RecordsPerBatch").
Definition fld_30 : bytes := (B "WriterOptions.OutputFileFormat").
Definition fld_31 : bytes := (B "WriterOptions.ORS").
Definition fld_32 : bytes := (B "WriterOptions.OFS").
Definition fld_33 : bytes := (B "WriterOptions.OPS").
Definition fld_34 : bytes := (B "WriterOptions.FLATSEP").
Definition fld_35 : bytes := (B "WriterOptions.FlushOnEveryRecord").
Definition fld_36 : bytes := (B "WriterOptions.flushOnEveryRecordWasSpecified").
Definition fld_37 : bytes := (B "WriterOptions.ofsWasSpecified").
Definition fld_38 : bytes := (B "WriterOptions.opsWasSpecified").
Definition fld_39 : bytes := (B "WriterOptions.orsWasSpecified").
Definition fld_40 : bytes := (B "WriterOptions.HeaderlessOutput").
Definition fld_41 : bytes := (B "WriterOptions.BarredPprintOutput").
Definition fld_42 : bytes := (B "WriterOptions.BarredUseUnicode").
Definition fld_43 : bytes := (B "WriterOptions.RightAlignedPPRINTOutput").
Definition fld_44 : bytes := (B "WriterOptions.RightAlignedXTABOutput").
Definition fld_45 : bytes := (B "WriterOptions.MarkdownAlignedOutput").
Definition fld_46 : bytes := (B "WriterOptions.RightAlignNumericOutput").
Definition fld_47 : bytes := (B "WriterOptions.WrapJSONOutputInOuterList").
Definition fld_48 : bytes := (B "WriterOptions.JSONOutputMultiline").
Definition fld_49 : bytes := (B "WriterOptions.JVQuoteAll").
Definition fld_50 : bytes := (B "WriterOptions.WrapYAMLOutputInOuterList").
Definition fld_51 : bytes := (B "WriterOptions.CSVQuoteAll").
Definition fld_52 : bytes := (B "WriterOptions.AutoUnflatten").
Definition fld_53 : bytes := (B "WriterOptions.AutoFlatten").
Definition fld_54 : bytes := (B "WriterOptions.NoAutoUnsparsify").
Definition fld_55 : bytes := (B "WriterOptions.FPOFMT").
Definition fld_56 : bytes := (B "WriterOptions.FailOnDataError").
Definition fld_57 : bytes := (B "FileNames").
Definition fld_58 : bytes := (B "DSLPreloadFileNames").
Definition fld_59 : bytes := (B "NRProgressMod").
Definition fld_60 : bytes := (B "DoInPlace").
Definition fld_61 : bytes := (B "NoInput").
Definition fld_62 : bytes := (B "HaveRandSeed").
Definition fld_63 : bytes := (B "RandSeed").
Definition fld_64 : bytes := (B "PrintElapsedTime").
Definition fld_65 : bytes := (B "DecideFinalFlatten").
Definition fld_66 : bytes := (B "DecideFinalUnflatten").

Definition tok_0 : bytes := (B "--asv").
Definition tok_1 : bytes := (B "--ifs").
Definition tok_2 : bytes := (B ";").
Definition tok_3 : bytes := (B "--ips").
Definition tok_4 : bytes := (B ":").
Definition tok_5 : bytes := (B "--ofs").
Definition tok_6 : bytes := (B "--ops").
Definition tok_7 : bytes := (B "--irs").
Definition tok_8 : bytes := (B "--ors").
Definition tok_9 : bytes := (B "--asvlite").
Definition tok_10 : bytes := (B "--csv").
Definition tok_11 : bytes := (B "-c").
Definition tok_12 : bytes := (B "--c2c").
Definition tok_13 : bytes := (B "--csvlite").
Definition tok_14 : bytes := (B "--dcf").
Definition tok_15 : bytes := (B "--dkvp").
Definition tok_16 : bytes := (B "--d2d").
Definition tok_17 : bytes := (B "--dkvpx").
Definition tok_18 : bytes := (B "--gen-field-name").
Definition tok_19 : bytes := (B "--gen-start").
Definition tok_20 : bytes := (B "--gen-step").
Definition tok_21 : bytes := (B "--gen-stop").
Definition tok_22 : bytes := (B "--iasv").
Definition tok_23 : bytes := (B "--iasvlite").
Definition tok_24 : bytes := (B "--icsv").
Definition tok_25 : bytes := (B "--icsvlite").
Definition tok_26 : bytes := (B "--idcf").
Definition tok_27 : bytes := (B "--idkvp").
Definition tok_28 : bytes := (B "--igen").
Definition tok_29 : bytes := (B "--ijson").
Definition tok_30 : bytes := (B "--ijsonl").
Definition tok_31 : bytes := (B "--imd").
Definition tok_32 : bytes := (B "--imarkdown").
Definition tok_33 : bytes := (B "--inidx").
Definition tok_34 : bytes := (B "--ipprint").
Definition tok_35 : bytes := (B "--irecutils").
Definition tok_36 : bytes := (B "--itsv").
Definition tok_37 : bytes := (B "--itsvlite").
Definition tok_38 : bytes := (B "--iusv").
Definition tok_39 : bytes := (B "--iusvlite").
Definition tok_40 : bytes := (B "--ixtab").
Definition tok_41 : bytes := (B "--iyaml").
Definition tok_42 : bytes := (B "--json").
Definition tok_43 : bytes := (B "-j").
Definition tok_44 : bytes := (B "--j2j").
Definition tok_45 : bytes := (B "--jsonl").
Definition tok_46 : bytes := (B "--l2l").
Definition tok_47 : bytes := (B "--md").
Definition tok_48 : bytes := (B "--markdown").
Definition tok_49 : bytes := (B "--nidx").
Definition tok_50 : bytes := (B "--n2n").
Definition tok_51 : bytes := (B "--oasv").
Definition tok_52 : bytes := (B "--oasvlite").
Definition tok_53 : bytes := (B "--ocsv").
Definition tok_54 : bytes := (B "--ocsvlite").
Definition tok_55 : bytes := (B "--odcf").
Definition tok_56 : bytes := (B "--odkvp").
Definition tok_57 : bytes := (B "--ojson").
Definition tok_58 : bytes := (B "--ojsonl").
Definition tok_59 : bytes := (B "--omd").
Definition tok_60 : bytes := (B "--omarkdown").
Definition tok_61 : bytes := (B "--onidx").
Definition tok_62 : bytes := (B "--opprint").
Definition tok_63 : bytes := (B "--orecutils").
Definition tok_64 : bytes := (B "--otsv").
Definition tok_65 : bytes := (B "--otsvlite").
Definition tok_66 : bytes := (B "--ousv").
Definition tok_67 : bytes := (B "--ousvlite").
Definition tok_68 : bytes := (B "--oxtab").
Definition tok_69 : bytes := (B "--oyaml").
Definition tok_70 : bytes := (B "--pprint").
Definition tok_71 : bytes := (B "--p2p").
Definition tok_72 : bytes := (B "--recutils").
Definition tok_73 : bytes := (B "--tsv").
Definition tok_74 : bytes := (B "-t").
Definition tok_75 : bytes := (B "--t2t").
Definition tok_76 : bytes := (B "--tsvlite").
Definition tok_77 : bytes := (B "--usv").
Definition tok_78 : bytes := (B "--usvlite").
Definition tok_79 : bytes := (B "--xtab").
Definition tok_80 : bytes := (B "--x2x").
Definition tok_81 : bytes := (B "--xvright").
Definition tok_82 : bytes := (B "--yaml").
Definition tok_83 : bytes := (B "--y2y").
Definition tok_84 : bytes := (B "--c2b").
Definition tok_85 : bytes := (B "--c2d").
Definition tok_86 : bytes := (B "--c2j").
Definition tok_87 : bytes := (B "--c2l").
Definition tok_88 : bytes := (B "--c2m").
Definition tok_89 : bytes := (B "--c2n").
Definition tok_90 : bytes := (B "--c2p").
Definition tok_91 : bytes := (B "--c2t").
Definition tok_92 : bytes := (B "--c2x").
Definition tok_93 : bytes := (B "--c2y").
Definition tok_94 : bytes := (B "--d2b").
Definition tok_95 : bytes := (B "--d2c").
Definition tok_96 : bytes := (B "--d2j").
Definition tok_97 : bytes := (B "--d2l").
Definition tok_98 : bytes := (B "--d2m").
Definition tok_99 : bytes := (B "--d2n").
Definition tok_100 : bytes := (B "--d2p").
Definition tok_101 : bytes := (B "--d2t").
Definition tok_102 : bytes := (B "--d2x").
Definition tok_103 : bytes := (B "--d2y").
Definition tok_104 : bytes := (B "--j2b").
Definition tok_105 : bytes := (B "--j2c").
Definition tok_106 : bytes := (B "--j2d").
Definition tok_107 : bytes := (B "--j2l").
Definition tok_108 : bytes := (B "--j2m").
Definition tok_109 : bytes := (B "--j2n").
Definition tok_110 : bytes := (B "--j2p").
Definition tok_111 : bytes := (B "--j2t").
Definition tok_112 : bytes := (B "--j2x").
Definition tok_113 : bytes := (B "--j2y").
Definition tok_114 : bytes := (B "--l2b").
Definition tok_115 : bytes := (B "--l2c").
Definition tok_116 : bytes := (B "--l2d").
Definition tok_117 : bytes := (B "--l2j").
Definition tok_118 : bytes := (B "--l2m").
Definition tok_119 : bytes := (B "--l2n").
Definition tok_120 : bytes := (B "--l2p").
Definition tok_121 : bytes := (B "--l2t").
Definition tok_122 : bytes := (B "--l2x").
Definition tok_123 : bytes := (B "--l2y").
Definition tok_124 : bytes := (B "--m2c").
Definition tok_125 : bytes := (B "--m2d").
Definition tok_126 : bytes := (B "--m2j").
Definition tok_127 : bytes := (B "--m2l").
Definition tok_128 : bytes := (B "--m2n").
Definition tok_129 : bytes := (B "--m2p").
Definition tok_130 : bytes := (B "--m2t").
Definition tok_131 : bytes := (B "--m2x").
Definition tok_132 : bytes := (B "--m2y").
Definition tok_133 : bytes := (B "--n2b").
Definition tok_134 : bytes := (B "--n2c").
Definition tok_135 : bytes := (B "--n2d").
Definition tok_136 : bytes := (B "--n2j").
Definition tok_137 : bytes := (B "--n2l").
Definition tok_138 : bytes := (B "--n2m").
Definition tok_139 : bytes := (B "--n2p").
Definition tok_140 : bytes := (B "--n2t").
Definition tok_141 : bytes := (B "--n2x").
Definition tok_142 : bytes := (B "--n2y").
Definition tok_143 : bytes := (B "--p2c").
Definition tok_144 : bytes := (B "--p2d").
Definition tok_145 : bytes := (B "--p2j").
Definition tok_146 : bytes := (B "--p2l").
Definition tok_147 : bytes := (B "--p2m").
Definition tok_148 : bytes := (B "--p2n").
Definition tok_149 : bytes := (B "--p2t").
Definition tok_150 : bytes := (B "--p2x").
Definition tok_151 : bytes := (B "--p2y").
Definition tok_152 : bytes := (B "--t2b").
Definition tok_153 : bytes := (B "--t2c").
Definition tok_154 : bytes := (B "--t2d").
Definition tok_155 : bytes := (B "--t2j").
Definition tok_156 : bytes := (B "--t2l").
Definition tok_157 : bytes := (B "--t2m").
Definition tok_158 : bytes := (B "--t2n").
Definition tok_159 : bytes := (B "--t2p").
Definition tok_160 : bytes := (B "--t2x").
Definition tok_161 : bytes := (B "--t2y").
Definition tok_162 : bytes := (B "--x2b").
Definition tok_163 : bytes := (B "--x2c").
Definition tok_164 : bytes := (B "--x2d").
Definition tok_165 : bytes := (B "--x2j").
Definition tok_166 : bytes := (B "--x2l").
Definition tok_167 : bytes := (B "--x2m").
Definition tok_168 : bytes := (B "--x2n").
Definition tok_169 : bytes := (B "--x2p").
Definition tok_170 : bytes := (B "--x2t").
Definition tok_171 : bytes := (B "--x2y").
Definition tok_172 : bytes := (B "--y2c").
Definition tok_173 : bytes := (B "--y2d").
Definition tok_174 : bytes := (B "--y2j").
Definition tok_175 : bytes := (B "--y2l").
Definition tok_176 : bytes := (B "--y2m").
Definition tok_177 : bytes := (B "--y2n").
Definition tok_178 : bytes := (B "--y2p").
Definition tok_179 : bytes := (B "--y2t").
Definition tok_180 : bytes := (B "--y2x").
Definition tok_181 : bytes := (B "-p").
Definition tok_182 : bytes := (B "-T").
Definition tok_183 : bytes := (B "--jknquoteint").
Definition tok_184 : bytes := (B "--jquoteall").
Definition tok_185 : bytes := (B "--json-fatal-arrays-on-input").
Definition tok_186 : bytes := (B "--json-map-arrays-on-input").
Definition tok_187 : bytes := (B "--json-skip-arrays-on-input").
Definition tok_188 : bytes := (B "--jsonx").
Definition tok_189 : bytes := (B "--mmap").
Definition tok_190 : bytes := (B "--no-mmap").
Definition tok_191 : bytes := (B "--ojsonx").
Definition tok_192 : bytes := (B "--quote-minimal").
Definition tok_193 : bytes := (B "--quote-none").
Definition tok_194 : bytes := (B "--quote-numeric").
Definition tok_195 : bytes := (B "--quote-original").
Definition tok_196 : bytes := (B "--vflatsep").
Definition tok_197 : bytes := (B "--md-aligned").
Definition tok_198 : bytes := (B "--markdown-aligned").
Definition tok_199 : bytes := (B "--omd-aligned").
Definition tok_200 : bytes := (B "--omarkdown-aligned").
Definition tok_201 : bytes := (B "--allow-ragged-csv-input").
Definition tok_202 : bytes := (B "--ragged").
Definition tok_203 : bytes := (B "--allow-ragged-tsv-input").
Definition tok_204 : bytes := (B "--headerless-csv-output").
Definition tok_205 : bytes := (B "--ho").
Definition tok_206 : bytes := (B "--headerless-tsv-output").
Definition tok_207 : bytes := (B "--implicit-csv-header").
Definition tok_208 : bytes := (B "--headerless-csv-input").
Definition tok_209 : bytes := (B "--hi").
Definition tok_210 : bytes := (B "--implicit-tsv-header").
Definition tok_211 : bytes := (B "--no-implicit-csv-header").
Definition tok_212 : bytes := (B "--no-implicit-tsv-header").
Definition tok_213 : bytes := (B "--flatsep").
Definition tok_214 : bytes := (B "semicolon").
Definition tok_215 : bytes := (B "--jflatsep").
Definition tok_216 : bytes := (B "--jlistwrap").
Definition tok_217 : bytes := (B "--jl").
Definition tok_218 : bytes := (B "--yarray").
Definition tok_219 : bytes := (B "--ya").
Definition tok_220 : bytes := (B "--infer-int-as-float").
Definition tok_221 : bytes := (B "-A").
Definition tok_222 : bytes := (B "--infer-none").
Definition tok_223 : bytes := (B "-S").
Definition tok_224 : bytes := (B "--infer-octal").
Definition tok_225 : bytes := (B "-O").
Definition tok_226 : bytes := (B "--profile").
Definition tok_227 : bytes := (B "x").
Definition tok_228 : bytes := (B "-P").
Definition tok_229 : bytes := (B "--always-color").
Definition tok_230 : bytes := (B "-C").
Definition tok_231 : bytes := (B "--no-color").
Definition tok_232 : bytes := (B "-M").
Definition tok_233 : bytes := (B "--barred").
Definition tok_234 : bytes := (B "--barred-output").
Definition tok_235 : bytes := (B "-N").
Definition tok_236 : bytes := (B "--fs").
Definition tok_237 : bytes := (B "tab").
Definition tok_238 : bytes := (B "space").
Definition tok_239 : bytes := (B "--repifs").
Definition tok_240 : bytes := (B "-i").
Definition tok_241 : bytes := (B "csv").
Definition tok_242 : bytes := (B "-o").
Definition tok_243 : bytes := (B "--io").
Definition tok_244 : bytes := (B "csvlite").
Definition tok_245 : bytes := (B "dcf").
Definition tok_246 : bytes := (B "dkvp").
Definition tok_247 : bytes := (B "dkvpx").
Definition tok_248 : bytes := (B "--idkvpx").
Definition tok_249 : bytes := (B "--odkvpx").
Definition tok_250 : bytes := (B "gen").
Definition tok_251 : bytes := (B "--ogen").
Definition tok_252 : bytes := (B "--gen").
Definition tok_253 : bytes := (B "json").
Definition tok_254 : bytes := (B "markdown").
Definition tok_255 : bytes := (B "nidx").
Definition tok_256 : bytes := (B "pprint").
Definition tok_257 : bytes := (B "recutils").
Definition tok_258 : bytes := (B "tsv").
Definition tok_259 : bytes := (B "xtab").
Definition tok_260 : bytes := (B "yaml").
Definition tok_261 : bytes := (B "md").
Definition tok_262 : bytes := (B "jsonl").
Definition tok_263 : bytes := (B "ascii_esc").
Definition tok_264 : bytes := (B "\x1b").
Definition tok_265 : bytes := (B "ascii_etx").
Definition tok_266 : bytes := (B "\x03").
Definition tok_267 : bytes := (B "ascii_fs").
Definition tok_268 : bytes := (B "\x1c").
Definition tok_269 : bytes := (B "ascii_gs").
Definition tok_270 : bytes := (B "\x1d").
Definition tok_271 : bytes := (B "ascii_null").
Definition tok_272 : bytes := (B "\x00").
Definition tok_273 : bytes := (B "ascii_rs").
Definition tok_274 : bytes := (B "\x1e").
Definition tok_275 : bytes := (B "ascii_soh").
Definition tok_276 : bytes := (B "\x01").
Definition tok_277 : bytes := (B "ascii_stx").
Definition tok_278 : bytes := (B "\x02").
Definition tok_279 : bytes := (B "ascii_us").
Definition tok_280 : bytes := (B "\x1f").
Definition tok_281 : bytes := (B "asv_fs").
Definition tok_282 : bytes := (B "asv_rs").
Definition tok_283 : bytes := (B "colon").
Definition tok_284 : bytes := (B "comma").
Definition tok_285 : bytes := (B ",").
Definition tok_286 : bytes := (B "cr").
Definition tok_287 : bytes := (B "\r").
Definition tok_288 : bytes := (B "crcr").
Definition tok_289 : bytes := (B "\r\r").
Definition tok_290 : bytes := (B "crlf").
Definition tok_291 : bytes := (B "\r\n").
Definition tok_292 : bytes := (B "crlfcrlf").
Definition tok_293 : bytes := (B "\r\n\r\n").
Definition tok_294 : bytes := (B "equals").
Definition tok_295 : bytes := (B "=").
Definition tok_296 : bytes := (B "lf").
Definition tok_297 : bytes := (B "\n").
Definition tok_298 : bytes := (B "lflf").
Definition tok_299 : bytes := (B "\n\n").
Definition tok_300 : bytes := (B "newline").
Definition tok_301 : bytes := (B "pipe").
Definition tok_302 : bytes := (B "|").
Definition tok_303 : bytes := (B "slash").
Definition tok_304 : bytes := (B "/").
Definition tok_305 : bytes := (B " ").
Definition tok_306 : bytes := (B "\t").
Definition tok_307 : bytes := (B "usv_fs").
Definition tok_308 : bytes := (B "\xe2\x90\x9f").
Definition tok_309 : bytes := (B "usv_rs").
Definition tok_310 : bytes := (B "\xe2\x90\x9e").
Definition tok_311 : bytes := (B "--ps").
Definition tok_312 : bytes := (B "--rs").
Definition tok_313 : bytes := (B "--ifs-regex").
Definition tok_314 : bytes := (B "spaces").
Definition tok_315 : bytes := (B "( )+").
Definition tok_316 : bytes := (B "tabs").
Definition tok_317 : bytes := (B "(\t)+").
Definition tok_318 : bytes := (B "whitespace").
Definition tok_319 : bytes := (B "([ \t])+").
Definition tok_320 : bytes := (B "--ips-regex").

Definition gen_flag_table : list (bytes * bytes * list bytes * bytes) := [
  ((B "Comments-in-data flags"), (B "--pass-comments"), [], (B ""));
  ((B "Comments-in-data flags"), (B "--pass-comments-with"), [], (B "{string}"));
  ((B "Comments-in-data flags"), (B "--skip-comments"), [], (B ""));
  ((B "Comments-in-data flags"), (B "--skip-comments-with"), [], (B "{string}"));
  ((B "Compressed-data flags"), (B "--bz2in"), [], (B ""));
  ((B "Compressed-data flags"), (B "--gzin"), [], (B ""));
  ((B "Compressed-data flags"), (B "--prepipe"), [], (B "{decompression command}"));
  ((B "Compressed-data flags"), (B "--prepipe-bz2"), [], (B ""));
  ((B "Compressed-data flags"), (B "--prepipe-gunzip"), [], (B ""));
  ((B "Compressed-data flags"), (B "--prepipe-zcat"), [], (B ""));
  ((B "Compressed-data flags"), (B "--prepipe-zstdcat"), [], (B ""));
  ((B "Compressed-data flags"), (B "--prepipex"), [], (B "{decompression command}"));
  ((B "Compressed-data flags"), (B "--zin"), [], (B ""));
  ((B "Compressed-data flags"), (B "--zstdin"), [], (B ""));
  ((B "CSV/TSV-only flags"), (B "--allow-ragged-csv-input"), [(B "--ragged"); (B "--allow-ragged-tsv-input")], (B ""));
  ((B "CSV/TSV-only flags"), (B "--csv-trim-leading-space"), [], (B ""));
  ((B "CSV/TSV-only flags"), (B "--headerless-csv-output"), [(B "--ho"); (B "--headerless-tsv-output")], (B ""));
  ((B "CSV/TSV-only flags"), (B "--implicit-csv-header"), [(B "--headerless-csv-input"); (B "--hi"); (B "--implicit-tsv-header")], (B ""));
  ((B "CSV/TSV-only flags"), (B "--lazy-quotes"), [], (B ""));
  ((B "CSV/TSV-only flags"), (B "--no-auto-unsparsify"), [], (B ""));
  ((B "CSV/TSV-only flags"), (B "--no-implicit-csv-header"), [(B "--no-implicit-tsv-header")], (B ""));
  ((B "CSV/TSV-only flags"), (B "--quote-all"), [], (B ""));
  ((B "CSV/TSV-only flags"), (B "-N"), [], (B ""));
  ((B "DKVP-only flags"), (B "--incr-key"), [], (B ""));
  ((B "File-format flags"), (B "--asv"), [(B "--asvlite")], (B ""));
  ((B "File-format flags"), (B "--csv"), [(B "-c"); (B "--c2c")], (B ""));
  ((B "File-format flags"), (B "--csvlite"), [], (B ""));
  ((B "File-format flags"), (B "--dcf"), [], (B ""));
  ((B "File-format flags"), (B "--dkvp"), [(B "--d2d")], (B ""));
  ((B "File-format flags"), (B "--dkvpx"), [], (B ""));
  ((B "File-format flags"), (B "--gen-field-name"), [], (B ""));
  ((B "File-format flags"), (B "--gen-start"), [], (B ""));
  ((B "File-format flags"), (B "--gen-step"), [], (B ""));
  ((B "File-format flags"), (B "--gen-stop"), [], (B ""));
  ((B "File-format flags"), (B "--iasv"), [(B "--iasvlite")], (B ""));
  ((B "File-format flags"), (B "--icsv"), [], (B ""));
  ((B "File-format flags"), (B "--icsvlite"), [], (B ""));
  ((B "File-format flags"), (B "--idcf"), [], (B ""));
  ((B "File-format flags"), (B "--idkvp"), [], (B ""));
  ((B "File-format flags"), (B "--igen"), [], (B ""));
  ((B "File-format flags"), (B "--ijson"), [], (B ""));
  ((B "File-format flags"), (B "--ijsonl"), [], (B ""));
  ((B "File-format flags"), (B "--imd"), [(B "--imarkdown")], (B ""));
  ((B "File-format flags"), (B "--inidx"), [], (B ""));
  ((B "File-format flags"), (B "--io"), [], (B "{format name}"));
  ((B "File-format flags"), (B "--ipprint"), [], (B ""));
  ((B "File-format flags"), (B "--irecutils"), [], (B ""));
  ((B "File-format flags"), (B "--itsv"), [], (B ""));
  ((B "File-format flags"), (B "--itsvlite"), [], (B ""));
  ((B "File-format flags"), (B "--iusv"), [(B "--iusvlite")], (B ""));
  ((B "File-format flags"), (B "--ixtab"), [], (B ""));
  ((B "File-format flags"), (B "--iyaml"), [], (B ""));
  ((B "File-format flags"), (B "--json"), [(B "-j"); (B "--j2j")], (B ""));
  ((B "File-format flags"), (B "--jsonl"), [(B "--l2l")], (B ""));
  ((B "File-format flags"), (B "--md"), [(B "--markdown")], (B ""));
  ((B "File-format flags"), (B "--nidx"), [(B "--n2n")], (B ""));
  ((B "File-format flags"), (B "--oasv"), [(B "--oasvlite")], (B ""));
  ((B "File-format flags"), (B "--ocsv"), [], (B ""));
  ((B "File-format flags"), (B "--ocsvlite"), [], (B ""));
  ((B "File-format flags"), (B "--odcf"), [], (B ""));
  ((B "File-format flags"), (B "--odkvp"), [], (B ""));
  ((B "File-format flags"), (B "--ojson"), [], (B ""));
  ((B "File-format flags"), (B "--ojsonl"), [], (B ""));
  ((B "File-format flags"), (B "--omd"), [(B "--omarkdown")], (B ""));
  ((B "File-format flags"), (B "--onidx"), [], (B ""));
  ((B "File-format flags"), (B "--opprint"), [], (B ""));
  ((B "File-format flags"), (B "--orecutils"), [], (B ""));
  ((B "File-format flags"), (B "--otsv"), [], (B ""));
  ((B "File-format flags"), (B "--otsvlite"), [], (B ""));
  ((B "File-format flags"), (B "--ousv"), [(B "--ousvlite")], (B ""));
  ((B "File-format flags"), (B "--oxtab"), [], (B ""));
  ((B "File-format flags"), (B "--oyaml"), [], (B ""));
  ((B "File-format flags"), (B "--pprint"), [(B "--p2p")], (B ""));
  ((B "File-format flags"), (B "--recutils"), [], (B ""));
  ((B "File-format flags"), (B "--tsv"), [(B "-t"); (B "--t2t")], (B ""));
  ((B "File-format flags"), (B "--tsvlite"), [], (B ""));
  ((B "File-format flags"), (B "--usv"), [(B "--usvlite")], (B ""));
  ((B "File-format flags"), (B "--xtab"), [(B "--x2x")], (B ""));
  ((B "File-format flags"), (B "--xvright"), [], (B ""));
  ((B "File-format flags"), (B "--yaml"), [(B "--y2y")], (B ""));
  ((B "File-format flags"), (B "-i"), [], (B "{format name}"));
  ((B "File-format flags"), (B "-o"), [], (B "{format name}"));
  ((B "Flatten-unflatten flags"), (B "--flatsep"), [(B "--jflatsep")], (B "{string}"));
  ((B "Flatten-unflatten flags"), (B "--no-auto-flatten"), [], (B ""));
  ((B "Flatten-unflatten flags"), (B "--no-auto-unflatten"), [], (B ""));
  ((B "Format-conversion keystroke-saver flags"), (B "--c2b"), [], (B ""));
  ((B "Format-conversion keystroke-saver flags"), (B "--c2d"), [], (B ""));
  ((B "Format-conversion keystroke-saver flags"), (B "--c2j"), [], (B ""));
  ((B "Format-conversion keystroke-saver flags"), (B "--c2l"), [], (B ""));
  ((B "Format-conversion keystroke-saver flags"), (B "--c2m"), [], (B ""));
  ((B "Format-conversion keystroke-saver flags"), (B "--c2m"), [], (B ""));
  ((B "Format-conversion keystroke-saver flags"), (B "--c2n"), [], (B ""));
  ((B "Format-conversion keystroke-saver flags"), (B "--c2p"), [], (B ""));
  ((B "Format-conversion keystroke-saver flags"), (B "--c2t"), [], (B ""));
  ((B "Format-conversion keystroke-saver flags"), (B "--c2x"), [], (B ""));
  ((B "Format-conversion keystroke-saver flags"), (B "--c2y"), [], (B ""));
  ((B "Format-conversion keystroke-saver flags"), (B "--d2b"), [], (B ""));
  ((B "Format-conversion keystroke-saver flags"), (B "--d2c"), [], (B ""));
  ((B "Format-conversion keystroke-saver flags"), (B "--d2j"), [], (B ""));
  ((B "Format-conversion keystroke-saver flags"), (B "--d2l"), [], (B ""));
  ((B "Format-conversion keystroke-saver flags"), (B "--d2m"), [], (B ""));
  ((B "Format-conversion keystroke-saver flags"), (B "--d2m"), [], (B ""));
  ((B "Format-conversion keystroke-saver flags"), (B "--d2n"), [], (B ""));
  ((B "Format-conversion keystroke-saver flags"), (B "--d2p"), [], (B ""));
  ((B "Format-conversion keystroke-saver flags"), (B "--d2t"), [], (B ""));
  ((B "Format-conversion keystroke-saver flags"), (B "--d2x"), [], (B ""));
  ((B "Format-conversion keystroke-saver flags"), (B "--d2y"), [], (B ""));
  ((B "Format-conversion keystroke-saver flags"), (B "--j2b"), [], (B ""));
  ((B "Format-conversion keystroke-saver flags"), (B "--j2c"), [], (B ""));
  ((B "Format-conversion keystroke-saver flags"), (B "--j2d"), [], (B ""));
  ((B "Format-conversion keystroke-saver flags"), (B "--j2l"), [], (B ""));
  ((B "Format-conversion keystroke-saver flags"), (B "--j2m"), [], (B ""));
  ((B "Format-conversion keystroke-saver flags"), (B "--j2m"), [], (B ""));
  ((B "Format-conversion keystroke-saver flags"), (B "--j2n"), [], (B ""));
  ((B "Format-conversion keystroke-saver flags"), (B "--j2p"), [], (B ""));
  ((B "Format-conversion keystroke-saver flags"), (B "--j2t"), [], (B ""));
  ((B "Format-conversion keystroke-saver flags"), (B "--j2x"), [], (B ""));
  ((B "Format-conversion keystroke-saver flags"), (B "--j2y"), [], (B ""));
  ((B "Format-conversion keystroke-saver flags"), (B "--l2b"), [], (B ""));
  ((B "Format-conversion keystroke-saver flags"), (B "--l2c"), [], (B ""));
  ((B "Format-conversion keystroke-saver flags"), (B "--l2d"), [], (B ""));
  ((B "Format-conversion keystroke-saver flags"), (B "--l2j"), [], (B ""));
  ((B "Format-conversion keystroke-saver flags"), (B "--l2m"), [], (B ""));
  ((B "Format-conversion keystroke-saver flags"), (B "--l2m"), [], (B ""));
  ((B "Format-conversion keystroke-saver flags"), (B "--l2n"), [], (B ""));
  ((B "Format-conversion keystroke-saver flags"), (B "--l2p"), [], (B ""));
  ((B "Format-conversion keystroke-saver flags"), (B "--l2t"), [], (B ""));
  ((B "Format-conversion keystroke-saver flags"), (B "--l2x"), [], (B ""));
  ((B "Format-conversion keystroke-saver flags"), (B "--l2y"), [], (B ""));
  ((B "Format-conversion keystroke-saver flags"), (B "--m2c"), [], (B ""));
  ((B "Format-conversion keystroke-saver flags"), (B "--m2d"), [], (B ""));
  ((B "Format-conversion keystroke-saver flags"), (B "--m2j"), [], (B ""));
  ((B "Format-conversion keystroke-saver flags"), (B "--m2l"), [], (B ""));
  ((B "Format-conversion keystroke-saver flags"), (B "--m2n"), [], (B ""));
  ((B "Format-conversion keystroke-saver flags"), (B "--m2p"), [], (B ""));
  ((B "Format-conversion keystroke-saver flags"), (B "--m2t"), [], (B ""));
  ((B "Format-conversion keystroke-saver flags"), (B "--m2x"), [], (B ""));
  ((B "Format-conversion keystroke-saver flags"), (B "--m2y"), [], (B ""));
  ((B "Format-conversion keystroke-saver flags"), (B "--n2b"), [], (B ""));
  ((B "Format-conversion keystroke-saver flags"), (B "--n2c"), [], (B ""));
  ((B "Format-conversion keystroke-saver flags"), (B "--n2d"), [], (B ""));
  ((B "Format-conversion keystroke-saver flags"), (B "--n2j"), [], (B ""));
  ((B "Format-conversion keystroke-saver flags"), (B "--n2l"), [], (B ""));
  ((B "Format-conversion keystroke-saver flags"), (B "--n2m"), [], (B ""));
  ((B "Format-conversion keystroke-saver flags"), (B "--n2m"), [], (B ""));
  ((B "Format-conversion keystroke-saver flags"), (B "--n2p"), [], (B ""));
  ((B "Format-conversion keystroke-saver flags"), (B "--n2t"), [], (B ""));
  ((B "Format-conversion keystroke-saver flags"), (B "--n2x"), [], (B ""));
  ((B "Format-conversion keystroke-saver flags"), (B "--n2y"), [], (B ""));
  ((B "Format-conversion keystroke-saver flags"), (B "--p2c"), [], (B ""));
  ((B "Format-conversion keystroke-saver flags"), (B "--p2d"), [], (B ""));
  ((B "Format-conversion keystroke-saver flags"), (B "--p2j"), [], (B ""));
  ((B "Format-conversion keystroke-saver flags"), (B "--p2l"), [], (B ""));
  ((B "Format-conversion keystroke-saver flags"), (B "--p2m"), [], (B ""));
  ((B "Format-conversion keystroke-saver flags"), (B "--p2n"), [], (B ""));
  ((B "Format-conversion keystroke-saver flags"), (B "--p2t"), [], (B ""));
  ((B "Format-conversion keystroke-saver flags"), (B "--p2x"), [], (B ""));
  ((B "Format-conversion keystroke-saver flags"), (B "--p2y"), [], (B ""));
  ((B "Format-conversion keystroke-saver flags"), (B "--t2b"), [], (B ""));
  ((B "Format-conversion keystroke-saver flags"), (B "--t2c"), [], (B ""));
  ((B "Format-conversion keystroke-saver flags"), (B "--t2d"), [], (B ""));
  ((B "Format-conversion keystroke-saver flags"), (B "--t2j"), [], (B ""));
  ((B "Format-conversion keystroke-saver flags"), (B "--t2l"), [], (B ""));
  ((B "Format-conversion keystroke-saver flags"), (B "--t2m"), [], (B ""));
  ((B "Format-conversion keystroke-saver flags"), (B "--t2m"), [], (B ""));
  ((B "Format-conversion keystroke-saver flags"), (B "--t2n"), [], (B ""));
  ((B "Format-conversion keystroke-saver flags"), (B "--t2p"), [], (B ""));
  ((B "Format-conversion keystroke-saver flags"), (B "--t2x"), [], (B ""));
  ((B "Format-conversion keystroke-saver flags"), (B "--t2y"), [], (B ""));
  ((B "Format-conversion keystroke-saver flags"), (B "--x2b"), [], (B ""));
  ((B "Format-conversion keystroke-saver flags"), (B "--x2c"), [], (B ""));
  ((B "Format-conversion keystroke-saver flags"), (B "--x2d"), [], (B ""));
  ((B "Format-conversion keystroke-saver flags"), (B "--x2j"), [], (B ""));
  ((B "Format-conversion keystroke-saver flags"), (B "--x2l"), [], (B ""));
  ((B "Format-conversion keystroke-saver flags"), (B "--x2m"), [], (B ""));
  ((B "Format-conversion keystroke-saver flags"), (B "--x2m"), [], (B ""));
  ((B "Format-conversion keystroke-saver flags"), (B "--x2n"), [], (B ""));
  ((B "Format-conversion keystroke-saver flags"), (B "--x2p"), [], (B ""));
  ((B "Format-conversion keystroke-saver flags"), (B "--x2t"), [], (B ""));
  ((B "Format-conversion keystroke-saver flags"), (B "--x2y"), [], (B ""));
  ((B "Format-conversion keystroke-saver flags"), (B "--y2c"), [], (B ""));
  ((B "Format-conversion keystroke-saver flags"), (B "--y2d"), [], (B ""));
  ((B "Format-conversion keystroke-saver flags"), (B "--y2j"), [], (B ""));
  ((B "Format-conversion keystroke-saver flags"), (B "--y2l"), [], (B ""));
  ((B "Format-conversion keystroke-saver flags"), (B "--y2m"), [], (B ""));
  ((B "Format-conversion keystroke-saver flags"), (B "--y2n"), [], (B ""));
  ((B "Format-conversion keystroke-saver flags"), (B "--y2p"), [], (B ""));
  ((B "Format-conversion keystroke-saver flags"), (B "--y2t"), [], (B ""));
  ((B "Format-conversion keystroke-saver flags"), (B "--y2x"), [], (B ""));
  ((B "Format-conversion keystroke-saver flags"), (B "--y2y"), [], (B ""));
  ((B "Format-conversion keystroke-saver flags"), (B "-p"), [], (B ""));
  ((B "Format-conversion keystroke-saver flags"), (B "-T"), [], (B ""));
  ((B "JSON-only flags"), (B "--jlistwrap"), [(B "--jl")], (B ""));
  ((B "JSON-only flags"), (B "--jvquoteall"), [], (B ""));
  ((B "JSON-only flags"), (B "--jvstack"), [], (B ""));
  ((B "JSON-only flags"), (B "--no-jlistwrap"), [], (B ""));
  ((B "JSON-only flags"), (B "--no-jvstack"), [], (B ""));
  ((B "JSON-only flags"), (B "--no-yarray"), [], (B ""));
  ((B "JSON-only flags"), (B "--yarray"), [(B "--ya")], (B ""));
  ((B "Legacy flags"), (B "--jknquoteint"), [], (B ""));
  ((B "Legacy flags"), (B "--jquoteall"), [], (B ""));
  ((B "Legacy flags"), (B "--json-fatal-arrays-on-input"), [], (B ""));
  ((B "Legacy flags"), (B "--json-map-arrays-on-input"), [], (B ""));
  ((B "Legacy flags"), (B "--json-skip-arrays-on-input"), [], (B ""));
  ((B "Legacy flags"), (B "--jsonx"), [], (B ""));
  ((B "Legacy flags"), (B "--mmap"), [], (B ""));
  ((B "Legacy flags"), (B "--no-mmap"), [], (B ""));
  ((B "Legacy flags"), (B "--ojsonx"), [], (B ""));
  ((B "Legacy flags"), (B "--quote-minimal"), [], (B ""));
  ((B "Legacy flags"), (B "--quote-none"), [], (B ""));
  ((B "Legacy flags"), (B "--quote-numeric"), [], (B ""));
  ((B "Legacy flags"), (B "--quote-original"), [], (B ""));
  ((B "Legacy flags"), (B "--vflatsep"), [], (B ""));
  ((B "Markdown-only flags"), (B "--md-aligned"), [(B "--markdown-aligned")], (B ""));
  ((B "Markdown-only flags"), (B "--omd-aligned"), [(B "--omarkdown-aligned")], (B ""));
  ((B "Miscellaneous flags"), (B "--errors-json"), [], (B ""));
  ((B "Miscellaneous flags"), (B "--fflush"), [], (B ""));
  ((B "Miscellaneous flags"), (B "--files"), [], (B "{filename}"));
  ((B "Miscellaneous flags"), (B "--from"), [], (B "{filename}"));
  ((B "Miscellaneous flags"), (B "--hash-records"), [], (B ""));
  ((B "Miscellaneous flags"), (B "--infer-int-as-float"), [(B "-A")], (B ""));
  ((B "Miscellaneous flags"), (B "--infer-none"), [(B "-S")], (B ""));
  ((B "Miscellaneous flags"), (B "--infer-octal"), [(B "-O")], (B ""));
  ((B "Miscellaneous flags"), (B "--load"), [], (B "{filename}"));
  ((B "Miscellaneous flags"), (B "--mfrom"), [], (B "{filenames}"));
  ((B "Miscellaneous flags"), (B "--mload"), [], (B "{filenames}"));
  ((B "Miscellaneous flags"), (B "--no-dedupe-field-names"), [], (B ""));
  ((B "Miscellaneous flags"), (B "--no-fflush"), [], (B ""));
  ((B "Miscellaneous flags"), (B "--no-hash-records"), [], (B ""));
  ((B "Miscellaneous flags"), (B "--no-shell"), [], (B ""));
  ((B "Miscellaneous flags"), (B "--norc"), [], (B ""));
  ((B "Miscellaneous flags"), (B "--nr-progress-mod"), [], (B "{m}"));
  ((B "Miscellaneous flags"), (B "--ofmt"), [], (B "{format}"));
  ((B "Miscellaneous flags"), (B "--ofmte"), [], (B "{n}"));
  ((B "Miscellaneous flags"), (B "--ofmtf"), [], (B "{n}"));
  ((B "Miscellaneous flags"), (B "--ofmtg"), [], (B "{n}"));
  ((B "Miscellaneous flags"), (B "--profile"), [(B "-P")], (B "{name}"));
  ((B "Miscellaneous flags"), (B "--records-per-batch"), [], (B "{n}"));
  ((B "Miscellaneous flags"), (B "--s-no-comment-strip"), [], (B "{file name}"));
  ((B "Miscellaneous flags"), (B "--seed"), [], (B "{n}"));
  ((B "Miscellaneous flags"), (B "--tz"), [], (B "{timezone}"));
  ((B "Miscellaneous flags"), (B "-I"), [], (B ""));
  ((B "Miscellaneous flags"), (B "-n"), [], (B ""));
  ((B "Miscellaneous flags"), (B "-s"), [], (B "{file name}"));
  ((B "Miscellaneous flags"), (B "-x"), [], (B ""));
  ((B "Output-colorization flags"), (B "--always-color"), [(B "-C")], (B ""));
  ((B "Output-colorization flags"), (B "--fail-color"), [], (B ""));
  ((B "Output-colorization flags"), (B "--help-color"), [], (B ""));
  ((B "Output-colorization flags"), (B "--key-color"), [], (B ""));
  ((B "Output-colorization flags"), (B "--list-color-codes"), [], (B ""));
  ((B "Output-colorization flags"), (B "--list-color-names"), [], (B ""));
  ((B "Output-colorization flags"), (B "--no-color"), [(B "-M")], (B ""));
  ((B "Output-colorization flags"), (B "--pass-color"), [], (B ""));
  ((B "Output-colorization flags"), (B "--value-color"), [], (B ""));
  ((B "PPRINT-only flags"), (B "--barred"), [(B "--barred-output")], (B ""));
  ((B "PPRINT-only flags"), (B "--barred-input"), [], (B ""));
  ((B "PPRINT-only flags"), (B "--barred-unicode"), [], (B ""));
  ((B "PPRINT-only flags"), (B "--fixed"), [], (B "{string}"));
  ((B "PPRINT-only flags"), (B "--fw"), [], (B "{string}"));
  ((B "PPRINT-only flags"), (B "--right"), [], (B ""));
  ((B "PPRINT-only flags"), (B "--right-align-numeric"), [], (B ""));
  ((B "Profiling flags"), (B "--cpuprofile"), [], (B "{CPU-profile file name}"));
  ((B "Profiling flags"), (B "--time"), [], (B ""));
  ((B "Profiling flags"), (B "--traceprofile"), [], (B ""));
  ((B "Separator flags"), (B "--fs"), [], (B "{string}"));
  ((B "Separator flags"), (B "--ifs"), [], (B "{string}"));
  ((B "Separator flags"), (B "--ifs-regex"), [], (B "{string}"));
  ((B "Separator flags"), (B "--ips"), [], (B "{string}"));
  ((B "Separator flags"), (B "--ips-regex"), [], (B "{string}"));
  ((B "Separator flags"), (B "--irs"), [], (B "{string}"));
  ((B "Separator flags"), (B "--ofs"), [], (B "{string}"));
  ((B "Separator flags"), (B "--ops"), [], (B "{string}"));
  ((B "Separator flags"), (B "--ors"), [], (B "{string}"));
  ((B "Separator flags"), (B "--ps"), [], (B "{string}"));
  ((B "Separator flags"), (B "--repifs"), [], (B ""));
  ((B "Separator flags"), (B "--rs"), [], (B "{string}"))].

Definition gen_base : list (bytes * bytes) :=
  [(fld_0, (B "dkvp")); (fld_1, (B ",")); (fld_2, (B "=")); (fld_3, (bs [10]%N)); (fld_4, v_false); (fld_5, (B "")); (fld_6, (B "")); (fld_7, v_true); (fld_8, v_false); (fld_9, v_false); (fld_10, v_false); (fld_11, v_false); (fld_12, v_false); (fld_13, v_false); (fld_14, v_false); (fld_15, v_false); (fld_16, v_false); (fld_17, v_false); (fld_18, v_false); (fld_19, (B "")); (fld_20, (B "0")); (fld_21, (B "")); (fld_22, (B "i")); (fld_23, (B "1")); (fld_24, (B "1")); (fld_25, (B "100")); (fld_26, (B "")); (fld_27, v_false); (fld_28, (B "0")); (fld_29, (B "500")); (fld_30, (B "dkvp")); (fld_31, (bs [10]%N)); (fld_32, (B ",")); (fld_33, (B "=")); (fld_34, (B ".")); (fld_35, (B "<env>")); (fld_36, v_false); (fld_37, v_false); (fld_38, v_false); (fld_39, v_false); (fld_40, v_false); (fld_41, v_false); (fld_42, v_false); (fld_43, v_false); (fld_44, v_false); (fld_45, v_false); (fld_46, v_false); (fld_47, v_true); (fld_48, v_true); (fld_49, v_false); (fld_50, v_true); (fld_51, v_false); (fld_52, v_true); (fld_53, v_true); (fld_54, v_false); (fld_55, (B "")); (fld_56, v_false); (fld_57, (B "0:")); (fld_58, (B "0:")); (fld_59, (B "0")); (fld_60, v_false); (fld_61, v_false); (fld_62, v_false); (fld_63, (B "0")); (fld_64, v_false); (fld_65, v_true); (fld_66, v_false)].

(* (first token, [(remaining tokens, result)]) *)
Definition gen_evals_by_head : list (bytes * list (list bytes * option (list (bytes * bytes)))) := [
  (tok_0, [
    ([], Some [(fld_0, (B "csvlite")); (fld_1, (bs [31]%N)); (fld_2, v_na); (fld_3, (bs [30]%N)); (fld_8, v_true); (fld_10, v_true); (fld_30, (B "csvlite")); (fld_31, (bs [30]%N)); (fld_32, (bs [31]%N)); (fld_33, v_na); (fld_37, v_true); (fld_39, v_true)]);
    ([tok_1; tok_2; tok_3; tok_4], Some [(fld_0, (B "csvlite")); (fld_1, (B ";")); (fld_2, (B ":")); (fld_3, (bs [30]%N)); (fld_8, v_true); (fld_9, v_true); (fld_10, v_true); (fld_30, (B "csvlite")); (fld_31, (bs [30]%N)); (fld_32, (bs [31]%N)); (fld_33, v_na); (fld_37, v_true); (fld_39, v_true)]);
    ([tok_5; tok_2; tok_6; tok_4], Some [(fld_0, (B "csvlite")); (fld_1, (bs [31]%N)); (fld_2, v_na); (fld_3, (bs [30]%N)); (fld_8, v_true); (fld_10, v_true); (fld_30, (B "csvlite")); (fld_31, (bs [30]%N)); (fld_32, (B ";")); (fld_33, (B ":")); (fld_37, v_true); (fld_38, v_true); (fld_39, v_true)]);
    ([tok_7; tok_2; tok_8; tok_2], Some [(fld_0, (B "csvlite")); (fld_1, (bs [31]%N)); (fld_2, v_na); (fld_3, (B ";")); (fld_8, v_true); (fld_10, v_true); (fld_30, (B "csvlite")); (fld_31, (B ";")); (fld_32, (bs [31]%N)); (fld_33, v_na); (fld_37, v_true); (fld_39, v_true)])]);
  (tok_9, [
    ([], Some [(fld_0, (B "csvlite")); (fld_1, (bs [31]%N)); (fld_2, v_na); (fld_3, (bs [30]%N)); (fld_8, v_true); (fld_10, v_true); (fld_30, (B "csvlite")); (fld_31, (bs [30]%N)); (fld_32, (bs [31]%N)); (fld_33, v_na); (fld_37, v_true); (fld_39, v_true)]);
    ([tok_1; tok_2; tok_3; tok_4], Some [(fld_0, (B "csvlite")); (fld_1, (B ";")); (fld_2, (B ":")); (fld_3, (bs [30]%N)); (fld_8, v_true); (fld_9, v_true); (fld_10, v_true); (fld_30, (B "csvlite")); (fld_31, (bs [30]%N)); (fld_32, (bs [31]%N)); (fld_33, v_na); (fld_37, v_true); (fld_39, v_true)]);
    ([tok_5; tok_2; tok_6; tok_4], Some [(fld_0, (B "csvlite")); (fld_1, (bs [31]%N)); (fld_2, v_na); (fld_3, (bs [30]%N)); (fld_8, v_true); (fld_10, v_true); (fld_30, (B "csvlite")); (fld_31, (bs [30]%N)); (fld_32, (B ";")); (fld_33, (B ":")); (fld_37, v_true); (fld_38, v_true); (fld_39, v_true)]);
    ([tok_7; tok_2; tok_8; tok_2], Some [(fld_0, (B "csvlite")); (fld_1, (bs [31]%N)); (fld_2, v_na); (fld_3, (B ";")); (fld_8, v_true); (fld_10, v_true); (fld_30, (B "csvlite")); (fld_31, (B ";")); (fld_32, (bs [31]%N)); (fld_33, v_na); (fld_37, v_true); (fld_39, v_true)])]);
  (tok_10, [
    ([], Some [(fld_0, (B "csv")); (fld_2, v_na); (fld_30, (B "csv")); (fld_33, v_na)]);
    ([tok_1; tok_2; tok_3; tok_4], Some [(fld_0, (B "csv")); (fld_1, (B ";")); (fld_2, (B ":")); (fld_8, v_true); (fld_9, v_true); (fld_30, (B "csv")); (fld_33, v_na)]);
    ([tok_5; tok_2; tok_6; tok_4], Some [(fld_0, (B "csv")); (fld_2, v_na); (fld_30, (B "csv")); (fld_32, (B ";")); (fld_33, (B ":")); (fld_37, v_true); (fld_38, v_true)]);
    ([tok_7; tok_2; tok_8; tok_2], Some [(fld_0, (B "csv")); (fld_2, v_na); (fld_3, (B ";")); (fld_10, v_true); (fld_30, (B "csv")); (fld_31, (B ";")); (fld_33, v_na); (fld_39, v_true)])]);
  (tok_11, [
    ([], Some [(fld_0, (B "csv")); (fld_2, v_na); (fld_30, (B "csv")); (fld_33, v_na)]);
    ([tok_1; tok_2; tok_3; tok_4], Some [(fld_0, (B "csv")); (fld_1, (B ";")); (fld_2, (B ":")); (fld_8, v_true); (fld_9, v_true); (fld_30, (B "csv")); (fld_33, v_na)]);
    ([tok_5; tok_2; tok_6; tok_4], Some [(fld_0, (B "csv")); (fld_2, v_na); (fld_30, (B "csv")); (fld_32, (B ";")); (fld_33, (B ":")); (fld_37, v_true); (fld_38, v_true)]);
    ([tok_7; tok_2; tok_8; tok_2], Some [(fld_0, (B "csv")); (fld_2, v_na); (fld_3, (B ";")); (fld_10, v_true); (fld_30, (B "csv")); (fld_31, (B ";")); (fld_33, v_na); (fld_39, v_true)])]);
  (tok_12, [
    ([], Some [(fld_0, (B "csv")); (fld_2, v_na); (fld_30, (B "csv")); (fld_33, v_na)]);
    ([tok_1; tok_2; tok_3; tok_4], Some [(fld_0, (B "csv")); (fld_1, (B ";")); (fld_2, (B ":")); (fld_8, v_true); (fld_9, v_true); (fld_30, (B "csv")); (fld_33, v_na)]);
    ([tok_5; tok_2; tok_6; tok_4], Some [(fld_0, (B "csv")); (fld_2, v_na); (fld_30, (B "csv")); (fld_32, (B ";")); (fld_33, (B ":")); (fld_37, v_true); (fld_38, v_true)]);
    ([tok_7; tok_2; tok_8; tok_2], Some [(fld_0, (B "csv")); (fld_2, v_na); (fld_3, (B ";")); (fld_10, v_true); (fld_30, (B "csv")); (fld_31, (B ";")); (fld_33, v_na); (fld_39, v_true)])]);
  (tok_13, [
    ([], Some [(fld_0, (B "csvlite")); (fld_2, v_na); (fld_30, (B "csvlite")); (fld_33, v_na)]);
    ([tok_1; tok_2; tok_3; tok_4], Some [(fld_0, (B "csvlite")); (fld_1, (B ";")); (fld_2, (B ":")); (fld_8, v_true); (fld_9, v_true); (fld_30, (B "csvlite")); (fld_33, v_na)]);
    ([tok_5; tok_2; tok_6; tok_4], Some [(fld_0, (B "csvlite")); (fld_2, v_na); (fld_30, (B "csvlite")); (fld_32, (B ";")); (fld_33, (B ":")); (fld_37, v_true); (fld_38, v_true)]);
    ([tok_7; tok_2; tok_8; tok_2], Some [(fld_0, (B "csvlite")); (fld_2, v_na); (fld_3, (B ";")); (fld_10, v_true); (fld_30, (B "csvlite")); (fld_31, (B ";")); (fld_33, v_na); (fld_39, v_true)])]);
  (tok_14, [
    ([], Some [(fld_0, (B "dcf")); (fld_1, v_na); (fld_2, v_na); (fld_3, v_na); (fld_30, (B "dcf")); (fld_31, v_na); (fld_32, v_na); (fld_33, v_na); (fld_65, v_false)]);
    ([tok_1; tok_2; tok_3; tok_4], Some [(fld_0, (B "dcf")); (fld_1, (B ";")); (fld_2, (B ":")); (fld_3, v_na); (fld_8, v_true); (fld_9, v_true); (fld_30, (B "dcf")); (fld_31, v_na); (fld_32, v_na); (fld_33, v_na); (fld_65, v_false)]);
    ([tok_5; tok_2; tok_6; tok_4], Some [(fld_0, (B "dcf")); (fld_1, v_na); (fld_2, v_na); (fld_3, v_na); (fld_30, (B "dcf")); (fld_31, v_na); (fld_32, (B ";")); (fld_33, (B ":")); (fld_37, v_true); (fld_38, v_true); (fld_65, v_false)]);
    ([tok_7; tok_2; tok_8; tok_2], Some [(fld_0, (B "dcf")); (fld_1, v_na); (fld_2, v_na); (fld_3, (B ";")); (fld_10, v_true); (fld_30, (B "dcf")); (fld_31, (B ";")); (fld_32, v_na); (fld_33, v_na); (fld_39, v_true); (fld_65, v_false)])]);
  (tok_15, [
    ([], Some []);
    ([tok_1; tok_2; tok_3; tok_4], Some [(fld_1, (B ";")); (fld_2, (B ":")); (fld_8, v_true); (fld_9, v_true)]);
    ([tok_5; tok_2; tok_6; tok_4], Some [(fld_32, (B ";")); (fld_33, (B ":")); (fld_37, v_true); (fld_38, v_true)]);
    ([tok_7; tok_2; tok_8; tok_2], Some [(fld_3, (B ";")); (fld_10, v_true); (fld_31, (B ";")); (fld_39, v_true)])]);
  (tok_16, [
    ([], Some []);
    ([tok_1; tok_2; tok_3; tok_4], Some [(fld_1, (B ";")); (fld_2, (B ":")); (fld_8, v_true); (fld_9, v_true)]);
    ([tok_5; tok_2; tok_6; tok_4], Some [(fld_32, (B ";")); (fld_33, (B ":")); (fld_37, v_true); (fld_38, v_true)]);
    ([tok_7; tok_2; tok_8; tok_2], Some [(fld_3, (B ";")); (fld_10, v_true); (fld_31, (B ";")); (fld_39, v_true)])]);
  (tok_17, [
    ([], Some [(fld_0, (B "dkvpx")); (fld_30, (B "dkvpx"))]);
    ([tok_1; tok_2; tok_3; tok_4], Some [(fld_0, (B "dkvpx")); (fld_1, (B ";")); (fld_2, (B ":")); (fld_8, v_true); (fld_9, v_true); (fld_30, (B "dkvpx"))]);
    ([tok_5; tok_2; tok_6; tok_4], Some [(fld_0, (B "dkvpx")); (fld_30, (B "dkvpx")); (fld_32, (B ";")); (fld_33, (B ":")); (fld_37, v_true); (fld_38, v_true)]);
    ([tok_7; tok_2; tok_8; tok_2], Some [(fld_0, (B "dkvpx")); (fld_3, (B ";")); (fld_10, v_true); (fld_30, (B "dkvpx")); (fld_31, (B ";")); (fld_39, v_true)])]);
  (tok_18, [
    ([], None);
    ([tok_1; tok_2; tok_3; tok_4], None);
    ([tok_5; tok_2; tok_6; tok_4], None);
    ([tok_7; tok_2; tok_8; tok_2], None)]);
  (tok_19, [
    ([], None);
    ([tok_1; tok_2; tok_3; tok_4], None);
    ([tok_5; tok_2; tok_6; tok_4], None);
    ([tok_7; tok_2; tok_8; tok_2], None)]);
  (tok_20, [
    ([], None);
    ([tok_1; tok_2; tok_3; tok_4], None);
    ([tok_5; tok_2; tok_6; tok_4], None);
    ([tok_7; tok_2; tok_8; tok_2], None)]);
  (tok_21, [
    ([], None);
    ([tok_1; tok_2; tok_3; tok_4], None);
    ([tok_5; tok_2; tok_6; tok_4], None);
    ([tok_7; tok_2; tok_8; tok_2], None)]);
  (tok_22, [
    ([], Some [(fld_0, (B "csvlite")); (fld_1, (bs [31]%N)); (fld_2, v_na); (fld_3, (bs [30]%N)); (fld_8, v_true); (fld_10, v_true)]);
    ([tok_1; tok_2; tok_3; tok_4], Some [(fld_0, (B "csvlite")); (fld_1, (B ";")); (fld_2, (B ":")); (fld_3, (bs [30]%N)); (fld_8, v_true); (fld_9, v_true); (fld_10, v_true)]);
    ([tok_5; tok_2; tok_6; tok_4], Some [(fld_0, (B "csvlite")); (fld_1, (bs [31]%N)); (fld_2, v_na); (fld_3, (bs [30]%N)); (fld_8, v_true); (fld_10, v_true); (fld_32, (B ";")); (fld_33, (B ":")); (fld_37, v_true); (fld_38, v_true)]);
    ([tok_7; tok_2; tok_8; tok_2], Some [(fld_0, (B "csvlite")); (fld_1, (bs [31]%N)); (fld_2, v_na); (fld_3, (B ";")); (fld_8, v_true); (fld_10, v_true); (fld_31, (B ";")); (fld_39, v_true)]);
    ([tok_51], Some [(fld_0, (B "csvlite")); (fld_1, (bs [31]%N)); (fld_2, v_na); (fld_3, (bs [30]%N)); (fld_8, v_true); (fld_10, v_true); (fld_30, (B "csvlite")); (fld_31, (bs [30]%N)); (fld_32, (bs [31]%N)); (fld_33, v_na); (fld_37, v_true); (fld_39, v_true)]);
    ([tok_51; tok_1; tok_2; tok_3; tok_4], Some [(fld_0, (B "csvlite")); (fld_1, (B ";")); (fld_2, (B ":")); (fld_3, (bs [30]%N)); (fld_8, v_true); (fld_9, v_true); (fld_10, v_true); (fld_30, (B "csvlite")); (fld_31, (bs [30]%N)); (fld_32, (bs [31]%N)); (fld_33, v_na); (fld_37, v_true); (fld_39, v_true)]);
    ([tok_51; tok_5; tok_2; tok_6; tok_4], Some [(fld_0, (B "csvlite")); (fld_1, (bs [31]%N)); (fld_2, v_na); (fld_3, (bs [30]%N)); (fld_8, v_true); (fld_10, v_true); (fld_30, (B "csvlite")); (fld_31, (bs [30]%N)); (fld_32, (B ";")); (fld_33, (B ":")); (fld_37, v_true); (fld_38, v_true); (fld_39, v_true)]);
    ([tok_51; tok_7; tok_2; tok_8; tok_2], Some [(fld_0, (B "csvlite")); (fld_1, (bs [31]%N)); (fld_2, v_na); (fld_3, (B ";")); (fld_8, v_true); (fld_10, v_true); (fld_30, (B "csvlite")); (fld_31, (B ";")); (fld_32, (bs [31]%N)); (fld_33, v_na); (fld_37, v_true); (fld_39, v_true)])]);
  (tok_23, [
    ([], Some [(fld_0, (B "csvlite")); (fld_1, (bs [31]%N)); (fld_2, v_na); (fld_3, (bs [30]%N)); (fld_8, v_true); (fld_10, v_true)]);
    ([tok_1; tok_2; tok_3; tok_4], Some [(fld_0, (B "csvlite")); (fld_1, (B ";")); (fld_2, (B ":")); (fld_3, (bs [30]%N)); (fld_8, v_true); (fld_9, v_true); (fld_10, v_true)]);
    ([tok_5; tok_2; tok_6; tok_4], Some [(fld_0, (B "csvlite")); (fld_1, (bs [31]%N)); (fld_2, v_na); (fld_3, (bs [30]%N)); (fld_8, v_true); (fld_10, v_true); (fld_32, (B ";")); (fld_33, (B ":")); (fld_37, v_true); (fld_38, v_true)]);
    ([tok_7; tok_2; tok_8; tok_2], Some [(fld_0, (B "csvlite")); (fld_1, (bs [31]%N)); (fld_2, v_na); (fld_3, (B ";")); (fld_8, v_true); (fld_10, v_true); (fld_31, (B ";")); (fld_39, v_true)]);
    ([tok_52], Some [(fld_0, (B "csvlite")); (fld_1, (bs [31]%N)); (fld_2, v_na); (fld_3, (bs [30]%N)); (fld_8, v_true); (fld_10, v_true); (fld_30, (B "csvlite")); (fld_31, (bs [30]%N)); (fld_32, (bs [31]%N)); (fld_33, v_na); (fld_37, v_true); (fld_39, v_true)]);
    ([tok_52; tok_1; tok_2; tok_3; tok_4], Some [(fld_0, (B "csvlite")); (fld_1, (B ";")); (fld_2, (B ":")); (fld_3, (bs [30]%N)); (fld_8, v_true); (fld_9, v_true); (fld_10, v_true); (fld_30, (B "csvlite")); (fld_31, (bs [30]%N)); (fld_32, (bs [31]%N)); (fld_33, v_na); (fld_37, v_true); (fld_39, v_true)]);
    ([tok_52; tok_5; tok_2; tok_6; tok_4], Some [(fld_0, (B "csvlite")); (fld_1, (bs [31]%N)); (fld_2, v_na); (fld_3, (bs [30]%N)); (fld_8, v_true); (fld_10, v_true); (fld_30, (B "csvlite")); (fld_31, (bs [30]%N)); (fld_32, (B ";")); (fld_33, (B ":")); (fld_37, v_true); (fld_38, v_true); (fld_39, v_true)]);
    ([tok_52; tok_7; tok_2; tok_8; tok_2], Some [(fld_0, (B "csvlite")); (fld_1, (bs [31]%N)); (fld_2, v_na); (fld_3, (B ";")); (fld_8, v_true); (fld_10, v_true); (fld_30, (B "csvlite")); (fld_31, (B ";")); (fld_32, (bs [31]%N)); (fld_33, v_na); (fld_37, v_true); (fld_39, v_true)])]);
  (tok_24, [
    ([], Some [(fld_0, (B "csv")); (fld_2, v_na)]);
    ([tok_1; tok_2; tok_3; tok_4], Some [(fld_0, (B "csv")); (fld_1, (B ";")); (fld_2, (B ":")); (fld_8, v_true); (fld_9, v_true)]);
    ([tok_5; tok_2; tok_6; tok_4], Some [(fld_0, (B "csv")); (fld_2, v_na); (fld_32, (B ";")); (fld_33, (B ":")); (fld_37, v_true); (fld_38, v_true)]);
    ([tok_7; tok_2; tok_8; tok_2], Some [(fld_0, (B "csv")); (fld_2, v_na); (fld_3, (B ";")); (fld_10, v_true); (fld_31, (B ";")); (fld_39, v_true)]);
    ([tok_62; tok_233], Some [(fld_0, (B "csv")); (fld_2, v_na); (fld_30, (B "pprint")); (fld_32, (B " ")); (fld_33, v_na); (fld_41, v_true)]);
    ([tok_62; tok_233; tok_1; tok_2; tok_3; tok_4], Some [(fld_0, (B "csv")); (fld_1, (B ";")); (fld_2, (B ":")); (fld_8, v_true); (fld_9, v_true); (fld_30, (B "pprint")); (fld_32, (B " ")); (fld_33, v_na); (fld_41, v_true)]);
    ([tok_62; tok_233; tok_5; tok_2; tok_6; tok_4], Some [(fld_0, (B "csv")); (fld_2, v_na); (fld_30, (B "pprint")); (fld_32, (B ";")); (fld_33, (B ":")); (fld_37, v_true); (fld_38, v_true); (fld_41, v_true)]);
    ([tok_62; tok_233; tok_7; tok_2; tok_8; tok_2], Some [(fld_0, (B "csv")); (fld_2, v_na); (fld_3, (B ";")); (fld_10, v_true); (fld_30, (B "pprint")); (fld_31, (B ";")); (fld_32, (B " ")); (fld_33, v_na); (fld_39, v_true); (fld_41, v_true)]);
    ([tok_53], Some [(fld_0, (B "csv")); (fld_2, v_na); (fld_30, (B "csv")); (fld_33, v_na)]);
    ([tok_53; tok_1; tok_2; tok_3; tok_4], Some [(fld_0, (B "csv")); (fld_1, (B ";")); (fld_2, (B ":")); (fld_8, v_true); (fld_9, v_true); (fld_30, (B "csv")); (fld_33, v_na)]);
    ([tok_53; tok_5; tok_2; tok_6; tok_4], Some [(fld_0, (B "csv")); (fld_2, v_na); (fld_30, (B "csv")); (fld_32, (B ";")); (fld_33, (B ":")); (fld_37, v_true); (fld_38, v_true)]);
    ([tok_53; tok_7; tok_2; tok_8; tok_2], Some [(fld_0, (B "csv")); (fld_2, v_na); (fld_3, (B ";")); (fld_10, v_true); (fld_30, (B "csv")); (fld_31, (B ";")); (fld_33, v_na); (fld_39, v_true)]);
    ([tok_56], Some [(fld_0, (B "csv")); (fld_2, v_na)]);
    ([tok_56; tok_1; tok_2; tok_3; tok_4], Some [(fld_0, (B "csv")); (fld_1, (B ";")); (fld_2, (B ":")); (fld_8, v_true); (fld_9, v_true)]);
    ([tok_56; tok_5; tok_2; tok_6; tok_4], Some [(fld_0, (B "csv")); (fld_2, v_na); (fld_32, (B ";")); (fld_33, (B ":")); (fld_37, v_true); (fld_38, v_true)]);
    ([tok_56; tok_7; tok_2; tok_8; tok_2], Some [(fld_0, (B "csv")); (fld_2, v_na); (fld_3, (B ";")); (fld_10, v_true); (fld_31, (B ";")); (fld_39, v_true)]);
    ([tok_57], Some [(fld_0, (B "csv")); (fld_2, v_na); (fld_30, (B "json")); (fld_31, v_na); (fld_32, v_na); (fld_33, v_na); (fld_65, v_false); (fld_66, v_true)]);
    ([tok_57; tok_1; tok_2; tok_3; tok_4], Some [(fld_0, (B "csv")); (fld_1, (B ";")); (fld_2, (B ":")); (fld_8, v_true); (fld_9, v_true); (fld_30, (B "json")); (fld_31, v_na); (fld_32, v_na); (fld_33, v_na); (fld_65, v_false); (fld_66, v_true)]);
    ([tok_57; tok_5; tok_2; tok_6; tok_4], Some [(fld_0, (B "csv")); (fld_2, v_na); (fld_30, (B "json")); (fld_31, v_na); (fld_32, (B ";")); (fld_33, (B ":")); (fld_37, v_true); (fld_38, v_true); (fld_65, v_false); (fld_66, v_true)]);
    ([tok_57; tok_7; tok_2; tok_8; tok_2], Some [(fld_0, (B "csv")); (fld_2, v_na); (fld_3, (B ";")); (fld_10, v_true); (fld_30, (B "json")); (fld_31, (B ";")); (fld_32, v_na); (fld_33, v_na); (fld_39, v_true); (fld_65, v_false); (fld_66, v_true)]);
    ([tok_58], Some [(fld_0, (B "csv")); (fld_2, v_na); (fld_30, (B "jsonl")); (fld_31, (B "")); (fld_32, (B "")); (fld_33, (B "")); (fld_65, v_false); (fld_66, v_true)]);
    ([tok_58; tok_1; tok_2; tok_3; tok_4], Some [(fld_0, (B "csv")); (fld_1, (B ";")); (fld_2, (B ":")); (fld_8, v_true); (fld_9, v_true); (fld_30, (B "jsonl")); (fld_31, (B "")); (fld_32, (B "")); (fld_33, (B "")); (fld_65, v_false); (fld_66, v_true)]);
    ([tok_58; tok_5; tok_2; tok_6; tok_4], Some [(fld_0, (B "csv")); (fld_2, v_na); (fld_30, (B "jsonl")); (fld_31, (B "")); (fld_32, (B ";")); (fld_33, (B ":")); (fld_37, v_true); (fld_38, v_true); (fld_65, v_false); (fld_66, v_true)]);
    ([tok_58; tok_7; tok_2; tok_8; tok_2], Some [(fld_0, (B "csv")); (fld_2, v_na); (fld_3, (B ";")); (fld_10, v_true); (fld_30, (B "jsonl")); (fld_31, (B ";")); (fld_32, (B "")); (fld_33, (B "")); (fld_39, v_true); (fld_65, v_false); (fld_66, v_true)]);
    ([tok_59], Some [(fld_0, (B "csv")); (fld_2, v_na); (fld_30, (B "markdown")); (fld_32, (B " ")); (fld_33, v_na)]);
    ([tok_59; tok_1; tok_2; tok_3; tok_4], Some [(fld_0, (B "csv")); (fld_1, (B ";")); (fld_2, (B ":")); (fld_8, v_true); (fld_9, v_true); (fld_30, (B "markdown")); (fld_32, (B " ")); (fld_33, v_na)]);
    ([tok_59; tok_5; tok_2; tok_6; tok_4], Some [(fld_0, (B "csv")); (fld_2, v_na); (fld_30, (B "markdown")); (fld_32, (B ";")); (fld_33, (B ":")); (fld_37, v_true); (fld_38, v_true)]);
    ([tok_59; tok_7; tok_2; tok_8; tok_2], Some [(fld_0, (B "csv")); (fld_2, v_na); (fld_3, (B ";")); (fld_10, v_true); (fld_30, (B "markdown")); (fld_31, (B ";")); (fld_32, (B " ")); (fld_33, v_na); (fld_39, v_true)]);
    ([tok_61], Some [(fld_0, (B "csv")); (fld_2, v_na); (fld_30, (B "nidx")); (fld_32, (B " ")); (fld_33, v_na); (fld_37, v_true)]);
    ([tok_61; tok_1; tok_2; tok_3; tok_4], Some [(fld_0, (B "csv")); (fld_1, (B ";")); (fld_2, (B ":")); (fld_8, v_true); (fld_9, v_true); (fld_30, (B "nidx")); (fld_32, (B " ")); (fld_33, v_na); (fld_37, v_true)]);
    ([tok_61; tok_5; tok_2; tok_6; tok_4], Some [(fld_0, (B "csv")); (fld_2, v_na); (fld_30, (B "nidx")); (fld_32, (B ";")); (fld_33, (B ":")); (fld_37, v_true); (fld_38, v_true)]);
    ([tok_61; tok_7; tok_2; tok_8; tok_2], Some [(fld_0, (B "csv")); (fld_2, v_na); (fld_3, (B ";")); (fld_10, v_true); (fld_30, (B "nidx")); (fld_31, (B ";")); (fld_32, (B " ")); (fld_33, v_na); (fld_37, v_true); (fld_39, v_true)]);
    ([tok_62], Some [(fld_0, (B "csv")); (fld_2, v_na); (fld_30, (B "pprint")); (fld_32, (B " ")); (fld_33, v_na)]);
    ([tok_62; tok_1; tok_2; tok_3; tok_4], Some [(fld_0, (B "csv")); (fld_1, (B ";")); (fld_2, (B ":")); (fld_8, v_true); (fld_9, v_true); (fld_30, (B "pprint")); (fld_32, (B " ")); (fld_33, v_na)]);
    ([tok_62; tok_5; tok_2; tok_6; tok_4], Some [(fld_0, (B "csv")); (fld_2, v_na); (fld_30, (B "pprint")); (fld_32, (B ";")); (fld_33, (B ":")); (fld_37, v_true); (fld_38, v_true)]);
    ([tok_62; tok_7; tok_2; tok_8; tok_2], Some [(fld_0, (B "csv")); (fld_2, v_na); (fld_3, (B ";")); (fld_10, v_true); (fld_30, (B "pprint")); (fld_31, (B ";")); (fld_32, (B " ")); (fld_33, v_na); (fld_39, v_true)]);
    ([tok_64], Some [(fld_0, (B "csv")); (fld_2, v_na); (fld_30, (B "tsv")); (fld_32, (bs [9]%N)); (fld_33, v_na); (fld_37, v_true)]);
    ([tok_64; tok_1; tok_2; tok_3; tok_4], Some [(fld_0, (B "csv")); (fld_1, (B ";")); (fld_2, (B ":")); (fld_8, v_true); (fld_9, v_true); (fld_30, (B "tsv")); (fld_32, (bs [9]%N)); (fld_33, v_na); (fld_37, v_true)]);
    ([tok_64; tok_5; tok_2; tok_6; tok_4], Some [(fld_0, (B "csv")); (fld_2, v_na); (fld_30, (B "tsv")); (fld_32, (B ";")); (fld_33, (B ":")); (fld_37, v_true); (fld_38, v_true)]);
    ([tok_64; tok_7; tok_2; tok_8; tok_2], Some [(fld_0, (B "csv")); (fld_2, v_na); (fld_3, (B ";")); (fld_10, v_true); (fld_30, (B "tsv")); (fld_31, (B ";")); (fld_32, (bs [9]%N)); (fld_33, v_na); (fld_37, v_true); (fld_39, v_true)]);
    ([tok_68], Some [(fld_0, (B "csv")); (fld_2, v_na); (fld_30, (B "xtab")); (fld_31, (bs [10;10]%N)); (fld_32, (bs [10]%N)); (fld_33, (B " "))]);
    ([tok_68; tok_1; tok_2; tok_3; tok_4], Some [(fld_0, (B "csv")); (fld_1, (B ";")); (fld_2, (B ":")); (fld_8, v_true); (fld_9, v_true); (fld_30, (B "xtab")); (fld_31, (bs [10;10]%N)); (fld_32, (bs [10]%N)); (fld_33, (B " "))]);
    ([tok_68; tok_5; tok_2; tok_6; tok_4], Some [(fld_0, (B "csv")); (fld_2, v_na); (fld_30, (B "xtab")); (fld_31, (bs [10;10]%N)); (fld_32, (B ";")); (fld_33, (B ":")); (fld_37, v_true); (fld_38, v_true)]);
    ([tok_68; tok_7; tok_2; tok_8; tok_2], Some [(fld_0, (B "csv")); (fld_2, v_na); (fld_3, (B ";")); (fld_10, v_true); (fld_30, (B "xtab")); (fld_31, (B ";")); (fld_32, (bs [10]%N)); (fld_33, (B " ")); (fld_39, v_true)]);
    ([tok_69], Some [(fld_0, (B "csv")); (fld_2, v_na); (fld_30, (B "yaml")); (fld_31, v_na); (fld_32, v_na); (fld_33, v_na); (fld_65, v_false); (fld_66, v_true)]);
    ([tok_69; tok_1; tok_2; tok_3; tok_4], Some [(fld_0, (B "csv")); (fld_1, (B ";")); (fld_2, (B ":")); (fld_8, v_true); (fld_9, v_true); (fld_30, (B "yaml")); (fld_31, v_na); (fld_32, v_na); (fld_33, v_na); (fld_65, v_false); (fld_66, v_true)]);
    ([tok_69; tok_5; tok_2; tok_6; tok_4], Some [(fld_0, (B "csv")); (fld_2, v_na); (fld_30, (B "yaml")); (fld_31, v_na); (fld_32, (B ";")); (fld_33, (B ":")); (fld_37, v_true); (fld_38, v_true); (fld_65, v_false); (fld_66, v_true)]);
    ([tok_69; tok_7; tok_2; tok_8; tok_2], Some [(fld_0, (B "csv")); (fld_2, v_na); (fld_3, (B ";")); (fld_10, v_true); (fld_30, (B "yaml")); (fld_31, (B ";")); (fld_32, v_na); (fld_33, v_na); (fld_39, v_true); (fld_65, v_false); (fld_66, v_true)])]);
  (tok_25, [
    ([], Some [(fld_0, (B "csvlite")); (fld_2, v_na)]);
    ([tok_1; tok_2; tok_3; tok_4], Some [(fld_0, (B "csvlite")); (fld_1, (B ";")); (fld_2, (B ":")); (fld_8, v_true); (fld_9, v_true)]);
    ([tok_5; tok_2; tok_6; tok_4], Some [(fld_0, (B "csvlite")); (fld_2, v_na); (fld_32, (B ";")); (fld_33, (B ":")); (fld_37, v_true); (fld_38, v_true)]);
    ([tok_7; tok_2; tok_8; tok_2], Some [(fld_0, (B "csvlite")); (fld_2, v_na); (fld_3, (B ";")); (fld_10, v_true); (fld_31, (B ";")); (fld_39, v_true)]);
    ([tok_54], Some [(fld_0, (B "csvlite")); (fld_2, v_na); (fld_30, (B "csvlite")); (fld_33, v_na)]);
    ([tok_54; tok_1; tok_2; tok_3; tok_4], Some [(fld_0, (B "csvlite")); (fld_1, (B ";")); (fld_2, (B ":")); (fld_8, v_true); (fld_9, v_true); (fld_30, (B "csvlite")); (fld_33, v_na)]);
    ([tok_54; tok_5; tok_2; tok_6; tok_4], Some [(fld_0, (B "csvlite")); (fld_2, v_na); (fld_30, (B "csvlite")); (fld_32, (B ";")); (fld_33, (B ":")); (fld_37, v_true); (fld_38, v_true)]);
    ([tok_54; tok_7; tok_2; tok_8; tok_2], Some [(fld_0, (B "csvlite")); (fld_2, v_na); (fld_3, (B ";")); (fld_10, v_true); (fld_30, (B "csvlite")); (fld_31, (B ";")); (fld_33, v_na); (fld_39, v_true)])]);
  (tok_26, [
    ([], Some [(fld_0, (B "dcf")); (fld_1, v_na); (fld_2, v_na); (fld_3, v_na)]);
    ([tok_1; tok_2; tok_3; tok_4], Some [(fld_0, (B "dcf")); (fld_1, (B ";")); (fld_2, (B ":")); (fld_3, v_na); (fld_8, v_true); (fld_9, v_true)]);
    ([tok_5; tok_2; tok_6; tok_4], Some [(fld_0, (B "dcf")); (fld_1, v_na); (fld_2, v_na); (fld_3, v_na); (fld_32, (B ";")); (fld_33, (B ":")); (fld_37, v_true); (fld_38, v_true)]);
    ([tok_7; tok_2; tok_8; tok_2], Some [(fld_0, (B "dcf")); (fld_1, v_na); (fld_2, v_na); (fld_3, (B ";")); (fld_10, v_true); (fld_31, (B ";")); (fld_39, v_true)]);
    ([tok_55], Some [(fld_0, (B "dcf")); (fld_1, v_na); (fld_2, v_na); (fld_3, v_na); (fld_30, (B "dcf")); (fld_31, v_na); (fld_32, v_na); (fld_33, v_na); (fld_65, v_false)]);
    ([tok_55; tok_1; tok_2; tok_3; tok_4], Some [(fld_0, (B "dcf")); (fld_1, (B ";")); (fld_2, (B ":")); (fld_3, v_na); (fld_8, v_true); (fld_9, v_true); (fld_30, (B "dcf")); (fld_31, v_na); (fld_32, v_na); (fld_33, v_na); (fld_65, v_false)]);
    ([tok_55; tok_5; tok_2; tok_6; tok_4], Some [(fld_0, (B "dcf")); (fld_1, v_na); (fld_2, v_na); (fld_3, v_na); (fld_30, (B "dcf")); (fld_31, v_na); (fld_32, (B ";")); (fld_33, (B ":")); (fld_37, v_true); (fld_38, v_true); (fld_65, v_false)]);
    ([tok_55; tok_7; tok_2; tok_8; tok_2], Some [(fld_0, (B "dcf")); (fld_1, v_na); (fld_2, v_na); (fld_3, (B ";")); (fld_10, v_true); (fld_30, (B "dcf")); (fld_31, (B ";")); (fld_32, v_na); (fld_33, v_na); (fld_39, v_true); (fld_65, v_false)])]);
  (tok_27, [
    ([], Some []);
    ([tok_1; tok_2; tok_3; tok_4], Some [(fld_1, (B ";")); (fld_2, (B ":")); (fld_8, v_true); (fld_9, v_true)]);
    ([tok_5; tok_2; tok_6; tok_4], Some [(fld_32, (B ";")); (fld_33, (B ":")); (fld_37, v_true); (fld_38, v_true)]);
    ([tok_7; tok_2; tok_8; tok_2], Some [(fld_3, (B ";")); (fld_10, v_true); (fld_31, (B ";")); (fld_39, v_true)]);
    ([tok_62; tok_233], Some [(fld_30, (B "pprint")); (fld_32, (B " ")); (fld_33, v_na); (fld_41, v_true)]);
    ([tok_62; tok_233; tok_1; tok_2; tok_3; tok_4], Some [(fld_1, (B ";")); (fld_2, (B ":")); (fld_8, v_true); (fld_9, v_true); (fld_30, (B "pprint")); (fld_32, (B " ")); (fld_33, v_na); (fld_41, v_true)]);
    ([tok_62; tok_233; tok_5; tok_2; tok_6; tok_4], Some [(fld_30, (B "pprint")); (fld_32, (B ";")); (fld_33, (B ":")); (fld_37, v_true); (fld_38, v_true); (fld_41, v_true)]);
    ([tok_62; tok_233; tok_7; tok_2; tok_8; tok_2], Some [(fld_3, (B ";")); (fld_10, v_true); (fld_30, (B "pprint")); (fld_31, (B ";")); (fld_32, (B " ")); (fld_33, v_na); (fld_39, v_true); (fld_41, v_true)]);
    ([tok_53], Some [(fld_30, (B "csv")); (fld_33, v_na)]);
    ([tok_53; tok_1; tok_2; tok_3; tok_4], Some [(fld_1, (B ";")); (fld_2, (B ":")); (fld_8, v_true); (fld_9, v_true); (fld_30, (B "csv")); (fld_33, v_na)]);
    ([tok_53; tok_5; tok_2; tok_6; tok_4], Some [(fld_30, (B "csv")); (fld_32, (B ";")); (fld_33, (B ":")); (fld_37, v_true); (fld_38, v_true)]);
    ([tok_53; tok_7; tok_2; tok_8; tok_2], Some [(fld_3, (B ";")); (fld_10, v_true); (fld_30, (B "csv")); (fld_31, (B ";")); (fld_33, v_na); (fld_39, v_true)]);
    ([tok_56], Some []);
    ([tok_56; tok_1; tok_2; tok_3; tok_4], Some [(fld_1, (B ";")); (fld_2, (B ":")); (fld_8, v_true); (fld_9, v_true)]);
    ([tok_56; tok_5; tok_2; tok_6; tok_4], Some [(fld_32, (B ";")); (fld_33, (B ":")); (fld_37, v_true); (fld_38, v_true)]);
    ([tok_56; tok_7; tok_2; tok_8; tok_2], Some [(fld_3, (B ";")); (fld_10, v_true); (fld_31, (B ";")); (fld_39, v_true)]);
    ([tok_57], Some [(fld_30, (B "json")); (fld_31, v_na); (fld_32, v_na); (fld_33, v_na); (fld_65, v_false); (fld_66, v_true)]);
    ([tok_57; tok_1; tok_2; tok_3; tok_4], Some [(fld_1, (B ";")); (fld_2, (B ":")); (fld_8, v_true); (fld_9, v_true); (fld_30, (B "json")); (fld_31, v_na); (fld_32, v_na); (fld_33, v_na); (fld_65, v_false); (fld_66, v_true)]);
    ([tok_57; tok_5; tok_2; tok_6; tok_4], Some [(fld_30, (B "json")); (fld_31, v_na); (fld_32, (B ";")); (fld_33, (B ":")); (fld_37, v_true); (fld_38, v_true); (fld_65, v_false); (fld_66, v_true)]);
    ([tok_57; tok_7; tok_2; tok_8; tok_2], Some [(fld_3, (B ";")); (fld_10, v_true); (fld_30, (B "json")); (fld_31, (B ";")); (fld_32, v_na); (fld_33, v_na); (fld_39, v_true); (fld_65, v_false); (fld_66, v_true)]);
    ([tok_58], Some [(fld_30, (B "jsonl")); (fld_31, (B "")); (fld_32, (B "")); (fld_33, (B "")); (fld_65, v_false); (fld_66, v_true)]);
    ([tok_58; tok_1; tok_2; tok_3; tok_4], Some [(fld_1, (B ";")); (fld_2, (B ":")); (fld_8, v_true); (fld_9, v_true); (fld_30, (B "jsonl")); (fld_31, (B "")); (fld_32, (B "")); (fld_33, (B "")); (fld_65, v_false); (fld_66, v_true)]);
    ([tok_58; tok_5; tok_2; tok_6; tok_4], Some [(fld_30, (B "jsonl")); (fld_31, (B "")); (fld_32, (B ";")); (fld_33, (B ":")); (fld_37, v_true); (fld_38, v_true); (fld_65, v_false); (fld_66, v_true)]);
    ([tok_58; tok_7; tok_2; tok_8; tok_2], Some [(fld_3, (B ";")); (fld_10, v_true); (fld_30, (B "jsonl")); (fld_31, (B ";")); (fld_32, (B "")); (fld_33, (B "")); (fld_39, v_true); (fld_65, v_false); (fld_66, v_true)]);
    ([tok_59], Some [(fld_30, (B "markdown")); (fld_32, (B " ")); (fld_33, v_na)]);
    ([tok_59; tok_1; tok_2; tok_3; tok_4], Some [(fld_1, (B ";")); (fld_2, (B ":")); (fld_8, v_true); (fld_9, v_true); (fld_30, (B "markdown")); (fld_32, (B " ")); (fld_33, v_na)]);
    ([tok_59; tok_5; tok_2; tok_6; tok_4], Some [(fld_30, (B "markdown")); (fld_32, (B ";")); (fld_33, (B ":")); (fld_37, v_true); (fld_38, v_true)]);
    ([tok_59; tok_7; tok_2; tok_8; tok_2], Some [(fld_3, (B ";")); (fld_10, v_true); (fld_30, (B "markdown")); (fld_31, (B ";")); (fld_32, (B " ")); (fld_33, v_na); (fld_39, v_true)]);
    ([tok_61], Some [(fld_30, (B "nidx")); (fld_32, (B " ")); (fld_33, v_na); (fld_37, v_true)]);
    ([tok_61; tok_1; tok_2; tok_3; tok_4], Some [(fld_1, (B ";")); (fld_2, (B ":")); (fld_8, v_true); (fld_9, v_true); (fld_30, (B "nidx")); (fld_32, (B " ")); (fld_33, v_na); (fld_37, v_true)]);
    ([tok_61; tok_5; tok_2; tok_6; tok_4], Some [(fld_30, (B "nidx")); (fld_32, (B ";")); (fld_33, (B ":")); (fld_37, v_true); (fld_38, v_true)]);
    ([tok_61; tok_7; tok_2; tok_8; tok_2], Some [(fld_3, (B ";")); (fld_10, v_true); (fld_30, (B "nidx")); (fld_31, (B ";")); (fld_32, (B " ")); (fld_33, v_na); (fld_37, v_true); (fld_39, v_true)]);
    ([tok_62], Some [(fld_30, (B "pprint")); (fld_32, (B " ")); (fld_33, v_na)]);
    ([tok_62; tok_1; tok_2; tok_3; tok_4], Some [(fld_1, (B ";")); (fld_2, (B ":")); (fld_8, v_true); (fld_9, v_true); (fld_30, (B "pprint")); (fld_32, (B " ")); (fld_33, v_na)]);
    ([tok_62; tok_5; tok_2; tok_6; tok_4], Some [(fld_30, (B "pprint")); (fld_32, (B ";")); (fld_33, (B ":")); (fld_37, v_true); (fld_38, v_true)]);
    ([tok_62; tok_7; tok_2; tok_8; tok_2], Some [(fld_3, (B ";")); (fld_10, v_true); (fld_30, (B "pprint")); (fld_31, (B ";")); (fld_32, (B " ")); (fld_33, v_na); (fld_39, v_true)]);
    ([tok_64], Some [(fld_30, (B "tsv")); (fld_32, (bs [9]%N)); (fld_33, v_na); (fld_37, v_true)]);
    ([tok_64; tok_1; tok_2; tok_3; tok_4], Some [(fld_1, (B ";")); (fld_2, (B ":")); (fld_8, v_true); (fld_9, v_true); (fld_30, (B "tsv")); (fld_32, (bs [9]%N)); (fld_33, v_na); (fld_37, v_true)]);
    ([tok_64; tok_5; tok_2; tok_6; tok_4], Some [(fld_30, (B "tsv")); (fld_32, (B ";")); (fld_33, (B ":")); (fld_37, v_true); (fld_38, v_true)]);
    ([tok_64; tok_7; tok_2; tok_8; tok_2], Some [(fld_3, (B ";")); (fld_10, v_true); (fld_30, (B "tsv")); (fld_31, (B ";")); (fld_32, (bs [9]%N)); (fld_33, v_na); (fld_37, v_true); (fld_39, v_true)]);
    ([tok_68], Some [(fld_30, (B "xtab")); (fld_31, (bs [10;10]%N)); (fld_32, (bs [10]%N)); (fld_33, (B " "))]);
    ([tok_68; tok_1; tok_2; tok_3; tok_4], Some [(fld_1, (B ";")); (fld_2, (B ":")); (fld_8, v_true); (fld_9, v_true); (fld_30, (B "xtab")); (fld_31, (bs [10;10]%N)); (fld_32, (bs [10]%N)); (fld_33, (B " "))]);
    ([tok_68; tok_5; tok_2; tok_6; tok_4], Some [(fld_30, (B "xtab")); (fld_31, (bs [10;10]%N)); (fld_32, (B ";")); (fld_33, (B ":")); (fld_37, v_true); (fld_38, v_true)]);
    ([tok_68; tok_7; tok_2; tok_8; tok_2], Some [(fld_3, (B ";")); (fld_10, v_true); (fld_30, (B "xtab")); (fld_31, (B ";")); (fld_32, (bs [10]%N)); (fld_33, (B " ")); (fld_39, v_true)]);
    ([tok_69], Some [(fld_30, (B "yaml")); (fld_31, v_na); (fld_32, v_na); (fld_33, v_na); (fld_65, v_false); (fld_66, v_true)]);
    ([tok_69; tok_1; tok_2; tok_3; tok_4], Some [(fld_1, (B ";")); (fld_2, (B ":")); (fld_8, v_true); (fld_9, v_true); (fld_30, (B "yaml")); (fld_31, v_na); (fld_32, v_na); (fld_33, v_na); (fld_65, v_false); (fld_66, v_true)]);
    ([tok_69; tok_5; tok_2; tok_6; tok_4], Some [(fld_30, (B "yaml")); (fld_31, v_na); (fld_32, (B ";")); (fld_33, (B ":")); (fld_37, v_true); (fld_38, v_true); (fld_65, v_false); (fld_66, v_true)]);
    ([tok_69; tok_7; tok_2; tok_8; tok_2], Some [(fld_3, (B ";")); (fld_10, v_true); (fld_30, (B "yaml")); (fld_31, (B ";")); (fld_32, v_na); (fld_33, v_na); (fld_39, v_true); (fld_65, v_false); (fld_66, v_true)])]);
  (tok_28, [
    ([], Some [(fld_0, (B "gen")); (fld_2, v_na)]);
    ([tok_1; tok_2; tok_3; tok_4], Some [(fld_0, (B "gen")); (fld_1, (B ";")); (fld_2, (B ":")); (fld_8, v_true); (fld_9, v_true)]);
    ([tok_5; tok_2; tok_6; tok_4], Some [(fld_0, (B "gen")); (fld_2, v_na); (fld_32, (B ";")); (fld_33, (B ":")); (fld_37, v_true); (fld_38, v_true)]);
    ([tok_7; tok_2; tok_8; tok_2], Some [(fld_0, (B "gen")); (fld_2, v_na); (fld_3, (B ";")); (fld_10, v_true); (fld_31, (B ";")); (fld_39, v_true)])]);
  (tok_29, [
    ([], Some [(fld_0, (B "json")); (fld_1, v_na); (fld_2, v_na); (fld_3, v_na)]);
    ([tok_1; tok_2; tok_3; tok_4], Some [(fld_0, (B "json")); (fld_1, (B ";")); (fld_2, (B ":")); (fld_3, v_na); (fld_8, v_true); (fld_9, v_true)]);
    ([tok_5; tok_2; tok_6; tok_4], Some [(fld_0, (B "json")); (fld_1, v_na); (fld_2, v_na); (fld_3, v_na); (fld_32, (B ";")); (fld_33, (B ":")); (fld_37, v_true); (fld_38, v_true)]);
    ([tok_7; tok_2; tok_8; tok_2], Some [(fld_0, (B "json")); (fld_1, v_na); (fld_2, v_na); (fld_3, (B ";")); (fld_10, v_true); (fld_31, (B ";")); (fld_39, v_true)]);
    ([tok_62; tok_233], Some [(fld_0, (B "json")); (fld_1, v_na); (fld_2, v_na); (fld_3, v_na); (fld_30, (B "pprint")); (fld_32, (B " ")); (fld_33, v_na); (fld_41, v_true)]);
    ([tok_62; tok_233; tok_1; tok_2; tok_3; tok_4], Some [(fld_0, (B "json")); (fld_1, (B ";")); (fld_2, (B ":")); (fld_3, v_na); (fld_8, v_true); (fld_9, v_true); (fld_30, (B "pprint")); (fld_32, (B " ")); (fld_33, v_na); (fld_41, v_true)]);
    ([tok_62; tok_233; tok_5; tok_2; tok_6; tok_4], Some [(fld_0, (B "json")); (fld_1, v_na); (fld_2, v_na); (fld_3, v_na); (fld_30, (B "pprint")); (fld_32, (B ";")); (fld_33, (B ":")); (fld_37, v_true); (fld_38, v_true); (fld_41, v_true)]);
    ([tok_62; tok_233; tok_7; tok_2; tok_8; tok_2], Some [(fld_0, (B "json")); (fld_1, v_na); (fld_2, v_na); (fld_3, (B ";")); (fld_10, v_true); (fld_30, (B "pprint")); (fld_31, (B ";")); (fld_32, (B " ")); (fld_33, v_na); (fld_39, v_true); (fld_41, v_true)]);
    ([tok_53], Some [(fld_0, (B "json")); (fld_1, v_na); (fld_2, v_na); (fld_3, v_na); (fld_30, (B "csv")); (fld_33, v_na)]);
    ([tok_53; tok_1; tok_2; tok_3; tok_4], Some [(fld_0, (B "json")); (fld_1, (B ";")); (fld_2, (B ":")); (fld_3, v_na); (fld_8, v_true); (fld_9, v_true); (fld_30, (B "csv")); (fld_33, v_na)]);
    ([tok_53; tok_5; tok_2; tok_6; tok_4], Some [(fld_0, (B "json")); (fld_1, v_na); (fld_2, v_na); (fld_3, v_na); (fld_30, (B "csv")); (fld_32, (B ";")); (fld_33, (B ":")); (fld_37, v_true); (fld_38, v_true)]);
    ([tok_53; tok_7; tok_2; tok_8; tok_2], Some [(fld_0, (B "json")); (fld_1, v_na); (fld_2, v_na); (fld_3, (B ";")); (fld_10, v_true); (fld_30, (B "csv")); (fld_31, (B ";")); (fld_33, v_na); (fld_39, v_true)]);
    ([tok_56], Some [(fld_0, (B "json")); (fld_1, v_na); (fld_2, v_na); (fld_3, v_na)]);
    ([tok_56; tok_1; tok_2; tok_3; tok_4], Some [(fld_0, (B "json")); (fld_1, (B ";")); (fld_2, (B ":")); (fld_3, v_na); (fld_8, v_true); (fld_9, v_true)]);
    ([tok_56; tok_5; tok_2; tok_6; tok_4], Some [(fld_0, (B "json")); (fld_1, v_na); (fld_2, v_na); (fld_3, v_na); (fld_32, (B ";")); (fld_33, (B ":")); (fld_37, v_true); (fld_38, v_true)]);
    ([tok_56; tok_7; tok_2; tok_8; tok_2], Some [(fld_0, (B "json")); (fld_1, v_na); (fld_2, v_na); (fld_3, (B ";")); (fld_10, v_true); (fld_31, (B ";")); (fld_39, v_true)]);
    ([tok_57], Some [(fld_0, (B "json")); (fld_1, v_na); (fld_2, v_na); (fld_3, v_na); (fld_30, (B "json")); (fld_31, v_na); (fld_32, v_na); (fld_33, v_na); (fld_65, v_false)]);
    ([tok_57; tok_1; tok_2; tok_3; tok_4], Some [(fld_0, (B "json")); (fld_1, (B ";")); (fld_2, (B ":")); (fld_3, v_na); (fld_8, v_true); (fld_9, v_true); (fld_30, (B "json")); (fld_31, v_na); (fld_32, v_na); (fld_33, v_na); (fld_65, v_false)]);
    ([tok_57; tok_5; tok_2; tok_6; tok_4], Some [(fld_0, (B "json")); (fld_1, v_na); (fld_2, v_na); (fld_3, v_na); (fld_30, (B "json")); (fld_31, v_na); (fld_32, (B ";")); (fld_33, (B ":")); (fld_37, v_true); (fld_38, v_true); (fld_65, v_false)]);
    ([tok_57; tok_7; tok_2; tok_8; tok_2], Some [(fld_0, (B "json")); (fld_1, v_na); (fld_2, v_na); (fld_3, (B ";")); (fld_10, v_true); (fld_30, (B "json")); (fld_31, (B ";")); (fld_32, v_na); (fld_33, v_na); (fld_39, v_true); (fld_65, v_false)]);
    ([tok_58], Some [(fld_0, (B "json")); (fld_1, v_na); (fld_2, v_na); (fld_3, v_na); (fld_30, (B "jsonl")); (fld_31, (B "")); (fld_32, (B "")); (fld_33, (B "")); (fld_65, v_false)]);
    ([tok_58; tok_1; tok_2; tok_3; tok_4], Some [(fld_0, (B "json")); (fld_1, (B ";")); (fld_2, (B ":")); (fld_3, v_na); (fld_8, v_true); (fld_9, v_true); (fld_30, (B "jsonl")); (fld_31, (B "")); (fld_32, (B "")); (fld_33, (B "")); (fld_65, v_false)]);
    ([tok_58; tok_5; tok_2; tok_6; tok_4], Some [(fld_0, (B "json")); (fld_1, v_na); (fld_2, v_na); (fld_3, v_na); (fld_30, (B "jsonl")); (fld_31, (B "")); (fld_32, (B ";")); (fld_33, (B ":")); (fld_37, v_true); (fld_38, v_true); (fld_65, v_false)]);
    ([tok_58; tok_7; tok_2; tok_8; tok_2], Some [(fld_0, (B "json")); (fld_1, v_na); (fld_2, v_na); (fld_3, (B ";")); (fld_10, v_true); (fld_30, (B "jsonl")); (fld_31, (B ";")); (fld_32, (B "")); (fld_33, (B "")); (fld_39, v_true); (fld_65, v_false)]);
    ([tok_59], Some [(fld_0, (B "json")); (fld_1, v_na); (fld_2, v_na); (fld_3, v_na); (fld_30, (B "markdown")); (fld_32, (B " ")); (fld_33, v_na)]);
    ([tok_59; tok_1; tok_2; tok_3; tok_4], Some [(fld_0, (B "json")); (fld_1, (B ";")); (fld_2, (B ":")); (fld_3, v_na); (fld_8, v_true); (fld_9, v_true); (fld_30, (B "markdown")); (fld_32, (B " ")); (fld_33, v_na)]);
    ([tok_59; tok_5; tok_2; tok_6; tok_4], Some [(fld_0, (B "json")); (fld_1, v_na); (fld_2, v_na); (fld_3, v_na); (fld_30, (B "markdown")); (fld_32, (B ";")); (fld_33, (B ":")); (fld_37, v_true); (fld_38, v_true)]);
    ([tok_59; tok_7; tok_2; tok_8; tok_2], Some [(fld_0, (B "json")); (fld_1, v_na); (fld_2, v_na); (fld_3, (B ";")); (fld_10, v_true); (fld_30, (B "markdown")); (fld_31, (B ";")); (fld_32, (B " ")); (fld_33, v_na); (fld_39, v_true)]);
    ([tok_61], Some [(fld_0, (B "json")); (fld_1, v_na); (fld_2, v_na); (fld_3, v_na); (fld_30, (B "nidx")); (fld_32, (B " ")); (fld_33, v_na); (fld_37, v_true)]);
    ([tok_61; tok_1; tok_2; tok_3; tok_4], Some [(fld_0, (B "json")); (fld_1, (B ";")); (fld_2, (B ":")); (fld_3, v_na); (fld_8, v_true); (fld_9, v_true); (fld_30, (B "nidx")); (fld_32, (B " ")); (fld_33, v_na); (fld_37, v_true)]);
    ([tok_61; tok_5; tok_2; tok_6; tok_4], Some [(fld_0, (B "json")); (fld_1, v_na); (fld_2, v_na); (fld_3, v_na); (fld_30, (B "nidx")); (fld_32, (B ";")); (fld_33, (B ":")); (fld_37, v_true); (fld_38, v_true)]);
    ([tok_61; tok_7; tok_2; tok_8; tok_2], Some [(fld_0, (B "json")); (fld_1, v_na); (fld_2, v_na); (fld_3, (B ";")); (fld_10, v_true); (fld_30, (B "nidx")); (fld_31, (B ";")); (fld_32, (B " ")); (fld_33, v_na); (fld_37, v_true); (fld_39, v_true)]);
    ([tok_62], Some [(fld_0, (B "json")); (fld_1, v_na); (fld_2, v_na); (fld_3, v_na); (fld_30, (B "pprint")); (fld_32, (B " ")); (fld_33, v_na)]);
    ([tok_62; tok_1; tok_2; tok_3; tok_4], Some [(fld_0, (B "json")); (fld_1, (B ";")); (fld_2, (B ":")); (fld_3, v_na); (fld_8, v_true); (fld_9, v_true); (fld_30, (B "pprint")); (fld_32, (B " ")); (fld_33, v_na)]);
    ([tok_62; tok_5; tok_2; tok_6; tok_4], Some [(fld_0, (B "json")); (fld_1, v_na); (fld_2, v_na); (fld_3, v_na); (fld_30, (B "pprint")); (fld_32, (B ";")); (fld_33, (B ":")); (fld_37, v_true); (fld_38, v_true)]);
    ([tok_62; tok_7; tok_2; tok_8; tok_2], Some [(fld_0, (B "json")); (fld_1, v_na); (fld_2, v_na); (fld_3, (B ";")); (fld_10, v_true); (fld_30, (B "pprint")); (fld_31, (B ";")); (fld_32, (B " ")); (fld_33, v_na); (fld_39, v_true)]);
    ([tok_64], Some [(fld_0, (B "json")); (fld_1, v_na); (fld_2, v_na); (fld_3, v_na); (fld_30, (B "tsv")); (fld_32, (bs [9]%N)); (fld_33, v_na); (fld_37, v_true)]);
    ([tok_64; tok_1; tok_2; tok_3; tok_4], Some [(fld_0, (B "json")); (fld_1, (B ";")); (fld_2, (B ":")); (fld_3, v_na); (fld_8, v_true); (fld_9, v_true); (fld_30, (B "tsv")); (fld_32, (bs [9]%N)); (fld_33, v_na); (fld_37, v_true)]);
    ([tok_64; tok_5; tok_2; tok_6; tok_4], Some [(fld_0, (B "json")); (fld_1, v_na); (fld_2, v_na); (fld_3, v_na); (fld_30, (B "tsv")); (fld_32, (B ";")); (fld_33, (B ":")); (fld_37, v_true); (fld_38, v_true)]);
    ([tok_64; tok_7; tok_2; tok_8; tok_2], Some [(fld_0, (B "json")); (fld_1, v_na); (fld_2, v_na); (fld_3, (B ";")); (fld_10, v_true); (fld_30, (B "tsv")); (fld_31, (B ";")); (fld_32, (bs [9]%N)); (fld_33, v_na); (fld_37, v_true); (fld_39, v_true)]);
    ([tok_68], Some [(fld_0, (B "json")); (fld_1, v_na); (fld_2, v_na); (fld_3, v_na); (fld_30, (B "xtab")); (fld_31, (bs [10;10]%N)); (fld_32, (bs [10]%N)); (fld_33, (B " "))]);
    ([tok_68; tok_1; tok_2; tok_3; tok_4], Some [(fld_0, (B "json")); (fld_1, (B ";")); (fld_2, (B ":")); (fld_3, v_na); (fld_8, v_true); (fld_9, v_true); (fld_30, (B "xtab")); (fld_31, (bs [10;10]%N)); (fld_32, (bs [10]%N)); (fld_33, (B " "))]);
    ([tok_68; tok_5; tok_2; tok_6; tok_4], Some [(fld_0, (B "json")); (fld_1, v_na); (fld_2, v_na); (fld_3, v_na); (fld_30, (B "xtab")); (fld_31, (bs [10;10]%N)); (fld_32, (B ";")); (fld_33, (B ":")); (fld_37, v_true); (fld_38, v_true)]);
    ([tok_68; tok_7; tok_2; tok_8; tok_2], Some [(fld_0, (B "json")); (fld_1, v_na); (fld_2, v_na); (fld_3, (B ";")); (fld_10, v_true); (fld_30, (B "xtab")); (fld_31, (B ";")); (fld_32, (bs [10]%N)); (fld_33, (B " ")); (fld_39, v_true)]);
    ([tok_69], Some [(fld_0, (B "json")); (fld_1, v_na); (fld_2, v_na); (fld_3, v_na); (fld_30, (B "yaml")); (fld_31, v_na); (fld_32, v_na); (fld_33, v_na); (fld_65, v_false)]);
    ([tok_69; tok_1; tok_2; tok_3; tok_4], Some [(fld_0, (B "json")); (fld_1, (B ";")); (fld_2, (B ":")); (fld_3, v_na); (fld_8, v_true); (fld_9, v_true); (fld_30, (B "yaml")); (fld_31, v_na); (fld_32, v_na); (fld_33, v_na); (fld_65, v_false)]);
    ([tok_69; tok_5; tok_2; tok_6; tok_4], Some [(fld_0, (B "json")); (fld_1, v_na); (fld_2, v_na); (fld_3, v_na); (fld_30, (B "yaml")); (fld_31, v_na); (fld_32, (B ";")); (fld_33, (B ":")); (fld_37, v_true); (fld_38, v_true); (fld_65, v_false)]);
    ([tok_69; tok_7; tok_2; tok_8; tok_2], Some [(fld_0, (B "json")); (fld_1, v_na); (fld_2, v_na); (fld_3, (B ";")); (fld_10, v_true); (fld_30, (B "yaml")); (fld_31, (B ";")); (fld_32, v_na); (fld_33, v_na); (fld_39, v_true); (fld_65, v_false)])]);
  (tok_30, [
    ([], Some [(fld_0, (B "json")); (fld_1, v_na); (fld_2, v_na); (fld_3, v_na)]);
    ([tok_1; tok_2; tok_3; tok_4], Some [(fld_0, (B "json")); (fld_1, (B ";")); (fld_2, (B ":")); (fld_3, v_na); (fld_8, v_true); (fld_9, v_true)]);
    ([tok_5; tok_2; tok_6; tok_4], Some [(fld_0, (B "json")); (fld_1, v_na); (fld_2, v_na); (fld_3, v_na); (fld_32, (B ";")); (fld_33, (B ":")); (fld_37, v_true); (fld_38, v_true)]);
    ([tok_7; tok_2; tok_8; tok_2], Some [(fld_0, (B "json")); (fld_1, v_na); (fld_2, v_na); (fld_3, (B ";")); (fld_10, v_true); (fld_31, (B ";")); (fld_39, v_true)]);
    ([tok_62; tok_233], Some [(fld_0, (B "json")); (fld_1, v_na); (fld_2, v_na); (fld_3, v_na); (fld_30, (B "pprint")); (fld_32, (B " ")); (fld_33, v_na); (fld_41, v_true)]);
    ([tok_62; tok_233; tok_1; tok_2; tok_3; tok_4], Some [(fld_0, (B "json")); (fld_1, (B ";")); (fld_2, (B ":")); (fld_3, v_na); (fld_8, v_true); (fld_9, v_true); (fld_30, (B "pprint")); (fld_32, (B " ")); (fld_33, v_na); (fld_41, v_true)]);
    ([tok_62; tok_233; tok_5; tok_2; tok_6; tok_4], Some [(fld_0, (B "json")); (fld_1, v_na); (fld_2, v_na); (fld_3, v_na); (fld_30, (B "pprint")); (fld_32, (B ";")); (fld_33, (B ":")); (fld_37, v_true); (fld_38, v_true); (fld_41, v_true)]);
    ([tok_62; tok_233; tok_7; tok_2; tok_8; tok_2], Some [(fld_0, (B "json")); (fld_1, v_na); (fld_2, v_na); (fld_3, (B ";")); (fld_10, v_true); (fld_30, (B "pprint")); (fld_31, (B ";")); (fld_32, (B " ")); (fld_33, v_na); (fld_39, v_true); (fld_41, v_true)]);
    ([tok_53], Some [(fld_0, (B "json")); (fld_1, v_na); (fld_2, v_na); (fld_3, v_na); (fld_30, (B "csv")); (fld_33, v_na)]);
    ([tok_53; tok_1; tok_2; tok_3; tok_4], Some [(fld_0, (B "json")); (fld_1, (B ";")); (fld_2, (B ":")); (fld_3, v_na); (fld_8, v_true); (fld_9, v_true); (fld_30, (B "csv")); (fld_33, v_na)]);
    ([tok_53; tok_5; tok_2; tok_6; tok_4], Some [(fld_0, (B "json")); (fld_1, v_na); (fld_2, v_na); (fld_3, v_na); (fld_30, (B "csv")); (fld_32, (B ";")); (fld_33, (B ":")); (fld_37, v_true); (fld_38, v_true)]);
    ([tok_53; tok_7; tok_2; tok_8; tok_2], Some [(fld_0, (B "json")); (fld_1, v_na); (fld_2, v_na); (fld_3, (B ";")); (fld_10, v_true); (fld_30, (B "csv")); (fld_31, (B ";")); (fld_33, v_na); (fld_39, v_true)]);
    ([tok_56], Some [(fld_0, (B "json")); (fld_1, v_na); (fld_2, v_na); (fld_3, v_na)]);
    ([tok_56; tok_1; tok_2; tok_3; tok_4], Some [(fld_0, (B "json")); (fld_1, (B ";")); (fld_2, (B ":")); (fld_3, v_na); (fld_8, v_true); (fld_9, v_true)]);
    ([tok_56; tok_5; tok_2; tok_6; tok_4], Some [(fld_0, (B "json")); (fld_1, v_na); (fld_2, v_na); (fld_3, v_na); (fld_32, (B ";")); (fld_33, (B ":")); (fld_37, v_true); (fld_38, v_true)]);
    ([tok_56; tok_7; tok_2; tok_8; tok_2], Some [(fld_0, (B "json")); (fld_1, v_na); (fld_2, v_na); (fld_3, (B ";")); (fld_10, v_true); (fld_31, (B ";")); (fld_39, v_true)]);
    ([tok_57], Some [(fld_0, (B "json")); (fld_1, v_na); (fld_2, v_na); (fld_3, v_na); (fld_30, (B "json")); (fld_31, v_na); (fld_32, v_na); (fld_33, v_na); (fld_65, v_false)]);
    ([tok_57; tok_1; tok_2; tok_3; tok_4], Some [(fld_0, (B "json")); (fld_1, (B ";")); (fld_2, (B ":")); (fld_3, v_na); (fld_8, v_true); (fld_9, v_true); (fld_30, (B "json")); (fld_31, v_na); (fld_32, v_na); (fld_33, v_na); (fld_65, v_false)]);
    ([tok_57; tok_5; tok_2; tok_6; tok_4], Some [(fld_0, (B "json")); (fld_1, v_na); (fld_2, v_na); (fld_3, v_na); (fld_30, (B "json")); (fld_31, v_na); (fld_32, (B ";")); (fld_33, (B ":")); (fld_37, v_true); (fld_38, v_true); (fld_65, v_false)]);
    ([tok_57; tok_7; tok_2; tok_8; tok_2], Some [(fld_0, (B "json")); (fld_1, v_na); (fld_2, v_na); (fld_3, (B ";")); (fld_10, v_true); (fld_30, (B "json")); (fld_31, (B ";")); (fld_32, v_na); (fld_33, v_na); (fld_39, v_true); (fld_65, v_false)]);
    ([tok_58], Some [(fld_0, (B "json")); (fld_1, v_na); (fld_2, v_na); (fld_3, v_na); (fld_30, (B "jsonl")); (fld_31, (B "")); (fld_32, (B "")); (fld_33, (B "")); (fld_65, v_false)]);
    ([tok_58; tok_1; tok_2; tok_3; tok_4], Some [(fld_0, (B "json")); (fld_1, (B ";")); (fld_2, (B ":")); (fld_3, v_na); (fld_8, v_true); (fld_9, v_true); (fld_30, (B "jsonl")); (fld_31, (B "")); (fld_32, (B "")); (fld_33, (B "")); (fld_65, v_false)]);
    ([tok_58; tok_5; tok_2; tok_6; tok_4], Some [(fld_0, (B "json")); (fld_1, v_na); (fld_2, v_na); (fld_3, v_na); (fld_30, (B "jsonl")); (fld_31, (B "")); (fld_32, (B ";")); (fld_33, (B ":")); (fld_37, v_true); (fld_38, v_true); (fld_65, v_false)]);
    ([tok_58; tok_7; tok_2; tok_8; tok_2], Some [(fld_0, (B "json")); (fld_1, v_na); (fld_2, v_na); (fld_3, (B ";")); (fld_10, v_true); (fld_30, (B "jsonl")); (fld_31, (B ";")); (fld_32, (B "")); (fld_33, (B "")); (fld_39, v_true); (fld_65, v_false)]);
    ([tok_59], Some [(fld_0, (B "json")); (fld_1, v_na); (fld_2, v_na); (fld_3, v_na); (fld_30, (B "markdown")); (fld_32, (B " ")); (fld_33, v_na)]);
    ([tok_59; tok_1; tok_2; tok_3; tok_4], Some [(fld_0, (B "json")); (fld_1, (B ";")); (fld_2, (B ":")); (fld_3, v_na); (fld_8, v_true); (fld_9, v_true); (fld_30, (B "markdown")); (fld_32, (B " ")); (fld_33, v_na)]);
    ([tok_59; tok_5; tok_2; tok_6; tok_4], Some [(fld_0, (B "json")); (fld_1, v_na); (fld_2, v_na); (fld_3, v_na); (fld_30, (B "markdown")); (fld_32, (B ";")); (fld_33, (B ":")); (fld_37, v_true); (fld_38, v_true)]);
    ([tok_59; tok_7; tok_2; tok_8; tok_2], Some [(fld_0, (B "json")); (fld_1, v_na); (fld_2, v_na); (fld_3, (B ";")); (fld_10, v_true); (fld_30, (B "markdown")); (fld_31, (B ";")); (fld_32, (B " ")); (fld_33, v_na); (fld_39, v_true)]);
    ([tok_61], Some [(fld_0, (B "json")); (fld_1, v_na); (fld_2, v_na); (fld_3, v_na); (fld_30, (B "nidx")); (fld_32, (B " ")); (fld_33, v_na); (fld_37, v_true)]);
    ([tok_61; tok_1; tok_2; tok_3; tok_4], Some [(fld_0, (B "json")); (fld_1, (B ";")); (fld_2, (B ":")); (fld_3, v_na); (fld_8, v_true); (fld_9, v_true); (fld_30, (B "nidx")); (fld_32, (B " ")); (fld_33, v_na); (fld_37, v_true)]);
    ([tok_61; tok_5; tok_2; tok_6; tok_4], Some [(fld_0, (B "json")); (fld_1, v_na); (fld_2, v_na); (fld_3, v_na); (fld_30, (B "nidx")); (fld_32, (B ";")); (fld_33, (B ":")); (fld_37, v_true); (fld_38, v_true)]);
    ([tok_61; tok_7; tok_2; tok_8; tok_2], Some [(fld_0, (B "json")); (fld_1, v_na); (fld_2, v_na); (fld_3, (B ";")); (fld_10, v_true); (fld_30, (B "nidx")); (fld_31, (B ";")); (fld_32, (B " ")); (fld_33, v_na); (fld_37, v_true); (fld_39, v_true)]);
    ([tok_62], Some [(fld_0, (B "json")); (fld_1, v_na); (fld_2, v_na); (fld_3, v_na); (fld_30, (B "pprint")); (fld_32, (B " ")); (fld_33, v_na)]);
    ([tok_62; tok_1; tok_2; tok_3; tok_4], Some [(fld_0, (B "json")); (fld_1, (B ";")); (fld_2, (B ":")); (fld_3, v_na); (fld_8, v_true); (fld_9, v_true); (fld_30, (B "pprint")); (fld_32, (B " ")); (fld_33, v_na)]);
    ([tok_62; tok_5; tok_2; tok_6; tok_4], Some [(fld_0, (B "json")); (fld_1, v_na); (fld_2, v_na); (fld_3, v_na); (fld_30, (B "pprint")); (fld_32, (B ";")); (fld_33, (B ":")); (fld_37, v_true); (fld_38, v_true)]);
    ([tok_62; tok_7; tok_2; tok_8; tok_2], Some [(fld_0, (B "json")); (fld_1, v_na); (fld_2, v_na); (fld_3, (B ";")); (fld_10, v_true); (fld_30, (B "pprint")); (fld_31, (B ";")); (fld_32, (B " ")); (fld_33, v_na); (fld_39, v_true)]);
    ([tok_64], Some [(fld_0, (B "json")); (fld_1, v_na); (fld_2, v_na); (fld_3, v_na); (fld_30, (B "tsv")); (fld_32, (bs [9]%N)); (fld_33, v_na); (fld_37, v_true)]);
    ([tok_64; tok_1; tok_2; tok_3; tok_4], Some [(fld_0, (B "json")); (fld_1, (B ";")); (fld_2, (B ":")); (fld_3, v_na); (fld_8, v_true); (fld_9, v_true); (fld_30, (B "tsv")); (fld_32, (bs [9]%N)); (fld_33, v_na); (fld_37, v_true)]);
    ([tok_64; tok_5; tok_2; tok_6; tok_4], Some [(fld_0, (B "json")); (fld_1, v_na); (fld_2, v_na); (fld_3, v_na); (fld_30, (B "tsv")); (fld_32, (B ";")); (fld_33, (B ":")); (fld_37, v_true); (fld_38, v_true)]);
    ([tok_64; tok_7; tok_2; tok_8; tok_2], Some [(fld_0, (B "json")); (fld_1, v_na); (fld_2, v_na); (fld_3, (B ";")); (fld_10, v_true); (fld_30, (B "tsv")); (fld_31, (B ";")); (fld_32, (bs [9]%N)); (fld_33, v_na); (fld_37, v_true); (fld_39, v_true)]);
    ([tok_68], Some [(fld_0, (B "json")); (fld_1, v_na); (fld_2, v_na); (fld_3, v_na); (fld_30, (B "xtab")); (fld_31, (bs [10;10]%N)); (fld_32, (bs [10]%N)); (fld_33, (B " "))]);
    ([tok_68; tok_1; tok_2; tok_3; tok_4], Some [(fld_0, (B "json")); (fld_1, (B ";")); (fld_2, (B ":")); (fld_3, v_na); (fld_8, v_true); (fld_9, v_true); (fld_30, (B "xtab")); (fld_31, (bs [10;10]%N)); (fld_32, (bs [10]%N)); (fld_33, (B " "))]);
    ([tok_68; tok_5; tok_2; tok_6; tok_4], Some [(fld_0, (B "json")); (fld_1, v_na); (fld_2, v_na); (fld_3, v_na); (fld_30, (B "xtab")); (fld_31, (bs [10;10]%N)); (fld_32, (B ";")); (fld_33, (B ":")); (fld_37, v_true); (fld_38, v_true)]);
    ([tok_68; tok_7; tok_2; tok_8; tok_2], Some [(fld_0, (B "json")); (fld_1, v_na); (fld_2, v_na); (fld_3, (B ";")); (fld_10, v_true); (fld_30, (B "xtab")); (fld_31, (B ";")); (fld_32, (bs [10]%N)); (fld_33, (B " ")); (fld_39, v_true)]);
    ([tok_69], Some [(fld_0, (B "json")); (fld_1, v_na); (fld_2, v_na); (fld_3, v_na); (fld_30, (B "yaml")); (fld_31, v_na); (fld_32, v_na); (fld_33, v_na); (fld_65, v_false)]);
    ([tok_69; tok_1; tok_2; tok_3; tok_4], Some [(fld_0, (B "json")); (fld_1, (B ";")); (fld_2, (B ":")); (fld_3, v_na); (fld_8, v_true); (fld_9, v_true); (fld_30, (B "yaml")); (fld_31, v_na); (fld_32, v_na); (fld_33, v_na); (fld_65, v_false)]);
    ([tok_69; tok_5; tok_2; tok_6; tok_4], Some [(fld_0, (B "json")); (fld_1, v_na); (fld_2, v_na); (fld_3, v_na); (fld_30, (B "yaml")); (fld_31, v_na); (fld_32, (B ";")); (fld_33, (B ":")); (fld_37, v_true); (fld_38, v_true); (fld_65, v_false)]);
    ([tok_69; tok_7; tok_2; tok_8; tok_2], Some [(fld_0, (B "json")); (fld_1, v_na); (fld_2, v_na); (fld_3, (B ";")); (fld_10, v_true); (fld_30, (B "yaml")); (fld_31, (B ";")); (fld_32, v_na); (fld_33, v_na); (fld_39, v_true); (fld_65, v_false)])]);
  (tok_31, [
    ([], Some [(fld_0, (B "markdown")); (fld_1, (B " ")); (fld_2, v_na)]);
    ([tok_1; tok_2; tok_3; tok_4], Some [(fld_0, (B "markdown")); (fld_1, (B ";")); (fld_2, (B ":")); (fld_8, v_true); (fld_9, v_true)]);
    ([tok_5; tok_2; tok_6; tok_4], Some [(fld_0, (B "markdown")); (fld_1, (B " ")); (fld_2, v_na); (fld_32, (B ";")); (fld_33, (B ":")); (fld_37, v_true); (fld_38, v_true)]);
    ([tok_7; tok_2; tok_8; tok_2], Some [(fld_0, (B "markdown")); (fld_1, (B " ")); (fld_2, v_na); (fld_3, (B ";")); (fld_10, v_true); (fld_31, (B ";")); (fld_39, v_true)]);
    ([tok_53], Some [(fld_0, (B "markdown")); (fld_1, (B " ")); (fld_2, v_na); (fld_30, (B "csv")); (fld_33, v_na)]);
    ([tok_53; tok_1; tok_2; tok_3; tok_4], Some [(fld_0, (B "markdown")); (fld_1, (B ";")); (fld_2, (B ":")); (fld_8, v_true); (fld_9, v_true); (fld_30, (B "csv")); (fld_33, v_na)]);
    ([tok_53; tok_5; tok_2; tok_6; tok_4], Some [(fld_0, (B "markdown")); (fld_1, (B " ")); (fld_2, v_na); (fld_30, (B "csv")); (fld_32, (B ";")); (fld_33, (B ":")); (fld_37, v_true); (fld_38, v_true)]);
    ([tok_53; tok_7; tok_2; tok_8; tok_2], Some [(fld_0, (B "markdown")); (fld_1, (B " ")); (fld_2, v_na); (fld_3, (B ";")); (fld_10, v_true); (fld_30, (B "csv")); (fld_31, (B ";")); (fld_33, v_na); (fld_39, v_true)]);
    ([tok_56], Some [(fld_0, (B "markdown")); (fld_1, (B " ")); (fld_2, v_na)]);
    ([tok_56; tok_1; tok_2; tok_3; tok_4], Some [(fld_0, (B "markdown")); (fld_1, (B ";")); (fld_2, (B ":")); (fld_8, v_true); (fld_9, v_true)]);
    ([tok_56; tok_5; tok_2; tok_6; tok_4], Some [(fld_0, (B "markdown")); (fld_1, (B " ")); (fld_2, v_na); (fld_32, (B ";")); (fld_33, (B ":")); (fld_37, v_true); (fld_38, v_true)]);
    ([tok_56; tok_7; tok_2; tok_8; tok_2], Some [(fld_0, (B "markdown")); (fld_1, (B " ")); (fld_2, v_na); (fld_3, (B ";")); (fld_10, v_true); (fld_31, (B ";")); (fld_39, v_true)]);
    ([tok_57], Some [(fld_0, (B "markdown")); (fld_1, (B " ")); (fld_2, v_na); (fld_30, (B "json")); (fld_31, v_na); (fld_32, v_na); (fld_33, v_na); (fld_65, v_false); (fld_66, v_true)]);
    ([tok_57; tok_1; tok_2; tok_3; tok_4], Some [(fld_0, (B "markdown")); (fld_1, (B ";")); (fld_2, (B ":")); (fld_8, v_true); (fld_9, v_true); (fld_30, (B "json")); (fld_31, v_na); (fld_32, v_na); (fld_33, v_na); (fld_65, v_false); (fld_66, v_true)]);
    ([tok_57; tok_5; tok_2; tok_6; tok_4], Some [(fld_0, (B "markdown")); (fld_1, (B " ")); (fld_2, v_na); (fld_30, (B "json")); (fld_31, v_na); (fld_32, (B ";")); (fld_33, (B ":")); (fld_37, v_true); (fld_38, v_true); (fld_65, v_false); (fld_66, v_true)]);
    ([tok_57; tok_7; tok_2; tok_8; tok_2], Some [(fld_0, (B "markdown")); (fld_1, (B " ")); (fld_2, v_na); (fld_3, (B ";")); (fld_10, v_true); (fld_30, (B "json")); (fld_31, (B ";")); (fld_32, v_na); (fld_33, v_na); (fld_39, v_true); (fld_65, v_false); (fld_66, v_true)]);
    ([tok_58], Some [(fld_0, (B "markdown")); (fld_1, (B " ")); (fld_2, v_na); (fld_30, (B "jsonl")); (fld_31, (B "")); (fld_32, (B "")); (fld_33, (B "")); (fld_65, v_false); (fld_66, v_true)]);
    ([tok_58; tok_1; tok_2; tok_3; tok_4], Some [(fld_0, (B "markdown")); (fld_1, (B ";")); (fld_2, (B ":")); (fld_8, v_true); (fld_9, v_true); (fld_30, (B "jsonl")); (fld_31, (B "")); (fld_32, (B "")); (fld_33, (B "")); (fld_65, v_false); (fld_66, v_true)]);
    ([tok_58; tok_5; tok_2; tok_6; tok_4], Some [(fld_0, (B "markdown")); (fld_1, (B " ")); (fld_2, v_na); (fld_30, (B "jsonl")); (fld_31, (B "")); (fld_32, (B ";")); (fld_33, (B ":")); (fld_37, v_true); (fld_38, v_true); (fld_65, v_false); (fld_66, v_true)]);
    ([tok_58; tok_7; tok_2; tok_8; tok_2], Some [(fld_0, (B "markdown")); (fld_1, (B " ")); (fld_2, v_na); (fld_3, (B ";")); (fld_10, v_true); (fld_30, (B "jsonl")); (fld_31, (B ";")); (fld_32, (B "")); (fld_33, (B "")); (fld_39, v_true); (fld_65, v_false); (fld_66, v_true)]);
    ([tok_61], Some [(fld_0, (B "markdown")); (fld_1, (B " ")); (fld_2, v_na); (fld_30, (B "nidx")); (fld_32, (B " ")); (fld_33, v_na); (fld_37, v_true)]);
    ([tok_61; tok_1; tok_2; tok_3; tok_4], Some [(fld_0, (B "markdown")); (fld_1, (B ";")); (fld_2, (B ":")); (fld_8, v_true); (fld_9, v_true); (fld_30, (B "nidx")); (fld_32, (B " ")); (fld_33, v_na); (fld_37, v_true)]);
    ([tok_61; tok_5; tok_2; tok_6; tok_4], Some [(fld_0, (B "markdown")); (fld_1, (B " ")); (fld_2, v_na); (fld_30, (B "nidx")); (fld_32, (B ";")); (fld_33, (B ":")); (fld_37, v_true); (fld_38, v_true)]);
    ([tok_61; tok_7; tok_2; tok_8; tok_2], Some [(fld_0, (B "markdown")); (fld_1, (B " ")); (fld_2, v_na); (fld_3, (B ";")); (fld_10, v_true); (fld_30, (B "nidx")); (fld_31, (B ";")); (fld_32, (B " ")); (fld_33, v_na); (fld_37, v_true); (fld_39, v_true)]);
    ([tok_62], Some [(fld_0, (B "markdown")); (fld_1, (B " ")); (fld_2, v_na); (fld_30, (B "pprint")); (fld_32, (B " ")); (fld_33, v_na)]);
    ([tok_62; tok_1; tok_2; tok_3; tok_4], Some [(fld_0, (B "markdown")); (fld_1, (B ";")); (fld_2, (B ":")); (fld_8, v_true); (fld_9, v_true); (fld_30, (B "pprint")); (fld_32, (B " ")); (fld_33, v_na)]);
    ([tok_62; tok_5; tok_2; tok_6; tok_4], Some [(fld_0, (B "markdown")); (fld_1, (B " ")); (fld_2, v_na); (fld_30, (B "pprint")); (fld_32, (B ";")); (fld_33, (B ":")); (fld_37, v_true); (fld_38, v_true)]);
    ([tok_62; tok_7; tok_2; tok_8; tok_2], Some [(fld_0, (B "markdown")); (fld_1, (B " ")); (fld_2, v_na); (fld_3, (B ";")); (fld_10, v_true); (fld_30, (B "pprint")); (fld_31, (B ";")); (fld_32, (B " ")); (fld_33, v_na); (fld_39, v_true)]);
    ([tok_64], Some [(fld_0, (B "markdown")); (fld_1, (B " ")); (fld_2, v_na); (fld_30, (B "tsv")); (fld_32, (bs [9]%N)); (fld_33, v_na); (fld_37, v_true)]);
    ([tok_64; tok_1; tok_2; tok_3; tok_4], Some [(fld_0, (B "markdown")); (fld_1, (B ";")); (fld_2, (B ":")); (fld_8, v_true); (fld_9, v_true); (fld_30, (B "tsv")); (fld_32, (bs [9]%N)); (fld_33, v_na); (fld_37, v_true)]);
    ([tok_64; tok_5; tok_2; tok_6; tok_4], Some [(fld_0, (B "markdown")); (fld_1, (B " ")); (fld_2, v_na); (fld_30, (B "tsv")); (fld_32, (B ";")); (fld_33, (B ":")); (fld_37, v_true); (fld_38, v_true)]);
    ([tok_64; tok_7; tok_2; tok_8; tok_2], Some [(fld_0, (B "markdown")); (fld_1, (B " ")); (fld_2, v_na); (fld_3, (B ";")); (fld_10, v_true); (fld_30, (B "tsv")); (fld_31, (B ";")); (fld_32, (bs [9]%N)); (fld_33, v_na); (fld_37, v_true); (fld_39, v_true)]);
    ([tok_68], Some [(fld_0, (B "markdown")); (fld_1, (B " ")); (fld_2, v_na); (fld_30, (B "xtab")); (fld_31, (bs [10;10]%N)); (fld_32, (bs [10]%N)); (fld_33, (B " "))]);
    ([tok_68; tok_1; tok_2; tok_3; tok_4], Some [(fld_0, (B "markdown")); (fld_1, (B ";")); (fld_2, (B ":")); (fld_8, v_true); (fld_9, v_true); (fld_30, (B "xtab")); (fld_31, (bs [10;10]%N)); (fld_32, (bs [10]%N)); (fld_33, (B " "))]);
    ([tok_68; tok_5; tok_2; tok_6; tok_4], Some [(fld_0, (B "markdown")); (fld_1, (B " ")); (fld_2, v_na); (fld_30, (B "xtab")); (fld_31, (bs [10;10]%N)); (fld_32, (B ";")); (fld_33, (B ":")); (fld_37, v_true); (fld_38, v_true)]);
    ([tok_68; tok_7; tok_2; tok_8; tok_2], Some [(fld_0, (B "markdown")); (fld_1, (B " ")); (fld_2, v_na); (fld_3, (B ";")); (fld_10, v_true); (fld_30, (B "xtab")); (fld_31, (B ";")); (fld_32, (bs [10]%N)); (fld_33, (B " ")); (fld_39, v_true)]);
    ([tok_69], Some [(fld_0, (B "markdown")); (fld_1, (B " ")); (fld_2, v_na); (fld_30, (B "yaml")); (fld_31, v_na); (fld_32, v_na); (fld_33, v_na); (fld_65, v_false); (fld_66, v_true)]);
    ([tok_69; tok_1; tok_2; tok_3; tok_4], Some [(fld_0, (B "markdown")); (fld_1, (B ";")); (fld_2, (B ":")); (fld_8, v_true); (fld_9, v_true); (fld_30, (B "yaml")); (fld_31, v_na); (fld_32, v_na); (fld_33, v_na); (fld_65, v_false); (fld_66, v_true)]);
    ([tok_69; tok_5; tok_2; tok_6; tok_4], Some [(fld_0, (B "markdown")); (fld_1, (B " ")); (fld_2, v_na); (fld_30, (B "yaml")); (fld_31, v_na); (fld_32, (B ";")); (fld_33, (B ":")); (fld_37, v_true); (fld_38, v_true); (fld_65, v_false); (fld_66, v_true)]);
    ([tok_69; tok_7; tok_2; tok_8; tok_2], Some [(fld_0, (B "markdown")); (fld_1, (B " ")); (fld_2, v_na); (fld_3, (B ";")); (fld_10, v_true); (fld_30, (B "yaml")); (fld_31, (B ";")); (fld_32, v_na); (fld_33, v_na); (fld_39, v_true); (fld_65, v_false); (fld_66, v_true)]);
    ([tok_59], Some [(fld_0, (B "markdown")); (fld_1, (B " ")); (fld_2, v_na); (fld_30, (B "markdown")); (fld_32, (B " ")); (fld_33, v_na)]);
    ([tok_59; tok_1; tok_2; tok_3; tok_4], Some [(fld_0, (B "markdown")); (fld_1, (B ";")); (fld_2, (B ":")); (fld_8, v_true); (fld_9, v_true); (fld_30, (B "markdown")); (fld_32, (B " ")); (fld_33, v_na)]);
    ([tok_59; tok_5; tok_2; tok_6; tok_4], Some [(fld_0, (B "markdown")); (fld_1, (B " ")); (fld_2, v_na); (fld_30, (B "markdown")); (fld_32, (B ";")); (fld_33, (B ":")); (fld_37, v_true); (fld_38, v_true)]);
    ([tok_59; tok_7; tok_2; tok_8; tok_2], Some [(fld_0, (B "markdown")); (fld_1, (B " ")); (fld_2, v_na); (fld_3, (B ";")); (fld_10, v_true); (fld_30, (B "markdown")); (fld_31, (B ";")); (fld_32, (B " ")); (fld_33, v_na); (fld_39, v_true)]);
    ([tok_62; tok_233], Some [(fld_0, (B "markdown")); (fld_1, (B " ")); (fld_2, v_na); (fld_30, (B "pprint")); (fld_32, (B " ")); (fld_33, v_na); (fld_41, v_true)]);
    ([tok_62; tok_233; tok_1; tok_2; tok_3; tok_4], Some [(fld_0, (B "markdown")); (fld_1, (B ";")); (fld_2, (B ":")); (fld_8, v_true); (fld_9, v_true); (fld_30, (B "pprint")); (fld_32, (B " ")); (fld_33, v_na); (fld_41, v_true)]);
    ([tok_62; tok_233; tok_5; tok_2; tok_6; tok_4], Some [(fld_0, (B "markdown")); (fld_1, (B " ")); (fld_2, v_na); (fld_30, (B "pprint")); (fld_32, (B ";")); (fld_33, (B ":")); (fld_37, v_true); (fld_38, v_true); (fld_41, v_true)]);
    ([tok_62; tok_233; tok_7; tok_2; tok_8; tok_2], Some [(fld_0, (B "markdown")); (fld_1, (B " ")); (fld_2, v_na); (fld_3, (B ";")); (fld_10, v_true); (fld_30, (B "pprint")); (fld_31, (B ";")); (fld_32, (B " ")); (fld_33, v_na); (fld_39, v_true); (fld_41, v_true)])]);
  (tok_32, [
    ([], Some [(fld_0, (B "markdown")); (fld_1, (B " ")); (fld_2, v_na)]);
    ([tok_1; tok_2; tok_3; tok_4], Some [(fld_0, (B "markdown")); (fld_1, (B ";")); (fld_2, (B ":")); (fld_8, v_true); (fld_9, v_true)]);
    ([tok_5; tok_2; tok_6; tok_4], Some [(fld_0, (B "markdown")); (fld_1, (B " ")); (fld_2, v_na); (fld_32, (B ";")); (fld_33, (B ":")); (fld_37, v_true); (fld_38, v_true)]);
    ([tok_7; tok_2; tok_8; tok_2], Some [(fld_0, (B "markdown")); (fld_1, (B " ")); (fld_2, v_na); (fld_3, (B ";")); (fld_10, v_true); (fld_31, (B ";")); (fld_39, v_true)]);
    ([tok_60], Some [(fld_0, (B "markdown")); (fld_1, (B " ")); (fld_2, v_na); (fld_30, (B "markdown")); (fld_32, (B " ")); (fld_33, v_na)]);
    ([tok_60; tok_1; tok_2; tok_3; tok_4], Some [(fld_0, (B "markdown")); (fld_1, (B ";")); (fld_2, (B ":")); (fld_8, v_true); (fld_9, v_true); (fld_30, (B "markdown")); (fld_32, (B " ")); (fld_33, v_na)]);
    ([tok_60; tok_5; tok_2; tok_6; tok_4], Some [(fld_0, (B "markdown")); (fld_1, (B " ")); (fld_2, v_na); (fld_30, (B "markdown")); (fld_32, (B ";")); (fld_33, (B ":")); (fld_37, v_true); (fld_38, v_true)]);
    ([tok_60; tok_7; tok_2; tok_8; tok_2], Some [(fld_0, (B "markdown")); (fld_1, (B " ")); (fld_2, v_na); (fld_3, (B ";")); (fld_10, v_true); (fld_30, (B "markdown")); (fld_31, (B ";")); (fld_32, (B " ")); (fld_33, v_na); (fld_39, v_true)])]);
  (tok_33, [
    ([], Some [(fld_0, (B "nidx")); (fld_1, (B " ")); (fld_2, v_na); (fld_5, (B "([ \t])+"))]);
    ([tok_1; tok_2; tok_3; tok_4], Some [(fld_0, (B "nidx")); (fld_1, (B ";")); (fld_2, (B ":")); (fld_8, v_true); (fld_9, v_true)]);
    ([tok_5; tok_2; tok_6; tok_4], Some [(fld_0, (B "nidx")); (fld_1, (B " ")); (fld_2, v_na); (fld_5, (B "([ \t])+")); (fld_32, (B ";")); (fld_33, (B ":")); (fld_37, v_true); (fld_38, v_true)]);
    ([tok_7; tok_2; tok_8; tok_2], Some [(fld_0, (B "nidx")); (fld_1, (B " ")); (fld_2, v_na); (fld_3, (B ";")); (fld_5, (B "([ \t])+")); (fld_10, v_true); (fld_31, (B ";")); (fld_39, v_true)]);
    ([tok_62; tok_233], Some [(fld_0, (B "nidx")); (fld_1, (B " ")); (fld_2, v_na); (fld_5, (B "([ \t])+")); (fld_30, (B "pprint")); (fld_32, (B " ")); (fld_33, v_na); (fld_41, v_true)]);
    ([tok_62; tok_233; tok_1; tok_2; tok_3; tok_4], Some [(fld_0, (B "nidx")); (fld_1, (B ";")); (fld_2, (B ":")); (fld_8, v_true); (fld_9, v_true); (fld_30, (B "pprint")); (fld_32, (B " ")); (fld_33, v_na); (fld_41, v_true)]);
    ([tok_62; tok_233; tok_5; tok_2; tok_6; tok_4], Some [(fld_0, (B "nidx")); (fld_1, (B " ")); (fld_2, v_na); (fld_5, (B "([ \t])+")); (fld_30, (B "pprint")); (fld_32, (B ";")); (fld_33, (B ":")); (fld_37, v_true); (fld_38, v_true); (fld_41, v_true)]);
    ([tok_62; tok_233; tok_7; tok_2; tok_8; tok_2], Some [(fld_0, (B "nidx")); (fld_1, (B " ")); (fld_2, v_na); (fld_3, (B ";")); (fld_5, (B "([ \t])+")); (fld_10, v_true); (fld_30, (B "pprint")); (fld_31, (B ";")); (fld_32, (B " ")); (fld_33, v_na); (fld_39, v_true); (fld_41, v_true)]);
    ([tok_53], Some [(fld_0, (B "nidx")); (fld_1, (B " ")); (fld_2, v_na); (fld_5, (B "([ \t])+")); (fld_30, (B "csv")); (fld_33, v_na)]);
    ([tok_53; tok_1; tok_2; tok_3; tok_4], Some [(fld_0, (B "nidx")); (fld_1, (B ";")); (fld_2, (B ":")); (fld_8, v_true); (fld_9, v_true); (fld_30, (B "csv")); (fld_33, v_na)]);
    ([tok_53; tok_5; tok_2; tok_6; tok_4], Some [(fld_0, (B "nidx")); (fld_1, (B " ")); (fld_2, v_na); (fld_5, (B "([ \t])+")); (fld_30, (B "csv")); (fld_32, (B ";")); (fld_33, (B ":")); (fld_37, v_true); (fld_38, v_true)]);
    ([tok_53; tok_7; tok_2; tok_8; tok_2], Some [(fld_0, (B "nidx")); (fld_1, (B " ")); (fld_2, v_na); (fld_3, (B ";")); (fld_5, (B "([ \t])+")); (fld_10, v_true); (fld_30, (B "csv")); (fld_31, (B ";")); (fld_33, v_na); (fld_39, v_true)]);
    ([tok_56], Some [(fld_0, (B "nidx")); (fld_1, (B " ")); (fld_2, v_na); (fld_5, (B "([ \t])+"))]);
    ([tok_56; tok_1; tok_2; tok_3; tok_4], Some [(fld_0, (B "nidx")); (fld_1, (B ";")); (fld_2, (B ":")); (fld_8, v_true); (fld_9, v_true)]);
    ([tok_56; tok_5; tok_2; tok_6; tok_4], Some [(fld_0, (B "nidx")); (fld_1, (B " ")); (fld_2, v_na); (fld_5, (B "([ \t])+")); (fld_32, (B ";")); (fld_33, (B ":")); (fld_37, v_true); (fld_38, v_true)]);
    ([tok_56; tok_7; tok_2; tok_8; tok_2], Some [(fld_0, (B "nidx")); (fld_1, (B " ")); (fld_2, v_na); (fld_3, (B ";")); (fld_5, (B "([ \t])+")); (fld_10, v_true); (fld_31, (B ";")); (fld_39, v_true)]);
    ([tok_57], Some [(fld_0, (B "nidx")); (fld_1, (B " ")); (fld_2, v_na); (fld_5, (B "([ \t])+")); (fld_30, (B "json")); (fld_31, v_na); (fld_32, v_na); (fld_33, v_na); (fld_65, v_false); (fld_66, v_true)]);
    ([tok_57; tok_1; tok_2; tok_3; tok_4], Some [(fld_0, (B "nidx")); (fld_1, (B ";")); (fld_2, (B ":")); (fld_8, v_true); (fld_9, v_true); (fld_30, (B "json")); (fld_31, v_na); (fld_32, v_na); (fld_33, v_na); (fld_65, v_false); (fld_66, v_true)]);
    ([tok_57; tok_5; tok_2; tok_6; tok_4], Some [(fld_0, (B "nidx")); (fld_1, (B " ")); (fld_2, v_na); (fld_5, (B "([ \t])+")); (fld_30, (B "json")); (fld_31, v_na); (fld_32, (B ";")); (fld_33, (B ":")); (fld_37, v_true); (fld_38, v_true); (fld_65, v_false); (fld_66, v_true)]);
    ([tok_57; tok_7; tok_2; tok_8; tok_2], Some [(fld_0, (B "nidx")); (fld_1, (B " ")); (fld_2, v_na); (fld_3, (B ";")); (fld_5, (B "([ \t])+")); (fld_10, v_true); (fld_30, (B "json")); (fld_31, (B ";")); (fld_32, v_na); (fld_33, v_na); (fld_39, v_true); (fld_65, v_false); (fld_66, v_true)]);
    ([tok_58], Some [(fld_0, (B "nidx")); (fld_1, (B " ")); (fld_2, v_na); (fld_5, (B "([ \t])+")); (fld_30, (B "jsonl")); (fld_31, (B "")); (fld_32, (B "")); (fld_33, (B "")); (fld_65, v_false); (fld_66, v_true)]);
    ([tok_58; tok_1; tok_2; tok_3; tok_4], Some [(fld_0, (B "nidx")); (fld_1, (B ";")); (fld_2, (B ":")); (fld_8, v_true); (fld_9, v_true); (fld_30, (B "jsonl")); (fld_31, (B "")); (fld_32, (B "")); (fld_33, (B "")); (fld_65, v_false); (fld_66, v_true)]);
    ([tok_58; tok_5; tok_2; tok_6; tok_4], Some [(fld_0, (B "nidx")); (fld_1, (B " ")); (fld_2, v_na); (fld_5, (B "([ \t])+")); (fld_30, (B "jsonl")); (fld_31, (B "")); (fld_32, (B ";")); (fld_33, (B ":")); (fld_37, v_true); (fld_38, v_true); (fld_65, v_false); (fld_66, v_true)]);
    ([tok_58; tok_7; tok_2; tok_8; tok_2], Some [(fld_0, (B "nidx")); (fld_1, (B " ")); (fld_2, v_na); (fld_3, (B ";")); (fld_5, (B "([ \t])+")); (fld_10, v_true); (fld_30, (B "jsonl")); (fld_31, (B ";")); (fld_32, (B "")); (fld_33, (B "")); (fld_39, v_true); (fld_65, v_false); (fld_66, v_true)]);
    ([tok_59], Some [(fld_0, (B "nidx")); (fld_1, (B " ")); (fld_2, v_na); (fld_5, (B "([ \t])+")); (fld_30, (B "markdown")); (fld_32, (B " ")); (fld_33, v_na)]);
    ([tok_59; tok_1; tok_2; tok_3; tok_4], Some [(fld_0, (B "nidx")); (fld_1, (B ";")); (fld_2, (B ":")); (fld_8, v_true); (fld_9, v_true); (fld_30, (B "markdown")); (fld_32, (B " ")); (fld_33, v_na)]);
    ([tok_59; tok_5; tok_2; tok_6; tok_4], Some [(fld_0, (B "nidx")); (fld_1, (B " ")); (fld_2, v_na); (fld_5, (B "([ \t])+")); (fld_30, (B "markdown")); (fld_32, (B ";")); (fld_33, (B ":")); (fld_37, v_true); (fld_38, v_true)]);
    ([tok_59; tok_7; tok_2; tok_8; tok_2], Some [(fld_0, (B "nidx")); (fld_1, (B " ")); (fld_2, v_na); (fld_3, (B ";")); (fld_5, (B "([ \t])+")); (fld_10, v_true); (fld_30, (B "markdown")); (fld_31, (B ";")); (fld_32, (B " ")); (fld_33, v_na); (fld_39, v_true)]);
    ([tok_61], Some [(fld_0, (B "nidx")); (fld_1, (B " ")); (fld_2, v_na); (fld_5, (B "([ \t])+")); (fld_30, (B "nidx")); (fld_32, (B " ")); (fld_33, v_na); (fld_37, v_true)]);
    ([tok_61; tok_1; tok_2; tok_3; tok_4], Some [(fld_0, (B "nidx")); (fld_1, (B ";")); (fld_2, (B ":")); (fld_8, v_true); (fld_9, v_true); (fld_30, (B "nidx")); (fld_32, (B " ")); (fld_33, v_na); (fld_37, v_true)]);
    ([tok_61; tok_5; tok_2; tok_6; tok_4], Some [(fld_0, (B "nidx")); (fld_1, (B " ")); (fld_2, v_na); (fld_5, (B "([ \t])+")); (fld_30, (B "nidx")); (fld_32, (B ";")); (fld_33, (B ":")); (fld_37, v_true); (fld_38, v_true)]);
    ([tok_61; tok_7; tok_2; tok_8; tok_2], Some [(fld_0, (B "nidx")); (fld_1, (B " ")); (fld_2, v_na); (fld_3, (B ";")); (fld_5, (B "([ \t])+")); (fld_10, v_true); (fld_30, (B "nidx")); (fld_31, (B ";")); (fld_32, (B " ")); (fld_33, v_na); (fld_37, v_true); (fld_39, v_true)]);
    ([tok_62], Some [(fld_0, (B "nidx")); (fld_1, (B " ")); (fld_2, v_na); (fld_5, (B "([ \t])+")); (fld_30, (B "pprint")); (fld_32, (B " ")); (fld_33, v_na)]);
    ([tok_62; tok_1; tok_2; tok_3; tok_4], Some [(fld_0, (B "nidx")); (fld_1, (B ";")); (fld_2, (B ":")); (fld_8, v_true); (fld_9, v_true); (fld_30, (B "pprint")); (fld_32, (B " ")); (fld_33, v_na)]);
    ([tok_62; tok_5; tok_2; tok_6; tok_4], Some [(fld_0, (B "nidx")); (fld_1, (B " ")); (fld_2, v_na); (fld_5, (B "([ \t])+")); (fld_30, (B "pprint")); (fld_32, (B ";")); (fld_33, (B ":")); (fld_37, v_true); (fld_38, v_true)]);
    ([tok_62; tok_7; tok_2; tok_8; tok_2], Some [(fld_0, (B "nidx")); (fld_1, (B " ")); (fld_2, v_na); (fld_3, (B ";")); (fld_5, (B "([ \t])+")); (fld_10, v_true); (fld_30, (B "pprint")); (fld_31, (B ";")); (fld_32, (B " ")); (fld_33, v_na); (fld_39, v_true)]);
    ([tok_64], Some [(fld_0, (B "nidx")); (fld_1, (B " ")); (fld_2, v_na); (fld_5, (B "([ \t])+")); (fld_30, (B "tsv")); (fld_32, (bs [9]%N)); (fld_33, v_na); (fld_37, v_true)]);
    ([tok_64; tok_1; tok_2; tok_3; tok_4], Some [(fld_0, (B "nidx")); (fld_1, (B ";")); (fld_2, (B ":")); (fld_8, v_true); (fld_9, v_true); (fld_30, (B "tsv")); (fld_32, (bs [9]%N)); (fld_33, v_na); (fld_37, v_true)]);
    ([tok_64; tok_5; tok_2; tok_6; tok_4], Some [(fld_0, (B "nidx")); (fld_1, (B " ")); (fld_2, v_na); (fld_5, (B "([ \t])+")); (fld_30, (B "tsv")); (fld_32, (B ";")); (fld_33, (B ":")); (fld_37, v_true); (fld_38, v_true)]);
    ([tok_64; tok_7; tok_2; tok_8; tok_2], Some [(fld_0, (B "nidx")); (fld_1, (B " ")); (fld_2, v_na); (fld_3, (B ";")); (fld_5, (B "([ \t])+")); (fld_10, v_true); (fld_30, (B "tsv")); (fld_31, (B ";")); (fld_32, (bs [9]%N)); (fld_33, v_na); (fld_37, v_true); (fld_39, v_true)]);
    ([tok_68], Some [(fld_0, (B "nidx")); (fld_1, (B " ")); (fld_2, v_na); (fld_5, (B "([ \t])+")); (fld_30, (B "xtab")); (fld_31, (bs [10;10]%N)); (fld_32, (bs [10]%N)); (fld_33, (B " "))]);
    ([tok_68; tok_1; tok_2; tok_3; tok_4], Some [(fld_0, (B "nidx")); (fld_1, (B ";")); (fld_2, (B ":")); (fld_8, v_true); (fld_9, v_true); (fld_30, (B "xtab")); (fld_31, (bs [10;10]%N)); (fld_32, (bs [10]%N)); (fld_33, (B " "))]);
    ([tok_68; tok_5; tok_2; tok_6; tok_4], Some [(fld_0, (B "nidx")); (fld_1, (B " ")); (fld_2, v_na); (fld_5, (B "([ \t])+")); (fld_30, (B "xtab")); (fld_31, (bs [10;10]%N)); (fld_32, (B ";")); (fld_33, (B ":")); (fld_37, v_true); (fld_38, v_true)]);
    ([tok_68; tok_7; tok_2; tok_8; tok_2], Some [(fld_0, (B "nidx")); (fld_1, (B " ")); (fld_2, v_na); (fld_3, (B ";")); (fld_5, (B "([ \t])+")); (fld_10, v_true); (fld_30, (B "xtab")); (fld_31, (B ";")); (fld_32, (bs [10]%N)); (fld_33, (B " ")); (fld_39, v_true)]);
    ([tok_69], Some [(fld_0, (B "nidx")); (fld_1, (B " ")); (fld_2, v_na); (fld_5, (B "([ \t])+")); (fld_30, (B "yaml")); (fld_31, v_na); (fld_32, v_na); (fld_33, v_na); (fld_65, v_false); (fld_66, v_true)]);
    ([tok_69; tok_1; tok_2; tok_3; tok_4], Some [(fld_0, (B "nidx")); (fld_1, (B ";")); (fld_2, (B ":")); (fld_8, v_true); (fld_9, v_true); (fld_30, (B "yaml")); (fld_31, v_na); (fld_32, v_na); (fld_33, v_na); (fld_65, v_false); (fld_66, v_true)]);
    ([tok_69; tok_5; tok_2; tok_6; tok_4], Some [(fld_0, (B "nidx")); (fld_1, (B " ")); (fld_2, v_na); (fld_5, (B "([ \t])+")); (fld_30, (B "yaml")); (fld_31, v_na); (fld_32, (B ";")); (fld_33, (B ":")); (fld_37, v_true); (fld_38, v_true); (fld_65, v_false); (fld_66, v_true)]);
    ([tok_69; tok_7; tok_2; tok_8; tok_2], Some [(fld_0, (B "nidx")); (fld_1, (B " ")); (fld_2, v_na); (fld_3, (B ";")); (fld_5, (B "([ \t])+")); (fld_10, v_true); (fld_30, (B "yaml")); (fld_31, (B ";")); (fld_32, v_na); (fld_33, v_na); (fld_39, v_true); (fld_65, v_false); (fld_66, v_true)])]);
  (tok_34, [
    ([], Some [(fld_0, (B "pprint")); (fld_1, (B " ")); (fld_2, v_na); (fld_4, v_true); (fld_8, v_true)]);
    ([tok_1; tok_2; tok_3; tok_4], Some [(fld_0, (B "pprint")); (fld_1, (B ";")); (fld_2, (B ":")); (fld_4, v_true); (fld_8, v_true); (fld_9, v_true)]);
    ([tok_5; tok_2; tok_6; tok_4], Some [(fld_0, (B "pprint")); (fld_1, (B " ")); (fld_2, v_na); (fld_4, v_true); (fld_8, v_true); (fld_32, (B ";")); (fld_33, (B ":")); (fld_37, v_true); (fld_38, v_true)]);
    ([tok_7; tok_2; tok_8; tok_2], Some [(fld_0, (B "pprint")); (fld_1, (B " ")); (fld_2, v_na); (fld_3, (B ";")); (fld_4, v_true); (fld_8, v_true); (fld_10, v_true); (fld_31, (B ";")); (fld_39, v_true)]);
    ([tok_53], Some [(fld_0, (B "pprint")); (fld_1, (B " ")); (fld_2, v_na); (fld_4, v_true); (fld_8, v_true); (fld_30, (B "csv")); (fld_33, v_na)]);
    ([tok_53; tok_1; tok_2; tok_3; tok_4], Some [(fld_0, (B "pprint")); (fld_1, (B ";")); (fld_2, (B ":")); (fld_4, v_true); (fld_8, v_true); (fld_9, v_true); (fld_30, (B "csv")); (fld_33, v_na)]);
    ([tok_53; tok_5; tok_2; tok_6; tok_4], Some [(fld_0, (B "pprint")); (fld_1, (B " ")); (fld_2, v_na); (fld_4, v_true); (fld_8, v_true); (fld_30, (B "csv")); (fld_32, (B ";")); (fld_33, (B ":")); (fld_37, v_true); (fld_38, v_true)]);
    ([tok_53; tok_7; tok_2; tok_8; tok_2], Some [(fld_0, (B "pprint")); (fld_1, (B " ")); (fld_2, v_na); (fld_3, (B ";")); (fld_4, v_true); (fld_8, v_true); (fld_10, v_true); (fld_30, (B "csv")); (fld_31, (B ";")); (fld_33, v_na); (fld_39, v_true)]);
    ([tok_56], Some [(fld_0, (B "pprint")); (fld_1, (B " ")); (fld_2, v_na); (fld_4, v_true); (fld_8, v_true)]);
    ([tok_56; tok_1; tok_2; tok_3; tok_4], Some [(fld_0, (B "pprint")); (fld_1, (B ";")); (fld_2, (B ":")); (fld_4, v_true); (fld_8, v_true); (fld_9, v_true)]);
    ([tok_56; tok_5; tok_2; tok_6; tok_4], Some [(fld_0, (B "pprint")); (fld_1, (B " ")); (fld_2, v_na); (fld_4, v_true); (fld_8, v_true); (fld_32, (B ";")); (fld_33, (B ":")); (fld_37, v_true); (fld_38, v_true)]);
    ([tok_56; tok_7; tok_2; tok_8; tok_2], Some [(fld_0, (B "pprint")); (fld_1, (B " ")); (fld_2, v_na); (fld_3, (B ";")); (fld_4, v_true); (fld_8, v_true); (fld_10, v_true); (fld_31, (B ";")); (fld_39, v_true)]);
    ([tok_57], Some [(fld_0, (B "pprint")); (fld_1, (B " ")); (fld_2, v_na); (fld_4, v_true); (fld_8, v_true); (fld_30, (B "json")); (fld_31, v_na); (fld_32, v_na); (fld_33, v_na); (fld_65, v_false); (fld_66, v_true)]);
    ([tok_57; tok_1; tok_2; tok_3; tok_4], Some [(fld_0, (B "pprint")); (fld_1, (B ";")); (fld_2, (B ":")); (fld_4, v_true); (fld_8, v_true); (fld_9, v_true); (fld_30, (B "json")); (fld_31, v_na); (fld_32, v_na); (fld_33, v_na); (fld_65, v_false); (fld_66, v_true)]);
    ([tok_57; tok_5; tok_2; tok_6; tok_4], Some [(fld_0, (B "pprint")); (fld_1, (B " ")); (fld_2, v_na); (fld_4, v_true); (fld_8, v_true); (fld_30, (B "json")); (fld_31, v_na); (fld_32, (B ";")); (fld_33, (B ":")); (fld_37, v_true); (fld_38, v_true); (fld_65, v_false); (fld_66, v_true)]);
    ([tok_57; tok_7; tok_2; tok_8; tok_2], Some [(fld_0, (B "pprint")); (fld_1, (B " ")); (fld_2, v_na); (fld_3, (B ";")); (fld_4, v_true); (fld_8, v_true); (fld_10, v_true); (fld_30, (B "json")); (fld_31, (B ";")); (fld_32, v_na); (fld_33, v_na); (fld_39, v_true); (fld_65, v_false); (fld_66, v_true)]);
    ([tok_58], Some [(fld_0, (B "pprint")); (fld_1, (B " ")); (fld_2, v_na); (fld_4, v_true); (fld_8, v_true); (fld_30, (B "jsonl")); (fld_31, (B "")); (fld_32, (B "")); (fld_33, (B "")); (fld_65, v_false); (fld_66, v_true)]);
    ([tok_58; tok_1; tok_2; tok_3; tok_4], Some [(fld_0, (B "pprint")); (fld_1, (B ";")); (fld_2, (B ":")); (fld_4, v_true); (fld_8, v_true); (fld_9, v_true); (fld_30, (B "jsonl")); (fld_31, (B "")); (fld_32, (B "")); (fld_33, (B "")); (fld_65, v_false); (fld_66, v_true)]);
    ([tok_58; tok_5; tok_2; tok_6; tok_4], Some [(fld_0, (B "pprint")); (fld_1, (B " ")); (fld_2, v_na); (fld_4, v_true); (fld_8, v_true); (fld_30, (B "jsonl")); (fld_31, (B "")); (fld_32, (B ";")); (fld_33, (B ":")); (fld_37, v_true); (fld_38, v_true); (fld_65, v_false); (fld_66, v_true)]);
    ([tok_58; tok_7; tok_2; tok_8; tok_2], Some [(fld_0, (B "pprint")); (fld_1, (B " ")); (fld_2, v_na); (fld_3, (B ";")); (fld_4, v_true); (fld_8, v_true); (fld_10, v_true); (fld_30, (B "jsonl")); (fld_31, (B ";")); (fld_32, (B "")); (fld_33, (B "")); (fld_39, v_true); (fld_65, v_false); (fld_66, v_true)]);
    ([tok_59], Some [(fld_0, (B "pprint")); (fld_1, (B " ")); (fld_2, v_na); (fld_4, v_true); (fld_8, v_true); (fld_30, (B "markdown")); (fld_32, (B " ")); (fld_33, v_na)]);
    ([tok_59; tok_1; tok_2; tok_3; tok_4], Some [(fld_0, (B "pprint")); (fld_1, (B ";")); (fld_2, (B ":")); (fld_4, v_true); (fld_8, v_true); (fld_9, v_true); (fld_30, (B "markdown")); (fld_32, (B " ")); (fld_33, v_na)]);
    ([tok_59; tok_5; tok_2; tok_6; tok_4], Some [(fld_0, (B "pprint")); (fld_1, (B " ")); (fld_2, v_na); (fld_4, v_true); (fld_8, v_true); (fld_30, (B "markdown")); (fld_32, (B ";")); (fld_33, (B ":")); (fld_37, v_true); (fld_38, v_true)]);
    ([tok_59; tok_7; tok_2; tok_8; tok_2], Some [(fld_0, (B "pprint")); (fld_1, (B " ")); (fld_2, v_na); (fld_3, (B ";")); (fld_4, v_true); (fld_8, v_true); (fld_10, v_true); (fld_30, (B "markdown")); (fld_31, (B ";")); (fld_32, (B " ")); (fld_33, v_na); (fld_39, v_true)]);
    ([tok_61], Some [(fld_0, (B "pprint")); (fld_1, (B " ")); (fld_2, v_na); (fld_4, v_true); (fld_8, v_true); (fld_30, (B "nidx")); (fld_32, (B " ")); (fld_33, v_na); (fld_37, v_true)]);
    ([tok_61; tok_1; tok_2; tok_3; tok_4], Some [(fld_0, (B "pprint")); (fld_1, (B ";")); (fld_2, (B ":")); (fld_4, v_true); (fld_8, v_true); (fld_9, v_true); (fld_30, (B "nidx")); (fld_32, (B " ")); (fld_33, v_na); (fld_37, v_true)]);
    ([tok_61; tok_5; tok_2; tok_6; tok_4], Some [(fld_0, (B "pprint")); (fld_1, (B " ")); (fld_2, v_na); (fld_4, v_true); (fld_8, v_true); (fld_30, (B "nidx")); (fld_32, (B ";")); (fld_33, (B ":")); (fld_37, v_true); (fld_38, v_true)]);
    ([tok_61; tok_7; tok_2; tok_8; tok_2], Some [(fld_0, (B "pprint")); (fld_1, (B " ")); (fld_2, v_na); (fld_3, (B ";")); (fld_4, v_true); (fld_8, v_true); (fld_10, v_true); (fld_30, (B "nidx")); (fld_31, (B ";")); (fld_32, (B " ")); (fld_33, v_na); (fld_37, v_true); (fld_39, v_true)]);
    ([tok_62], Some [(fld_0, (B "pprint")); (fld_1, (B " ")); (fld_2, v_na); (fld_4, v_true); (fld_8, v_true); (fld_30, (B "pprint")); (fld_32, (B " ")); (fld_33, v_na)]);
    ([tok_62; tok_1; tok_2; tok_3; tok_4], Some [(fld_0, (B "pprint")); (fld_1, (B ";")); (fld_2, (B ":")); (fld_4, v_true); (fld_8, v_true); (fld_9, v_true); (fld_30, (B "pprint")); (fld_32, (B " ")); (fld_33, v_na)]);
    ([tok_62; tok_5; tok_2; tok_6; tok_4], Some [(fld_0, (B "pprint")); (fld_1, (B " ")); (fld_2, v_na); (fld_4, v_true); (fld_8, v_true); (fld_30, (B "pprint")); (fld_32, (B ";")); (fld_33, (B ":")); (fld_37, v_true); (fld_38, v_true)]);
    ([tok_62; tok_7; tok_2; tok_8; tok_2], Some [(fld_0, (B "pprint")); (fld_1, (B " ")); (fld_2, v_na); (fld_3, (B ";")); (fld_4, v_true); (fld_8, v_true); (fld_10, v_true); (fld_30, (B "pprint")); (fld_31, (B ";")); (fld_32, (B " ")); (fld_33, v_na); (fld_39, v_true)]);
    ([tok_64], Some [(fld_0, (B "pprint")); (fld_1, (B " ")); (fld_2, v_na); (fld_4, v_true); (fld_8, v_true); (fld_30, (B "tsv")); (fld_32, (bs [9]%N)); (fld_33, v_na); (fld_37, v_true)]);
    ([tok_64; tok_1; tok_2; tok_3; tok_4], Some [(fld_0, (B "pprint")); (fld_1, (B ";")); (fld_2, (B ":")); (fld_4, v_true); (fld_8, v_true); (fld_9, v_true); (fld_30, (B "tsv")); (fld_32, (bs [9]%N)); (fld_33, v_na); (fld_37, v_true)]);
    ([tok_64; tok_5; tok_2; tok_6; tok_4], Some [(fld_0, (B "pprint")); (fld_1, (B " ")); (fld_2, v_na); (fld_4, v_true); (fld_8, v_true); (fld_30, (B "tsv")); (fld_32, (B ";")); (fld_33, (B ":")); (fld_37, v_true); (fld_38, v_true)]);
    ([tok_64; tok_7; tok_2; tok_8; tok_2], Some [(fld_0, (B "pprint")); (fld_1, (B " ")); (fld_2, v_na); (fld_3, (B ";")); (fld_4, v_true); (fld_8, v_true); (fld_10, v_true); (fld_30, (B "tsv")); (fld_31, (B ";")); (fld_32, (bs [9]%N)); (fld_33, v_na); (fld_37, v_true); (fld_39, v_true)]);
    ([tok_68], Some [(fld_0, (B "pprint")); (fld_1, (B " ")); (fld_2, v_na); (fld_4, v_true); (fld_8, v_true); (fld_30, (B "xtab")); (fld_31, (bs [10;10]%N)); (fld_32, (bs [10]%N)); (fld_33, (B " "))]);
    ([tok_68; tok_1; tok_2; tok_3; tok_4], Some [(fld_0, (B "pprint")); (fld_1, (B ";")); (fld_2, (B ":")); (fld_4, v_true); (fld_8, v_true); (fld_9, v_true); (fld_30, (B "xtab")); (fld_31, (bs [10;10]%N)); (fld_32, (bs [10]%N)); (fld_33, (B " "))]);
    ([tok_68; tok_5; tok_2; tok_6; tok_4], Some [(fld_0, (B "pprint")); (fld_1, (B " ")); (fld_2, v_na); (fld_4, v_true); (fld_8, v_true); (fld_30, (B "xtab")); (fld_31, (bs [10;10]%N)); (fld_32, (B ";")); (fld_33, (B ":")); (fld_37, v_true); (fld_38, v_true)]);
    ([tok_68; tok_7; tok_2; tok_8; tok_2], Some [(fld_0, (B "pprint")); (fld_1, (B " ")); (fld_2, v_na); (fld_3, (B ";")); (fld_4, v_true); (fld_8, v_true); (fld_10, v_true); (fld_30, (B "xtab")); (fld_31, (B ";")); (fld_32, (bs [10]%N)); (fld_33, (B " ")); (fld_39, v_true)]);
    ([tok_69], Some [(fld_0, (B "pprint")); (fld_1, (B " ")); (fld_2, v_na); (fld_4, v_true); (fld_8, v_true); (fld_30, (B "yaml")); (fld_31, v_na); (fld_32, v_na); (fld_33, v_na); (fld_65, v_false); (fld_66, v_true)]);
    ([tok_69; tok_1; tok_2; tok_3; tok_4], Some [(fld_0, (B "pprint")); (fld_1, (B ";")); (fld_2, (B ":")); (fld_4, v_true); (fld_8, v_true); (fld_9, v_true); (fld_30, (B "yaml")); (fld_31, v_na); (fld_32, v_na); (fld_33, v_na); (fld_65, v_false); (fld_66, v_true)]);
    ([tok_69; tok_5; tok_2; tok_6; tok_4], Some [(fld_0, (B "pprint")); (fld_1, (B " ")); (fld_2, v_na); (fld_4, v_true); (fld_8, v_true); (fld_30, (B "yaml")); (fld_31, v_na); (fld_32, (B ";")); (fld_33, (B ":")); (fld_37, v_true); (fld_38, v_true); (fld_65, v_false); (fld_66, v_true)]);
    ([tok_69; tok_7; tok_2; tok_8; tok_2], Some [(fld_0, (B "pprint")); (fld_1, (B " ")); (fld_2, v_na); (fld_3, (B ";")); (fld_4, v_true); (fld_8, v_true); (fld_10, v_true); (fld_30, (B "yaml")); (fld_31, (B ";")); (fld_32, v_na); (fld_33, v_na); (fld_39, v_true); (fld_65, v_false); (fld_66, v_true)]);
    ([tok_62; tok_233], Some [(fld_0, (B "pprint")); (fld_1, (B " ")); (fld_2, v_na); (fld_4, v_true); (fld_8, v_true); (fld_30, (B "pprint")); (fld_32, (B " ")); (fld_33, v_na); (fld_41, v_true)]);
    ([tok_62; tok_233; tok_1; tok_2; tok_3; tok_4], Some [(fld_0, (B "pprint")); (fld_1, (B ";")); (fld_2, (B ":")); (fld_4, v_true); (fld_8, v_true); (fld_9, v_true); (fld_30, (B "pprint")); (fld_32, (B " ")); (fld_33, v_na); (fld_41, v_true)]);
    ([tok_62; tok_233; tok_5; tok_2; tok_6; tok_4], Some [(fld_0, (B "pprint")); (fld_1, (B " ")); (fld_2, v_na); (fld_4, v_true); (fld_8, v_true); (fld_30, (B "pprint")); (fld_32, (B ";")); (fld_33, (B ":")); (fld_37, v_true); (fld_38, v_true); (fld_41, v_true)]);
    ([tok_62; tok_233; tok_7; tok_2; tok_8; tok_2], Some [(fld_0, (B "pprint")); (fld_1, (B " ")); (fld_2, v_na); (fld_3, (B ";")); (fld_4, v_true); (fld_8, v_true); (fld_10, v_true); (fld_30, (B "pprint")); (fld_31, (B ";")); (fld_32, (B " ")); (fld_33, v_na); (fld_39, v_true); (fld_41, v_true)])]);
  (tok_35, [
    ([], Some [(fld_0, (B "recutils")); (fld_1, v_na); (fld_2, v_na); (fld_3, v_na)]);
    ([tok_1; tok_2; tok_3; tok_4], Some [(fld_0, (B "recutils")); (fld_1, (B ";")); (fld_2, (B ":")); (fld_3, v_na); (fld_8, v_true); (fld_9, v_true)]);
    ([tok_5; tok_2; tok_6; tok_4], Some [(fld_0, (B "recutils")); (fld_1, v_na); (fld_2, v_na); (fld_3, v_na); (fld_32, (B ";")); (fld_33, (B ":")); (fld_37, v_true); (fld_38, v_true)]);
    ([tok_7; tok_2; tok_8; tok_2], Some [(fld_0, (B "recutils")); (fld_1, v_na); (fld_2, v_na); (fld_3, (B ";")); (fld_10, v_true); (fld_31, (B ";")); (fld_39, v_true)]);
    ([tok_63], Some [(fld_0, (B "recutils")); (fld_1, v_na); (fld_2, v_na); (fld_3, v_na); (fld_30, (B "recutils")); (fld_31, v_na); (fld_32, v_na); (fld_33, v_na)]);
    ([tok_63; tok_1; tok_2; tok_3; tok_4], Some [(fld_0, (B "recutils")); (fld_1, (B ";")); (fld_2, (B ":")); (fld_3, v_na); (fld_8, v_true); (fld_9, v_true); (fld_30, (B "recutils")); (fld_31, v_na); (fld_32, v_na); (fld_33, v_na)]);
    ([tok_63; tok_5; tok_2; tok_6; tok_4], Some [(fld_0, (B "recutils")); (fld_1, v_na); (fld_2, v_na); (fld_3, v_na); (fld_30, (B "recutils")); (fld_31, v_na); (fld_32, (B ";")); (fld_33, (B ":")); (fld_37, v_true); (fld_38, v_true)]);
    ([tok_63; tok_7; tok_2; tok_8; tok_2], Some [(fld_0, (B "recutils")); (fld_1, v_na); (fld_2, v_na); (fld_3, (B ";")); (fld_10, v_true); (fld_30, (B "recutils")); (fld_31, (B ";")); (fld_32, v_na); (fld_33, v_na); (fld_39, v_true)])]);
  (tok_36, [
    ([], Some [(fld_0, (B "tsv")); (fld_1, (bs [9]%N)); (fld_2, v_na)]);
    ([tok_1; tok_2; tok_3; tok_4], Some [(fld_0, (B "tsv")); (fld_1, (B ";")); (fld_2, (B ":")); (fld_8, v_true); (fld_9, v_true)]);
    ([tok_5; tok_2; tok_6; tok_4], Some [(fld_0, (B "tsv")); (fld_1, (bs [9]%N)); (fld_2, v_na); (fld_32, (B ";")); (fld_33, (B ":")); (fld_37, v_true); (fld_38, v_true)]);
    ([tok_7; tok_2; tok_8; tok_2], Some [(fld_0, (B "tsv")); (fld_1, (bs [9]%N)); (fld_2, v_na); (fld_3, (B ";")); (fld_10, v_true); (fld_31, (B ";")); (fld_39, v_true)]);
    ([tok_62; tok_233], Some [(fld_0, (B "tsv")); (fld_1, (bs [9]%N)); (fld_2, v_na); (fld_30, (B "pprint")); (fld_32, (B " ")); (fld_33, v_na); (fld_41, v_true)]);
    ([tok_62; tok_233; tok_1; tok_2; tok_3; tok_4], Some [(fld_0, (B "tsv")); (fld_1, (B ";")); (fld_2, (B ":")); (fld_8, v_true); (fld_9, v_true); (fld_30, (B "pprint")); (fld_32, (B " ")); (fld_33, v_na); (fld_41, v_true)]);
    ([tok_62; tok_233; tok_5; tok_2; tok_6; tok_4], Some [(fld_0, (B "tsv")); (fld_1, (bs [9]%N)); (fld_2, v_na); (fld_30, (B "pprint")); (fld_32, (B ";")); (fld_33, (B ":")); (fld_37, v_true); (fld_38, v_true); (fld_41, v_true)]);
    ([tok_62; tok_233; tok_7; tok_2; tok_8; tok_2], Some [(fld_0, (B "tsv")); (fld_1, (bs [9]%N)); (fld_2, v_na); (fld_3, (B ";")); (fld_10, v_true); (fld_30, (B "pprint")); (fld_31, (B ";")); (fld_32, (B " ")); (fld_33, v_na); (fld_39, v_true); (fld_41, v_true)]);
    ([tok_53], Some [(fld_0, (B "tsv")); (fld_1, (bs [9]%N)); (fld_2, v_na); (fld_30, (B "csv")); (fld_33, v_na)]);
    ([tok_53; tok_1; tok_2; tok_3; tok_4], Some [(fld_0, (B "tsv")); (fld_1, (B ";")); (fld_2, (B ":")); (fld_8, v_true); (fld_9, v_true); (fld_30, (B "csv")); (fld_33, v_na)]);
    ([tok_53; tok_5; tok_2; tok_6; tok_4], Some [(fld_0, (B "tsv")); (fld_1, (bs [9]%N)); (fld_2, v_na); (fld_30, (B "csv")); (fld_32, (B ";")); (fld_33, (B ":")); (fld_37, v_true); (fld_38, v_true)]);
    ([tok_53; tok_7; tok_2; tok_8; tok_2], Some [(fld_0, (B "tsv")); (fld_1, (bs [9]%N)); (fld_2, v_na); (fld_3, (B ";")); (fld_10, v_true); (fld_30, (B "csv")); (fld_31, (B ";")); (fld_33, v_na); (fld_39, v_true)]);
    ([tok_56], Some [(fld_0, (B "tsv")); (fld_1, (bs [9]%N)); (fld_2, v_na)]);
    ([tok_56; tok_1; tok_2; tok_3; tok_4], Some [(fld_0, (B "tsv")); (fld_1, (B ";")); (fld_2, (B ":")); (fld_8, v_true); (fld_9, v_true)]);
    ([tok_56; tok_5; tok_2; tok_6; tok_4], Some [(fld_0, (B "tsv")); (fld_1, (bs [9]%N)); (fld_2, v_na); (fld_32, (B ";")); (fld_33, (B ":")); (fld_37, v_true); (fld_38, v_true)]);
    ([tok_56; tok_7; tok_2; tok_8; tok_2], Some [(fld_0, (B "tsv")); (fld_1, (bs [9]%N)); (fld_2, v_na); (fld_3, (B ";")); (fld_10, v_true); (fld_31, (B ";")); (fld_39, v_true)]);
    ([tok_57], Some [(fld_0, (B "tsv")); (fld_1, (bs [9]%N)); (fld_2, v_na); (fld_30, (B "json")); (fld_31, v_na); (fld_32, v_na); (fld_33, v_na); (fld_65, v_false); (fld_66, v_true)]);
    ([tok_57; tok_1; tok_2; tok_3; tok_4], Some [(fld_0, (B "tsv")); (fld_1, (B ";")); (fld_2, (B ":")); (fld_8, v_true); (fld_9, v_true); (fld_30, (B "json")); (fld_31, v_na); (fld_32, v_na); (fld_33, v_na); (fld_65, v_false); (fld_66, v_true)]);
    ([tok_57; tok_5; tok_2; tok_6; tok_4], Some [(fld_0, (B "tsv")); (fld_1, (bs [9]%N)); (fld_2, v_na); (fld_30, (B "json")); (fld_31, v_na); (fld_32, (B ";")); (fld_33, (B ":")); (fld_37, v_true); (fld_38, v_true); (fld_65, v_false); (fld_66, v_true)]);
    ([tok_57; tok_7; tok_2; tok_8; tok_2], Some [(fld_0, (B "tsv")); (fld_1, (bs [9]%N)); (fld_2, v_na); (fld_3, (B ";")); (fld_10, v_true); (fld_30, (B "json")); (fld_31, (B ";")); (fld_32, v_na); (fld_33, v_na); (fld_39, v_true); (fld_65, v_false); (fld_66, v_true)]);
    ([tok_58], Some [(fld_0, (B "tsv")); (fld_1, (bs [9]%N)); (fld_2, v_na); (fld_30, (B "jsonl")); (fld_31, (B "")); (fld_32, (B "")); (fld_33, (B "")); (fld_65, v_false); (fld_66, v_true)]);
    ([tok_58; tok_1; tok_2; tok_3; tok_4], Some [(fld_0, (B "tsv")); (fld_1, (B ";")); (fld_2, (B ":")); (fld_8, v_true); (fld_9, v_true); (fld_30, (B "jsonl")); (fld_31, (B "")); (fld_32, (B "")); (fld_33, (B "")); (fld_65, v_false); (fld_66, v_true)]);
    ([tok_58; tok_5; tok_2; tok_6; tok_4], Some [(fld_0, (B "tsv")); (fld_1, (bs [9]%N)); (fld_2, v_na); (fld_30, (B "jsonl")); (fld_31, (B "")); (fld_32, (B ";")); (fld_33, (B ":")); (fld_37, v_true); (fld_38, v_true); (fld_65, v_false); (fld_66, v_true)]);
    ([tok_58; tok_7; tok_2; tok_8; tok_2], Some [(fld_0, (B "tsv")); (fld_1, (bs [9]%N)); (fld_2, v_na); (fld_3, (B ";")); (fld_10, v_true); (fld_30, (B "jsonl")); (fld_31, (B ";")); (fld_32, (B "")); (fld_33, (B "")); (fld_39, v_true); (fld_65, v_false); (fld_66, v_true)]);
    ([tok_59], Some [(fld_0, (B "tsv")); (fld_1, (bs [9]%N)); (fld_2, v_na); (fld_30, (B "markdown")); (fld_32, (B " ")); (fld_33, v_na)]);
    ([tok_59; tok_1; tok_2; tok_3; tok_4], Some [(fld_0, (B "tsv")); (fld_1, (B ";")); (fld_2, (B ":")); (fld_8, v_true); (fld_9, v_true); (fld_30, (B "markdown")); (fld_32, (B " ")); (fld_33, v_na)]);
    ([tok_59; tok_5; tok_2; tok_6; tok_4], Some [(fld_0, (B "tsv")); (fld_1, (bs [9]%N)); (fld_2, v_na); (fld_30, (B "markdown")); (fld_32, (B ";")); (fld_33, (B ":")); (fld_37, v_true); (fld_38, v_true)]);
    ([tok_59; tok_7; tok_2; tok_8; tok_2], Some [(fld_0, (B "tsv")); (fld_1, (bs [9]%N)); (fld_2, v_na); (fld_3, (B ";")); (fld_10, v_true); (fld_30, (B "markdown")); (fld_31, (B ";")); (fld_32, (B " ")); (fld_33, v_na); (fld_39, v_true)]);
    ([tok_61], Some [(fld_0, (B "tsv")); (fld_1, (bs [9]%N)); (fld_2, v_na); (fld_30, (B "nidx")); (fld_32, (B " ")); (fld_33, v_na); (fld_37, v_true)]);
    ([tok_61; tok_1; tok_2; tok_3; tok_4], Some [(fld_0, (B "tsv")); (fld_1, (B ";")); (fld_2, (B ":")); (fld_8, v_true); (fld_9, v_true); (fld_30, (B "nidx")); (fld_32, (B " ")); (fld_33, v_na); (fld_37, v_true)]);
    ([tok_61; tok_5; tok_2; tok_6; tok_4], Some [(fld_0, (B "tsv")); (fld_1, (bs [9]%N)); (fld_2, v_na); (fld_30, (B "nidx")); (fld_32, (B ";")); (fld_33, (B ":")); (fld_37, v_true); (fld_38, v_true)]);
    ([tok_61; tok_7; tok_2; tok_8; tok_2], Some [(fld_0, (B "tsv")); (fld_1, (bs [9]%N)); (fld_2, v_na); (fld_3, (B ";")); (fld_10, v_true); (fld_30, (B "nidx")); (fld_31, (B ";")); (fld_32, (B " ")); (fld_33, v_na); (fld_37, v_true); (fld_39, v_true)]);
    ([tok_62], Some [(fld_0, (B "tsv")); (fld_1, (bs [9]%N)); (fld_2, v_na); (fld_30, (B "pprint")); (fld_32, (B " ")); (fld_33, v_na)]);
    ([tok_62; tok_1; tok_2; tok_3; tok_4], Some [(fld_0, (B "tsv")); (fld_1, (B ";")); (fld_2, (B ":")); (fld_8, v_true); (fld_9, v_true); (fld_30, (B "pprint")); (fld_32, (B " ")); (fld_33, v_na)]);
    ([tok_62; tok_5; tok_2; tok_6; tok_4], Some [(fld_0, (B "tsv")); (fld_1, (bs [9]%N)); (fld_2, v_na); (fld_30, (B "pprint")); (fld_32, (B ";")); (fld_33, (B ":")); (fld_37, v_true); (fld_38, v_true)]);
    ([tok_62; tok_7; tok_2; tok_8; tok_2], Some [(fld_0, (B "tsv")); (fld_1, (bs [9]%N)); (fld_2, v_na); (fld_3, (B ";")); (fld_10, v_true); (fld_30, (B "pprint")); (fld_31, (B ";")); (fld_32, (B " ")); (fld_33, v_na); (fld_39, v_true)]);
    ([tok_64], Some [(fld_0, (B "tsv")); (fld_1, (bs [9]%N)); (fld_2, v_na); (fld_30, (B "tsv")); (fld_32, (bs [9]%N)); (fld_33, v_na); (fld_37, v_true)]);
    ([tok_64; tok_1; tok_2; tok_3; tok_4], Some [(fld_0, (B "tsv")); (fld_1, (B ";")); (fld_2, (B ":")); (fld_8, v_true); (fld_9, v_true); (fld_30, (B "tsv")); (fld_32, (bs [9]%N)); (fld_33, v_na); (fld_37, v_true)]);
    ([tok_64; tok_5; tok_2; tok_6; tok_4], Some [(fld_0, (B "tsv")); (fld_1, (bs [9]%N)); (fld_2, v_na); (fld_30, (B "tsv")); (fld_32, (B ";")); (fld_33, (B ":")); (fld_37, v_true); (fld_38, v_true)]);
    ([tok_64; tok_7; tok_2; tok_8; tok_2], Some [(fld_0, (B "tsv")); (fld_1, (bs [9]%N)); (fld_2, v_na); (fld_3, (B ";")); (fld_10, v_true); (fld_30, (B "tsv")); (fld_31, (B ";")); (fld_32, (bs [9]%N)); (fld_33, v_na); (fld_37, v_true); (fld_39, v_true)]);
    ([tok_68], Some [(fld_0, (B "tsv")); (fld_1, (bs [9]%N)); (fld_2, v_na); (fld_30, (B "xtab")); (fld_31, (bs [10;10]%N)); (fld_32, (bs [10]%N)); (fld_33, (B " "))]);
    ([tok_68; tok_1; tok_2; tok_3; tok_4], Some [(fld_0, (B "tsv")); (fld_1, (B ";")); (fld_2, (B ":")); (fld_8, v_true); (fld_9, v_true); (fld_30, (B "xtab")); (fld_31, (bs [10;10]%N)); (fld_32, (bs [10]%N)); (fld_33, (B " "))]);
    ([tok_68; tok_5; tok_2; tok_6; tok_4], Some [(fld_0, (B "tsv")); (fld_1, (bs [9]%N)); (fld_2, v_na); (fld_30, (B "xtab")); (fld_31, (bs [10;10]%N)); (fld_32, (B ";")); (fld_33, (B ":")); (fld_37, v_true); (fld_38, v_true)]);
    ([tok_68; tok_7; tok_2; tok_8; tok_2], Some [(fld_0, (B "tsv")); (fld_1, (bs [9]%N)); (fld_2, v_na); (fld_3, (B ";")); (fld_10, v_true); (fld_30, (B "xtab")); (fld_31, (B ";")); (fld_32, (bs [10]%N)); (fld_33, (B " ")); (fld_39, v_true)]);
    ([tok_69], Some [(fld_0, (B "tsv")); (fld_1, (bs [9]%N)); (fld_2, v_na); (fld_30, (B "yaml")); (fld_31, v_na); (fld_32, v_na); (fld_33, v_na); (fld_65, v_false); (fld_66, v_true)]);
    ([tok_69; tok_1; tok_2; tok_3; tok_4], Some [(fld_0, (B "tsv")); (fld_1, (B ";")); (fld_2, (B ":")); (fld_8, v_true); (fld_9, v_true); (fld_30, (B "yaml")); (fld_31, v_na); (fld_32, v_na); (fld_33, v_na); (fld_65, v_false); (fld_66, v_true)]);
    ([tok_69; tok_5; tok_2; tok_6; tok_4], Some [(fld_0, (B "tsv")); (fld_1, (bs [9]%N)); (fld_2, v_na); (fld_30, (B "yaml")); (fld_31, v_na); (fld_32, (B ";")); (fld_33, (B ":")); (fld_37, v_true); (fld_38, v_true); (fld_65, v_false); (fld_66, v_true)]);
    ([tok_69; tok_7; tok_2; tok_8; tok_2], Some [(fld_0, (B "tsv")); (fld_1, (bs [9]%N)); (fld_2, v_na); (fld_3, (B ";")); (fld_10, v_true); (fld_30, (B "yaml")); (fld_31, (B ";")); (fld_32, v_na); (fld_33, v_na); (fld_39, v_true); (fld_65, v_false); (fld_66, v_true)])]);
  (tok_37, [
    ([], Some [(fld_0, (B "csvlite")); (fld_1, (bs [9]%N)); (fld_2, v_na); (fld_8, v_true)]);
    ([tok_1; tok_2; tok_3; tok_4], Some [(fld_0, (B "csvlite")); (fld_1, (B ";")); (fld_2, (B ":")); (fld_8, v_true); (fld_9, v_true)]);
    ([tok_5; tok_2; tok_6; tok_4], Some [(fld_0, (B "csvlite")); (fld_1, (bs [9]%N)); (fld_2, v_na); (fld_8, v_true); (fld_32, (B ";")); (fld_33, (B ":")); (fld_37, v_true); (fld_38, v_true)]);
    ([tok_7; tok_2; tok_8; tok_2], Some [(fld_0, (B "csvlite")); (fld_1, (bs [9]%N)); (fld_2, v_na); (fld_3, (B ";")); (fld_8, v_true); (fld_10, v_true); (fld_31, (B ";")); (fld_39, v_true)]);
    ([tok_65], Some [(fld_0, (B "csvlite")); (fld_1, (bs [9]%N)); (fld_2, v_na); (fld_8, v_true); (fld_30, (B "csvlite")); (fld_32, (bs [9]%N)); (fld_33, v_na); (fld_37, v_true)]);
    ([tok_65; tok_1; tok_2; tok_3; tok_4], Some [(fld_0, (B "csvlite")); (fld_1, (B ";")); (fld_2, (B ":")); (fld_8, v_true); (fld_9, v_true); (fld_30, (B "csvlite")); (fld_32, (bs [9]%N)); (fld_33, v_na); (fld_37, v_true)]);
    ([tok_65; tok_5; tok_2; tok_6; tok_4], Some [(fld_0, (B "csvlite")); (fld_1, (bs [9]%N)); (fld_2, v_na); (fld_8, v_true); (fld_30, (B "csvlite")); (fld_32, (B ";")); (fld_33, (B ":")); (fld_37, v_true); (fld_38, v_true)]);
    ([tok_65; tok_7; tok_2; tok_8; tok_2], Some [(fld_0, (B "csvlite")); (fld_1, (bs [9]%N)); (fld_2, v_na); (fld_3, (B ";")); (fld_8, v_true); (fld_10, v_true); (fld_30, (B "csvlite")); (fld_31, (B ";")); (fld_32, (bs [9]%N)); (fld_33, v_na); (fld_37, v_true); (fld_39, v_true)])]);
  (tok_38, [
    ([], Some [(fld_0, (B "csvlite")); (fld_1, (bs [226;144;159]%N)); (fld_2, v_na); (fld_3, (bs [226;144;158]%N)); (fld_8, v_true); (fld_10, v_true)]);
    ([tok_1; tok_2; tok_3; tok_4], Some [(fld_0, (B "csvlite")); (fld_1, (B ";")); (fld_2, (B ":")); (fld_3, (bs [226;144;158]%N)); (fld_8, v_true); (fld_9, v_true); (fld_10, v_true)]);
    ([tok_5; tok_2; tok_6; tok_4], Some [(fld_0, (B "csvlite")); (fld_1, (bs [226;144;159]%N)); (fld_2, v_na); (fld_3, (bs [226;144;158]%N)); (fld_8, v_true); (fld_10, v_true); (fld_32, (B ";")); (fld_33, (B ":")); (fld_37, v_true); (fld_38, v_true)]);
    ([tok_7; tok_2; tok_8; tok_2], Some [(fld_0, (B "csvlite")); (fld_1, (bs [226;144;159]%N)); (fld_2, v_na); (fld_3, (B ";")); (fld_8, v_true); (fld_10, v_true); (fld_31, (B ";")); (fld_39, v_true)]);
    ([tok_66], Some [(fld_0, (B "csvlite")); (fld_1, (bs [226;144;159]%N)); (fld_2, v_na); (fld_3, (bs [226;144;158]%N)); (fld_8, v_true); (fld_10, v_true); (fld_30, (B "csvlite")); (fld_31, (bs [226;144;158]%N)); (fld_32, (bs [226;144;159]%N)); (fld_33, v_na); (fld_37, v_true); (fld_39, v_true)]);
    ([tok_66; tok_1; tok_2; tok_3; tok_4], Some [(fld_0, (B "csvlite")); (fld_1, (B ";")); (fld_2, (B ":")); (fld_3, (bs [226;144;158]%N)); (fld_8, v_true); (fld_9, v_true); (fld_10, v_true); (fld_30, (B "csvlite")); (fld_31, (bs [226;144;158]%N)); (fld_32, (bs [226;144;159]%N)); (fld_33, v_na); (fld_37, v_true); (fld_39, v_true)]);
    ([tok_66; tok_5; tok_2; tok_6; tok_4], Some [(fld_0, (B "csvlite")); (fld_1, (bs [226;144;159]%N)); (fld_2, v_na); (fld_3, (bs [226;144;158]%N)); (fld_8, v_true); (fld_10, v_true); (fld_30, (B "csvlite")); (fld_31, (bs [226;144;158]%N)); (fld_32, (B ";")); (fld_33, (B ":")); (fld_37, v_true); (fld_38, v_true); (fld_39, v_true)]);
    ([tok_66; tok_7; tok_2; tok_8; tok_2], Some [(fld_0, (B "csvlite")); (fld_1, (bs [226;144;159]%N)); (fld_2, v_na); (fld_3, (B ";")); (fld_8, v_true); (fld_10, v_true); (fld_30, (B "csvlite")); (fld_31, (B ";")); (fld_32, (bs [226;144;159]%N)); (fld_33, v_na); (fld_37, v_true); (fld_39, v_true)])]);
  (tok_39, [
    ([], Some [(fld_0, (B "csvlite")); (fld_1, (bs [226;144;159]%N)); (fld_2, v_na); (fld_3, (bs [226;144;158]%N)); (fld_8, v_true); (fld_10, v_true)]);
    ([tok_1; tok_2; tok_3; tok_4], Some [(fld_0, (B "csvlite")); (fld_1, (B ";")); (fld_2, (B ":")); (fld_3, (bs [226;144;158]%N)); (fld_8, v_true); (fld_9, v_true); (fld_10, v_true)]);
    ([tok_5; tok_2; tok_6; tok_4], Some [(fld_0, (B "csvlite")); (fld_1, (bs [226;144;159]%N)); (fld_2, v_na); (fld_3, (bs [226;144;158]%N)); (fld_8, v_true); (fld_10, v_true); (fld_32, (B ";")); (fld_33, (B ":")); (fld_37, v_true); (fld_38, v_true)]);
    ([tok_7; tok_2; tok_8; tok_2], Some [(fld_0, (B "csvlite")); (fld_1, (bs [226;144;159]%N)); (fld_2, v_na); (fld_3, (B ";")); (fld_8, v_true); (fld_10, v_true); (fld_31, (B ";")); (fld_39, v_true)]);
    ([tok_67], Some [(fld_0, (B "csvlite")); (fld_1, (bs [226;144;159]%N)); (fld_2, v_na); (fld_3, (bs [226;144;158]%N)); (fld_8, v_true); (fld_10, v_true); (fld_30, (B "csvlite")); (fld_31, (bs [226;144;158]%N)); (fld_32, (bs [226;144;159]%N)); (fld_33, v_na); (fld_37, v_true); (fld_39, v_true)]);
    ([tok_67; tok_1; tok_2; tok_3; tok_4], Some [(fld_0, (B "csvlite")); (fld_1, (B ";")); (fld_2, (B ":")); (fld_3, (bs [226;144;158]%N)); (fld_8, v_true); (fld_9, v_true); (fld_10, v_true); (fld_30, (B "csvlite")); (fld_31, (bs [226;144;158]%N)); (fld_32, (bs [226;144;159]%N)); (fld_33, v_na); (fld_37, v_true); (fld_39, v_true)]);
    ([tok_67; tok_5; tok_2; tok_6; tok_4], Some [(fld_0, (B "csvlite")); (fld_1, (bs [226;144;159]%N)); (fld_2, v_na); (fld_3, (bs [226;144;158]%N)); (fld_8, v_true); (fld_10, v_true); (fld_30, (B "csvlite")); (fld_31, (bs [226;144;158]%N)); (fld_32, (B ";")); (fld_33, (B ":")); (fld_37, v_true); (fld_38, v_true); (fld_39, v_true)]);
    ([tok_67; tok_7; tok_2; tok_8; tok_2], Some [(fld_0, (B "csvlite")); (fld_1, (bs [226;144;159]%N)); (fld_2, v_na); (fld_3, (B ";")); (fld_8, v_true); (fld_10, v_true); (fld_30, (B "csvlite")); (fld_31, (B ";")); (fld_32, (bs [226;144;159]%N)); (fld_33, v_na); (fld_37, v_true); (fld_39, v_true)])]);
  (tok_40, [
    ([], Some [(fld_0, (B "xtab")); (fld_1, (bs [10]%N)); (fld_2, (B " ")); (fld_3, (bs [10;10]%N))]);
    ([tok_1; tok_2; tok_3; tok_4], Some [(fld_0, (B "xtab")); (fld_1, (B ";")); (fld_2, (B ":")); (fld_3, (bs [10;10]%N)); (fld_8, v_true); (fld_9, v_true)]);
    ([tok_5; tok_2; tok_6; tok_4], Some [(fld_0, (B "xtab")); (fld_1, (bs [10]%N)); (fld_2, (B " ")); (fld_3, (bs [10;10]%N)); (fld_32, (B ";")); (fld_33, (B ":")); (fld_37, v_true); (fld_38, v_true)]);
    ([tok_7; tok_2; tok_8; tok_2], Some [(fld_0, (B "xtab")); (fld_1, (bs [10]%N)); (fld_2, (B " ")); (fld_3, (B ";")); (fld_10, v_true); (fld_31, (B ";")); (fld_39, v_true)]);
    ([tok_62; tok_233], Some [(fld_0, (B "xtab")); (fld_1, (bs [10]%N)); (fld_2, (B " ")); (fld_3, (bs [10;10]%N)); (fld_30, (B "pprint")); (fld_32, (B " ")); (fld_33, v_na); (fld_41, v_true)]);
    ([tok_62; tok_233; tok_1; tok_2; tok_3; tok_4], Some [(fld_0, (B "xtab")); (fld_1, (B ";")); (fld_2, (B ":")); (fld_3, (bs [10;10]%N)); (fld_8, v_true); (fld_9, v_true); (fld_30, (B "pprint")); (fld_32, (B " ")); (fld_33, v_na); (fld_41, v_true)]);
    ([tok_62; tok_233; tok_5; tok_2; tok_6; tok_4], Some [(fld_0, (B "xtab")); (fld_1, (bs [10]%N)); (fld_2, (B " ")); (fld_3, (bs [10;10]%N)); (fld_30, (B "pprint")); (fld_32, (B ";")); (fld_33, (B ":")); (fld_37, v_true); (fld_38, v_true); (fld_41, v_true)]);
    ([tok_62; tok_233; tok_7; tok_2; tok_8; tok_2], Some [(fld_0, (B "xtab")); (fld_1, (bs [10]%N)); (fld_2, (B " ")); (fld_3, (B ";")); (fld_10, v_true); (fld_30, (B "pprint")); (fld_31, (B ";")); (fld_32, (B " ")); (fld_33, v_na); (fld_39, v_true); (fld_41, v_true)]);
    ([tok_53], Some [(fld_0, (B "xtab")); (fld_1, (bs [10]%N)); (fld_2, (B " ")); (fld_3, (bs [10;10]%N)); (fld_30, (B "csv")); (fld_33, v_na)]);
    ([tok_53; tok_1; tok_2; tok_3; tok_4], Some [(fld_0, (B "xtab")); (fld_1, (B ";")); (fld_2, (B ":")); (fld_3, (bs [10;10]%N)); (fld_8, v_true); (fld_9, v_true); (fld_30, (B "csv")); (fld_33, v_na)]);
    ([tok_53; tok_5; tok_2; tok_6; tok_4], Some [(fld_0, (B "xtab")); (fld_1, (bs [10]%N)); (fld_2, (B " ")); (fld_3, (bs [10;10]%N)); (fld_30, (B "csv")); (fld_32, (B ";")); (fld_33, (B ":")); (fld_37, v_true); (fld_38, v_true)]);
    ([tok_53; tok_7; tok_2; tok_8; tok_2], Some [(fld_0, (B "xtab")); (fld_1, (bs [10]%N)); (fld_2, (B " ")); (fld_3, (B ";")); (fld_10, v_true); (fld_30, (B "csv")); (fld_31, (B ";")); (fld_33, v_na); (fld_39, v_true)]);
    ([tok_56], Some [(fld_0, (B "xtab")); (fld_1, (bs [10]%N)); (fld_2, (B " ")); (fld_3, (bs [10;10]%N))]);
    ([tok_56; tok_1; tok_2; tok_3; tok_4], Some [(fld_0, (B "xtab")); (fld_1, (B ";")); (fld_2, (B ":")); (fld_3, (bs [10;10]%N)); (fld_8, v_true); (fld_9, v_true)]);
    ([tok_56; tok_5; tok_2; tok_6; tok_4], Some [(fld_0, (B "xtab")); (fld_1, (bs [10]%N)); (fld_2, (B " ")); (fld_3, (bs [10;10]%N)); (fld_32, (B ";")); (fld_33, (B ":")); (fld_37, v_true); (fld_38, v_true)]);
    ([tok_56; tok_7; tok_2; tok_8; tok_2], Some [(fld_0, (B "xtab")); (fld_1, (bs [10]%N)); (fld_2, (B " ")); (fld_3, (B ";")); (fld_10, v_true); (fld_31, (B ";")); (fld_39, v_true)]);
    ([tok_57], Some [(fld_0, (B "xtab")); (fld_1, (bs [10]%N)); (fld_2, (B " ")); (fld_3, (bs [10;10]%N)); (fld_30, (B "json")); (fld_31, v_na); (fld_32, v_na); (fld_33, v_na); (fld_65, v_false); (fld_66, v_true)]);
    ([tok_57; tok_1; tok_2; tok_3; tok_4], Some [(fld_0, (B "xtab")); (fld_1, (B ";")); (fld_2, (B ":")); (fld_3, (bs [10;10]%N)); (fld_8, v_true); (fld_9, v_true); (fld_30, (B "json")); (fld_31, v_na); (fld_32, v_na); (fld_33, v_na); (fld_65, v_false); (fld_66, v_true)]);
    ([tok_57; tok_5; tok_2; tok_6; tok_4], Some [(fld_0, (B "xtab")); (fld_1, (bs [10]%N)); (fld_2, (B " ")); (fld_3, (bs [10;10]%N)); (fld_30, (B "json")); (fld_31, v_na); (fld_32, (B ";")); (fld_33, (B ":")); (fld_37, v_true); (fld_38, v_true); (fld_65, v_false); (fld_66, v_true)]);
    ([tok_57; tok_7; tok_2; tok_8; tok_2], Some [(fld_0, (B "xtab")); (fld_1, (bs [10]%N)); (fld_2, (B " ")); (fld_3, (B ";")); (fld_10, v_true); (fld_30, (B "json")); (fld_31, (B ";")); (fld_32, v_na); (fld_33, v_na); (fld_39, v_true); (fld_65, v_false); (fld_66, v_true)]);
    ([tok_58], Some [(fld_0, (B "xtab")); (fld_1, (bs [10]%N)); (fld_2, (B " ")); (fld_3, (bs [10;10]%N)); (fld_30, (B "jsonl")); (fld_31, (B "")); (fld_32, (B "")); (fld_33, (B "")); (fld_65, v_false); (fld_66, v_true)]);
    ([tok_58; tok_1; tok_2; tok_3; tok_4], Some [(fld_0, (B "xtab")); (fld_1, (B ";")); (fld_2, (B ":")); (fld_3, (bs [10;10]%N)); (fld_8, v_true); (fld_9, v_true); (fld_30, (B "jsonl")); (fld_31, (B "")); (fld_32, (B "")); (fld_33, (B "")); (fld_65, v_false); (fld_66, v_true)]);
    ([tok_58; tok_5; tok_2; tok_6; tok_4], Some [(fld_0, (B "xtab")); (fld_1, (bs [10]%N)); (fld_2, (B " ")); (fld_3, (bs [10;10]%N)); (fld_30, (B "jsonl")); (fld_31, (B "")); (fld_32, (B ";")); (fld_33, (B ":")); (fld_37, v_true); (fld_38, v_true); (fld_65, v_false); (fld_66, v_true)]);
    ([tok_58; tok_7; tok_2; tok_8; tok_2], Some [(fld_0, (B "xtab")); (fld_1, (bs [10]%N)); (fld_2, (B " ")); (fld_3, (B ";")); (fld_10, v_true); (fld_30, (B "jsonl")); (fld_31, (B ";")); (fld_32, (B "")); (fld_33, (B "")); (fld_39, v_true); (fld_65, v_false); (fld_66, v_true)]);
    ([tok_59], Some [(fld_0, (B "xtab")); (fld_1, (bs [10]%N)); (fld_2, (B " ")); (fld_3, (bs [10;10]%N)); (fld_30, (B "markdown")); (fld_32, (B " ")); (fld_33, v_na)]);
    ([tok_59; tok_1; tok_2; tok_3; tok_4], Some [(fld_0, (B "xtab")); (fld_1, (B ";")); (fld_2, (B ":")); (fld_3, (bs [10;10]%N)); (fld_8, v_true); (fld_9, v_true); (fld_30, (B "markdown")); (fld_32, (B " ")); (fld_33, v_na)]);
    ([tok_59; tok_5; tok_2; tok_6; tok_4], Some [(fld_0, (B "xtab")); (fld_1, (bs [10]%N)); (fld_2, (B " ")); (fld_3, (bs [10;10]%N)); (fld_30, (B "markdown")); (fld_32, (B ";")); (fld_33, (B ":")); (fld_37, v_true); (fld_38, v_true)]);
    ([tok_59; tok_7; tok_2; tok_8; tok_2], Some [(fld_0, (B "xtab")); (fld_1, (bs [10]%N)); (fld_2, (B " ")); (fld_3, (B ";")); (fld_10, v_true); (fld_30, (B "markdown")); (fld_31, (B ";")); (fld_32, (B " ")); (fld_33, v_na); (fld_39, v_true)]);
    ([tok_61], Some [(fld_0, (B "xtab")); (fld_1, (bs [10]%N)); (fld_2, (B " ")); (fld_3, (bs [10;10]%N)); (fld_30, (B "nidx")); (fld_32, (B " ")); (fld_33, v_na); (fld_37, v_true)]);
    ([tok_61; tok_1; tok_2; tok_3; tok_4], Some [(fld_0, (B "xtab")); (fld_1, (B ";")); (fld_2, (B ":")); (fld_3, (bs [10;10]%N)); (fld_8, v_true); (fld_9, v_true); (fld_30, (B "nidx")); (fld_32, (B " ")); (fld_33, v_na); (fld_37, v_true)]);
    ([tok_61; tok_5; tok_2; tok_6; tok_4], Some [(fld_0, (B "xtab")); (fld_1, (bs [10]%N)); (fld_2, (B " ")); (fld_3, (bs [10;10]%N)); (fld_30, (B "nidx")); (fld_32, (B ";")); (fld_33, (B ":")); (fld_37, v_true); (fld_38, v_true)]);
    ([tok_61; tok_7; tok_2; tok_8; tok_2], Some [(fld_0, (B "xtab")); (fld_1, (bs [10]%N)); (fld_2, (B " ")); (fld_3, (B ";")); (fld_10, v_true); (fld_30, (B "nidx")); (fld_31, (B ";")); (fld_32, (B " ")); (fld_33, v_na); (fld_37, v_true); (fld_39, v_true)]);
    ([tok_62], Some [(fld_0, (B "xtab")); (fld_1, (bs [10]%N)); (fld_2, (B " ")); (fld_3, (bs [10;10]%N)); (fld_30, (B "pprint")); (fld_32, (B " ")); (fld_33, v_na)]);
    ([tok_62; tok_1; tok_2; tok_3; tok_4], Some [(fld_0, (B "xtab")); (fld_1, (B ";")); (fld_2, (B ":")); (fld_3, (bs [10;10]%N)); (fld_8, v_true); (fld_9, v_true); (fld_30, (B "pprint")); (fld_32, (B " ")); (fld_33, v_na)]);
    ([tok_62; tok_5; tok_2; tok_6; tok_4], Some [(fld_0, (B "xtab")); (fld_1, (bs [10]%N)); (fld_2, (B " ")); (fld_3, (bs [10;10]%N)); (fld_30, (B "pprint")); (fld_32, (B ";")); (fld_33, (B ":")); (fld_37, v_true); (fld_38, v_true)]);
    ([tok_62; tok_7; tok_2; tok_8; tok_2], Some [(fld_0, (B "xtab")); (fld_1, (bs [10]%N)); (fld_2, (B " ")); (fld_3, (B ";")); (fld_10, v_true); (fld_30, (B "pprint")); (fld_31, (B ";")); (fld_32, (B " ")); (fld_33, v_na); (fld_39, v_true)]);
    ([tok_64], Some [(fld_0, (B "xtab")); (fld_1, (bs [10]%N)); (fld_2, (B " ")); (fld_3, (bs [10;10]%N)); (fld_30, (B "tsv")); (fld_32, (bs [9]%N)); (fld_33, v_na); (fld_37, v_true)]);
    ([tok_64; tok_1; tok_2; tok_3; tok_4], Some [(fld_0, (B "xtab")); (fld_1, (B ";")); (fld_2, (B ":")); (fld_3, (bs [10;10]%N)); (fld_8, v_true); (fld_9, v_true); (fld_30, (B "tsv")); (fld_32, (bs [9]%N)); (fld_33, v_na); (fld_37, v_true)]);
    ([tok_64; tok_5; tok_2; tok_6; tok_4], Some [(fld_0, (B "xtab")); (fld_1, (bs [10]%N)); (fld_2, (B " ")); (fld_3, (bs [10;10]%N)); (fld_30, (B "tsv")); (fld_32, (B ";")); (fld_33, (B ":")); (fld_37, v_true); (fld_38, v_true)]);
    ([tok_64; tok_7; tok_2; tok_8; tok_2], Some [(fld_0, (B "xtab")); (fld_1, (bs [10]%N)); (fld_2, (B " ")); (fld_3, (B ";")); (fld_10, v_true); (fld_30, (B "tsv")); (fld_31, (B ";")); (fld_32, (bs [9]%N)); (fld_33, v_na); (fld_37, v_true); (fld_39, v_true)]);
    ([tok_68], Some [(fld_0, (B "xtab")); (fld_1, (bs [10]%N)); (fld_2, (B " ")); (fld_3, (bs [10;10]%N)); (fld_30, (B "xtab")); (fld_31, (bs [10;10]%N)); (fld_32, (bs [10]%N)); (fld_33, (B " "))]);
    ([tok_68; tok_1; tok_2; tok_3; tok_4], Some [(fld_0, (B "xtab")); (fld_1, (B ";")); (fld_2, (B ":")); (fld_3, (bs [10;10]%N)); (fld_8, v_true); (fld_9, v_true); (fld_30, (B "xtab")); (fld_31, (bs [10;10]%N)); (fld_32, (bs [10]%N)); (fld_33, (B " "))]);
    ([tok_68; tok_5; tok_2; tok_6; tok_4], Some [(fld_0, (B "xtab")); (fld_1, (bs [10]%N)); (fld_2, (B " ")); (fld_3, (bs [10;10]%N)); (fld_30, (B "xtab")); (fld_31, (bs [10;10]%N)); (fld_32, (B ";")); (fld_33, (B ":")); (fld_37, v_true); (fld_38, v_true)]);
    ([tok_68; tok_7; tok_2; tok_8; tok_2], Some [(fld_0, (B "xtab")); (fld_1, (bs [10]%N)); (fld_2, (B " ")); (fld_3, (B ";")); (fld_10, v_true); (fld_30, (B "xtab")); (fld_31, (B ";")); (fld_32, (bs [10]%N)); (fld_33, (B " ")); (fld_39, v_true)]);
    ([tok_69], Some [(fld_0, (B "xtab")); (fld_1, (bs [10]%N)); (fld_2, (B " ")); (fld_3, (bs [10;10]%N)); (fld_30, (B "yaml")); (fld_31, v_na); (fld_32, v_na); (fld_33, v_na); (fld_65, v_false); (fld_66, v_true)]);
    ([tok_69; tok_1; tok_2; tok_3; tok_4], Some [(fld_0, (B "xtab")); (fld_1, (B ";")); (fld_2, (B ":")); (fld_3, (bs [10;10]%N)); (fld_8, v_true); (fld_9, v_true); (fld_30, (B "yaml")); (fld_31, v_na); (fld_32, v_na); (fld_33, v_na); (fld_65, v_false); (fld_66, v_true)]);
    ([tok_69; tok_5; tok_2; tok_6; tok_4], Some [(fld_0, (B "xtab")); (fld_1, (bs [10]%N)); (fld_2, (B " ")); (fld_3, (bs [10;10]%N)); (fld_30, (B "yaml")); (fld_31, v_na); (fld_32, (B ";")); (fld_33, (B ":")); (fld_37, v_true); (fld_38, v_true); (fld_65, v_false); (fld_66, v_true)]);
    ([tok_69; tok_7; tok_2; tok_8; tok_2], Some [(fld_0, (B "xtab")); (fld_1, (bs [10]%N)); (fld_2, (B " ")); (fld_3, (B ";")); (fld_10, v_true); (fld_30, (B "yaml")); (fld_31, (B ";")); (fld_32, v_na); (fld_33, v_na); (fld_39, v_true); (fld_65, v_false); (fld_66, v_true)])]);
  (tok_41, [
    ([], Some [(fld_0, (B "yaml")); (fld_1, v_na); (fld_2, v_na); (fld_3, v_na)]);
    ([tok_1; tok_2; tok_3; tok_4], Some [(fld_0, (B "yaml")); (fld_1, (B ";")); (fld_2, (B ":")); (fld_3, v_na); (fld_8, v_true); (fld_9, v_true)]);
    ([tok_5; tok_2; tok_6; tok_4], Some [(fld_0, (B "yaml")); (fld_1, v_na); (fld_2, v_na); (fld_3, v_na); (fld_32, (B ";")); (fld_33, (B ":")); (fld_37, v_true); (fld_38, v_true)]);
    ([tok_7; tok_2; tok_8; tok_2], Some [(fld_0, (B "yaml")); (fld_1, v_na); (fld_2, v_na); (fld_3, (B ";")); (fld_10, v_true); (fld_31, (B ";")); (fld_39, v_true)]);
    ([tok_53], Some [(fld_0, (B "yaml")); (fld_1, v_na); (fld_2, v_na); (fld_3, v_na); (fld_30, (B "csv")); (fld_33, v_na)]);
    ([tok_53; tok_1; tok_2; tok_3; tok_4], Some [(fld_0, (B "yaml")); (fld_1, (B ";")); (fld_2, (B ":")); (fld_3, v_na); (fld_8, v_true); (fld_9, v_true); (fld_30, (B "csv")); (fld_33, v_na)]);
    ([tok_53; tok_5; tok_2; tok_6; tok_4], Some [(fld_0, (B "yaml")); (fld_1, v_na); (fld_2, v_na); (fld_3, v_na); (fld_30, (B "csv")); (fld_32, (B ";")); (fld_33, (B ":")); (fld_37, v_true); (fld_38, v_true)]);
    ([tok_53; tok_7; tok_2; tok_8; tok_2], Some [(fld_0, (B "yaml")); (fld_1, v_na); (fld_2, v_na); (fld_3, (B ";")); (fld_10, v_true); (fld_30, (B "csv")); (fld_31, (B ";")); (fld_33, v_na); (fld_39, v_true)]);
    ([tok_56], Some [(fld_0, (B "yaml")); (fld_1, v_na); (fld_2, v_na); (fld_3, v_na)]);
    ([tok_56; tok_1; tok_2; tok_3; tok_4], Some [(fld_0, (B "yaml")); (fld_1, (B ";")); (fld_2, (B ":")); (fld_3, v_na); (fld_8, v_true); (fld_9, v_true)]);
    ([tok_56; tok_5; tok_2; tok_6; tok_4], Some [(fld_0, (B "yaml")); (fld_1, v_na); (fld_2, v_na); (fld_3, v_na); (fld_32, (B ";")); (fld_33, (B ":")); (fld_37, v_true); (fld_38, v_true)]);
    ([tok_56; tok_7; tok_2; tok_8; tok_2], Some [(fld_0, (B "yaml")); (fld_1, v_na); (fld_2, v_na); (fld_3, (B ";")); (fld_10, v_true); (fld_31, (B ";")); (fld_39, v_true)]);
    ([tok_57], Some [(fld_0, (B "yaml")); (fld_1, v_na); (fld_2, v_na); (fld_3, v_na); (fld_30, (B "json")); (fld_31, v_na); (fld_32, v_na); (fld_33, v_na); (fld_65, v_false)]);
    ([tok_57; tok_1; tok_2; tok_3; tok_4], Some [(fld_0, (B "yaml")); (fld_1, (B ";")); (fld_2, (B ":")); (fld_3, v_na); (fld_8, v_true); (fld_9, v_true); (fld_30, (B "json")); (fld_31, v_na); (fld_32, v_na); (fld_33, v_na); (fld_65, v_false)]);
    ([tok_57; tok_5; tok_2; tok_6; tok_4], Some [(fld_0, (B "yaml")); (fld_1, v_na); (fld_2, v_na); (fld_3, v_na); (fld_30, (B "json")); (fld_31, v_na); (fld_32, (B ";")); (fld_33, (B ":")); (fld_37, v_true); (fld_38, v_true); (fld_65, v_false)]);
    ([tok_57; tok_7; tok_2; tok_8; tok_2], Some [(fld_0, (B "yaml")); (fld_1, v_na); (fld_2, v_na); (fld_3, (B ";")); (fld_10, v_true); (fld_30, (B "json")); (fld_31, (B ";")); (fld_32, v_na); (fld_33, v_na); (fld_39, v_true); (fld_65, v_false)]);
    ([tok_58], Some [(fld_0, (B "yaml")); (fld_1, v_na); (fld_2, v_na); (fld_3, v_na); (fld_30, (B "jsonl")); (fld_31, (B "")); (fld_32, (B "")); (fld_33, (B "")); (fld_65, v_false)]);
    ([tok_58; tok_1; tok_2; tok_3; tok_4], Some [(fld_0, (B "yaml")); (fld_1, (B ";")); (fld_2, (B ":")); (fld_3, v_na); (fld_8, v_true); (fld_9, v_true); (fld_30, (B "jsonl")); (fld_31, (B "")); (fld_32, (B "")); (fld_33, (B "")); (fld_65, v_false)]);
    ([tok_58; tok_5; tok_2; tok_6; tok_4], Some [(fld_0, (B "yaml")); (fld_1, v_na); (fld_2, v_na); (fld_3, v_na); (fld_30, (B "jsonl")); (fld_31, (B "")); (fld_32, (B ";")); (fld_33, (B ":")); (fld_37, v_true); (fld_38, v_true); (fld_65, v_false)]);
    ([tok_58; tok_7; tok_2; tok_8; tok_2], Some [(fld_0, (B "yaml")); (fld_1, v_na); (fld_2, v_na); (fld_3, (B ";")); (fld_10, v_true); (fld_30, (B "jsonl")); (fld_31, (B ";")); (fld_32, (B "")); (fld_33, (B "")); (fld_39, v_true); (fld_65, v_false)]);
    ([tok_59], Some [(fld_0, (B "yaml")); (fld_1, v_na); (fld_2, v_na); (fld_3, v_na); (fld_30, (B "markdown")); (fld_32, (B " ")); (fld_33, v_na)]);
    ([tok_59; tok_1; tok_2; tok_3; tok_4], Some [(fld_0, (B "yaml")); (fld_1, (B ";")); (fld_2, (B ":")); (fld_3, v_na); (fld_8, v_true); (fld_9, v_true); (fld_30, (B "markdown")); (fld_32, (B " ")); (fld_33, v_na)]);
    ([tok_59; tok_5; tok_2; tok_6; tok_4], Some [(fld_0, (B "yaml")); (fld_1, v_na); (fld_2, v_na); (fld_3, v_na); (fld_30, (B "markdown")); (fld_32, (B ";")); (fld_33, (B ":")); (fld_37, v_true); (fld_38, v_true)]);
    ([tok_59; tok_7; tok_2; tok_8; tok_2], Some [(fld_0, (B "yaml")); (fld_1, v_na); (fld_2, v_na); (fld_3, (B ";")); (fld_10, v_true); (fld_30, (B "markdown")); (fld_31, (B ";")); (fld_32, (B " ")); (fld_33, v_na); (fld_39, v_true)]);
    ([tok_61], Some [(fld_0, (B "yaml")); (fld_1, v_na); (fld_2, v_na); (fld_3, v_na); (fld_30, (B "nidx")); (fld_32, (B " ")); (fld_33, v_na); (fld_37, v_true)]);
    ([tok_61; tok_1; tok_2; tok_3; tok_4], Some [(fld_0, (B "yaml")); (fld_1, (B ";")); (fld_2, (B ":")); (fld_3, v_na); (fld_8, v_true); (fld_9, v_true); (fld_30, (B "nidx")); (fld_32, (B " ")); (fld_33, v_na); (fld_37, v_true)]);
    ([tok_61; tok_5; tok_2; tok_6; tok_4], Some [(fld_0, (B "yaml")); (fld_1, v_na); (fld_2, v_na); (fld_3, v_na); (fld_30, (B "nidx")); (fld_32, (B ";")); (fld_33, (B ":")); (fld_37, v_true); (fld_38, v_true)]);
    ([tok_61; tok_7; tok_2; tok_8; tok_2], Some [(fld_0, (B "yaml")); (fld_1, v_na); (fld_2, v_na); (fld_3, (B ";")); (fld_10, v_true); (fld_30, (B "nidx")); (fld_31, (B ";")); (fld_32, (B " ")); (fld_33, v_na); (fld_37, v_true); (fld_39, v_true)]);
    ([tok_62], Some [(fld_0, (B "yaml")); (fld_1, v_na); (fld_2, v_na); (fld_3, v_na); (fld_30, (B "pprint")); (fld_32, (B " ")); (fld_33, v_na)]);
    ([tok_62; tok_1; tok_2; tok_3; tok_4], Some [(fld_0, (B "yaml")); (fld_1, (B ";")); (fld_2, (B ":")); (fld_3, v_na); (fld_8, v_true); (fld_9, v_true); (fld_30, (B "pprint")); (fld_32, (B " ")); (fld_33, v_na)]);
    ([tok_62; tok_5; tok_2; tok_6; tok_4], Some [(fld_0, (B "yaml")); (fld_1, v_na); (fld_2, v_na); (fld_3, v_na); (fld_30, (B "pprint")); (fld_32, (B ";")); (fld_33, (B ":")); (fld_37, v_true); (fld_38, v_true)]);
    ([tok_62; tok_7; tok_2; tok_8; tok_2], Some [(fld_0, (B "yaml")); (fld_1, v_na); (fld_2, v_na); (fld_3, (B ";")); (fld_10, v_true); (fld_30, (B "pprint")); (fld_31, (B ";")); (fld_32, (B " ")); (fld_33, v_na); (fld_39, v_true)]);
    ([tok_64], Some [(fld_0, (B "yaml")); (fld_1, v_na); (fld_2, v_na); (fld_3, v_na); (fld_30, (B "tsv")); (fld_32, (bs [9]%N)); (fld_33, v_na); (fld_37, v_true)]);
    ([tok_64; tok_1; tok_2; tok_3; tok_4], Some [(fld_0, (B "yaml")); (fld_1, (B ";")); (fld_2, (B ":")); (fld_3, v_na); (fld_8, v_true); (fld_9, v_true); (fld_30, (B "tsv")); (fld_32, (bs [9]%N)); (fld_33, v_na); (fld_37, v_true)]);
    ([tok_64; tok_5; tok_2; tok_6; tok_4], Some [(fld_0, (B "yaml")); (fld_1, v_na); (fld_2, v_na); (fld_3, v_na); (fld_30, (B "tsv")); (fld_32, (B ";")); (fld_33, (B ":")); (fld_37, v_true); (fld_38, v_true)]);
    ([tok_64; tok_7; tok_2; tok_8; tok_2], Some [(fld_0, (B "yaml")); (fld_1, v_na); (fld_2, v_na); (fld_3, (B ";")); (fld_10, v_true); (fld_30, (B "tsv")); (fld_31, (B ";")); (fld_32, (bs [9]%N)); (fld_33, v_na); (fld_37, v_true); (fld_39, v_true)]);
    ([tok_68], Some [(fld_0, (B "yaml")); (fld_1, v_na); (fld_2, v_na); (fld_3, v_na); (fld_30, (B "xtab")); (fld_31, (bs [10;10]%N)); (fld_32, (bs [10]%N)); (fld_33, (B " "))]);
    ([tok_68; tok_1; tok_2; tok_3; tok_4], Some [(fld_0, (B "yaml")); (fld_1, (B ";")); (fld_2, (B ":")); (fld_3, v_na); (fld_8, v_true); (fld_9, v_true); (fld_30, (B "xtab")); (fld_31, (bs [10;10]%N)); (fld_32, (bs [10]%N)); (fld_33, (B " "))]);
    ([tok_68; tok_5; tok_2; tok_6; tok_4], Some [(fld_0, (B "yaml")); (fld_1, v_na); (fld_2, v_na); (fld_3, v_na); (fld_30, (B "xtab")); (fld_31, (bs [10;10]%N)); (fld_32, (B ";")); (fld_33, (B ":")); (fld_37, v_true); (fld_38, v_true)]);
    ([tok_68; tok_7; tok_2; tok_8; tok_2], Some [(fld_0, (B "yaml")); (fld_1, v_na); (fld_2, v_na); (fld_3, (B ";")); (fld_10, v_true); (fld_30, (B "xtab")); (fld_31, (B ";")); (fld_32, (bs [10]%N)); (fld_33, (B " ")); (fld_39, v_true)]);
    ([tok_69], Some [(fld_0, (B "yaml")); (fld_1, v_na); (fld_2, v_na); (fld_3, v_na); (fld_30, (B "yaml")); (fld_31, v_na); (fld_32, v_na); (fld_33, v_na); (fld_65, v_false)]);
    ([tok_69; tok_1; tok_2; tok_3; tok_4], Some [(fld_0, (B "yaml")); (fld_1, (B ";")); (fld_2, (B ":")); (fld_3, v_na); (fld_8, v_true); (fld_9, v_true); (fld_30, (B "yaml")); (fld_31, v_na); (fld_32, v_na); (fld_33, v_na); (fld_65, v_false)]);
    ([tok_69; tok_5; tok_2; tok_6; tok_4], Some [(fld_0, (B "yaml")); (fld_1, v_na); (fld_2, v_na); (fld_3, v_na); (fld_30, (B "yaml")); (fld_31, v_na); (fld_32, (B ";")); (fld_33, (B ":")); (fld_37, v_true); (fld_38, v_true); (fld_65, v_false)]);
    ([tok_69; tok_7; tok_2; tok_8; tok_2], Some [(fld_0, (B "yaml")); (fld_1, v_na); (fld_2, v_na); (fld_3, (B ";")); (fld_10, v_true); (fld_30, (B "yaml")); (fld_31, (B ";")); (fld_32, v_na); (fld_33, v_na); (fld_39, v_true); (fld_65, v_false)]);
    ([tok_62; tok_233], Some [(fld_0, (B "yaml")); (fld_1, v_na); (fld_2, v_na); (fld_3, v_na); (fld_30, (B "pprint")); (fld_32, (B " ")); (fld_33, v_na); (fld_41, v_true)]);
    ([tok_62; tok_233; tok_1; tok_2; tok_3; tok_4], Some [(fld_0, (B "yaml")); (fld_1, (B ";")); (fld_2, (B ":")); (fld_3, v_na); (fld_8, v_true); (fld_9, v_true); (fld_30, (B "pprint")); (fld_32, (B " ")); (fld_33, v_na); (fld_41, v_true)]);
    ([tok_62; tok_233; tok_5; tok_2; tok_6; tok_4], Some [(fld_0, (B "yaml")); (fld_1, v_na); (fld_2, v_na); (fld_3, v_na); (fld_30, (B "pprint")); (fld_32, (B ";")); (fld_33, (B ":")); (fld_37, v_true); (fld_38, v_true); (fld_41, v_true)]);
    ([tok_62; tok_233; tok_7; tok_2; tok_8; tok_2], Some [(fld_0, (B "yaml")); (fld_1, v_na); (fld_2, v_na); (fld_3, (B ";")); (fld_10, v_true); (fld_30, (B "pprint")); (fld_31, (B ";")); (fld_32, (B " ")); (fld_33, v_na); (fld_39, v_true); (fld_41, v_true)])]);
  (tok_42, [
    ([], Some [(fld_0, (B "json")); (fld_1, v_na); (fld_2, v_na); (fld_3, v_na); (fld_30, (B "json")); (fld_31, v_na); (fld_32, v_na); (fld_33, v_na); (fld_65, v_false)]);
    ([tok_1; tok_2; tok_3; tok_4], Some [(fld_0, (B "json")); (fld_1, (B ";")); (fld_2, (B ":")); (fld_3, v_na); (fld_8, v_true); (fld_9, v_true); (fld_30, (B "json")); (fld_31, v_na); (fld_32, v_na); (fld_33, v_na); (fld_65, v_false)]);
    ([tok_5; tok_2; tok_6; tok_4], Some [(fld_0, (B "json")); (fld_1, v_na); (fld_2, v_na); (fld_3, v_na); (fld_30, (B "json")); (fld_31, v_na); (fld_32, (B ";")); (fld_33, (B ":")); (fld_37, v_true); (fld_38, v_true); (fld_65, v_false)]);
    ([tok_7; tok_2; tok_8; tok_2], Some [(fld_0, (B "json")); (fld_1, v_na); (fld_2, v_na); (fld_3, (B ";")); (fld_10, v_true); (fld_30, (B "json")); (fld_31, (B ";")); (fld_32, v_na); (fld_33, v_na); (fld_39, v_true); (fld_65, v_false)])]);
  (tok_43, [
    ([], Some [(fld_0, (B "json")); (fld_1, v_na); (fld_2, v_na); (fld_3, v_na); (fld_30, (B "json")); (fld_31, v_na); (fld_32, v_na); (fld_33, v_na); (fld_65, v_false)]);
    ([tok_1; tok_2; tok_3; tok_4], Some [(fld_0, (B "json")); (fld_1, (B ";")); (fld_2, (B ":")); (fld_3, v_na); (fld_8, v_true); (fld_9, v_true); (fld_30, (B "json")); (fld_31, v_na); (fld_32, v_na); (fld_33, v_na); (fld_65, v_false)]);
    ([tok_5; tok_2; tok_6; tok_4], Some [(fld_0, (B "json")); (fld_1, v_na); (fld_2, v_na); (fld_3, v_na); (fld_30, (B "json")); (fld_31, v_na); (fld_32, (B ";")); (fld_33, (B ":")); (fld_37, v_true); (fld_38, v_true); (fld_65, v_false)]);
    ([tok_7; tok_2; tok_8; tok_2], Some [(fld_0, (B "json")); (fld_1, v_na); (fld_2, v_na); (fld_3, (B ";")); (fld_10, v_true); (fld_30, (B "json")); (fld_31, (B ";")); (fld_32, v_na); (fld_33, v_na); (fld_39, v_true); (fld_65, v_false)])]);
  (tok_44, [
    ([], Some [(fld_0, (B "json")); (fld_1, v_na); (fld_2, v_na); (fld_3, v_na); (fld_30, (B "json")); (fld_31, v_na); (fld_32, v_na); (fld_33, v_na); (fld_65, v_false)]);
    ([tok_1; tok_2; tok_3; tok_4], Some [(fld_0, (B "json")); (fld_1, (B ";")); (fld_2, (B ":")); (fld_3, v_na); (fld_8, v_true); (fld_9, v_true); (fld_30, (B "json")); (fld_31, v_na); (fld_32, v_na); (fld_33, v_na); (fld_65, v_false)]);
    ([tok_5; tok_2; tok_6; tok_4], Some [(fld_0, (B "json")); (fld_1, v_na); (fld_2, v_na); (fld_3, v_na); (fld_30, (B "json")); (fld_31, v_na); (fld_32, (B ";")); (fld_33, (B ":")); (fld_37, v_true); (fld_38, v_true); (fld_65, v_false)]);
    ([tok_7; tok_2; tok_8; tok_2], Some [(fld_0, (B "json")); (fld_1, v_na); (fld_2, v_na); (fld_3, (B ";")); (fld_10, v_true); (fld_30, (B "json")); (fld_31, (B ";")); (fld_32, v_na); (fld_33, v_na); (fld_39, v_true); (fld_65, v_false)])]);
  (tok_45, [
    ([], Some [(fld_0, (B "json")); (fld_1, v_na); (fld_2, v_na); (fld_3, v_na); (fld_30, (B "jsonl")); (fld_31, (B "")); (fld_32, (B "")); (fld_33, (B "")); (fld_65, v_false)]);
    ([tok_1; tok_2; tok_3; tok_4], Some [(fld_0, (B "json")); (fld_1, (B ";")); (fld_2, (B ":")); (fld_3, v_na); (fld_8, v_true); (fld_9, v_true); (fld_30, (B "jsonl")); (fld_31, (B "")); (fld_32, (B "")); (fld_33, (B "")); (fld_65, v_false)]);
    ([tok_5; tok_2; tok_6; tok_4], Some [(fld_0, (B "json")); (fld_1, v_na); (fld_2, v_na); (fld_3, v_na); (fld_30, (B "jsonl")); (fld_31, (B "")); (fld_32, (B ";")); (fld_33, (B ":")); (fld_37, v_true); (fld_38, v_true); (fld_65, v_false)]);
    ([tok_7; tok_2; tok_8; tok_2], Some [(fld_0, (B "json")); (fld_1, v_na); (fld_2, v_na); (fld_3, (B ";")); (fld_10, v_true); (fld_30, (B "jsonl")); (fld_31, (B ";")); (fld_32, (B "")); (fld_33, (B "")); (fld_39, v_true); (fld_65, v_false)])]);
  (tok_46, [
    ([], Some [(fld_0, (B "json")); (fld_1, v_na); (fld_2, v_na); (fld_3, v_na); (fld_30, (B "jsonl")); (fld_31, (B "")); (fld_32, (B "")); (fld_33, (B "")); (fld_65, v_false)]);
    ([tok_1; tok_2; tok_3; tok_4], Some [(fld_0, (B "json")); (fld_1, (B ";")); (fld_2, (B ":")); (fld_3, v_na); (fld_8, v_true); (fld_9, v_true); (fld_30, (B "jsonl")); (fld_31, (B "")); (fld_32, (B "")); (fld_33, (B "")); (fld_65, v_false)]);
    ([tok_5; tok_2; tok_6; tok_4], Some [(fld_0, (B "json")); (fld_1, v_na); (fld_2, v_na); (fld_3, v_na); (fld_30, (B "jsonl")); (fld_31, (B "")); (fld_32, (B ";")); (fld_33, (B ":")); (fld_37, v_true); (fld_38, v_true); (fld_65, v_false)]);
    ([tok_7; tok_2; tok_8; tok_2], Some [(fld_0, (B "json")); (fld_1, v_na); (fld_2, v_na); (fld_3, (B ";")); (fld_10, v_true); (fld_30, (B "jsonl")); (fld_31, (B ";")); (fld_32, (B "")); (fld_33, (B "")); (fld_39, v_true); (fld_65, v_false)])]);
  (tok_47, [
    ([], Some [(fld_0, (B "markdown")); (fld_1, (B " ")); (fld_2, v_na); (fld_30, (B "markdown")); (fld_32, (B " ")); (fld_33, v_na)]);
    ([tok_1; tok_2; tok_3; tok_4], Some [(fld_0, (B "markdown")); (fld_1, (B ";")); (fld_2, (B ":")); (fld_8, v_true); (fld_9, v_true); (fld_30, (B "markdown")); (fld_32, (B " ")); (fld_33, v_na)]);
    ([tok_5; tok_2; tok_6; tok_4], Some [(fld_0, (B "markdown")); (fld_1, (B " ")); (fld_2, v_na); (fld_30, (B "markdown")); (fld_32, (B ";")); (fld_33, (B ":")); (fld_37, v_true); (fld_38, v_true)]);
    ([tok_7; tok_2; tok_8; tok_2], Some [(fld_0, (B "markdown")); (fld_1, (B " ")); (fld_2, v_na); (fld_3, (B ";")); (fld_10, v_true); (fld_30, (B "markdown")); (fld_31, (B ";")); (fld_32, (B " ")); (fld_33, v_na); (fld_39, v_true)]);
    ([tok_199], Some [(fld_0, (B "markdown")); (fld_1, (B " ")); (fld_2, v_na); (fld_30, (B "markdown")); (fld_32, (B " ")); (fld_33, v_na); (fld_45, v_true)]);
    ([tok_199; tok_1; tok_2; tok_3; tok_4], Some [(fld_0, (B "markdown")); (fld_1, (B ";")); (fld_2, (B ":")); (fld_8, v_true); (fld_9, v_true); (fld_30, (B "markdown")); (fld_32, (B " ")); (fld_33, v_na); (fld_45, v_true)]);
    ([tok_199; tok_5; tok_2; tok_6; tok_4], Some [(fld_0, (B "markdown")); (fld_1, (B " ")); (fld_2, v_na); (fld_30, (B "markdown")); (fld_32, (B ";")); (fld_33, (B ":")); (fld_37, v_true); (fld_38, v_true); (fld_45, v_true)]);
    ([tok_199; tok_7; tok_2; tok_8; tok_2], Some [(fld_0, (B "markdown")); (fld_1, (B " ")); (fld_2, v_na); (fld_3, (B ";")); (fld_10, v_true); (fld_30, (B "markdown")); (fld_31, (B ";")); (fld_32, (B " ")); (fld_33, v_na); (fld_39, v_true); (fld_45, v_true)])]);
  (tok_48, [
    ([], Some [(fld_0, (B "markdown")); (fld_1, (B " ")); (fld_2, v_na); (fld_30, (B "markdown")); (fld_32, (B " ")); (fld_33, v_na)]);
    ([tok_1; tok_2; tok_3; tok_4], Some [(fld_0, (B "markdown")); (fld_1, (B ";")); (fld_2, (B ":")); (fld_8, v_true); (fld_9, v_true); (fld_30, (B "markdown")); (fld_32, (B " ")); (fld_33, v_na)]);
    ([tok_5; tok_2; tok_6; tok_4], Some [(fld_0, (B "markdown")); (fld_1, (B " ")); (fld_2, v_na); (fld_30, (B "markdown")); (fld_32, (B ";")); (fld_33, (B ":")); (fld_37, v_true); (fld_38, v_true)]);
    ([tok_7; tok_2; tok_8; tok_2], Some [(fld_0, (B "markdown")); (fld_1, (B " ")); (fld_2, v_na); (fld_3, (B ";")); (fld_10, v_true); (fld_30, (B "markdown")); (fld_31, (B ";")); (fld_32, (B " ")); (fld_33, v_na); (fld_39, v_true)])]);
  (tok_49, [
    ([], Some [(fld_0, (B "nidx")); (fld_1, (B " ")); (fld_2, v_na); (fld_5, (B "([ \t])+")); (fld_30, (B "nidx")); (fld_32, (B " ")); (fld_33, v_na); (fld_37, v_true)]);
    ([tok_1; tok_2; tok_3; tok_4], Some [(fld_0, (B "nidx")); (fld_1, (B ";")); (fld_2, (B ":")); (fld_8, v_true); (fld_9, v_true); (fld_30, (B "nidx")); (fld_32, (B " ")); (fld_33, v_na); (fld_37, v_true)]);
    ([tok_5; tok_2; tok_6; tok_4], Some [(fld_0, (B "nidx")); (fld_1, (B " ")); (fld_2, v_na); (fld_5, (B "([ \t])+")); (fld_30, (B "nidx")); (fld_32, (B ";")); (fld_33, (B ":")); (fld_37, v_true); (fld_38, v_true)]);
    ([tok_7; tok_2; tok_8; tok_2], Some [(fld_0, (B "nidx")); (fld_1, (B " ")); (fld_2, v_na); (fld_3, (B ";")); (fld_5, (B "([ \t])+")); (fld_10, v_true); (fld_30, (B "nidx")); (fld_31, (B ";")); (fld_32, (B " ")); (fld_33, v_na); (fld_37, v_true); (fld_39, v_true)]);
    ([tok_236; tok_237], Some [(fld_0, (B "nidx")); (fld_1, (bs [9]%N)); (fld_2, v_na); (fld_8, v_true); (fld_30, (B "nidx")); (fld_32, (bs [9]%N)); (fld_33, v_na); (fld_37, v_true)]);
    ([tok_236; tok_237; tok_1; tok_2; tok_3; tok_4], Some [(fld_0, (B "nidx")); (fld_1, (B ";")); (fld_2, (B ":")); (fld_8, v_true); (fld_9, v_true); (fld_30, (B "nidx")); (fld_32, (bs [9]%N)); (fld_33, v_na); (fld_37, v_true)]);
    ([tok_236; tok_237; tok_5; tok_2; tok_6; tok_4], Some [(fld_0, (B "nidx")); (fld_1, (bs [9]%N)); (fld_2, v_na); (fld_8, v_true); (fld_30, (B "nidx")); (fld_32, (B ";")); (fld_33, (B ":")); (fld_37, v_true); (fld_38, v_true)]);
    ([tok_236; tok_237; tok_7; tok_2; tok_8; tok_2], Some [(fld_0, (B "nidx")); (fld_1, (bs [9]%N)); (fld_2, v_na); (fld_3, (B ";")); (fld_8, v_true); (fld_10, v_true); (fld_30, (B "nidx")); (fld_31, (B ";")); (fld_32, (bs [9]%N)); (fld_33, v_na); (fld_37, v_true); (fld_39, v_true)]);
    ([tok_236; tok_238; tok_239], Some [(fld_0, (B "nidx")); (fld_1, (B " ")); (fld_2, v_na); (fld_4, v_true); (fld_8, v_true); (fld_11, v_true); (fld_30, (B "nidx")); (fld_32, (B " ")); (fld_33, v_na); (fld_37, v_true)]);
    ([tok_236; tok_238; tok_239; tok_1; tok_2; tok_3; tok_4], Some [(fld_0, (B "nidx")); (fld_1, (B ";")); (fld_2, (B ":")); (fld_4, v_true); (fld_8, v_true); (fld_9, v_true); (fld_11, v_true); (fld_30, (B "nidx")); (fld_32, (B " ")); (fld_33, v_na); (fld_37, v_true)]);
    ([tok_236; tok_238; tok_239; tok_5; tok_2; tok_6; tok_4], Some [(fld_0, (B "nidx")); (fld_1, (B " ")); (fld_2, v_na); (fld_4, v_true); (fld_8, v_true); (fld_11, v_true); (fld_30, (B "nidx")); (fld_32, (B ";")); (fld_33, (B ":")); (fld_37, v_true); (fld_38, v_true)]);
    ([tok_236; tok_238; tok_239; tok_7; tok_2; tok_8; tok_2], Some [(fld_0, (B "nidx")); (fld_1, (B " ")); (fld_2, v_na); (fld_3, (B ";")); (fld_4, v_true); (fld_8, v_true); (fld_10, v_true); (fld_11, v_true); (fld_30, (B "nidx")); (fld_31, (B ";")); (fld_32, (B " ")); (fld_33, v_na); (fld_37, v_true); (fld_39, v_true)])]);
  (tok_50, [
    ([], Some [(fld_0, (B "nidx")); (fld_1, (B " ")); (fld_2, v_na); (fld_5, (B "([ \t])+")); (fld_30, (B "nidx")); (fld_32, (B " ")); (fld_33, v_na); (fld_37, v_true)]);
    ([tok_1; tok_2; tok_3; tok_4], Some [(fld_0, (B "nidx")); (fld_1, (B ";")); (fld_2, (B ":")); (fld_8, v_true); (fld_9, v_true); (fld_30, (B "nidx")); (fld_32, (B " ")); (fld_33, v_na); (fld_37, v_true)]);
    ([tok_5; tok_2; tok_6; tok_4], Some [(fld_0, (B "nidx")); (fld_1, (B " ")); (fld_2, v_na); (fld_5, (B "([ \t])+")); (fld_30, (B "nidx")); (fld_32, (B ";")); (fld_33, (B ":")); (fld_37, v_true); (fld_38, v_true)]);
    ([tok_7; tok_2; tok_8; tok_2], Some [(fld_0, (B "nidx")); (fld_1, (B " ")); (fld_2, v_na); (fld_3, (B ";")); (fld_5, (B "([ \t])+")); (fld_10, v_true); (fld_30, (B "nidx")); (fld_31, (B ";")); (fld_32, (B " ")); (fld_33, v_na); (fld_37, v_true); (fld_39, v_true)])]);
  (tok_51, [
    ([], Some [(fld_30, (B "csvlite")); (fld_31, (bs [30]%N)); (fld_32, (bs [31]%N)); (fld_33, v_na); (fld_37, v_true); (fld_39, v_true)]);
    ([tok_1; tok_2; tok_3; tok_4], Some [(fld_1, (B ";")); (fld_2, (B ":")); (fld_8, v_true); (fld_9, v_true); (fld_30, (B "csvlite")); (fld_31, (bs [30]%N)); (fld_32, (bs [31]%N)); (fld_33, v_na); (fld_37, v_true); (fld_39, v_true)]);
    ([tok_5; tok_2; tok_6; tok_4], Some [(fld_30, (B "csvlite")); (fld_31, (bs [30]%N)); (fld_32, (B ";")); (fld_33, (B ":")); (fld_37, v_true); (fld_38, v_true); (fld_39, v_true)]);
    ([tok_7; tok_2; tok_8; tok_2], Some [(fld_3, (B ";")); (fld_10, v_true); (fld_30, (B "csvlite")); (fld_31, (B ";")); (fld_32, (bs [31]%N)); (fld_33, v_na); (fld_37, v_true); (fld_39, v_true)])]);
  (tok_52, [
    ([], Some [(fld_30, (B "csvlite")); (fld_31, (bs [30]%N)); (fld_32, (bs [31]%N)); (fld_33, v_na); (fld_37, v_true); (fld_39, v_true)]);
    ([tok_1; tok_2; tok_3; tok_4], Some [(fld_1, (B ";")); (fld_2, (B ":")); (fld_8, v_true); (fld_9, v_true); (fld_30, (B "csvlite")); (fld_31, (bs [30]%N)); (fld_32, (bs [31]%N)); (fld_33, v_na); (fld_37, v_true); (fld_39, v_true)]);
    ([tok_5; tok_2; tok_6; tok_4], Some [(fld_30, (B "csvlite")); (fld_31, (bs [30]%N)); (fld_32, (B ";")); (fld_33, (B ":")); (fld_37, v_true); (fld_38, v_true); (fld_39, v_true)]);
    ([tok_7; tok_2; tok_8; tok_2], Some [(fld_3, (B ";")); (fld_10, v_true); (fld_30, (B "csvlite")); (fld_31, (B ";")); (fld_32, (bs [31]%N)); (fld_33, v_na); (fld_37, v_true); (fld_39, v_true)])]);
  (tok_53, [
    ([], Some [(fld_30, (B "csv")); (fld_33, v_na)]);
    ([tok_1; tok_2; tok_3; tok_4], Some [(fld_1, (B ";")); (fld_2, (B ":")); (fld_8, v_true); (fld_9, v_true); (fld_30, (B "csv")); (fld_33, v_na)]);
    ([tok_5; tok_2; tok_6; tok_4], Some [(fld_30, (B "csv")); (fld_32, (B ";")); (fld_33, (B ":")); (fld_37, v_true); (fld_38, v_true)]);
    ([tok_7; tok_2; tok_8; tok_2], Some [(fld_3, (B ";")); (fld_10, v_true); (fld_30, (B "csv")); (fld_31, (B ";")); (fld_33, v_na); (fld_39, v_true)])]);
  (tok_54, [
    ([], Some [(fld_30, (B "csvlite")); (fld_33, v_na)]);
    ([tok_1; tok_2; tok_3; tok_4], Some [(fld_1, (B ";")); (fld_2, (B ":")); (fld_8, v_true); (fld_9, v_true); (fld_30, (B "csvlite")); (fld_33, v_na)]);
    ([tok_5; tok_2; tok_6; tok_4], Some [(fld_30, (B "csvlite")); (fld_32, (B ";")); (fld_33, (B ":")); (fld_37, v_true); (fld_38, v_true)]);
    ([tok_7; tok_2; tok_8; tok_2], Some [(fld_3, (B ";")); (fld_10, v_true); (fld_30, (B "csvlite")); (fld_31, (B ";")); (fld_33, v_na); (fld_39, v_true)])]);
  (tok_55, [
    ([], Some [(fld_30, (B "dcf")); (fld_31, v_na); (fld_32, v_na); (fld_33, v_na); (fld_65, v_false)]);
    ([tok_1; tok_2; tok_3; tok_4], Some [(fld_1, (B ";")); (fld_2, (B ":")); (fld_8, v_true); (fld_9, v_true); (fld_30, (B "dcf")); (fld_31, v_na); (fld_32, v_na); (fld_33, v_na); (fld_65, v_false)]);
    ([tok_5; tok_2; tok_6; tok_4], Some [(fld_30, (B "dcf")); (fld_31, v_na); (fld_32, (B ";")); (fld_33, (B ":")); (fld_37, v_true); (fld_38, v_true); (fld_65, v_false)]);
    ([tok_7; tok_2; tok_8; tok_2], Some [(fld_3, (B ";")); (fld_10, v_true); (fld_30, (B "dcf")); (fld_31, (B ";")); (fld_32, v_na); (fld_33, v_na); (fld_39, v_true); (fld_65, v_false)])]);
  (tok_56, [
    ([], Some []);
    ([tok_1; tok_2; tok_3; tok_4], Some [(fld_1, (B ";")); (fld_2, (B ":")); (fld_8, v_true); (fld_9, v_true)]);
    ([tok_5; tok_2; tok_6; tok_4], Some [(fld_32, (B ";")); (fld_33, (B ":")); (fld_37, v_true); (fld_38, v_true)]);
    ([tok_7; tok_2; tok_8; tok_2], Some [(fld_3, (B ";")); (fld_10, v_true); (fld_31, (B ";")); (fld_39, v_true)])]);
  (tok_57, [
    ([], Some [(fld_30, (B "json")); (fld_31, v_na); (fld_32, v_na); (fld_33, v_na); (fld_65, v_false); (fld_66, v_true)]);
    ([tok_1; tok_2; tok_3; tok_4], Some [(fld_1, (B ";")); (fld_2, (B ":")); (fld_8, v_true); (fld_9, v_true); (fld_30, (B "json")); (fld_31, v_na); (fld_32, v_na); (fld_33, v_na); (fld_65, v_false); (fld_66, v_true)]);
    ([tok_5; tok_2; tok_6; tok_4], Some [(fld_30, (B "json")); (fld_31, v_na); (fld_32, (B ";")); (fld_33, (B ":")); (fld_37, v_true); (fld_38, v_true); (fld_65, v_false); (fld_66, v_true)]);
    ([tok_7; tok_2; tok_8; tok_2], Some [(fld_3, (B ";")); (fld_10, v_true); (fld_30, (B "json")); (fld_31, (B ";")); (fld_32, v_na); (fld_33, v_na); (fld_39, v_true); (fld_65, v_false); (fld_66, v_true)])]);
  (tok_58, [
    ([], Some [(fld_30, (B "jsonl")); (fld_31, (B "")); (fld_32, (B "")); (fld_33, (B "")); (fld_65, v_false); (fld_66, v_true)]);
    ([tok_1; tok_2; tok_3; tok_4], Some [(fld_1, (B ";")); (fld_2, (B ":")); (fld_8, v_true); (fld_9, v_true); (fld_30, (B "jsonl")); (fld_31, (B "")); (fld_32, (B "")); (fld_33, (B "")); (fld_65, v_false); (fld_66, v_true)]);
    ([tok_5; tok_2; tok_6; tok_4], Some [(fld_30, (B "jsonl")); (fld_31, (B "")); (fld_32, (B ";")); (fld_33, (B ":")); (fld_37, v_true); (fld_38, v_true); (fld_65, v_false); (fld_66, v_true)]);
    ([tok_7; tok_2; tok_8; tok_2], Some [(fld_3, (B ";")); (fld_10, v_true); (fld_30, (B "jsonl")); (fld_31, (B ";")); (fld_32, (B "")); (fld_33, (B "")); (fld_39, v_true); (fld_65, v_false); (fld_66, v_true)])]);
  (tok_59, [
    ([], Some [(fld_30, (B "markdown")); (fld_32, (B " ")); (fld_33, v_na)]);
    ([tok_1; tok_2; tok_3; tok_4], Some [(fld_1, (B ";")); (fld_2, (B ":")); (fld_8, v_true); (fld_9, v_true); (fld_30, (B "markdown")); (fld_32, (B " ")); (fld_33, v_na)]);
    ([tok_5; tok_2; tok_6; tok_4], Some [(fld_30, (B "markdown")); (fld_32, (B ";")); (fld_33, (B ":")); (fld_37, v_true); (fld_38, v_true)]);
    ([tok_7; tok_2; tok_8; tok_2], Some [(fld_3, (B ";")); (fld_10, v_true); (fld_30, (B "markdown")); (fld_31, (B ";")); (fld_32, (B " ")); (fld_33, v_na); (fld_39, v_true)])]);
  (tok_60, [
    ([], Some [(fld_30, (B "markdown")); (fld_32, (B " ")); (fld_33, v_na)]);
    ([tok_1; tok_2; tok_3; tok_4], Some [(fld_1, (B ";")); (fld_2, (B ":")); (fld_8, v_true); (fld_9, v_true); (fld_30, (B "markdown")); (fld_32, (B " ")); (fld_33, v_na)]);
    ([tok_5; tok_2; tok_6; tok_4], Some [(fld_30, (B "markdown")); (fld_32, (B ";")); (fld_33, (B ":")); (fld_37, v_true); (fld_38, v_true)]);
    ([tok_7; tok_2; tok_8; tok_2], Some [(fld_3, (B ";")); (fld_10, v_true); (fld_30, (B "markdown")); (fld_31, (B ";")); (fld_32, (B " ")); (fld_33, v_na); (fld_39, v_true)])]);
  (tok_61, [
    ([], Some [(fld_30, (B "nidx")); (fld_32, (B " ")); (fld_33, v_na); (fld_37, v_true)]);
    ([tok_1; tok_2; tok_3; tok_4], Some [(fld_1, (B ";")); (fld_2, (B ":")); (fld_8, v_true); (fld_9, v_true); (fld_30, (B "nidx")); (fld_32, (B " ")); (fld_33, v_na); (fld_37, v_true)]);
    ([tok_5; tok_2; tok_6; tok_4], Some [(fld_30, (B "nidx")); (fld_32, (B ";")); (fld_33, (B ":")); (fld_37, v_true); (fld_38, v_true)]);
    ([tok_7; tok_2; tok_8; tok_2], Some [(fld_3, (B ";")); (fld_10, v_true); (fld_30, (B "nidx")); (fld_31, (B ";")); (fld_32, (B " ")); (fld_33, v_na); (fld_37, v_true); (fld_39, v_true)])]);
  (tok_62, [
    ([], Some [(fld_30, (B "pprint")); (fld_32, (B " ")); (fld_33, v_na)]);
    ([tok_1; tok_2; tok_3; tok_4], Some [(fld_1, (B ";")); (fld_2, (B ":")); (fld_8, v_true); (fld_9, v_true); (fld_30, (B "pprint")); (fld_32, (B " ")); (fld_33, v_na)]);
    ([tok_5; tok_2; tok_6; tok_4], Some [(fld_30, (B "pprint")); (fld_32, (B ";")); (fld_33, (B ":")); (fld_37, v_true); (fld_38, v_true)]);
    ([tok_7; tok_2; tok_8; tok_2], Some [(fld_3, (B ";")); (fld_10, v_true); (fld_30, (B "pprint")); (fld_31, (B ";")); (fld_32, (B " ")); (fld_33, v_na); (fld_39, v_true)])]);
  (tok_63, [
    ([], Some [(fld_30, (B "recutils")); (fld_31, v_na); (fld_32, v_na); (fld_33, v_na)]);
    ([tok_1; tok_2; tok_3; tok_4], Some [(fld_1, (B ";")); (fld_2, (B ":")); (fld_8, v_true); (fld_9, v_true); (fld_30, (B "recutils")); (fld_31, v_na); (fld_32, v_na); (fld_33, v_na)]);
    ([tok_5; tok_2; tok_6; tok_4], Some [(fld_30, (B "recutils")); (fld_31, v_na); (fld_32, (B ";")); (fld_33, (B ":")); (fld_37, v_true); (fld_38, v_true)]);
    ([tok_7; tok_2; tok_8; tok_2], Some [(fld_3, (B ";")); (fld_10, v_true); (fld_30, (B "recutils")); (fld_31, (B ";")); (fld_32, v_na); (fld_33, v_na); (fld_39, v_true)])]);
  (tok_64, [
    ([], Some [(fld_30, (B "tsv")); (fld_32, (bs [9]%N)); (fld_33, v_na); (fld_37, v_true)]);
    ([tok_1; tok_2; tok_3; tok_4], Some [(fld_1, (B ";")); (fld_2, (B ":")); (fld_8, v_true); (fld_9, v_true); (fld_30, (B "tsv")); (fld_32, (bs [9]%N)); (fld_33, v_na); (fld_37, v_true)]);
    ([tok_5; tok_2; tok_6; tok_4], Some [(fld_30, (B "tsv")); (fld_32, (B ";")); (fld_33, (B ":")); (fld_37, v_true); (fld_38, v_true)]);
    ([tok_7; tok_2; tok_8; tok_2], Some [(fld_3, (B ";")); (fld_10, v_true); (fld_30, (B "tsv")); (fld_31, (B ";")); (fld_32, (bs [9]%N)); (fld_33, v_na); (fld_37, v_true); (fld_39, v_true)])]);
  (tok_65, [
    ([], Some [(fld_30, (B "csvlite")); (fld_32, (bs [9]%N)); (fld_33, v_na); (fld_37, v_true)]);
    ([tok_1; tok_2; tok_3; tok_4], Some [(fld_1, (B ";")); (fld_2, (B ":")); (fld_8, v_true); (fld_9, v_true); (fld_30, (B "csvlite")); (fld_32, (bs [9]%N)); (fld_33, v_na); (fld_37, v_true)]);
    ([tok_5; tok_2; tok_6; tok_4], Some [(fld_30, (B "csvlite")); (fld_32, (B ";")); (fld_33, (B ":")); (fld_37, v_true); (fld_38, v_true)]);
    ([tok_7; tok_2; tok_8; tok_2], Some [(fld_3, (B ";")); (fld_10, v_true); (fld_30, (B "csvlite")); (fld_31, (B ";")); (fld_32, (bs [9]%N)); (fld_33, v_na); (fld_37, v_true); (fld_39, v_true)])]);
  (tok_66, [
    ([], Some [(fld_30, (B "csvlite")); (fld_31, (bs [226;144;158]%N)); (fld_32, (bs [226;144;159]%N)); (fld_33, v_na); (fld_37, v_true); (fld_39, v_true)]);
    ([tok_1; tok_2; tok_3; tok_4], Some [(fld_1, (B ";")); (fld_2, (B ":")); (fld_8, v_true); (fld_9, v_true); (fld_30, (B "csvlite")); (fld_31, (bs [226;144;158]%N)); (fld_32, (bs [226;144;159]%N)); (fld_33, v_na); (fld_37, v_true); (fld_39, v_true)]);
    ([tok_5; tok_2; tok_6; tok_4], Some [(fld_30, (B "csvlite")); (fld_31, (bs [226;144;158]%N)); (fld_32, (B ";")); (fld_33, (B ":")); (fld_37, v_true); (fld_38, v_true); (fld_39, v_true)]);
    ([tok_7; tok_2; tok_8; tok_2], Some [(fld_3, (B ";")); (fld_10, v_true); (fld_30, (B "csvlite")); (fld_31, (B ";")); (fld_32, (bs [226;144;159]%N)); (fld_33, v_na); (fld_37, v_true); (fld_39, v_true)])]);
  (tok_67, [
    ([], Some [(fld_30, (B "csvlite")); (fld_31, (bs [226;144;158]%N)); (fld_32, (bs [226;144;159]%N)); (fld_33, v_na); (fld_37, v_true); (fld_39, v_true)]);
    ([tok_1; tok_2; tok_3; tok_4], Some [(fld_1, (B ";")); (fld_2, (B ":")); (fld_8, v_true); (fld_9, v_true); (fld_30, (B "csvlite")); (fld_31, (bs [226;144;158]%N)); (fld_32, (bs [226;144;159]%N)); (fld_33, v_na); (fld_37, v_true); (fld_39, v_true)]);
    ([tok_5; tok_2; tok_6; tok_4], Some [(fld_30, (B "csvlite")); (fld_31, (bs [226;144;158]%N)); (fld_32, (B ";")); (fld_33, (B ":")); (fld_37, v_true); (fld_38, v_true); (fld_39, v_true)]);
    ([tok_7; tok_2; tok_8; tok_2], Some [(fld_3, (B ";")); (fld_10, v_true); (fld_30, (B "csvlite")); (fld_31, (B ";")); (fld_32, (bs [226;144;159]%N)); (fld_33, v_na); (fld_37, v_true); (fld_39, v_true)])]);
  (tok_68, [
    ([], Some [(fld_30, (B "xtab")); (fld_31, (bs [10;10]%N)); (fld_32, (bs [10]%N)); (fld_33, (B " "))]);
    ([tok_1; tok_2; tok_3; tok_4], Some [(fld_1, (B ";")); (fld_2, (B ":")); (fld_8, v_true); (fld_9, v_true); (fld_30, (B "xtab")); (fld_31, (bs [10;10]%N)); (fld_32, (bs [10]%N)); (fld_33, (B " "))]);
    ([tok_5; tok_2; tok_6; tok_4], Some [(fld_30, (B "xtab")); (fld_31, (bs [10;10]%N)); (fld_32, (B ";")); (fld_33, (B ":")); (fld_37, v_true); (fld_38, v_true)]);
    ([tok_7; tok_2; tok_8; tok_2], Some [(fld_3, (B ";")); (fld_10, v_true); (fld_30, (B "xtab")); (fld_31, (B ";")); (fld_32, (bs [10]%N)); (fld_33, (B " ")); (fld_39, v_true)])]);
  (tok_69, [
    ([], Some [(fld_30, (B "yaml")); (fld_31, v_na); (fld_32, v_na); (fld_33, v_na); (fld_65, v_false); (fld_66, v_true)]);
    ([tok_1; tok_2; tok_3; tok_4], Some [(fld_1, (B ";")); (fld_2, (B ":")); (fld_8, v_true); (fld_9, v_true); (fld_30, (B "yaml")); (fld_31, v_na); (fld_32, v_na); (fld_33, v_na); (fld_65, v_false); (fld_66, v_true)]);
    ([tok_5; tok_2; tok_6; tok_4], Some [(fld_30, (B "yaml")); (fld_31, v_na); (fld_32, (B ";")); (fld_33, (B ":")); (fld_37, v_true); (fld_38, v_true); (fld_65, v_false); (fld_66, v_true)]);
    ([tok_7; tok_2; tok_8; tok_2], Some [(fld_3, (B ";")); (fld_10, v_true); (fld_30, (B "yaml")); (fld_31, (B ";")); (fld_32, v_na); (fld_33, v_na); (fld_39, v_true); (fld_65, v_false); (fld_66, v_true)])]);
  (tok_70, [
    ([], Some [(fld_0, (B "pprint")); (fld_1, (B " ")); (fld_2, v_na); (fld_4, v_true); (fld_8, v_true); (fld_30, (B "pprint")); (fld_32, (B " ")); (fld_33, v_na)]);
    ([tok_1; tok_2; tok_3; tok_4], Some [(fld_0, (B "pprint")); (fld_1, (B ";")); (fld_2, (B ":")); (fld_4, v_true); (fld_8, v_true); (fld_9, v_true); (fld_30, (B "pprint")); (fld_32, (B " ")); (fld_33, v_na)]);
    ([tok_5; tok_2; tok_6; tok_4], Some [(fld_0, (B "pprint")); (fld_1, (B " ")); (fld_2, v_na); (fld_4, v_true); (fld_8, v_true); (fld_30, (B "pprint")); (fld_32, (B ";")); (fld_33, (B ":")); (fld_37, v_true); (fld_38, v_true)]);
    ([tok_7; tok_2; tok_8; tok_2], Some [(fld_0, (B "pprint")); (fld_1, (B " ")); (fld_2, v_na); (fld_3, (B ";")); (fld_4, v_true); (fld_8, v_true); (fld_10, v_true); (fld_30, (B "pprint")); (fld_31, (B ";")); (fld_32, (B " ")); (fld_33, v_na); (fld_39, v_true)])]);
  (tok_71, [
    ([], Some [(fld_0, (B "pprint")); (fld_1, (B " ")); (fld_2, v_na); (fld_4, v_true); (fld_8, v_true); (fld_30, (B "pprint")); (fld_32, (B " ")); (fld_33, v_na)]);
    ([tok_1; tok_2; tok_3; tok_4], Some [(fld_0, (B "pprint")); (fld_1, (B ";")); (fld_2, (B ":")); (fld_4, v_true); (fld_8, v_true); (fld_9, v_true); (fld_30, (B "pprint")); (fld_32, (B " ")); (fld_33, v_na)]);
    ([tok_5; tok_2; tok_6; tok_4], Some [(fld_0, (B "pprint")); (fld_1, (B " ")); (fld_2, v_na); (fld_4, v_true); (fld_8, v_true); (fld_30, (B "pprint")); (fld_32, (B ";")); (fld_33, (B ":")); (fld_37, v_true); (fld_38, v_true)]);
    ([tok_7; tok_2; tok_8; tok_2], Some [(fld_0, (B "pprint")); (fld_1, (B " ")); (fld_2, v_na); (fld_3, (B ";")); (fld_4, v_true); (fld_8, v_true); (fld_10, v_true); (fld_30, (B "pprint")); (fld_31, (B ";")); (fld_32, (B " ")); (fld_33, v_na); (fld_39, v_true)])]);
  (tok_72, [
    ([], Some [(fld_0, (B "recutils")); (fld_1, v_na); (fld_2, v_na); (fld_3, v_na); (fld_30, (B "recutils")); (fld_31, v_na); (fld_32, v_na); (fld_33, v_na)]);
    ([tok_1; tok_2; tok_3; tok_4], Some [(fld_0, (B "recutils")); (fld_1, (B ";")); (fld_2, (B ":")); (fld_3, v_na); (fld_8, v_true); (fld_9, v_true); (fld_30, (B "recutils")); (fld_31, v_na); (fld_32, v_na); (fld_33, v_na)]);
    ([tok_5; tok_2; tok_6; tok_4], Some [(fld_0, (B "recutils")); (fld_1, v_na); (fld_2, v_na); (fld_3, v_na); (fld_30, (B "recutils")); (fld_31, v_na); (fld_32, (B ";")); (fld_33, (B ":")); (fld_37, v_true); (fld_38, v_true)]);
    ([tok_7; tok_2; tok_8; tok_2], Some [(fld_0, (B "recutils")); (fld_1, v_na); (fld_2, v_na); (fld_3, (B ";")); (fld_10, v_true); (fld_30, (B "recutils")); (fld_31, (B ";")); (fld_32, v_na); (fld_33, v_na); (fld_39, v_true)])]);
  (tok_73, [
    ([], Some [(fld_0, (B "tsv")); (fld_1, (bs [9]%N)); (fld_2, v_na); (fld_30, (B "tsv")); (fld_32, (bs [9]%N)); (fld_33, v_na); (fld_37, v_true)]);
    ([tok_1; tok_2; tok_3; tok_4], Some [(fld_0, (B "tsv")); (fld_1, (B ";")); (fld_2, (B ":")); (fld_8, v_true); (fld_9, v_true); (fld_30, (B "tsv")); (fld_32, (bs [9]%N)); (fld_33, v_na); (fld_37, v_true)]);
    ([tok_5; tok_2; tok_6; tok_4], Some [(fld_0, (B "tsv")); (fld_1, (bs [9]%N)); (fld_2, v_na); (fld_30, (B "tsv")); (fld_32, (B ";")); (fld_33, (B ":")); (fld_37, v_true); (fld_38, v_true)]);
    ([tok_7; tok_2; tok_8; tok_2], Some [(fld_0, (B "tsv")); (fld_1, (bs [9]%N)); (fld_2, v_na); (fld_3, (B ";")); (fld_10, v_true); (fld_30, (B "tsv")); (fld_31, (B ";")); (fld_32, (bs [9]%N)); (fld_33, v_na); (fld_37, v_true); (fld_39, v_true)])]);
  (tok_74, [
    ([], Some [(fld_0, (B "tsv")); (fld_1, (bs [9]%N)); (fld_2, v_na); (fld_30, (B "tsv")); (fld_32, (bs [9]%N)); (fld_33, v_na); (fld_37, v_true)]);
    ([tok_1; tok_2; tok_3; tok_4], Some [(fld_0, (B "tsv")); (fld_1, (B ";")); (fld_2, (B ":")); (fld_8, v_true); (fld_9, v_true); (fld_30, (B "tsv")); (fld_32, (bs [9]%N)); (fld_33, v_na); (fld_37, v_true)]);
    ([tok_5; tok_2; tok_6; tok_4], Some [(fld_0, (B "tsv")); (fld_1, (bs [9]%N)); (fld_2, v_na); (fld_30, (B "tsv")); (fld_32, (B ";")); (fld_33, (B ":")); (fld_37, v_true); (fld_38, v_true)]);
    ([tok_7; tok_2; tok_8; tok_2], Some [(fld_0, (B "tsv")); (fld_1, (bs [9]%N)); (fld_2, v_na); (fld_3, (B ";")); (fld_10, v_true); (fld_30, (B "tsv")); (fld_31, (B ";")); (fld_32, (bs [9]%N)); (fld_33, v_na); (fld_37, v_true); (fld_39, v_true)])]);
  (tok_75, [
    ([], Some [(fld_0, (B "tsv")); (fld_1, (bs [9]%N)); (fld_2, v_na); (fld_30, (B "tsv")); (fld_32, (bs [9]%N)); (fld_33, v_na); (fld_37, v_true)]);
    ([tok_1; tok_2; tok_3; tok_4], Some [(fld_0, (B "tsv")); (fld_1, (B ";")); (fld_2, (B ":")); (fld_8, v_true); (fld_9, v_true); (fld_30, (B "tsv")); (fld_32, (bs [9]%N)); (fld_33, v_na); (fld_37, v_true)]);
    ([tok_5; tok_2; tok_6; tok_4], Some [(fld_0, (B "tsv")); (fld_1, (bs [9]%N)); (fld_2, v_na); (fld_30, (B "tsv")); (fld_32, (B ";")); (fld_33, (B ":")); (fld_37, v_true); (fld_38, v_true)]);
    ([tok_7; tok_2; tok_8; tok_2], Some [(fld_0, (B "tsv")); (fld_1, (bs [9]%N)); (fld_2, v_na); (fld_3, (B ";")); (fld_10, v_true); (fld_30, (B "tsv")); (fld_31, (B ";")); (fld_32, (bs [9]%N)); (fld_33, v_na); (fld_37, v_true); (fld_39, v_true)])]);
  (tok_76, [
    ([], Some [(fld_0, (B "csvlite")); (fld_1, (bs [9]%N)); (fld_2, v_na); (fld_8, v_true); (fld_30, (B "csvlite")); (fld_32, (bs [9]%N)); (fld_33, v_na); (fld_37, v_true)]);
    ([tok_1; tok_2; tok_3; tok_4], Some [(fld_0, (B "csvlite")); (fld_1, (B ";")); (fld_2, (B ":")); (fld_8, v_true); (fld_9, v_true); (fld_30, (B "csvlite")); (fld_32, (bs [9]%N)); (fld_33, v_na); (fld_37, v_true)]);
    ([tok_5; tok_2; tok_6; tok_4], Some [(fld_0, (B "csvlite")); (fld_1, (bs [9]%N)); (fld_2, v_na); (fld_8, v_true); (fld_30, (B "csvlite")); (fld_32, (B ";")); (fld_33, (B ":")); (fld_37, v_true); (fld_38, v_true)]);
    ([tok_7; tok_2; tok_8; tok_2], Some [(fld_0, (B "csvlite")); (fld_1, (bs [9]%N)); (fld_2, v_na); (fld_3, (B ";")); (fld_8, v_true); (fld_10, v_true); (fld_30, (B "csvlite")); (fld_31, (B ";")); (fld_32, (bs [9]%N)); (fld_33, v_na); (fld_37, v_true); (fld_39, v_true)])]);
  (tok_77, [
    ([], Some [(fld_0, (B "csvlite")); (fld_1, (bs [226;144;159]%N)); (fld_2, v_na); (fld_3, (bs [226;144;158]%N)); (fld_8, v_true); (fld_10, v_true); (fld_30, (B "csvlite")); (fld_31, (bs [226;144;158]%N)); (fld_32, (bs [226;144;159]%N)); (fld_33, v_na); (fld_37, v_true); (fld_39, v_true)]);
    ([tok_1; tok_2; tok_3; tok_4], Some [(fld_0, (B "csvlite")); (fld_1, (B ";")); (fld_2, (B ":")); (fld_3, (bs [226;144;158]%N)); (fld_8, v_true); (fld_9, v_true); (fld_10, v_true); (fld_30, (B "csvlite")); (fld_31, (bs [226;144;158]%N)); (fld_32, (bs [226;144;159]%N)); (fld_33, v_na); (fld_37, v_true); (fld_39, v_true)]);
    ([tok_5; tok_2; tok_6; tok_4], Some [(fld_0, (B "csvlite")); (fld_1, (bs [226;144;159]%N)); (fld_2, v_na); (fld_3, (bs [226;144;158]%N)); (fld_8, v_true); (fld_10, v_true); (fld_30, (B "csvlite")); (fld_31, (bs [226;144;158]%N)); (fld_32, (B ";")); (fld_33, (B ":")); (fld_37, v_true); (fld_38, v_true); (fld_39, v_true)]);
    ([tok_7; tok_2; tok_8; tok_2], Some [(fld_0, (B "csvlite")); (fld_1, (bs [226;144;159]%N)); (fld_2, v_na); (fld_3, (B ";")); (fld_8, v_true); (fld_10, v_true); (fld_30, (B "csvlite")); (fld_31, (B ";")); (fld_32, (bs [226;144;159]%N)); (fld_33, v_na); (fld_37, v_true); (fld_39, v_true)])]);
  (tok_78, [
    ([], Some [(fld_0, (B "csvlite")); (fld_1, (bs [226;144;159]%N)); (fld_2, v_na); (fld_3, (bs [226;144;158]%N)); (fld_8, v_true); (fld_10, v_true); (fld_30, (B "csvlite")); (fld_31, (bs [226;144;158]%N)); (fld_32, (bs [226;144;159]%N)); (fld_33, v_na); (fld_37, v_true); (fld_39, v_true)]);
    ([tok_1; tok_2; tok_3; tok_4], Some [(fld_0, (B "csvlite")); (fld_1, (B ";")); (fld_2, (B ":")); (fld_3, (bs [226;144;158]%N)); (fld_8, v_true); (fld_9, v_true); (fld_10, v_true); (fld_30, (B "csvlite")); (fld_31, (bs [226;144;158]%N)); (fld_32, (bs [226;144;159]%N)); (fld_33, v_na); (fld_37, v_true); (fld_39, v_true)]);
    ([tok_5; tok_2; tok_6; tok_4], Some [(fld_0, (B "csvlite")); (fld_1, (bs [226;144;159]%N)); (fld_2, v_na); (fld_3, (bs [226;144;158]%N)); (fld_8, v_true); (fld_10, v_true); (fld_30, (B "csvlite")); (fld_31, (bs [226;144;158]%N)); (fld_32, (B ";")); (fld_33, (B ":")); (fld_37, v_true); (fld_38, v_true); (fld_39, v_true)]);
    ([tok_7; tok_2; tok_8; tok_2], Some [(fld_0, (B "csvlite")); (fld_1, (bs [226;144;159]%N)); (fld_2, v_na); (fld_3, (B ";")); (fld_8, v_true); (fld_10, v_true); (fld_30, (B "csvlite")); (fld_31, (B ";")); (fld_32, (bs [226;144;159]%N)); (fld_33, v_na); (fld_37, v_true); (fld_39, v_true)])]);
  (tok_79, [
    ([], Some [(fld_0, (B "xtab")); (fld_1, (bs [10]%N)); (fld_2, (B " ")); (fld_3, (bs [10;10]%N)); (fld_30, (B "xtab")); (fld_31, (bs [10;10]%N)); (fld_32, (bs [10]%N)); (fld_33, (B " "))]);
    ([tok_1; tok_2; tok_3; tok_4], Some [(fld_0, (B "xtab")); (fld_1, (B ";")); (fld_2, (B ":")); (fld_3, (bs [10;10]%N)); (fld_8, v_true); (fld_9, v_true); (fld_30, (B "xtab")); (fld_31, (bs [10;10]%N)); (fld_32, (bs [10]%N)); (fld_33, (B " "))]);
    ([tok_5; tok_2; tok_6; tok_4], Some [(fld_0, (B "xtab")); (fld_1, (bs [10]%N)); (fld_2, (B " ")); (fld_3, (bs [10;10]%N)); (fld_30, (B "xtab")); (fld_31, (bs [10;10]%N)); (fld_32, (B ";")); (fld_33, (B ":")); (fld_37, v_true); (fld_38, v_true)]);
    ([tok_7; tok_2; tok_8; tok_2], Some [(fld_0, (B "xtab")); (fld_1, (bs [10]%N)); (fld_2, (B " ")); (fld_3, (B ";")); (fld_10, v_true); (fld_30, (B "xtab")); (fld_31, (B ";")); (fld_32, (bs [10]%N)); (fld_33, (B " ")); (fld_39, v_true)])]);
  (tok_80, [
    ([], Some [(fld_0, (B "xtab")); (fld_1, (bs [10]%N)); (fld_2, (B " ")); (fld_3, (bs [10;10]%N)); (fld_30, (B "xtab")); (fld_31, (bs [10;10]%N)); (fld_32, (bs [10]%N)); (fld_33, (B " "))]);
    ([tok_1; tok_2; tok_3; tok_4], Some [(fld_0, (B "xtab")); (fld_1, (B ";")); (fld_2, (B ":")); (fld_3, (bs [10;10]%N)); (fld_8, v_true); (fld_9, v_true); (fld_30, (B "xtab")); (fld_31, (bs [10;10]%N)); (fld_32, (bs [10]%N)); (fld_33, (B " "))]);
    ([tok_5; tok_2; tok_6; tok_4], Some [(fld_0, (B "xtab")); (fld_1, (bs [10]%N)); (fld_2, (B " ")); (fld_3, (bs [10;10]%N)); (fld_30, (B "xtab")); (fld_31, (bs [10;10]%N)); (fld_32, (B ";")); (fld_33, (B ":")); (fld_37, v_true); (fld_38, v_true)]);
    ([tok_7; tok_2; tok_8; tok_2], Some [(fld_0, (B "xtab")); (fld_1, (bs [10]%N)); (fld_2, (B " ")); (fld_3, (B ";")); (fld_10, v_true); (fld_30, (B "xtab")); (fld_31, (B ";")); (fld_32, (bs [10]%N)); (fld_33, (B " ")); (fld_39, v_true)])]);
  (tok_81, [
    ([], Some [(fld_44, v_true)]);
    ([tok_1; tok_2; tok_3; tok_4], Some [(fld_1, (B ";")); (fld_2, (B ":")); (fld_8, v_true); (fld_9, v_true); (fld_44, v_true)]);
    ([tok_5; tok_2; tok_6; tok_4], Some [(fld_32, (B ";")); (fld_33, (B ":")); (fld_37, v_true); (fld_38, v_true); (fld_44, v_true)]);
    ([tok_7; tok_2; tok_8; tok_2], Some [(fld_3, (B ";")); (fld_10, v_true); (fld_31, (B ";")); (fld_39, v_true); (fld_44, v_true)])]);
  (tok_82, [
    ([], Some [(fld_0, (B "yaml")); (fld_1, v_na); (fld_2, v_na); (fld_3, v_na); (fld_30, (B "yaml")); (fld_31, v_na); (fld_32, v_na); (fld_33, v_na); (fld_65, v_false)]);
    ([tok_1; tok_2; tok_3; tok_4], Some [(fld_0, (B "yaml")); (fld_1, (B ";")); (fld_2, (B ":")); (fld_3, v_na); (fld_8, v_true); (fld_9, v_true); (fld_30, (B "yaml")); (fld_31, v_na); (fld_32, v_na); (fld_33, v_na); (fld_65, v_false)]);
    ([tok_5; tok_2; tok_6; tok_4], Some [(fld_0, (B "yaml")); (fld_1, v_na); (fld_2, v_na); (fld_3, v_na); (fld_30, (B "yaml")); (fld_31, v_na); (fld_32, (B ";")); (fld_33, (B ":")); (fld_37, v_true); (fld_38, v_true); (fld_65, v_false)]);
    ([tok_7; tok_2; tok_8; tok_2], Some [(fld_0, (B "yaml")); (fld_1, v_na); (fld_2, v_na); (fld_3, (B ";")); (fld_10, v_true); (fld_30, (B "yaml")); (fld_31, (B ";")); (fld_32, v_na); (fld_33, v_na); (fld_39, v_true); (fld_65, v_false)])]);
  (tok_83, [
    ([], Some [(fld_0, (B "yaml")); (fld_1, v_na); (fld_2, v_na); (fld_3, v_na); (fld_30, (B "yaml")); (fld_31, v_na); (fld_32, v_na); (fld_33, v_na); (fld_65, v_false)]);
    ([tok_1; tok_2; tok_3; tok_4], Some [(fld_0, (B "yaml")); (fld_1, (B ";")); (fld_2, (B ":")); (fld_3, v_na); (fld_8, v_true); (fld_9, v_true); (fld_30, (B "yaml")); (fld_31, v_na); (fld_32, v_na); (fld_33, v_na); (fld_65, v_false)]);
    ([tok_5; tok_2; tok_6; tok_4], Some [(fld_0, (B "yaml")); (fld_1, v_na); (fld_2, v_na); (fld_3, v_na); (fld_30, (B "yaml")); (fld_31, v_na); (fld_32, (B ";")); (fld_33, (B ":")); (fld_37, v_true); (fld_38, v_true); (fld_65, v_false)]);
    ([tok_7; tok_2; tok_8; tok_2], Some [(fld_0, (B "yaml")); (fld_1, v_na); (fld_2, v_na); (fld_3, (B ";")); (fld_10, v_true); (fld_30, (B "yaml")); (fld_31, (B ";")); (fld_32, v_na); (fld_33, v_na); (fld_39, v_true); (fld_65, v_false)])]);
  (tok_84, [
    ([], Some [(fld_0, (B "csv")); (fld_2, v_na); (fld_10, v_true); (fld_30, (B "pprint")); (fld_32, (B " ")); (fld_33, v_na); (fld_41, v_true)]);
    ([tok_1; tok_2; tok_3; tok_4], Some [(fld_0, (B "csv")); (fld_1, (B ";")); (fld_2, (B ":")); (fld_8, v_true); (fld_9, v_true); (fld_10, v_true); (fld_30, (B "pprint")); (fld_32, (B " ")); (fld_33, v_na); (fld_41, v_true)]);
    ([tok_5; tok_2; tok_6; tok_4], Some [(fld_0, (B "csv")); (fld_2, v_na); (fld_10, v_true); (fld_30, (B "pprint")); (fld_32, (B ";")); (fld_33, (B ":")); (fld_37, v_true); (fld_38, v_true); (fld_41, v_true)]);
    ([tok_7; tok_2; tok_8; tok_2], Some [(fld_0, (B "csv")); (fld_2, v_na); (fld_3, (B ";")); (fld_10, v_true); (fld_30, (B "pprint")); (fld_31, (B ";")); (fld_32, (B " ")); (fld_33, v_na); (fld_39, v_true); (fld_41, v_true)])]);
  (tok_85, [
    ([], Some [(fld_0, (B "csv")); (fld_2, v_na); (fld_10, v_true)]);
    ([tok_1; tok_2; tok_3; tok_4], Some [(fld_0, (B "csv")); (fld_1, (B ";")); (fld_2, (B ":")); (fld_8, v_true); (fld_9, v_true); (fld_10, v_true)]);
    ([tok_5; tok_2; tok_6; tok_4], Some [(fld_0, (B "csv")); (fld_2, v_na); (fld_10, v_true); (fld_32, (B ";")); (fld_33, (B ":")); (fld_37, v_true); (fld_38, v_true)]);
    ([tok_7; tok_2; tok_8; tok_2], Some [(fld_0, (B "csv")); (fld_2, v_na); (fld_3, (B ";")); (fld_10, v_true); (fld_31, (B ";")); (fld_39, v_true)])]);
  (tok_86, [
    ([], Some [(fld_0, (B "csv")); (fld_2, v_na); (fld_10, v_true); (fld_30, (B "json")); (fld_31, v_na); (fld_32, v_na); (fld_33, v_na); (fld_65, v_false); (fld_66, v_true)]);
    ([tok_1; tok_2; tok_3; tok_4], Some [(fld_0, (B "csv")); (fld_1, (B ";")); (fld_2, (B ":")); (fld_8, v_true); (fld_9, v_true); (fld_10, v_true); (fld_30, (B "json")); (fld_31, v_na); (fld_32, v_na); (fld_33, v_na); (fld_65, v_false); (fld_66, v_true)]);
    ([tok_5; tok_2; tok_6; tok_4], Some [(fld_0, (B "csv")); (fld_2, v_na); (fld_10, v_true); (fld_30, (B "json")); (fld_31, v_na); (fld_32, (B ";")); (fld_33, (B ":")); (fld_37, v_true); (fld_38, v_true); (fld_65, v_false); (fld_66, v_true)]);
    ([tok_7; tok_2; tok_8; tok_2], Some [(fld_0, (B "csv")); (fld_2, v_na); (fld_3, (B ";")); (fld_10, v_true); (fld_30, (B "json")); (fld_31, (B ";")); (fld_32, v_na); (fld_33, v_na); (fld_39, v_true); (fld_65, v_false); (fld_66, v_true)])]);
  (tok_87, [
    ([], Some [(fld_0, (B "csv")); (fld_2, v_na); (fld_10, v_true); (fld_30, (B "jsonl")); (fld_31, (B "")); (fld_32, (B "")); (fld_33, (B "")); (fld_65, v_false); (fld_66, v_true)]);
    ([tok_1; tok_2; tok_3; tok_4], Some [(fld_0, (B "csv")); (fld_1, (B ";")); (fld_2, (B ":")); (fld_8, v_true); (fld_9, v_true); (fld_10, v_true); (fld_30, (B "jsonl")); (fld_31, (B "")); (fld_32, (B "")); (fld_33, (B "")); (fld_65, v_false); (fld_66, v_true)]);
    ([tok_5; tok_2; tok_6; tok_4], Some [(fld_0, (B "csv")); (fld_2, v_na); (fld_10, v_true); (fld_30, (B "jsonl")); (fld_31, (B "")); (fld_32, (B ";")); (fld_33, (B ":")); (fld_37, v_true); (fld_38, v_true); (fld_65, v_false); (fld_66, v_true)]);
    ([tok_7; tok_2; tok_8; tok_2], Some [(fld_0, (B "csv")); (fld_2, v_na); (fld_3, (B ";")); (fld_10, v_true); (fld_30, (B "jsonl")); (fld_31, (B ";")); (fld_32, (B "")); (fld_33, (B "")); (fld_39, v_true); (fld_65, v_false); (fld_66, v_true)])]);
  (tok_88, [
    ([], Some [(fld_0, (B "csv")); (fld_2, v_na); (fld_10, v_true); (fld_30, (B "markdown")); (fld_32, (B " ")); (fld_33, v_na)]);
    ([tok_1; tok_2; tok_3; tok_4], Some [(fld_0, (B "csv")); (fld_1, (B ";")); (fld_2, (B ":")); (fld_8, v_true); (fld_9, v_true); (fld_10, v_true); (fld_30, (B "markdown")); (fld_32, (B " ")); (fld_33, v_na)]);
    ([tok_5; tok_2; tok_6; tok_4], Some [(fld_0, (B "csv")); (fld_2, v_na); (fld_10, v_true); (fld_30, (B "markdown")); (fld_32, (B ";")); (fld_33, (B ":")); (fld_37, v_true); (fld_38, v_true)]);
    ([tok_7; tok_2; tok_8; tok_2], Some [(fld_0, (B "csv")); (fld_2, v_na); (fld_3, (B ";")); (fld_10, v_true); (fld_30, (B "markdown")); (fld_31, (B ";")); (fld_32, (B " ")); (fld_33, v_na); (fld_39, v_true)])]);
  (tok_89, [
    ([], Some [(fld_0, (B "csv")); (fld_2, v_na); (fld_10, v_true); (fld_30, (B "nidx")); (fld_32, (B " ")); (fld_33, v_na); (fld_37, v_true)]);
    ([tok_1; tok_2; tok_3; tok_4], Some [(fld_0, (B "csv")); (fld_1, (B ";")); (fld_2, (B ":")); (fld_8, v_true); (fld_9, v_true); (fld_10, v_true); (fld_30, (B "nidx")); (fld_32, (B " ")); (fld_33, v_na); (fld_37, v_true)]);
    ([tok_5; tok_2; tok_6; tok_4], Some [(fld_0, (B "csv")); (fld_2, v_na); (fld_10, v_true); (fld_30, (B "nidx")); (fld_32, (B ";")); (fld_33, (B ":")); (fld_37, v_true); (fld_38, v_true)]);
    ([tok_7; tok_2; tok_8; tok_2], Some [(fld_0, (B "csv")); (fld_2, v_na); (fld_3, (B ";")); (fld_10, v_true); (fld_30, (B "nidx")); (fld_31, (B ";")); (fld_32, (B " ")); (fld_33, v_na); (fld_37, v_true); (fld_39, v_true)])]);
  (tok_90, [
    ([], Some [(fld_0, (B "csv")); (fld_2, v_na); (fld_10, v_true); (fld_30, (B "pprint")); (fld_32, (B " ")); (fld_33, v_na)]);
    ([tok_1; tok_2; tok_3; tok_4], Some [(fld_0, (B "csv")); (fld_1, (B ";")); (fld_2, (B ":")); (fld_8, v_true); (fld_9, v_true); (fld_10, v_true); (fld_30, (B "pprint")); (fld_32, (B " ")); (fld_33, v_na)]);
    ([tok_5; tok_2; tok_6; tok_4], Some [(fld_0, (B "csv")); (fld_2, v_na); (fld_10, v_true); (fld_30, (B "pprint")); (fld_32, (B ";")); (fld_33, (B ":")); (fld_37, v_true); (fld_38, v_true)]);
    ([tok_7; tok_2; tok_8; tok_2], Some [(fld_0, (B "csv")); (fld_2, v_na); (fld_3, (B ";")); (fld_10, v_true); (fld_30, (B "pprint")); (fld_31, (B ";")); (fld_32, (B " ")); (fld_33, v_na); (fld_39, v_true)])]);
  (tok_91, [
    ([], Some [(fld_0, (B "csv")); (fld_2, v_na); (fld_10, v_true); (fld_30, (B "tsv")); (fld_32, (bs [9]%N)); (fld_33, v_na); (fld_37, v_true)]);
    ([tok_1; tok_2; tok_3; tok_4], Some [(fld_0, (B "csv")); (fld_1, (B ";")); (fld_2, (B ":")); (fld_8, v_true); (fld_9, v_true); (fld_10, v_true); (fld_30, (B "tsv")); (fld_32, (bs [9]%N)); (fld_33, v_na); (fld_37, v_true)]);
    ([tok_5; tok_2; tok_6; tok_4], Some [(fld_0, (B "csv")); (fld_2, v_na); (fld_10, v_true); (fld_30, (B "tsv")); (fld_32, (B ";")); (fld_33, (B ":")); (fld_37, v_true); (fld_38, v_true)]);
    ([tok_7; tok_2; tok_8; tok_2], Some [(fld_0, (B "csv")); (fld_2, v_na); (fld_3, (B ";")); (fld_10, v_true); (fld_30, (B "tsv")); (fld_31, (B ";")); (fld_32, (bs [9]%N)); (fld_33, v_na); (fld_37, v_true); (fld_39, v_true)])]);
  (tok_92, [
    ([], Some [(fld_0, (B "csv")); (fld_2, v_na); (fld_10, v_true); (fld_30, (B "xtab")); (fld_31, (bs [10;10]%N)); (fld_32, (bs [10]%N)); (fld_33, (B " "))]);
    ([tok_1; tok_2; tok_3; tok_4], Some [(fld_0, (B "csv")); (fld_1, (B ";")); (fld_2, (B ":")); (fld_8, v_true); (fld_9, v_true); (fld_10, v_true); (fld_30, (B "xtab")); (fld_31, (bs [10;10]%N)); (fld_32, (bs [10]%N)); (fld_33, (B " "))]);
    ([tok_5; tok_2; tok_6; tok_4], Some [(fld_0, (B "csv")); (fld_2, v_na); (fld_10, v_true); (fld_30, (B "xtab")); (fld_31, (bs [10;10]%N)); (fld_32, (B ";")); (fld_33, (B ":")); (fld_37, v_true); (fld_38, v_true)]);
    ([tok_7; tok_2; tok_8; tok_2], Some [(fld_0, (B "csv")); (fld_2, v_na); (fld_3, (B ";")); (fld_10, v_true); (fld_30, (B "xtab")); (fld_31, (B ";")); (fld_32, (bs [10]%N)); (fld_33, (B " ")); (fld_39, v_true)])]);
  (tok_93, [
    ([], Some [(fld_0, (B "csv")); (fld_2, v_na); (fld_10, v_true); (fld_30, (B "yaml")); (fld_31, v_na); (fld_32, v_na); (fld_33, v_na); (fld_65, v_false); (fld_66, v_true)]);
    ([tok_1; tok_2; tok_3; tok_4], Some [(fld_0, (B "csv")); (fld_1, (B ";")); (fld_2, (B ":")); (fld_8, v_true); (fld_9, v_true); (fld_10, v_true); (fld_30, (B "yaml")); (fld_31, v_na); (fld_32, v_na); (fld_33, v_na); (fld_65, v_false); (fld_66, v_true)]);
    ([tok_5; tok_2; tok_6; tok_4], Some [(fld_0, (B "csv")); (fld_2, v_na); (fld_10, v_true); (fld_30, (B "yaml")); (fld_31, v_na); (fld_32, (B ";")); (fld_33, (B ":")); (fld_37, v_true); (fld_38, v_true); (fld_65, v_false); (fld_66, v_true)]);
    ([tok_7; tok_2; tok_8; tok_2], Some [(fld_0, (B "csv")); (fld_2, v_na); (fld_3, (B ";")); (fld_10, v_true); (fld_30, (B "yaml")); (fld_31, (B ";")); (fld_32, v_na); (fld_33, v_na); (fld_39, v_true); (fld_65, v_false); (fld_66, v_true)])]);
  (tok_94, [
    ([], Some [(fld_30, (B "pprint")); (fld_32, (B " ")); (fld_33, v_na); (fld_41, v_true)]);
    ([tok_1; tok_2; tok_3; tok_4], Some [(fld_1, (B ";")); (fld_2, (B ":")); (fld_8, v_true); (fld_9, v_true); (fld_30, (B "pprint")); (fld_32, (B " ")); (fld_33, v_na); (fld_41, v_true)]);
    ([tok_5; tok_2; tok_6; tok_4], Some [(fld_30, (B "pprint")); (fld_32, (B ";")); (fld_33, (B ":")); (fld_37, v_true); (fld_38, v_true); (fld_41, v_true)]);
    ([tok_7; tok_2; tok_8; tok_2], Some [(fld_3, (B ";")); (fld_10, v_true); (fld_30, (B "pprint")); (fld_31, (B ";")); (fld_32, (B " ")); (fld_33, v_na); (fld_39, v_true); (fld_41, v_true)])]);
  (tok_95, [
    ([], Some [(fld_30, (B "csv")); (fld_33, v_na)]);
    ([tok_1; tok_2; tok_3; tok_4], Some [(fld_1, (B ";")); (fld_2, (B ":")); (fld_8, v_true); (fld_9, v_true); (fld_30, (B "csv")); (fld_33, v_na)]);
    ([tok_5; tok_2; tok_6; tok_4], Some [(fld_30, (B "csv")); (fld_32, (B ";")); (fld_33, (B ":")); (fld_37, v_true); (fld_38, v_true)]);
    ([tok_7; tok_2; tok_8; tok_2], Some [(fld_3, (B ";")); (fld_10, v_true); (fld_30, (B "csv")); (fld_31, (B ";")); (fld_33, v_na); (fld_39, v_true)])]);
  (tok_96, [
    ([], Some [(fld_30, (B "json")); (fld_31, v_na); (fld_32, v_na); (fld_33, v_na); (fld_65, v_false); (fld_66, v_true)]);
    ([tok_1; tok_2; tok_3; tok_4], Some [(fld_1, (B ";")); (fld_2, (B ":")); (fld_8, v_true); (fld_9, v_true); (fld_30, (B "json")); (fld_31, v_na); (fld_32, v_na); (fld_33, v_na); (fld_65, v_false); (fld_66, v_true)]);
    ([tok_5; tok_2; tok_6; tok_4], Some [(fld_30, (B "json")); (fld_31, v_na); (fld_32, (B ";")); (fld_33, (B ":")); (fld_37, v_true); (fld_38, v_true); (fld_65, v_false); (fld_66, v_true)]);
    ([tok_7; tok_2; tok_8; tok_2], Some [(fld_3, (B ";")); (fld_10, v_true); (fld_30, (B "json")); (fld_31, (B ";")); (fld_32, v_na); (fld_33, v_na); (fld_39, v_true); (fld_65, v_false); (fld_66, v_true)])]);
  (tok_97, [
    ([], Some [(fld_30, (B "jsonl")); (fld_31, (B "")); (fld_32, (B "")); (fld_33, (B "")); (fld_65, v_false); (fld_66, v_true)]);
    ([tok_1; tok_2; tok_3; tok_4], Some [(fld_1, (B ";")); (fld_2, (B ":")); (fld_8, v_true); (fld_9, v_true); (fld_30, (B "jsonl")); (fld_31, (B "")); (fld_32, (B "")); (fld_33, (B "")); (fld_65, v_false); (fld_66, v_true)]);
    ([tok_5; tok_2; tok_6; tok_4], Some [(fld_30, (B "jsonl")); (fld_31, (B "")); (fld_32, (B ";")); (fld_33, (B ":")); (fld_37, v_true); (fld_38, v_true); (fld_65, v_false); (fld_66, v_true)]);
    ([tok_7; tok_2; tok_8; tok_2], Some [(fld_3, (B ";")); (fld_10, v_true); (fld_30, (B "jsonl")); (fld_31, (B ";")); (fld_32, (B "")); (fld_33, (B "")); (fld_39, v_true); (fld_65, v_false); (fld_66, v_true)])]);
  (tok_98, [
    ([], Some [(fld_30, (B "markdown")); (fld_32, (B " ")); (fld_33, v_na)]);
    ([tok_1; tok_2; tok_3; tok_4], Some [(fld_1, (B ";")); (fld_2, (B ":")); (fld_8, v_true); (fld_9, v_true); (fld_30, (B "markdown")); (fld_32, (B " ")); (fld_33, v_na)]);
    ([tok_5; tok_2; tok_6; tok_4], Some [(fld_30, (B "markdown")); (fld_32, (B ";")); (fld_33, (B ":")); (fld_37, v_true); (fld_38, v_true)]);
    ([tok_7; tok_2; tok_8; tok_2], Some [(fld_3, (B ";")); (fld_10, v_true); (fld_30, (B "markdown")); (fld_31, (B ";")); (fld_32, (B " ")); (fld_33, v_na); (fld_39, v_true)])]);
  (tok_99, [
    ([], Some [(fld_30, (B "nidx")); (fld_32, (B " ")); (fld_33, v_na); (fld_37, v_true)]);
    ([tok_1; tok_2; tok_3; tok_4], Some [(fld_1, (B ";")); (fld_2, (B ":")); (fld_8, v_true); (fld_9, v_true); (fld_30, (B "nidx")); (fld_32, (B " ")); (fld_33, v_na); (fld_37, v_true)]);
    ([tok_5; tok_2; tok_6; tok_4], Some [(fld_30, (B "nidx")); (fld_32, (B ";")); (fld_33, (B ":")); (fld_37, v_true); (fld_38, v_true)]);
    ([tok_7; tok_2; tok_8; tok_2], Some [(fld_3, (B ";")); (fld_10, v_true); (fld_30, (B "nidx")); (fld_31, (B ";")); (fld_32, (B " ")); (fld_33, v_na); (fld_37, v_true); (fld_39, v_true)])]);
  (tok_100, [
    ([], Some [(fld_30, (B "pprint")); (fld_32, (B " ")); (fld_33, v_na)]);
    ([tok_1; tok_2; tok_3; tok_4], Some [(fld_1, (B ";")); (fld_2, (B ":")); (fld_8, v_true); (fld_9, v_true); (fld_30, (B "pprint")); (fld_32, (B " ")); (fld_33, v_na)]);
    ([tok_5; tok_2; tok_6; tok_4], Some [(fld_30, (B "pprint")); (fld_32, (B ";")); (fld_33, (B ":")); (fld_37, v_true); (fld_38, v_true)]);
    ([tok_7; tok_2; tok_8; tok_2], Some [(fld_3, (B ";")); (fld_10, v_true); (fld_30, (B "pprint")); (fld_31, (B ";")); (fld_32, (B " ")); (fld_33, v_na); (fld_39, v_true)])]);
  (tok_101, [
    ([], Some [(fld_30, (B "tsv")); (fld_32, (bs [9]%N)); (fld_33, v_na); (fld_37, v_true); (fld_39, v_true)]);
    ([tok_1; tok_2; tok_3; tok_4], Some [(fld_1, (B ";")); (fld_2, (B ":")); (fld_8, v_true); (fld_9, v_true); (fld_30, (B "tsv")); (fld_32, (bs [9]%N)); (fld_33, v_na); (fld_37, v_true); (fld_39, v_true)]);
    ([tok_5; tok_2; tok_6; tok_4], Some [(fld_30, (B "tsv")); (fld_32, (B ";")); (fld_33, (B ":")); (fld_37, v_true); (fld_38, v_true); (fld_39, v_true)]);
    ([tok_7; tok_2; tok_8; tok_2], Some [(fld_3, (B ";")); (fld_10, v_true); (fld_30, (B "tsv")); (fld_31, (B ";")); (fld_32, (bs [9]%N)); (fld_33, v_na); (fld_37, v_true); (fld_39, v_true)])]);
  (tok_102, [
    ([], Some [(fld_30, (B "xtab")); (fld_31, (bs [10;10]%N)); (fld_32, (bs [10]%N)); (fld_33, (B " "))]);
    ([tok_1; tok_2; tok_3; tok_4], Some [(fld_1, (B ";")); (fld_2, (B ":")); (fld_8, v_true); (fld_9, v_true); (fld_30, (B "xtab")); (fld_31, (bs [10;10]%N)); (fld_32, (bs [10]%N)); (fld_33, (B " "))]);
    ([tok_5; tok_2; tok_6; tok_4], Some [(fld_30, (B "xtab")); (fld_31, (bs [10;10]%N)); (fld_32, (B ";")); (fld_33, (B ":")); (fld_37, v_true); (fld_38, v_true)]);
    ([tok_7; tok_2; tok_8; tok_2], Some [(fld_3, (B ";")); (fld_10, v_true); (fld_30, (B "xtab")); (fld_31, (B ";")); (fld_32, (bs [10]%N)); (fld_33, (B " ")); (fld_39, v_true)])]);
  (tok_103, [
    ([], Some [(fld_30, (B "yaml")); (fld_31, v_na); (fld_32, v_na); (fld_33, v_na); (fld_65, v_false); (fld_66, v_true)]);
    ([tok_1; tok_2; tok_3; tok_4], Some [(fld_1, (B ";")); (fld_2, (B ":")); (fld_8, v_true); (fld_9, v_true); (fld_30, (B "yaml")); (fld_31, v_na); (fld_32, v_na); (fld_33, v_na); (fld_65, v_false); (fld_66, v_true)]);
    ([tok_5; tok_2; tok_6; tok_4], Some [(fld_30, (B "yaml")); (fld_31, v_na); (fld_32, (B ";")); (fld_33, (B ":")); (fld_37, v_true); (fld_38, v_true); (fld_65, v_false); (fld_66, v_true)]);
    ([tok_7; tok_2; tok_8; tok_2], Some [(fld_3, (B ";")); (fld_10, v_true); (fld_30, (B "yaml")); (fld_31, (B ";")); (fld_32, v_na); (fld_33, v_na); (fld_39, v_true); (fld_65, v_false); (fld_66, v_true)])]);
  (tok_104, [
    ([], Some [(fld_0, (B "json")); (fld_1, v_na); (fld_2, v_na); (fld_3, v_na); (fld_30, (B "pprint")); (fld_32, (B " ")); (fld_33, v_na); (fld_41, v_true)]);
    ([tok_1; tok_2; tok_3; tok_4], Some [(fld_0, (B "json")); (fld_1, (B ";")); (fld_2, (B ":")); (fld_3, v_na); (fld_8, v_true); (fld_9, v_true); (fld_30, (B "pprint")); (fld_32, (B " ")); (fld_33, v_na); (fld_41, v_true)]);
    ([tok_5; tok_2; tok_6; tok_4], Some [(fld_0, (B "json")); (fld_1, v_na); (fld_2, v_na); (fld_3, v_na); (fld_30, (B "pprint")); (fld_32, (B ";")); (fld_33, (B ":")); (fld_37, v_true); (fld_38, v_true); (fld_41, v_true)]);
    ([tok_7; tok_2; tok_8; tok_2], Some [(fld_0, (B "json")); (fld_1, v_na); (fld_2, v_na); (fld_3, (B ";")); (fld_10, v_true); (fld_30, (B "pprint")); (fld_31, (B ";")); (fld_32, (B " ")); (fld_33, v_na); (fld_39, v_true); (fld_41, v_true)])]);
  (tok_105, [
    ([], Some [(fld_0, (B "json")); (fld_1, v_na); (fld_2, v_na); (fld_3, v_na); (fld_30, (B "csv")); (fld_33, v_na); (fld_39, v_true)]);
    ([tok_1; tok_2; tok_3; tok_4], Some [(fld_0, (B "json")); (fld_1, (B ";")); (fld_2, (B ":")); (fld_3, v_na); (fld_8, v_true); (fld_9, v_true); (fld_30, (B "csv")); (fld_33, v_na); (fld_39, v_true)]);
    ([tok_5; tok_2; tok_6; tok_4], Some [(fld_0, (B "json")); (fld_1, v_na); (fld_2, v_na); (fld_3, v_na); (fld_30, (B "csv")); (fld_32, (B ";")); (fld_33, (B ":")); (fld_37, v_true); (fld_38, v_true); (fld_39, v_true)]);
    ([tok_7; tok_2; tok_8; tok_2], Some [(fld_0, (B "json")); (fld_1, v_na); (fld_2, v_na); (fld_3, (B ";")); (fld_10, v_true); (fld_30, (B "csv")); (fld_31, (B ";")); (fld_33, v_na); (fld_39, v_true)])]);
  (tok_106, [
    ([], Some [(fld_0, (B "json")); (fld_1, v_na); (fld_2, v_na); (fld_3, v_na)]);
    ([tok_1; tok_2; tok_3; tok_4], Some [(fld_0, (B "json")); (fld_1, (B ";")); (fld_2, (B ":")); (fld_3, v_na); (fld_8, v_true); (fld_9, v_true)]);
    ([tok_5; tok_2; tok_6; tok_4], Some [(fld_0, (B "json")); (fld_1, v_na); (fld_2, v_na); (fld_3, v_na); (fld_32, (B ";")); (fld_33, (B ":")); (fld_37, v_true); (fld_38, v_true)]);
    ([tok_7; tok_2; tok_8; tok_2], Some [(fld_0, (B "json")); (fld_1, v_na); (fld_2, v_na); (fld_3, (B ";")); (fld_10, v_true); (fld_31, (B ";")); (fld_39, v_true)])]);
  (tok_107, [
    ([], Some [(fld_0, (B "json")); (fld_1, v_na); (fld_2, v_na); (fld_3, v_na); (fld_30, (B "jsonl")); (fld_31, (B "")); (fld_32, (B "")); (fld_33, (B "")); (fld_65, v_false)]);
    ([tok_1; tok_2; tok_3; tok_4], Some [(fld_0, (B "json")); (fld_1, (B ";")); (fld_2, (B ":")); (fld_3, v_na); (fld_8, v_true); (fld_9, v_true); (fld_30, (B "jsonl")); (fld_31, (B "")); (fld_32, (B "")); (fld_33, (B "")); (fld_65, v_false)]);
    ([tok_5; tok_2; tok_6; tok_4], Some [(fld_0, (B "json")); (fld_1, v_na); (fld_2, v_na); (fld_3, v_na); (fld_30, (B "jsonl")); (fld_31, (B "")); (fld_32, (B ";")); (fld_33, (B ":")); (fld_37, v_true); (fld_38, v_true); (fld_65, v_false)]);
    ([tok_7; tok_2; tok_8; tok_2], Some [(fld_0, (B "json")); (fld_1, v_na); (fld_2, v_na); (fld_3, (B ";")); (fld_10, v_true); (fld_30, (B "jsonl")); (fld_31, (B ";")); (fld_32, (B "")); (fld_33, (B "")); (fld_39, v_true); (fld_65, v_false)])]);
  (tok_108, [
    ([], Some [(fld_0, (B "json")); (fld_1, v_na); (fld_2, v_na); (fld_3, v_na); (fld_30, (B "markdown")); (fld_32, (B " ")); (fld_33, v_na)]);
    ([tok_1; tok_2; tok_3; tok_4], Some [(fld_0, (B "json")); (fld_1, (B ";")); (fld_2, (B ":")); (fld_3, v_na); (fld_8, v_true); (fld_9, v_true); (fld_30, (B "markdown")); (fld_32, (B " ")); (fld_33, v_na)]);
    ([tok_5; tok_2; tok_6; tok_4], Some [(fld_0, (B "json")); (fld_1, v_na); (fld_2, v_na); (fld_3, v_na); (fld_30, (B "markdown")); (fld_32, (B ";")); (fld_33, (B ":")); (fld_37, v_true); (fld_38, v_true)]);
    ([tok_7; tok_2; tok_8; tok_2], Some [(fld_0, (B "json")); (fld_1, v_na); (fld_2, v_na); (fld_3, (B ";")); (fld_10, v_true); (fld_30, (B "markdown")); (fld_31, (B ";")); (fld_32, (B " ")); (fld_33, v_na); (fld_39, v_true)])]);
  (tok_109, [
    ([], Some [(fld_0, (B "json")); (fld_1, v_na); (fld_2, v_na); (fld_3, v_na); (fld_30, (B "nidx")); (fld_32, (B " ")); (fld_33, v_na); (fld_37, v_true)]);
    ([tok_1; tok_2; tok_3; tok_4], Some [(fld_0, (B "json")); (fld_1, (B ";")); (fld_2, (B ":")); (fld_3, v_na); (fld_8, v_true); (fld_9, v_true); (fld_30, (B "nidx")); (fld_32, (B " ")); (fld_33, v_na); (fld_37, v_true)]);
    ([tok_5; tok_2; tok_6; tok_4], Some [(fld_0, (B "json")); (fld_1, v_na); (fld_2, v_na); (fld_3, v_na); (fld_30, (B "nidx")); (fld_32, (B ";")); (fld_33, (B ":")); (fld_37, v_true); (fld_38, v_true)]);
    ([tok_7; tok_2; tok_8; tok_2], Some [(fld_0, (B "json")); (fld_1, v_na); (fld_2, v_na); (fld_3, (B ";")); (fld_10, v_true); (fld_30, (B "nidx")); (fld_31, (B ";")); (fld_32, (B " ")); (fld_33, v_na); (fld_37, v_true); (fld_39, v_true)])]);
  (tok_110, [
    ([], Some [(fld_0, (B "json")); (fld_1, v_na); (fld_2, v_na); (fld_3, v_na); (fld_30, (B "pprint")); (fld_32, (B " ")); (fld_33, v_na)]);
    ([tok_1; tok_2; tok_3; tok_4], Some [(fld_0, (B "json")); (fld_1, (B ";")); (fld_2, (B ":")); (fld_3, v_na); (fld_8, v_true); (fld_9, v_true); (fld_30, (B "pprint")); (fld_32, (B " ")); (fld_33, v_na)]);
    ([tok_5; tok_2; tok_6; tok_4], Some [(fld_0, (B "json")); (fld_1, v_na); (fld_2, v_na); (fld_3, v_na); (fld_30, (B "pprint")); (fld_32, (B ";")); (fld_33, (B ":")); (fld_37, v_true); (fld_38, v_true)]);
    ([tok_7; tok_2; tok_8; tok_2], Some [(fld_0, (B "json")); (fld_1, v_na); (fld_2, v_na); (fld_3, (B ";")); (fld_10, v_true); (fld_30, (B "pprint")); (fld_31, (B ";")); (fld_32, (B " ")); (fld_33, v_na); (fld_39, v_true)])]);
  (tok_111, [
    ([], Some [(fld_0, (B "json")); (fld_1, v_na); (fld_2, v_na); (fld_3, v_na); (fld_30, (B "tsv")); (fld_32, (bs [9]%N)); (fld_33, v_na); (fld_37, v_true)]);
    ([tok_1; tok_2; tok_3; tok_4], Some [(fld_0, (B "json")); (fld_1, (B ";")); (fld_2, (B ":")); (fld_3, v_na); (fld_8, v_true); (fld_9, v_true); (fld_30, (B "tsv")); (fld_32, (bs [9]%N)); (fld_33, v_na); (fld_37, v_true)]);
    ([tok_5; tok_2; tok_6; tok_4], Some [(fld_0, (B "json")); (fld_1, v_na); (fld_2, v_na); (fld_3, v_na); (fld_30, (B "tsv")); (fld_32, (B ";")); (fld_33, (B ":")); (fld_37, v_true); (fld_38, v_true)]);
    ([tok_7; tok_2; tok_8; tok_2], Some [(fld_0, (B "json")); (fld_1, v_na); (fld_2, v_na); (fld_3, (B ";")); (fld_10, v_true); (fld_30, (B "tsv")); (fld_31, (B ";")); (fld_32, (bs [9]%N)); (fld_33, v_na); (fld_37, v_true); (fld_39, v_true)])]);
  (tok_112, [
    ([], Some [(fld_0, (B "json")); (fld_1, v_na); (fld_2, v_na); (fld_3, v_na); (fld_30, (B "xtab")); (fld_31, (bs [10;10]%N)); (fld_32, (bs [10]%N)); (fld_33, (B " "))]);
    ([tok_1; tok_2; tok_3; tok_4], Some [(fld_0, (B "json")); (fld_1, (B ";")); (fld_2, (B ":")); (fld_3, v_na); (fld_8, v_true); (fld_9, v_true); (fld_30, (B "xtab")); (fld_31, (bs [10;10]%N)); (fld_32, (bs [10]%N)); (fld_33, (B " "))]);
    ([tok_5; tok_2; tok_6; tok_4], Some [(fld_0, (B "json")); (fld_1, v_na); (fld_2, v_na); (fld_3, v_na); (fld_30, (B "xtab")); (fld_31, (bs [10;10]%N)); (fld_32, (B ";")); (fld_33, (B ":")); (fld_37, v_true); (fld_38, v_true)]);
    ([tok_7; tok_2; tok_8; tok_2], Some [(fld_0, (B "json")); (fld_1, v_na); (fld_2, v_na); (fld_3, (B ";")); (fld_10, v_true); (fld_30, (B "xtab")); (fld_31, (B ";")); (fld_32, (bs [10]%N)); (fld_33, (B " ")); (fld_39, v_true)])]);
  (tok_113, [
    ([], Some [(fld_0, (B "json")); (fld_1, v_na); (fld_2, v_na); (fld_3, v_na); (fld_30, (B "yaml")); (fld_31, v_na); (fld_32, v_na); (fld_33, v_na); (fld_65, v_false)]);
    ([tok_1; tok_2; tok_3; tok_4], Some [(fld_0, (B "json")); (fld_1, (B ";")); (fld_2, (B ":")); (fld_3, v_na); (fld_8, v_true); (fld_9, v_true); (fld_30, (B "yaml")); (fld_31, v_na); (fld_32, v_na); (fld_33, v_na); (fld_65, v_false)]);
    ([tok_5; tok_2; tok_6; tok_4], Some [(fld_0, (B "json")); (fld_1, v_na); (fld_2, v_na); (fld_3, v_na); (fld_30, (B "yaml")); (fld_31, v_na); (fld_32, (B ";")); (fld_33, (B ":")); (fld_37, v_true); (fld_38, v_true); (fld_65, v_false)]);
    ([tok_7; tok_2; tok_8; tok_2], Some [(fld_0, (B "json")); (fld_1, v_na); (fld_2, v_na); (fld_3, (B ";")); (fld_10, v_true); (fld_30, (B "yaml")); (fld_31, (B ";")); (fld_32, v_na); (fld_33, v_na); (fld_39, v_true); (fld_65, v_false)])]);
  (tok_114, [
    ([], Some [(fld_0, (B "json")); (fld_1, v_na); (fld_2, v_na); (fld_3, v_na); (fld_30, (B "pprint")); (fld_32, (B " ")); (fld_33, v_na); (fld_41, v_true)]);
    ([tok_1; tok_2; tok_3; tok_4], Some [(fld_0, (B "json")); (fld_1, (B ";")); (fld_2, (B ":")); (fld_3, v_na); (fld_8, v_true); (fld_9, v_true); (fld_30, (B "pprint")); (fld_32, (B " ")); (fld_33, v_na); (fld_41, v_true)]);
    ([tok_5; tok_2; tok_6; tok_4], Some [(fld_0, (B "json")); (fld_1, v_na); (fld_2, v_na); (fld_3, v_na); (fld_30, (B "pprint")); (fld_32, (B ";")); (fld_33, (B ":")); (fld_37, v_true); (fld_38, v_true); (fld_41, v_true)]);
    ([tok_7; tok_2; tok_8; tok_2], Some [(fld_0, (B "json")); (fld_1, v_na); (fld_2, v_na); (fld_3, (B ";")); (fld_10, v_true); (fld_30, (B "pprint")); (fld_31, (B ";")); (fld_32, (B " ")); (fld_33, v_na); (fld_39, v_true); (fld_41, v_true)])]);
  (tok_115, [
    ([], Some [(fld_0, (B "json")); (fld_1, v_na); (fld_2, v_na); (fld_3, v_na); (fld_30, (B "csv")); (fld_33, v_na); (fld_39, v_true)]);
    ([tok_1; tok_2; tok_3; tok_4], Some [(fld_0, (B "json")); (fld_1, (B ";")); (fld_2, (B ":")); (fld_3, v_na); (fld_8, v_true); (fld_9, v_true); (fld_30, (B "csv")); (fld_33, v_na); (fld_39, v_true)]);
    ([tok_5; tok_2; tok_6; tok_4], Some [(fld_0, (B "json")); (fld_1, v_na); (fld_2, v_na); (fld_3, v_na); (fld_30, (B "csv")); (fld_32, (B ";")); (fld_33, (B ":")); (fld_37, v_true); (fld_38, v_true); (fld_39, v_true)]);
    ([tok_7; tok_2; tok_8; tok_2], Some [(fld_0, (B "json")); (fld_1, v_na); (fld_2, v_na); (fld_3, (B ";")); (fld_10, v_true); (fld_30, (B "csv")); (fld_31, (B ";")); (fld_33, v_na); (fld_39, v_true)])]);
  (tok_116, [
    ([], Some [(fld_0, (B "json")); (fld_1, v_na); (fld_2, v_na); (fld_3, v_na)]);
    ([tok_1; tok_2; tok_3; tok_4], Some [(fld_0, (B "json")); (fld_1, (B ";")); (fld_2, (B ":")); (fld_3, v_na); (fld_8, v_true); (fld_9, v_true)]);
    ([tok_5; tok_2; tok_6; tok_4], Some [(fld_0, (B "json")); (fld_1, v_na); (fld_2, v_na); (fld_3, v_na); (fld_32, (B ";")); (fld_33, (B ":")); (fld_37, v_true); (fld_38, v_true)]);
    ([tok_7; tok_2; tok_8; tok_2], Some [(fld_0, (B "json")); (fld_1, v_na); (fld_2, v_na); (fld_3, (B ";")); (fld_10, v_true); (fld_31, (B ";")); (fld_39, v_true)])]);
  (tok_117, [
    ([], Some [(fld_0, (B "json")); (fld_1, v_na); (fld_2, v_na); (fld_3, v_na); (fld_30, (B "json")); (fld_31, v_na); (fld_32, v_na); (fld_33, v_na); (fld_65, v_false)]);
    ([tok_1; tok_2; tok_3; tok_4], Some [(fld_0, (B "json")); (fld_1, (B ";")); (fld_2, (B ":")); (fld_3, v_na); (fld_8, v_true); (fld_9, v_true); (fld_30, (B "json")); (fld_31, v_na); (fld_32, v_na); (fld_33, v_na); (fld_65, v_false)]);
    ([tok_5; tok_2; tok_6; tok_4], Some [(fld_0, (B "json")); (fld_1, v_na); (fld_2, v_na); (fld_3, v_na); (fld_30, (B "json")); (fld_31, v_na); (fld_32, (B ";")); (fld_33, (B ":")); (fld_37, v_true); (fld_38, v_true); (fld_65, v_false)]);
    ([tok_7; tok_2; tok_8; tok_2], Some [(fld_0, (B "json")); (fld_1, v_na); (fld_2, v_na); (fld_3, (B ";")); (fld_10, v_true); (fld_30, (B "json")); (fld_31, (B ";")); (fld_32, v_na); (fld_33, v_na); (fld_39, v_true); (fld_65, v_false)])]);
  (tok_118, [
    ([], Some [(fld_0, (B "json")); (fld_1, v_na); (fld_2, v_na); (fld_3, v_na); (fld_30, (B "markdown")); (fld_32, (B " ")); (fld_33, v_na)]);
    ([tok_1; tok_2; tok_3; tok_4], Some [(fld_0, (B "json")); (fld_1, (B ";")); (fld_2, (B ":")); (fld_3, v_na); (fld_8, v_true); (fld_9, v_true); (fld_30, (B "markdown")); (fld_32, (B " ")); (fld_33, v_na)]);
    ([tok_5; tok_2; tok_6; tok_4], Some [(fld_0, (B "json")); (fld_1, v_na); (fld_2, v_na); (fld_3, v_na); (fld_30, (B "markdown")); (fld_32, (B ";")); (fld_33, (B ":")); (fld_37, v_true); (fld_38, v_true)]);
    ([tok_7; tok_2; tok_8; tok_2], Some [(fld_0, (B "json")); (fld_1, v_na); (fld_2, v_na); (fld_3, (B ";")); (fld_10, v_true); (fld_30, (B "markdown")); (fld_31, (B ";")); (fld_32, (B " ")); (fld_33, v_na); (fld_39, v_true)])]);
  (tok_119, [
    ([], Some [(fld_0, (B "json")); (fld_1, v_na); (fld_2, v_na); (fld_3, v_na); (fld_30, (B "nidx")); (fld_32, (B " ")); (fld_33, v_na); (fld_37, v_true)]);
    ([tok_1; tok_2; tok_3; tok_4], Some [(fld_0, (B "json")); (fld_1, (B ";")); (fld_2, (B ":")); (fld_3, v_na); (fld_8, v_true); (fld_9, v_true); (fld_30, (B "nidx")); (fld_32, (B " ")); (fld_33, v_na); (fld_37, v_true)]);
    ([tok_5; tok_2; tok_6; tok_4], Some [(fld_0, (B "json")); (fld_1, v_na); (fld_2, v_na); (fld_3, v_na); (fld_30, (B "nidx")); (fld_32, (B ";")); (fld_33, (B ":")); (fld_37, v_true); (fld_38, v_true)]);
    ([tok_7; tok_2; tok_8; tok_2], Some [(fld_0, (B "json")); (fld_1, v_na); (fld_2, v_na); (fld_3, (B ";")); (fld_10, v_true); (fld_30, (B "nidx")); (fld_31, (B ";")); (fld_32, (B " ")); (fld_33, v_na); (fld_37, v_true); (fld_39, v_true)])]);
  (tok_120, [
    ([], Some [(fld_0, (B "json")); (fld_1, v_na); (fld_2, v_na); (fld_3, v_na); (fld_30, (B "pprint")); (fld_32, (B " ")); (fld_33, v_na)]);
    ([tok_1; tok_2; tok_3; tok_4], Some [(fld_0, (B "json")); (fld_1, (B ";")); (fld_2, (B ":")); (fld_3, v_na); (fld_8, v_true); (fld_9, v_true); (fld_30, (B "pprint")); (fld_32, (B " ")); (fld_33, v_na)]);
    ([tok_5; tok_2; tok_6; tok_4], Some [(fld_0, (B "json")); (fld_1, v_na); (fld_2, v_na); (fld_3, v_na); (fld_30, (B "pprint")); (fld_32, (B ";")); (fld_33, (B ":")); (fld_37, v_true); (fld_38, v_true)]);
    ([tok_7; tok_2; tok_8; tok_2], Some [(fld_0, (B "json")); (fld_1, v_na); (fld_2, v_na); (fld_3, (B ";")); (fld_10, v_true); (fld_30, (B "pprint")); (fld_31, (B ";")); (fld_32, (B " ")); (fld_33, v_na); (fld_39, v_true)])]);
  (tok_121, [
    ([], Some [(fld_0, (B "json")); (fld_1, v_na); (fld_2, v_na); (fld_3, v_na); (fld_30, (B "tsv")); (fld_32, (bs [9]%N)); (fld_33, v_na); (fld_37, v_true)]);
    ([tok_1; tok_2; tok_3; tok_4], Some [(fld_0, (B "json")); (fld_1, (B ";")); (fld_2, (B ":")); (fld_3, v_na); (fld_8, v_true); (fld_9, v_true); (fld_30, (B "tsv")); (fld_32, (bs [9]%N)); (fld_33, v_na); (fld_37, v_true)]);
    ([tok_5; tok_2; tok_6; tok_4], Some [(fld_0, (B "json")); (fld_1, v_na); (fld_2, v_na); (fld_3, v_na); (fld_30, (B "tsv")); (fld_32, (B ";")); (fld_33, (B ":")); (fld_37, v_true); (fld_38, v_true)]);
    ([tok_7; tok_2; tok_8; tok_2], Some [(fld_0, (B "json")); (fld_1, v_na); (fld_2, v_na); (fld_3, (B ";")); (fld_10, v_true); (fld_30, (B "tsv")); (fld_31, (B ";")); (fld_32, (bs [9]%N)); (fld_33, v_na); (fld_37, v_true); (fld_39, v_true)])]);
  (tok_122, [
    ([], Some [(fld_0, (B "json")); (fld_1, v_na); (fld_2, v_na); (fld_3, v_na); (fld_30, (B "xtab")); (fld_31, (bs [10;10]%N)); (fld_32, (bs [10]%N)); (fld_33, (B " "))]);
    ([tok_1; tok_2; tok_3; tok_4], Some [(fld_0, (B "json")); (fld_1, (B ";")); (fld_2, (B ":")); (fld_3, v_na); (fld_8, v_true); (fld_9, v_true); (fld_30, (B "xtab")); (fld_31, (bs [10;10]%N)); (fld_32, (bs [10]%N)); (fld_33, (B " "))]);
    ([tok_5; tok_2; tok_6; tok_4], Some [(fld_0, (B "json")); (fld_1, v_na); (fld_2, v_na); (fld_3, v_na); (fld_30, (B "xtab")); (fld_31, (bs [10;10]%N)); (fld_32, (B ";")); (fld_33, (B ":")); (fld_37, v_true); (fld_38, v_true)]);
    ([tok_7; tok_2; tok_8; tok_2], Some [(fld_0, (B "json")); (fld_1, v_na); (fld_2, v_na); (fld_3, (B ";")); (fld_10, v_true); (fld_30, (B "xtab")); (fld_31, (B ";")); (fld_32, (bs [10]%N)); (fld_33, (B " ")); (fld_39, v_true)])]);
  (tok_123, [
    ([], Some [(fld_0, (B "json")); (fld_1, v_na); (fld_2, v_na); (fld_3, v_na); (fld_30, (B "yaml")); (fld_31, v_na); (fld_32, v_na); (fld_33, v_na); (fld_65, v_false)]);
    ([tok_1; tok_2; tok_3; tok_4], Some [(fld_0, (B "json")); (fld_1, (B ";")); (fld_2, (B ":")); (fld_3, v_na); (fld_8, v_true); (fld_9, v_true); (fld_30, (B "yaml")); (fld_31, v_na); (fld_32, v_na); (fld_33, v_na); (fld_65, v_false)]);
    ([tok_5; tok_2; tok_6; tok_4], Some [(fld_0, (B "json")); (fld_1, v_na); (fld_2, v_na); (fld_3, v_na); (fld_30, (B "yaml")); (fld_31, v_na); (fld_32, (B ";")); (fld_33, (B ":")); (fld_37, v_true); (fld_38, v_true); (fld_65, v_false)]);
    ([tok_7; tok_2; tok_8; tok_2], Some [(fld_0, (B "json")); (fld_1, v_na); (fld_2, v_na); (fld_3, (B ";")); (fld_10, v_true); (fld_30, (B "yaml")); (fld_31, (B ";")); (fld_32, v_na); (fld_33, v_na); (fld_39, v_true); (fld_65, v_false)])]);
  (tok_124, [
    ([], Some [(fld_0, (B "markdown")); (fld_1, (B " ")); (fld_2, v_na); (fld_30, (B "csv")); (fld_33, v_na); (fld_39, v_true)]);
    ([tok_1; tok_2; tok_3; tok_4], Some [(fld_0, (B "markdown")); (fld_1, (B ";")); (fld_2, (B ":")); (fld_8, v_true); (fld_9, v_true); (fld_30, (B "csv")); (fld_33, v_na); (fld_39, v_true)]);
    ([tok_5; tok_2; tok_6; tok_4], Some [(fld_0, (B "markdown")); (fld_1, (B " ")); (fld_2, v_na); (fld_30, (B "csv")); (fld_32, (B ";")); (fld_33, (B ":")); (fld_37, v_true); (fld_38, v_true); (fld_39, v_true)]);
    ([tok_7; tok_2; tok_8; tok_2], Some [(fld_0, (B "markdown")); (fld_1, (B " ")); (fld_2, v_na); (fld_3, (B ";")); (fld_10, v_true); (fld_30, (B "csv")); (fld_31, (B ";")); (fld_33, v_na); (fld_39, v_true)])]);
  (tok_125, [
    ([], Some [(fld_0, (B "markdown")); (fld_1, (B " ")); (fld_2, v_na)]);
    ([tok_1; tok_2; tok_3; tok_4], Some [(fld_0, (B "markdown")); (fld_1, (B ";")); (fld_2, (B ":")); (fld_8, v_true); (fld_9, v_true)]);
    ([tok_5; tok_2; tok_6; tok_4], Some [(fld_0, (B "markdown")); (fld_1, (B " ")); (fld_2, v_na); (fld_32, (B ";")); (fld_33, (B ":")); (fld_37, v_true); (fld_38, v_true)]);
    ([tok_7; tok_2; tok_8; tok_2], Some [(fld_0, (B "markdown")); (fld_1, (B " ")); (fld_2, v_na); (fld_3, (B ";")); (fld_10, v_true); (fld_31, (B ";")); (fld_39, v_true)])]);
  (tok_126, [
    ([], Some [(fld_0, (B "markdown")); (fld_1, (B " ")); (fld_2, v_na); (fld_30, (B "json")); (fld_31, v_na); (fld_32, v_na); (fld_33, v_na); (fld_65, v_false); (fld_66, v_true)]);
    ([tok_1; tok_2; tok_3; tok_4], Some [(fld_0, (B "markdown")); (fld_1, (B ";")); (fld_2, (B ":")); (fld_8, v_true); (fld_9, v_true); (fld_30, (B "json")); (fld_31, v_na); (fld_32, v_na); (fld_33, v_na); (fld_65, v_false); (fld_66, v_true)]);
    ([tok_5; tok_2; tok_6; tok_4], Some [(fld_0, (B "markdown")); (fld_1, (B " ")); (fld_2, v_na); (fld_30, (B "json")); (fld_31, v_na); (fld_32, (B ";")); (fld_33, (B ":")); (fld_37, v_true); (fld_38, v_true); (fld_65, v_false); (fld_66, v_true)]);
    ([tok_7; tok_2; tok_8; tok_2], Some [(fld_0, (B "markdown")); (fld_1, (B " ")); (fld_2, v_na); (fld_3, (B ";")); (fld_10, v_true); (fld_30, (B "json")); (fld_31, (B ";")); (fld_32, v_na); (fld_33, v_na); (fld_39, v_true); (fld_65, v_false); (fld_66, v_true)])]);
  (tok_127, [
    ([], Some [(fld_0, (B "markdown")); (fld_1, (B " ")); (fld_2, v_na); (fld_30, (B "jsonl")); (fld_31, (B "")); (fld_32, (B "")); (fld_33, (B "")); (fld_65, v_false); (fld_66, v_true)]);
    ([tok_1; tok_2; tok_3; tok_4], Some [(fld_0, (B "markdown")); (fld_1, (B ";")); (fld_2, (B ":")); (fld_8, v_true); (fld_9, v_true); (fld_30, (B "jsonl")); (fld_31, (B "")); (fld_32, (B "")); (fld_33, (B "")); (fld_65, v_false); (fld_66, v_true)]);
    ([tok_5; tok_2; tok_6; tok_4], Some [(fld_0, (B "markdown")); (fld_1, (B " ")); (fld_2, v_na); (fld_30, (B "jsonl")); (fld_31, (B "")); (fld_32, (B ";")); (fld_33, (B ":")); (fld_37, v_true); (fld_38, v_true); (fld_65, v_false); (fld_66, v_true)]);
    ([tok_7; tok_2; tok_8; tok_2], Some [(fld_0, (B "markdown")); (fld_1, (B " ")); (fld_2, v_na); (fld_3, (B ";")); (fld_10, v_true); (fld_30, (B "jsonl")); (fld_31, (B ";")); (fld_32, (B "")); (fld_33, (B "")); (fld_39, v_true); (fld_65, v_false); (fld_66, v_true)])]);
  (tok_128, [
    ([], Some [(fld_0, (B "markdown")); (fld_1, (B " ")); (fld_2, v_na); (fld_30, (B "nidx")); (fld_32, (B " ")); (fld_33, v_na); (fld_37, v_true)]);
    ([tok_1; tok_2; tok_3; tok_4], Some [(fld_0, (B "markdown")); (fld_1, (B ";")); (fld_2, (B ":")); (fld_8, v_true); (fld_9, v_true); (fld_30, (B "nidx")); (fld_32, (B " ")); (fld_33, v_na); (fld_37, v_true)]);
    ([tok_5; tok_2; tok_6; tok_4], Some [(fld_0, (B "markdown")); (fld_1, (B " ")); (fld_2, v_na); (fld_30, (B "nidx")); (fld_32, (B ";")); (fld_33, (B ":")); (fld_37, v_true); (fld_38, v_true)]);
    ([tok_7; tok_2; tok_8; tok_2], Some [(fld_0, (B "markdown")); (fld_1, (B " ")); (fld_2, v_na); (fld_3, (B ";")); (fld_10, v_true); (fld_30, (B "nidx")); (fld_31, (B ";")); (fld_32, (B " ")); (fld_33, v_na); (fld_37, v_true); (fld_39, v_true)])]);
  (tok_129, [
    ([], Some [(fld_0, (B "markdown")); (fld_1, (B " ")); (fld_2, v_na); (fld_30, (B "pprint")); (fld_32, (B " ")); (fld_33, v_na)]);
    ([tok_1; tok_2; tok_3; tok_4], Some [(fld_0, (B "markdown")); (fld_1, (B ";")); (fld_2, (B ":")); (fld_8, v_true); (fld_9, v_true); (fld_30, (B "pprint")); (fld_32, (B " ")); (fld_33, v_na)]);
    ([tok_5; tok_2; tok_6; tok_4], Some [(fld_0, (B "markdown")); (fld_1, (B " ")); (fld_2, v_na); (fld_30, (B "pprint")); (fld_32, (B ";")); (fld_33, (B ":")); (fld_37, v_true); (fld_38, v_true)]);
    ([tok_7; tok_2; tok_8; tok_2], Some [(fld_0, (B "markdown")); (fld_1, (B " ")); (fld_2, v_na); (fld_3, (B ";")); (fld_10, v_true); (fld_30, (B "pprint")); (fld_31, (B ";")); (fld_32, (B " ")); (fld_33, v_na); (fld_39, v_true)])]);
  (tok_130, [
    ([], Some [(fld_0, (B "markdown")); (fld_1, (B " ")); (fld_2, v_na); (fld_30, (B "tsv")); (fld_32, (bs [9]%N)); (fld_33, v_na); (fld_37, v_true)]);
    ([tok_1; tok_2; tok_3; tok_4], Some [(fld_0, (B "markdown")); (fld_1, (B ";")); (fld_2, (B ":")); (fld_8, v_true); (fld_9, v_true); (fld_30, (B "tsv")); (fld_32, (bs [9]%N)); (fld_33, v_na); (fld_37, v_true)]);
    ([tok_5; tok_2; tok_6; tok_4], Some [(fld_0, (B "markdown")); (fld_1, (B " ")); (fld_2, v_na); (fld_30, (B "tsv")); (fld_32, (B ";")); (fld_33, (B ":")); (fld_37, v_true); (fld_38, v_true)]);
    ([tok_7; tok_2; tok_8; tok_2], Some [(fld_0, (B "markdown")); (fld_1, (B " ")); (fld_2, v_na); (fld_3, (B ";")); (fld_10, v_true); (fld_30, (B "tsv")); (fld_31, (B ";")); (fld_32, (bs [9]%N)); (fld_33, v_na); (fld_37, v_true); (fld_39, v_true)])]);
  (tok_131, [
    ([], Some [(fld_0, (B "markdown")); (fld_1, (B " ")); (fld_2, v_na); (fld_30, (B "xtab")); (fld_31, (bs [10;10]%N)); (fld_32, (bs [10]%N)); (fld_33, (B " "))]);
    ([tok_1; tok_2; tok_3; tok_4], Some [(fld_0, (B "markdown")); (fld_1, (B ";")); (fld_2, (B ":")); (fld_8, v_true); (fld_9, v_true); (fld_30, (B "xtab")); (fld_31, (bs [10;10]%N)); (fld_32, (bs [10]%N)); (fld_33, (B " "))]);
    ([tok_5; tok_2; tok_6; tok_4], Some [(fld_0, (B "markdown")); (fld_1, (B " ")); (fld_2, v_na); (fld_30, (B "xtab")); (fld_31, (bs [10;10]%N)); (fld_32, (B ";")); (fld_33, (B ":")); (fld_37, v_true); (fld_38, v_true)]);
    ([tok_7; tok_2; tok_8; tok_2], Some [(fld_0, (B "markdown")); (fld_1, (B " ")); (fld_2, v_na); (fld_3, (B ";")); (fld_10, v_true); (fld_30, (B "xtab")); (fld_31, (B ";")); (fld_32, (bs [10]%N)); (fld_33, (B " ")); (fld_39, v_true)])]);
  (tok_132, [
    ([], Some [(fld_0, (B "markdown")); (fld_1, (B " ")); (fld_2, v_na); (fld_30, (B "yaml")); (fld_31, v_na); (fld_32, v_na); (fld_33, v_na); (fld_65, v_false); (fld_66, v_true)]);
    ([tok_1; tok_2; tok_3; tok_4], Some [(fld_0, (B "markdown")); (fld_1, (B ";")); (fld_2, (B ":")); (fld_8, v_true); (fld_9, v_true); (fld_30, (B "yaml")); (fld_31, v_na); (fld_32, v_na); (fld_33, v_na); (fld_65, v_false); (fld_66, v_true)]);
    ([tok_5; tok_2; tok_6; tok_4], Some [(fld_0, (B "markdown")); (fld_1, (B " ")); (fld_2, v_na); (fld_30, (B "yaml")); (fld_31, v_na); (fld_32, (B ";")); (fld_33, (B ":")); (fld_37, v_true); (fld_38, v_true); (fld_65, v_false); (fld_66, v_true)]);
    ([tok_7; tok_2; tok_8; tok_2], Some [(fld_0, (B "markdown")); (fld_1, (B " ")); (fld_2, v_na); (fld_3, (B ";")); (fld_10, v_true); (fld_30, (B "yaml")); (fld_31, (B ";")); (fld_32, v_na); (fld_33, v_na); (fld_39, v_true); (fld_65, v_false); (fld_66, v_true)])]);
  (tok_133, [
    ([], Some [(fld_0, (B "nidx")); (fld_1, (B " ")); (fld_2, v_na); (fld_5, (B "([ \t])+")); (fld_30, (B "pprint")); (fld_32, (B " ")); (fld_33, v_na); (fld_41, v_true)]);
    ([tok_1; tok_2; tok_3; tok_4], Some [(fld_0, (B "nidx")); (fld_1, (B ";")); (fld_2, (B ":")); (fld_8, v_true); (fld_9, v_true); (fld_30, (B "pprint")); (fld_32, (B " ")); (fld_33, v_na); (fld_41, v_true)]);
    ([tok_5; tok_2; tok_6; tok_4], Some [(fld_0, (B "nidx")); (fld_1, (B " ")); (fld_2, v_na); (fld_5, (B "([ \t])+")); (fld_30, (B "pprint")); (fld_32, (B ";")); (fld_33, (B ":")); (fld_37, v_true); (fld_38, v_true); (fld_41, v_true)]);
    ([tok_7; tok_2; tok_8; tok_2], Some [(fld_0, (B "nidx")); (fld_1, (B " ")); (fld_2, v_na); (fld_3, (B ";")); (fld_5, (B "([ \t])+")); (fld_10, v_true); (fld_30, (B "pprint")); (fld_31, (B ";")); (fld_32, (B " ")); (fld_33, v_na); (fld_39, v_true); (fld_41, v_true)])]);
  (tok_134, [
    ([], Some [(fld_0, (B "nidx")); (fld_1, (B " ")); (fld_2, v_na); (fld_5, (B "([ \t])+")); (fld_30, (B "csv")); (fld_33, v_na); (fld_39, v_true)]);
    ([tok_1; tok_2; tok_3; tok_4], Some [(fld_0, (B "nidx")); (fld_1, (B ";")); (fld_2, (B ":")); (fld_8, v_true); (fld_9, v_true); (fld_30, (B "csv")); (fld_33, v_na); (fld_39, v_true)]);
    ([tok_5; tok_2; tok_6; tok_4], Some [(fld_0, (B "nidx")); (fld_1, (B " ")); (fld_2, v_na); (fld_5, (B "([ \t])+")); (fld_30, (B "csv")); (fld_32, (B ";")); (fld_33, (B ":")); (fld_37, v_true); (fld_38, v_true); (fld_39, v_true)]);
    ([tok_7; tok_2; tok_8; tok_2], Some [(fld_0, (B "nidx")); (fld_1, (B " ")); (fld_2, v_na); (fld_3, (B ";")); (fld_5, (B "([ \t])+")); (fld_10, v_true); (fld_30, (B "csv")); (fld_31, (B ";")); (fld_33, v_na); (fld_39, v_true)])]);
  (tok_135, [
    ([], Some [(fld_0, (B "nidx")); (fld_1, (B " ")); (fld_2, v_na); (fld_5, (B "([ \t])+"))]);
    ([tok_1; tok_2; tok_3; tok_4], Some [(fld_0, (B "nidx")); (fld_1, (B ";")); (fld_2, (B ":")); (fld_8, v_true); (fld_9, v_true)]);
    ([tok_5; tok_2; tok_6; tok_4], Some [(fld_0, (B "nidx")); (fld_1, (B " ")); (fld_2, v_na); (fld_5, (B "([ \t])+")); (fld_32, (B ";")); (fld_33, (B ":")); (fld_37, v_true); (fld_38, v_true)]);
    ([tok_7; tok_2; tok_8; tok_2], Some [(fld_0, (B "nidx")); (fld_1, (B " ")); (fld_2, v_na); (fld_3, (B ";")); (fld_5, (B "([ \t])+")); (fld_10, v_true); (fld_31, (B ";")); (fld_39, v_true)])]);
  (tok_136, [
    ([], Some [(fld_0, (B "nidx")); (fld_1, (B " ")); (fld_2, v_na); (fld_5, (B "([ \t])+")); (fld_30, (B "json")); (fld_31, v_na); (fld_32, v_na); (fld_33, v_na); (fld_65, v_false); (fld_66, v_true)]);
    ([tok_1; tok_2; tok_3; tok_4], Some [(fld_0, (B "nidx")); (fld_1, (B ";")); (fld_2, (B ":")); (fld_8, v_true); (fld_9, v_true); (fld_30, (B "json")); (fld_31, v_na); (fld_32, v_na); (fld_33, v_na); (fld_65, v_false); (fld_66, v_true)]);
    ([tok_5; tok_2; tok_6; tok_4], Some [(fld_0, (B "nidx")); (fld_1, (B " ")); (fld_2, v_na); (fld_5, (B "([ \t])+")); (fld_30, (B "json")); (fld_31, v_na); (fld_32, (B ";")); (fld_33, (B ":")); (fld_37, v_true); (fld_38, v_true); (fld_65, v_false); (fld_66, v_true)]);
    ([tok_7; tok_2; tok_8; tok_2], Some [(fld_0, (B "nidx")); (fld_1, (B " ")); (fld_2, v_na); (fld_3, (B ";")); (fld_5, (B "([ \t])+")); (fld_10, v_true); (fld_30, (B "json")); (fld_31, (B ";")); (fld_32, v_na); (fld_33, v_na); (fld_39, v_true); (fld_65, v_false); (fld_66, v_true)])]);
  (tok_137, [
    ([], Some [(fld_0, (B "nidx")); (fld_1, (B " ")); (fld_2, v_na); (fld_5, (B "([ \t])+")); (fld_30, (B "jsonl")); (fld_31, (B "")); (fld_32, (B "")); (fld_33, (B "")); (fld_65, v_false); (fld_66, v_true)]);
    ([tok_1; tok_2; tok_3; tok_4], Some [(fld_0, (B "nidx")); (fld_1, (B ";")); (fld_2, (B ":")); (fld_8, v_true); (fld_9, v_true); (fld_30, (B "jsonl")); (fld_31, (B "")); (fld_32, (B "")); (fld_33, (B "")); (fld_65, v_false); (fld_66, v_true)]);
    ([tok_5; tok_2; tok_6; tok_4], Some [(fld_0, (B "nidx")); (fld_1, (B " ")); (fld_2, v_na); (fld_5, (B "([ \t])+")); (fld_30, (B "jsonl")); (fld_31, (B "")); (fld_32, (B ";")); (fld_33, (B ":")); (fld_37, v_true); (fld_38, v_true); (fld_65, v_false); (fld_66, v_true)]);
    ([tok_7; tok_2; tok_8; tok_2], Some [(fld_0, (B "nidx")); (fld_1, (B " ")); (fld_2, v_na); (fld_3, (B ";")); (fld_5, (B "([ \t])+")); (fld_10, v_true); (fld_30, (B "jsonl")); (fld_31, (B ";")); (fld_32, (B "")); (fld_33, (B "")); (fld_39, v_true); (fld_65, v_false); (fld_66, v_true)])]);
  (tok_138, [
    ([], Some [(fld_0, (B "nidx")); (fld_1, (B " ")); (fld_2, v_na); (fld_5, (B "([ \t])+")); (fld_30, (B "markdown")); (fld_32, (B " ")); (fld_33, v_na)]);
    ([tok_1; tok_2; tok_3; tok_4], Some [(fld_0, (B "nidx")); (fld_1, (B ";")); (fld_2, (B ":")); (fld_8, v_true); (fld_9, v_true); (fld_30, (B "markdown")); (fld_32, (B " ")); (fld_33, v_na)]);
    ([tok_5; tok_2; tok_6; tok_4], Some [(fld_0, (B "nidx")); (fld_1, (B " ")); (fld_2, v_na); (fld_5, (B "([ \t])+")); (fld_30, (B "markdown")); (fld_32, (B ";")); (fld_33, (B ":")); (fld_37, v_true); (fld_38, v_true)]);
    ([tok_7; tok_2; tok_8; tok_2], Some [(fld_0, (B "nidx")); (fld_1, (B " ")); (fld_2, v_na); (fld_3, (B ";")); (fld_5, (B "([ \t])+")); (fld_10, v_true); (fld_30, (B "markdown")); (fld_31, (B ";")); (fld_32, (B " ")); (fld_33, v_na); (fld_39, v_true)])]);
  (tok_139, [
    ([], Some [(fld_0, (B "nidx")); (fld_1, (B " ")); (fld_2, v_na); (fld_5, (B "([ \t])+")); (fld_30, (B "pprint")); (fld_32, (B " ")); (fld_33, v_na)]);
    ([tok_1; tok_2; tok_3; tok_4], Some [(fld_0, (B "nidx")); (fld_1, (B ";")); (fld_2, (B ":")); (fld_8, v_true); (fld_9, v_true); (fld_30, (B "pprint")); (fld_32, (B " ")); (fld_33, v_na)]);
    ([tok_5; tok_2; tok_6; tok_4], Some [(fld_0, (B "nidx")); (fld_1, (B " ")); (fld_2, v_na); (fld_5, (B "([ \t])+")); (fld_30, (B "pprint")); (fld_32, (B ";")); (fld_33, (B ":")); (fld_37, v_true); (fld_38, v_true)]);
    ([tok_7; tok_2; tok_8; tok_2], Some [(fld_0, (B "nidx")); (fld_1, (B " ")); (fld_2, v_na); (fld_3, (B ";")); (fld_5, (B "([ \t])+")); (fld_10, v_true); (fld_30, (B "pprint")); (fld_31, (B ";")); (fld_32, (B " ")); (fld_33, v_na); (fld_39, v_true)])]);
  (tok_140, [
    ([], Some [(fld_0, (B "nidx")); (fld_1, (B " ")); (fld_2, v_na); (fld_5, (B "([ \t])+")); (fld_30, (B "tsv")); (fld_32, (bs [9]%N)); (fld_33, v_na); (fld_37, v_true)]);
    ([tok_1; tok_2; tok_3; tok_4], Some [(fld_0, (B "nidx")); (fld_1, (B ";")); (fld_2, (B ":")); (fld_8, v_true); (fld_9, v_true); (fld_30, (B "tsv")); (fld_32, (bs [9]%N)); (fld_33, v_na); (fld_37, v_true)]);
    ([tok_5; tok_2; tok_6; tok_4], Some [(fld_0, (B "nidx")); (fld_1, (B " ")); (fld_2, v_na); (fld_5, (B "([ \t])+")); (fld_30, (B "tsv")); (fld_32, (B ";")); (fld_33, (B ":")); (fld_37, v_true); (fld_38, v_true)]);
    ([tok_7; tok_2; tok_8; tok_2], Some [(fld_0, (B "nidx")); (fld_1, (B " ")); (fld_2, v_na); (fld_3, (B ";")); (fld_5, (B "([ \t])+")); (fld_10, v_true); (fld_30, (B "tsv")); (fld_31, (B ";")); (fld_32, (bs [9]%N)); (fld_33, v_na); (fld_37, v_true); (fld_39, v_true)])]);
  (tok_141, [
    ([], Some [(fld_0, (B "nidx")); (fld_1, (B " ")); (fld_2, v_na); (fld_5, (B "([ \t])+")); (fld_30, (B "xtab")); (fld_31, (bs [10;10]%N)); (fld_32, (bs [10]%N)); (fld_33, (B " "))]);
    ([tok_1; tok_2; tok_3; tok_4], Some [(fld_0, (B "nidx")); (fld_1, (B ";")); (fld_2, (B ":")); (fld_8, v_true); (fld_9, v_true); (fld_30, (B "xtab")); (fld_31, (bs [10;10]%N)); (fld_32, (bs [10]%N)); (fld_33, (B " "))]);
    ([tok_5; tok_2; tok_6; tok_4], Some [(fld_0, (B "nidx")); (fld_1, (B " ")); (fld_2, v_na); (fld_5, (B "([ \t])+")); (fld_30, (B "xtab")); (fld_31, (bs [10;10]%N)); (fld_32, (B ";")); (fld_33, (B ":")); (fld_37, v_true); (fld_38, v_true)]);
    ([tok_7; tok_2; tok_8; tok_2], Some [(fld_0, (B "nidx")); (fld_1, (B " ")); (fld_2, v_na); (fld_3, (B ";")); (fld_5, (B "([ \t])+")); (fld_10, v_true); (fld_30, (B "xtab")); (fld_31, (B ";")); (fld_32, (bs [10]%N)); (fld_33, (B " ")); (fld_39, v_true)])]);
  (tok_142, [
    ([], Some [(fld_0, (B "nidx")); (fld_1, (B " ")); (fld_2, v_na); (fld_5, (B "([ \t])+")); (fld_30, (B "yaml")); (fld_31, v_na); (fld_32, v_na); (fld_33, v_na); (fld_65, v_false); (fld_66, v_true)]);
    ([tok_1; tok_2; tok_3; tok_4], Some [(fld_0, (B "nidx")); (fld_1, (B ";")); (fld_2, (B ":")); (fld_8, v_true); (fld_9, v_true); (fld_30, (B "yaml")); (fld_31, v_na); (fld_32, v_na); (fld_33, v_na); (fld_65, v_false); (fld_66, v_true)]);
    ([tok_5; tok_2; tok_6; tok_4], Some [(fld_0, (B "nidx")); (fld_1, (B " ")); (fld_2, v_na); (fld_5, (B "([ \t])+")); (fld_30, (B "yaml")); (fld_31, v_na); (fld_32, (B ";")); (fld_33, (B ":")); (fld_37, v_true); (fld_38, v_true); (fld_65, v_false); (fld_66, v_true)]);
    ([tok_7; tok_2; tok_8; tok_2], Some [(fld_0, (B "nidx")); (fld_1, (B " ")); (fld_2, v_na); (fld_3, (B ";")); (fld_5, (B "([ \t])+")); (fld_10, v_true); (fld_30, (B "yaml")); (fld_31, (B ";")); (fld_32, v_na); (fld_33, v_na); (fld_39, v_true); (fld_65, v_false); (fld_66, v_true)])]);
  (tok_143, [
    ([], Some [(fld_0, (B "pprint")); (fld_1, (B " ")); (fld_2, v_na); (fld_4, v_true); (fld_8, v_true); (fld_30, (B "csv")); (fld_33, v_na); (fld_39, v_true)]);
    ([tok_1; tok_2; tok_3; tok_4], Some [(fld_0, (B "pprint")); (fld_1, (B ";")); (fld_2, (B ":")); (fld_4, v_true); (fld_8, v_true); (fld_9, v_true); (fld_30, (B "csv")); (fld_33, v_na); (fld_39, v_true)]);
    ([tok_5; tok_2; tok_6; tok_4], Some [(fld_0, (B "pprint")); (fld_1, (B " ")); (fld_2, v_na); (fld_4, v_true); (fld_8, v_true); (fld_30, (B "csv")); (fld_32, (B ";")); (fld_33, (B ":")); (fld_37, v_true); (fld_38, v_true); (fld_39, v_true)]);
    ([tok_7; tok_2; tok_8; tok_2], Some [(fld_0, (B "pprint")); (fld_1, (B " ")); (fld_2, v_na); (fld_3, (B ";")); (fld_4, v_true); (fld_8, v_true); (fld_10, v_true); (fld_30, (B "csv")); (fld_31, (B ";")); (fld_33, v_na); (fld_39, v_true)])]);
  (tok_144, [
    ([], Some [(fld_0, (B "pprint")); (fld_1, (B " ")); (fld_2, v_na); (fld_4, v_true); (fld_8, v_true)]);
    ([tok_1; tok_2; tok_3; tok_4], Some [(fld_0, (B "pprint")); (fld_1, (B ";")); (fld_2, (B ":")); (fld_4, v_true); (fld_8, v_true); (fld_9, v_true)]);
    ([tok_5; tok_2; tok_6; tok_4], Some [(fld_0, (B "pprint")); (fld_1, (B " ")); (fld_2, v_na); (fld_4, v_true); (fld_8, v_true); (fld_32, (B ";")); (fld_33, (B ":")); (fld_37, v_true); (fld_38, v_true)]);
    ([tok_7; tok_2; tok_8; tok_2], Some [(fld_0, (B "pprint")); (fld_1, (B " ")); (fld_2, v_na); (fld_3, (B ";")); (fld_4, v_true); (fld_8, v_true); (fld_10, v_true); (fld_31, (B ";")); (fld_39, v_true)])]);
  (tok_145, [
    ([], Some [(fld_0, (B "pprint")); (fld_1, (B " ")); (fld_2, v_na); (fld_4, v_true); (fld_8, v_true); (fld_30, (B "json")); (fld_31, v_na); (fld_32, v_na); (fld_33, v_na); (fld_65, v_false); (fld_66, v_true)]);
    ([tok_1; tok_2; tok_3; tok_4], Some [(fld_0, (B "pprint")); (fld_1, (B ";")); (fld_2, (B ":")); (fld_4, v_true); (fld_8, v_true); (fld_9, v_true); (fld_30, (B "json")); (fld_31, v_na); (fld_32, v_na); (fld_33, v_na); (fld_65, v_false); (fld_66, v_true)]);
    ([tok_5; tok_2; tok_6; tok_4], Some [(fld_0, (B "pprint")); (fld_1, (B " ")); (fld_2, v_na); (fld_4, v_true); (fld_8, v_true); (fld_30, (B "json")); (fld_31, v_na); (fld_32, (B ";")); (fld_33, (B ":")); (fld_37, v_true); (fld_38, v_true); (fld_65, v_false); (fld_66, v_true)]);
    ([tok_7; tok_2; tok_8; tok_2], Some [(fld_0, (B "pprint")); (fld_1, (B " ")); (fld_2, v_na); (fld_3, (B ";")); (fld_4, v_true); (fld_8, v_true); (fld_10, v_true); (fld_30, (B "json")); (fld_31, (B ";")); (fld_32, v_na); (fld_33, v_na); (fld_39, v_true); (fld_65, v_false); (fld_66, v_true)])]);
  (tok_146, [
    ([], Some [(fld_0, (B "pprint")); (fld_1, (B " ")); (fld_2, v_na); (fld_4, v_true); (fld_8, v_true); (fld_30, (B "jsonl")); (fld_31, (B "")); (fld_32, (B "")); (fld_33, (B "")); (fld_65, v_false); (fld_66, v_true)]);
    ([tok_1; tok_2; tok_3; tok_4], Some [(fld_0, (B "pprint")); (fld_1, (B ";")); (fld_2, (B ":")); (fld_4, v_true); (fld_8, v_true); (fld_9, v_true); (fld_30, (B "jsonl")); (fld_31, (B "")); (fld_32, (B "")); (fld_33, (B "")); (fld_65, v_false); (fld_66, v_true)]);
    ([tok_5; tok_2; tok_6; tok_4], Some [(fld_0, (B "pprint")); (fld_1, (B " ")); (fld_2, v_na); (fld_4, v_true); (fld_8, v_true); (fld_30, (B "jsonl")); (fld_31, (B "")); (fld_32, (B ";")); (fld_33, (B ":")); (fld_37, v_true); (fld_38, v_true); (fld_65, v_false); (fld_66, v_true)]);
    ([tok_7; tok_2; tok_8; tok_2], Some [(fld_0, (B "pprint")); (fld_1, (B " ")); (fld_2, v_na); (fld_3, (B ";")); (fld_4, v_true); (fld_8, v_true); (fld_10, v_true); (fld_30, (B "jsonl")); (fld_31, (B ";")); (fld_32, (B "")); (fld_33, (B "")); (fld_39, v_true); (fld_65, v_false); (fld_66, v_true)])]);
  (tok_147, [
    ([], Some [(fld_0, (B "pprint")); (fld_1, (B " ")); (fld_2, v_na); (fld_4, v_true); (fld_8, v_true); (fld_30, (B "markdown")); (fld_32, (B " ")); (fld_33, v_na)]);
    ([tok_1; tok_2; tok_3; tok_4], Some [(fld_0, (B "pprint")); (fld_1, (B ";")); (fld_2, (B ":")); (fld_4, v_true); (fld_8, v_true); (fld_9, v_true); (fld_30, (B "markdown")); (fld_32, (B " ")); (fld_33, v_na)]);
    ([tok_5; tok_2; tok_6; tok_4], Some [(fld_0, (B "pprint")); (fld_1, (B " ")); (fld_2, v_na); (fld_4, v_true); (fld_8, v_true); (fld_30, (B "markdown")); (fld_32, (B ";")); (fld_33, (B ":")); (fld_37, v_true); (fld_38, v_true)]);
    ([tok_7; tok_2; tok_8; tok_2], Some [(fld_0, (B "pprint")); (fld_1, (B " ")); (fld_2, v_na); (fld_3, (B ";")); (fld_4, v_true); (fld_8, v_true); (fld_10, v_true); (fld_30, (B "markdown")); (fld_31, (B ";")); (fld_32, (B " ")); (fld_33, v_na); (fld_39, v_true)])]);
  (tok_148, [
    ([], Some [(fld_0, (B "pprint")); (fld_1, (B " ")); (fld_2, v_na); (fld_4, v_true); (fld_8, v_true); (fld_30, (B "nidx")); (fld_32, (B " ")); (fld_33, v_na); (fld_37, v_true)]);
    ([tok_1; tok_2; tok_3; tok_4], Some [(fld_0, (B "pprint")); (fld_1, (B ";")); (fld_2, (B ":")); (fld_4, v_true); (fld_8, v_true); (fld_9, v_true); (fld_30, (B "nidx")); (fld_32, (B " ")); (fld_33, v_na); (fld_37, v_true)]);
    ([tok_5; tok_2; tok_6; tok_4], Some [(fld_0, (B "pprint")); (fld_1, (B " ")); (fld_2, v_na); (fld_4, v_true); (fld_8, v_true); (fld_30, (B "nidx")); (fld_32, (B ";")); (fld_33, (B ":")); (fld_37, v_true); (fld_38, v_true)]);
    ([tok_7; tok_2; tok_8; tok_2], Some [(fld_0, (B "pprint")); (fld_1, (B " ")); (fld_2, v_na); (fld_3, (B ";")); (fld_4, v_true); (fld_8, v_true); (fld_10, v_true); (fld_30, (B "nidx")); (fld_31, (B ";")); (fld_32, (B " ")); (fld_33, v_na); (fld_37, v_true); (fld_39, v_true)])]);
  (tok_149, [
    ([], Some [(fld_0, (B "pprint")); (fld_1, (B " ")); (fld_2, v_na); (fld_4, v_true); (fld_8, v_true); (fld_30, (B "tsv")); (fld_32, (bs [9]%N)); (fld_33, v_na); (fld_37, v_true)]);
    ([tok_1; tok_2; tok_3; tok_4], Some [(fld_0, (B "pprint")); (fld_1, (B ";")); (fld_2, (B ":")); (fld_4, v_true); (fld_8, v_true); (fld_9, v_true); (fld_30, (B "tsv")); (fld_32, (bs [9]%N)); (fld_33, v_na); (fld_37, v_true)]);
    ([tok_5; tok_2; tok_6; tok_4], Some [(fld_0, (B "pprint")); (fld_1, (B " ")); (fld_2, v_na); (fld_4, v_true); (fld_8, v_true); (fld_30, (B "tsv")); (fld_32, (B ";")); (fld_33, (B ":")); (fld_37, v_true); (fld_38, v_true)]);
    ([tok_7; tok_2; tok_8; tok_2], Some [(fld_0, (B "pprint")); (fld_1, (B " ")); (fld_2, v_na); (fld_3, (B ";")); (fld_4, v_true); (fld_8, v_true); (fld_10, v_true); (fld_30, (B "tsv")); (fld_31, (B ";")); (fld_32, (bs [9]%N)); (fld_33, v_na); (fld_37, v_true); (fld_39, v_true)])]);
  (tok_150, [
    ([], Some [(fld_0, (B "pprint")); (fld_1, (B " ")); (fld_2, v_na); (fld_4, v_true); (fld_8, v_true); (fld_30, (B "xtab")); (fld_31, (bs [10;10]%N)); (fld_32, (bs [10]%N)); (fld_33, (B " "))]);
    ([tok_1; tok_2; tok_3; tok_4], Some [(fld_0, (B "pprint")); (fld_1, (B ";")); (fld_2, (B ":")); (fld_4, v_true); (fld_8, v_true); (fld_9, v_true); (fld_30, (B "xtab")); (fld_31, (bs [10;10]%N)); (fld_32, (bs [10]%N)); (fld_33, (B " "))]);
    ([tok_5; tok_2; tok_6; tok_4], Some [(fld_0, (B "pprint")); (fld_1, (B " ")); (fld_2, v_na); (fld_4, v_true); (fld_8, v_true); (fld_30, (B "xtab")); (fld_31, (bs [10;10]%N)); (fld_32, (B ";")); (fld_33, (B ":")); (fld_37, v_true); (fld_38, v_true)]);
    ([tok_7; tok_2; tok_8; tok_2], Some [(fld_0, (B "pprint")); (fld_1, (B " ")); (fld_2, v_na); (fld_3, (B ";")); (fld_4, v_true); (fld_8, v_true); (fld_10, v_true); (fld_30, (B "xtab")); (fld_31, (B ";")); (fld_32, (bs [10]%N)); (fld_33, (B " ")); (fld_39, v_true)])]);
  (tok_151, [
    ([], Some [(fld_0, (B "pprint")); (fld_1, (B " ")); (fld_2, v_na); (fld_4, v_true); (fld_8, v_true); (fld_30, (B "yaml")); (fld_31, v_na); (fld_32, v_na); (fld_33, v_na); (fld_65, v_false); (fld_66, v_true)]);
    ([tok_1; tok_2; tok_3; tok_4], Some [(fld_0, (B "pprint")); (fld_1, (B ";")); (fld_2, (B ":")); (fld_4, v_true); (fld_8, v_true); (fld_9, v_true); (fld_30, (B "yaml")); (fld_31, v_na); (fld_32, v_na); (fld_33, v_na); (fld_65, v_false); (fld_66, v_true)]);
    ([tok_5; tok_2; tok_6; tok_4], Some [(fld_0, (B "pprint")); (fld_1, (B " ")); (fld_2, v_na); (fld_4, v_true); (fld_8, v_true); (fld_30, (B "yaml")); (fld_31, v_na); (fld_32, (B ";")); (fld_33, (B ":")); (fld_37, v_true); (fld_38, v_true); (fld_65, v_false); (fld_66, v_true)]);
    ([tok_7; tok_2; tok_8; tok_2], Some [(fld_0, (B "pprint")); (fld_1, (B " ")); (fld_2, v_na); (fld_3, (B ";")); (fld_4, v_true); (fld_8, v_true); (fld_10, v_true); (fld_30, (B "yaml")); (fld_31, (B ";")); (fld_32, v_na); (fld_33, v_na); (fld_39, v_true); (fld_65, v_false); (fld_66, v_true)])]);
  (tok_152, [
    ([], Some [(fld_0, (B "tsv")); (fld_1, (bs [9]%N)); (fld_2, v_na); (fld_30, (B "pprint")); (fld_32, (B " ")); (fld_33, v_na); (fld_41, v_true)]);
    ([tok_1; tok_2; tok_3; tok_4], Some [(fld_0, (B "tsv")); (fld_1, (B ";")); (fld_2, (B ":")); (fld_8, v_true); (fld_9, v_true); (fld_30, (B "pprint")); (fld_32, (B " ")); (fld_33, v_na); (fld_41, v_true)]);
    ([tok_5; tok_2; tok_6; tok_4], Some [(fld_0, (B "tsv")); (fld_1, (bs [9]%N)); (fld_2, v_na); (fld_30, (B "pprint")); (fld_32, (B ";")); (fld_33, (B ":")); (fld_37, v_true); (fld_38, v_true); (fld_41, v_true)]);
    ([tok_7; tok_2; tok_8; tok_2], Some [(fld_0, (B "tsv")); (fld_1, (bs [9]%N)); (fld_2, v_na); (fld_3, (B ";")); (fld_10, v_true); (fld_30, (B "pprint")); (fld_31, (B ";")); (fld_32, (B " ")); (fld_33, v_na); (fld_39, v_true); (fld_41, v_true)])]);
  (tok_153, [
    ([], Some [(fld_0, (B "tsv")); (fld_1, (bs [9]%N)); (fld_2, v_na); (fld_30, (B "csv")); (fld_33, v_na)]);
    ([tok_1; tok_2; tok_3; tok_4], Some [(fld_0, (B "tsv")); (fld_1, (B ";")); (fld_2, (B ":")); (fld_8, v_true); (fld_9, v_true); (fld_30, (B "csv")); (fld_33, v_na)]);
    ([tok_5; tok_2; tok_6; tok_4], Some [(fld_0, (B "tsv")); (fld_1, (bs [9]%N)); (fld_2, v_na); (fld_30, (B "csv")); (fld_32, (B ";")); (fld_33, (B ":")); (fld_37, v_true); (fld_38, v_true)]);
    ([tok_7; tok_2; tok_8; tok_2], Some [(fld_0, (B "tsv")); (fld_1, (bs [9]%N)); (fld_2, v_na); (fld_3, (B ";")); (fld_10, v_true); (fld_30, (B "csv")); (fld_31, (B ";")); (fld_33, v_na); (fld_39, v_true)])]);
  (tok_154, [
    ([], Some [(fld_0, (B "tsv")); (fld_1, (bs [9]%N)); (fld_2, v_na)]);
    ([tok_1; tok_2; tok_3; tok_4], Some [(fld_0, (B "tsv")); (fld_1, (B ";")); (fld_2, (B ":")); (fld_8, v_true); (fld_9, v_true)]);
    ([tok_5; tok_2; tok_6; tok_4], Some [(fld_0, (B "tsv")); (fld_1, (bs [9]%N)); (fld_2, v_na); (fld_32, (B ";")); (fld_33, (B ":")); (fld_37, v_true); (fld_38, v_true)]);
    ([tok_7; tok_2; tok_8; tok_2], Some [(fld_0, (B "tsv")); (fld_1, (bs [9]%N)); (fld_2, v_na); (fld_3, (B ";")); (fld_10, v_true); (fld_31, (B ";")); (fld_39, v_true)])]);
  (tok_155, [
    ([], Some [(fld_0, (B "tsv")); (fld_1, (bs [9]%N)); (fld_2, v_na); (fld_30, (B "json")); (fld_31, v_na); (fld_32, v_na); (fld_33, v_na); (fld_65, v_false); (fld_66, v_true)]);
    ([tok_1; tok_2; tok_3; tok_4], Some [(fld_0, (B "tsv")); (fld_1, (B ";")); (fld_2, (B ":")); (fld_8, v_true); (fld_9, v_true); (fld_30, (B "json")); (fld_31, v_na); (fld_32, v_na); (fld_33, v_na); (fld_65, v_false); (fld_66, v_true)]);
    ([tok_5; tok_2; tok_6; tok_4], Some [(fld_0, (B "tsv")); (fld_1, (bs [9]%N)); (fld_2, v_na); (fld_30, (B "json")); (fld_31, v_na); (fld_32, (B ";")); (fld_33, (B ":")); (fld_37, v_true); (fld_38, v_true); (fld_65, v_false); (fld_66, v_true)]);
    ([tok_7; tok_2; tok_8; tok_2], Some [(fld_0, (B "tsv")); (fld_1, (bs [9]%N)); (fld_2, v_na); (fld_3, (B ";")); (fld_10, v_true); (fld_30, (B "json")); (fld_31, (B ";")); (fld_32, v_na); (fld_33, v_na); (fld_39, v_true); (fld_65, v_false); (fld_66, v_true)])]);
  (tok_156, [
    ([], Some [(fld_0, (B "tsv")); (fld_1, (bs [9]%N)); (fld_2, v_na); (fld_30, (B "jsonl")); (fld_31, (B "")); (fld_32, (B "")); (fld_33, (B "")); (fld_65, v_false); (fld_66, v_true)]);
    ([tok_1; tok_2; tok_3; tok_4], Some [(fld_0, (B "tsv")); (fld_1, (B ";")); (fld_2, (B ":")); (fld_8, v_true); (fld_9, v_true); (fld_30, (B "jsonl")); (fld_31, (B "")); (fld_32, (B "")); (fld_33, (B "")); (fld_65, v_false); (fld_66, v_true)]);
    ([tok_5; tok_2; tok_6; tok_4], Some [(fld_0, (B "tsv")); (fld_1, (bs [9]%N)); (fld_2, v_na); (fld_30, (B "jsonl")); (fld_31, (B "")); (fld_32, (B ";")); (fld_33, (B ":")); (fld_37, v_true); (fld_38, v_true); (fld_65, v_false); (fld_66, v_true)]);
    ([tok_7; tok_2; tok_8; tok_2], Some [(fld_0, (B "tsv")); (fld_1, (bs [9]%N)); (fld_2, v_na); (fld_3, (B ";")); (fld_10, v_true); (fld_30, (B "jsonl")); (fld_31, (B ";")); (fld_32, (B "")); (fld_33, (B "")); (fld_39, v_true); (fld_65, v_false); (fld_66, v_true)])]);
  (tok_157, [
    ([], Some [(fld_0, (B "tsv")); (fld_1, (bs [9]%N)); (fld_2, v_na); (fld_30, (B "markdown")); (fld_32, (B " ")); (fld_33, v_na)]);
    ([tok_1; tok_2; tok_3; tok_4], Some [(fld_0, (B "tsv")); (fld_1, (B ";")); (fld_2, (B ":")); (fld_8, v_true); (fld_9, v_true); (fld_30, (B "markdown")); (fld_32, (B " ")); (fld_33, v_na)]);
    ([tok_5; tok_2; tok_6; tok_4], Some [(fld_0, (B "tsv")); (fld_1, (bs [9]%N)); (fld_2, v_na); (fld_30, (B "markdown")); (fld_32, (B ";")); (fld_33, (B ":")); (fld_37, v_true); (fld_38, v_true)]);
    ([tok_7; tok_2; tok_8; tok_2], Some [(fld_0, (B "tsv")); (fld_1, (bs [9]%N)); (fld_2, v_na); (fld_3, (B ";")); (fld_10, v_true); (fld_30, (B "markdown")); (fld_31, (B ";")); (fld_32, (B " ")); (fld_33, v_na); (fld_39, v_true)])]);
  (tok_158, [
    ([], Some [(fld_0, (B "tsv")); (fld_1, (bs [9]%N)); (fld_2, v_na); (fld_30, (B "nidx")); (fld_32, (B " ")); (fld_33, v_na); (fld_37, v_true)]);
    ([tok_1; tok_2; tok_3; tok_4], Some [(fld_0, (B "tsv")); (fld_1, (B ";")); (fld_2, (B ":")); (fld_8, v_true); (fld_9, v_true); (fld_30, (B "nidx")); (fld_32, (B " ")); (fld_33, v_na); (fld_37, v_true)]);
    ([tok_5; tok_2; tok_6; tok_4], Some [(fld_0, (B "tsv")); (fld_1, (bs [9]%N)); (fld_2, v_na); (fld_30, (B "nidx")); (fld_32, (B ";")); (fld_33, (B ":")); (fld_37, v_true); (fld_38, v_true)]);
    ([tok_7; tok_2; tok_8; tok_2], Some [(fld_0, (B "tsv")); (fld_1, (bs [9]%N)); (fld_2, v_na); (fld_3, (B ";")); (fld_10, v_true); (fld_30, (B "nidx")); (fld_31, (B ";")); (fld_32, (B " ")); (fld_33, v_na); (fld_37, v_true); (fld_39, v_true)])]);
  (tok_159, [
    ([], Some [(fld_0, (B "tsv")); (fld_1, (bs [9]%N)); (fld_2, v_na); (fld_30, (B "pprint")); (fld_32, (B " ")); (fld_33, v_na)]);
    ([tok_1; tok_2; tok_3; tok_4], Some [(fld_0, (B "tsv")); (fld_1, (B ";")); (fld_2, (B ":")); (fld_8, v_true); (fld_9, v_true); (fld_30, (B "pprint")); (fld_32, (B " ")); (fld_33, v_na)]);
    ([tok_5; tok_2; tok_6; tok_4], Some [(fld_0, (B "tsv")); (fld_1, (bs [9]%N)); (fld_2, v_na); (fld_30, (B "pprint")); (fld_32, (B ";")); (fld_33, (B ":")); (fld_37, v_true); (fld_38, v_true)]);
    ([tok_7; tok_2; tok_8; tok_2], Some [(fld_0, (B "tsv")); (fld_1, (bs [9]%N)); (fld_2, v_na); (fld_3, (B ";")); (fld_10, v_true); (fld_30, (B "pprint")); (fld_31, (B ";")); (fld_32, (B " ")); (fld_33, v_na); (fld_39, v_true)])]);
  (tok_160, [
    ([], Some [(fld_0, (B "tsv")); (fld_1, (bs [9]%N)); (fld_2, v_na); (fld_30, (B "xtab")); (fld_31, (bs [10;10]%N)); (fld_32, (bs [10]%N)); (fld_33, (B " "))]);
    ([tok_1; tok_2; tok_3; tok_4], Some [(fld_0, (B "tsv")); (fld_1, (B ";")); (fld_2, (B ":")); (fld_8, v_true); (fld_9, v_true); (fld_30, (B "xtab")); (fld_31, (bs [10;10]%N)); (fld_32, (bs [10]%N)); (fld_33, (B " "))]);
    ([tok_5; tok_2; tok_6; tok_4], Some [(fld_0, (B "tsv")); (fld_1, (bs [9]%N)); (fld_2, v_na); (fld_30, (B "xtab")); (fld_31, (bs [10;10]%N)); (fld_32, (B ";")); (fld_33, (B ":")); (fld_37, v_true); (fld_38, v_true)]);
    ([tok_7; tok_2; tok_8; tok_2], Some [(fld_0, (B "tsv")); (fld_1, (bs [9]%N)); (fld_2, v_na); (fld_3, (B ";")); (fld_10, v_true); (fld_30, (B "xtab")); (fld_31, (B ";")); (fld_32, (bs [10]%N)); (fld_33, (B " ")); (fld_39, v_true)])]);
  (tok_161, [
    ([], Some [(fld_0, (B "tsv")); (fld_1, (bs [9]%N)); (fld_2, v_na); (fld_30, (B "yaml")); (fld_31, v_na); (fld_32, v_na); (fld_33, v_na); (fld_65, v_false); (fld_66, v_true)]);
    ([tok_1; tok_2; tok_3; tok_4], Some [(fld_0, (B "tsv")); (fld_1, (B ";")); (fld_2, (B ":")); (fld_8, v_true); (fld_9, v_true); (fld_30, (B "yaml")); (fld_31, v_na); (fld_32, v_na); (fld_33, v_na); (fld_65, v_false); (fld_66, v_true)]);
    ([tok_5; tok_2; tok_6; tok_4], Some [(fld_0, (B "tsv")); (fld_1, (bs [9]%N)); (fld_2, v_na); (fld_30, (B "yaml")); (fld_31, v_na); (fld_32, (B ";")); (fld_33, (B ":")); (fld_37, v_true); (fld_38, v_true); (fld_65, v_false); (fld_66, v_true)]);
    ([tok_7; tok_2; tok_8; tok_2], Some [(fld_0, (B "tsv")); (fld_1, (bs [9]%N)); (fld_2, v_na); (fld_3, (B ";")); (fld_10, v_true); (fld_30, (B "yaml")); (fld_31, (B ";")); (fld_32, v_na); (fld_33, v_na); (fld_39, v_true); (fld_65, v_false); (fld_66, v_true)])]);
  (tok_162, [
    ([], Some [(fld_0, (B "xtab")); (fld_1, (bs [10]%N)); (fld_2, (B " ")); (fld_3, (bs [10;10]%N)); (fld_30, (B "pprint")); (fld_32, (B " ")); (fld_33, v_na); (fld_41, v_true)]);
    ([tok_1; tok_2; tok_3; tok_4], Some [(fld_0, (B "xtab")); (fld_1, (B ";")); (fld_2, (B ":")); (fld_3, (bs [10;10]%N)); (fld_8, v_true); (fld_9, v_true); (fld_30, (B "pprint")); (fld_32, (B " ")); (fld_33, v_na); (fld_41, v_true)]);
    ([tok_5; tok_2; tok_6; tok_4], Some [(fld_0, (B "xtab")); (fld_1, (bs [10]%N)); (fld_2, (B " ")); (fld_3, (bs [10;10]%N)); (fld_30, (B "pprint")); (fld_32, (B ";")); (fld_33, (B ":")); (fld_37, v_true); (fld_38, v_true); (fld_41, v_true)]);
    ([tok_7; tok_2; tok_8; tok_2], Some [(fld_0, (B "xtab")); (fld_1, (bs [10]%N)); (fld_2, (B " ")); (fld_3, (B ";")); (fld_10, v_true); (fld_30, (B "pprint")); (fld_31, (B ";")); (fld_32, (B " ")); (fld_33, v_na); (fld_39, v_true); (fld_41, v_true)])]);
  (tok_163, [
    ([], Some [(fld_0, (B "xtab")); (fld_1, (bs [10]%N)); (fld_2, (B " ")); (fld_3, (bs [10;10]%N)); (fld_30, (B "csv")); (fld_33, v_na); (fld_39, v_true)]);
    ([tok_1; tok_2; tok_3; tok_4], Some [(fld_0, (B "xtab")); (fld_1, (B ";")); (fld_2, (B ":")); (fld_3, (bs [10;10]%N)); (fld_8, v_true); (fld_9, v_true); (fld_30, (B "csv")); (fld_33, v_na); (fld_39, v_true)]);
    ([tok_5; tok_2; tok_6; tok_4], Some [(fld_0, (B "xtab")); (fld_1, (bs [10]%N)); (fld_2, (B " ")); (fld_3, (bs [10;10]%N)); (fld_30, (B "csv")); (fld_32, (B ";")); (fld_33, (B ":")); (fld_37, v_true); (fld_38, v_true); (fld_39, v_true)]);
    ([tok_7; tok_2; tok_8; tok_2], Some [(fld_0, (B "xtab")); (fld_1, (bs [10]%N)); (fld_2, (B " ")); (fld_3, (B ";")); (fld_10, v_true); (fld_30, (B "csv")); (fld_31, (B ";")); (fld_33, v_na); (fld_39, v_true)])]);
  (tok_164, [
    ([], Some [(fld_0, (B "xtab")); (fld_1, (bs [10]%N)); (fld_2, (B " ")); (fld_3, (bs [10;10]%N))]);
    ([tok_1; tok_2; tok_3; tok_4], Some [(fld_0, (B "xtab")); (fld_1, (B ";")); (fld_2, (B ":")); (fld_3, (bs [10;10]%N)); (fld_8, v_true); (fld_9, v_true)]);
    ([tok_5; tok_2; tok_6; tok_4], Some [(fld_0, (B "xtab")); (fld_1, (bs [10]%N)); (fld_2, (B " ")); (fld_3, (bs [10;10]%N)); (fld_32, (B ";")); (fld_33, (B ":")); (fld_37, v_true); (fld_38, v_true)]);
    ([tok_7; tok_2; tok_8; tok_2], Some [(fld_0, (B "xtab")); (fld_1, (bs [10]%N)); (fld_2, (B " ")); (fld_3, (B ";")); (fld_10, v_true); (fld_31, (B ";")); (fld_39, v_true)])]);
  (tok_165, [
    ([], Some [(fld_0, (B "xtab")); (fld_1, (bs [10]%N)); (fld_2, (B " ")); (fld_3, (bs [10;10]%N)); (fld_30, (B "json")); (fld_31, v_na); (fld_32, v_na); (fld_33, v_na); (fld_65, v_false); (fld_66, v_true)]);
    ([tok_1; tok_2; tok_3; tok_4], Some [(fld_0, (B "xtab")); (fld_1, (B ";")); (fld_2, (B ":")); (fld_3, (bs [10;10]%N)); (fld_8, v_true); (fld_9, v_true); (fld_30, (B "json")); (fld_31, v_na); (fld_32, v_na); (fld_33, v_na); (fld_65, v_false); (fld_66, v_true)]);
    ([tok_5; tok_2; tok_6; tok_4], Some [(fld_0, (B "xtab")); (fld_1, (bs [10]%N)); (fld_2, (B " ")); (fld_3, (bs [10;10]%N)); (fld_30, (B "json")); (fld_31, v_na); (fld_32, (B ";")); (fld_33, (B ":")); (fld_37, v_true); (fld_38, v_true); (fld_65, v_false); (fld_66, v_true)]);
    ([tok_7; tok_2; tok_8; tok_2], Some [(fld_0, (B "xtab")); (fld_1, (bs [10]%N)); (fld_2, (B " ")); (fld_3, (B ";")); (fld_10, v_true); (fld_30, (B "json")); (fld_31, (B ";")); (fld_32, v_na); (fld_33, v_na); (fld_39, v_true); (fld_65, v_false); (fld_66, v_true)])]);
  (tok_166, [
    ([], Some [(fld_0, (B "xtab")); (fld_1, (bs [10]%N)); (fld_2, (B " ")); (fld_3, (bs [10;10]%N)); (fld_30, (B "jsonl")); (fld_31, (B "")); (fld_32, (B "")); (fld_33, (B "")); (fld_65, v_false); (fld_66, v_true)]);
    ([tok_1; tok_2; tok_3; tok_4], Some [(fld_0, (B "xtab")); (fld_1, (B ";")); (fld_2, (B ":")); (fld_3, (bs [10;10]%N)); (fld_8, v_true); (fld_9, v_true); (fld_30, (B "jsonl")); (fld_31, (B "")); (fld_32, (B "")); (fld_33, (B "")); (fld_65, v_false); (fld_66, v_true)]);
    ([tok_5; tok_2; tok_6; tok_4], Some [(fld_0, (B "xtab")); (fld_1, (bs [10]%N)); (fld_2, (B " ")); (fld_3, (bs [10;10]%N)); (fld_30, (B "jsonl")); (fld_31, (B "")); (fld_32, (B ";")); (fld_33, (B ":")); (fld_37, v_true); (fld_38, v_true); (fld_65, v_false); (fld_66, v_true)]);
    ([tok_7; tok_2; tok_8; tok_2], Some [(fld_0, (B "xtab")); (fld_1, (bs [10]%N)); (fld_2, (B " ")); (fld_3, (B ";")); (fld_10, v_true); (fld_30, (B "jsonl")); (fld_31, (B ";")); (fld_32, (B "")); (fld_33, (B "")); (fld_39, v_true); (fld_65, v_false); (fld_66, v_true)])]);
  (tok_167, [
    ([], Some [(fld_0, (B "xtab")); (fld_1, (bs [10]%N)); (fld_2, (B " ")); (fld_3, (bs [10;10]%N)); (fld_30, (B "markdown")); (fld_32, (B " ")); (fld_33, v_na)]);
    ([tok_1; tok_2; tok_3; tok_4], Some [(fld_0, (B "xtab")); (fld_1, (B ";")); (fld_2, (B ":")); (fld_3, (bs [10;10]%N)); (fld_8, v_true); (fld_9, v_true); (fld_30, (B "markdown")); (fld_32, (B " ")); (fld_33, v_na)]);
    ([tok_5; tok_2; tok_6; tok_4], Some [(fld_0, (B "xtab")); (fld_1, (bs [10]%N)); (fld_2, (B " ")); (fld_3, (bs [10;10]%N)); (fld_30, (B "markdown")); (fld_32, (B ";")); (fld_33, (B ":")); (fld_37, v_true); (fld_38, v_true)]);
    ([tok_7; tok_2; tok_8; tok_2], Some [(fld_0, (B "xtab")); (fld_1, (bs [10]%N)); (fld_2, (B " ")); (fld_3, (B ";")); (fld_10, v_true); (fld_30, (B "markdown")); (fld_31, (B ";")); (fld_32, (B " ")); (fld_33, v_na); (fld_39, v_true)])]);
  (tok_168, [
    ([], Some [(fld_0, (B "xtab")); (fld_1, (bs [10]%N)); (fld_2, (B " ")); (fld_3, (bs [10;10]%N)); (fld_30, (B "nidx")); (fld_32, (B " ")); (fld_33, v_na); (fld_37, v_true)]);
    ([tok_1; tok_2; tok_3; tok_4], Some [(fld_0, (B "xtab")); (fld_1, (B ";")); (fld_2, (B ":")); (fld_3, (bs [10;10]%N)); (fld_8, v_true); (fld_9, v_true); (fld_30, (B "nidx")); (fld_32, (B " ")); (fld_33, v_na); (fld_37, v_true)]);
    ([tok_5; tok_2; tok_6; tok_4], Some [(fld_0, (B "xtab")); (fld_1, (bs [10]%N)); (fld_2, (B " ")); (fld_3, (bs [10;10]%N)); (fld_30, (B "nidx")); (fld_32, (B ";")); (fld_33, (B ":")); (fld_37, v_true); (fld_38, v_true)]);
    ([tok_7; tok_2; tok_8; tok_2], Some [(fld_0, (B "xtab")); (fld_1, (bs [10]%N)); (fld_2, (B " ")); (fld_3, (B ";")); (fld_10, v_true); (fld_30, (B "nidx")); (fld_31, (B ";")); (fld_32, (B " ")); (fld_33, v_na); (fld_37, v_true); (fld_39, v_true)])]);
  (tok_169, [
    ([], Some [(fld_0, (B "xtab")); (fld_1, (bs [10]%N)); (fld_2, (B " ")); (fld_3, (bs [10;10]%N)); (fld_30, (B "pprint")); (fld_32, (B " ")); (fld_33, v_na)]);
    ([tok_1; tok_2; tok_3; tok_4], Some [(fld_0, (B "xtab")); (fld_1, (B ";")); (fld_2, (B ":")); (fld_3, (bs [10;10]%N)); (fld_8, v_true); (fld_9, v_true); (fld_30, (B "pprint")); (fld_32, (B " ")); (fld_33, v_na)]);
    ([tok_5; tok_2; tok_6; tok_4], Some [(fld_0, (B "xtab")); (fld_1, (bs [10]%N)); (fld_2, (B " ")); (fld_3, (bs [10;10]%N)); (fld_30, (B "pprint")); (fld_32, (B ";")); (fld_33, (B ":")); (fld_37, v_true); (fld_38, v_true)]);
    ([tok_7; tok_2; tok_8; tok_2], Some [(fld_0, (B "xtab")); (fld_1, (bs [10]%N)); (fld_2, (B " ")); (fld_3, (B ";")); (fld_10, v_true); (fld_30, (B "pprint")); (fld_31, (B ";")); (fld_32, (B " ")); (fld_33, v_na); (fld_39, v_true)])]);
  (tok_170, [
    ([], Some [(fld_0, (B "xtab")); (fld_1, (bs [10]%N)); (fld_2, (B " ")); (fld_3, (bs [10;10]%N)); (fld_30, (B "tsv")); (fld_32, (bs [9]%N)); (fld_33, v_na); (fld_37, v_true)]);
    ([tok_1; tok_2; tok_3; tok_4], Some [(fld_0, (B "xtab")); (fld_1, (B ";")); (fld_2, (B ":")); (fld_3, (bs [10;10]%N)); (fld_8, v_true); (fld_9, v_true); (fld_30, (B "tsv")); (fld_32, (bs [9]%N)); (fld_33, v_na); (fld_37, v_true)]);
    ([tok_5; tok_2; tok_6; tok_4], Some [(fld_0, (B "xtab")); (fld_1, (bs [10]%N)); (fld_2, (B " ")); (fld_3, (bs [10;10]%N)); (fld_30, (B "tsv")); (fld_32, (B ";")); (fld_33, (B ":")); (fld_37, v_true); (fld_38, v_true)]);
    ([tok_7; tok_2; tok_8; tok_2], Some [(fld_0, (B "xtab")); (fld_1, (bs [10]%N)); (fld_2, (B " ")); (fld_3, (B ";")); (fld_10, v_true); (fld_30, (B "tsv")); (fld_31, (B ";")); (fld_32, (bs [9]%N)); (fld_33, v_na); (fld_37, v_true); (fld_39, v_true)])]);
  (tok_171, [
    ([], Some [(fld_0, (B "xtab")); (fld_1, (bs [10]%N)); (fld_2, (B " ")); (fld_3, (bs [10;10]%N)); (fld_30, (B "yaml")); (fld_31, v_na); (fld_32, v_na); (fld_33, v_na); (fld_65, v_false); (fld_66, v_true)]);
    ([tok_1; tok_2; tok_3; tok_4], Some [(fld_0, (B "xtab")); (fld_1, (B ";")); (fld_2, (B ":")); (fld_3, (bs [10;10]%N)); (fld_8, v_true); (fld_9, v_true); (fld_30, (B "yaml")); (fld_31, v_na); (fld_32, v_na); (fld_33, v_na); (fld_65, v_false); (fld_66, v_true)]);
    ([tok_5; tok_2; tok_6; tok_4], Some [(fld_0, (B "xtab")); (fld_1, (bs [10]%N)); (fld_2, (B " ")); (fld_3, (bs [10;10]%N)); (fld_30, (B "yaml")); (fld_31, v_na); (fld_32, (B ";")); (fld_33, (B ":")); (fld_37, v_true); (fld_38, v_true); (fld_65, v_false); (fld_66, v_true)]);
    ([tok_7; tok_2; tok_8; tok_2], Some [(fld_0, (B "xtab")); (fld_1, (bs [10]%N)); (fld_2, (B " ")); (fld_3, (B ";")); (fld_10, v_true); (fld_30, (B "yaml")); (fld_31, (B ";")); (fld_32, v_na); (fld_33, v_na); (fld_39, v_true); (fld_65, v_false); (fld_66, v_true)])]);
  (tok_172, [
    ([], Some [(fld_0, (B "yaml")); (fld_1, v_na); (fld_2, v_na); (fld_3, v_na); (fld_30, (B "csv")); (fld_33, v_na); (fld_39, v_true)]);
    ([tok_1; tok_2; tok_3; tok_4], Some [(fld_0, (B "yaml")); (fld_1, (B ";")); (fld_2, (B ":")); (fld_3, v_na); (fld_8, v_true); (fld_9, v_true); (fld_30, (B "csv")); (fld_33, v_na); (fld_39, v_true)]);
    ([tok_5; tok_2; tok_6; tok_4], Some [(fld_0, (B "yaml")); (fld_1, v_na); (fld_2, v_na); (fld_3, v_na); (fld_30, (B "csv")); (fld_32, (B ";")); (fld_33, (B ":")); (fld_37, v_true); (fld_38, v_true); (fld_39, v_true)]);
    ([tok_7; tok_2; tok_8; tok_2], Some [(fld_0, (B "yaml")); (fld_1, v_na); (fld_2, v_na); (fld_3, (B ";")); (fld_10, v_true); (fld_30, (B "csv")); (fld_31, (B ";")); (fld_33, v_na); (fld_39, v_true)])]);
  (tok_173, [
    ([], Some [(fld_0, (B "yaml")); (fld_1, v_na); (fld_2, v_na); (fld_3, v_na)]);
    ([tok_1; tok_2; tok_3; tok_4], Some [(fld_0, (B "yaml")); (fld_1, (B ";")); (fld_2, (B ":")); (fld_3, v_na); (fld_8, v_true); (fld_9, v_true)]);
    ([tok_5; tok_2; tok_6; tok_4], Some [(fld_0, (B "yaml")); (fld_1, v_na); (fld_2, v_na); (fld_3, v_na); (fld_32, (B ";")); (fld_33, (B ":")); (fld_37, v_true); (fld_38, v_true)]);
    ([tok_7; tok_2; tok_8; tok_2], Some [(fld_0, (B "yaml")); (fld_1, v_na); (fld_2, v_na); (fld_3, (B ";")); (fld_10, v_true); (fld_31, (B ";")); (fld_39, v_true)])]);
  (tok_174, [
    ([], Some [(fld_0, (B "yaml")); (fld_1, v_na); (fld_2, v_na); (fld_3, v_na); (fld_30, (B "json")); (fld_31, v_na); (fld_32, v_na); (fld_33, v_na); (fld_65, v_false)]);
    ([tok_1; tok_2; tok_3; tok_4], Some [(fld_0, (B "yaml")); (fld_1, (B ";")); (fld_2, (B ":")); (fld_3, v_na); (fld_8, v_true); (fld_9, v_true); (fld_30, (B "json")); (fld_31, v_na); (fld_32, v_na); (fld_33, v_na); (fld_65, v_false)]);
    ([tok_5; tok_2; tok_6; tok_4], Some [(fld_0, (B "yaml")); (fld_1, v_na); (fld_2, v_na); (fld_3, v_na); (fld_30, (B "json")); (fld_31, v_na); (fld_32, (B ";")); (fld_33, (B ":")); (fld_37, v_true); (fld_38, v_true); (fld_65, v_false)]);
    ([tok_7; tok_2; tok_8; tok_2], Some [(fld_0, (B "yaml")); (fld_1, v_na); (fld_2, v_na); (fld_3, (B ";")); (fld_10, v_true); (fld_30, (B "json")); (fld_31, (B ";")); (fld_32, v_na); (fld_33, v_na); (fld_39, v_true); (fld_65, v_false)])]);
  (tok_175, [
    ([], Some [(fld_0, (B "yaml")); (fld_1, v_na); (fld_2, v_na); (fld_3, v_na); (fld_30, (B "jsonl")); (fld_31, (B "")); (fld_32, (B "")); (fld_33, (B "")); (fld_65, v_false)]);
    ([tok_1; tok_2; tok_3; tok_4], Some [(fld_0, (B "yaml")); (fld_1, (B ";")); (fld_2, (B ":")); (fld_3, v_na); (fld_8, v_true); (fld_9, v_true); (fld_30, (B "jsonl")); (fld_31, (B "")); (fld_32, (B "")); (fld_33, (B "")); (fld_65, v_false)]);
    ([tok_5; tok_2; tok_6; tok_4], Some [(fld_0, (B "yaml")); (fld_1, v_na); (fld_2, v_na); (fld_3, v_na); (fld_30, (B "jsonl")); (fld_31, (B "")); (fld_32, (B ";")); (fld_33, (B ":")); (fld_37, v_true); (fld_38, v_true); (fld_65, v_false)]);
    ([tok_7; tok_2; tok_8; tok_2], Some [(fld_0, (B "yaml")); (fld_1, v_na); (fld_2, v_na); (fld_3, (B ";")); (fld_10, v_true); (fld_30, (B "jsonl")); (fld_31, (B ";")); (fld_32, (B "")); (fld_33, (B "")); (fld_39, v_true); (fld_65, v_false)])]);
  (tok_176, [
    ([], Some [(fld_0, (B "yaml")); (fld_1, v_na); (fld_2, v_na); (fld_3, v_na); (fld_30, (B "markdown")); (fld_32, (B " ")); (fld_33, v_na)]);
    ([tok_1; tok_2; tok_3; tok_4], Some [(fld_0, (B "yaml")); (fld_1, (B ";")); (fld_2, (B ":")); (fld_3, v_na); (fld_8, v_true); (fld_9, v_true); (fld_30, (B "markdown")); (fld_32, (B " ")); (fld_33, v_na)]);
    ([tok_5; tok_2; tok_6; tok_4], Some [(fld_0, (B "yaml")); (fld_1, v_na); (fld_2, v_na); (fld_3, v_na); (fld_30, (B "markdown")); (fld_32, (B ";")); (fld_33, (B ":")); (fld_37, v_true); (fld_38, v_true)]);
    ([tok_7; tok_2; tok_8; tok_2], Some [(fld_0, (B "yaml")); (fld_1, v_na); (fld_2, v_na); (fld_3, (B ";")); (fld_10, v_true); (fld_30, (B "markdown")); (fld_31, (B ";")); (fld_32, (B " ")); (fld_33, v_na); (fld_39, v_true)])]);
  (tok_177, [
    ([], Some [(fld_0, (B "yaml")); (fld_1, v_na); (fld_2, v_na); (fld_3, v_na); (fld_30, (B "nidx")); (fld_32, (B " ")); (fld_33, v_na); (fld_37, v_true)]);
    ([tok_1; tok_2; tok_3; tok_4], Some [(fld_0, (B "yaml")); (fld_1, (B ";")); (fld_2, (B ":")); (fld_3, v_na); (fld_8, v_true); (fld_9, v_true); (fld_30, (B "nidx")); (fld_32, (B " ")); (fld_33, v_na); (fld_37, v_true)]);
    ([tok_5; tok_2; tok_6; tok_4], Some [(fld_0, (B "yaml")); (fld_1, v_na); (fld_2, v_na); (fld_3, v_na); (fld_30, (B "nidx")); (fld_32, (B ";")); (fld_33, (B ":")); (fld_37, v_true); (fld_38, v_true)]);
    ([tok_7; tok_2; tok_8; tok_2], Some [(fld_0, (B "yaml")); (fld_1, v_na); (fld_2, v_na); (fld_3, (B ";")); (fld_10, v_true); (fld_30, (B "nidx")); (fld_31, (B ";")); (fld_32, (B " ")); (fld_33, v_na); (fld_37, v_true); (fld_39, v_true)])]);
  (tok_178, [
    ([], Some [(fld_0, (B "yaml")); (fld_1, v_na); (fld_2, v_na); (fld_3, v_na); (fld_30, (B "pprint")); (fld_32, (B " ")); (fld_33, v_na)]);
    ([tok_1; tok_2; tok_3; tok_4], Some [(fld_0, (B "yaml")); (fld_1, (B ";")); (fld_2, (B ":")); (fld_3, v_na); (fld_8, v_true); (fld_9, v_true); (fld_30, (B "pprint")); (fld_32, (B " ")); (fld_33, v_na)]);
    ([tok_5; tok_2; tok_6; tok_4], Some [(fld_0, (B "yaml")); (fld_1, v_na); (fld_2, v_na); (fld_3, v_na); (fld_30, (B "pprint")); (fld_32, (B ";")); (fld_33, (B ":")); (fld_37, v_true); (fld_38, v_true)]);
    ([tok_7; tok_2; tok_8; tok_2], Some [(fld_0, (B "yaml")); (fld_1, v_na); (fld_2, v_na); (fld_3, (B ";")); (fld_10, v_true); (fld_30, (B "pprint")); (fld_31, (B ";")); (fld_32, (B " ")); (fld_33, v_na); (fld_39, v_true)])]);
  (tok_179, [
    ([], Some [(fld_0, (B "yaml")); (fld_1, v_na); (fld_2, v_na); (fld_3, v_na); (fld_30, (B "tsv")); (fld_32, (bs [9]%N)); (fld_33, v_na); (fld_37, v_true)]);
    ([tok_1; tok_2; tok_3; tok_4], Some [(fld_0, (B "yaml")); (fld_1, (B ";")); (fld_2, (B ":")); (fld_3, v_na); (fld_8, v_true); (fld_9, v_true); (fld_30, (B "tsv")); (fld_32, (bs [9]%N)); (fld_33, v_na); (fld_37, v_true)]);
    ([tok_5; tok_2; tok_6; tok_4], Some [(fld_0, (B "yaml")); (fld_1, v_na); (fld_2, v_na); (fld_3, v_na); (fld_30, (B "tsv")); (fld_32, (B ";")); (fld_33, (B ":")); (fld_37, v_true); (fld_38, v_true)]);
    ([tok_7; tok_2; tok_8; tok_2], Some [(fld_0, (B "yaml")); (fld_1, v_na); (fld_2, v_na); (fld_3, (B ";")); (fld_10, v_true); (fld_30, (B "tsv")); (fld_31, (B ";")); (fld_32, (bs [9]%N)); (fld_33, v_na); (fld_37, v_true); (fld_39, v_true)])]);
  (tok_180, [
    ([], Some [(fld_0, (B "yaml")); (fld_1, v_na); (fld_2, v_na); (fld_3, v_na); (fld_30, (B "xtab")); (fld_31, (bs [10;10]%N)); (fld_32, (bs [10]%N)); (fld_33, (B " "))]);
    ([tok_1; tok_2; tok_3; tok_4], Some [(fld_0, (B "yaml")); (fld_1, (B ";")); (fld_2, (B ":")); (fld_3, v_na); (fld_8, v_true); (fld_9, v_true); (fld_30, (B "xtab")); (fld_31, (bs [10;10]%N)); (fld_32, (bs [10]%N)); (fld_33, (B " "))]);
    ([tok_5; tok_2; tok_6; tok_4], Some [(fld_0, (B "yaml")); (fld_1, v_na); (fld_2, v_na); (fld_3, v_na); (fld_30, (B "xtab")); (fld_31, (bs [10;10]%N)); (fld_32, (B ";")); (fld_33, (B ":")); (fld_37, v_true); (fld_38, v_true)]);
    ([tok_7; tok_2; tok_8; tok_2], Some [(fld_0, (B "yaml")); (fld_1, v_na); (fld_2, v_na); (fld_3, (B ";")); (fld_10, v_true); (fld_30, (B "xtab")); (fld_31, (B ";")); (fld_32, (bs [10]%N)); (fld_33, (B " ")); (fld_39, v_true)])]);
  (tok_181, [
    ([], Some [(fld_0, (B "nidx")); (fld_1, (B " ")); (fld_2, v_na); (fld_4, v_true); (fld_8, v_true); (fld_11, v_true); (fld_30, (B "nidx")); (fld_32, (B " ")); (fld_33, v_na); (fld_37, v_true)]);
    ([tok_1; tok_2; tok_3; tok_4], Some [(fld_0, (B "nidx")); (fld_1, (B ";")); (fld_2, (B ":")); (fld_4, v_true); (fld_8, v_true); (fld_9, v_true); (fld_11, v_true); (fld_30, (B "nidx")); (fld_32, (B " ")); (fld_33, v_na); (fld_37, v_true)]);
    ([tok_5; tok_2; tok_6; tok_4], Some [(fld_0, (B "nidx")); (fld_1, (B " ")); (fld_2, v_na); (fld_4, v_true); (fld_8, v_true); (fld_11, v_true); (fld_30, (B "nidx")); (fld_32, (B ";")); (fld_33, (B ":")); (fld_37, v_true); (fld_38, v_true)]);
    ([tok_7; tok_2; tok_8; tok_2], Some [(fld_0, (B "nidx")); (fld_1, (B " ")); (fld_2, v_na); (fld_3, (B ";")); (fld_4, v_true); (fld_8, v_true); (fld_10, v_true); (fld_11, v_true); (fld_30, (B "nidx")); (fld_31, (B ";")); (fld_32, (B " ")); (fld_33, v_na); (fld_37, v_true); (fld_39, v_true)])]);
  (tok_182, [
    ([], Some [(fld_0, (B "nidx")); (fld_1, (bs [9]%N)); (fld_2, v_na); (fld_8, v_true); (fld_30, (B "nidx")); (fld_32, (bs [9]%N)); (fld_33, v_na); (fld_37, v_true)]);
    ([tok_1; tok_2; tok_3; tok_4], Some [(fld_0, (B "nidx")); (fld_1, (B ";")); (fld_2, (B ":")); (fld_8, v_true); (fld_9, v_true); (fld_30, (B "nidx")); (fld_32, (bs [9]%N)); (fld_33, v_na); (fld_37, v_true)]);
    ([tok_5; tok_2; tok_6; tok_4], Some [(fld_0, (B "nidx")); (fld_1, (bs [9]%N)); (fld_2, v_na); (fld_8, v_true); (fld_30, (B "nidx")); (fld_32, (B ";")); (fld_33, (B ":")); (fld_37, v_true); (fld_38, v_true)]);
    ([tok_7; tok_2; tok_8; tok_2], Some [(fld_0, (B "nidx")); (fld_1, (bs [9]%N)); (fld_2, v_na); (fld_3, (B ";")); (fld_8, v_true); (fld_10, v_true); (fld_30, (B "nidx")); (fld_31, (B ";")); (fld_32, (bs [9]%N)); (fld_33, v_na); (fld_37, v_true); (fld_39, v_true)])]);
  (tok_183, [
    ([], Some []);
    ([tok_1; tok_2; tok_3; tok_4], Some [(fld_1, (B ";")); (fld_2, (B ":")); (fld_8, v_true); (fld_9, v_true)]);
    ([tok_5; tok_2; tok_6; tok_4], Some [(fld_32, (B ";")); (fld_33, (B ":")); (fld_37, v_true); (fld_38, v_true)]);
    ([tok_7; tok_2; tok_8; tok_2], Some [(fld_3, (B ";")); (fld_10, v_true); (fld_31, (B ";")); (fld_39, v_true)])]);
  (tok_184, [
    ([], Some []);
    ([tok_1; tok_2; tok_3; tok_4], Some [(fld_1, (B ";")); (fld_2, (B ":")); (fld_8, v_true); (fld_9, v_true)]);
    ([tok_5; tok_2; tok_6; tok_4], Some [(fld_32, (B ";")); (fld_33, (B ":")); (fld_37, v_true); (fld_38, v_true)]);
    ([tok_7; tok_2; tok_8; tok_2], Some [(fld_3, (B ";")); (fld_10, v_true); (fld_31, (B ";")); (fld_39, v_true)])]);
  (tok_185, [
    ([], Some []);
    ([tok_1; tok_2; tok_3; tok_4], Some [(fld_1, (B ";")); (fld_2, (B ":")); (fld_8, v_true); (fld_9, v_true)]);
    ([tok_5; tok_2; tok_6; tok_4], Some [(fld_32, (B ";")); (fld_33, (B ":")); (fld_37, v_true); (fld_38, v_true)]);
    ([tok_7; tok_2; tok_8; tok_2], Some [(fld_3, (B ";")); (fld_10, v_true); (fld_31, (B ";")); (fld_39, v_true)])]);
  (tok_186, [
    ([], Some []);
    ([tok_1; tok_2; tok_3; tok_4], Some [(fld_1, (B ";")); (fld_2, (B ":")); (fld_8, v_true); (fld_9, v_true)]);
    ([tok_5; tok_2; tok_6; tok_4], Some [(fld_32, (B ";")); (fld_33, (B ":")); (fld_37, v_true); (fld_38, v_true)]);
    ([tok_7; tok_2; tok_8; tok_2], Some [(fld_3, (B ";")); (fld_10, v_true); (fld_31, (B ";")); (fld_39, v_true)])]);
  (tok_187, [
    ([], Some []);
    ([tok_1; tok_2; tok_3; tok_4], Some [(fld_1, (B ";")); (fld_2, (B ":")); (fld_8, v_true); (fld_9, v_true)]);
    ([tok_5; tok_2; tok_6; tok_4], Some [(fld_32, (B ";")); (fld_33, (B ":")); (fld_37, v_true); (fld_38, v_true)]);
    ([tok_7; tok_2; tok_8; tok_2], Some [(fld_3, (B ";")); (fld_10, v_true); (fld_31, (B ";")); (fld_39, v_true)])]);
  (tok_188, [
    ([], Some []);
    ([tok_1; tok_2; tok_3; tok_4], Some [(fld_1, (B ";")); (fld_2, (B ":")); (fld_8, v_true); (fld_9, v_true)]);
    ([tok_5; tok_2; tok_6; tok_4], Some [(fld_32, (B ";")); (fld_33, (B ":")); (fld_37, v_true); (fld_38, v_true)]);
    ([tok_7; tok_2; tok_8; tok_2], Some [(fld_3, (B ";")); (fld_10, v_true); (fld_31, (B ";")); (fld_39, v_true)])]);
  (tok_189, [
    ([], Some []);
    ([tok_1; tok_2; tok_3; tok_4], Some [(fld_1, (B ";")); (fld_2, (B ":")); (fld_8, v_true); (fld_9, v_true)]);
    ([tok_5; tok_2; tok_6; tok_4], Some [(fld_32, (B ";")); (fld_33, (B ":")); (fld_37, v_true); (fld_38, v_true)]);
    ([tok_7; tok_2; tok_8; tok_2], Some [(fld_3, (B ";")); (fld_10, v_true); (fld_31, (B ";")); (fld_39, v_true)])]);
  (tok_190, [
    ([], Some []);
    ([tok_1; tok_2; tok_3; tok_4], Some [(fld_1, (B ";")); (fld_2, (B ":")); (fld_8, v_true); (fld_9, v_true)]);
    ([tok_5; tok_2; tok_6; tok_4], Some [(fld_32, (B ";")); (fld_33, (B ":")); (fld_37, v_true); (fld_38, v_true)]);
    ([tok_7; tok_2; tok_8; tok_2], Some [(fld_3, (B ";")); (fld_10, v_true); (fld_31, (B ";")); (fld_39, v_true)])]);
  (tok_191, [
    ([], Some []);
    ([tok_1; tok_2; tok_3; tok_4], Some [(fld_1, (B ";")); (fld_2, (B ":")); (fld_8, v_true); (fld_9, v_true)]);
    ([tok_5; tok_2; tok_6; tok_4], Some [(fld_32, (B ";")); (fld_33, (B ":")); (fld_37, v_true); (fld_38, v_true)]);
    ([tok_7; tok_2; tok_8; tok_2], Some [(fld_3, (B ";")); (fld_10, v_true); (fld_31, (B ";")); (fld_39, v_true)])]);
  (tok_192, [
    ([], Some []);
    ([tok_1; tok_2; tok_3; tok_4], Some [(fld_1, (B ";")); (fld_2, (B ":")); (fld_8, v_true); (fld_9, v_true)]);
    ([tok_5; tok_2; tok_6; tok_4], Some [(fld_32, (B ";")); (fld_33, (B ":")); (fld_37, v_true); (fld_38, v_true)]);
    ([tok_7; tok_2; tok_8; tok_2], Some [(fld_3, (B ";")); (fld_10, v_true); (fld_31, (B ";")); (fld_39, v_true)])]);
  (tok_193, [
    ([], Some []);
    ([tok_1; tok_2; tok_3; tok_4], Some [(fld_1, (B ";")); (fld_2, (B ":")); (fld_8, v_true); (fld_9, v_true)]);
    ([tok_5; tok_2; tok_6; tok_4], Some [(fld_32, (B ";")); (fld_33, (B ":")); (fld_37, v_true); (fld_38, v_true)]);
    ([tok_7; tok_2; tok_8; tok_2], Some [(fld_3, (B ";")); (fld_10, v_true); (fld_31, (B ";")); (fld_39, v_true)])]);
  (tok_194, [
    ([], Some []);
    ([tok_1; tok_2; tok_3; tok_4], Some [(fld_1, (B ";")); (fld_2, (B ":")); (fld_8, v_true); (fld_9, v_true)]);
    ([tok_5; tok_2; tok_6; tok_4], Some [(fld_32, (B ";")); (fld_33, (B ":")); (fld_37, v_true); (fld_38, v_true)]);
    ([tok_7; tok_2; tok_8; tok_2], Some [(fld_3, (B ";")); (fld_10, v_true); (fld_31, (B ";")); (fld_39, v_true)])]);
  (tok_195, [
    ([], Some []);
    ([tok_1; tok_2; tok_3; tok_4], Some [(fld_1, (B ";")); (fld_2, (B ":")); (fld_8, v_true); (fld_9, v_true)]);
    ([tok_5; tok_2; tok_6; tok_4], Some [(fld_32, (B ";")); (fld_33, (B ":")); (fld_37, v_true); (fld_38, v_true)]);
    ([tok_7; tok_2; tok_8; tok_2], Some [(fld_3, (B ";")); (fld_10, v_true); (fld_31, (B ";")); (fld_39, v_true)])]);
  (tok_196, [
    ([], Some []);
    ([tok_1; tok_2; tok_3; tok_4], Some [(fld_1, (B ";")); (fld_2, (B ":")); (fld_8, v_true); (fld_9, v_true)]);
    ([tok_5; tok_2; tok_6; tok_4], Some [(fld_32, (B ";")); (fld_33, (B ":")); (fld_37, v_true); (fld_38, v_true)]);
    ([tok_7; tok_2; tok_8; tok_2], Some [(fld_3, (B ";")); (fld_10, v_true); (fld_31, (B ";")); (fld_39, v_true)])]);
  (tok_197, [
    ([], Some [(fld_0, (B "markdown")); (fld_1, (B " ")); (fld_2, v_na); (fld_30, (B "markdown")); (fld_32, (B " ")); (fld_33, v_na); (fld_45, v_true)]);
    ([tok_1; tok_2; tok_3; tok_4], Some [(fld_0, (B "markdown")); (fld_1, (B ";")); (fld_2, (B ":")); (fld_8, v_true); (fld_9, v_true); (fld_30, (B "markdown")); (fld_32, (B " ")); (fld_33, v_na); (fld_45, v_true)]);
    ([tok_5; tok_2; tok_6; tok_4], Some [(fld_0, (B "markdown")); (fld_1, (B " ")); (fld_2, v_na); (fld_30, (B "markdown")); (fld_32, (B ";")); (fld_33, (B ":")); (fld_37, v_true); (fld_38, v_true); (fld_45, v_true)]);
    ([tok_7; tok_2; tok_8; tok_2], Some [(fld_0, (B "markdown")); (fld_1, (B " ")); (fld_2, v_na); (fld_3, (B ";")); (fld_10, v_true); (fld_30, (B "markdown")); (fld_31, (B ";")); (fld_32, (B " ")); (fld_33, v_na); (fld_39, v_true); (fld_45, v_true)])]);
  (tok_198, [
    ([], Some [(fld_0, (B "markdown")); (fld_1, (B " ")); (fld_2, v_na); (fld_30, (B "markdown")); (fld_32, (B " ")); (fld_33, v_na); (fld_45, v_true)]);
    ([tok_1; tok_2; tok_3; tok_4], Some [(fld_0, (B "markdown")); (fld_1, (B ";")); (fld_2, (B ":")); (fld_8, v_true); (fld_9, v_true); (fld_30, (B "markdown")); (fld_32, (B " ")); (fld_33, v_na); (fld_45, v_true)]);
    ([tok_5; tok_2; tok_6; tok_4], Some [(fld_0, (B "markdown")); (fld_1, (B " ")); (fld_2, v_na); (fld_30, (B "markdown")); (fld_32, (B ";")); (fld_33, (B ":")); (fld_37, v_true); (fld_38, v_true); (fld_45, v_true)]);
    ([tok_7; tok_2; tok_8; tok_2], Some [(fld_0, (B "markdown")); (fld_1, (B " ")); (fld_2, v_na); (fld_3, (B ";")); (fld_10, v_true); (fld_30, (B "markdown")); (fld_31, (B ";")); (fld_32, (B " ")); (fld_33, v_na); (fld_39, v_true); (fld_45, v_true)])]);
  (tok_199, [
    ([], Some [(fld_30, (B "markdown")); (fld_32, (B " ")); (fld_33, v_na); (fld_45, v_true)]);
    ([tok_1; tok_2; tok_3; tok_4], Some [(fld_1, (B ";")); (fld_2, (B ":")); (fld_8, v_true); (fld_9, v_true); (fld_30, (B "markdown")); (fld_32, (B " ")); (fld_33, v_na); (fld_45, v_true)]);
    ([tok_5; tok_2; tok_6; tok_4], Some [(fld_30, (B "markdown")); (fld_32, (B ";")); (fld_33, (B ":")); (fld_37, v_true); (fld_38, v_true); (fld_45, v_true)]);
    ([tok_7; tok_2; tok_8; tok_2], Some [(fld_3, (B ";")); (fld_10, v_true); (fld_30, (B "markdown")); (fld_31, (B ";")); (fld_32, (B " ")); (fld_33, v_na); (fld_39, v_true); (fld_45, v_true)])]);
  (tok_200, [
    ([], Some [(fld_30, (B "markdown")); (fld_32, (B " ")); (fld_33, v_na); (fld_45, v_true)]);
    ([tok_1; tok_2; tok_3; tok_4], Some [(fld_1, (B ";")); (fld_2, (B ":")); (fld_8, v_true); (fld_9, v_true); (fld_30, (B "markdown")); (fld_32, (B " ")); (fld_33, v_na); (fld_45, v_true)]);
    ([tok_5; tok_2; tok_6; tok_4], Some [(fld_30, (B "markdown")); (fld_32, (B ";")); (fld_33, (B ":")); (fld_37, v_true); (fld_38, v_true); (fld_45, v_true)]);
    ([tok_7; tok_2; tok_8; tok_2], Some [(fld_3, (B ";")); (fld_10, v_true); (fld_30, (B "markdown")); (fld_31, (B ";")); (fld_32, (B " ")); (fld_33, v_na); (fld_39, v_true); (fld_45, v_true)])]);
  (tok_201, [
    ([], Some [(fld_13, v_true)])]);
  (tok_202, [
    ([], Some [(fld_13, v_true)])]);
  (tok_203, [
    ([], Some [(fld_13, v_true)])]);
  (tok_204, [
    ([], Some [(fld_40, v_true)])]);
  (tok_205, [
    ([], Some [(fld_40, v_true)])]);
  (tok_206, [
    ([], Some [(fld_40, v_true)])]);
  (tok_207, [
    ([], Some [(fld_12, v_true)]);
    ([tok_204], Some [(fld_12, v_true); (fld_40, v_true)]);
    ([tok_204; tok_1; tok_2; tok_3; tok_4], Some [(fld_1, (B ";")); (fld_2, (B ":")); (fld_8, v_true); (fld_9, v_true); (fld_12, v_true); (fld_40, v_true)]);
    ([tok_204; tok_5; tok_2; tok_6; tok_4], Some [(fld_12, v_true); (fld_32, (B ";")); (fld_33, (B ":")); (fld_37, v_true); (fld_38, v_true); (fld_40, v_true)]);
    ([tok_204; tok_7; tok_2; tok_8; tok_2], Some [(fld_3, (B ";")); (fld_10, v_true); (fld_12, v_true); (fld_31, (B ";")); (fld_39, v_true); (fld_40, v_true)])]);
  (tok_208, [
    ([], Some [(fld_12, v_true)])]);
  (tok_209, [
    ([], Some [(fld_12, v_true)])]);
  (tok_210, [
    ([], Some [(fld_12, v_true)])]);
  (tok_211, [
    ([], Some [])]);
  (tok_212, [
    ([], Some [])]);
  (tok_213, [
    ([tok_214], Some [(fld_34, (B ";"))]);
    ([tok_263], Some [(fld_34, (B "\x1b"))]);
    ([tok_264], Some [(fld_34, (B "\x1b"))]);
    ([tok_265], Some [(fld_34, (B "\x03"))]);
    ([tok_266], Some [(fld_34, (B "\x03"))]);
    ([tok_267], Some [(fld_34, (B "\x1c"))]);
    ([tok_268], Some [(fld_34, (B "\x1c"))]);
    ([tok_269], Some [(fld_34, (B "\x1d"))]);
    ([tok_270], Some [(fld_34, (B "\x1d"))]);
    ([tok_271], Some [(fld_34, (B "\x00"))]);
    ([tok_272], Some [(fld_34, (B "\x00"))]);
    ([tok_273], Some [(fld_34, (B "\x1e"))]);
    ([tok_274], Some [(fld_34, (B "\x1e"))]);
    ([tok_275], Some [(fld_34, (B "\x01"))]);
    ([tok_276], Some [(fld_34, (B "\x01"))]);
    ([tok_277], Some [(fld_34, (B "\x02"))]);
    ([tok_278], Some [(fld_34, (B "\x02"))]);
    ([tok_279], Some [(fld_34, (B "\x1f"))]);
    ([tok_280], Some [(fld_34, (B "\x1f"))]);
    ([tok_281], Some [(fld_34, (B "\x1f"))]);
    ([tok_282], Some [(fld_34, (B "\x1e"))]);
    ([tok_283], Some [(fld_34, (B ":"))]);
    ([tok_4], Some [(fld_34, (B ":"))]);
    ([tok_284], Some [(fld_34, (B ","))]);
    ([tok_285], Some [(fld_34, (B ","))]);
    ([tok_286], Some [(fld_34, (B "\r"))]);
    ([tok_287], Some [(fld_34, (B "\r"))]);
    ([tok_288], Some [(fld_34, (B "\r\r"))]);
    ([tok_289], Some [(fld_34, (B "\r\r"))]);
    ([tok_290], Some [(fld_34, (B "\r\n"))]);
    ([tok_291], Some [(fld_34, (B "\r\n"))]);
    ([tok_292], Some [(fld_34, (B "\r\n\r\n"))]);
    ([tok_293], Some [(fld_34, (B "\r\n\r\n"))]);
    ([tok_294], Some [(fld_34, (B "="))]);
    ([tok_295], Some [(fld_34, (B "="))]);
    ([tok_296], Some [(fld_34, (B "\n"))]);
    ([tok_297], Some [(fld_34, (B "\n"))]);
    ([tok_298], Some [(fld_34, (B "\n\n"))]);
    ([tok_299], Some [(fld_34, (B "\n\n"))]);
    ([tok_300], Some [(fld_34, (B "\n"))]);
    ([tok_301], Some [(fld_34, (B "|"))]);
    ([tok_302], Some [(fld_34, (B "|"))]);
    ([tok_2], Some [(fld_34, (B ";"))]);
    ([tok_303], Some [(fld_34, (B "/"))]);
    ([tok_304], Some [(fld_34, (B "/"))]);
    ([tok_238], Some [(fld_34, (B " "))]);
    ([tok_305], Some [(fld_34, (B " "))]);
    ([tok_237], Some [(fld_34, (B "\t"))]);
    ([tok_306], Some [(fld_34, (B "\t"))]);
    ([tok_307], Some [(fld_34, (B "\xe2\x90\x9f"))]);
    ([tok_308], Some [(fld_34, (B "\xe2\x90\x9f"))]);
    ([tok_309], Some [(fld_34, (B "\xe2\x90\x9e"))]);
    ([tok_310], Some [(fld_34, (B "\xe2\x90\x9e"))])]);
  (tok_215, [
    ([tok_214], Some [(fld_34, (B ";"))]);
    ([tok_263], Some [(fld_34, (B "\x1b"))]);
    ([tok_264], Some [(fld_34, (B "\x1b"))]);
    ([tok_265], Some [(fld_34, (B "\x03"))]);
    ([tok_266], Some [(fld_34, (B "\x03"))]);
    ([tok_267], Some [(fld_34, (B "\x1c"))]);
    ([tok_268], Some [(fld_34, (B "\x1c"))]);
    ([tok_269], Some [(fld_34, (B "\x1d"))]);
    ([tok_270], Some [(fld_34, (B "\x1d"))]);
    ([tok_271], Some [(fld_34, (B "\x00"))]);
    ([tok_272], Some [(fld_34, (B "\x00"))]);
    ([tok_273], Some [(fld_34, (B "\x1e"))]);
    ([tok_274], Some [(fld_34, (B "\x1e"))]);
    ([tok_275], Some [(fld_34, (B "\x01"))]);
    ([tok_276], Some [(fld_34, (B "\x01"))]);
    ([tok_277], Some [(fld_34, (B "\x02"))]);
    ([tok_278], Some [(fld_34, (B "\x02"))]);
    ([tok_279], Some [(fld_34, (B "\x1f"))]);
    ([tok_280], Some [(fld_34, (B "\x1f"))]);
    ([tok_281], Some [(fld_34, (B "\x1f"))]);
    ([tok_282], Some [(fld_34, (B "\x1e"))]);
    ([tok_283], Some [(fld_34, (B ":"))]);
    ([tok_4], Some [(fld_34, (B ":"))]);
    ([tok_284], Some [(fld_34, (B ","))]);
    ([tok_285], Some [(fld_34, (B ","))]);
    ([tok_286], Some [(fld_34, (B "\r"))]);
    ([tok_287], Some [(fld_34, (B "\r"))]);
    ([tok_288], Some [(fld_34, (B "\r\r"))]);
    ([tok_289], Some [(fld_34, (B "\r\r"))]);
    ([tok_290], Some [(fld_34, (B "\r\n"))]);
    ([tok_291], Some [(fld_34, (B "\r\n"))]);
    ([tok_292], Some [(fld_34, (B "\r\n\r\n"))]);
    ([tok_293], Some [(fld_34, (B "\r\n\r\n"))]);
    ([tok_294], Some [(fld_34, (B "="))]);
    ([tok_295], Some [(fld_34, (B "="))]);
    ([tok_296], Some [(fld_34, (B "\n"))]);
    ([tok_297], Some [(fld_34, (B "\n"))]);
    ([tok_298], Some [(fld_34, (B "\n\n"))]);
    ([tok_299], Some [(fld_34, (B "\n\n"))]);
    ([tok_300], Some [(fld_34, (B "\n"))]);
    ([tok_301], Some [(fld_34, (B "|"))]);
    ([tok_302], Some [(fld_34, (B "|"))]);
    ([tok_2], Some [(fld_34, (B ";"))]);
    ([tok_303], Some [(fld_34, (B "/"))]);
    ([tok_304], Some [(fld_34, (B "/"))]);
    ([tok_238], Some [(fld_34, (B " "))]);
    ([tok_305], Some [(fld_34, (B " "))]);
    ([tok_237], Some [(fld_34, (B "\t"))]);
    ([tok_306], Some [(fld_34, (B "\t"))]);
    ([tok_307], Some [(fld_34, (B "\xe2\x90\x9f"))]);
    ([tok_308], Some [(fld_34, (B "\xe2\x90\x9f"))]);
    ([tok_309], Some [(fld_34, (B "\xe2\x90\x9e"))]);
    ([tok_310], Some [(fld_34, (B "\xe2\x90\x9e"))])]);
  (tok_216, [
    ([], Some [])]);
  (tok_217, [
    ([], Some [])]);
  (tok_218, [
    ([], Some [])]);
  (tok_219, [
    ([], Some [])]);
  (tok_220, [
    ([], Some [])]);
  (tok_221, [
    ([], Some [])]);
  (tok_222, [
    ([], Some [])]);
  (tok_223, [
    ([], Some [])]);
  (tok_224, [
    ([], Some [])]);
  (tok_225, [
    ([], Some [])]);
  (tok_226, [
    ([tok_227], Some [])]);
  (tok_228, [
    ([tok_227], Some [])]);
  (tok_229, [
    ([], Some [])]);
  (tok_230, [
    ([], Some [])]);
  (tok_231, [
    ([], Some [])]);
  (tok_232, [
    ([], Some [])]);
  (tok_233, [
    ([], Some [(fld_41, v_true)])]);
  (tok_234, [
    ([], Some [(fld_41, v_true)])]);
  (tok_1, [
    ([tok_2; tok_84], Some [(fld_0, (B "csv")); (fld_1, (B ";")); (fld_2, v_na); (fld_8, v_true); (fld_10, v_true); (fld_30, (B "pprint")); (fld_32, (B " ")); (fld_33, v_na); (fld_41, v_true)]);
    ([tok_2; tok_24; tok_62; tok_233], Some [(fld_0, (B "csv")); (fld_1, (B ";")); (fld_2, v_na); (fld_8, v_true); (fld_30, (B "pprint")); (fld_32, (B " ")); (fld_33, v_na); (fld_41, v_true)]);
    ([tok_2; tok_12], Some [(fld_0, (B "csv")); (fld_1, (B ";")); (fld_2, v_na); (fld_8, v_true); (fld_30, (B "csv")); (fld_33, v_na)]);
    ([tok_2; tok_24; tok_53], Some [(fld_0, (B "csv")); (fld_1, (B ";")); (fld_2, v_na); (fld_8, v_true); (fld_30, (B "csv")); (fld_33, v_na)]);
    ([tok_2; tok_85], Some [(fld_0, (B "csv")); (fld_1, (B ";")); (fld_2, v_na); (fld_8, v_true); (fld_10, v_true)]);
    ([tok_2; tok_24; tok_56], Some [(fld_0, (B "csv")); (fld_1, (B ";")); (fld_2, v_na); (fld_8, v_true)]);
    ([tok_2; tok_86], Some [(fld_0, (B "csv")); (fld_1, (B ";")); (fld_2, v_na); (fld_8, v_true); (fld_10, v_true); (fld_30, (B "json")); (fld_31, v_na); (fld_32, v_na); (fld_33, v_na); (fld_65, v_false); (fld_66, v_true)]);
    ([tok_2; tok_24; tok_57], Some [(fld_0, (B "csv")); (fld_1, (B ";")); (fld_2, v_na); (fld_8, v_true); (fld_30, (B "json")); (fld_31, v_na); (fld_32, v_na); (fld_33, v_na); (fld_65, v_false); (fld_66, v_true)]);
    ([tok_2; tok_87], Some [(fld_0, (B "csv")); (fld_1, (B ";")); (fld_2, v_na); (fld_8, v_true); (fld_10, v_true); (fld_30, (B "jsonl")); (fld_31, (B "")); (fld_32, (B "")); (fld_33, (B "")); (fld_65, v_false); (fld_66, v_true)]);
    ([tok_2; tok_24; tok_58], Some [(fld_0, (B "csv")); (fld_1, (B ";")); (fld_2, v_na); (fld_8, v_true); (fld_30, (B "jsonl")); (fld_31, (B "")); (fld_32, (B "")); (fld_33, (B "")); (fld_65, v_false); (fld_66, v_true)]);
    ([tok_2; tok_88], Some [(fld_0, (B "csv")); (fld_1, (B ";")); (fld_2, v_na); (fld_8, v_true); (fld_10, v_true); (fld_30, (B "markdown")); (fld_32, (B " ")); (fld_33, v_na)]);
    ([tok_2; tok_24; tok_59], Some [(fld_0, (B "csv")); (fld_1, (B ";")); (fld_2, v_na); (fld_8, v_true); (fld_30, (B "markdown")); (fld_32, (B " ")); (fld_33, v_na)]);
    ([tok_2; tok_89], Some [(fld_0, (B "csv")); (fld_1, (B ";")); (fld_2, v_na); (fld_8, v_true); (fld_10, v_true); (fld_30, (B "nidx")); (fld_32, (B " ")); (fld_33, v_na); (fld_37, v_true)]);
    ([tok_2; tok_24; tok_61], Some [(fld_0, (B "csv")); (fld_1, (B ";")); (fld_2, v_na); (fld_8, v_true); (fld_30, (B "nidx")); (fld_32, (B " ")); (fld_33, v_na); (fld_37, v_true)]);
    ([tok_2; tok_90], Some [(fld_0, (B "csv")); (fld_1, (B ";")); (fld_2, v_na); (fld_8, v_true); (fld_10, v_true); (fld_30, (B "pprint")); (fld_32, (B " ")); (fld_33, v_na)]);
    ([tok_2; tok_24; tok_62], Some [(fld_0, (B "csv")); (fld_1, (B ";")); (fld_2, v_na); (fld_8, v_true); (fld_30, (B "pprint")); (fld_32, (B " ")); (fld_33, v_na)]);
    ([tok_2; tok_91], Some [(fld_0, (B "csv")); (fld_1, (B ";")); (fld_2, v_na); (fld_8, v_true); (fld_10, v_true); (fld_30, (B "tsv")); (fld_32, (bs [9]%N)); (fld_33, v_na); (fld_37, v_true)]);
    ([tok_2; tok_24; tok_64], Some [(fld_0, (B "csv")); (fld_1, (B ";")); (fld_2, v_na); (fld_8, v_true); (fld_30, (B "tsv")); (fld_32, (bs [9]%N)); (fld_33, v_na); (fld_37, v_true)]);
    ([tok_2; tok_92], Some [(fld_0, (B "csv")); (fld_1, (B ";")); (fld_2, v_na); (fld_8, v_true); (fld_10, v_true); (fld_30, (B "xtab")); (fld_31, (bs [10;10]%N)); (fld_32, (bs [10]%N)); (fld_33, (B " "))]);
    ([tok_2; tok_24; tok_68], Some [(fld_0, (B "csv")); (fld_1, (B ";")); (fld_2, v_na); (fld_8, v_true); (fld_30, (B "xtab")); (fld_31, (bs [10;10]%N)); (fld_32, (bs [10]%N)); (fld_33, (B " "))]);
    ([tok_2; tok_93], Some [(fld_0, (B "csv")); (fld_1, (B ";")); (fld_2, v_na); (fld_8, v_true); (fld_10, v_true); (fld_30, (B "yaml")); (fld_31, v_na); (fld_32, v_na); (fld_33, v_na); (fld_65, v_false); (fld_66, v_true)]);
    ([tok_2; tok_24; tok_69], Some [(fld_0, (B "csv")); (fld_1, (B ";")); (fld_2, v_na); (fld_8, v_true); (fld_30, (B "yaml")); (fld_31, v_na); (fld_32, v_na); (fld_33, v_na); (fld_65, v_false); (fld_66, v_true)]);
    ([tok_2; tok_94], Some [(fld_1, (B ";")); (fld_8, v_true); (fld_30, (B "pprint")); (fld_32, (B " ")); (fld_33, v_na); (fld_41, v_true)]);
    ([tok_2; tok_27; tok_62; tok_233], Some [(fld_1, (B ";")); (fld_8, v_true); (fld_30, (B "pprint")); (fld_32, (B " ")); (fld_33, v_na); (fld_41, v_true)]);
    ([tok_2; tok_95], Some [(fld_1, (B ";")); (fld_8, v_true); (fld_30, (B "csv")); (fld_33, v_na)]);
    ([tok_2; tok_27; tok_53], Some [(fld_1, (B ";")); (fld_8, v_true); (fld_30, (B "csv")); (fld_33, v_na)]);
    ([tok_2; tok_16], Some [(fld_1, (B ";")); (fld_8, v_true)]);
    ([tok_2; tok_27; tok_56], Some [(fld_1, (B ";")); (fld_8, v_true)]);
    ([tok_2; tok_96], Some [(fld_1, (B ";")); (fld_8, v_true); (fld_30, (B "json")); (fld_31, v_na); (fld_32, v_na); (fld_33, v_na); (fld_65, v_false); (fld_66, v_true)]);
    ([tok_2; tok_27; tok_57], Some [(fld_1, (B ";")); (fld_8, v_true); (fld_30, (B "json")); (fld_31, v_na); (fld_32, v_na); (fld_33, v_na); (fld_65, v_false); (fld_66, v_true)]);
    ([tok_2; tok_97], Some [(fld_1, (B ";")); (fld_8, v_true); (fld_30, (B "jsonl")); (fld_31, (B "")); (fld_32, (B "")); (fld_33, (B "")); (fld_65, v_false); (fld_66, v_true)]);
    ([tok_2; tok_27; tok_58], Some [(fld_1, (B ";")); (fld_8, v_true); (fld_30, (B "jsonl")); (fld_31, (B "")); (fld_32, (B "")); (fld_33, (B "")); (fld_65, v_false); (fld_66, v_true)]);
    ([tok_2; tok_98], Some [(fld_1, (B ";")); (fld_8, v_true); (fld_30, (B "markdown")); (fld_32, (B " ")); (fld_33, v_na)]);
    ([tok_2; tok_27; tok_59], Some [(fld_1, (B ";")); (fld_8, v_true); (fld_30, (B "markdown")); (fld_32, (B " ")); (fld_33, v_na)]);
    ([tok_2; tok_99], Some [(fld_1, (B ";")); (fld_8, v_true); (fld_30, (B "nidx")); (fld_32, (B " ")); (fld_33, v_na); (fld_37, v_true)]);
    ([tok_2; tok_27; tok_61], Some [(fld_1, (B ";")); (fld_8, v_true); (fld_30, (B "nidx")); (fld_32, (B " ")); (fld_33, v_na); (fld_37, v_true)]);
    ([tok_2; tok_100], Some [(fld_1, (B ";")); (fld_8, v_true); (fld_30, (B "pprint")); (fld_32, (B " ")); (fld_33, v_na)]);
    ([tok_2; tok_27; tok_62], Some [(fld_1, (B ";")); (fld_8, v_true); (fld_30, (B "pprint")); (fld_32, (B " ")); (fld_33, v_na)]);
    ([tok_2; tok_101], Some [(fld_1, (B ";")); (fld_8, v_true); (fld_30, (B "tsv")); (fld_32, (bs [9]%N)); (fld_33, v_na); (fld_37, v_true); (fld_39, v_true)]);
    ([tok_2; tok_27; tok_64], Some [(fld_1, (B ";")); (fld_8, v_true); (fld_30, (B "tsv")); (fld_32, (bs [9]%N)); (fld_33, v_na); (fld_37, v_true)]);
    ([tok_2; tok_102], Some [(fld_1, (B ";")); (fld_8, v_true); (fld_30, (B "xtab")); (fld_31, (bs [10;10]%N)); (fld_32, (bs [10]%N)); (fld_33, (B " "))]);
    ([tok_2; tok_27; tok_68], Some [(fld_1, (B ";")); (fld_8, v_true); (fld_30, (B "xtab")); (fld_31, (bs [10;10]%N)); (fld_32, (bs [10]%N)); (fld_33, (B " "))]);
    ([tok_2; tok_103], Some [(fld_1, (B ";")); (fld_8, v_true); (fld_30, (B "yaml")); (fld_31, v_na); (fld_32, v_na); (fld_33, v_na); (fld_65, v_false); (fld_66, v_true)]);
    ([tok_2; tok_27; tok_69], Some [(fld_1, (B ";")); (fld_8, v_true); (fld_30, (B "yaml")); (fld_31, v_na); (fld_32, v_na); (fld_33, v_na); (fld_65, v_false); (fld_66, v_true)]);
    ([tok_2; tok_104], Some [(fld_0, (B "json")); (fld_1, (B ";")); (fld_2, v_na); (fld_3, v_na); (fld_8, v_true); (fld_30, (B "pprint")); (fld_32, (B " ")); (fld_33, v_na); (fld_41, v_true)]);
    ([tok_2; tok_29; tok_62; tok_233], Some [(fld_0, (B "json")); (fld_1, (B ";")); (fld_2, v_na); (fld_3, v_na); (fld_8, v_true); (fld_30, (B "pprint")); (fld_32, (B " ")); (fld_33, v_na); (fld_41, v_true)]);
    ([tok_2; tok_105], Some [(fld_0, (B "json")); (fld_1, (B ";")); (fld_2, v_na); (fld_3, v_na); (fld_8, v_true); (fld_30, (B "csv")); (fld_33, v_na); (fld_39, v_true)]);
    ([tok_2; tok_29; tok_53], Some [(fld_0, (B "json")); (fld_1, (B ";")); (fld_2, v_na); (fld_3, v_na); (fld_8, v_true); (fld_30, (B "csv")); (fld_33, v_na)]);
    ([tok_2; tok_106], Some [(fld_0, (B "json")); (fld_1, (B ";")); (fld_2, v_na); (fld_3, v_na); (fld_8, v_true)]);
    ([tok_2; tok_29; tok_56], Some [(fld_0, (B "json")); (fld_1, (B ";")); (fld_2, v_na); (fld_3, v_na); (fld_8, v_true)]);
    ([tok_2; tok_44], Some [(fld_0, (B "json")); (fld_1, (B ";")); (fld_2, v_na); (fld_3, v_na); (fld_8, v_true); (fld_30, (B "json")); (fld_31, v_na); (fld_32, v_na); (fld_33, v_na); (fld_65, v_false)]);
    ([tok_2; tok_29; tok_57], Some [(fld_0, (B "json")); (fld_1, (B ";")); (fld_2, v_na); (fld_3, v_na); (fld_8, v_true); (fld_30, (B "json")); (fld_31, v_na); (fld_32, v_na); (fld_33, v_na); (fld_65, v_false)]);
    ([tok_2; tok_107], Some [(fld_0, (B "json")); (fld_1, (B ";")); (fld_2, v_na); (fld_3, v_na); (fld_8, v_true); (fld_30, (B "jsonl")); (fld_31, (B "")); (fld_32, (B "")); (fld_33, (B "")); (fld_65, v_false)]);
    ([tok_2; tok_29; tok_58], Some [(fld_0, (B "json")); (fld_1, (B ";")); (fld_2, v_na); (fld_3, v_na); (fld_8, v_true); (fld_30, (B "jsonl")); (fld_31, (B "")); (fld_32, (B "")); (fld_33, (B "")); (fld_65, v_false)]);
    ([tok_2; tok_108], Some [(fld_0, (B "json")); (fld_1, (B ";")); (fld_2, v_na); (fld_3, v_na); (fld_8, v_true); (fld_30, (B "markdown")); (fld_32, (B " ")); (fld_33, v_na)]);
    ([tok_2; tok_29; tok_59], Some [(fld_0, (B "json")); (fld_1, (B ";")); (fld_2, v_na); (fld_3, v_na); (fld_8, v_true); (fld_30, (B "markdown")); (fld_32, (B " ")); (fld_33, v_na)]);
    ([tok_2; tok_109], Some [(fld_0, (B "json")); (fld_1, (B ";")); (fld_2, v_na); (fld_3, v_na); (fld_8, v_true); (fld_30, (B "nidx")); (fld_32, (B " ")); (fld_33, v_na); (fld_37, v_true)]);
    ([tok_2; tok_29; tok_61], Some [(fld_0, (B "json")); (fld_1, (B ";")); (fld_2, v_na); (fld_3, v_na); (fld_8, v_true); (fld_30, (B "nidx")); (fld_32, (B " ")); (fld_33, v_na); (fld_37, v_true)]);
    ([tok_2; tok_110], Some [(fld_0, (B "json")); (fld_1, (B ";")); (fld_2, v_na); (fld_3, v_na); (fld_8, v_true); (fld_30, (B "pprint")); (fld_32, (B " ")); (fld_33, v_na)]);
    ([tok_2; tok_29; tok_62], Some [(fld_0, (B "json")); (fld_1, (B ";")); (fld_2, v_na); (fld_3, v_na); (fld_8, v_true); (fld_30, (B "pprint")); (fld_32, (B " ")); (fld_33, v_na)]);
    ([tok_2; tok_111], Some [(fld_0, (B "json")); (fld_1, (B ";")); (fld_2, v_na); (fld_3, v_na); (fld_8, v_true); (fld_30, (B "tsv")); (fld_32, (bs [9]%N)); (fld_33, v_na); (fld_37, v_true)]);
    ([tok_2; tok_29; tok_64], Some [(fld_0, (B "json")); (fld_1, (B ";")); (fld_2, v_na); (fld_3, v_na); (fld_8, v_true); (fld_30, (B "tsv")); (fld_32, (bs [9]%N)); (fld_33, v_na); (fld_37, v_true)]);
    ([tok_2; tok_112], Some [(fld_0, (B "json")); (fld_1, (B ";")); (fld_2, v_na); (fld_3, v_na); (fld_8, v_true); (fld_30, (B "xtab")); (fld_31, (bs [10;10]%N)); (fld_32, (bs [10]%N)); (fld_33, (B " "))]);
    ([tok_2; tok_29; tok_68], Some [(fld_0, (B "json")); (fld_1, (B ";")); (fld_2, v_na); (fld_3, v_na); (fld_8, v_true); (fld_30, (B "xtab")); (fld_31, (bs [10;10]%N)); (fld_32, (bs [10]%N)); (fld_33, (B " "))]);
    ([tok_2; tok_113], Some [(fld_0, (B "json")); (fld_1, (B ";")); (fld_2, v_na); (fld_3, v_na); (fld_8, v_true); (fld_30, (B "yaml")); (fld_31, v_na); (fld_32, v_na); (fld_33, v_na); (fld_65, v_false)]);
    ([tok_2; tok_29; tok_69], Some [(fld_0, (B "json")); (fld_1, (B ";")); (fld_2, v_na); (fld_3, v_na); (fld_8, v_true); (fld_30, (B "yaml")); (fld_31, v_na); (fld_32, v_na); (fld_33, v_na); (fld_65, v_false)]);
    ([tok_2; tok_114], Some [(fld_0, (B "json")); (fld_1, (B ";")); (fld_2, v_na); (fld_3, v_na); (fld_8, v_true); (fld_30, (B "pprint")); (fld_32, (B " ")); (fld_33, v_na); (fld_41, v_true)]);
    ([tok_2; tok_30; tok_62; tok_233], Some [(fld_0, (B "json")); (fld_1, (B ";")); (fld_2, v_na); (fld_3, v_na); (fld_8, v_true); (fld_30, (B "pprint")); (fld_32, (B " ")); (fld_33, v_na); (fld_41, v_true)]);
    ([tok_2; tok_115], Some [(fld_0, (B "json")); (fld_1, (B ";")); (fld_2, v_na); (fld_3, v_na); (fld_8, v_true); (fld_30, (B "csv")); (fld_33, v_na); (fld_39, v_true)]);
    ([tok_2; tok_30; tok_53], Some [(fld_0, (B "json")); (fld_1, (B ";")); (fld_2, v_na); (fld_3, v_na); (fld_8, v_true); (fld_30, (B "csv")); (fld_33, v_na)]);
    ([tok_2; tok_116], Some [(fld_0, (B "json")); (fld_1, (B ";")); (fld_2, v_na); (fld_3, v_na); (fld_8, v_true)]);
    ([tok_2; tok_30; tok_56], Some [(fld_0, (B "json")); (fld_1, (B ";")); (fld_2, v_na); (fld_3, v_na); (fld_8, v_true)]);
    ([tok_2; tok_117], Some [(fld_0, (B "json")); (fld_1, (B ";")); (fld_2, v_na); (fld_3, v_na); (fld_8, v_true); (fld_30, (B "json")); (fld_31, v_na); (fld_32, v_na); (fld_33, v_na); (fld_65, v_false)]);
    ([tok_2; tok_30; tok_57], Some [(fld_0, (B "json")); (fld_1, (B ";")); (fld_2, v_na); (fld_3, v_na); (fld_8, v_true); (fld_30, (B "json")); (fld_31, v_na); (fld_32, v_na); (fld_33, v_na); (fld_65, v_false)]);
    ([tok_2; tok_46], Some [(fld_0, (B "json")); (fld_1, (B ";")); (fld_2, v_na); (fld_3, v_na); (fld_8, v_true); (fld_30, (B "jsonl")); (fld_31, (B "")); (fld_32, (B "")); (fld_33, (B "")); (fld_65, v_false)]);
    ([tok_2; tok_30; tok_58], Some [(fld_0, (B "json")); (fld_1, (B ";")); (fld_2, v_na); (fld_3, v_na); (fld_8, v_true); (fld_30, (B "jsonl")); (fld_31, (B "")); (fld_32, (B "")); (fld_33, (B "")); (fld_65, v_false)]);
    ([tok_2; tok_118], Some [(fld_0, (B "json")); (fld_1, (B ";")); (fld_2, v_na); (fld_3, v_na); (fld_8, v_true); (fld_30, (B "markdown")); (fld_32, (B " ")); (fld_33, v_na)]);
    ([tok_2; tok_30; tok_59], Some [(fld_0, (B "json")); (fld_1, (B ";")); (fld_2, v_na); (fld_3, v_na); (fld_8, v_true); (fld_30, (B "markdown")); (fld_32, (B " ")); (fld_33, v_na)]);
    ([tok_2; tok_119], Some [(fld_0, (B "json")); (fld_1, (B ";")); (fld_2, v_na); (fld_3, v_na); (fld_8, v_true); (fld_30, (B "nidx")); (fld_32, (B " ")); (fld_33, v_na); (fld_37, v_true)]);
    ([tok_2; tok_30; tok_61], Some [(fld_0, (B "json")); (fld_1, (B ";")); (fld_2, v_na); (fld_3, v_na); (fld_8, v_true); (fld_30, (B "nidx")); (fld_32, (B " ")); (fld_33, v_na); (fld_37, v_true)]);
    ([tok_2; tok_120], Some [(fld_0, (B "json")); (fld_1, (B ";")); (fld_2, v_na); (fld_3, v_na); (fld_8, v_true); (fld_30, (B "pprint")); (fld_32, (B " ")); (fld_33, v_na)]);
    ([tok_2; tok_30; tok_62], Some [(fld_0, (B "json")); (fld_1, (B ";")); (fld_2, v_na); (fld_3, v_na); (fld_8, v_true); (fld_30, (B "pprint")); (fld_32, (B " ")); (fld_33, v_na)]);
    ([tok_2; tok_121], Some [(fld_0, (B "json")); (fld_1, (B ";")); (fld_2, v_na); (fld_3, v_na); (fld_8, v_true); (fld_30, (B "tsv")); (fld_32, (bs [9]%N)); (fld_33, v_na); (fld_37, v_true)]);
    ([tok_2; tok_30; tok_64], Some [(fld_0, (B "json")); (fld_1, (B ";")); (fld_2, v_na); (fld_3, v_na); (fld_8, v_true); (fld_30, (B "tsv")); (fld_32, (bs [9]%N)); (fld_33, v_na); (fld_37, v_true)]);
    ([tok_2; tok_122], Some [(fld_0, (B "json")); (fld_1, (B ";")); (fld_2, v_na); (fld_3, v_na); (fld_8, v_true); (fld_30, (B "xtab")); (fld_31, (bs [10;10]%N)); (fld_32, (bs [10]%N)); (fld_33, (B " "))]);
    ([tok_2; tok_30; tok_68], Some [(fld_0, (B "json")); (fld_1, (B ";")); (fld_2, v_na); (fld_3, v_na); (fld_8, v_true); (fld_30, (B "xtab")); (fld_31, (bs [10;10]%N)); (fld_32, (bs [10]%N)); (fld_33, (B " "))]);
    ([tok_2; tok_123], Some [(fld_0, (B "json")); (fld_1, (B ";")); (fld_2, v_na); (fld_3, v_na); (fld_8, v_true); (fld_30, (B "yaml")); (fld_31, v_na); (fld_32, v_na); (fld_33, v_na); (fld_65, v_false)]);
    ([tok_2; tok_30; tok_69], Some [(fld_0, (B "json")); (fld_1, (B ";")); (fld_2, v_na); (fld_3, v_na); (fld_8, v_true); (fld_30, (B "yaml")); (fld_31, v_na); (fld_32, v_na); (fld_33, v_na); (fld_65, v_false)]);
    ([tok_2; tok_124], Some [(fld_0, (B "markdown")); (fld_1, (B ";")); (fld_2, v_na); (fld_8, v_true); (fld_30, (B "csv")); (fld_33, v_na); (fld_39, v_true)]);
    ([tok_2; tok_31; tok_53], Some [(fld_0, (B "markdown")); (fld_1, (B ";")); (fld_2, v_na); (fld_8, v_true); (fld_30, (B "csv")); (fld_33, v_na)]);
    ([tok_2; tok_125], Some [(fld_0, (B "markdown")); (fld_1, (B ";")); (fld_2, v_na); (fld_8, v_true)]);
    ([tok_2; tok_31; tok_56], Some [(fld_0, (B "markdown")); (fld_1, (B ";")); (fld_2, v_na); (fld_8, v_true)]);
    ([tok_2; tok_126], Some [(fld_0, (B "markdown")); (fld_1, (B ";")); (fld_2, v_na); (fld_8, v_true); (fld_30, (B "json")); (fld_31, v_na); (fld_32, v_na); (fld_33, v_na); (fld_65, v_false); (fld_66, v_true)]);
    ([tok_2; tok_31; tok_57], Some [(fld_0, (B "markdown")); (fld_1, (B ";")); (fld_2, v_na); (fld_8, v_true); (fld_30, (B "json")); (fld_31, v_na); (fld_32, v_na); (fld_33, v_na); (fld_65, v_false); (fld_66, v_true)]);
    ([tok_2; tok_127], Some [(fld_0, (B "markdown")); (fld_1, (B ";")); (fld_2, v_na); (fld_8, v_true); (fld_30, (B "jsonl")); (fld_31, (B "")); (fld_32, (B "")); (fld_33, (B "")); (fld_65, v_false); (fld_66, v_true)]);
    ([tok_2; tok_31; tok_58], Some [(fld_0, (B "markdown")); (fld_1, (B ";")); (fld_2, v_na); (fld_8, v_true); (fld_30, (B "jsonl")); (fld_31, (B "")); (fld_32, (B "")); (fld_33, (B "")); (fld_65, v_false); (fld_66, v_true)]);
    ([tok_2; tok_128], Some [(fld_0, (B "markdown")); (fld_1, (B ";")); (fld_2, v_na); (fld_8, v_true); (fld_30, (B "nidx")); (fld_32, (B " ")); (fld_33, v_na); (fld_37, v_true)]);
    ([tok_2; tok_31; tok_61], Some [(fld_0, (B "markdown")); (fld_1, (B ";")); (fld_2, v_na); (fld_8, v_true); (fld_30, (B "nidx")); (fld_32, (B " ")); (fld_33, v_na); (fld_37, v_true)]);
    ([tok_2; tok_129], Some [(fld_0, (B "markdown")); (fld_1, (B ";")); (fld_2, v_na); (fld_8, v_true); (fld_30, (B "pprint")); (fld_32, (B " ")); (fld_33, v_na)]);
    ([tok_2; tok_31; tok_62], Some [(fld_0, (B "markdown")); (fld_1, (B ";")); (fld_2, v_na); (fld_8, v_true); (fld_30, (B "pprint")); (fld_32, (B " ")); (fld_33, v_na)]);
    ([tok_2; tok_130], Some [(fld_0, (B "markdown")); (fld_1, (B ";")); (fld_2, v_na); (fld_8, v_true); (fld_30, (B "tsv")); (fld_32, (bs [9]%N)); (fld_33, v_na); (fld_37, v_true)]);
    ([tok_2; tok_31; tok_64], Some [(fld_0, (B "markdown")); (fld_1, (B ";")); (fld_2, v_na); (fld_8, v_true); (fld_30, (B "tsv")); (fld_32, (bs [9]%N)); (fld_33, v_na); (fld_37, v_true)]);
    ([tok_2; tok_131], Some [(fld_0, (B "markdown")); (fld_1, (B ";")); (fld_2, v_na); (fld_8, v_true); (fld_30, (B "xtab")); (fld_31, (bs [10;10]%N)); (fld_32, (bs [10]%N)); (fld_33, (B " "))]);
    ([tok_2; tok_31; tok_68], Some [(fld_0, (B "markdown")); (fld_1, (B ";")); (fld_2, v_na); (fld_8, v_true); (fld_30, (B "xtab")); (fld_31, (bs [10;10]%N)); (fld_32, (bs [10]%N)); (fld_33, (B " "))]);
    ([tok_2; tok_132], Some [(fld_0, (B "markdown")); (fld_1, (B ";")); (fld_2, v_na); (fld_8, v_true); (fld_30, (B "yaml")); (fld_31, v_na); (fld_32, v_na); (fld_33, v_na); (fld_65, v_false); (fld_66, v_true)]);
    ([tok_2; tok_31; tok_69], Some [(fld_0, (B "markdown")); (fld_1, (B ";")); (fld_2, v_na); (fld_8, v_true); (fld_30, (B "yaml")); (fld_31, v_na); (fld_32, v_na); (fld_33, v_na); (fld_65, v_false); (fld_66, v_true)]);
    ([tok_2; tok_198], Some [(fld_0, (B "markdown")); (fld_1, (B ";")); (fld_2, v_na); (fld_8, v_true); (fld_30, (B "markdown")); (fld_32, (B " ")); (fld_33, v_na); (fld_45, v_true)]);
    ([tok_2; tok_47; tok_199], Some [(fld_0, (B "markdown")); (fld_1, (B ";")); (fld_2, v_na); (fld_8, v_true); (fld_30, (B "markdown")); (fld_32, (B " ")); (fld_33, v_na); (fld_45, v_true)]);
    ([tok_2; tok_197], Some [(fld_0, (B "markdown")); (fld_1, (B ";")); (fld_2, v_na); (fld_8, v_true); (fld_30, (B "markdown")); (fld_32, (B " ")); (fld_33, v_na); (fld_45, v_true)]);
    ([tok_2; tok_133], Some [(fld_0, (B "nidx")); (fld_1, (B ";")); (fld_2, v_na); (fld_8, v_true); (fld_30, (B "pprint")); (fld_32, (B " ")); (fld_33, v_na); (fld_41, v_true)]);
    ([tok_2; tok_33; tok_62; tok_233], Some [(fld_0, (B "nidx")); (fld_1, (B ";")); (fld_2, v_na); (fld_8, v_true); (fld_30, (B "pprint")); (fld_32, (B " ")); (fld_33, v_na); (fld_41, v_true)]);
    ([tok_2; tok_134], Some [(fld_0, (B "nidx")); (fld_1, (B ";")); (fld_2, v_na); (fld_8, v_true); (fld_30, (B "csv")); (fld_33, v_na); (fld_39, v_true)]);
    ([tok_2; tok_33; tok_53], Some [(fld_0, (B "nidx")); (fld_1, (B ";")); (fld_2, v_na); (fld_8, v_true); (fld_30, (B "csv")); (fld_33, v_na)]);
    ([tok_2; tok_135], Some [(fld_0, (B "nidx")); (fld_1, (B ";")); (fld_2, v_na); (fld_8, v_true)]);
    ([tok_2; tok_33; tok_56], Some [(fld_0, (B "nidx")); (fld_1, (B ";")); (fld_2, v_na); (fld_8, v_true)]);
    ([tok_2; tok_136], Some [(fld_0, (B "nidx")); (fld_1, (B ";")); (fld_2, v_na); (fld_8, v_true); (fld_30, (B "json")); (fld_31, v_na); (fld_32, v_na); (fld_33, v_na); (fld_65, v_false); (fld_66, v_true)]);
    ([tok_2; tok_33; tok_57], Some [(fld_0, (B "nidx")); (fld_1, (B ";")); (fld_2, v_na); (fld_8, v_true); (fld_30, (B "json")); (fld_31, v_na); (fld_32, v_na); (fld_33, v_na); (fld_65, v_false); (fld_66, v_true)]);
    ([tok_2; tok_137], Some [(fld_0, (B "nidx")); (fld_1, (B ";")); (fld_2, v_na); (fld_8, v_true); (fld_30, (B "jsonl")); (fld_31, (B "")); (fld_32, (B "")); (fld_33, (B "")); (fld_65, v_false); (fld_66, v_true)]);
    ([tok_2; tok_33; tok_58], Some [(fld_0, (B "nidx")); (fld_1, (B ";")); (fld_2, v_na); (fld_8, v_true); (fld_30, (B "jsonl")); (fld_31, (B "")); (fld_32, (B "")); (fld_33, (B "")); (fld_65, v_false); (fld_66, v_true)]);
    ([tok_2; tok_138], Some [(fld_0, (B "nidx")); (fld_1, (B ";")); (fld_2, v_na); (fld_8, v_true); (fld_30, (B "markdown")); (fld_32, (B " ")); (fld_33, v_na)]);
    ([tok_2; tok_33; tok_59], Some [(fld_0, (B "nidx")); (fld_1, (B ";")); (fld_2, v_na); (fld_8, v_true); (fld_30, (B "markdown")); (fld_32, (B " ")); (fld_33, v_na)]);
    ([tok_2; tok_50], Some [(fld_0, (B "nidx")); (fld_1, (B ";")); (fld_2, v_na); (fld_8, v_true); (fld_30, (B "nidx")); (fld_32, (B " ")); (fld_33, v_na); (fld_37, v_true)]);
    ([tok_2; tok_33; tok_61], Some [(fld_0, (B "nidx")); (fld_1, (B ";")); (fld_2, v_na); (fld_8, v_true); (fld_30, (B "nidx")); (fld_32, (B " ")); (fld_33, v_na); (fld_37, v_true)]);
    ([tok_2; tok_139], Some [(fld_0, (B "nidx")); (fld_1, (B ";")); (fld_2, v_na); (fld_8, v_true); (fld_30, (B "pprint")); (fld_32, (B " ")); (fld_33, v_na)]);
    ([tok_2; tok_33; tok_62], Some [(fld_0, (B "nidx")); (fld_1, (B ";")); (fld_2, v_na); (fld_8, v_true); (fld_30, (B "pprint")); (fld_32, (B " ")); (fld_33, v_na)]);
    ([tok_2; tok_140], Some [(fld_0, (B "nidx")); (fld_1, (B ";")); (fld_2, v_na); (fld_8, v_true); (fld_30, (B "tsv")); (fld_32, (bs [9]%N)); (fld_33, v_na); (fld_37, v_true)]);
    ([tok_2; tok_33; tok_64], Some [(fld_0, (B "nidx")); (fld_1, (B ";")); (fld_2, v_na); (fld_8, v_true); (fld_30, (B "tsv")); (fld_32, (bs [9]%N)); (fld_33, v_na); (fld_37, v_true)]);
    ([tok_2; tok_141], Some [(fld_0, (B "nidx")); (fld_1, (B ";")); (fld_2, v_na); (fld_8, v_true); (fld_30, (B "xtab")); (fld_31, (bs [10;10]%N)); (fld_32, (bs [10]%N)); (fld_33, (B " "))]);
    ([tok_2; tok_33; tok_68], Some [(fld_0, (B "nidx")); (fld_1, (B ";")); (fld_2, v_na); (fld_8, v_true); (fld_30, (B "xtab")); (fld_31, (bs [10;10]%N)); (fld_32, (bs [10]%N)); (fld_33, (B " "))]);
    ([tok_2; tok_142], Some [(fld_0, (B "nidx")); (fld_1, (B ";")); (fld_2, v_na); (fld_8, v_true); (fld_30, (B "yaml")); (fld_31, v_na); (fld_32, v_na); (fld_33, v_na); (fld_65, v_false); (fld_66, v_true)]);
    ([tok_2; tok_33; tok_69], Some [(fld_0, (B "nidx")); (fld_1, (B ";")); (fld_2, v_na); (fld_8, v_true); (fld_30, (B "yaml")); (fld_31, v_na); (fld_32, v_na); (fld_33, v_na); (fld_65, v_false); (fld_66, v_true)]);
    ([tok_2; tok_143], Some [(fld_0, (B "pprint")); (fld_1, (B " ")); (fld_2, v_na); (fld_4, v_true); (fld_8, v_true); (fld_30, (B "csv")); (fld_33, v_na); (fld_39, v_true)]);
    ([tok_2; tok_34; tok_53], Some [(fld_0, (B "pprint")); (fld_1, (B " ")); (fld_2, v_na); (fld_4, v_true); (fld_8, v_true); (fld_30, (B "csv")); (fld_33, v_na)]);
    ([tok_2; tok_144], Some [(fld_0, (B "pprint")); (fld_1, (B " ")); (fld_2, v_na); (fld_4, v_true); (fld_8, v_true)]);
    ([tok_2; tok_34; tok_56], Some [(fld_0, (B "pprint")); (fld_1, (B " ")); (fld_2, v_na); (fld_4, v_true); (fld_8, v_true)]);
    ([tok_2; tok_145], Some [(fld_0, (B "pprint")); (fld_1, (B " ")); (fld_2, v_na); (fld_4, v_true); (fld_8, v_true); (fld_30, (B "json")); (fld_31, v_na); (fld_32, v_na); (fld_33, v_na); (fld_65, v_false); (fld_66, v_true)]);
    ([tok_2; tok_34; tok_57], Some [(fld_0, (B "pprint")); (fld_1, (B " ")); (fld_2, v_na); (fld_4, v_true); (fld_8, v_true); (fld_30, (B "json")); (fld_31, v_na); (fld_32, v_na); (fld_33, v_na); (fld_65, v_false); (fld_66, v_true)]);
    ([tok_2; tok_146], Some [(fld_0, (B "pprint")); (fld_1, (B " ")); (fld_2, v_na); (fld_4, v_true); (fld_8, v_true); (fld_30, (B "jsonl")); (fld_31, (B "")); (fld_32, (B "")); (fld_33, (B "")); (fld_65, v_false); (fld_66, v_true)]);
    ([tok_2; tok_34; tok_58], Some [(fld_0, (B "pprint")); (fld_1, (B " ")); (fld_2, v_na); (fld_4, v_true); (fld_8, v_true); (fld_30, (B "jsonl")); (fld_31, (B "")); (fld_32, (B "")); (fld_33, (B "")); (fld_65, v_false); (fld_66, v_true)]);
    ([tok_2; tok_147], Some [(fld_0, (B "pprint")); (fld_1, (B " ")); (fld_2, v_na); (fld_4, v_true); (fld_8, v_true); (fld_30, (B "markdown")); (fld_32, (B " ")); (fld_33, v_na)]);
    ([tok_2; tok_34; tok_59], Some [(fld_0, (B "pprint")); (fld_1, (B " ")); (fld_2, v_na); (fld_4, v_true); (fld_8, v_true); (fld_30, (B "markdown")); (fld_32, (B " ")); (fld_33, v_na)]);
    ([tok_2; tok_148], Some [(fld_0, (B "pprint")); (fld_1, (B " ")); (fld_2, v_na); (fld_4, v_true); (fld_8, v_true); (fld_30, (B "nidx")); (fld_32, (B " ")); (fld_33, v_na); (fld_37, v_true)]);
    ([tok_2; tok_34; tok_61], Some [(fld_0, (B "pprint")); (fld_1, (B " ")); (fld_2, v_na); (fld_4, v_true); (fld_8, v_true); (fld_30, (B "nidx")); (fld_32, (B " ")); (fld_33, v_na); (fld_37, v_true)]);
    ([tok_2; tok_71], Some [(fld_0, (B "pprint")); (fld_1, (B " ")); (fld_2, v_na); (fld_4, v_true); (fld_8, v_true); (fld_30, (B "pprint")); (fld_32, (B " ")); (fld_33, v_na)]);
    ([tok_2; tok_34; tok_62], Some [(fld_0, (B "pprint")); (fld_1, (B " ")); (fld_2, v_na); (fld_4, v_true); (fld_8, v_true); (fld_30, (B "pprint")); (fld_32, (B " ")); (fld_33, v_na)]);
    ([tok_2; tok_149], Some [(fld_0, (B "pprint")); (fld_1, (B " ")); (fld_2, v_na); (fld_4, v_true); (fld_8, v_true); (fld_30, (B "tsv")); (fld_32, (bs [9]%N)); (fld_33, v_na); (fld_37, v_true)]);
    ([tok_2; tok_34; tok_64], Some [(fld_0, (B "pprint")); (fld_1, (B " ")); (fld_2, v_na); (fld_4, v_true); (fld_8, v_true); (fld_30, (B "tsv")); (fld_32, (bs [9]%N)); (fld_33, v_na); (fld_37, v_true)]);
    ([tok_2; tok_150], Some [(fld_0, (B "pprint")); (fld_1, (B " ")); (fld_2, v_na); (fld_4, v_true); (fld_8, v_true); (fld_30, (B "xtab")); (fld_31, (bs [10;10]%N)); (fld_32, (bs [10]%N)); (fld_33, (B " "))]);
    ([tok_2; tok_34; tok_68], Some [(fld_0, (B "pprint")); (fld_1, (B " ")); (fld_2, v_na); (fld_4, v_true); (fld_8, v_true); (fld_30, (B "xtab")); (fld_31, (bs [10;10]%N)); (fld_32, (bs [10]%N)); (fld_33, (B " "))]);
    ([tok_2; tok_151], Some [(fld_0, (B "pprint")); (fld_1, (B " ")); (fld_2, v_na); (fld_4, v_true); (fld_8, v_true); (fld_30, (B "yaml")); (fld_31, v_na); (fld_32, v_na); (fld_33, v_na); (fld_65, v_false); (fld_66, v_true)]);
    ([tok_2; tok_34; tok_69], Some [(fld_0, (B "pprint")); (fld_1, (B " ")); (fld_2, v_na); (fld_4, v_true); (fld_8, v_true); (fld_30, (B "yaml")); (fld_31, v_na); (fld_32, v_na); (fld_33, v_na); (fld_65, v_false); (fld_66, v_true)]);
    ([tok_2; tok_152], Some [(fld_0, (B "tsv")); (fld_1, (B ";")); (fld_2, v_na); (fld_8, v_true); (fld_30, (B "pprint")); (fld_32, (B " ")); (fld_33, v_na); (fld_41, v_true)]);
    ([tok_2; tok_36; tok_62; tok_233], Some [(fld_0, (B "tsv")); (fld_1, (B ";")); (fld_2, v_na); (fld_8, v_true); (fld_30, (B "pprint")); (fld_32, (B " ")); (fld_33, v_na); (fld_41, v_true)]);
    ([tok_2; tok_153], Some [(fld_0, (B "tsv")); (fld_1, (B ";")); (fld_2, v_na); (fld_8, v_true); (fld_30, (B "csv")); (fld_33, v_na)]);
    ([tok_2; tok_36; tok_53], Some [(fld_0, (B "tsv")); (fld_1, (B ";")); (fld_2, v_na); (fld_8, v_true); (fld_30, (B "csv")); (fld_33, v_na)]);
    ([tok_2; tok_154], Some [(fld_0, (B "tsv")); (fld_1, (B ";")); (fld_2, v_na); (fld_8, v_true)]);
    ([tok_2; tok_36; tok_56], Some [(fld_0, (B "tsv")); (fld_1, (B ";")); (fld_2, v_na); (fld_8, v_true)]);
    ([tok_2; tok_155], Some [(fld_0, (B "tsv")); (fld_1, (B ";")); (fld_2, v_na); (fld_8, v_true); (fld_30, (B "json")); (fld_31, v_na); (fld_32, v_na); (fld_33, v_na); (fld_65, v_false); (fld_66, v_true)]);
    ([tok_2; tok_36; tok_57], Some [(fld_0, (B "tsv")); (fld_1, (B ";")); (fld_2, v_na); (fld_8, v_true); (fld_30, (B "json")); (fld_31, v_na); (fld_32, v_na); (fld_33, v_na); (fld_65, v_false); (fld_66, v_true)]);
    ([tok_2; tok_156], Some [(fld_0, (B "tsv")); (fld_1, (B ";")); (fld_2, v_na); (fld_8, v_true); (fld_30, (B "jsonl")); (fld_31, (B "")); (fld_32, (B "")); (fld_33, (B "")); (fld_65, v_false); (fld_66, v_true)]);
    ([tok_2; tok_36; tok_58], Some [(fld_0, (B "tsv")); (fld_1, (B ";")); (fld_2, v_na); (fld_8, v_true); (fld_30, (B "jsonl")); (fld_31, (B "")); (fld_32, (B "")); (fld_33, (B "")); (fld_65, v_false); (fld_66, v_true)]);
    ([tok_2; tok_157], Some [(fld_0, (B "tsv")); (fld_1, (B ";")); (fld_2, v_na); (fld_8, v_true); (fld_30, (B "markdown")); (fld_32, (B " ")); (fld_33, v_na)]);
    ([tok_2; tok_36; tok_59], Some [(fld_0, (B "tsv")); (fld_1, (B ";")); (fld_2, v_na); (fld_8, v_true); (fld_30, (B "markdown")); (fld_32, (B " ")); (fld_33, v_na)]);
    ([tok_2; tok_158], Some [(fld_0, (B "tsv")); (fld_1, (B ";")); (fld_2, v_na); (fld_8, v_true); (fld_30, (B "nidx")); (fld_32, (B " ")); (fld_33, v_na); (fld_37, v_true)]);
    ([tok_2; tok_36; tok_61], Some [(fld_0, (B "tsv")); (fld_1, (B ";")); (fld_2, v_na); (fld_8, v_true); (fld_30, (B "nidx")); (fld_32, (B " ")); (fld_33, v_na); (fld_37, v_true)]);
    ([tok_2; tok_159], Some [(fld_0, (B "tsv")); (fld_1, (B ";")); (fld_2, v_na); (fld_8, v_true); (fld_30, (B "pprint")); (fld_32, (B " ")); (fld_33, v_na)]);
    ([tok_2; tok_36; tok_62], Some [(fld_0, (B "tsv")); (fld_1, (B ";")); (fld_2, v_na); (fld_8, v_true); (fld_30, (B "pprint")); (fld_32, (B " ")); (fld_33, v_na)]);
    ([tok_2; tok_75], Some [(fld_0, (B "tsv")); (fld_1, (B ";")); (fld_2, v_na); (fld_8, v_true); (fld_30, (B "tsv")); (fld_32, (bs [9]%N)); (fld_33, v_na); (fld_37, v_true)]);
    ([tok_2; tok_36; tok_64], Some [(fld_0, (B "tsv")); (fld_1, (B ";")); (fld_2, v_na); (fld_8, v_true); (fld_30, (B "tsv")); (fld_32, (bs [9]%N)); (fld_33, v_na); (fld_37, v_true)]);
    ([tok_2; tok_160], Some [(fld_0, (B "tsv")); (fld_1, (B ";")); (fld_2, v_na); (fld_8, v_true); (fld_30, (B "xtab")); (fld_31, (bs [10;10]%N)); (fld_32, (bs [10]%N)); (fld_33, (B " "))]);
    ([tok_2; tok_36; tok_68], Some [(fld_0, (B "tsv")); (fld_1, (B ";")); (fld_2, v_na); (fld_8, v_true); (fld_30, (B "xtab")); (fld_31, (bs [10;10]%N)); (fld_32, (bs [10]%N)); (fld_33, (B " "))]);
    ([tok_2; tok_161], Some [(fld_0, (B "tsv")); (fld_1, (B ";")); (fld_2, v_na); (fld_8, v_true); (fld_30, (B "yaml")); (fld_31, v_na); (fld_32, v_na); (fld_33, v_na); (fld_65, v_false); (fld_66, v_true)]);
    ([tok_2; tok_36; tok_69], Some [(fld_0, (B "tsv")); (fld_1, (B ";")); (fld_2, v_na); (fld_8, v_true); (fld_30, (B "yaml")); (fld_31, v_na); (fld_32, v_na); (fld_33, v_na); (fld_65, v_false); (fld_66, v_true)]);
    ([tok_2; tok_162], Some [(fld_0, (B "xtab")); (fld_1, (B ";")); (fld_2, (B " ")); (fld_3, (bs [10;10]%N)); (fld_8, v_true); (fld_30, (B "pprint")); (fld_32, (B " ")); (fld_33, v_na); (fld_41, v_true)]);
    ([tok_2; tok_40; tok_62; tok_233], Some [(fld_0, (B "xtab")); (fld_1, (B ";")); (fld_2, (B " ")); (fld_3, (bs [10;10]%N)); (fld_8, v_true); (fld_30, (B "pprint")); (fld_32, (B " ")); (fld_33, v_na); (fld_41, v_true)]);
    ([tok_2; tok_163], Some [(fld_0, (B "xtab")); (fld_1, (B ";")); (fld_2, (B " ")); (fld_3, (bs [10;10]%N)); (fld_8, v_true); (fld_30, (B "csv")); (fld_33, v_na); (fld_39, v_true)]);
    ([tok_2; tok_40; tok_53], Some [(fld_0, (B "xtab")); (fld_1, (B ";")); (fld_2, (B " ")); (fld_3, (bs [10;10]%N)); (fld_8, v_true); (fld_30, (B "csv")); (fld_33, v_na)]);
    ([tok_2; tok_164], Some [(fld_0, (B "xtab")); (fld_1, (B ";")); (fld_2, (B " ")); (fld_3, (bs [10;10]%N)); (fld_8, v_true)]);
    ([tok_2; tok_40; tok_56], Some [(fld_0, (B "xtab")); (fld_1, (B ";")); (fld_2, (B " ")); (fld_3, (bs [10;10]%N)); (fld_8, v_true)]);
    ([tok_2; tok_165], Some [(fld_0, (B "xtab")); (fld_1, (B ";")); (fld_2, (B " ")); (fld_3, (bs [10;10]%N)); (fld_8, v_true); (fld_30, (B "json")); (fld_31, v_na); (fld_32, v_na); (fld_33, v_na); (fld_65, v_false); (fld_66, v_true)]);
    ([tok_2; tok_40; tok_57], Some [(fld_0, (B "xtab")); (fld_1, (B ";")); (fld_2, (B " ")); (fld_3, (bs [10;10]%N)); (fld_8, v_true); (fld_30, (B "json")); (fld_31, v_na); (fld_32, v_na); (fld_33, v_na); (fld_65, v_false); (fld_66, v_true)]);
    ([tok_2; tok_166], Some [(fld_0, (B "xtab")); (fld_1, (B ";")); (fld_2, (B " ")); (fld_3, (bs [10;10]%N)); (fld_8, v_true); (fld_30, (B "jsonl")); (fld_31, (B "")); (fld_32, (B "")); (fld_33, (B "")); (fld_65, v_false); (fld_66, v_true)]);
    ([tok_2; tok_40; tok_58], Some [(fld_0, (B "xtab")); (fld_1, (B ";")); (fld_2, (B " ")); (fld_3, (bs [10;10]%N)); (fld_8, v_true); (fld_30, (B "jsonl")); (fld_31, (B "")); (fld_32, (B "")); (fld_33, (B "")); (fld_65, v_false); (fld_66, v_true)]);
    ([tok_2; tok_167], Some [(fld_0, (B "xtab")); (fld_1, (B ";")); (fld_2, (B " ")); (fld_3, (bs [10;10]%N)); (fld_8, v_true); (fld_30, (B "markdown")); (fld_32, (B " ")); (fld_33, v_na)]);
    ([tok_2; tok_40; tok_59], Some [(fld_0, (B "xtab")); (fld_1, (B ";")); (fld_2, (B " ")); (fld_3, (bs [10;10]%N)); (fld_8, v_true); (fld_30, (B "markdown")); (fld_32, (B " ")); (fld_33, v_na)]);
    ([tok_2; tok_168], Some [(fld_0, (B "xtab")); (fld_1, (B ";")); (fld_2, (B " ")); (fld_3, (bs [10;10]%N)); (fld_8, v_true); (fld_30, (B "nidx")); (fld_32, (B " ")); (fld_33, v_na); (fld_37, v_true)]);
    ([tok_2; tok_40; tok_61], Some [(fld_0, (B "xtab")); (fld_1, (B ";")); (fld_2, (B " ")); (fld_3, (bs [10;10]%N)); (fld_8, v_true); (fld_30, (B "nidx")); (fld_32, (B " ")); (fld_33, v_na); (fld_37, v_true)]);
    ([tok_2; tok_169], Some [(fld_0, (B "xtab")); (fld_1, (B ";")); (fld_2, (B " ")); (fld_3, (bs [10;10]%N)); (fld_8, v_true); (fld_30, (B "pprint")); (fld_32, (B " ")); (fld_33, v_na)]);
    ([tok_2; tok_40; tok_62], Some [(fld_0, (B "xtab")); (fld_1, (B ";")); (fld_2, (B " ")); (fld_3, (bs [10;10]%N)); (fld_8, v_true); (fld_30, (B "pprint")); (fld_32, (B " ")); (fld_33, v_na)]);
    ([tok_2; tok_170], Some [(fld_0, (B "xtab")); (fld_1, (B ";")); (fld_2, (B " ")); (fld_3, (bs [10;10]%N)); (fld_8, v_true); (fld_30, (B "tsv")); (fld_32, (bs [9]%N)); (fld_33, v_na); (fld_37, v_true)]);
    ([tok_2; tok_40; tok_64], Some [(fld_0, (B "xtab")); (fld_1, (B ";")); (fld_2, (B " ")); (fld_3, (bs [10;10]%N)); (fld_8, v_true); (fld_30, (B "tsv")); (fld_32, (bs [9]%N)); (fld_33, v_na); (fld_37, v_true)]);
    ([tok_2; tok_80], Some [(fld_0, (B "xtab")); (fld_1, (B ";")); (fld_2, (B " ")); (fld_3, (bs [10;10]%N)); (fld_8, v_true); (fld_30, (B "xtab")); (fld_31, (bs [10;10]%N)); (fld_32, (bs [10]%N)); (fld_33, (B " "))]);
    ([tok_2; tok_40; tok_68], Some [(fld_0, (B "xtab")); (fld_1, (B ";")); (fld_2, (B " ")); (fld_3, (bs [10;10]%N)); (fld_8, v_true); (fld_30, (B "xtab")); (fld_31, (bs [10;10]%N)); (fld_32, (bs [10]%N)); (fld_33, (B " "))]);
    ([tok_2; tok_171], Some [(fld_0, (B "xtab")); (fld_1, (B ";")); (fld_2, (B " ")); (fld_3, (bs [10;10]%N)); (fld_8, v_true); (fld_30, (B "yaml")); (fld_31, v_na); (fld_32, v_na); (fld_33, v_na); (fld_65, v_false); (fld_66, v_true)]);
    ([tok_2; tok_40; tok_69], Some [(fld_0, (B "xtab")); (fld_1, (B ";")); (fld_2, (B " ")); (fld_3, (bs [10;10]%N)); (fld_8, v_true); (fld_30, (B "yaml")); (fld_31, v_na); (fld_32, v_na); (fld_33, v_na); (fld_65, v_false); (fld_66, v_true)]);
    ([tok_2; tok_172], Some [(fld_0, (B "yaml")); (fld_1, (B ";")); (fld_2, v_na); (fld_3, v_na); (fld_8, v_true); (fld_30, (B "csv")); (fld_33, v_na); (fld_39, v_true)]);
    ([tok_2; tok_41; tok_53], Some [(fld_0, (B "yaml")); (fld_1, (B ";")); (fld_2, v_na); (fld_3, v_na); (fld_8, v_true); (fld_30, (B "csv")); (fld_33, v_na)]);
    ([tok_2; tok_173], Some [(fld_0, (B "yaml")); (fld_1, (B ";")); (fld_2, v_na); (fld_3, v_na); (fld_8, v_true)]);
    ([tok_2; tok_41; tok_56], Some [(fld_0, (B "yaml")); (fld_1, (B ";")); (fld_2, v_na); (fld_3, v_na); (fld_8, v_true)]);
    ([tok_2; tok_174], Some [(fld_0, (B "yaml")); (fld_1, (B ";")); (fld_2, v_na); (fld_3, v_na); (fld_8, v_true); (fld_30, (B "json")); (fld_31, v_na); (fld_32, v_na); (fld_33, v_na); (fld_65, v_false)]);
    ([tok_2; tok_41; tok_57], Some [(fld_0, (B "yaml")); (fld_1, (B ";")); (fld_2, v_na); (fld_3, v_na); (fld_8, v_true); (fld_30, (B "json")); (fld_31, v_na); (fld_32, v_na); (fld_33, v_na); (fld_65, v_false)]);
    ([tok_2; tok_175], Some [(fld_0, (B "yaml")); (fld_1, (B ";")); (fld_2, v_na); (fld_3, v_na); (fld_8, v_true); (fld_30, (B "jsonl")); (fld_31, (B "")); (fld_32, (B "")); (fld_33, (B "")); (fld_65, v_false)]);
    ([tok_2; tok_41; tok_58], Some [(fld_0, (B "yaml")); (fld_1, (B ";")); (fld_2, v_na); (fld_3, v_na); (fld_8, v_true); (fld_30, (B "jsonl")); (fld_31, (B "")); (fld_32, (B "")); (fld_33, (B "")); (fld_65, v_false)]);
    ([tok_2; tok_176], Some [(fld_0, (B "yaml")); (fld_1, (B ";")); (fld_2, v_na); (fld_3, v_na); (fld_8, v_true); (fld_30, (B "markdown")); (fld_32, (B " ")); (fld_33, v_na)]);
    ([tok_2; tok_41; tok_59], Some [(fld_0, (B "yaml")); (fld_1, (B ";")); (fld_2, v_na); (fld_3, v_na); (fld_8, v_true); (fld_30, (B "markdown")); (fld_32, (B " ")); (fld_33, v_na)]);
    ([tok_2; tok_177], Some [(fld_0, (B "yaml")); (fld_1, (B ";")); (fld_2, v_na); (fld_3, v_na); (fld_8, v_true); (fld_30, (B "nidx")); (fld_32, (B " ")); (fld_33, v_na); (fld_37, v_true)]);
    ([tok_2; tok_41; tok_61], Some [(fld_0, (B "yaml")); (fld_1, (B ";")); (fld_2, v_na); (fld_3, v_na); (fld_8, v_true); (fld_30, (B "nidx")); (fld_32, (B " ")); (fld_33, v_na); (fld_37, v_true)]);
    ([tok_2; tok_178], Some [(fld_0, (B "yaml")); (fld_1, (B ";")); (fld_2, v_na); (fld_3, v_na); (fld_8, v_true); (fld_30, (B "pprint")); (fld_32, (B " ")); (fld_33, v_na)]);
    ([tok_2; tok_41; tok_62], Some [(fld_0, (B "yaml")); (fld_1, (B ";")); (fld_2, v_na); (fld_3, v_na); (fld_8, v_true); (fld_30, (B "pprint")); (fld_32, (B " ")); (fld_33, v_na)]);
    ([tok_2; tok_179], Some [(fld_0, (B "yaml")); (fld_1, (B ";")); (fld_2, v_na); (fld_3, v_na); (fld_8, v_true); (fld_30, (B "tsv")); (fld_32, (bs [9]%N)); (fld_33, v_na); (fld_37, v_true)]);
    ([tok_2; tok_41; tok_64], Some [(fld_0, (B "yaml")); (fld_1, (B ";")); (fld_2, v_na); (fld_3, v_na); (fld_8, v_true); (fld_30, (B "tsv")); (fld_32, (bs [9]%N)); (fld_33, v_na); (fld_37, v_true)]);
    ([tok_2; tok_180], Some [(fld_0, (B "yaml")); (fld_1, (B ";")); (fld_2, v_na); (fld_3, v_na); (fld_8, v_true); (fld_30, (B "xtab")); (fld_31, (bs [10;10]%N)); (fld_32, (bs [10]%N)); (fld_33, (B " "))]);
    ([tok_2; tok_41; tok_68], Some [(fld_0, (B "yaml")); (fld_1, (B ";")); (fld_2, v_na); (fld_3, v_na); (fld_8, v_true); (fld_30, (B "xtab")); (fld_31, (bs [10;10]%N)); (fld_32, (bs [10]%N)); (fld_33, (B " "))]);
    ([tok_2; tok_83], Some [(fld_0, (B "yaml")); (fld_1, (B ";")); (fld_2, v_na); (fld_3, v_na); (fld_8, v_true); (fld_30, (B "yaml")); (fld_31, v_na); (fld_32, v_na); (fld_33, v_na); (fld_65, v_false)]);
    ([tok_2; tok_41; tok_69], Some [(fld_0, (B "yaml")); (fld_1, (B ";")); (fld_2, v_na); (fld_3, v_na); (fld_8, v_true); (fld_30, (B "yaml")); (fld_31, v_na); (fld_32, v_na); (fld_33, v_na); (fld_65, v_false)]);
    ([tok_2; tok_235], Some [(fld_1, (B ";")); (fld_8, v_true); (fld_12, v_true); (fld_40, v_true)]);
    ([tok_2; tok_207; tok_204], Some [(fld_1, (B ";")); (fld_8, v_true); (fld_12, v_true); (fld_40, v_true)]);
    ([tok_2; tok_182], Some [(fld_0, (B "nidx")); (fld_1, (bs [9]%N)); (fld_2, v_na); (fld_8, v_true); (fld_30, (B "nidx")); (fld_32, (bs [9]%N)); (fld_33, v_na); (fld_37, v_true)]);
    ([tok_2; tok_49; tok_236; tok_237], Some [(fld_0, (B "nidx")); (fld_1, (bs [9]%N)); (fld_2, v_na); (fld_8, v_true); (fld_30, (B "nidx")); (fld_32, (bs [9]%N)); (fld_33, v_na); (fld_37, v_true)]);
    ([tok_2; tok_181], Some [(fld_0, (B "nidx")); (fld_1, (B " ")); (fld_2, v_na); (fld_4, v_true); (fld_8, v_true); (fld_11, v_true); (fld_30, (B "nidx")); (fld_32, (B " ")); (fld_33, v_na); (fld_37, v_true)]);
    ([tok_2; tok_49; tok_236; tok_238; tok_239], Some [(fld_0, (B "nidx")); (fld_1, (B " ")); (fld_2, v_na); (fld_4, v_true); (fld_8, v_true); (fld_11, v_true); (fld_30, (B "nidx")); (fld_32, (B " ")); (fld_33, v_na); (fld_37, v_true)]);
    ([tok_263], Some [(fld_1, (bs [27]%N)); (fld_8, v_true)]);
    ([tok_264], Some [(fld_1, (bs [27]%N)); (fld_8, v_true)]);
    ([tok_265], Some [(fld_1, (bs [3]%N)); (fld_8, v_true)]);
    ([tok_266], Some [(fld_1, (bs [3]%N)); (fld_8, v_true)]);
    ([tok_267], Some [(fld_1, (bs [28]%N)); (fld_8, v_true)]);
    ([tok_268], Some [(fld_1, (bs [28]%N)); (fld_8, v_true)]);
    ([tok_269], Some [(fld_1, (bs [29]%N)); (fld_8, v_true)]);
    ([tok_270], Some [(fld_1, (bs [29]%N)); (fld_8, v_true)]);
    ([tok_271], Some [(fld_1, (bs [0]%N)); (fld_8, v_true)]);
    ([tok_272], Some [(fld_1, (bs [0]%N)); (fld_8, v_true)]);
    ([tok_273], Some [(fld_1, (bs [30]%N)); (fld_8, v_true)]);
    ([tok_274], Some [(fld_1, (bs [30]%N)); (fld_8, v_true)]);
    ([tok_275], Some [(fld_1, (bs [1]%N)); (fld_8, v_true)]);
    ([tok_276], Some [(fld_1, (bs [1]%N)); (fld_8, v_true)]);
    ([tok_277], Some [(fld_1, (bs [2]%N)); (fld_8, v_true)]);
    ([tok_278], Some [(fld_1, (bs [2]%N)); (fld_8, v_true)]);
    ([tok_279], Some [(fld_1, (bs [31]%N)); (fld_8, v_true)]);
    ([tok_280], Some [(fld_1, (bs [31]%N)); (fld_8, v_true)]);
    ([tok_281], Some [(fld_1, (bs [31]%N)); (fld_8, v_true)]);
    ([tok_282], Some [(fld_1, (bs [30]%N)); (fld_8, v_true)]);
    ([tok_283], Some [(fld_1, (B ":")); (fld_8, v_true)]);
    ([tok_4], Some [(fld_1, (B ":")); (fld_8, v_true)]);
    ([tok_284], Some [(fld_8, v_true)]);
    ([tok_285], Some [(fld_8, v_true)]);
    ([tok_286], Some [(fld_1, (bs [13]%N)); (fld_8, v_true)]);
    ([tok_287], Some [(fld_1, (bs [13]%N)); (fld_8, v_true)]);
    ([tok_288], Some [(fld_1, (bs [13;13]%N)); (fld_8, v_true)]);
    ([tok_289], Some [(fld_1, (bs [13;13]%N)); (fld_8, v_true)]);
    ([tok_290], Some [(fld_1, (bs [13;10]%N)); (fld_8, v_true)]);
    ([tok_291], Some [(fld_1, (bs [13;10]%N)); (fld_8, v_true)]);
    ([tok_292], Some [(fld_1, (bs [13;10;13;10]%N)); (fld_8, v_true)]);
    ([tok_293], Some [(fld_1, (bs [13;10;13;10]%N)); (fld_8, v_true)]);
    ([tok_294], Some [(fld_1, (B "=")); (fld_8, v_true)]);
    ([tok_295], Some [(fld_1, (B "=")); (fld_8, v_true)]);
    ([tok_296], Some [(fld_1, (bs [10]%N)); (fld_8, v_true)]);
    ([tok_297], Some [(fld_1, (bs [10]%N)); (fld_8, v_true)]);
    ([tok_298], Some [(fld_1, (bs [10;10]%N)); (fld_8, v_true)]);
    ([tok_299], Some [(fld_1, (bs [10;10]%N)); (fld_8, v_true)]);
    ([tok_300], Some [(fld_1, (bs [10]%N)); (fld_8, v_true)]);
    ([tok_301], Some [(fld_1, (B "|")); (fld_8, v_true)]);
    ([tok_302], Some [(fld_1, (B "|")); (fld_8, v_true)]);
    ([tok_214], Some [(fld_1, (B ";")); (fld_8, v_true)]);
    ([tok_2], Some [(fld_1, (B ";")); (fld_8, v_true)]);
    ([tok_303], Some [(fld_1, (B "/")); (fld_8, v_true)]);
    ([tok_304], Some [(fld_1, (B "/")); (fld_8, v_true)]);
    ([tok_238], Some [(fld_1, (B " ")); (fld_8, v_true)]);
    ([tok_305], Some [(fld_1, (B " ")); (fld_8, v_true)]);
    ([tok_237], Some [(fld_1, (bs [9]%N)); (fld_8, v_true)]);
    ([tok_306], Some [(fld_1, (bs [9]%N)); (fld_8, v_true)]);
    ([tok_307], Some [(fld_1, (bs [226;144;159]%N)); (fld_8, v_true)]);
    ([tok_308], Some [(fld_1, (bs [226;144;159]%N)); (fld_8, v_true)]);
    ([tok_309], Some [(fld_1, (bs [226;144;158]%N)); (fld_8, v_true)]);
    ([tok_310], Some [(fld_1, (bs [226;144;158]%N)); (fld_8, v_true)])]);
  (tok_5, [
    ([tok_2; tok_84], Some [(fld_0, (B "csv")); (fld_2, v_na); (fld_10, v_true); (fld_30, (B "pprint")); (fld_32, (B ";")); (fld_33, v_na); (fld_37, v_true); (fld_41, v_true)]);
    ([tok_2; tok_24; tok_62; tok_233], Some [(fld_0, (B "csv")); (fld_2, v_na); (fld_30, (B "pprint")); (fld_32, (B ";")); (fld_33, v_na); (fld_37, v_true); (fld_41, v_true)]);
    ([tok_2; tok_12], Some [(fld_0, (B "csv")); (fld_2, v_na); (fld_30, (B "csv")); (fld_32, (B ";")); (fld_33, v_na); (fld_37, v_true)]);
    ([tok_2; tok_24; tok_53], Some [(fld_0, (B "csv")); (fld_2, v_na); (fld_30, (B "csv")); (fld_32, (B ";")); (fld_33, v_na); (fld_37, v_true)]);
    ([tok_2; tok_85], Some [(fld_0, (B "csv")); (fld_2, v_na); (fld_10, v_true); (fld_32, (B ";")); (fld_37, v_true)]);
    ([tok_2; tok_24; tok_56], Some [(fld_0, (B "csv")); (fld_2, v_na); (fld_32, (B ";")); (fld_37, v_true)]);
    ([tok_2; tok_86], Some [(fld_0, (B "csv")); (fld_2, v_na); (fld_10, v_true); (fld_30, (B "json")); (fld_31, v_na); (fld_32, (B ";")); (fld_33, v_na); (fld_37, v_true); (fld_65, v_false); (fld_66, v_true)]);
    ([tok_2; tok_24; tok_57], Some [(fld_0, (B "csv")); (fld_2, v_na); (fld_30, (B "json")); (fld_31, v_na); (fld_32, (B ";")); (fld_33, v_na); (fld_37, v_true); (fld_65, v_false); (fld_66, v_true)]);
    ([tok_2; tok_87], Some [(fld_0, (B "csv")); (fld_2, v_na); (fld_10, v_true); (fld_30, (B "jsonl")); (fld_31, (B "")); (fld_32, (B ";")); (fld_33, (B "")); (fld_37, v_true); (fld_65, v_false); (fld_66, v_true)]);
    ([tok_2; tok_24; tok_58], Some [(fld_0, (B "csv")); (fld_2, v_na); (fld_30, (B "jsonl")); (fld_31, (B "")); (fld_32, (B ";")); (fld_33, (B "")); (fld_37, v_true); (fld_65, v_false); (fld_66, v_true)]);
    ([tok_2; tok_88], Some [(fld_0, (B "csv")); (fld_2, v_na); (fld_10, v_true); (fld_30, (B "markdown")); (fld_32, (B ";")); (fld_33, v_na); (fld_37, v_true)]);
    ([tok_2; tok_24; tok_59], Some [(fld_0, (B "csv")); (fld_2, v_na); (fld_30, (B "markdown")); (fld_32, (B ";")); (fld_33, v_na); (fld_37, v_true)]);
    ([tok_2; tok_89], Some [(fld_0, (B "csv")); (fld_2, v_na); (fld_10, v_true); (fld_30, (B "nidx")); (fld_32, (B " ")); (fld_33, v_na); (fld_37, v_true)]);
    ([tok_2; tok_24; tok_61], Some [(fld_0, (B "csv")); (fld_2, v_na); (fld_30, (B "nidx")); (fld_32, (B " ")); (fld_33, v_na); (fld_37, v_true)]);
    ([tok_2; tok_90], Some [(fld_0, (B "csv")); (fld_2, v_na); (fld_10, v_true); (fld_30, (B "pprint")); (fld_32, (B ";")); (fld_33, v_na); (fld_37, v_true)]);
    ([tok_2; tok_24; tok_62], Some [(fld_0, (B "csv")); (fld_2, v_na); (fld_30, (B "pprint")); (fld_32, (B ";")); (fld_33, v_na); (fld_37, v_true)]);
    ([tok_2; tok_91], Some [(fld_0, (B "csv")); (fld_2, v_na); (fld_10, v_true); (fld_30, (B "tsv")); (fld_32, (bs [9]%N)); (fld_33, v_na); (fld_37, v_true)]);
    ([tok_2; tok_24; tok_64], Some [(fld_0, (B "csv")); (fld_2, v_na); (fld_30, (B "tsv")); (fld_32, (bs [9]%N)); (fld_33, v_na); (fld_37, v_true)]);
    ([tok_2; tok_92], Some [(fld_0, (B "csv")); (fld_2, v_na); (fld_10, v_true); (fld_30, (B "xtab")); (fld_31, (bs [10;10]%N)); (fld_32, (B ";")); (fld_33, (B " ")); (fld_37, v_true)]);
    ([tok_2; tok_24; tok_68], Some [(fld_0, (B "csv")); (fld_2, v_na); (fld_30, (B "xtab")); (fld_31, (bs [10;10]%N)); (fld_32, (B ";")); (fld_33, (B " ")); (fld_37, v_true)]);
    ([tok_2; tok_93], Some [(fld_0, (B "csv")); (fld_2, v_na); (fld_10, v_true); (fld_30, (B "yaml")); (fld_31, v_na); (fld_32, (B ";")); (fld_33, v_na); (fld_37, v_true); (fld_65, v_false); (fld_66, v_true)]);
    ([tok_2; tok_24; tok_69], Some [(fld_0, (B "csv")); (fld_2, v_na); (fld_30, (B "yaml")); (fld_31, v_na); (fld_32, (B ";")); (fld_33, v_na); (fld_37, v_true); (fld_65, v_false); (fld_66, v_true)]);
    ([tok_2; tok_94], Some [(fld_30, (B "pprint")); (fld_32, (B ";")); (fld_33, v_na); (fld_37, v_true); (fld_41, v_true)]);
    ([tok_2; tok_27; tok_62; tok_233], Some [(fld_30, (B "pprint")); (fld_32, (B ";")); (fld_33, v_na); (fld_37, v_true); (fld_41, v_true)]);
    ([tok_2; tok_95], Some [(fld_30, (B "csv")); (fld_32, (B ";")); (fld_33, v_na); (fld_37, v_true)]);
    ([tok_2; tok_27; tok_53], Some [(fld_30, (B "csv")); (fld_32, (B ";")); (fld_33, v_na); (fld_37, v_true)]);
    ([tok_2; tok_16], Some [(fld_32, (B ";")); (fld_37, v_true)]);
    ([tok_2; tok_27; tok_56], Some [(fld_32, (B ";")); (fld_37, v_true)]);
    ([tok_2; tok_96], Some [(fld_30, (B "json")); (fld_31, v_na); (fld_32, (B ";")); (fld_33, v_na); (fld_37, v_true); (fld_65, v_false); (fld_66, v_true)]);
    ([tok_2; tok_27; tok_57], Some [(fld_30, (B "json")); (fld_31, v_na); (fld_32, (B ";")); (fld_33, v_na); (fld_37, v_true); (fld_65, v_false); (fld_66, v_true)]);
    ([tok_2; tok_97], Some [(fld_30, (B "jsonl")); (fld_31, (B "")); (fld_32, (B ";")); (fld_33, (B "")); (fld_37, v_true); (fld_65, v_false); (fld_66, v_true)]);
    ([tok_2; tok_27; tok_58], Some [(fld_30, (B "jsonl")); (fld_31, (B "")); (fld_32, (B ";")); (fld_33, (B "")); (fld_37, v_true); (fld_65, v_false); (fld_66, v_true)]);
    ([tok_2; tok_98], Some [(fld_30, (B "markdown")); (fld_32, (B ";")); (fld_33, v_na); (fld_37, v_true)]);
    ([tok_2; tok_27; tok_59], Some [(fld_30, (B "markdown")); (fld_32, (B ";")); (fld_33, v_na); (fld_37, v_true)]);
    ([tok_2; tok_99], Some [(fld_30, (B "nidx")); (fld_32, (B " ")); (fld_33, v_na); (fld_37, v_true)]);
    ([tok_2; tok_27; tok_61], Some [(fld_30, (B "nidx")); (fld_32, (B " ")); (fld_33, v_na); (fld_37, v_true)]);
    ([tok_2; tok_100], Some [(fld_30, (B "pprint")); (fld_32, (B ";")); (fld_33, v_na); (fld_37, v_true)]);
    ([tok_2; tok_27; tok_62], Some [(fld_30, (B "pprint")); (fld_32, (B ";")); (fld_33, v_na); (fld_37, v_true)]);
    ([tok_2; tok_101], Some [(fld_30, (B "tsv")); (fld_32, (bs [9]%N)); (fld_33, v_na); (fld_37, v_true); (fld_39, v_true)]);
    ([tok_2; tok_27; tok_64], Some [(fld_30, (B "tsv")); (fld_32, (bs [9]%N)); (fld_33, v_na); (fld_37, v_true)]);
    ([tok_2; tok_102], Some [(fld_30, (B "xtab")); (fld_31, (bs [10;10]%N)); (fld_32, (B ";")); (fld_33, (B " ")); (fld_37, v_true)]);
    ([tok_2; tok_27; tok_68], Some [(fld_30, (B "xtab")); (fld_31, (bs [10;10]%N)); (fld_32, (B ";")); (fld_33, (B " ")); (fld_37, v_true)]);
    ([tok_2; tok_103], Some [(fld_30, (B "yaml")); (fld_31, v_na); (fld_32, (B ";")); (fld_33, v_na); (fld_37, v_true); (fld_65, v_false); (fld_66, v_true)]);
    ([tok_2; tok_27; tok_69], Some [(fld_30, (B "yaml")); (fld_31, v_na); (fld_32, (B ";")); (fld_33, v_na); (fld_37, v_true); (fld_65, v_false); (fld_66, v_true)]);
    ([tok_2; tok_104], Some [(fld_0, (B "json")); (fld_1, v_na); (fld_2, v_na); (fld_3, v_na); (fld_30, (B "pprint")); (fld_32, (B ";")); (fld_33, v_na); (fld_37, v_true); (fld_41, v_true)]);
    ([tok_2; tok_29; tok_62; tok_233], Some [(fld_0, (B "json")); (fld_1, v_na); (fld_2, v_na); (fld_3, v_na); (fld_30, (B "pprint")); (fld_32, (B ";")); (fld_33, v_na); (fld_37, v_true); (fld_41, v_true)]);
    ([tok_2; tok_105], Some [(fld_0, (B "json")); (fld_1, v_na); (fld_2, v_na); (fld_3, v_na); (fld_30, (B "csv")); (fld_32, (B ";")); (fld_33, v_na); (fld_37, v_true); (fld_39, v_true)]);
    ([tok_2; tok_29; tok_53], Some [(fld_0, (B "json")); (fld_1, v_na); (fld_2, v_na); (fld_3, v_na); (fld_30, (B "csv")); (fld_32, (B ";")); (fld_33, v_na); (fld_37, v_true)]);
    ([tok_2; tok_106], Some [(fld_0, (B "json")); (fld_1, v_na); (fld_2, v_na); (fld_3, v_na); (fld_32, (B ";")); (fld_37, v_true)]);
    ([tok_2; tok_29; tok_56], Some [(fld_0, (B "json")); (fld_1, v_na); (fld_2, v_na); (fld_3, v_na); (fld_32, (B ";")); (fld_37, v_true)]);
    ([tok_2; tok_44], Some [(fld_0, (B "json")); (fld_1, v_na); (fld_2, v_na); (fld_3, v_na); (fld_30, (B "json")); (fld_31, v_na); (fld_32, (B ";")); (fld_33, v_na); (fld_37, v_true); (fld_65, v_false)]);
    ([tok_2; tok_29; tok_57], Some [(fld_0, (B "json")); (fld_1, v_na); (fld_2, v_na); (fld_3, v_na); (fld_30, (B "json")); (fld_31, v_na); (fld_32, (B ";")); (fld_33, v_na); (fld_37, v_true); (fld_65, v_false)]);
    ([tok_2; tok_107], Some [(fld_0, (B "json")); (fld_1, v_na); (fld_2, v_na); (fld_3, v_na); (fld_30, (B "jsonl")); (fld_31, (B "")); (fld_32, (B ";")); (fld_33, (B "")); (fld_37, v_true); (fld_65, v_false)]);
    ([tok_2; tok_29; tok_58], Some [(fld_0, (B "json")); (fld_1, v_na); (fld_2, v_na); (fld_3, v_na); (fld_30, (B "jsonl")); (fld_31, (B "")); (fld_32, (B ";")); (fld_33, (B "")); (fld_37, v_true); (fld_65, v_false)]);
    ([tok_2; tok_108], Some [(fld_0, (B "json")); (fld_1, v_na); (fld_2, v_na); (fld_3, v_na); (fld_30, (B "markdown")); (fld_32, (B ";")); (fld_33, v_na); (fld_37, v_true)]);
    ([tok_2; tok_29; tok_59], Some [(fld_0, (B "json")); (fld_1, v_na); (fld_2, v_na); (fld_3, v_na); (fld_30, (B "markdown")); (fld_32, (B ";")); (fld_33, v_na); (fld_37, v_true)]);
    ([tok_2; tok_109], Some [(fld_0, (B "json")); (fld_1, v_na); (fld_2, v_na); (fld_3, v_na); (fld_30, (B "nidx")); (fld_32, (B " ")); (fld_33, v_na); (fld_37, v_true)]);
    ([tok_2; tok_29; tok_61], Some [(fld_0, (B "json")); (fld_1, v_na); (fld_2, v_na); (fld_3, v_na); (fld_30, (B "nidx")); (fld_32, (B " ")); (fld_33, v_na); (fld_37, v_true)]);
    ([tok_2; tok_110], Some [(fld_0, (B "json")); (fld_1, v_na); (fld_2, v_na); (fld_3, v_na); (fld_30, (B "pprint")); (fld_32, (B ";")); (fld_33, v_na); (fld_37, v_true)]);
    ([tok_2; tok_29; tok_62], Some [(fld_0, (B "json")); (fld_1, v_na); (fld_2, v_na); (fld_3, v_na); (fld_30, (B "pprint")); (fld_32, (B ";")); (fld_33, v_na); (fld_37, v_true)]);
    ([tok_2; tok_111], Some [(fld_0, (B "json")); (fld_1, v_na); (fld_2, v_na); (fld_3, v_na); (fld_30, (B "tsv")); (fld_32, (bs [9]%N)); (fld_33, v_na); (fld_37, v_true)]);
    ([tok_2; tok_29; tok_64], Some [(fld_0, (B "json")); (fld_1, v_na); (fld_2, v_na); (fld_3, v_na); (fld_30, (B "tsv")); (fld_32, (bs [9]%N)); (fld_33, v_na); (fld_37, v_true)]);
    ([tok_2; tok_112], Some [(fld_0, (B "json")); (fld_1, v_na); (fld_2, v_na); (fld_3, v_na); (fld_30, (B "xtab")); (fld_31, (bs [10;10]%N)); (fld_32, (B ";")); (fld_33, (B " ")); (fld_37, v_true)]);
    ([tok_2; tok_29; tok_68], Some [(fld_0, (B "json")); (fld_1, v_na); (fld_2, v_na); (fld_3, v_na); (fld_30, (B "xtab")); (fld_31, (bs [10;10]%N)); (fld_32, (B ";")); (fld_33, (B " ")); (fld_37, v_true)]);
    ([tok_2; tok_113], Some [(fld_0, (B "json")); (fld_1, v_na); (fld_2, v_na); (fld_3, v_na); (fld_30, (B "yaml")); (fld_31, v_na); (fld_32, (B ";")); (fld_33, v_na); (fld_37, v_true); (fld_65, v_false)]);
    ([tok_2; tok_29; tok_69], Some [(fld_0, (B "json")); (fld_1, v_na); (fld_2, v_na); (fld_3, v_na); (fld_30, (B "yaml")); (fld_31, v_na); (fld_32, (B ";")); (fld_33, v_na); (fld_37, v_true); (fld_65, v_false)]);
    ([tok_2; tok_114], Some [(fld_0, (B "json")); (fld_1, v_na); (fld_2, v_na); (fld_3, v_na); (fld_30, (B "pprint")); (fld_32, (B ";")); (fld_33, v_na); (fld_37, v_true); (fld_41, v_true)]);
    ([tok_2; tok_30; tok_62; tok_233], Some [(fld_0, (B "json")); (fld_1, v_na); (fld_2, v_na); (fld_3, v_na); (fld_30, (B "pprint")); (fld_32, (B ";")); (fld_33, v_na); (fld_37, v_true); (fld_41, v_true)]);
    ([tok_2; tok_115], Some [(fld_0, (B "json")); (fld_1, v_na); (fld_2, v_na); (fld_3, v_na); (fld_30, (B "csv")); (fld_32, (B ";")); (fld_33, v_na); (fld_37, v_true); (fld_39, v_true)]);
    ([tok_2; tok_30; tok_53], Some [(fld_0, (B "json")); (fld_1, v_na); (fld_2, v_na); (fld_3, v_na); (fld_30, (B "csv")); (fld_32, (B ";")); (fld_33, v_na); (fld_37, v_true)]);
    ([tok_2; tok_116], Some [(fld_0, (B "json")); (fld_1, v_na); (fld_2, v_na); (fld_3, v_na); (fld_32, (B ";")); (fld_37, v_true)]);
    ([tok_2; tok_30; tok_56], Some [(fld_0, (B "json")); (fld_1, v_na); (fld_2, v_na); (fld_3, v_na); (fld_32, (B ";")); (fld_37, v_true)]);
    ([tok_2; tok_117], Some [(fld_0, (B "json")); (fld_1, v_na); (fld_2, v_na); (fld_3, v_na); (fld_30, (B "json")); (fld_31, v_na); (fld_32, (B ";")); (fld_33, v_na); (fld_37, v_true); (fld_65, v_false)]);
    ([tok_2; tok_30; tok_57], Some [(fld_0, (B "json")); (fld_1, v_na); (fld_2, v_na); (fld_3, v_na); (fld_30, (B "json")); (fld_31, v_na); (fld_32, (B ";")); (fld_33, v_na); (fld_37, v_true); (fld_65, v_false)]);
    ([tok_2; tok_46], Some [(fld_0, (B "json")); (fld_1, v_na); (fld_2, v_na); (fld_3, v_na); (fld_30, (B "jsonl")); (fld_31, (B "")); (fld_32, (B ";")); (fld_33, (B "")); (fld_37, v_true); (fld_65, v_false)]);
    ([tok_2; tok_30; tok_58], Some [(fld_0, (B "json")); (fld_1, v_na); (fld_2, v_na); (fld_3, v_na); (fld_30, (B "jsonl")); (fld_31, (B "")); (fld_32, (B ";")); (fld_33, (B "")); (fld_37, v_true); (fld_65, v_false)]);
    ([tok_2; tok_118], Some [(fld_0, (B "json")); (fld_1, v_na); (fld_2, v_na); (fld_3, v_na); (fld_30, (B "markdown")); (fld_32, (B ";")); (fld_33, v_na); (fld_37, v_true)]);
    ([tok_2; tok_30; tok_59], Some [(fld_0, (B "json")); (fld_1, v_na); (fld_2, v_na); (fld_3, v_na); (fld_30, (B "markdown")); (fld_32, (B ";")); (fld_33, v_na); (fld_37, v_true)]);
    ([tok_2; tok_119], Some [(fld_0, (B "json")); (fld_1, v_na); (fld_2, v_na); (fld_3, v_na); (fld_30, (B "nidx")); (fld_32, (B " ")); (fld_33, v_na); (fld_37, v_true)]);
    ([tok_2; tok_30; tok_61], Some [(fld_0, (B "json")); (fld_1, v_na); (fld_2, v_na); (fld_3, v_na); (fld_30, (B "nidx")); (fld_32, (B " ")); (fld_33, v_na); (fld_37, v_true)]);
    ([tok_2; tok_120], Some [(fld_0, (B "json")); (fld_1, v_na); (fld_2, v_na); (fld_3, v_na); (fld_30, (B "pprint")); (fld_32, (B ";")); (fld_33, v_na); (fld_37, v_true)]);
    ([tok_2; tok_30; tok_62], Some [(fld_0, (B "json")); (fld_1, v_na); (fld_2, v_na); (fld_3, v_na); (fld_30, (B "pprint")); (fld_32, (B ";")); (fld_33, v_na); (fld_37, v_true)]);
    ([tok_2; tok_121], Some [(fld_0, (B "json")); (fld_1, v_na); (fld_2, v_na); (fld_3, v_na); (fld_30, (B "tsv")); (fld_32, (bs [9]%N)); (fld_33, v_na); (fld_37, v_true)]);
    ([tok_2; tok_30; tok_64], Some [(fld_0, (B "json")); (fld_1, v_na); (fld_2, v_na); (fld_3, v_na); (fld_30, (B "tsv")); (fld_32, (bs [9]%N)); (fld_33, v_na); (fld_37, v_true)]);
    ([tok_2; tok_122], Some [(fld_0, (B "json")); (fld_1, v_na); (fld_2, v_na); (fld_3, v_na); (fld_30, (B "xtab")); (fld_31, (bs [10;10]%N)); (fld_32, (B ";")); (fld_33, (B " ")); (fld_37, v_true)]);
    ([tok_2; tok_30; tok_68], Some [(fld_0, (B "json")); (fld_1, v_na); (fld_2, v_na); (fld_3, v_na); (fld_30, (B "xtab")); (fld_31, (bs [10;10]%N)); (fld_32, (B ";")); (fld_33, (B " ")); (fld_37, v_true)]);
    ([tok_2; tok_123], Some [(fld_0, (B "json")); (fld_1, v_na); (fld_2, v_na); (fld_3, v_na); (fld_30, (B "yaml")); (fld_31, v_na); (fld_32, (B ";")); (fld_33, v_na); (fld_37, v_true); (fld_65, v_false)]);
    ([tok_2; tok_30; tok_69], Some [(fld_0, (B "json")); (fld_1, v_na); (fld_2, v_na); (fld_3, v_na); (fld_30, (B "yaml")); (fld_31, v_na); (fld_32, (B ";")); (fld_33, v_na); (fld_37, v_true); (fld_65, v_false)]);
    ([tok_2; tok_124], Some [(fld_0, (B "markdown")); (fld_1, (B " ")); (fld_2, v_na); (fld_30, (B "csv")); (fld_32, (B ";")); (fld_33, v_na); (fld_37, v_true); (fld_39, v_true)]);
    ([tok_2; tok_31; tok_53], Some [(fld_0, (B "markdown")); (fld_1, (B " ")); (fld_2, v_na); (fld_30, (B "csv")); (fld_32, (B ";")); (fld_33, v_na); (fld_37, v_true)]);
    ([tok_2; tok_125], Some [(fld_0, (B "markdown")); (fld_1, (B " ")); (fld_2, v_na); (fld_32, (B ";")); (fld_37, v_true)]);
    ([tok_2; tok_31; tok_56], Some [(fld_0, (B "markdown")); (fld_1, (B " ")); (fld_2, v_na); (fld_32, (B ";")); (fld_37, v_true)]);
    ([tok_2; tok_126], Some [(fld_0, (B "markdown")); (fld_1, (B " ")); (fld_2, v_na); (fld_30, (B "json")); (fld_31, v_na); (fld_32, (B ";")); (fld_33, v_na); (fld_37, v_true); (fld_65, v_false); (fld_66, v_true)]);
    ([tok_2; tok_31; tok_57], Some [(fld_0, (B "markdown")); (fld_1, (B " ")); (fld_2, v_na); (fld_30, (B "json")); (fld_31, v_na); (fld_32, (B ";")); (fld_33, v_na); (fld_37, v_true); (fld_65, v_false); (fld_66, v_true)]);
    ([tok_2; tok_127], Some [(fld_0, (B "markdown")); (fld_1, (B " ")); (fld_2, v_na); (fld_30, (B "jsonl")); (fld_31, (B "")); (fld_32, (B ";")); (fld_33, (B "")); (fld_37, v_true); (fld_65, v_false); (fld_66, v_true)]);
    ([tok_2; tok_31; tok_58], Some [(fld_0, (B "markdown")); (fld_1, (B " ")); (fld_2, v_na); (fld_30, (B "jsonl")); (fld_31, (B "")); (fld_32, (B ";")); (fld_33, (B "")); (fld_37, v_true); (fld_65, v_false); (fld_66, v_true)]);
    ([tok_2; tok_128], Some [(fld_0, (B "markdown")); (fld_1, (B " ")); (fld_2, v_na); (fld_30, (B "nidx")); (fld_32, (B " ")); (fld_33, v_na); (fld_37, v_true)]);
    ([tok_2; tok_31; tok_61], Some [(fld_0, (B "markdown")); (fld_1, (B " ")); (fld_2, v_na); (fld_30, (B "nidx")); (fld_32, (B " ")); (fld_33, v_na); (fld_37, v_true)]);
    ([tok_2; tok_129], Some [(fld_0, (B "markdown")); (fld_1, (B " ")); (fld_2, v_na); (fld_30, (B "pprint")); (fld_32, (B ";")); (fld_33, v_na); (fld_37, v_true)]);
    ([tok_2; tok_31; tok_62], Some [(fld_0, (B "markdown")); (fld_1, (B " ")); (fld_2, v_na); (fld_30, (B "pprint")); (fld_32, (B ";")); (fld_33, v_na); (fld_37, v_true)]);
    ([tok_2; tok_130], Some [(fld_0, (B "markdown")); (fld_1, (B " ")); (fld_2, v_na); (fld_30, (B "tsv")); (fld_32, (bs [9]%N)); (fld_33, v_na); (fld_37, v_true)]);
    ([tok_2; tok_31; tok_64], Some [(fld_0, (B "markdown")); (fld_1, (B " ")); (fld_2, v_na); (fld_30, (B "tsv")); (fld_32, (bs [9]%N)); (fld_33, v_na); (fld_37, v_true)]);
    ([tok_2; tok_131], Some [(fld_0, (B "markdown")); (fld_1, (B " ")); (fld_2, v_na); (fld_30, (B "xtab")); (fld_31, (bs [10;10]%N)); (fld_32, (B ";")); (fld_33, (B " ")); (fld_37, v_true)]);
    ([tok_2; tok_31; tok_68], Some [(fld_0, (B "markdown")); (fld_1, (B " ")); (fld_2, v_na); (fld_30, (B "xtab")); (fld_31, (bs [10;10]%N)); (fld_32, (B ";")); (fld_33, (B " ")); (fld_37, v_true)]);
    ([tok_2; tok_132], Some [(fld_0, (B "markdown")); (fld_1, (B " ")); (fld_2, v_na); (fld_30, (B "yaml")); (fld_31, v_na); (fld_32, (B ";")); (fld_33, v_na); (fld_37, v_true); (fld_65, v_false); (fld_66, v_true)]);
    ([tok_2; tok_31; tok_69], Some [(fld_0, (B "markdown")); (fld_1, (B " ")); (fld_2, v_na); (fld_30, (B "yaml")); (fld_31, v_na); (fld_32, (B ";")); (fld_33, v_na); (fld_37, v_true); (fld_65, v_false); (fld_66, v_true)]);
    ([tok_2; tok_198], Some [(fld_0, (B "markdown")); (fld_1, (B " ")); (fld_2, v_na); (fld_30, (B "markdown")); (fld_32, (B ";")); (fld_33, v_na); (fld_37, v_true); (fld_45, v_true)]);
    ([tok_2; tok_47; tok_199], Some [(fld_0, (B "markdown")); (fld_1, (B " ")); (fld_2, v_na); (fld_30, (B "markdown")); (fld_32, (B ";")); (fld_33, v_na); (fld_37, v_true); (fld_45, v_true)]);
    ([tok_2; tok_197], Some [(fld_0, (B "markdown")); (fld_1, (B " ")); (fld_2, v_na); (fld_30, (B "markdown")); (fld_32, (B ";")); (fld_33, v_na); (fld_37, v_true); (fld_45, v_true)]);
    ([tok_2; tok_133], Some [(fld_0, (B "nidx")); (fld_1, (B " ")); (fld_2, v_na); (fld_5, (B "([ \t])+")); (fld_30, (B "pprint")); (fld_32, (B ";")); (fld_33, v_na); (fld_37, v_true); (fld_41, v_true)]);
    ([tok_2; tok_33; tok_62; tok_233], Some [(fld_0, (B "nidx")); (fld_1, (B " ")); (fld_2, v_na); (fld_5, (B "([ \t])+")); (fld_30, (B "pprint")); (fld_32, (B ";")); (fld_33, v_na); (fld_37, v_true); (fld_41, v_true)]);
    ([tok_2; tok_134], Some [(fld_0, (B "nidx")); (fld_1, (B " ")); (fld_2, v_na); (fld_5, (B "([ \t])+")); (fld_30, (B "csv")); (fld_32, (B ";")); (fld_33, v_na); (fld_37, v_true); (fld_39, v_true)]);
    ([tok_2; tok_33; tok_53], Some [(fld_0, (B "nidx")); (fld_1, (B " ")); (fld_2, v_na); (fld_5, (B "([ \t])+")); (fld_30, (B "csv")); (fld_32, (B ";")); (fld_33, v_na); (fld_37, v_true)]);
    ([tok_2; tok_135], Some [(fld_0, (B "nidx")); (fld_1, (B " ")); (fld_2, v_na); (fld_5, (B "([ \t])+")); (fld_32, (B ";")); (fld_37, v_true)]);
    ([tok_2; tok_33; tok_56], Some [(fld_0, (B "nidx")); (fld_1, (B " ")); (fld_2, v_na); (fld_5, (B "([ \t])+")); (fld_32, (B ";")); (fld_37, v_true)]);
    ([tok_2; tok_136], Some [(fld_0, (B "nidx")); (fld_1, (B " ")); (fld_2, v_na); (fld_5, (B "([ \t])+")); (fld_30, (B "json")); (fld_31, v_na); (fld_32, (B ";")); (fld_33, v_na); (fld_37, v_true); (fld_65, v_false); (fld_66, v_true)]);
    ([tok_2; tok_33; tok_57], Some [(fld_0, (B "nidx")); (fld_1, (B " ")); (fld_2, v_na); (fld_5, (B "([ \t])+")); (fld_30, (B "json")); (fld_31, v_na); (fld_32, (B ";")); (fld_33, v_na); (fld_37, v_true); (fld_65, v_false); (fld_66, v_true)]);
    ([tok_2; tok_137], Some [(fld_0, (B "nidx")); (fld_1, (B " ")); (fld_2, v_na); (fld_5, (B "([ \t])+")); (fld_30, (B "jsonl")); (fld_31, (B "")); (fld_32, (B ";")); (fld_33, (B "")); (fld_37, v_true); (fld_65, v_false); (fld_66, v_true)]);
    ([tok_2; tok_33; tok_58], Some [(fld_0, (B "nidx")); (fld_1, (B " ")); (fld_2, v_na); (fld_5, (B "([ \t])+")); (fld_30, (B "jsonl")); (fld_31, (B "")); (fld_32, (B ";")); (fld_33, (B "")); (fld_37, v_true); (fld_65, v_false); (fld_66, v_true)]);
    ([tok_2; tok_138], Some [(fld_0, (B "nidx")); (fld_1, (B " ")); (fld_2, v_na); (fld_5, (B "([ \t])+")); (fld_30, (B "markdown")); (fld_32, (B ";")); (fld_33, v_na); (fld_37, v_true)]);
    ([tok_2; tok_33; tok_59], Some [(fld_0, (B "nidx")); (fld_1, (B " ")); (fld_2, v_na); (fld_5, (B "([ \t])+")); (fld_30, (B "markdown")); (fld_32, (B ";")); (fld_33, v_na); (fld_37, v_true)]);
    ([tok_2; tok_50], Some [(fld_0, (B "nidx")); (fld_1, (B " ")); (fld_2, v_na); (fld_5, (B "([ \t])+")); (fld_30, (B "nidx")); (fld_32, (B " ")); (fld_33, v_na); (fld_37, v_true)]);
    ([tok_2; tok_33; tok_61], Some [(fld_0, (B "nidx")); (fld_1, (B " ")); (fld_2, v_na); (fld_5, (B "([ \t])+")); (fld_30, (B "nidx")); (fld_32, (B " ")); (fld_33, v_na); (fld_37, v_true)]);
    ([tok_2; tok_139], Some [(fld_0, (B "nidx")); (fld_1, (B " ")); (fld_2, v_na); (fld_5, (B "([ \t])+")); (fld_30, (B "pprint")); (fld_32, (B ";")); (fld_33, v_na); (fld_37, v_true)]);
    ([tok_2; tok_33; tok_62], Some [(fld_0, (B "nidx")); (fld_1, (B " ")); (fld_2, v_na); (fld_5, (B "([ \t])+")); (fld_30, (B "pprint")); (fld_32, (B ";")); (fld_33, v_na); (fld_37, v_true)]);
    ([tok_2; tok_140], Some [(fld_0, (B "nidx")); (fld_1, (B " ")); (fld_2, v_na); (fld_5, (B "([ \t])+")); (fld_30, (B "tsv")); (fld_32, (bs [9]%N)); (fld_33, v_na); (fld_37, v_true)]);
    ([tok_2; tok_33; tok_64], Some [(fld_0, (B "nidx")); (fld_1, (B " ")); (fld_2, v_na); (fld_5, (B "([ \t])+")); (fld_30, (B "tsv")); (fld_32, (bs [9]%N)); (fld_33, v_na); (fld_37, v_true)]);
    ([tok_2; tok_141], Some [(fld_0, (B "nidx")); (fld_1, (B " ")); (fld_2, v_na); (fld_5, (B "([ \t])+")); (fld_30, (B "xtab")); (fld_31, (bs [10;10]%N)); (fld_32, (B ";")); (fld_33, (B " ")); (fld_37, v_true)]);
    ([tok_2; tok_33; tok_68], Some [(fld_0, (B "nidx")); (fld_1, (B " ")); (fld_2, v_na); (fld_5, (B "([ \t])+")); (fld_30, (B "xtab")); (fld_31, (bs [10;10]%N)); (fld_32, (B ";")); (fld_33, (B " ")); (fld_37, v_true)]);
    ([tok_2; tok_142], Some [(fld_0, (B "nidx")); (fld_1, (B " ")); (fld_2, v_na); (fld_5, (B "([ \t])+")); (fld_30, (B "yaml")); (fld_31, v_na); (fld_32, (B ";")); (fld_33, v_na); (fld_37, v_true); (fld_65, v_false); (fld_66, v_true)]);
    ([tok_2; tok_33; tok_69], Some [(fld_0, (B "nidx")); (fld_1, (B " ")); (fld_2, v_na); (fld_5, (B "([ \t])+")); (fld_30, (B "yaml")); (fld_31, v_na); (fld_32, (B ";")); (fld_33, v_na); (fld_37, v_true); (fld_65, v_false); (fld_66, v_true)]);
    ([tok_2; tok_143], Some [(fld_0, (B "pprint")); (fld_1, (B " ")); (fld_2, v_na); (fld_4, v_true); (fld_8, v_true); (fld_30, (B "csv")); (fld_32, (B ";")); (fld_33, v_na); (fld_37, v_true); (fld_39, v_true)]);
    ([tok_2; tok_34; tok_53], Some [(fld_0, (B "pprint")); (fld_1, (B " ")); (fld_2, v_na); (fld_4, v_true); (fld_8, v_true); (fld_30, (B "csv")); (fld_32, (B ";")); (fld_33, v_na); (fld_37, v_true)]);
    ([tok_2; tok_144], Some [(fld_0, (B "pprint")); (fld_1, (B " ")); (fld_2, v_na); (fld_4, v_true); (fld_8, v_true); (fld_32, (B ";")); (fld_37, v_true)]);
    ([tok_2; tok_34; tok_56], Some [(fld_0, (B "pprint")); (fld_1, (B " ")); (fld_2, v_na); (fld_4, v_true); (fld_8, v_true); (fld_32, (B ";")); (fld_37, v_true)]);
    ([tok_2; tok_145], Some [(fld_0, (B "pprint")); (fld_1, (B " ")); (fld_2, v_na); (fld_4, v_true); (fld_8, v_true); (fld_30, (B "json")); (fld_31, v_na); (fld_32, (B ";")); (fld_33, v_na); (fld_37, v_true); (fld_65, v_false); (fld_66, v_true)]);
    ([tok_2; tok_34; tok_57], Some [(fld_0, (B "pprint")); (fld_1, (B " ")); (fld_2, v_na); (fld_4, v_true); (fld_8, v_true); (fld_30, (B "json")); (fld_31, v_na); (fld_32, (B ";")); (fld_33, v_na); (fld_37, v_true); (fld_65, v_false); (fld_66, v_true)]);
    ([tok_2; tok_146], Some [(fld_0, (B "pprint")); (fld_1, (B " ")); (fld_2, v_na); (fld_4, v_true); (fld_8, v_true); (fld_30, (B "jsonl")); (fld_31, (B "")); (fld_32, (B ";")); (fld_33, (B "")); (fld_37, v_true); (fld_65, v_false); (fld_66, v_true)]);
    ([tok_2; tok_34; tok_58], Some [(fld_0, (B "pprint")); (fld_1, (B " ")); (fld_2, v_na); (fld_4, v_true); (fld_8, v_true); (fld_30, (B "jsonl")); (fld_31, (B "")); (fld_32, (B ";")); (fld_33, (B "")); (fld_37, v_true); (fld_65, v_false); (fld_66, v_true)]);
    ([tok_2; tok_147], Some [(fld_0, (B "pprint")); (fld_1, (B " ")); (fld_2, v_na); (fld_4, v_true); (fld_8, v_true); (fld_30, (B "markdown")); (fld_32, (B ";")); (fld_33, v_na); (fld_37, v_true)]);
    ([tok_2; tok_34; tok_59], Some [(fld_0, (B "pprint")); (fld_1, (B " ")); (fld_2, v_na); (fld_4, v_true); (fld_8, v_true); (fld_30, (B "markdown")); (fld_32, (B ";")); (fld_33, v_na); (fld_37, v_true)]);
    ([tok_2; tok_148], Some [(fld_0, (B "pprint")); (fld_1, (B " ")); (fld_2, v_na); (fld_4, v_true); (fld_8, v_true); (fld_30, (B "nidx")); (fld_32, (B " ")); (fld_33, v_na); (fld_37, v_true)]);
    ([tok_2; tok_34; tok_61], Some [(fld_0, (B "pprint")); (fld_1, (B " ")); (fld_2, v_na); (fld_4, v_true); (fld_8, v_true); (fld_30, (B "nidx")); (fld_32, (B " ")); (fld_33, v_na); (fld_37, v_true)]);
    ([tok_2; tok_71], Some [(fld_0, (B "pprint")); (fld_1, (B " ")); (fld_2, v_na); (fld_4, v_true); (fld_8, v_true); (fld_30, (B "pprint")); (fld_32, (B ";")); (fld_33, v_na); (fld_37, v_true)]);
    ([tok_2; tok_34; tok_62], Some [(fld_0, (B "pprint")); (fld_1, (B " ")); (fld_2, v_na); (fld_4, v_true); (fld_8, v_true); (fld_30, (B "pprint")); (fld_32, (B ";")); (fld_33, v_na); (fld_37, v_true)]);
    ([tok_2; tok_149], Some [(fld_0, (B "pprint")); (fld_1, (B " ")); (fld_2, v_na); (fld_4, v_true); (fld_8, v_true); (fld_30, (B "tsv")); (fld_32, (bs [9]%N)); (fld_33, v_na); (fld_37, v_true)]);
    ([tok_2; tok_34; tok_64], Some [(fld_0, (B "pprint")); (fld_1, (B " ")); (fld_2, v_na); (fld_4, v_true); (fld_8, v_true); (fld_30, (B "tsv")); (fld_32, (bs [9]%N)); (fld_33, v_na); (fld_37, v_true)]);
    ([tok_2; tok_150], Some [(fld_0, (B "pprint")); (fld_1, (B " ")); (fld_2, v_na); (fld_4, v_true); (fld_8, v_true); (fld_30, (B "xtab")); (fld_31, (bs [10;10]%N)); (fld_32, (B ";")); (fld_33, (B " ")); (fld_37, v_true)]);
    ([tok_2; tok_34; tok_68], Some [(fld_0, (B "pprint")); (fld_1, (B " ")); (fld_2, v_na); (fld_4, v_true); (fld_8, v_true); (fld_30, (B "xtab")); (fld_31, (bs [10;10]%N)); (fld_32, (B ";")); (fld_33, (B " ")); (fld_37, v_true)]);
    ([tok_2; tok_151], Some [(fld_0, (B "pprint")); (fld_1, (B " ")); (fld_2, v_na); (fld_4, v_true); (fld_8, v_true); (fld_30, (B "yaml")); (fld_31, v_na); (fld_32, (B ";")); (fld_33, v_na); (fld_37, v_true); (fld_65, v_false); (fld_66, v_true)]);
    ([tok_2; tok_34; tok_69], Some [(fld_0, (B "pprint")); (fld_1, (B " ")); (fld_2, v_na); (fld_4, v_true); (fld_8, v_true); (fld_30, (B "yaml")); (fld_31, v_na); (fld_32, (B ";")); (fld_33, v_na); (fld_37, v_true); (fld_65, v_false); (fld_66, v_true)]);
    ([tok_2; tok_152], Some [(fld_0, (B "tsv")); (fld_1, (bs [9]%N)); (fld_2, v_na); (fld_30, (B "pprint")); (fld_32, (B ";")); (fld_33, v_na); (fld_37, v_true); (fld_41, v_true)]);
    ([tok_2; tok_36; tok_62; tok_233], Some [(fld_0, (B "tsv")); (fld_1, (bs [9]%N)); (fld_2, v_na); (fld_30, (B "pprint")); (fld_32, (B ";")); (fld_33, v_na); (fld_37, v_true); (fld_41, v_true)]);
    ([tok_2; tok_153], Some [(fld_0, (B "tsv")); (fld_1, (bs [9]%N)); (fld_2, v_na); (fld_30, (B "csv")); (fld_32, (B ";")); (fld_33, v_na); (fld_37, v_true)]);
    ([tok_2; tok_36; tok_53], Some [(fld_0, (B "tsv")); (fld_1, (bs [9]%N)); (fld_2, v_na); (fld_30, (B "csv")); (fld_32, (B ";")); (fld_33, v_na); (fld_37, v_true)]);
    ([tok_2; tok_154], Some [(fld_0, (B "tsv")); (fld_1, (bs [9]%N)); (fld_2, v_na); (fld_32, (B ";")); (fld_37, v_true)]);
    ([tok_2; tok_36; tok_56], Some [(fld_0, (B "tsv")); (fld_1, (bs [9]%N)); (fld_2, v_na); (fld_32, (B ";")); (fld_37, v_true)]);
    ([tok_2; tok_155], Some [(fld_0, (B "tsv")); (fld_1, (bs [9]%N)); (fld_2, v_na); (fld_30, (B "json")); (fld_31, v_na); (fld_32, (B ";")); (fld_33, v_na); (fld_37, v_true); (fld_65, v_false); (fld_66, v_true)]);
    ([tok_2; tok_36; tok_57], Some [(fld_0, (B "tsv")); (fld_1, (bs [9]%N)); (fld_2, v_na); (fld_30, (B "json")); (fld_31, v_na); (fld_32, (B ";")); (fld_33, v_na); (fld_37, v_true); (fld_65, v_false); (fld_66, v_true)]);
    ([tok_2; tok_156], Some [(fld_0, (B "tsv")); (fld_1, (bs [9]%N)); (fld_2, v_na); (fld_30, (B "jsonl")); (fld_31, (B "")); (fld_32, (B ";")); (fld_33, (B "")); (fld_37, v_true); (fld_65, v_false); (fld_66, v_true)]);
    ([tok_2; tok_36; tok_58], Some [(fld_0, (B "tsv")); (fld_1, (bs [9]%N)); (fld_2, v_na); (fld_30, (B "jsonl")); (fld_31, (B "")); (fld_32, (B ";")); (fld_33, (B "")); (fld_37, v_true); (fld_65, v_false); (fld_66, v_true)]);
    ([tok_2; tok_157], Some [(fld_0, (B "tsv")); (fld_1, (bs [9]%N)); (fld_2, v_na); (fld_30, (B "markdown")); (fld_32, (B ";")); (fld_33, v_na); (fld_37, v_true)]);
    ([tok_2; tok_36; tok_59], Some [(fld_0, (B "tsv")); (fld_1, (bs [9]%N)); (fld_2, v_na); (fld_30, (B "markdown")); (fld_32, (B ";")); (fld_33, v_na); (fld_37, v_true)]);
    ([tok_2; tok_158], Some [(fld_0, (B "tsv")); (fld_1, (bs [9]%N)); (fld_2, v_na); (fld_30, (B "nidx")); (fld_32, (B " ")); (fld_33, v_na); (fld_37, v_true)]);
    ([tok_2; tok_36; tok_61], Some [(fld_0, (B "tsv")); (fld_1, (bs [9]%N)); (fld_2, v_na); (fld_30, (B "nidx")); (fld_32, (B " ")); (fld_33, v_na); (fld_37, v_true)]);
    ([tok_2; tok_159], Some [(fld_0, (B "tsv")); (fld_1, (bs [9]%N)); (fld_2, v_na); (fld_30, (B "pprint")); (fld_32, (B ";")); (fld_33, v_na); (fld_37, v_true)]);
    ([tok_2; tok_36; tok_62], Some [(fld_0, (B "tsv")); (fld_1, (bs [9]%N)); (fld_2, v_na); (fld_30, (B "pprint")); (fld_32, (B ";")); (fld_33, v_na); (fld_37, v_true)]);
    ([tok_2; tok_75], Some [(fld_0, (B "tsv")); (fld_1, (bs [9]%N)); (fld_2, v_na); (fld_30, (B "tsv")); (fld_32, (bs [9]%N)); (fld_33, v_na); (fld_37, v_true)]);
    ([tok_2; tok_36; tok_64], Some [(fld_0, (B "tsv")); (fld_1, (bs [9]%N)); (fld_2, v_na); (fld_30, (B "tsv")); (fld_32, (bs [9]%N)); (fld_33, v_na); (fld_37, v_true)]);
    ([tok_2; tok_160], Some [(fld_0, (B "tsv")); (fld_1, (bs [9]%N)); (fld_2, v_na); (fld_30, (B "xtab")); (fld_31, (bs [10;10]%N)); (fld_32, (B ";")); (fld_33, (B " ")); (fld_37, v_true)]);
    ([tok_2; tok_36; tok_68], Some [(fld_0, (B "tsv")); (fld_1, (bs [9]%N)); (fld_2, v_na); (fld_30, (B "xtab")); (fld_31, (bs [10;10]%N)); (fld_32, (B ";")); (fld_33, (B " ")); (fld_37, v_true)]);
    ([tok_2; tok_161], Some [(fld_0, (B "tsv")); (fld_1, (bs [9]%N)); (fld_2, v_na); (fld_30, (B "yaml")); (fld_31, v_na); (fld_32, (B ";")); (fld_33, v_na); (fld_37, v_true); (fld_65, v_false); (fld_66, v_true)]);
    ([tok_2; tok_36; tok_69], Some [(fld_0, (B "tsv")); (fld_1, (bs [9]%N)); (fld_2, v_na); (fld_30, (B "yaml")); (fld_31, v_na); (fld_32, (B ";")); (fld_33, v_na); (fld_37, v_true); (fld_65, v_false); (fld_66, v_true)]);
    ([tok_2; tok_162], Some [(fld_0, (B "xtab")); (fld_1, (bs [10]%N)); (fld_2, (B " ")); (fld_3, (bs [10;10]%N)); (fld_30, (B "pprint")); (fld_32, (B ";")); (fld_33, v_na); (fld_37, v_true); (fld_41, v_true)]);
    ([tok_2; tok_40; tok_62; tok_233], Some [(fld_0, (B "xtab")); (fld_1, (bs [10]%N)); (fld_2, (B " ")); (fld_3, (bs [10;10]%N)); (fld_30, (B "pprint")); (fld_32, (B ";")); (fld_33, v_na); (fld_37, v_true); (fld_41, v_true)]);
    ([tok_2; tok_163], Some [(fld_0, (B "xtab")); (fld_1, (bs [10]%N)); (fld_2, (B " ")); (fld_3, (bs [10;10]%N)); (fld_30, (B "csv")); (fld_32, (B ";")); (fld_33, v_na); (fld_37, v_true); (fld_39, v_true)]);
    ([tok_2; tok_40; tok_53], Some [(fld_0, (B "xtab")); (fld_1, (bs [10]%N)); (fld_2, (B " ")); (fld_3, (bs [10;10]%N)); (fld_30, (B "csv")); (fld_32, (B ";")); (fld_33, v_na); (fld_37, v_true)]);
    ([tok_2; tok_164], Some [(fld_0, (B "xtab")); (fld_1, (bs [10]%N)); (fld_2, (B " ")); (fld_3, (bs [10;10]%N)); (fld_32, (B ";")); (fld_37, v_true)]);
    ([tok_2; tok_40; tok_56], Some [(fld_0, (B "xtab")); (fld_1, (bs [10]%N)); (fld_2, (B " ")); (fld_3, (bs [10;10]%N)); (fld_32, (B ";")); (fld_37, v_true)]);
    ([tok_2; tok_165], Some [(fld_0, (B "xtab")); (fld_1, (bs [10]%N)); (fld_2, (B " ")); (fld_3, (bs [10;10]%N)); (fld_30, (B "json")); (fld_31, v_na); (fld_32, (B ";")); (fld_33, v_na); (fld_37, v_true); (fld_65, v_false); (fld_66, v_true)]);
    ([tok_2; tok_40; tok_57], Some [(fld_0, (B "xtab")); (fld_1, (bs [10]%N)); (fld_2, (B " ")); (fld_3, (bs [10;10]%N)); (fld_30, (B "json")); (fld_31, v_na); (fld_32, (B ";")); (fld_33, v_na); (fld_37, v_true); (fld_65, v_false); (fld_66, v_true)]);
    ([tok_2; tok_166], Some [(fld_0, (B "xtab")); (fld_1, (bs [10]%N)); (fld_2, (B " ")); (fld_3, (bs [10;10]%N)); (fld_30, (B "jsonl")); (fld_31, (B "")); (fld_32, (B ";")); (fld_33, (B "")); (fld_37, v_true); (fld_65, v_false); (fld_66, v_true)]);
    ([tok_2; tok_40; tok_58], Some [(fld_0, (B "xtab")); (fld_1, (bs [10]%N)); (fld_2, (B " ")); (fld_3, (bs [10;10]%N)); (fld_30, (B "jsonl")); (fld_31, (B "")); (fld_32, (B ";")); (fld_33, (B "")); (fld_37, v_true); (fld_65, v_false); (fld_66, v_true)]);
    ([tok_2; tok_167], Some [(fld_0, (B "xtab")); (fld_1, (bs [10]%N)); (fld_2, (B " ")); (fld_3, (bs [10;10]%N)); (fld_30, (B "markdown")); (fld_32, (B ";")); (fld_33, v_na); (fld_37, v_true)]);
    ([tok_2; tok_40; tok_59], Some [(fld_0, (B "xtab")); (fld_1, (bs [10]%N)); (fld_2, (B " ")); (fld_3, (bs [10;10]%N)); (fld_30, (B "markdown")); (fld_32, (B ";")); (fld_33, v_na); (fld_37, v_true)]);
    ([tok_2; tok_168], Some [(fld_0, (B "xtab")); (fld_1, (bs [10]%N)); (fld_2, (B " ")); (fld_3, (bs [10;10]%N)); (fld_30, (B "nidx")); (fld_32, (B " ")); (fld_33, v_na); (fld_37, v_true)]);
    ([tok_2; tok_40; tok_61], Some [(fld_0, (B "xtab")); (fld_1, (bs [10]%N)); (fld_2, (B " ")); (fld_3, (bs [10;10]%N)); (fld_30, (B "nidx")); (fld_32, (B " ")); (fld_33, v_na); (fld_37, v_true)]);
    ([tok_2; tok_169], Some [(fld_0, (B "xtab")); (fld_1, (bs [10]%N)); (fld_2, (B " ")); (fld_3, (bs [10;10]%N)); (fld_30, (B "pprint")); (fld_32, (B ";")); (fld_33, v_na); (fld_37, v_true)]);
    ([tok_2; tok_40; tok_62], Some [(fld_0, (B "xtab")); (fld_1, (bs [10]%N)); (fld_2, (B " ")); (fld_3, (bs [10;10]%N)); (fld_30, (B "pprint")); (fld_32, (B ";")); (fld_33, v_na); (fld_37, v_true)]);
    ([tok_2; tok_170], Some [(fld_0, (B "xtab")); (fld_1, (bs [10]%N)); (fld_2, (B " ")); (fld_3, (bs [10;10]%N)); (fld_30, (B "tsv")); (fld_32, (bs [9]%N)); (fld_33, v_na); (fld_37, v_true)]);
    ([tok_2; tok_40; tok_64], Some [(fld_0, (B "xtab")); (fld_1, (bs [10]%N)); (fld_2, (B " ")); (fld_3, (bs [10;10]%N)); (fld_30, (B "tsv")); (fld_32, (bs [9]%N)); (fld_33, v_na); (fld_37, v_true)]);
    ([tok_2; tok_80], Some [(fld_0, (B "xtab")); (fld_1, (bs [10]%N)); (fld_2, (B " ")); (fld_3, (bs [10;10]%N)); (fld_30, (B "xtab")); (fld_31, (bs [10;10]%N)); (fld_32, (B ";")); (fld_33, (B " ")); (fld_37, v_true)]);
    ([tok_2; tok_40; tok_68], Some [(fld_0, (B "xtab")); (fld_1, (bs [10]%N)); (fld_2, (B " ")); (fld_3, (bs [10;10]%N)); (fld_30, (B "xtab")); (fld_31, (bs [10;10]%N)); (fld_32, (B ";")); (fld_33, (B " ")); (fld_37, v_true)]);
    ([tok_2; tok_171], Some [(fld_0, (B "xtab")); (fld_1, (bs [10]%N)); (fld_2, (B " ")); (fld_3, (bs [10;10]%N)); (fld_30, (B "yaml")); (fld_31, v_na); (fld_32, (B ";")); (fld_33, v_na); (fld_37, v_true); (fld_65, v_false); (fld_66, v_true)]);
    ([tok_2; tok_40; tok_69], Some [(fld_0, (B "xtab")); (fld_1, (bs [10]%N)); (fld_2, (B " ")); (fld_3, (bs [10;10]%N)); (fld_30, (B "yaml")); (fld_31, v_na); (fld_32, (B ";")); (fld_33, v_na); (fld_37, v_true); (fld_65, v_false); (fld_66, v_true)]);
    ([tok_2; tok_172], Some [(fld_0, (B "yaml")); (fld_1, v_na); (fld_2, v_na); (fld_3, v_na); (fld_30, (B "csv")); (fld_32, (B ";")); (fld_33, v_na); (fld_37, v_true); (fld_39, v_true)]);
    ([tok_2; tok_41; tok_53], Some [(fld_0, (B "yaml")); (fld_1, v_na); (fld_2, v_na); (fld_3, v_na); (fld_30, (B "csv")); (fld_32, (B ";")); (fld_33, v_na); (fld_37, v_true)]);
    ([tok_2; tok_173], Some [(fld_0, (B "yaml")); (fld_1, v_na); (fld_2, v_na); (fld_3, v_na); (fld_32, (B ";")); (fld_37, v_true)]);
    ([tok_2; tok_41; tok_56], Some [(fld_0, (B "yaml")); (fld_1, v_na); (fld_2, v_na); (fld_3, v_na); (fld_32, (B ";")); (fld_37, v_true)]);
    ([tok_2; tok_174], Some [(fld_0, (B "yaml")); (fld_1, v_na); (fld_2, v_na); (fld_3, v_na); (fld_30, (B "json")); (fld_31, v_na); (fld_32, (B ";")); (fld_33, v_na); (fld_37, v_true); (fld_65, v_false)]);
    ([tok_2; tok_41; tok_57], Some [(fld_0, (B "yaml")); (fld_1, v_na); (fld_2, v_na); (fld_3, v_na); (fld_30, (B "json")); (fld_31, v_na); (fld_32, (B ";")); (fld_33, v_na); (fld_37, v_true); (fld_65, v_false)]);
    ([tok_2; tok_175], Some [(fld_0, (B "yaml")); (fld_1, v_na); (fld_2, v_na); (fld_3, v_na); (fld_30, (B "jsonl")); (fld_31, (B "")); (fld_32, (B ";")); (fld_33, (B "")); (fld_37, v_true); (fld_65, v_false)]);
    ([tok_2; tok_41; tok_58], Some [(fld_0, (B "yaml")); (fld_1, v_na); (fld_2, v_na); (fld_3, v_na); (fld_30, (B "jsonl")); (fld_31, (B "")); (fld_32, (B ";")); (fld_33, (B "")); (fld_37, v_true); (fld_65, v_false)]);
    ([tok_2; tok_176], Some [(fld_0, (B "yaml")); (fld_1, v_na); (fld_2, v_na); (fld_3, v_na); (fld_30, (B "markdown")); (fld_32, (B ";")); (fld_33, v_na); (fld_37, v_true)]);
    ([tok_2; tok_41; tok_59], Some [(fld_0, (B "yaml")); (fld_1, v_na); (fld_2, v_na); (fld_3, v_na); (fld_30, (B "markdown")); (fld_32, (B ";")); (fld_33, v_na); (fld_37, v_true)]);
    ([tok_2; tok_177], Some [(fld_0, (B "yaml")); (fld_1, v_na); (fld_2, v_na); (fld_3, v_na); (fld_30, (B "nidx")); (fld_32, (B " ")); (fld_33, v_na); (fld_37, v_true)]);
    ([tok_2; tok_41; tok_61], Some [(fld_0, (B "yaml")); (fld_1, v_na); (fld_2, v_na); (fld_3, v_na); (fld_30, (B "nidx")); (fld_32, (B " ")); (fld_33, v_na); (fld_37, v_true)]);
    ([tok_2; tok_178], Some [(fld_0, (B "yaml")); (fld_1, v_na); (fld_2, v_na); (fld_3, v_na); (fld_30, (B "pprint")); (fld_32, (B ";")); (fld_33, v_na); (fld_37, v_true)]);
    ([tok_2; tok_41; tok_62], Some [(fld_0, (B "yaml")); (fld_1, v_na); (fld_2, v_na); (fld_3, v_na); (fld_30, (B "pprint")); (fld_32, (B ";")); (fld_33, v_na); (fld_37, v_true)]);
    ([tok_2; tok_179], Some [(fld_0, (B "yaml")); (fld_1, v_na); (fld_2, v_na); (fld_3, v_na); (fld_30, (B "tsv")); (fld_32, (bs [9]%N)); (fld_33, v_na); (fld_37, v_true)]);
    ([tok_2; tok_41; tok_64], Some [(fld_0, (B "yaml")); (fld_1, v_na); (fld_2, v_na); (fld_3, v_na); (fld_30, (B "tsv")); (fld_32, (bs [9]%N)); (fld_33, v_na); (fld_37, v_true)]);
    ([tok_2; tok_180], Some [(fld_0, (B "yaml")); (fld_1, v_na); (fld_2, v_na); (fld_3, v_na); (fld_30, (B "xtab")); (fld_31, (bs [10;10]%N)); (fld_32, (B ";")); (fld_33, (B " ")); (fld_37, v_true)]);
    ([tok_2; tok_41; tok_68], Some [(fld_0, (B "yaml")); (fld_1, v_na); (fld_2, v_na); (fld_3, v_na); (fld_30, (B "xtab")); (fld_31, (bs [10;10]%N)); (fld_32, (B ";")); (fld_33, (B " ")); (fld_37, v_true)]);
    ([tok_2; tok_83], Some [(fld_0, (B "yaml")); (fld_1, v_na); (fld_2, v_na); (fld_3, v_na); (fld_30, (B "yaml")); (fld_31, v_na); (fld_32, (B ";")); (fld_33, v_na); (fld_37, v_true); (fld_65, v_false)]);
    ([tok_2; tok_41; tok_69], Some [(fld_0, (B "yaml")); (fld_1, v_na); (fld_2, v_na); (fld_3, v_na); (fld_30, (B "yaml")); (fld_31, v_na); (fld_32, (B ";")); (fld_33, v_na); (fld_37, v_true); (fld_65, v_false)]);
    ([tok_2; tok_235], Some [(fld_12, v_true); (fld_32, (B ";")); (fld_37, v_true); (fld_40, v_true)]);
    ([tok_2; tok_207; tok_204], Some [(fld_12, v_true); (fld_32, (B ";")); (fld_37, v_true); (fld_40, v_true)]);
    ([tok_2; tok_182], Some [(fld_0, (B "nidx")); (fld_1, (bs [9]%N)); (fld_2, v_na); (fld_8, v_true); (fld_30, (B "nidx")); (fld_32, (bs [9]%N)); (fld_33, v_na); (fld_37, v_true)]);
    ([tok_2; tok_49; tok_236; tok_237], Some [(fld_0, (B "nidx")); (fld_1, (bs [9]%N)); (fld_2, v_na); (fld_8, v_true); (fld_30, (B "nidx")); (fld_32, (bs [9]%N)); (fld_33, v_na); (fld_37, v_true)]);
    ([tok_2; tok_181], Some [(fld_0, (B "nidx")); (fld_1, (B " ")); (fld_2, v_na); (fld_4, v_true); (fld_8, v_true); (fld_11, v_true); (fld_30, (B "nidx")); (fld_32, (B " ")); (fld_33, v_na); (fld_37, v_true)]);
    ([tok_2; tok_49; tok_236; tok_238; tok_239], Some [(fld_0, (B "nidx")); (fld_1, (B " ")); (fld_2, v_na); (fld_4, v_true); (fld_8, v_true); (fld_11, v_true); (fld_30, (B "nidx")); (fld_32, (B " ")); (fld_33, v_na); (fld_37, v_true)]);
    ([tok_263], Some [(fld_32, (bs [27]%N)); (fld_37, v_true)]);
    ([tok_264], Some [(fld_32, (bs [27]%N)); (fld_37, v_true)]);
    ([tok_265], Some [(fld_32, (bs [3]%N)); (fld_37, v_true)]);
    ([tok_266], Some [(fld_32, (bs [3]%N)); (fld_37, v_true)]);
    ([tok_267], Some [(fld_32, (bs [28]%N)); (fld_37, v_true)]);
    ([tok_268], Some [(fld_32, (bs [28]%N)); (fld_37, v_true)]);
    ([tok_269], Some [(fld_32, (bs [29]%N)); (fld_37, v_true)]);
    ([tok_270], Some [(fld_32, (bs [29]%N)); (fld_37, v_true)]);
    ([tok_271], Some [(fld_32, (bs [0]%N)); (fld_37, v_true)]);
    ([tok_272], Some [(fld_32, (bs [0]%N)); (fld_37, v_true)]);
    ([tok_273], Some [(fld_32, (bs [30]%N)); (fld_37, v_true)]);
    ([tok_274], Some [(fld_32, (bs [30]%N)); (fld_37, v_true)]);
    ([tok_275], Some [(fld_32, (bs [1]%N)); (fld_37, v_true)]);
    ([tok_276], Some [(fld_32, (bs [1]%N)); (fld_37, v_true)]);
    ([tok_277], Some [(fld_32, (bs [2]%N)); (fld_37, v_true)]);
    ([tok_278], Some [(fld_32, (bs [2]%N)); (fld_37, v_true)]);
    ([tok_279], Some [(fld_32, (bs [31]%N)); (fld_37, v_true)]);
    ([tok_280], Some [(fld_32, (bs [31]%N)); (fld_37, v_true)]);
    ([tok_281], Some [(fld_32, (bs [31]%N)); (fld_37, v_true)]);
    ([tok_282], Some [(fld_32, (bs [30]%N)); (fld_37, v_true)]);
    ([tok_283], Some [(fld_32, (B ":")); (fld_37, v_true)]);
    ([tok_4], Some [(fld_32, (B ":")); (fld_37, v_true)]);
    ([tok_284], Some [(fld_37, v_true)]);
    ([tok_285], Some [(fld_37, v_true)]);
    ([tok_286], Some [(fld_32, (bs [13]%N)); (fld_37, v_true)]);
    ([tok_287], Some [(fld_32, (bs [13]%N)); (fld_37, v_true)]);
    ([tok_288], Some [(fld_32, (bs [13;13]%N)); (fld_37, v_true)]);
    ([tok_289], Some [(fld_32, (bs [13;13]%N)); (fld_37, v_true)]);
    ([tok_290], Some [(fld_32, (bs [13;10]%N)); (fld_37, v_true)]);
    ([tok_291], Some [(fld_32, (bs [13;10]%N)); (fld_37, v_true)]);
    ([tok_292], Some [(fld_32, (bs [13;10;13;10]%N)); (fld_37, v_true)]);
    ([tok_293], Some [(fld_32, (bs [13;10;13;10]%N)); (fld_37, v_true)]);
    ([tok_294], Some [(fld_32, (B "=")); (fld_37, v_true)]);
    ([tok_295], Some [(fld_32, (B "=")); (fld_37, v_true)]);
    ([tok_296], Some [(fld_32, (bs [10]%N)); (fld_37, v_true)]);
    ([tok_297], Some [(fld_32, (bs [10]%N)); (fld_37, v_true)]);
    ([tok_298], Some [(fld_32, (bs [10;10]%N)); (fld_37, v_true)]);
    ([tok_299], Some [(fld_32, (bs [10;10]%N)); (fld_37, v_true)]);
    ([tok_300], Some [(fld_32, (bs [10]%N)); (fld_37, v_true)]);
    ([tok_301], Some [(fld_32, (B "|")); (fld_37, v_true)]);
    ([tok_302], Some [(fld_32, (B "|")); (fld_37, v_true)]);
    ([tok_214], Some [(fld_32, (B ";")); (fld_37, v_true)]);
    ([tok_2], Some [(fld_32, (B ";")); (fld_37, v_true)]);
    ([tok_303], Some [(fld_32, (B "/")); (fld_37, v_true)]);
    ([tok_304], Some [(fld_32, (B "/")); (fld_37, v_true)]);
    ([tok_238], Some [(fld_32, (B " ")); (fld_37, v_true)]);
    ([tok_305], Some [(fld_32, (B " ")); (fld_37, v_true)]);
    ([tok_237], Some [(fld_32, (bs [9]%N)); (fld_37, v_true)]);
    ([tok_306], Some [(fld_32, (bs [9]%N)); (fld_37, v_true)]);
    ([tok_307], Some [(fld_32, (bs [226;144;159]%N)); (fld_37, v_true)]);
    ([tok_308], Some [(fld_32, (bs [226;144;159]%N)); (fld_37, v_true)]);
    ([tok_309], Some [(fld_32, (bs [226;144;158]%N)); (fld_37, v_true)]);
    ([tok_310], Some [(fld_32, (bs [226;144;158]%N)); (fld_37, v_true)])]);
  (tok_3, [
    ([tok_4; tok_84], Some [(fld_0, (B "csv")); (fld_2, (B ":")); (fld_9, v_true); (fld_10, v_true); (fld_30, (B "pprint")); (fld_32, (B " ")); (fld_33, v_na); (fld_41, v_true)]);
    ([tok_4; tok_24; tok_62; tok_233], Some [(fld_0, (B "csv")); (fld_2, (B ":")); (fld_9, v_true); (fld_30, (B "pprint")); (fld_32, (B " ")); (fld_33, v_na); (fld_41, v_true)]);
    ([tok_4; tok_12], Some [(fld_0, (B "csv")); (fld_2, (B ":")); (fld_9, v_true); (fld_30, (B "csv")); (fld_33, v_na)]);
    ([tok_4; tok_24; tok_53], Some [(fld_0, (B "csv")); (fld_2, (B ":")); (fld_9, v_true); (fld_30, (B "csv")); (fld_33, v_na)]);
    ([tok_4; tok_85], Some [(fld_0, (B "csv")); (fld_2, (B ":")); (fld_9, v_true); (fld_10, v_true)]);
    ([tok_4; tok_24; tok_56], Some [(fld_0, (B "csv")); (fld_2, (B ":")); (fld_9, v_true)]);
    ([tok_4; tok_86], Some [(fld_0, (B "csv")); (fld_2, (B ":")); (fld_9, v_true); (fld_10, v_true); (fld_30, (B "json")); (fld_31, v_na); (fld_32, v_na); (fld_33, v_na); (fld_65, v_false); (fld_66, v_true)]);
    ([tok_4; tok_24; tok_57], Some [(fld_0, (B "csv")); (fld_2, (B ":")); (fld_9, v_true); (fld_30, (B "json")); (fld_31, v_na); (fld_32, v_na); (fld_33, v_na); (fld_65, v_false); (fld_66, v_true)]);
    ([tok_4; tok_87], Some [(fld_0, (B "csv")); (fld_2, (B ":")); (fld_9, v_true); (fld_10, v_true); (fld_30, (B "jsonl")); (fld_31, (B "")); (fld_32, (B "")); (fld_33, (B "")); (fld_65, v_false); (fld_66, v_true)]);
    ([tok_4; tok_24; tok_58], Some [(fld_0, (B "csv")); (fld_2, (B ":")); (fld_9, v_true); (fld_30, (B "jsonl")); (fld_31, (B "")); (fld_32, (B "")); (fld_33, (B "")); (fld_65, v_false); (fld_66, v_true)]);
    ([tok_4; tok_88], Some [(fld_0, (B "csv")); (fld_2, (B ":")); (fld_9, v_true); (fld_10, v_true); (fld_30, (B "markdown")); (fld_32, (B " ")); (fld_33, v_na)]);
    ([tok_4; tok_24; tok_59], Some [(fld_0, (B "csv")); (fld_2, (B ":")); (fld_9, v_true); (fld_30, (B "markdown")); (fld_32, (B " ")); (fld_33, v_na)]);
    ([tok_4; tok_89], Some [(fld_0, (B "csv")); (fld_2, (B ":")); (fld_9, v_true); (fld_10, v_true); (fld_30, (B "nidx")); (fld_32, (B " ")); (fld_33, v_na); (fld_37, v_true)]);
    ([tok_4; tok_24; tok_61], Some [(fld_0, (B "csv")); (fld_2, (B ":")); (fld_9, v_true); (fld_30, (B "nidx")); (fld_32, (B " ")); (fld_33, v_na); (fld_37, v_true)]);
    ([tok_4; tok_90], Some [(fld_0, (B "csv")); (fld_2, (B ":")); (fld_9, v_true); (fld_10, v_true); (fld_30, (B "pprint")); (fld_32, (B " ")); (fld_33, v_na)]);
    ([tok_4; tok_24; tok_62], Some [(fld_0, (B "csv")); (fld_2, (B ":")); (fld_9, v_true); (fld_30, (B "pprint")); (fld_32, (B " ")); (fld_33, v_na)]);
    ([tok_4; tok_91], Some [(fld_0, (B "csv")); (fld_2, (B ":")); (fld_9, v_true); (fld_10, v_true); (fld_30, (B "tsv")); (fld_32, (bs [9]%N)); (fld_33, v_na); (fld_37, v_true)]);
    ([tok_4; tok_24; tok_64], Some [(fld_0, (B "csv")); (fld_2, (B ":")); (fld_9, v_true); (fld_30, (B "tsv")); (fld_32, (bs [9]%N)); (fld_33, v_na); (fld_37, v_true)]);
    ([tok_4; tok_92], Some [(fld_0, (B "csv")); (fld_2, (B ":")); (fld_9, v_true); (fld_10, v_true); (fld_30, (B "xtab")); (fld_31, (bs [10;10]%N)); (fld_32, (bs [10]%N)); (fld_33, (B " "))]);
    ([tok_4; tok_24; tok_68], Some [(fld_0, (B "csv")); (fld_2, (B ":")); (fld_9, v_true); (fld_30, (B "xtab")); (fld_31, (bs [10;10]%N)); (fld_32, (bs [10]%N)); (fld_33, (B " "))]);
    ([tok_4; tok_93], Some [(fld_0, (B "csv")); (fld_2, (B ":")); (fld_9, v_true); (fld_10, v_true); (fld_30, (B "yaml")); (fld_31, v_na); (fld_32, v_na); (fld_33, v_na); (fld_65, v_false); (fld_66, v_true)]);
    ([tok_4; tok_24; tok_69], Some [(fld_0, (B "csv")); (fld_2, (B ":")); (fld_9, v_true); (fld_30, (B "yaml")); (fld_31, v_na); (fld_32, v_na); (fld_33, v_na); (fld_65, v_false); (fld_66, v_true)]);
    ([tok_4; tok_94], Some [(fld_2, (B ":")); (fld_9, v_true); (fld_30, (B "pprint")); (fld_32, (B " ")); (fld_33, v_na); (fld_41, v_true)]);
    ([tok_4; tok_27; tok_62; tok_233], Some [(fld_2, (B ":")); (fld_9, v_true); (fld_30, (B "pprint")); (fld_32, (B " ")); (fld_33, v_na); (fld_41, v_true)]);
    ([tok_4; tok_95], Some [(fld_2, (B ":")); (fld_9, v_true); (fld_30, (B "csv")); (fld_33, v_na)]);
    ([tok_4; tok_27; tok_53], Some [(fld_2, (B ":")); (fld_9, v_true); (fld_30, (B "csv")); (fld_33, v_na)]);
    ([tok_4; tok_16], Some [(fld_2, (B ":")); (fld_9, v_true)]);
    ([tok_4; tok_27; tok_56], Some [(fld_2, (B ":")); (fld_9, v_true)]);
    ([tok_4; tok_96], Some [(fld_2, (B ":")); (fld_9, v_true); (fld_30, (B "json")); (fld_31, v_na); (fld_32, v_na); (fld_33, v_na); (fld_65, v_false); (fld_66, v_true)]);
    ([tok_4; tok_27; tok_57], Some [(fld_2, (B ":")); (fld_9, v_true); (fld_30, (B "json")); (fld_31, v_na); (fld_32, v_na); (fld_33, v_na); (fld_65, v_false); (fld_66, v_true)]);
    ([tok_4; tok_97], Some [(fld_2, (B ":")); (fld_9, v_true); (fld_30, (B "jsonl")); (fld_31, (B "")); (fld_32, (B "")); (fld_33, (B "")); (fld_65, v_false); (fld_66, v_true)]);
    ([tok_4; tok_27; tok_58], Some [(fld_2, (B ":")); (fld_9, v_true); (fld_30, (B "jsonl")); (fld_31, (B "")); (fld_32, (B "")); (fld_33, (B "")); (fld_65, v_false); (fld_66, v_true)]);
    ([tok_4; tok_98], Some [(fld_2, (B ":")); (fld_9, v_true); (fld_30, (B "markdown")); (fld_32, (B " ")); (fld_33, v_na)]);
    ([tok_4; tok_27; tok_59], Some [(fld_2, (B ":")); (fld_9, v_true); (fld_30, (B "markdown")); (fld_32, (B " ")); (fld_33, v_na)]);
    ([tok_4; tok_99], Some [(fld_2, (B ":")); (fld_9, v_true); (fld_30, (B "nidx")); (fld_32, (B " ")); (fld_33, v_na); (fld_37, v_true)]);
    ([tok_4; tok_27; tok_61], Some [(fld_2, (B ":")); (fld_9, v_true); (fld_30, (B "nidx")); (fld_32, (B " ")); (fld_33, v_na); (fld_37, v_true)]);
    ([tok_4; tok_100], Some [(fld_2, (B ":")); (fld_9, v_true); (fld_30, (B "pprint")); (fld_32, (B " ")); (fld_33, v_na)]);
    ([tok_4; tok_27; tok_62], Some [(fld_2, (B ":")); (fld_9, v_true); (fld_30, (B "pprint")); (fld_32, (B " ")); (fld_33, v_na)]);
    ([tok_4; tok_101], Some [(fld_2, (B ":")); (fld_9, v_true); (fld_30, (B "tsv")); (fld_32, (bs [9]%N)); (fld_33, v_na); (fld_37, v_true); (fld_39, v_true)]);
    ([tok_4; tok_27; tok_64], Some [(fld_2, (B ":")); (fld_9, v_true); (fld_30, (B "tsv")); (fld_32, (bs [9]%N)); (fld_33, v_na); (fld_37, v_true)]);
    ([tok_4; tok_102], Some [(fld_2, (B ":")); (fld_9, v_true); (fld_30, (B "xtab")); (fld_31, (bs [10;10]%N)); (fld_32, (bs [10]%N)); (fld_33, (B " "))]);
    ([tok_4; tok_27; tok_68], Some [(fld_2, (B ":")); (fld_9, v_true); (fld_30, (B "xtab")); (fld_31, (bs [10;10]%N)); (fld_32, (bs [10]%N)); (fld_33, (B " "))]);
    ([tok_4; tok_103], Some [(fld_2, (B ":")); (fld_9, v_true); (fld_30, (B "yaml")); (fld_31, v_na); (fld_32, v_na); (fld_33, v_na); (fld_65, v_false); (fld_66, v_true)]);
    ([tok_4; tok_27; tok_69], Some [(fld_2, (B ":")); (fld_9, v_true); (fld_30, (B "yaml")); (fld_31, v_na); (fld_32, v_na); (fld_33, v_na); (fld_65, v_false); (fld_66, v_true)]);
    ([tok_4; tok_104], Some [(fld_0, (B "json")); (fld_1, v_na); (fld_2, (B ":")); (fld_3, v_na); (fld_9, v_true); (fld_30, (B "pprint")); (fld_32, (B " ")); (fld_33, v_na); (fld_41, v_true)]);
    ([tok_4; tok_29; tok_62; tok_233], Some [(fld_0, (B "json")); (fld_1, v_na); (fld_2, (B ":")); (fld_3, v_na); (fld_9, v_true); (fld_30, (B "pprint")); (fld_32, (B " ")); (fld_33, v_na); (fld_41, v_true)]);
    ([tok_4; tok_105], Some [(fld_0, (B "json")); (fld_1, v_na); (fld_2, (B ":")); (fld_3, v_na); (fld_9, v_true); (fld_30, (B "csv")); (fld_33, v_na); (fld_39, v_true)]);
    ([tok_4; tok_29; tok_53], Some [(fld_0, (B "json")); (fld_1, v_na); (fld_2, (B ":")); (fld_3, v_na); (fld_9, v_true); (fld_30, (B "csv")); (fld_33, v_na)]);
    ([tok_4; tok_106], Some [(fld_0, (B "json")); (fld_1, v_na); (fld_2, (B ":")); (fld_3, v_na); (fld_9, v_true)]);
    ([tok_4; tok_29; tok_56], Some [(fld_0, (B "json")); (fld_1, v_na); (fld_2, (B ":")); (fld_3, v_na); (fld_9, v_true)]);
    ([tok_4; tok_44], Some [(fld_0, (B "json")); (fld_1, v_na); (fld_2, (B ":")); (fld_3, v_na); (fld_9, v_true); (fld_30, (B "json")); (fld_31, v_na); (fld_32, v_na); (fld_33, v_na); (fld_65, v_false)]);
    ([tok_4; tok_29; tok_57], Some [(fld_0, (B "json")); (fld_1, v_na); (fld_2, (B ":")); (fld_3, v_na); (fld_9, v_true); (fld_30, (B "json")); (fld_31, v_na); (fld_32, v_na); (fld_33, v_na); (fld_65, v_false)]);
    ([tok_4; tok_107], Some [(fld_0, (B "json")); (fld_1, v_na); (fld_2, (B ":")); (fld_3, v_na); (fld_9, v_true); (fld_30, (B "jsonl")); (fld_31, (B "")); (fld_32, (B "")); (fld_33, (B "")); (fld_65, v_false)]);
    ([tok_4; tok_29; tok_58], Some [(fld_0, (B "json")); (fld_1, v_na); (fld_2, (B ":")); (fld_3, v_na); (fld_9, v_true); (fld_30, (B "jsonl")); (fld_31, (B "")); (fld_32, (B "")); (fld_33, (B "")); (fld_65, v_false)]);
    ([tok_4; tok_108], Some [(fld_0, (B "json")); (fld_1, v_na); (fld_2, (B ":")); (fld_3, v_na); (fld_9, v_true); (fld_30, (B "markdown")); (fld_32, (B " ")); (fld_33, v_na)]);
    ([tok_4; tok_29; tok_59], Some [(fld_0, (B "json")); (fld_1, v_na); (fld_2, (B ":")); (fld_3, v_na); (fld_9, v_true); (fld_30, (B "markdown")); (fld_32, (B " ")); (fld_33, v_na)]);
    ([tok_4; tok_109], Some [(fld_0, (B "json")); (fld_1, v_na); (fld_2, (B ":")); (fld_3, v_na); (fld_9, v_true); (fld_30, (B "nidx")); (fld_32, (B " ")); (fld_33, v_na); (fld_37, v_true)]);
    ([tok_4; tok_29; tok_61], Some [(fld_0, (B "json")); (fld_1, v_na); (fld_2, (B ":")); (fld_3, v_na); (fld_9, v_true); (fld_30, (B "nidx")); (fld_32, (B " ")); (fld_33, v_na); (fld_37, v_true)]);
    ([tok_4; tok_110], Some [(fld_0, (B "json")); (fld_1, v_na); (fld_2, (B ":")); (fld_3, v_na); (fld_9, v_true); (fld_30, (B "pprint")); (fld_32, (B " ")); (fld_33, v_na)]);
    ([tok_4; tok_29; tok_62], Some [(fld_0, (B "json")); (fld_1, v_na); (fld_2, (B ":")); (fld_3, v_na); (fld_9, v_true); (fld_30, (B "pprint")); (fld_32, (B " ")); (fld_33, v_na)]);
    ([tok_4; tok_111], Some [(fld_0, (B "json")); (fld_1, v_na); (fld_2, (B ":")); (fld_3, v_na); (fld_9, v_true); (fld_30, (B "tsv")); (fld_32, (bs [9]%N)); (fld_33, v_na); (fld_37, v_true)]);
    ([tok_4; tok_29; tok_64], Some [(fld_0, (B "json")); (fld_1, v_na); (fld_2, (B ":")); (fld_3, v_na); (fld_9, v_true); (fld_30, (B "tsv")); (fld_32, (bs [9]%N)); (fld_33, v_na); (fld_37, v_true)]);
    ([tok_4; tok_112], Some [(fld_0, (B "json")); (fld_1, v_na); (fld_2, (B ":")); (fld_3, v_na); (fld_9, v_true); (fld_30, (B "xtab")); (fld_31, (bs [10;10]%N)); (fld_32, (bs [10]%N)); (fld_33, (B " "))]);
    ([tok_4; tok_29; tok_68], Some [(fld_0, (B "json")); (fld_1, v_na); (fld_2, (B ":")); (fld_3, v_na); (fld_9, v_true); (fld_30, (B "xtab")); (fld_31, (bs [10;10]%N)); (fld_32, (bs [10]%N)); (fld_33, (B " "))]);
    ([tok_4; tok_113], Some [(fld_0, (B "json")); (fld_1, v_na); (fld_2, (B ":")); (fld_3, v_na); (fld_9, v_true); (fld_30, (B "yaml")); (fld_31, v_na); (fld_32, v_na); (fld_33, v_na); (fld_65, v_false)]);
    ([tok_4; tok_29; tok_69], Some [(fld_0, (B "json")); (fld_1, v_na); (fld_2, (B ":")); (fld_3, v_na); (fld_9, v_true); (fld_30, (B "yaml")); (fld_31, v_na); (fld_32, v_na); (fld_33, v_na); (fld_65, v_false)]);
    ([tok_4; tok_114], Some [(fld_0, (B "json")); (fld_1, v_na); (fld_2, (B ":")); (fld_3, v_na); (fld_9, v_true); (fld_30, (B "pprint")); (fld_32, (B " ")); (fld_33, v_na); (fld_41, v_true)]);
    ([tok_4; tok_30; tok_62; tok_233], Some [(fld_0, (B "json")); (fld_1, v_na); (fld_2, (B ":")); (fld_3, v_na); (fld_9, v_true); (fld_30, (B "pprint")); (fld_32, (B " ")); (fld_33, v_na); (fld_41, v_true)]);
    ([tok_4; tok_115], Some [(fld_0, (B "json")); (fld_1, v_na); (fld_2, (B ":")); (fld_3, v_na); (fld_9, v_true); (fld_30, (B "csv")); (fld_33, v_na); (fld_39, v_true)]);
    ([tok_4; tok_30; tok_53], Some [(fld_0, (B "json")); (fld_1, v_na); (fld_2, (B ":")); (fld_3, v_na); (fld_9, v_true); (fld_30, (B "csv")); (fld_33, v_na)]);
    ([tok_4; tok_116], Some [(fld_0, (B "json")); (fld_1, v_na); (fld_2, (B ":")); (fld_3, v_na); (fld_9, v_true)]);
    ([tok_4; tok_30; tok_56], Some [(fld_0, (B "json")); (fld_1, v_na); (fld_2, (B ":")); (fld_3, v_na); (fld_9, v_true)]);
    ([tok_4; tok_117], Some [(fld_0, (B "json")); (fld_1, v_na); (fld_2, (B ":")); (fld_3, v_na); (fld_9, v_true); (fld_30, (B "json")); (fld_31, v_na); (fld_32, v_na); (fld_33, v_na); (fld_65, v_false)]);
    ([tok_4; tok_30; tok_57], Some [(fld_0, (B "json")); (fld_1, v_na); (fld_2, (B ":")); (fld_3, v_na); (fld_9, v_true); (fld_30, (B "json")); (fld_31, v_na); (fld_32, v_na); (fld_33, v_na); (fld_65, v_false)]);
    ([tok_4; tok_46], Some [(fld_0, (B "json")); (fld_1, v_na); (fld_2, (B ":")); (fld_3, v_na); (fld_9, v_true); (fld_30, (B "jsonl")); (fld_31, (B "")); (fld_32, (B "")); (fld_33, (B "")); (fld_65, v_false)]);
    ([tok_4; tok_30; tok_58], Some [(fld_0, (B "json")); (fld_1, v_na); (fld_2, (B ":")); (fld_3, v_na); (fld_9, v_true); (fld_30, (B "jsonl")); (fld_31, (B "")); (fld_32, (B "")); (fld_33, (B "")); (fld_65, v_false)]);
    ([tok_4; tok_118], Some [(fld_0, (B "json")); (fld_1, v_na); (fld_2, (B ":")); (fld_3, v_na); (fld_9, v_true); (fld_30, (B "markdown")); (fld_32, (B " ")); (fld_33, v_na)]);
    ([tok_4; tok_30; tok_59], Some [(fld_0, (B "json")); (fld_1, v_na); (fld_2, (B ":")); (fld_3, v_na); (fld_9, v_true); (fld_30, (B "markdown")); (fld_32, (B " ")); (fld_33, v_na)]);
    ([tok_4; tok_119], Some [(fld_0, (B "json")); (fld_1, v_na); (fld_2, (B ":")); (fld_3, v_na); (fld_9, v_true); (fld_30, (B "nidx")); (fld_32, (B " ")); (fld_33, v_na); (fld_37, v_true)]);
    ([tok_4; tok_30; tok_61], Some [(fld_0, (B "json")); (fld_1, v_na); (fld_2, (B ":")); (fld_3, v_na); (fld_9, v_true); (fld_30, (B "nidx")); (fld_32, (B " ")); (fld_33, v_na); (fld_37, v_true)]);
    ([tok_4; tok_120], Some [(fld_0, (B "json")); (fld_1, v_na); (fld_2, (B ":")); (fld_3, v_na); (fld_9, v_true); (fld_30, (B "pprint")); (fld_32, (B " ")); (fld_33, v_na)]);
    ([tok_4; tok_30; tok_62], Some [(fld_0, (B "json")); (fld_1, v_na); (fld_2, (B ":")); (fld_3, v_na); (fld_9, v_true); (fld_30, (B "pprint")); (fld_32, (B " ")); (fld_33, v_na)]);
    ([tok_4; tok_121], Some [(fld_0, (B "json")); (fld_1, v_na); (fld_2, (B ":")); (fld_3, v_na); (fld_9, v_true); (fld_30, (B "tsv")); (fld_32, (bs [9]%N)); (fld_33, v_na); (fld_37, v_true)]);
    ([tok_4; tok_30; tok_64], Some [(fld_0, (B "json")); (fld_1, v_na); (fld_2, (B ":")); (fld_3, v_na); (fld_9, v_true); (fld_30, (B "tsv")); (fld_32, (bs [9]%N)); (fld_33, v_na); (fld_37, v_true)]);
    ([tok_4; tok_122], Some [(fld_0, (B "json")); (fld_1, v_na); (fld_2, (B ":")); (fld_3, v_na); (fld_9, v_true); (fld_30, (B "xtab")); (fld_31, (bs [10;10]%N)); (fld_32, (bs [10]%N)); (fld_33, (B " "))]);
    ([tok_4; tok_30; tok_68], Some [(fld_0, (B "json")); (fld_1, v_na); (fld_2, (B ":")); (fld_3, v_na); (fld_9, v_true); (fld_30, (B "xtab")); (fld_31, (bs [10;10]%N)); (fld_32, (bs [10]%N)); (fld_33, (B " "))]);
    ([tok_4; tok_123], Some [(fld_0, (B "json")); (fld_1, v_na); (fld_2, (B ":")); (fld_3, v_na); (fld_9, v_true); (fld_30, (B "yaml")); (fld_31, v_na); (fld_32, v_na); (fld_33, v_na); (fld_65, v_false)]);
    ([tok_4; tok_30; tok_69], Some [(fld_0, (B "json")); (fld_1, v_na); (fld_2, (B ":")); (fld_3, v_na); (fld_9, v_true); (fld_30, (B "yaml")); (fld_31, v_na); (fld_32, v_na); (fld_33, v_na); (fld_65, v_false)]);
    ([tok_4; tok_124], Some [(fld_0, (B "markdown")); (fld_1, (B " ")); (fld_2, (B ":")); (fld_9, v_true); (fld_30, (B "csv")); (fld_33, v_na); (fld_39, v_true)]);
    ([tok_4; tok_31; tok_53], Some [(fld_0, (B "markdown")); (fld_1, (B " ")); (fld_2, (B ":")); (fld_9, v_true); (fld_30, (B "csv")); (fld_33, v_na)]);
    ([tok_4; tok_125], Some [(fld_0, (B "markdown")); (fld_1, (B " ")); (fld_2, (B ":")); (fld_9, v_true)]);
    ([tok_4; tok_31; tok_56], Some [(fld_0, (B "markdown")); (fld_1, (B " ")); (fld_2, (B ":")); (fld_9, v_true)]);
    ([tok_4; tok_126], Some [(fld_0, (B "markdown")); (fld_1, (B " ")); (fld_2, (B ":")); (fld_9, v_true); (fld_30, (B "json")); (fld_31, v_na); (fld_32, v_na); (fld_33, v_na); (fld_65, v_false); (fld_66, v_true)]);
    ([tok_4; tok_31; tok_57], Some [(fld_0, (B "markdown")); (fld_1, (B " ")); (fld_2, (B ":")); (fld_9, v_true); (fld_30, (B "json")); (fld_31, v_na); (fld_32, v_na); (fld_33, v_na); (fld_65, v_false); (fld_66, v_true)]);
    ([tok_4; tok_127], Some [(fld_0, (B "markdown")); (fld_1, (B " ")); (fld_2, (B ":")); (fld_9, v_true); (fld_30, (B "jsonl")); (fld_31, (B "")); (fld_32, (B "")); (fld_33, (B "")); (fld_65, v_false); (fld_66, v_true)]);
    ([tok_4; tok_31; tok_58], Some [(fld_0, (B "markdown")); (fld_1, (B " ")); (fld_2, (B ":")); (fld_9, v_true); (fld_30, (B "jsonl")); (fld_31, (B "")); (fld_32, (B "")); (fld_33, (B "")); (fld_65, v_false); (fld_66, v_true)]);
    ([tok_4; tok_128], Some [(fld_0, (B "markdown")); (fld_1, (B " ")); (fld_2, (B ":")); (fld_9, v_true); (fld_30, (B "nidx")); (fld_32, (B " ")); (fld_33, v_na); (fld_37, v_true)]);
    ([tok_4; tok_31; tok_61], Some [(fld_0, (B "markdown")); (fld_1, (B " ")); (fld_2, (B ":")); (fld_9, v_true); (fld_30, (B "nidx")); (fld_32, (B " ")); (fld_33, v_na); (fld_37, v_true)]);
    ([tok_4; tok_129], Some [(fld_0, (B "markdown")); (fld_1, (B " ")); (fld_2, (B ":")); (fld_9, v_true); (fld_30, (B "pprint")); (fld_32, (B " ")); (fld_33, v_na)]);
    ([tok_4; tok_31; tok_62], Some [(fld_0, (B "markdown")); (fld_1, (B " ")); (fld_2, (B ":")); (fld_9, v_true); (fld_30, (B "pprint")); (fld_32, (B " ")); (fld_33, v_na)]);
    ([tok_4; tok_130], Some [(fld_0, (B "markdown")); (fld_1, (B " ")); (fld_2, (B ":")); (fld_9, v_true); (fld_30, (B "tsv")); (fld_32, (bs [9]%N)); (fld_33, v_na); (fld_37, v_true)]);
    ([tok_4; tok_31; tok_64], Some [(fld_0, (B "markdown")); (fld_1, (B " ")); (fld_2, (B ":")); (fld_9, v_true); (fld_30, (B "tsv")); (fld_32, (bs [9]%N)); (fld_33, v_na); (fld_37, v_true)]);
    ([tok_4; tok_131], Some [(fld_0, (B "markdown")); (fld_1, (B " ")); (fld_2, (B ":")); (fld_9, v_true); (fld_30, (B "xtab")); (fld_31, (bs [10;10]%N)); (fld_32, (bs [10]%N)); (fld_33, (B " "))]);
    ([tok_4; tok_31; tok_68], Some [(fld_0, (B "markdown")); (fld_1, (B " ")); (fld_2, (B ":")); (fld_9, v_true); (fld_30, (B "xtab")); (fld_31, (bs [10;10]%N)); (fld_32, (bs [10]%N)); (fld_33, (B " "))]);
    ([tok_4; tok_132], Some [(fld_0, (B "markdown")); (fld_1, (B " ")); (fld_2, (B ":")); (fld_9, v_true); (fld_30, (B "yaml")); (fld_31, v_na); (fld_32, v_na); (fld_33, v_na); (fld_65, v_false); (fld_66, v_true)]);
    ([tok_4; tok_31; tok_69], Some [(fld_0, (B "markdown")); (fld_1, (B " ")); (fld_2, (B ":")); (fld_9, v_true); (fld_30, (B "yaml")); (fld_31, v_na); (fld_32, v_na); (fld_33, v_na); (fld_65, v_false); (fld_66, v_true)]);
    ([tok_4; tok_198], Some [(fld_0, (B "markdown")); (fld_1, (B " ")); (fld_2, (B ":")); (fld_9, v_true); (fld_30, (B "markdown")); (fld_32, (B " ")); (fld_33, v_na); (fld_45, v_true)]);
    ([tok_4; tok_47; tok_199], Some [(fld_0, (B "markdown")); (fld_1, (B " ")); (fld_2, (B ":")); (fld_9, v_true); (fld_30, (B "markdown")); (fld_32, (B " ")); (fld_33, v_na); (fld_45, v_true)]);
    ([tok_4; tok_197], Some [(fld_0, (B "markdown")); (fld_1, (B " ")); (fld_2, (B ":")); (fld_9, v_true); (fld_30, (B "markdown")); (fld_32, (B " ")); (fld_33, v_na); (fld_45, v_true)]);
    ([tok_4; tok_133], Some [(fld_0, (B "nidx")); (fld_1, (B " ")); (fld_2, (B ":")); (fld_5, (B "([ \t])+")); (fld_9, v_true); (fld_30, (B "pprint")); (fld_32, (B " ")); (fld_33, v_na); (fld_41, v_true)]);
    ([tok_4; tok_33; tok_62; tok_233], Some [(fld_0, (B "nidx")); (fld_1, (B " ")); (fld_2, (B ":")); (fld_5, (B "([ \t])+")); (fld_9, v_true); (fld_30, (B "pprint")); (fld_32, (B " ")); (fld_33, v_na); (fld_41, v_true)]);
    ([tok_4; tok_134], Some [(fld_0, (B "nidx")); (fld_1, (B " ")); (fld_2, (B ":")); (fld_5, (B "([ \t])+")); (fld_9, v_true); (fld_30, (B "csv")); (fld_33, v_na); (fld_39, v_true)]);
    ([tok_4; tok_33; tok_53], Some [(fld_0, (B "nidx")); (fld_1, (B " ")); (fld_2, (B ":")); (fld_5, (B "([ \t])+")); (fld_9, v_true); (fld_30, (B "csv")); (fld_33, v_na)]);
    ([tok_4; tok_135], Some [(fld_0, (B "nidx")); (fld_1, (B " ")); (fld_2, (B ":")); (fld_5, (B "([ \t])+")); (fld_9, v_true)]);
    ([tok_4; tok_33; tok_56], Some [(fld_0, (B "nidx")); (fld_1, (B " ")); (fld_2, (B ":")); (fld_5, (B "([ \t])+")); (fld_9, v_true)]);
    ([tok_4; tok_136], Some [(fld_0, (B "nidx")); (fld_1, (B " ")); (fld_2, (B ":")); (fld_5, (B "([ \t])+")); (fld_9, v_true); (fld_30, (B "json")); (fld_31, v_na); (fld_32, v_na); (fld_33, v_na); (fld_65, v_false); (fld_66, v_true)]);
    ([tok_4; tok_33; tok_57], Some [(fld_0, (B "nidx")); (fld_1, (B " ")); (fld_2, (B ":")); (fld_5, (B "([ \t])+")); (fld_9, v_true); (fld_30, (B "json")); (fld_31, v_na); (fld_32, v_na); (fld_33, v_na); (fld_65, v_false); (fld_66, v_true)]);
    ([tok_4; tok_137], Some [(fld_0, (B "nidx")); (fld_1, (B " ")); (fld_2, (B ":")); (fld_5, (B "([ \t])+")); (fld_9, v_true); (fld_30, (B "jsonl")); (fld_31, (B "")); (fld_32, (B "")); (fld_33, (B "")); (fld_65, v_false); (fld_66, v_true)]);
    ([tok_4; tok_33; tok_58], Some [(fld_0, (B "nidx")); (fld_1, (B " ")); (fld_2, (B ":")); (fld_5, (B "([ \t])+")); (fld_9, v_true); (fld_30, (B "jsonl")); (fld_31, (B "")); (fld_32, (B "")); (fld_33, (B "")); (fld_65, v_false); (fld_66, v_true)]);
    ([tok_4; tok_138], Some [(fld_0, (B "nidx")); (fld_1, (B " ")); (fld_2, (B ":")); (fld_5, (B "([ \t])+")); (fld_9, v_true); (fld_30, (B "markdown")); (fld_32, (B " ")); (fld_33, v_na)]);
    ([tok_4; tok_33; tok_59], Some [(fld_0, (B "nidx")); (fld_1, (B " ")); (fld_2, (B ":")); (fld_5, (B "([ \t])+")); (fld_9, v_true); (fld_30, (B "markdown")); (fld_32, (B " ")); (fld_33, v_na)]);
    ([tok_4; tok_50], Some [(fld_0, (B "nidx")); (fld_1, (B " ")); (fld_2, (B ":")); (fld_5, (B "([ \t])+")); (fld_9, v_true); (fld_30, (B "nidx")); (fld_32, (B " ")); (fld_33, v_na); (fld_37, v_true)]);
    ([tok_4; tok_33; tok_61], Some [(fld_0, (B "nidx")); (fld_1, (B " ")); (fld_2, (B ":")); (fld_5, (B "([ \t])+")); (fld_9, v_true); (fld_30, (B "nidx")); (fld_32, (B " ")); (fld_33, v_na); (fld_37, v_true)]);
    ([tok_4; tok_139], Some [(fld_0, (B "nidx")); (fld_1, (B " ")); (fld_2, (B ":")); (fld_5, (B "([ \t])+")); (fld_9, v_true); (fld_30, (B "pprint")); (fld_32, (B " ")); (fld_33, v_na)]);
    ([tok_4; tok_33; tok_62], Some [(fld_0, (B "nidx")); (fld_1, (B " ")); (fld_2, (B ":")); (fld_5, (B "([ \t])+")); (fld_9, v_true); (fld_30, (B "pprint")); (fld_32, (B " ")); (fld_33, v_na)]);
    ([tok_4; tok_140], Some [(fld_0, (B "nidx")); (fld_1, (B " ")); (fld_2, (B ":")); (fld_5, (B "([ \t])+")); (fld_9, v_true); (fld_30, (B "tsv")); (fld_32, (bs [9]%N)); (fld_33, v_na); (fld_37, v_true)]);
    ([tok_4; tok_33; tok_64], Some [(fld_0, (B "nidx")); (fld_1, (B " ")); (fld_2, (B ":")); (fld_5, (B "([ \t])+")); (fld_9, v_true); (fld_30, (B "tsv")); (fld_32, (bs [9]%N)); (fld_33, v_na); (fld_37, v_true)]);
    ([tok_4; tok_141], Some [(fld_0, (B "nidx")); (fld_1, (B " ")); (fld_2, (B ":")); (fld_5, (B "([ \t])+")); (fld_9, v_true); (fld_30, (B "xtab")); (fld_31, (bs [10;10]%N)); (fld_32, (bs [10]%N)); (fld_33, (B " "))]);
    ([tok_4; tok_33; tok_68], Some [(fld_0, (B "nidx")); (fld_1, (B " ")); (fld_2, (B ":")); (fld_5, (B "([ \t])+")); (fld_9, v_true); (fld_30, (B "xtab")); (fld_31, (bs [10;10]%N)); (fld_32, (bs [10]%N)); (fld_33, (B " "))]);
    ([tok_4; tok_142], Some [(fld_0, (B "nidx")); (fld_1, (B " ")); (fld_2, (B ":")); (fld_5, (B "([ \t])+")); (fld_9, v_true); (fld_30, (B "yaml")); (fld_31, v_na); (fld_32, v_na); (fld_33, v_na); (fld_65, v_false); (fld_66, v_true)]);
    ([tok_4; tok_33; tok_69], Some [(fld_0, (B "nidx")); (fld_1, (B " ")); (fld_2, (B ":")); (fld_5, (B "([ \t])+")); (fld_9, v_true); (fld_30, (B "yaml")); (fld_31, v_na); (fld_32, v_na); (fld_33, v_na); (fld_65, v_false); (fld_66, v_true)]);
    ([tok_4; tok_143], Some [(fld_0, (B "pprint")); (fld_1, (B " ")); (fld_2, (B ":")); (fld_4, v_true); (fld_8, v_true); (fld_9, v_true); (fld_30, (B "csv")); (fld_33, v_na); (fld_39, v_true)]);
    ([tok_4; tok_34; tok_53], Some [(fld_0, (B "pprint")); (fld_1, (B " ")); (fld_2, (B ":")); (fld_4, v_true); (fld_8, v_true); (fld_9, v_true); (fld_30, (B "csv")); (fld_33, v_na)]);
    ([tok_4; tok_144], Some [(fld_0, (B "pprint")); (fld_1, (B " ")); (fld_2, (B ":")); (fld_4, v_true); (fld_8, v_true); (fld_9, v_true)]);
    ([tok_4; tok_34; tok_56], Some [(fld_0, (B "pprint")); (fld_1, (B " ")); (fld_2, (B ":")); (fld_4, v_true); (fld_8, v_true); (fld_9, v_true)]);
    ([tok_4; tok_145], Some [(fld_0, (B "pprint")); (fld_1, (B " ")); (fld_2, (B ":")); (fld_4, v_true); (fld_8, v_true); (fld_9, v_true); (fld_30, (B "json")); (fld_31, v_na); (fld_32, v_na); (fld_33, v_na); (fld_65, v_false); (fld_66, v_true)]);
    ([tok_4; tok_34; tok_57], Some [(fld_0, (B "pprint")); (fld_1, (B " ")); (fld_2, (B ":")); (fld_4, v_true); (fld_8, v_true); (fld_9, v_true); (fld_30, (B "json")); (fld_31, v_na); (fld_32, v_na); (fld_33, v_na); (fld_65, v_false); (fld_66, v_true)]);
    ([tok_4; tok_146], Some [(fld_0, (B "pprint")); (fld_1, (B " ")); (fld_2, (B ":")); (fld_4, v_true); (fld_8, v_true); (fld_9, v_true); (fld_30, (B "jsonl")); (fld_31, (B "")); (fld_32, (B "")); (fld_33, (B "")); (fld_65, v_false); (fld_66, v_true)]);
    ([tok_4; tok_34; tok_58], Some [(fld_0, (B "pprint")); (fld_1, (B " ")); (fld_2, (B ":")); (fld_4, v_true); (fld_8, v_true); (fld_9, v_true); (fld_30, (B "jsonl")); (fld_31, (B "")); (fld_32, (B "")); (fld_33, (B "")); (fld_65, v_false); (fld_66, v_true)]);
    ([tok_4; tok_147], Some [(fld_0, (B "pprint")); (fld_1, (B " ")); (fld_2, (B ":")); (fld_4, v_true); (fld_8, v_true); (fld_9, v_true); (fld_30, (B "markdown")); (fld_32, (B " ")); (fld_33, v_na)]);
    ([tok_4; tok_34; tok_59], Some [(fld_0, (B "pprint")); (fld_1, (B " ")); (fld_2, (B ":")); (fld_4, v_true); (fld_8, v_true); (fld_9, v_true); (fld_30, (B "markdown")); (fld_32, (B " ")); (fld_33, v_na)]);
    ([tok_4; tok_148], Some [(fld_0, (B "pprint")); (fld_1, (B " ")); (fld_2, (B ":")); (fld_4, v_true); (fld_8, v_true); (fld_9, v_true); (fld_30, (B "nidx")); (fld_32, (B " ")); (fld_33, v_na); (fld_37, v_true)]);
    ([tok_4; tok_34; tok_61], Some [(fld_0, (B "pprint")); (fld_1, (B " ")); (fld_2, (B ":")); (fld_4, v_true); (fld_8, v_true); (fld_9, v_true); (fld_30, (B "nidx")); (fld_32, (B " ")); (fld_33, v_na); (fld_37, v_true)]);
    ([tok_4; tok_71], Some [(fld_0, (B "pprint")); (fld_1, (B " ")); (fld_2, (B ":")); (fld_4, v_true); (fld_8, v_true); (fld_9, v_true); (fld_30, (B "pprint")); (fld_32, (B " ")); (fld_33, v_na)]);
    ([tok_4; tok_34; tok_62], Some [(fld_0, (B "pprint")); (fld_1, (B " ")); (fld_2, (B ":")); (fld_4, v_true); (fld_8, v_true); (fld_9, v_true); (fld_30, (B "pprint")); (fld_32, (B " ")); (fld_33, v_na)]);
    ([tok_4; tok_149], Some [(fld_0, (B "pprint")); (fld_1, (B " ")); (fld_2, (B ":")); (fld_4, v_true); (fld_8, v_true); (fld_9, v_true); (fld_30, (B "tsv")); (fld_32, (bs [9]%N)); (fld_33, v_na); (fld_37, v_true)]);
    ([tok_4; tok_34; tok_64], Some [(fld_0, (B "pprint")); (fld_1, (B " ")); (fld_2, (B ":")); (fld_4, v_true); (fld_8, v_true); (fld_9, v_true); (fld_30, (B "tsv")); (fld_32, (bs [9]%N)); (fld_33, v_na); (fld_37, v_true)]);
    ([tok_4; tok_150], Some [(fld_0, (B "pprint")); (fld_1, (B " ")); (fld_2, (B ":")); (fld_4, v_true); (fld_8, v_true); (fld_9, v_true); (fld_30, (B "xtab")); (fld_31, (bs [10;10]%N)); (fld_32, (bs [10]%N)); (fld_33, (B " "))]);
    ([tok_4; tok_34; tok_68], Some [(fld_0, (B "pprint")); (fld_1, (B " ")); (fld_2, (B ":")); (fld_4, v_true); (fld_8, v_true); (fld_9, v_true); (fld_30, (B "xtab")); (fld_31, (bs [10;10]%N)); (fld_32, (bs [10]%N)); (fld_33, (B " "))]);
    ([tok_4; tok_151], Some [(fld_0, (B "pprint")); (fld_1, (B " ")); (fld_2, (B ":")); (fld_4, v_true); (fld_8, v_true); (fld_9, v_true); (fld_30, (B "yaml")); (fld_31, v_na); (fld_32, v_na); (fld_33, v_na); (fld_65, v_false); (fld_66, v_true)]);
    ([tok_4; tok_34; tok_69], Some [(fld_0, (B "pprint")); (fld_1, (B " ")); (fld_2, (B ":")); (fld_4, v_true); (fld_8, v_true); (fld_9, v_true); (fld_30, (B "yaml")); (fld_31, v_na); (fld_32, v_na); (fld_33, v_na); (fld_65, v_false); (fld_66, v_true)]);
    ([tok_4; tok_152], Some [(fld_0, (B "tsv")); (fld_1, (bs [9]%N)); (fld_2, (B ":")); (fld_9, v_true); (fld_30, (B "pprint")); (fld_32, (B " ")); (fld_33, v_na); (fld_41, v_true)]);
    ([tok_4; tok_36; tok_62; tok_233], Some [(fld_0, (B "tsv")); (fld_1, (bs [9]%N)); (fld_2, (B ":")); (fld_9, v_true); (fld_30, (B "pprint")); (fld_32, (B " ")); (fld_33, v_na); (fld_41, v_true)]);
    ([tok_4; tok_153], Some [(fld_0, (B "tsv")); (fld_1, (bs [9]%N)); (fld_2, (B ":")); (fld_9, v_true); (fld_30, (B "csv")); (fld_33, v_na)]);
    ([tok_4; tok_36; tok_53], Some [(fld_0, (B "tsv")); (fld_1, (bs [9]%N)); (fld_2, (B ":")); (fld_9, v_true); (fld_30, (B "csv")); (fld_33, v_na)]);
    ([tok_4; tok_154], Some [(fld_0, (B "tsv")); (fld_1, (bs [9]%N)); (fld_2, (B ":")); (fld_9, v_true)]);
    ([tok_4; tok_36; tok_56], Some [(fld_0, (B "tsv")); (fld_1, (bs [9]%N)); (fld_2, (B ":")); (fld_9, v_true)]);
    ([tok_4; tok_155], Some [(fld_0, (B "tsv")); (fld_1, (bs [9]%N)); (fld_2, (B ":")); (fld_9, v_true); (fld_30, (B "json")); (fld_31, v_na); (fld_32, v_na); (fld_33, v_na); (fld_65, v_false); (fld_66, v_true)]);
    ([tok_4; tok_36; tok_57], Some [(fld_0, (B "tsv")); (fld_1, (bs [9]%N)); (fld_2, (B ":")); (fld_9, v_true); (fld_30, (B "json")); (fld_31, v_na); (fld_32, v_na); (fld_33, v_na); (fld_65, v_false); (fld_66, v_true)]);
    ([tok_4; tok_156], Some [(fld_0, (B "tsv")); (fld_1, (bs [9]%N)); (fld_2, (B ":")); (fld_9, v_true); (fld_30, (B "jsonl")); (fld_31, (B "")); (fld_32, (B "")); (fld_33, (B "")); (fld_65, v_false); (fld_66, v_true)]);
    ([tok_4; tok_36; tok_58], Some [(fld_0, (B "tsv")); (fld_1, (bs [9]%N)); (fld_2, (B ":")); (fld_9, v_true); (fld_30, (B "jsonl")); (fld_31, (B "")); (fld_32, (B "")); (fld_33, (B "")); (fld_65, v_false); (fld_66, v_true)]);
    ([tok_4; tok_157], Some [(fld_0, (B "tsv")); (fld_1, (bs [9]%N)); (fld_2, (B ":")); (fld_9, v_true); (fld_30, (B "markdown")); (fld_32, (B " ")); (fld_33, v_na)]);
    ([tok_4; tok_36; tok_59], Some [(fld_0, (B "tsv")); (fld_1, (bs [9]%N)); (fld_2, (B ":")); (fld_9, v_true); (fld_30, (B "markdown")); (fld_32, (B " ")); (fld_33, v_na)]);
    ([tok_4; tok_158], Some [(fld_0, (B "tsv")); (fld_1, (bs [9]%N)); (fld_2, (B ":")); (fld_9, v_true); (fld_30, (B "nidx")); (fld_32, (B " ")); (fld_33, v_na); (fld_37, v_true)]);
    ([tok_4; tok_36; tok_61], Some [(fld_0, (B "tsv")); (fld_1, (bs [9]%N)); (fld_2, (B ":")); (fld_9, v_true); (fld_30, (B "nidx")); (fld_32, (B " ")); (fld_33, v_na); (fld_37, v_true)]);
    ([tok_4; tok_159], Some [(fld_0, (B "tsv")); (fld_1, (bs [9]%N)); (fld_2, (B ":")); (fld_9, v_true); (fld_30, (B "pprint")); (fld_32, (B " ")); (fld_33, v_na)]);
    ([tok_4; tok_36; tok_62], Some [(fld_0, (B "tsv")); (fld_1, (bs [9]%N)); (fld_2, (B ":")); (fld_9, v_true); (fld_30, (B "pprint")); (fld_32, (B " ")); (fld_33, v_na)]);
    ([tok_4; tok_75], Some [(fld_0, (B "tsv")); (fld_1, (bs [9]%N)); (fld_2, (B ":")); (fld_9, v_true); (fld_30, (B "tsv")); (fld_32, (bs [9]%N)); (fld_33, v_na); (fld_37, v_true)]);
    ([tok_4; tok_36; tok_64], Some [(fld_0, (B "tsv")); (fld_1, (bs [9]%N)); (fld_2, (B ":")); (fld_9, v_true); (fld_30, (B "tsv")); (fld_32, (bs [9]%N)); (fld_33, v_na); (fld_37, v_true)]);
    ([tok_4; tok_160], Some [(fld_0, (B "tsv")); (fld_1, (bs [9]%N)); (fld_2, (B ":")); (fld_9, v_true); (fld_30, (B "xtab")); (fld_31, (bs [10;10]%N)); (fld_32, (bs [10]%N)); (fld_33, (B " "))]);
    ([tok_4; tok_36; tok_68], Some [(fld_0, (B "tsv")); (fld_1, (bs [9]%N)); (fld_2, (B ":")); (fld_9, v_true); (fld_30, (B "xtab")); (fld_31, (bs [10;10]%N)); (fld_32, (bs [10]%N)); (fld_33, (B " "))]);
    ([tok_4; tok_161], Some [(fld_0, (B "tsv")); (fld_1, (bs [9]%N)); (fld_2, (B ":")); (fld_9, v_true); (fld_30, (B "yaml")); (fld_31, v_na); (fld_32, v_na); (fld_33, v_na); (fld_65, v_false); (fld_66, v_true)]);
    ([tok_4; tok_36; tok_69], Some [(fld_0, (B "tsv")); (fld_1, (bs [9]%N)); (fld_2, (B ":")); (fld_9, v_true); (fld_30, (B "yaml")); (fld_31, v_na); (fld_32, v_na); (fld_33, v_na); (fld_65, v_false); (fld_66, v_true)]);
    ([tok_4; tok_162], Some [(fld_0, (B "xtab")); (fld_1, (bs [10]%N)); (fld_2, (B ":")); (fld_3, (bs [10;10]%N)); (fld_9, v_true); (fld_30, (B "pprint")); (fld_32, (B " ")); (fld_33, v_na); (fld_41, v_true)]);
    ([tok_4; tok_40; tok_62; tok_233], Some [(fld_0, (B "xtab")); (fld_1, (bs [10]%N)); (fld_2, (B ":")); (fld_3, (bs [10;10]%N)); (fld_9, v_true); (fld_30, (B "pprint")); (fld_32, (B " ")); (fld_33, v_na); (fld_41, v_true)]);
    ([tok_4; tok_163], Some [(fld_0, (B "xtab")); (fld_1, (bs [10]%N)); (fld_2, (B ":")); (fld_3, (bs [10;10]%N)); (fld_9, v_true); (fld_30, (B "csv")); (fld_33, v_na); (fld_39, v_true)]);
    ([tok_4; tok_40; tok_53], Some [(fld_0, (B "xtab")); (fld_1, (bs [10]%N)); (fld_2, (B ":")); (fld_3, (bs [10;10]%N)); (fld_9, v_true); (fld_30, (B "csv")); (fld_33, v_na)]);
    ([tok_4; tok_164], Some [(fld_0, (B "xtab")); (fld_1, (bs [10]%N)); (fld_2, (B ":")); (fld_3, (bs [10;10]%N)); (fld_9, v_true)]);
    ([tok_4; tok_40; tok_56], Some [(fld_0, (B "xtab")); (fld_1, (bs [10]%N)); (fld_2, (B ":")); (fld_3, (bs [10;10]%N)); (fld_9, v_true)]);
    ([tok_4; tok_165], Some [(fld_0, (B "xtab")); (fld_1, (bs [10]%N)); (fld_2, (B ":")); (fld_3, (bs [10;10]%N)); (fld_9, v_true); (fld_30, (B "json")); (fld_31, v_na); (fld_32, v_na); (fld_33, v_na); (fld_65, v_false); (fld_66, v_true)]);
    ([tok_4; tok_40; tok_57], Some [(fld_0, (B "xtab")); (fld_1, (bs [10]%N)); (fld_2, (B ":")); (fld_3, (bs [10;10]%N)); (fld_9, v_true); (fld_30, (B "json")); (fld_31, v_na); (fld_32, v_na); (fld_33, v_na); (fld_65, v_false); (fld_66, v_true)]);
    ([tok_4; tok_166], Some [(fld_0, (B "xtab")); (fld_1, (bs [10]%N)); (fld_2, (B ":")); (fld_3, (bs [10;10]%N)); (fld_9, v_true); (fld_30, (B "jsonl")); (fld_31, (B "")); (fld_32, (B "")); (fld_33, (B "")); (fld_65, v_false); (fld_66, v_true)]);
    ([tok_4; tok_40; tok_58], Some [(fld_0, (B "xtab")); (fld_1, (bs [10]%N)); (fld_2, (B ":")); (fld_3, (bs [10;10]%N)); (fld_9, v_true); (fld_30, (B "jsonl")); (fld_31, (B "")); (fld_32, (B "")); (fld_33, (B "")); (fld_65, v_false); (fld_66, v_true)]);
    ([tok_4; tok_167], Some [(fld_0, (B "xtab")); (fld_1, (bs [10]%N)); (fld_2, (B ":")); (fld_3, (bs [10;10]%N)); (fld_9, v_true); (fld_30, (B "markdown")); (fld_32, (B " ")); (fld_33, v_na)]);
    ([tok_4; tok_40; tok_59], Some [(fld_0, (B "xtab")); (fld_1, (bs [10]%N)); (fld_2, (B ":")); (fld_3, (bs [10;10]%N)); (fld_9, v_true); (fld_30, (B "markdown")); (fld_32, (B " ")); (fld_33, v_na)]);
    ([tok_4; tok_168], Some [(fld_0, (B "xtab")); (fld_1, (bs [10]%N)); (fld_2, (B ":")); (fld_3, (bs [10;10]%N)); (fld_9, v_true); (fld_30, (B "nidx")); (fld_32, (B " ")); (fld_33, v_na); (fld_37, v_true)]);
    ([tok_4; tok_40; tok_61], Some [(fld_0, (B "xtab")); (fld_1, (bs [10]%N)); (fld_2, (B ":")); (fld_3, (bs [10;10]%N)); (fld_9, v_true); (fld_30, (B "nidx")); (fld_32, (B " ")); (fld_33, v_na); (fld_37, v_true)]);
    ([tok_4; tok_169], Some [(fld_0, (B "xtab")); (fld_1, (bs [10]%N)); (fld_2, (B ":")); (fld_3, (bs [10;10]%N)); (fld_9, v_true); (fld_30, (B "pprint")); (fld_32, (B " ")); (fld_33, v_na)]);
    ([tok_4; tok_40; tok_62], Some [(fld_0, (B "xtab")); (fld_1, (bs [10]%N)); (fld_2, (B ":")); (fld_3, (bs [10;10]%N)); (fld_9, v_true); (fld_30, (B "pprint")); (fld_32, (B " ")); (fld_33, v_na)]);
    ([tok_4; tok_170], Some [(fld_0, (B "xtab")); (fld_1, (bs [10]%N)); (fld_2, (B ":")); (fld_3, (bs [10;10]%N)); (fld_9, v_true); (fld_30, (B "tsv")); (fld_32, (bs [9]%N)); (fld_33, v_na); (fld_37, v_true)]);
    ([tok_4; tok_40; tok_64], Some [(fld_0, (B "xtab")); (fld_1, (bs [10]%N)); (fld_2, (B ":")); (fld_3, (bs [10;10]%N)); (fld_9, v_true); (fld_30, (B "tsv")); (fld_32, (bs [9]%N)); (fld_33, v_na); (fld_37, v_true)]);
    ([tok_4; tok_80], Some [(fld_0, (B "xtab")); (fld_1, (bs [10]%N)); (fld_2, (B ":")); (fld_3, (bs [10;10]%N)); (fld_9, v_true); (fld_30, (B "xtab")); (fld_31, (bs [10;10]%N)); (fld_32, (bs [10]%N)); (fld_33, (B " "))]);
    ([tok_4; tok_40; tok_68], Some [(fld_0, (B "xtab")); (fld_1, (bs [10]%N)); (fld_2, (B ":")); (fld_3, (bs [10;10]%N)); (fld_9, v_true); (fld_30, (B "xtab")); (fld_31, (bs [10;10]%N)); (fld_32, (bs [10]%N)); (fld_33, (B " "))]);
    ([tok_4; tok_171], Some [(fld_0, (B "xtab")); (fld_1, (bs [10]%N)); (fld_2, (B ":")); (fld_3, (bs [10;10]%N)); (fld_9, v_true); (fld_30, (B "yaml")); (fld_31, v_na); (fld_32, v_na); (fld_33, v_na); (fld_65, v_false); (fld_66, v_true)]);
    ([tok_4; tok_40; tok_69], Some [(fld_0, (B "xtab")); (fld_1, (bs [10]%N)); (fld_2, (B ":")); (fld_3, (bs [10;10]%N)); (fld_9, v_true); (fld_30, (B "yaml")); (fld_31, v_na); (fld_32, v_na); (fld_33, v_na); (fld_65, v_false); (fld_66, v_true)]);
    ([tok_4; tok_172], Some [(fld_0, (B "yaml")); (fld_1, v_na); (fld_2, (B ":")); (fld_3, v_na); (fld_9, v_true); (fld_30, (B "csv")); (fld_33, v_na); (fld_39, v_true)]);
    ([tok_4; tok_41; tok_53], Some [(fld_0, (B "yaml")); (fld_1, v_na); (fld_2, (B ":")); (fld_3, v_na); (fld_9, v_true); (fld_30, (B "csv")); (fld_33, v_na)]);
    ([tok_4; tok_173], Some [(fld_0, (B "yaml")); (fld_1, v_na); (fld_2, (B ":")); (fld_3, v_na); (fld_9, v_true)]);
    ([tok_4; tok_41; tok_56], Some [(fld_0, (B "yaml")); (fld_1, v_na); (fld_2, (B ":")); (fld_3, v_na); (fld_9, v_true)]);
    ([tok_4; tok_174], Some [(fld_0, (B "yaml")); (fld_1, v_na); (fld_2, (B ":")); (fld_3, v_na); (fld_9, v_true); (fld_30, (B "json")); (fld_31, v_na); (fld_32, v_na); (fld_33, v_na); (fld_65, v_false)]);
    ([tok_4; tok_41; tok_57], Some [(fld_0, (B "yaml")); (fld_1, v_na); (fld_2, (B ":")); (fld_3, v_na); (fld_9, v_true); (fld_30, (B "json")); (fld_31, v_na); (fld_32, v_na); (fld_33, v_na); (fld_65, v_false)]);
    ([tok_4; tok_175], Some [(fld_0, (B "yaml")); (fld_1, v_na); (fld_2, (B ":")); (fld_3, v_na); (fld_9, v_true); (fld_30, (B "jsonl")); (fld_31, (B "")); (fld_32, (B "")); (fld_33, (B "")); (fld_65, v_false)]);
    ([tok_4; tok_41; tok_58], Some [(fld_0, (B "yaml")); (fld_1, v_na); (fld_2, (B ":")); (fld_3, v_na); (fld_9, v_true); (fld_30, (B "jsonl")); (fld_31, (B "")); (fld_32, (B "")); (fld_33, (B "")); (fld_65, v_false)]);
    ([tok_4; tok_176], Some [(fld_0, (B "yaml")); (fld_1, v_na); (fld_2, (B ":")); (fld_3, v_na); (fld_9, v_true); (fld_30, (B "markdown")); (fld_32, (B " ")); (fld_33, v_na)]);
    ([tok_4; tok_41; tok_59], Some [(fld_0, (B "yaml")); (fld_1, v_na); (fld_2, (B ":")); (fld_3, v_na); (fld_9, v_true); (fld_30, (B "markdown")); (fld_32, (B " ")); (fld_33, v_na)]);
    ([tok_4; tok_177], Some [(fld_0, (B "yaml")); (fld_1, v_na); (fld_2, (B ":")); (fld_3, v_na); (fld_9, v_true); (fld_30, (B "nidx")); (fld_32, (B " ")); (fld_33, v_na); (fld_37, v_true)]);
    ([tok_4; tok_41; tok_61], Some [(fld_0, (B "yaml")); (fld_1, v_na); (fld_2, (B ":")); (fld_3, v_na); (fld_9, v_true); (fld_30, (B "nidx")); (fld_32, (B " ")); (fld_33, v_na); (fld_37, v_true)]);
    ([tok_4; tok_178], Some [(fld_0, (B "yaml")); (fld_1, v_na); (fld_2, (B ":")); (fld_3, v_na); (fld_9, v_true); (fld_30, (B "pprint")); (fld_32, (B " ")); (fld_33, v_na)]);
    ([tok_4; tok_41; tok_62], Some [(fld_0, (B "yaml")); (fld_1, v_na); (fld_2, (B ":")); (fld_3, v_na); (fld_9, v_true); (fld_30, (B "pprint")); (fld_32, (B " ")); (fld_33, v_na)]);
    ([tok_4; tok_179], Some [(fld_0, (B "yaml")); (fld_1, v_na); (fld_2, (B ":")); (fld_3, v_na); (fld_9, v_true); (fld_30, (B "tsv")); (fld_32, (bs [9]%N)); (fld_33, v_na); (fld_37, v_true)]);
    ([tok_4; tok_41; tok_64], Some [(fld_0, (B "yaml")); (fld_1, v_na); (fld_2, (B ":")); (fld_3, v_na); (fld_9, v_true); (fld_30, (B "tsv")); (fld_32, (bs [9]%N)); (fld_33, v_na); (fld_37, v_true)]);
    ([tok_4; tok_180], Some [(fld_0, (B "yaml")); (fld_1, v_na); (fld_2, (B ":")); (fld_3, v_na); (fld_9, v_true); (fld_30, (B "xtab")); (fld_31, (bs [10;10]%N)); (fld_32, (bs [10]%N)); (fld_33, (B " "))]);
    ([tok_4; tok_41; tok_68], Some [(fld_0, (B "yaml")); (fld_1, v_na); (fld_2, (B ":")); (fld_3, v_na); (fld_9, v_true); (fld_30, (B "xtab")); (fld_31, (bs [10;10]%N)); (fld_32, (bs [10]%N)); (fld_33, (B " "))]);
    ([tok_4; tok_83], Some [(fld_0, (B "yaml")); (fld_1, v_na); (fld_2, (B ":")); (fld_3, v_na); (fld_9, v_true); (fld_30, (B "yaml")); (fld_31, v_na); (fld_32, v_na); (fld_33, v_na); (fld_65, v_false)]);
    ([tok_4; tok_41; tok_69], Some [(fld_0, (B "yaml")); (fld_1, v_na); (fld_2, (B ":")); (fld_3, v_na); (fld_9, v_true); (fld_30, (B "yaml")); (fld_31, v_na); (fld_32, v_na); (fld_33, v_na); (fld_65, v_false)]);
    ([tok_4; tok_235], Some [(fld_2, (B ":")); (fld_9, v_true); (fld_12, v_true); (fld_40, v_true)]);
    ([tok_4; tok_207; tok_204], Some [(fld_2, (B ":")); (fld_9, v_true); (fld_12, v_true); (fld_40, v_true)]);
    ([tok_4; tok_182], Some [(fld_0, (B "nidx")); (fld_1, (bs [9]%N)); (fld_2, (B ":")); (fld_8, v_true); (fld_9, v_true); (fld_30, (B "nidx")); (fld_32, (bs [9]%N)); (fld_33, v_na); (fld_37, v_true)]);
    ([tok_4; tok_49; tok_236; tok_237], Some [(fld_0, (B "nidx")); (fld_1, (bs [9]%N)); (fld_2, (B ":")); (fld_8, v_true); (fld_9, v_true); (fld_30, (B "nidx")); (fld_32, (bs [9]%N)); (fld_33, v_na); (fld_37, v_true)]);
    ([tok_4; tok_181], Some [(fld_0, (B "nidx")); (fld_1, (B " ")); (fld_2, (B ":")); (fld_4, v_true); (fld_8, v_true); (fld_9, v_true); (fld_11, v_true); (fld_30, (B "nidx")); (fld_32, (B " ")); (fld_33, v_na); (fld_37, v_true)]);
    ([tok_4; tok_49; tok_236; tok_238; tok_239], Some [(fld_0, (B "nidx")); (fld_1, (B " ")); (fld_2, (B ":")); (fld_4, v_true); (fld_8, v_true); (fld_9, v_true); (fld_11, v_true); (fld_30, (B "nidx")); (fld_32, (B " ")); (fld_33, v_na); (fld_37, v_true)]);
    ([tok_263], Some [(fld_2, (bs [27]%N)); (fld_9, v_true)]);
    ([tok_264], Some [(fld_2, (bs [27]%N)); (fld_9, v_true)]);
    ([tok_265], Some [(fld_2, (bs [3]%N)); (fld_9, v_true)]);
    ([tok_266], Some [(fld_2, (bs [3]%N)); (fld_9, v_true)]);
    ([tok_267], Some [(fld_2, (bs [28]%N)); (fld_9, v_true)]);
    ([tok_268], Some [(fld_2, (bs [28]%N)); (fld_9, v_true)]);
    ([tok_269], Some [(fld_2, (bs [29]%N)); (fld_9, v_true)]);
    ([tok_270], Some [(fld_2, (bs [29]%N)); (fld_9, v_true)]);
    ([tok_271], Some [(fld_2, (bs [0]%N)); (fld_9, v_true)]);
    ([tok_272], Some [(fld_2, (bs [0]%N)); (fld_9, v_true)]);
    ([tok_273], Some [(fld_2, (bs [30]%N)); (fld_9, v_true)]);
    ([tok_274], Some [(fld_2, (bs [30]%N)); (fld_9, v_true)]);
    ([tok_275], Some [(fld_2, (bs [1]%N)); (fld_9, v_true)]);
    ([tok_276], Some [(fld_2, (bs [1]%N)); (fld_9, v_true)]);
    ([tok_277], Some [(fld_2, (bs [2]%N)); (fld_9, v_true)]);
    ([tok_278], Some [(fld_2, (bs [2]%N)); (fld_9, v_true)]);
    ([tok_279], Some [(fld_2, (bs [31]%N)); (fld_9, v_true)]);
    ([tok_280], Some [(fld_2, (bs [31]%N)); (fld_9, v_true)]);
    ([tok_281], Some [(fld_2, (bs [31]%N)); (fld_9, v_true)]);
    ([tok_282], Some [(fld_2, (bs [30]%N)); (fld_9, v_true)]);
    ([tok_283], Some [(fld_2, (B ":")); (fld_9, v_true)]);
    ([tok_4], Some [(fld_2, (B ":")); (fld_9, v_true)]);
    ([tok_284], Some [(fld_2, (B ",")); (fld_9, v_true)]);
    ([tok_285], Some [(fld_2, (B ",")); (fld_9, v_true)]);
    ([tok_286], Some [(fld_2, (bs [13]%N)); (fld_9, v_true)]);
    ([tok_287], Some [(fld_2, (bs [13]%N)); (fld_9, v_true)]);
    ([tok_288], Some [(fld_2, (bs [13;13]%N)); (fld_9, v_true)]);
    ([tok_289], Some [(fld_2, (bs [13;13]%N)); (fld_9, v_true)]);
    ([tok_290], Some [(fld_2, (bs [13;10]%N)); (fld_9, v_true)]);
    ([tok_291], Some [(fld_2, (bs [13;10]%N)); (fld_9, v_true)]);
    ([tok_292], Some [(fld_2, (bs [13;10;13;10]%N)); (fld_9, v_true)]);
    ([tok_293], Some [(fld_2, (bs [13;10;13;10]%N)); (fld_9, v_true)]);
    ([tok_294], Some [(fld_9, v_true)]);
    ([tok_295], Some [(fld_9, v_true)]);
    ([tok_296], Some [(fld_2, (bs [10]%N)); (fld_9, v_true)]);
    ([tok_297], Some [(fld_2, (bs [10]%N)); (fld_9, v_true)]);
    ([tok_298], Some [(fld_2, (bs [10;10]%N)); (fld_9, v_true)]);
    ([tok_299], Some [(fld_2, (bs [10;10]%N)); (fld_9, v_true)]);
    ([tok_300], Some [(fld_2, (bs [10]%N)); (fld_9, v_true)]);
    ([tok_301], Some [(fld_2, (B "|")); (fld_9, v_true)]);
    ([tok_302], Some [(fld_2, (B "|")); (fld_9, v_true)]);
    ([tok_214], Some [(fld_2, (B ";")); (fld_9, v_true)]);
    ([tok_2], Some [(fld_2, (B ";")); (fld_9, v_true)]);
    ([tok_303], Some [(fld_2, (B "/")); (fld_9, v_true)]);
    ([tok_304], Some [(fld_2, (B "/")); (fld_9, v_true)]);
    ([tok_238], Some [(fld_2, (B " ")); (fld_9, v_true)]);
    ([tok_305], Some [(fld_2, (B " ")); (fld_9, v_true)]);
    ([tok_237], Some [(fld_2, (bs [9]%N)); (fld_9, v_true)]);
    ([tok_306], Some [(fld_2, (bs [9]%N)); (fld_9, v_true)]);
    ([tok_307], Some [(fld_2, (bs [226;144;159]%N)); (fld_9, v_true)]);
    ([tok_308], Some [(fld_2, (bs [226;144;159]%N)); (fld_9, v_true)]);
    ([tok_309], Some [(fld_2, (bs [226;144;158]%N)); (fld_9, v_true)]);
    ([tok_310], Some [(fld_2, (bs [226;144;158]%N)); (fld_9, v_true)])]);
  (tok_6, [
    ([tok_4; tok_84], Some [(fld_0, (B "csv")); (fld_2, v_na); (fld_10, v_true); (fld_30, (B "pprint")); (fld_32, (B " ")); (fld_33, (B ":")); (fld_38, v_true); (fld_41, v_true)]);
    ([tok_4; tok_24; tok_62; tok_233], Some [(fld_0, (B "csv")); (fld_2, v_na); (fld_30, (B "pprint")); (fld_32, (B " ")); (fld_33, (B ":")); (fld_38, v_true); (fld_41, v_true)]);
    ([tok_4; tok_12], Some [(fld_0, (B "csv")); (fld_2, v_na); (fld_30, (B "csv")); (fld_33, (B ":")); (fld_38, v_true)]);
    ([tok_4; tok_24; tok_53], Some [(fld_0, (B "csv")); (fld_2, v_na); (fld_30, (B "csv")); (fld_33, (B ":")); (fld_38, v_true)]);
    ([tok_4; tok_85], Some [(fld_0, (B "csv")); (fld_2, v_na); (fld_10, v_true); (fld_33, (B ":")); (fld_38, v_true)]);
    ([tok_4; tok_24; tok_56], Some [(fld_0, (B "csv")); (fld_2, v_na); (fld_33, (B ":")); (fld_38, v_true)]);
    ([tok_4; tok_86], Some [(fld_0, (B "csv")); (fld_2, v_na); (fld_10, v_true); (fld_30, (B "json")); (fld_31, v_na); (fld_32, v_na); (fld_33, (B ":")); (fld_38, v_true); (fld_65, v_false); (fld_66, v_true)]);
    ([tok_4; tok_24; tok_57], Some [(fld_0, (B "csv")); (fld_2, v_na); (fld_30, (B "json")); (fld_31, v_na); (fld_32, v_na); (fld_33, (B ":")); (fld_38, v_true); (fld_65, v_false); (fld_66, v_true)]);
    ([tok_4; tok_87], Some [(fld_0, (B "csv")); (fld_2, v_na); (fld_10, v_true); (fld_30, (B "jsonl")); (fld_31, (B "")); (fld_32, (B "")); (fld_33, (B ":")); (fld_38, v_true); (fld_65, v_false); (fld_66, v_true)]);
    ([tok_4; tok_24; tok_58], Some [(fld_0, (B "csv")); (fld_2, v_na); (fld_30, (B "jsonl")); (fld_31, (B "")); (fld_32, (B "")); (fld_33, (B ":")); (fld_38, v_true); (fld_65, v_false); (fld_66, v_true)]);
    ([tok_4; tok_88], Some [(fld_0, (B "csv")); (fld_2, v_na); (fld_10, v_true); (fld_30, (B "markdown")); (fld_32, (B " ")); (fld_33, (B ":")); (fld_38, v_true)]);
    ([tok_4; tok_24; tok_59], Some [(fld_0, (B "csv")); (fld_2, v_na); (fld_30, (B "markdown")); (fld_32, (B " ")); (fld_33, (B ":")); (fld_38, v_true)]);
    ([tok_4; tok_89], Some [(fld_0, (B "csv")); (fld_2, v_na); (fld_10, v_true); (fld_30, (B "nidx")); (fld_32, (B " ")); (fld_33, (B ":")); (fld_37, v_true); (fld_38, v_true)]);
    ([tok_4; tok_24; tok_61], Some [(fld_0, (B "csv")); (fld_2, v_na); (fld_30, (B "nidx")); (fld_32, (B " ")); (fld_33, (B ":")); (fld_37, v_true); (fld_38, v_true)]);
    ([tok_4; tok_90], Some [(fld_0, (B "csv")); (fld_2, v_na); (fld_10, v_true); (fld_30, (B "pprint")); (fld_32, (B " ")); (fld_33, (B ":")); (fld_38, v_true)]);
    ([tok_4; tok_24; tok_62], Some [(fld_0, (B "csv")); (fld_2, v_na); (fld_30, (B "pprint")); (fld_32, (B " ")); (fld_33, (B ":")); (fld_38, v_true)]);
    ([tok_4; tok_91], Some [(fld_0, (B "csv")); (fld_2, v_na); (fld_10, v_true); (fld_30, (B "tsv")); (fld_32, (bs [9]%N)); (fld_33, (B ":")); (fld_37, v_true); (fld_38, v_true)]);
    ([tok_4; tok_24; tok_64], Some [(fld_0, (B "csv")); (fld_2, v_na); (fld_30, (B "tsv")); (fld_32, (bs [9]%N)); (fld_33, (B ":")); (fld_37, v_true); (fld_38, v_true)]);
    ([tok_4; tok_92], Some [(fld_0, (B "csv")); (fld_2, v_na); (fld_10, v_true); (fld_30, (B "xtab")); (fld_31, (bs [10;10]%N)); (fld_32, (bs [10]%N)); (fld_33, (B ":")); (fld_38, v_true)]);
    ([tok_4; tok_24; tok_68], Some [(fld_0, (B "csv")); (fld_2, v_na); (fld_30, (B "xtab")); (fld_31, (bs [10;10]%N)); (fld_32, (bs [10]%N)); (fld_33, (B ":")); (fld_38, v_true)]);
    ([tok_4; tok_93], Some [(fld_0, (B "csv")); (fld_2, v_na); (fld_10, v_true); (fld_30, (B "yaml")); (fld_31, v_na); (fld_32, v_na); (fld_33, (B ":")); (fld_38, v_true); (fld_65, v_false); (fld_66, v_true)]);
    ([tok_4; tok_24; tok_69], Some [(fld_0, (B "csv")); (fld_2, v_na); (fld_30, (B "yaml")); (fld_31, v_na); (fld_32, v_na); (fld_33, (B ":")); (fld_38, v_true); (fld_65, v_false); (fld_66, v_true)]);
    ([tok_4; tok_94], Some [(fld_30, (B "pprint")); (fld_32, (B " ")); (fld_33, (B ":")); (fld_38, v_true); (fld_41, v_true)]);
    ([tok_4; tok_27; tok_62; tok_233], Some [(fld_30, (B "pprint")); (fld_32, (B " ")); (fld_33, (B ":")); (fld_38, v_true); (fld_41, v_true)]);
    ([tok_4; tok_95], Some [(fld_30, (B "csv")); (fld_33, (B ":")); (fld_38, v_true)]);
    ([tok_4; tok_27; tok_53], Some [(fld_30, (B "csv")); (fld_33, (B ":")); (fld_38, v_true)]);
    ([tok_4; tok_16], Some [(fld_33, (B ":")); (fld_38, v_true)]);
    ([tok_4; tok_27; tok_56], Some [(fld_33, (B ":")); (fld_38, v_true)]);
    ([tok_4; tok_96], Some [(fld_30, (B "json")); (fld_31, v_na); (fld_32, v_na); (fld_33, (B ":")); (fld_38, v_true); (fld_65, v_false); (fld_66, v_true)]);
    ([tok_4; tok_27; tok_57], Some [(fld_30, (B "json")); (fld_31, v_na); (fld_32, v_na); (fld_33, (B ":")); (fld_38, v_true); (fld_65, v_false); (fld_66, v_true)]);
    ([tok_4; tok_97], Some [(fld_30, (B "jsonl")); (fld_31, (B "")); (fld_32, (B "")); (fld_33, (B ":")); (fld_38, v_true); (fld_65, v_false); (fld_66, v_true)]);
    ([tok_4; tok_27; tok_58], Some [(fld_30, (B "jsonl")); (fld_31, (B "")); (fld_32, (B "")); (fld_33, (B ":")); (fld_38, v_true); (fld_65, v_false); (fld_66, v_true)]);
    ([tok_4; tok_98], Some [(fld_30, (B "markdown")); (fld_32, (B " ")); (fld_33, (B ":")); (fld_38, v_true)]);
    ([tok_4; tok_27; tok_59], Some [(fld_30, (B "markdown")); (fld_32, (B " ")); (fld_33, (B ":")); (fld_38, v_true)]);
    ([tok_4; tok_99], Some [(fld_30, (B "nidx")); (fld_32, (B " ")); (fld_33, (B ":")); (fld_37, v_true); (fld_38, v_true)]);
    ([tok_4; tok_27; tok_61], Some [(fld_30, (B "nidx")); (fld_32, (B " ")); (fld_33, (B ":")); (fld_37, v_true); (fld_38, v_true)]);
    ([tok_4; tok_100], Some [(fld_30, (B "pprint")); (fld_32, (B " ")); (fld_33, (B ":")); (fld_38, v_true)]);
    ([tok_4; tok_27; tok_62], Some [(fld_30, (B "pprint")); (fld_32, (B " ")); (fld_33, (B ":")); (fld_38, v_true)]);
    ([tok_4; tok_101], Some [(fld_30, (B "tsv")); (fld_32, (bs [9]%N)); (fld_33, (B ":")); (fld_37, v_true); (fld_38, v_true); (fld_39, v_true)]);
    ([tok_4; tok_27; tok_64], Some [(fld_30, (B "tsv")); (fld_32, (bs [9]%N)); (fld_33, (B ":")); (fld_37, v_true); (fld_38, v_true)]);
    ([tok_4; tok_102], Some [(fld_30, (B "xtab")); (fld_31, (bs [10;10]%N)); (fld_32, (bs [10]%N)); (fld_33, (B ":")); (fld_38, v_true)]);
    ([tok_4; tok_27; tok_68], Some [(fld_30, (B "xtab")); (fld_31, (bs [10;10]%N)); (fld_32, (bs [10]%N)); (fld_33, (B ":")); (fld_38, v_true)]);
    ([tok_4; tok_103], Some [(fld_30, (B "yaml")); (fld_31, v_na); (fld_32, v_na); (fld_33, (B ":")); (fld_38, v_true); (fld_65, v_false); (fld_66, v_true)]);
    ([tok_4; tok_27; tok_69], Some [(fld_30, (B "yaml")); (fld_31, v_na); (fld_32, v_na); (fld_33, (B ":")); (fld_38, v_true); (fld_65, v_false); (fld_66, v_true)]);
    ([tok_4; tok_104], Some [(fld_0, (B "json")); (fld_1, v_na); (fld_2, v_na); (fld_3, v_na); (fld_30, (B "pprint")); (fld_32, (B " ")); (fld_33, (B ":")); (fld_38, v_true); (fld_41, v_true)]);
    ([tok_4; tok_29; tok_62; tok_233], Some [(fld_0, (B "json")); (fld_1, v_na); (fld_2, v_na); (fld_3, v_na); (fld_30, (B "pprint")); (fld_32, (B " ")); (fld_33, (B ":")); (fld_38, v_true); (fld_41, v_true)]);
    ([tok_4; tok_105], Some [(fld_0, (B "json")); (fld_1, v_na); (fld_2, v_na); (fld_3, v_na); (fld_30, (B "csv")); (fld_33, (B ":")); (fld_38, v_true); (fld_39, v_true)]);
    ([tok_4; tok_29; tok_53], Some [(fld_0, (B "json")); (fld_1, v_na); (fld_2, v_na); (fld_3, v_na); (fld_30, (B "csv")); (fld_33, (B ":")); (fld_38, v_true)]);
    ([tok_4; tok_106], Some [(fld_0, (B "json")); (fld_1, v_na); (fld_2, v_na); (fld_3, v_na); (fld_33, (B ":")); (fld_38, v_true)]);
    ([tok_4; tok_29; tok_56], Some [(fld_0, (B "json")); (fld_1, v_na); (fld_2, v_na); (fld_3, v_na); (fld_33, (B ":")); (fld_38, v_true)]);
    ([tok_4; tok_44], Some [(fld_0, (B "json")); (fld_1, v_na); (fld_2, v_na); (fld_3, v_na); (fld_30, (B "json")); (fld_31, v_na); (fld_32, v_na); (fld_33, (B ":")); (fld_38, v_true); (fld_65, v_false)]);
    ([tok_4; tok_29; tok_57], Some [(fld_0, (B "json")); (fld_1, v_na); (fld_2, v_na); (fld_3, v_na); (fld_30, (B "json")); (fld_31, v_na); (fld_32, v_na); (fld_33, (B ":")); (fld_38, v_true); (fld_65, v_false)]);
    ([tok_4; tok_107], Some [(fld_0, (B "json")); (fld_1, v_na); (fld_2, v_na); (fld_3, v_na); (fld_30, (B "jsonl")); (fld_31, (B "")); (fld_32, (B "")); (fld_33, (B ":")); (fld_38, v_true); (fld_65, v_false)]);
    ([tok_4; tok_29; tok_58], Some [(fld_0, (B "json")); (fld_1, v_na); (fld_2, v_na); (fld_3, v_na); (fld_30, (B "jsonl")); (fld_31, (B "")); (fld_32, (B "")); (fld_33, (B ":")); (fld_38, v_true); (fld_65, v_false)]);
    ([tok_4; tok_108], Some [(fld_0, (B "json")); (fld_1, v_na); (fld_2, v_na); (fld_3, v_na); (fld_30, (B "markdown")); (fld_32, (B " ")); (fld_33, (B ":")); (fld_38, v_true)]);
    ([tok_4; tok_29; tok_59], Some [(fld_0, (B "json")); (fld_1, v_na); (fld_2, v_na); (fld_3, v_na); (fld_30, (B "markdown")); (fld_32, (B " ")); (fld_33, (B ":")); (fld_38, v_true)]);
    ([tok_4; tok_109], Some [(fld_0, (B "json")); (fld_1, v_na); (fld_2, v_na); (fld_3, v_na); (fld_30, (B "nidx")); (fld_32, (B " ")); (fld_33, (B ":")); (fld_37, v_true); (fld_38, v_true)]);
    ([tok_4; tok_29; tok_61], Some [(fld_0, (B "json")); (fld_1, v_na); (fld_2, v_na); (fld_3, v_na); (fld_30, (B "nidx")); (fld_32, (B " ")); (fld_33, (B ":")); (fld_37, v_true); (fld_38, v_true)]);
    ([tok_4; tok_110], Some [(fld_0, (B "json")); (fld_1, v_na); (fld_2, v_na); (fld_3, v_na); (fld_30, (B "pprint")); (fld_32, (B " ")); (fld_33, (B ":")); (fld_38, v_true)]);
    ([tok_4; tok_29; tok_62], Some [(fld_0, (B "json")); (fld_1, v_na); (fld_2, v_na); (fld_3, v_na); (fld_30, (B "pprint")); (fld_32, (B " ")); (fld_33, (B ":")); (fld_38, v_true)]);
    ([tok_4; tok_111], Some [(fld_0, (B "json")); (fld_1, v_na); (fld_2, v_na); (fld_3, v_na); (fld_30, (B "tsv")); (fld_32, (bs [9]%N)); (fld_33, (B ":")); (fld_37, v_true); (fld_38, v_true)]);
    ([tok_4; tok_29; tok_64], Some [(fld_0, (B "json")); (fld_1, v_na); (fld_2, v_na); (fld_3, v_na); (fld_30, (B "tsv")); (fld_32, (bs [9]%N)); (fld_33, (B ":")); (fld_37, v_true); (fld_38, v_true)]);
    ([tok_4; tok_112], Some [(fld_0, (B "json")); (fld_1, v_na); (fld_2, v_na); (fld_3, v_na); (fld_30, (B "xtab")); (fld_31, (bs [10;10]%N)); (fld_32, (bs [10]%N)); (fld_33, (B ":")); (fld_38, v_true)]);
    ([tok_4; tok_29; tok_68], Some [(fld_0, (B "json")); (fld_1, v_na); (fld_2, v_na); (fld_3, v_na); (fld_30, (B "xtab")); (fld_31, (bs [10;10]%N)); (fld_32, (bs [10]%N)); (fld_33, (B ":")); (fld_38, v_true)]);
    ([tok_4; tok_113], Some [(fld_0, (B "json")); (fld_1, v_na); (fld_2, v_na); (fld_3, v_na); (fld_30, (B "yaml")); (fld_31, v_na); (fld_32, v_na); (fld_33, (B ":")); (fld_38, v_true); (fld_65, v_false)]);
    ([tok_4; tok_29; tok_69], Some [(fld_0, (B "json")); (fld_1, v_na); (fld_2, v_na); (fld_3, v_na); (fld_30, (B "yaml")); (fld_31, v_na); (fld_32, v_na); (fld_33, (B ":")); (fld_38, v_true); (fld_65, v_false)]);
    ([tok_4; tok_114], Some [(fld_0, (B "json")); (fld_1, v_na); (fld_2, v_na); (fld_3, v_na); (fld_30, (B "pprint")); (fld_32, (B " ")); (fld_33, (B ":")); (fld_38, v_true); (fld_41, v_true)]);
    ([tok_4; tok_30; tok_62; tok_233], Some [(fld_0, (B "json")); (fld_1, v_na); (fld_2, v_na); (fld_3, v_na); (fld_30, (B "pprint")); (fld_32, (B " ")); (fld_33, (B ":")); (fld_38, v_true); (fld_41, v_true)]);
    ([tok_4; tok_115], Some [(fld_0, (B "json")); (fld_1, v_na); (fld_2, v_na); (fld_3, v_na); (fld_30, (B "csv")); (fld_33, (B ":")); (fld_38, v_true); (fld_39, v_true)]);
    ([tok_4; tok_30; tok_53], Some [(fld_0, (B "json")); (fld_1, v_na); (fld_2, v_na); (fld_3, v_na); (fld_30, (B "csv")); (fld_33, (B ":")); (fld_38, v_true)]);
    ([tok_4; tok_116], Some [(fld_0, (B "json")); (fld_1, v_na); (fld_2, v_na); (fld_3, v_na); (fld_33, (B ":")); (fld_38, v_true)]);
    ([tok_4; tok_30; tok_56], Some [(fld_0, (B "json")); (fld_1, v_na); (fld_2, v_na); (fld_3, v_na); (fld_33, (B ":")); (fld_38, v_true)]);
    ([tok_4; tok_117], Some [(fld_0, (B "json")); (fld_1, v_na); (fld_2, v_na); (fld_3, v_na); (fld_30, (B "json")); (fld_31, v_na); (fld_32, v_na); (fld_33, (B ":")); (fld_38, v_true); (fld_65, v_false)]);
    ([tok_4; tok_30; tok_57], Some [(fld_0, (B "json")); (fld_1, v_na); (fld_2, v_na); (fld_3, v_na); (fld_30, (B "json")); (fld_31, v_na); (fld_32, v_na); (fld_33, (B ":")); (fld_38, v_true); (fld_65, v_false)]);
    ([tok_4; tok_46], Some [(fld_0, (B "json")); (fld_1, v_na); (fld_2, v_na); (fld_3, v_na); (fld_30, (B "jsonl")); (fld_31, (B "")); (fld_32, (B "")); (fld_33, (B ":")); (fld_38, v_true); (fld_65, v_false)]);
    ([tok_4; tok_30; tok_58], Some [(fld_0, (B "json")); (fld_1, v_na); (fld_2, v_na); (fld_3, v_na); (fld_30, (B "jsonl")); (fld_31, (B "")); (fld_32, (B "")); (fld_33, (B ":")); (fld_38, v_true); (fld_65, v_false)]);
    ([tok_4; tok_118], Some [(fld_0, (B "json")); (fld_1, v_na); (fld_2, v_na); (fld_3, v_na); (fld_30, (B "markdown")); (fld_32, (B " ")); (fld_33, (B ":")); (fld_38, v_true)]);
    ([tok_4; tok_30; tok_59], Some [(fld_0, (B "json")); (fld_1, v_na); (fld_2, v_na); (fld_3, v_na); (fld_30, (B "markdown")); (fld_32, (B " ")); (fld_33, (B ":")); (fld_38, v_true)]);
    ([tok_4; tok_119], Some [(fld_0, (B "json")); (fld_1, v_na); (fld_2, v_na); (fld_3, v_na); (fld_30, (B "nidx")); (fld_32, (B " ")); (fld_33, (B ":")); (fld_37, v_true); (fld_38, v_true)]);
    ([tok_4; tok_30; tok_61], Some [(fld_0, (B "json")); (fld_1, v_na); (fld_2, v_na); (fld_3, v_na); (fld_30, (B "nidx")); (fld_32, (B " ")); (fld_33, (B ":")); (fld_37, v_true); (fld_38, v_true)]);
    ([tok_4; tok_120], Some [(fld_0, (B "json")); (fld_1, v_na); (fld_2, v_na); (fld_3, v_na); (fld_30, (B "pprint")); (fld_32, (B " ")); (fld_33, (B ":")); (fld_38, v_true)]);
    ([tok_4; tok_30; tok_62], Some [(fld_0, (B "json")); (fld_1, v_na); (fld_2, v_na); (fld_3, v_na); (fld_30, (B "pprint")); (fld_32, (B " ")); (fld_33, (B ":")); (fld_38, v_true)]);
    ([tok_4; tok_121], Some [(fld_0, (B "json")); (fld_1, v_na); (fld_2, v_na); (fld_3, v_na); (fld_30, (B "tsv")); (fld_32, (bs [9]%N)); (fld_33, (B ":")); (fld_37, v_true); (fld_38, v_true)]);
    ([tok_4; tok_30; tok_64], Some [(fld_0, (B "json")); (fld_1, v_na); (fld_2, v_na); (fld_3, v_na); (fld_30, (B "tsv")); (fld_32, (bs [9]%N)); (fld_33, (B ":")); (fld_37, v_true); (fld_38, v_true)]);
    ([tok_4; tok_122], Some [(fld_0, (B "json")); (fld_1, v_na); (fld_2, v_na); (fld_3, v_na); (fld_30, (B "xtab")); (fld_31, (bs [10;10]%N)); (fld_32, (bs [10]%N)); (fld_33, (B ":")); (fld_38, v_true)]);
    ([tok_4; tok_30; tok_68], Some [(fld_0, (B "json")); (fld_1, v_na); (fld_2, v_na); (fld_3, v_na); (fld_30, (B "xtab")); (fld_31, (bs [10;10]%N)); (fld_32, (bs [10]%N)); (fld_33, (B ":")); (fld_38, v_true)]);
    ([tok_4; tok_123], Some [(fld_0, (B "json")); (fld_1, v_na); (fld_2, v_na); (fld_3, v_na); (fld_30, (B "yaml")); (fld_31, v_na); (fld_32, v_na); (fld_33, (B ":")); (fld_38, v_true); (fld_65, v_false)]);
    ([tok_4; tok_30; tok_69], Some [(fld_0, (B "json")); (fld_1, v_na); (fld_2, v_na); (fld_3, v_na); (fld_30, (B "yaml")); (fld_31, v_na); (fld_32, v_na); (fld_33, (B ":")); (fld_38, v_true); (fld_65, v_false)]);
    ([tok_4; tok_124], Some [(fld_0, (B "markdown")); (fld_1, (B " ")); (fld_2, v_na); (fld_30, (B "csv")); (fld_33, (B ":")); (fld_38, v_true); (fld_39, v_true)]);
    ([tok_4; tok_31; tok_53], Some [(fld_0, (B "markdown")); (fld_1, (B " ")); (fld_2, v_na); (fld_30, (B "csv")); (fld_33, (B ":")); (fld_38, v_true)]);
    ([tok_4; tok_125], Some [(fld_0, (B "markdown")); (fld_1, (B " ")); (fld_2, v_na); (fld_33, (B ":")); (fld_38, v_true)]);
    ([tok_4; tok_31; tok_56], Some [(fld_0, (B "markdown")); (fld_1, (B " ")); (fld_2, v_na); (fld_33, (B ":")); (fld_38, v_true)]);
    ([tok_4; tok_126], Some [(fld_0, (B "markdown")); (fld_1, (B " ")); (fld_2, v_na); (fld_30, (B "json")); (fld_31, v_na); (fld_32, v_na); (fld_33, (B ":")); (fld_38, v_true); (fld_65, v_false); (fld_66, v_true)]);
    ([tok_4; tok_31; tok_57], Some [(fld_0, (B "markdown")); (fld_1, (B " ")); (fld_2, v_na); (fld_30, (B "json")); (fld_31, v_na); (fld_32, v_na); (fld_33, (B ":")); (fld_38, v_true); (fld_65, v_false); (fld_66, v_true)]);
    ([tok_4; tok_127], Some [(fld_0, (B "markdown")); (fld_1, (B " ")); (fld_2, v_na); (fld_30, (B "jsonl")); (fld_31, (B "")); (fld_32, (B "")); (fld_33, (B ":")); (fld_38, v_true); (fld_65, v_false); (fld_66, v_true)]);
    ([tok_4; tok_31; tok_58], Some [(fld_0, (B "markdown")); (fld_1, (B " ")); (fld_2, v_na); (fld_30, (B "jsonl")); (fld_31, (B "")); (fld_32, (B "")); (fld_33, (B ":")); (fld_38, v_true); (fld_65, v_false); (fld_66, v_true)]);
    ([tok_4; tok_128], Some [(fld_0, (B "markdown")); (fld_1, (B " ")); (fld_2, v_na); (fld_30, (B "nidx")); (fld_32, (B " ")); (fld_33, (B ":")); (fld_37, v_true); (fld_38, v_true)]);
    ([tok_4; tok_31; tok_61], Some [(fld_0, (B "markdown")); (fld_1, (B " ")); (fld_2, v_na); (fld_30, (B "nidx")); (fld_32, (B " ")); (fld_33, (B ":")); (fld_37, v_true); (fld_38, v_true)]);
    ([tok_4; tok_129], Some [(fld_0, (B "markdown")); (fld_1, (B " ")); (fld_2, v_na); (fld_30, (B "pprint")); (fld_32, (B " ")); (fld_33, (B ":")); (fld_38, v_true)]);
    ([tok_4; tok_31; tok_62], Some [(fld_0, (B "markdown")); (fld_1, (B " ")); (fld_2, v_na); (fld_30, (B "pprint")); (fld_32, (B " ")); (fld_33, (B ":")); (fld_38, v_true)]);
    ([tok_4; tok_130], Some [(fld_0, (B "markdown")); (fld_1, (B " ")); (fld_2, v_na); (fld_30, (B "tsv")); (fld_32, (bs [9]%N)); (fld_33, (B ":")); (fld_37, v_true); (fld_38, v_true)]);
    ([tok_4; tok_31; tok_64], Some [(fld_0, (B "markdown")); (fld_1, (B " ")); (fld_2, v_na); (fld_30, (B "tsv")); (fld_32, (bs [9]%N)); (fld_33, (B ":")); (fld_37, v_true); (fld_38, v_true)]);
    ([tok_4; tok_131], Some [(fld_0, (B "markdown")); (fld_1, (B " ")); (fld_2, v_na); (fld_30, (B "xtab")); (fld_31, (bs [10;10]%N)); (fld_32, (bs [10]%N)); (fld_33, (B ":")); (fld_38, v_true)]);
    ([tok_4; tok_31; tok_68], Some [(fld_0, (B "markdown")); (fld_1, (B " ")); (fld_2, v_na); (fld_30, (B "xtab")); (fld_31, (bs [10;10]%N)); (fld_32, (bs [10]%N)); (fld_33, (B ":")); (fld_38, v_true)]);
    ([tok_4; tok_132], Some [(fld_0, (B "markdown")); (fld_1, (B " ")); (fld_2, v_na); (fld_30, (B "yaml")); (fld_31, v_na); (fld_32, v_na); (fld_33, (B ":")); (fld_38, v_true); (fld_65, v_false); (fld_66, v_true)]);
    ([tok_4; tok_31; tok_69], Some [(fld_0, (B "markdown")); (fld_1, (B " ")); (fld_2, v_na); (fld_30, (B "yaml")); (fld_31, v_na); (fld_32, v_na); (fld_33, (B ":")); (fld_38, v_true); (fld_65, v_false); (fld_66, v_true)]);
    ([tok_4; tok_198], Some [(fld_0, (B "markdown")); (fld_1, (B " ")); (fld_2, v_na); (fld_30, (B "markdown")); (fld_32, (B " ")); (fld_33, (B ":")); (fld_38, v_true); (fld_45, v_true)]);
    ([tok_4; tok_47; tok_199], Some [(fld_0, (B "markdown")); (fld_1, (B " ")); (fld_2, v_na); (fld_30, (B "markdown")); (fld_32, (B " ")); (fld_33, (B ":")); (fld_38, v_true); (fld_45, v_true)]);
    ([tok_4; tok_197], Some [(fld_0, (B "markdown")); (fld_1, (B " ")); (fld_2, v_na); (fld_30, (B "markdown")); (fld_32, (B " ")); (fld_33, (B ":")); (fld_38, v_true); (fld_45, v_true)]);
    ([tok_4; tok_133], Some [(fld_0, (B "nidx")); (fld_1, (B " ")); (fld_2, v_na); (fld_5, (B "([ \t])+")); (fld_30, (B "pprint")); (fld_32, (B " ")); (fld_33, (B ":")); (fld_38, v_true); (fld_41, v_true)]);
    ([tok_4; tok_33; tok_62; tok_233], Some [(fld_0, (B "nidx")); (fld_1, (B " ")); (fld_2, v_na); (fld_5, (B "([ \t])+")); (fld_30, (B "pprint")); (fld_32, (B " ")); (fld_33, (B ":")); (fld_38, v_true); (fld_41, v_true)]);
    ([tok_4; tok_134], Some [(fld_0, (B "nidx")); (fld_1, (B " ")); (fld_2, v_na); (fld_5, (B "([ \t])+")); (fld_30, (B "csv")); (fld_33, (B ":")); (fld_38, v_true); (fld_39, v_true)]);
    ([tok_4; tok_33; tok_53], Some [(fld_0, (B "nidx")); (fld_1, (B " ")); (fld_2, v_na); (fld_5, (B "([ \t])+")); (fld_30, (B "csv")); (fld_33, (B ":")); (fld_38, v_true)]);
    ([tok_4; tok_135], Some [(fld_0, (B "nidx")); (fld_1, (B " ")); (fld_2, v_na); (fld_5, (B "([ \t])+")); (fld_33, (B ":")); (fld_38, v_true)]);
    ([tok_4; tok_33; tok_56], Some [(fld_0, (B "nidx")); (fld_1, (B " ")); (fld_2, v_na); (fld_5, (B "([ \t])+")); (fld_33, (B ":")); (fld_38, v_true)]);
    ([tok_4; tok_136], Some [(fld_0, (B "nidx")); (fld_1, (B " ")); (fld_2, v_na); (fld_5, (B "([ \t])+")); (fld_30, (B "json")); (fld_31, v_na); (fld_32, v_na); (fld_33, (B ":")); (fld_38, v_true); (fld_65, v_false); (fld_66, v_true)]);
    ([tok_4; tok_33; tok_57], Some [(fld_0, (B "nidx")); (fld_1, (B " ")); (fld_2, v_na); (fld_5, (B "([ \t])+")); (fld_30, (B "json")); (fld_31, v_na); (fld_32, v_na); (fld_33, (B ":")); (fld_38, v_true); (fld_65, v_false); (fld_66, v_true)]);
    ([tok_4; tok_137], Some [(fld_0, (B "nidx")); (fld_1, (B " ")); (fld_2, v_na); (fld_5, (B "([ \t])+")); (fld_30, (B "jsonl")); (fld_31, (B "")); (fld_32, (B "")); (fld_33, (B ":")); (fld_38, v_true); (fld_65, v_false); (fld_66, v_true)]);
    ([tok_4; tok_33; tok_58], Some [(fld_0, (B "nidx")); (fld_1, (B " ")); (fld_2, v_na); (fld_5, (B "([ \t])+")); (fld_30, (B "jsonl")); (fld_31, (B "")); (fld_32, (B "")); (fld_33, (B ":")); (fld_38, v_true); (fld_65, v_false); (fld_66, v_true)]);
    ([tok_4; tok_138], Some [(fld_0, (B "nidx")); (fld_1, (B " ")); (fld_2, v_na); (fld_5, (B "([ \t])+")); (fld_30, (B "markdown")); (fld_32, (B " ")); (fld_33, (B ":")); (fld_38, v_true)]);
    ([tok_4; tok_33; tok_59], Some [(fld_0, (B "nidx")); (fld_1, (B " ")); (fld_2, v_na); (fld_5, (B "([ \t])+")); (fld_30, (B "markdown")); (fld_32, (B " ")); (fld_33, (B ":")); (fld_38, v_true)]);
    ([tok_4; tok_50], Some [(fld_0, (B "nidx")); (fld_1, (B " ")); (fld_2, v_na); (fld_5, (B "([ \t])+")); (fld_30, (B "nidx")); (fld_32, (B " ")); (fld_33, (B ":")); (fld_37, v_true); (fld_38, v_true)]);
    ([tok_4; tok_33; tok_61], Some [(fld_0, (B "nidx")); (fld_1, (B " ")); (fld_2, v_na); (fld_5, (B "([ \t])+")); (fld_30, (B "nidx")); (fld_32, (B " ")); (fld_33, (B ":")); (fld_37, v_true); (fld_38, v_true)]);
    ([tok_4; tok_139], Some [(fld_0, (B "nidx")); (fld_1, (B " ")); (fld_2, v_na); (fld_5, (B "([ \t])+")); (fld_30, (B "pprint")); (fld_32, (B " ")); (fld_33, (B ":")); (fld_38, v_true)]);
    ([tok_4; tok_33; tok_62], Some [(fld_0, (B "nidx")); (fld_1, (B " ")); (fld_2, v_na); (fld_5, (B "([ \t])+")); (fld_30, (B "pprint")); (fld_32, (B " ")); (fld_33, (B ":")); (fld_38, v_true)]);
    ([tok_4; tok_140], Some [(fld_0, (B "nidx")); (fld_1, (B " ")); (fld_2, v_na); (fld_5, (B "([ \t])+")); (fld_30, (B "tsv")); (fld_32, (bs [9]%N)); (fld_33, (B ":")); (fld_37, v_true); (fld_38, v_true)]);
    ([tok_4; tok_33; tok_64], Some [(fld_0, (B "nidx")); (fld_1, (B " ")); (fld_2, v_na); (fld_5, (B "([ \t])+")); (fld_30, (B "tsv")); (fld_32, (bs [9]%N)); (fld_33, (B ":")); (fld_37, v_true); (fld_38, v_true)]);
    ([tok_4; tok_141], Some [(fld_0, (B "nidx")); (fld_1, (B " ")); (fld_2, v_na); (fld_5, (B "([ \t])+")); (fld_30, (B "xtab")); (fld_31, (bs [10;10]%N)); (fld_32, (bs [10]%N)); (fld_33, (B ":")); (fld_38, v_true)]);
    ([tok_4; tok_33; tok_68], Some [(fld_0, (B "nidx")); (fld_1, (B " ")); (fld_2, v_na); (fld_5, (B "([ \t])+")); (fld_30, (B "xtab")); (fld_31, (bs [10;10]%N)); (fld_32, (bs [10]%N)); (fld_33, (B ":")); (fld_38, v_true)]);
    ([tok_4; tok_142], Some [(fld_0, (B "nidx")); (fld_1, (B " ")); (fld_2, v_na); (fld_5, (B "([ \t])+")); (fld_30, (B "yaml")); (fld_31, v_na); (fld_32, v_na); (fld_33, (B ":")); (fld_38, v_true); (fld_65, v_false); (fld_66, v_true)]);
    ([tok_4; tok_33; tok_69], Some [(fld_0, (B "nidx")); (fld_1, (B " ")); (fld_2, v_na); (fld_5, (B "([ \t])+")); (fld_30, (B "yaml")); (fld_31, v_na); (fld_32, v_na); (fld_33, (B ":")); (fld_38, v_true); (fld_65, v_false); (fld_66, v_true)]);
    ([tok_4; tok_143], Some [(fld_0, (B "pprint")); (fld_1, (B " ")); (fld_2, v_na); (fld_4, v_true); (fld_8, v_true); (fld_30, (B "csv")); (fld_33, (B ":")); (fld_38, v_true); (fld_39, v_true)]);
    ([tok_4; tok_34; tok_53], Some [(fld_0, (B "pprint")); (fld_1, (B " ")); (fld_2, v_na); (fld_4, v_true); (fld_8, v_true); (fld_30, (B "csv")); (fld_33, (B ":")); (fld_38, v_true)]);
    ([tok_4; tok_144], Some [(fld_0, (B "pprint")); (fld_1, (B " ")); (fld_2, v_na); (fld_4, v_true); (fld_8, v_true); (fld_33, (B ":")); (fld_38, v_true)]);
    ([tok_4; tok_34; tok_56], Some [(fld_0, (B "pprint")); (fld_1, (B " ")); (fld_2, v_na); (fld_4, v_true); (fld_8, v_true); (fld_33, (B ":")); (fld_38, v_true)]);
    ([tok_4; tok_145], Some [(fld_0, (B "pprint")); (fld_1, (B " ")); (fld_2, v_na); (fld_4, v_true); (fld_8, v_true); (fld_30, (B "json")); (fld_31, v_na); (fld_32, v_na); (fld_33, (B ":")); (fld_38, v_true); (fld_65, v_false); (fld_66, v_true)]);
    ([tok_4; tok_34; tok_57], Some [(fld_0, (B "pprint")); (fld_1, (B " ")); (fld_2, v_na); (fld_4, v_true); (fld_8, v_true); (fld_30, (B "json")); (fld_31, v_na); (fld_32, v_na); (fld_33, (B ":")); (fld_38, v_true); (fld_65, v_false); (fld_66, v_true)]);
    ([tok_4; tok_146], Some [(fld_0, (B "pprint")); (fld_1, (B " ")); (fld_2, v_na); (fld_4, v_true); (fld_8, v_true); (fld_30, (B "jsonl")); (fld_31, (B "")); (fld_32, (B "")); (fld_33, (B ":")); (fld_38, v_true); (fld_65, v_false); (fld_66, v_true)]);
    ([tok_4; tok_34; tok_58], Some [(fld_0, (B "pprint")); (fld_1, (B " ")); (fld_2, v_na); (fld_4, v_true); (fld_8, v_true); (fld_30, (B "jsonl")); (fld_31, (B "")); (fld_32, (B "")); (fld_33, (B ":")); (fld_38, v_true); (fld_65, v_false); (fld_66, v_true)]);
    ([tok_4; tok_147], Some [(fld_0, (B "pprint")); (fld_1, (B " ")); (fld_2, v_na); (fld_4, v_true); (fld_8, v_true); (fld_30, (B "markdown")); (fld_32, (B " ")); (fld_33, (B ":")); (fld_38, v_true)]);
    ([tok_4; tok_34; tok_59], Some [(fld_0, (B "pprint")); (fld_1, (B " ")); (fld_2, v_na); (fld_4, v_true); (fld_8, v_true); (fld_30, (B "markdown")); (fld_32, (B " ")); (fld_33, (B ":")); (fld_38, v_true)]);
    ([tok_4; tok_148], Some [(fld_0, (B "pprint")); (fld_1, (B " ")); (fld_2, v_na); (fld_4, v_true); (fld_8, v_true); (fld_30, (B "nidx")); (fld_32, (B " ")); (fld_33, (B ":")); (fld_37, v_true); (fld_38, v_true)]);
    ([tok_4; tok_34; tok_61], Some [(fld_0, (B "pprint")); (fld_1, (B " ")); (fld_2, v_na); (fld_4, v_true); (fld_8, v_true); (fld_30, (B "nidx")); (fld_32, (B " ")); (fld_33, (B ":")); (fld_37, v_true); (fld_38, v_true)]);
    ([tok_4; tok_71], Some [(fld_0, (B "pprint")); (fld_1, (B " ")); (fld_2, v_na); (fld_4, v_true); (fld_8, v_true); (fld_30, (B "pprint")); (fld_32, (B " ")); (fld_33, (B ":")); (fld_38, v_true)]);
    ([tok_4; tok_34; tok_62], Some [(fld_0, (B "pprint")); (fld_1, (B " ")); (fld_2, v_na); (fld_4, v_true); (fld_8, v_true); (fld_30, (B "pprint")); (fld_32, (B " ")); (fld_33, (B ":")); (fld_38, v_true)]);
    ([tok_4; tok_149], Some [(fld_0, (B "pprint")); (fld_1, (B " ")); (fld_2, v_na); (fld_4, v_true); (fld_8, v_true); (fld_30, (B "tsv")); (fld_32, (bs [9]%N)); (fld_33, (B ":")); (fld_37, v_true); (fld_38, v_true)]);
    ([tok_4; tok_34; tok_64], Some [(fld_0, (B "pprint")); (fld_1, (B " ")); (fld_2, v_na); (fld_4, v_true); (fld_8, v_true); (fld_30, (B "tsv")); (fld_32, (bs [9]%N)); (fld_33, (B ":")); (fld_37, v_true); (fld_38, v_true)]);
    ([tok_4; tok_150], Some [(fld_0, (B "pprint")); (fld_1, (B " ")); (fld_2, v_na); (fld_4, v_true); (fld_8, v_true); (fld_30, (B "xtab")); (fld_31, (bs [10;10]%N)); (fld_32, (bs [10]%N)); (fld_33, (B ":")); (fld_38, v_true)]);
    ([tok_4; tok_34; tok_68], Some [(fld_0, (B "pprint")); (fld_1, (B " ")); (fld_2, v_na); (fld_4, v_true); (fld_8, v_true); (fld_30, (B "xtab")); (fld_31, (bs [10;10]%N)); (fld_32, (bs [10]%N)); (fld_33, (B ":")); (fld_38, v_true)]);
    ([tok_4; tok_151], Some [(fld_0, (B "pprint")); (fld_1, (B " ")); (fld_2, v_na); (fld_4, v_true); (fld_8, v_true); (fld_30, (B "yaml")); (fld_31, v_na); (fld_32, v_na); (fld_33, (B ":")); (fld_38, v_true); (fld_65, v_false); (fld_66, v_true)]);
    ([tok_4; tok_34; tok_69], Some [(fld_0, (B "pprint")); (fld_1, (B " ")); (fld_2, v_na); (fld_4, v_true); (fld_8, v_true); (fld_30, (B "yaml")); (fld_31, v_na); (fld_32, v_na); (fld_33, (B ":")); (fld_38, v_true); (fld_65, v_false); (fld_66, v_true)]);
    ([tok_4; tok_152], Some [(fld_0, (B "tsv")); (fld_1, (bs [9]%N)); (fld_2, v_na); (fld_30, (B "pprint")); (fld_32, (B " ")); (fld_33, (B ":")); (fld_38, v_true); (fld_41, v_true)]);
    ([tok_4; tok_36; tok_62; tok_233], Some [(fld_0, (B "tsv")); (fld_1, (bs [9]%N)); (fld_2, v_na); (fld_30, (B "pprint")); (fld_32, (B " ")); (fld_33, (B ":")); (fld_38, v_true); (fld_41, v_true)]);
    ([tok_4; tok_153], Some [(fld_0, (B "tsv")); (fld_1, (bs [9]%N)); (fld_2, v_na); (fld_30, (B "csv")); (fld_33, (B ":")); (fld_38, v_true)]);
    ([tok_4; tok_36; tok_53], Some [(fld_0, (B "tsv")); (fld_1, (bs [9]%N)); (fld_2, v_na); (fld_30, (B "csv")); (fld_33, (B ":")); (fld_38, v_true)]);
    ([tok_4; tok_154], Some [(fld_0, (B "tsv")); (fld_1, (bs [9]%N)); (fld_2, v_na); (fld_33, (B ":")); (fld_38, v_true)]);
    ([tok_4; tok_36; tok_56], Some [(fld_0, (B "tsv")); (fld_1, (bs [9]%N)); (fld_2, v_na); (fld_33, (B ":")); (fld_38, v_true)]);
    ([tok_4; tok_155], Some [(fld_0, (B "tsv")); (fld_1, (bs [9]%N)); (fld_2, v_na); (fld_30, (B "json")); (fld_31, v_na); (fld_32, v_na); (fld_33, (B ":")); (fld_38, v_true); (fld_65, v_false); (fld_66, v_true)]);
    ([tok_4; tok_36; tok_57], Some [(fld_0, (B "tsv")); (fld_1, (bs [9]%N)); (fld_2, v_na); (fld_30, (B "json")); (fld_31, v_na); (fld_32, v_na); (fld_33, (B ":")); (fld_38, v_true); (fld_65, v_false); (fld_66, v_true)]);
    ([tok_4; tok_156], Some [(fld_0, (B "tsv")); (fld_1, (bs [9]%N)); (fld_2, v_na); (fld_30, (B "jsonl")); (fld_31, (B "")); (fld_32, (B "")); (fld_33, (B ":")); (fld_38, v_true); (fld_65, v_false); (fld_66, v_true)]);
    ([tok_4; tok_36; tok_58], Some [(fld_0, (B "tsv")); (fld_1, (bs [9]%N)); (fld_2, v_na); (fld_30, (B "jsonl")); (fld_31, (B "")); (fld_32, (B "")); (fld_33, (B ":")); (fld_38, v_true); (fld_65, v_false); (fld_66, v_true)]);
    ([tok_4; tok_157], Some [(fld_0, (B "tsv")); (fld_1, (bs [9]%N)); (fld_2, v_na); (fld_30, (B "markdown")); (fld_32, (B " ")); (fld_33, (B ":")); (fld_38, v_true)]);
    ([tok_4; tok_36; tok_59], Some [(fld_0, (B "tsv")); (fld_1, (bs [9]%N)); (fld_2, v_na); (fld_30, (B "markdown")); (fld_32, (B " ")); (fld_33, (B ":")); (fld_38, v_true)]);
    ([tok_4; tok_158], Some [(fld_0, (B "tsv")); (fld_1, (bs [9]%N)); (fld_2, v_na); (fld_30, (B "nidx")); (fld_32, (B " ")); (fld_33, (B ":")); (fld_37, v_true); (fld_38, v_true)]);
    ([tok_4; tok_36; tok_61], Some [(fld_0, (B "tsv")); (fld_1, (bs [9]%N)); (fld_2, v_na); (fld_30, (B "nidx")); (fld_32, (B " ")); (fld_33, (B ":")); (fld_37, v_true); (fld_38, v_true)]);
    ([tok_4; tok_159], Some [(fld_0, (B "tsv")); (fld_1, (bs [9]%N)); (fld_2, v_na); (fld_30, (B "pprint")); (fld_32, (B " ")); (fld_33, (B ":")); (fld_38, v_true)]);
    ([tok_4; tok_36; tok_62], Some [(fld_0, (B "tsv")); (fld_1, (bs [9]%N)); (fld_2, v_na); (fld_30, (B "pprint")); (fld_32, (B " ")); (fld_33, (B ":")); (fld_38, v_true)]);
    ([tok_4; tok_75], Some [(fld_0, (B "tsv")); (fld_1, (bs [9]%N)); (fld_2, v_na); (fld_30, (B "tsv")); (fld_32, (bs [9]%N)); (fld_33, (B ":")); (fld_37, v_true); (fld_38, v_true)]);
    ([tok_4; tok_36; tok_64], Some [(fld_0, (B "tsv")); (fld_1, (bs [9]%N)); (fld_2, v_na); (fld_30, (B "tsv")); (fld_32, (bs [9]%N)); (fld_33, (B ":")); (fld_37, v_true); (fld_38, v_true)]);
    ([tok_4; tok_160], Some [(fld_0, (B "tsv")); (fld_1, (bs [9]%N)); (fld_2, v_na); (fld_30, (B "xtab")); (fld_31, (bs [10;10]%N)); (fld_32, (bs [10]%N)); (fld_33, (B ":")); (fld_38, v_true)]);
    ([tok_4; tok_36; tok_68], Some [(fld_0, (B "tsv")); (fld_1, (bs [9]%N)); (fld_2, v_na); (fld_30, (B "xtab")); (fld_31, (bs [10;10]%N)); (fld_32, (bs [10]%N)); (fld_33, (B ":")); (fld_38, v_true)]);
    ([tok_4; tok_161], Some [(fld_0, (B "tsv")); (fld_1, (bs [9]%N)); (fld_2, v_na); (fld_30, (B "yaml")); (fld_31, v_na); (fld_32, v_na); (fld_33, (B ":")); (fld_38, v_true); (fld_65, v_false); (fld_66, v_true)]);
    ([tok_4; tok_36; tok_69], Some [(fld_0, (B "tsv")); (fld_1, (bs [9]%N)); (fld_2, v_na); (fld_30, (B "yaml")); (fld_31, v_na); (fld_32, v_na); (fld_33, (B ":")); (fld_38, v_true); (fld_65, v_false); (fld_66, v_true)]);
    ([tok_4; tok_162], Some [(fld_0, (B "xtab")); (fld_1, (bs [10]%N)); (fld_2, (B " ")); (fld_3, (bs [10;10]%N)); (fld_30, (B "pprint")); (fld_32, (B " ")); (fld_33, (B ":")); (fld_38, v_true); (fld_41, v_true)]);
    ([tok_4; tok_40; tok_62; tok_233], Some [(fld_0, (B "xtab")); (fld_1, (bs [10]%N)); (fld_2, (B " ")); (fld_3, (bs [10;10]%N)); (fld_30, (B "pprint")); (fld_32, (B " ")); (fld_33, (B ":")); (fld_38, v_true); (fld_41, v_true)]);
    ([tok_4; tok_163], Some [(fld_0, (B "xtab")); (fld_1, (bs [10]%N)); (fld_2, (B " ")); (fld_3, (bs [10;10]%N)); (fld_30, (B "csv")); (fld_33, (B ":")); (fld_38, v_true); (fld_39, v_true)]);
    ([tok_4; tok_40; tok_53], Some [(fld_0, (B "xtab")); (fld_1, (bs [10]%N)); (fld_2, (B " ")); (fld_3, (bs [10;10]%N)); (fld_30, (B "csv")); (fld_33, (B ":")); (fld_38, v_true)]);
    ([tok_4; tok_164], Some [(fld_0, (B "xtab")); (fld_1, (bs [10]%N)); (fld_2, (B " ")); (fld_3, (bs [10;10]%N)); (fld_33, (B ":")); (fld_38, v_true)]);
    ([tok_4; tok_40; tok_56], Some [(fld_0, (B "xtab")); (fld_1, (bs [10]%N)); (fld_2, (B " ")); (fld_3, (bs [10;10]%N)); (fld_33, (B ":")); (fld_38, v_true)]);
    ([tok_4; tok_165], Some [(fld_0, (B "xtab")); (fld_1, (bs [10]%N)); (fld_2, (B " ")); (fld_3, (bs [10;10]%N)); (fld_30, (B "json")); (fld_31, v_na); (fld_32, v_na); (fld_33, (B ":")); (fld_38, v_true); (fld_65, v_false); (fld_66, v_true)]);
    ([tok_4; tok_40; tok_57], Some [(fld_0, (B "xtab")); (fld_1, (bs [10]%N)); (fld_2, (B " ")); (fld_3, (bs [10;10]%N)); (fld_30, (B "json")); (fld_31, v_na); (fld_32, v_na); (fld_33, (B ":")); (fld_38, v_true); (fld_65, v_false); (fld_66, v_true)]);
    ([tok_4; tok_166], Some [(fld_0, (B "xtab")); (fld_1, (bs [10]%N)); (fld_2, (B " ")); (fld_3, (bs [10;10]%N)); (fld_30, (B "jsonl")); (fld_31, (B "")); (fld_32, (B "")); (fld_33, (B ":")); (fld_38, v_true); (fld_65, v_false); (fld_66, v_true)]);
    ([tok_4; tok_40; tok_58], Some [(fld_0, (B "xtab")); (fld_1, (bs [10]%N)); (fld_2, (B " ")); (fld_3, (bs [10;10]%N)); (fld_30, (B "jsonl")); (fld_31, (B "")); (fld_32, (B "")); (fld_33, (B ":")); (fld_38, v_true); (fld_65, v_false); (fld_66, v_true)]);
    ([tok_4; tok_167], Some [(fld_0, (B "xtab")); (fld_1, (bs [10]%N)); (fld_2, (B " ")); (fld_3, (bs [10;10]%N)); (fld_30, (B "markdown")); (fld_32, (B " ")); (fld_33, (B ":")); (fld_38, v_true)]);
    ([tok_4; tok_40; tok_59], Some [(fld_0, (B "xtab")); (fld_1, (bs [10]%N)); (fld_2, (B " ")); (fld_3, (bs [10;10]%N)); (fld_30, (B "markdown")); (fld_32, (B " ")); (fld_33, (B ":")); (fld_38, v_true)]);
    ([tok_4; tok_168], Some [(fld_0, (B "xtab")); (fld_1, (bs [10]%N)); (fld_2, (B " ")); (fld_3, (bs [10;10]%N)); (fld_30, (B "nidx")); (fld_32, (B " ")); (fld_33, (B ":")); (fld_37, v_true); (fld_38, v_true)]);
    ([tok_4; tok_40; tok_61], Some [(fld_0, (B "xtab")); (fld_1, (bs [10]%N)); (fld_2, (B " ")); (fld_3, (bs [10;10]%N)); (fld_30, (B "nidx")); (fld_32, (B " ")); (fld_33, (B ":")); (fld_37, v_true); (fld_38, v_true)]);
    ([tok_4; tok_169], Some [(fld_0, (B "xtab")); (fld_1, (bs [10]%N)); (fld_2, (B " ")); (fld_3, (bs [10;10]%N)); (fld_30, (B "pprint")); (fld_32, (B " ")); (fld_33, (B ":")); (fld_38, v_true)]);
    ([tok_4; tok_40; tok_62], Some [(fld_0, (B "xtab")); (fld_1, (bs [10]%N)); (fld_2, (B " ")); (fld_3, (bs [10;10]%N)); (fld_30, (B "pprint")); (fld_32, (B " ")); (fld_33, (B ":")); (fld_38, v_true)]);
    ([tok_4; tok_170], Some [(fld_0, (B "xtab")); (fld_1, (bs [10]%N)); (fld_2, (B " ")); (fld_3, (bs [10;10]%N)); (fld_30, (B "tsv")); (fld_32, (bs [9]%N)); (fld_33, (B ":")); (fld_37, v_true); (fld_38, v_true)]);
    ([tok_4; tok_40; tok_64], Some [(fld_0, (B "xtab")); (fld_1, (bs [10]%N)); (fld_2, (B " ")); (fld_3, (bs [10;10]%N)); (fld_30, (B "tsv")); (fld_32, (bs [9]%N)); (fld_33, (B ":")); (fld_37, v_true); (fld_38, v_true)]);
    ([tok_4; tok_80], Some [(fld_0, (B "xtab")); (fld_1, (bs [10]%N)); (fld_2, (B " ")); (fld_3, (bs [10;10]%N)); (fld_30, (B "xtab")); (fld_31, (bs [10;10]%N)); (fld_32, (bs [10]%N)); (fld_33, (B ":")); (fld_38, v_true)]);
    ([tok_4; tok_40; tok_68], Some [(fld_0, (B "xtab")); (fld_1, (bs [10]%N)); (fld_2, (B " ")); (fld_3, (bs [10;10]%N)); (fld_30, (B "xtab")); (fld_31, (bs [10;10]%N)); (fld_32, (bs [10]%N)); (fld_33, (B ":")); (fld_38, v_true)]);
    ([tok_4; tok_171], Some [(fld_0, (B "xtab")); (fld_1, (bs [10]%N)); (fld_2, (B " ")); (fld_3, (bs [10;10]%N)); (fld_30, (B "yaml")); (fld_31, v_na); (fld_32, v_na); (fld_33, (B ":")); (fld_38, v_true); (fld_65, v_false); (fld_66, v_true)]);
    ([tok_4; tok_40; tok_69], Some [(fld_0, (B "xtab")); (fld_1, (bs [10]%N)); (fld_2, (B " ")); (fld_3, (bs [10;10]%N)); (fld_30, (B "yaml")); (fld_31, v_na); (fld_32, v_na); (fld_33, (B ":")); (fld_38, v_true); (fld_65, v_false); (fld_66, v_true)]);
    ([tok_4; tok_172], Some [(fld_0, (B "yaml")); (fld_1, v_na); (fld_2, v_na); (fld_3, v_na); (fld_30, (B "csv")); (fld_33, (B ":")); (fld_38, v_true); (fld_39, v_true)]);
    ([tok_4; tok_41; tok_53], Some [(fld_0, (B "yaml")); (fld_1, v_na); (fld_2, v_na); (fld_3, v_na); (fld_30, (B "csv")); (fld_33, (B ":")); (fld_38, v_true)]);
    ([tok_4; tok_173], Some [(fld_0, (B "yaml")); (fld_1, v_na); (fld_2, v_na); (fld_3, v_na); (fld_33, (B ":")); (fld_38, v_true)]);
    ([tok_4; tok_41; tok_56], Some [(fld_0, (B "yaml")); (fld_1, v_na); (fld_2, v_na); (fld_3, v_na); (fld_33, (B ":")); (fld_38, v_true)]);
    ([tok_4; tok_174], Some [(fld_0, (B "yaml")); (fld_1, v_na); (fld_2, v_na); (fld_3, v_na); (fld_30, (B "json")); (fld_31, v_na); (fld_32, v_na); (fld_33, (B ":")); (fld_38, v_true); (fld_65, v_false)]);
    ([tok_4; tok_41; tok_57], Some [(fld_0, (B "yaml")); (fld_1, v_na); (fld_2, v_na); (fld_3, v_na); (fld_30, (B "json")); (fld_31, v_na); (fld_32, v_na); (fld_33, (B ":")); (fld_38, v_true); (fld_65, v_false)]);
    ([tok_4; tok_175], Some [(fld_0, (B "yaml")); (fld_1, v_na); (fld_2, v_na); (fld_3, v_na); (fld_30, (B "jsonl")); (fld_31, (B "")); (fld_32, (B "")); (fld_33, (B ":")); (fld_38, v_true); (fld_65, v_false)]);
    ([tok_4; tok_41; tok_58], Some [(fld_0, (B "yaml")); (fld_1, v_na); (fld_2, v_na); (fld_3, v_na); (fld_30, (B "jsonl")); (fld_31, (B "")); (fld_32, (B "")); (fld_33, (B ":")); (fld_38, v_true); (fld_65, v_false)]);
    ([tok_4; tok_176], Some [(fld_0, (B "yaml")); (fld_1, v_na); (fld_2, v_na); (fld_3, v_na); (fld_30, (B "markdown")); (fld_32, (B " ")); (fld_33, (B ":")); (fld_38, v_true)]);
    ([tok_4; tok_41; tok_59], Some [(fld_0, (B "yaml")); (fld_1, v_na); (fld_2, v_na); (fld_3, v_na); (fld_30, (B "markdown")); (fld_32, (B " ")); (fld_33, (B ":")); (fld_38, v_true)]);
    ([tok_4; tok_177], Some [(fld_0, (B "yaml")); (fld_1, v_na); (fld_2, v_na); (fld_3, v_na); (fld_30, (B "nidx")); (fld_32, (B " ")); (fld_33, (B ":")); (fld_37, v_true); (fld_38, v_true)]);
    ([tok_4; tok_41; tok_61], Some [(fld_0, (B "yaml")); (fld_1, v_na); (fld_2, v_na); (fld_3, v_na); (fld_30, (B "nidx")); (fld_32, (B " ")); (fld_33, (B ":")); (fld_37, v_true); (fld_38, v_true)]);
    ([tok_4; tok_178], Some [(fld_0, (B "yaml")); (fld_1, v_na); (fld_2, v_na); (fld_3, v_na); (fld_30, (B "pprint")); (fld_32, (B " ")); (fld_33, (B ":")); (fld_38, v_true)]);
    ([tok_4; tok_41; tok_62], Some [(fld_0, (B "yaml")); (fld_1, v_na); (fld_2, v_na); (fld_3, v_na); (fld_30, (B "pprint")); (fld_32, (B " ")); (fld_33, (B ":")); (fld_38, v_true)]);
    ([tok_4; tok_179], Some [(fld_0, (B "yaml")); (fld_1, v_na); (fld_2, v_na); (fld_3, v_na); (fld_30, (B "tsv")); (fld_32, (bs [9]%N)); (fld_33, (B ":")); (fld_37, v_true); (fld_38, v_true)]);
    ([tok_4; tok_41; tok_64], Some [(fld_0, (B "yaml")); (fld_1, v_na); (fld_2, v_na); (fld_3, v_na); (fld_30, (B "tsv")); (fld_32, (bs [9]%N)); (fld_33, (B ":")); (fld_37, v_true); (fld_38, v_true)]);
    ([tok_4; tok_180], Some [(fld_0, (B "yaml")); (fld_1, v_na); (fld_2, v_na); (fld_3, v_na); (fld_30, (B "xtab")); (fld_31, (bs [10;10]%N)); (fld_32, (bs [10]%N)); (fld_33, (B ":")); (fld_38, v_true)]);
    ([tok_4; tok_41; tok_68], Some [(fld_0, (B "yaml")); (fld_1, v_na); (fld_2, v_na); (fld_3, v_na); (fld_30, (B "xtab")); (fld_31, (bs [10;10]%N)); (fld_32, (bs [10]%N)); (fld_33, (B ":")); (fld_38, v_true)]);
    ([tok_4; tok_83], Some [(fld_0, (B "yaml")); (fld_1, v_na); (fld_2, v_na); (fld_3, v_na); (fld_30, (B "yaml")); (fld_31, v_na); (fld_32, v_na); (fld_33, (B ":")); (fld_38, v_true); (fld_65, v_false)]);
    ([tok_4; tok_41; tok_69], Some [(fld_0, (B "yaml")); (fld_1, v_na); (fld_2, v_na); (fld_3, v_na); (fld_30, (B "yaml")); (fld_31, v_na); (fld_32, v_na); (fld_33, (B ":")); (fld_38, v_true); (fld_65, v_false)]);
    ([tok_4; tok_235], Some [(fld_12, v_true); (fld_33, (B ":")); (fld_38, v_true); (fld_40, v_true)]);
    ([tok_4; tok_207; tok_204], Some [(fld_12, v_true); (fld_33, (B ":")); (fld_38, v_true); (fld_40, v_true)]);
    ([tok_4; tok_182], Some [(fld_0, (B "nidx")); (fld_1, (bs [9]%N)); (fld_2, v_na); (fld_8, v_true); (fld_30, (B "nidx")); (fld_32, (bs [9]%N)); (fld_33, (B ":")); (fld_37, v_true); (fld_38, v_true)]);
    ([tok_4; tok_49; tok_236; tok_237], Some [(fld_0, (B "nidx")); (fld_1, (bs [9]%N)); (fld_2, v_na); (fld_8, v_true); (fld_30, (B "nidx")); (fld_32, (bs [9]%N)); (fld_33, (B ":")); (fld_37, v_true); (fld_38, v_true)]);
    ([tok_4; tok_181], Some [(fld_0, (B "nidx")); (fld_1, (B " ")); (fld_2, v_na); (fld_4, v_true); (fld_8, v_true); (fld_11, v_true); (fld_30, (B "nidx")); (fld_32, (B " ")); (fld_33, (B ":")); (fld_37, v_true); (fld_38, v_true)]);
    ([tok_4; tok_49; tok_236; tok_238; tok_239], Some [(fld_0, (B "nidx")); (fld_1, (B " ")); (fld_2, v_na); (fld_4, v_true); (fld_8, v_true); (fld_11, v_true); (fld_30, (B "nidx")); (fld_32, (B " ")); (fld_33, (B ":")); (fld_37, v_true); (fld_38, v_true)]);
    ([tok_263], Some [(fld_33, (bs [27]%N)); (fld_38, v_true)]);
    ([tok_264], Some [(fld_33, (bs [27]%N)); (fld_38, v_true)]);
    ([tok_265], Some [(fld_33, (bs [3]%N)); (fld_38, v_true)]);
    ([tok_266], Some [(fld_33, (bs [3]%N)); (fld_38, v_true)]);
    ([tok_267], Some [(fld_33, (bs [28]%N)); (fld_38, v_true)]);
    ([tok_268], Some [(fld_33, (bs [28]%N)); (fld_38, v_true)]);
    ([tok_269], Some [(fld_33, (bs [29]%N)); (fld_38, v_true)]);
    ([tok_270], Some [(fld_33, (bs [29]%N)); (fld_38, v_true)]);
    ([tok_271], Some [(fld_33, (bs [0]%N)); (fld_38, v_true)]);
    ([tok_272], Some [(fld_33, (bs [0]%N)); (fld_38, v_true)]);
    ([tok_273], Some [(fld_33, (bs [30]%N)); (fld_38, v_true)]);
    ([tok_274], Some [(fld_33, (bs [30]%N)); (fld_38, v_true)]);
    ([tok_275], Some [(fld_33, (bs [1]%N)); (fld_38, v_true)]);
    ([tok_276], Some [(fld_33, (bs [1]%N)); (fld_38, v_true)]);
    ([tok_277], Some [(fld_33, (bs [2]%N)); (fld_38, v_true)]);
    ([tok_278], Some [(fld_33, (bs [2]%N)); (fld_38, v_true)]);
    ([tok_279], Some [(fld_33, (bs [31]%N)); (fld_38, v_true)]);
    ([tok_280], Some [(fld_33, (bs [31]%N)); (fld_38, v_true)]);
    ([tok_281], Some [(fld_33, (bs [31]%N)); (fld_38, v_true)]);
    ([tok_282], Some [(fld_33, (bs [30]%N)); (fld_38, v_true)]);
    ([tok_283], Some [(fld_33, (B ":")); (fld_38, v_true)]);
    ([tok_4], Some [(fld_33, (B ":")); (fld_38, v_true)]);
    ([tok_284], Some [(fld_33, (B ",")); (fld_38, v_true)]);
    ([tok_285], Some [(fld_33, (B ",")); (fld_38, v_true)]);
    ([tok_286], Some [(fld_33, (bs [13]%N)); (fld_38, v_true)]);
    ([tok_287], Some [(fld_33, (bs [13]%N)); (fld_38, v_true)]);
    ([tok_288], Some [(fld_33, (bs [13;13]%N)); (fld_38, v_true)]);
    ([tok_289], Some [(fld_33, (bs [13;13]%N)); (fld_38, v_true)]);
    ([tok_290], Some [(fld_33, (bs [13;10]%N)); (fld_38, v_true)]);
    ([tok_291], Some [(fld_33, (bs [13;10]%N)); (fld_38, v_true)]);
    ([tok_292], Some [(fld_33, (bs [13;10;13;10]%N)); (fld_38, v_true)]);
    ([tok_293], Some [(fld_33, (bs [13;10;13;10]%N)); (fld_38, v_true)]);
    ([tok_294], Some [(fld_38, v_true)]);
    ([tok_295], Some [(fld_38, v_true)]);
    ([tok_296], Some [(fld_33, (bs [10]%N)); (fld_38, v_true)]);
    ([tok_297], Some [(fld_33, (bs [10]%N)); (fld_38, v_true)]);
    ([tok_298], Some [(fld_33, (bs [10;10]%N)); (fld_38, v_true)]);
    ([tok_299], Some [(fld_33, (bs [10;10]%N)); (fld_38, v_true)]);
    ([tok_300], Some [(fld_33, (bs [10]%N)); (fld_38, v_true)]);
    ([tok_301], Some [(fld_33, (B "|")); (fld_38, v_true)]);
    ([tok_302], Some [(fld_33, (B "|")); (fld_38, v_true)]);
    ([tok_214], Some [(fld_33, (B ";")); (fld_38, v_true)]);
    ([tok_2], Some [(fld_33, (B ";")); (fld_38, v_true)]);
    ([tok_303], Some [(fld_33, (B "/")); (fld_38, v_true)]);
    ([tok_304], Some [(fld_33, (B "/")); (fld_38, v_true)]);
    ([tok_238], Some [(fld_33, (B " ")); (fld_38, v_true)]);
    ([tok_305], Some [(fld_33, (B " ")); (fld_38, v_true)]);
    ([tok_237], Some [(fld_33, (bs [9]%N)); (fld_38, v_true)]);
    ([tok_306], Some [(fld_33, (bs [9]%N)); (fld_38, v_true)]);
    ([tok_307], Some [(fld_33, (bs [226;144;159]%N)); (fld_38, v_true)]);
    ([tok_308], Some [(fld_33, (bs [226;144;159]%N)); (fld_38, v_true)]);
    ([tok_309], Some [(fld_33, (bs [226;144;158]%N)); (fld_38, v_true)]);
    ([tok_310], Some [(fld_33, (bs [226;144;158]%N)); (fld_38, v_true)])]);
  (tok_7, [
    ([tok_2; tok_84], Some [(fld_0, (B "csv")); (fld_2, v_na); (fld_3, (B ";")); (fld_10, v_true); (fld_30, (B "pprint")); (fld_32, (B " ")); (fld_33, v_na); (fld_41, v_true)]);
    ([tok_2; tok_24; tok_62; tok_233], Some [(fld_0, (B "csv")); (fld_2, v_na); (fld_3, (B ";")); (fld_10, v_true); (fld_30, (B "pprint")); (fld_32, (B " ")); (fld_33, v_na); (fld_41, v_true)]);
    ([tok_2; tok_12], Some [(fld_0, (B "csv")); (fld_2, v_na); (fld_3, (B ";")); (fld_10, v_true); (fld_30, (B "csv")); (fld_33, v_na)]);
    ([tok_2; tok_24; tok_53], Some [(fld_0, (B "csv")); (fld_2, v_na); (fld_3, (B ";")); (fld_10, v_true); (fld_30, (B "csv")); (fld_33, v_na)]);
    ([tok_2; tok_85], Some [(fld_0, (B "csv")); (fld_2, v_na); (fld_3, (B ";")); (fld_10, v_true)]);
    ([tok_2; tok_24; tok_56], Some [(fld_0, (B "csv")); (fld_2, v_na); (fld_3, (B ";")); (fld_10, v_true)]);
    ([tok_2; tok_86], Some [(fld_0, (B "csv")); (fld_2, v_na); (fld_3, (B ";")); (fld_10, v_true); (fld_30, (B "json")); (fld_31, v_na); (fld_32, v_na); (fld_33, v_na); (fld_65, v_false); (fld_66, v_true)]);
    ([tok_2; tok_24; tok_57], Some [(fld_0, (B "csv")); (fld_2, v_na); (fld_3, (B ";")); (fld_10, v_true); (fld_30, (B "json")); (fld_31, v_na); (fld_32, v_na); (fld_33, v_na); (fld_65, v_false); (fld_66, v_true)]);
    ([tok_2; tok_87], Some [(fld_0, (B "csv")); (fld_2, v_na); (fld_3, (B ";")); (fld_10, v_true); (fld_30, (B "jsonl")); (fld_31, (B "")); (fld_32, (B "")); (fld_33, (B "")); (fld_65, v_false); (fld_66, v_true)]);
    ([tok_2; tok_24; tok_58], Some [(fld_0, (B "csv")); (fld_2, v_na); (fld_3, (B ";")); (fld_10, v_true); (fld_30, (B "jsonl")); (fld_31, (B "")); (fld_32, (B "")); (fld_33, (B "")); (fld_65, v_false); (fld_66, v_true)]);
    ([tok_2; tok_88], Some [(fld_0, (B "csv")); (fld_2, v_na); (fld_3, (B ";")); (fld_10, v_true); (fld_30, (B "markdown")); (fld_32, (B " ")); (fld_33, v_na)]);
    ([tok_2; tok_24; tok_59], Some [(fld_0, (B "csv")); (fld_2, v_na); (fld_3, (B ";")); (fld_10, v_true); (fld_30, (B "markdown")); (fld_32, (B " ")); (fld_33, v_na)]);
    ([tok_2; tok_89], Some [(fld_0, (B "csv")); (fld_2, v_na); (fld_3, (B ";")); (fld_10, v_true); (fld_30, (B "nidx")); (fld_32, (B " ")); (fld_33, v_na); (fld_37, v_true)]);
    ([tok_2; tok_24; tok_61], Some [(fld_0, (B "csv")); (fld_2, v_na); (fld_3, (B ";")); (fld_10, v_true); (fld_30, (B "nidx")); (fld_32, (B " ")); (fld_33, v_na); (fld_37, v_true)]);
    ([tok_2; tok_90], Some [(fld_0, (B "csv")); (fld_2, v_na); (fld_3, (B ";")); (fld_10, v_true); (fld_30, (B "pprint")); (fld_32, (B " ")); (fld_33, v_na)]);
    ([tok_2; tok_24; tok_62], Some [(fld_0, (B "csv")); (fld_2, v_na); (fld_3, (B ";")); (fld_10, v_true); (fld_30, (B "pprint")); (fld_32, (B " ")); (fld_33, v_na)]);
    ([tok_2; tok_91], Some [(fld_0, (B "csv")); (fld_2, v_na); (fld_3, (B ";")); (fld_10, v_true); (fld_30, (B "tsv")); (fld_32, (bs [9]%N)); (fld_33, v_na); (fld_37, v_true)]);
    ([tok_2; tok_24; tok_64], Some [(fld_0, (B "csv")); (fld_2, v_na); (fld_3, (B ";")); (fld_10, v_true); (fld_30, (B "tsv")); (fld_32, (bs [9]%N)); (fld_33, v_na); (fld_37, v_true)]);
    ([tok_2; tok_92], Some [(fld_0, (B "csv")); (fld_2, v_na); (fld_3, (B ";")); (fld_10, v_true); (fld_30, (B "xtab")); (fld_31, (bs [10;10]%N)); (fld_32, (bs [10]%N)); (fld_33, (B " "))]);
    ([tok_2; tok_24; tok_68], Some [(fld_0, (B "csv")); (fld_2, v_na); (fld_3, (B ";")); (fld_10, v_true); (fld_30, (B "xtab")); (fld_31, (bs [10;10]%N)); (fld_32, (bs [10]%N)); (fld_33, (B " "))]);
    ([tok_2; tok_93], Some [(fld_0, (B "csv")); (fld_2, v_na); (fld_3, (B ";")); (fld_10, v_true); (fld_30, (B "yaml")); (fld_31, v_na); (fld_32, v_na); (fld_33, v_na); (fld_65, v_false); (fld_66, v_true)]);
    ([tok_2; tok_24; tok_69], Some [(fld_0, (B "csv")); (fld_2, v_na); (fld_3, (B ";")); (fld_10, v_true); (fld_30, (B "yaml")); (fld_31, v_na); (fld_32, v_na); (fld_33, v_na); (fld_65, v_false); (fld_66, v_true)]);
    ([tok_2; tok_94], Some [(fld_3, (B ";")); (fld_10, v_true); (fld_30, (B "pprint")); (fld_32, (B " ")); (fld_33, v_na); (fld_41, v_true)]);
    ([tok_2; tok_27; tok_62; tok_233], Some [(fld_3, (B ";")); (fld_10, v_true); (fld_30, (B "pprint")); (fld_32, (B " ")); (fld_33, v_na); (fld_41, v_true)]);
    ([tok_2; tok_95], Some [(fld_3, (B ";")); (fld_10, v_true); (fld_30, (B "csv")); (fld_33, v_na)]);
    ([tok_2; tok_27; tok_53], Some [(fld_3, (B ";")); (fld_10, v_true); (fld_30, (B "csv")); (fld_33, v_na)]);
    ([tok_2; tok_16], Some [(fld_3, (B ";")); (fld_10, v_true)]);
    ([tok_2; tok_27; tok_56], Some [(fld_3, (B ";")); (fld_10, v_true)]);
    ([tok_2; tok_96], Some [(fld_3, (B ";")); (fld_10, v_true); (fld_30, (B "json")); (fld_31, v_na); (fld_32, v_na); (fld_33, v_na); (fld_65, v_false); (fld_66, v_true)]);
    ([tok_2; tok_27; tok_57], Some [(fld_3, (B ";")); (fld_10, v_true); (fld_30, (B "json")); (fld_31, v_na); (fld_32, v_na); (fld_33, v_na); (fld_65, v_false); (fld_66, v_true)]);
    ([tok_2; tok_97], Some [(fld_3, (B ";")); (fld_10, v_true); (fld_30, (B "jsonl")); (fld_31, (B "")); (fld_32, (B "")); (fld_33, (B "")); (fld_65, v_false); (fld_66, v_true)]);
    ([tok_2; tok_27; tok_58], Some [(fld_3, (B ";")); (fld_10, v_true); (fld_30, (B "jsonl")); (fld_31, (B "")); (fld_32, (B "")); (fld_33, (B "")); (fld_65, v_false); (fld_66, v_true)]);
    ([tok_2; tok_98], Some [(fld_3, (B ";")); (fld_10, v_true); (fld_30, (B "markdown")); (fld_32, (B " ")); (fld_33, v_na)]);
    ([tok_2; tok_27; tok_59], Some [(fld_3, (B ";")); (fld_10, v_true); (fld_30, (B "markdown")); (fld_32, (B " ")); (fld_33, v_na)]);
    ([tok_2; tok_99], Some [(fld_3, (B ";")); (fld_10, v_true); (fld_30, (B "nidx")); (fld_32, (B " ")); (fld_33, v_na); (fld_37, v_true)]);
    ([tok_2; tok_27; tok_61], Some [(fld_3, (B ";")); (fld_10, v_true); (fld_30, (B "nidx")); (fld_32, (B " ")); (fld_33, v_na); (fld_37, v_true)]);
    ([tok_2; tok_100], Some [(fld_3, (B ";")); (fld_10, v_true); (fld_30, (B "pprint")); (fld_32, (B " ")); (fld_33, v_na)]);
    ([tok_2; tok_27; tok_62], Some [(fld_3, (B ";")); (fld_10, v_true); (fld_30, (B "pprint")); (fld_32, (B " ")); (fld_33, v_na)]);
    ([tok_2; tok_101], Some [(fld_3, (B ";")); (fld_10, v_true); (fld_30, (B "tsv")); (fld_32, (bs [9]%N)); (fld_33, v_na); (fld_37, v_true); (fld_39, v_true)]);
    ([tok_2; tok_27; tok_64], Some [(fld_3, (B ";")); (fld_10, v_true); (fld_30, (B "tsv")); (fld_32, (bs [9]%N)); (fld_33, v_na); (fld_37, v_true)]);
    ([tok_2; tok_102], Some [(fld_3, (B ";")); (fld_10, v_true); (fld_30, (B "xtab")); (fld_31, (bs [10;10]%N)); (fld_32, (bs [10]%N)); (fld_33, (B " "))]);
    ([tok_2; tok_27; tok_68], Some [(fld_3, (B ";")); (fld_10, v_true); (fld_30, (B "xtab")); (fld_31, (bs [10;10]%N)); (fld_32, (bs [10]%N)); (fld_33, (B " "))]);
    ([tok_2; tok_103], Some [(fld_3, (B ";")); (fld_10, v_true); (fld_30, (B "yaml")); (fld_31, v_na); (fld_32, v_na); (fld_33, v_na); (fld_65, v_false); (fld_66, v_true)]);
    ([tok_2; tok_27; tok_69], Some [(fld_3, (B ";")); (fld_10, v_true); (fld_30, (B "yaml")); (fld_31, v_na); (fld_32, v_na); (fld_33, v_na); (fld_65, v_false); (fld_66, v_true)]);
    ([tok_2; tok_104], Some [(fld_0, (B "json")); (fld_1, v_na); (fld_2, v_na); (fld_3, (B ";")); (fld_10, v_true); (fld_30, (B "pprint")); (fld_32, (B " ")); (fld_33, v_na); (fld_41, v_true)]);
    ([tok_2; tok_29; tok_62; tok_233], Some [(fld_0, (B "json")); (fld_1, v_na); (fld_2, v_na); (fld_3, (B ";")); (fld_10, v_true); (fld_30, (B "pprint")); (fld_32, (B " ")); (fld_33, v_na); (fld_41, v_true)]);
    ([tok_2; tok_105], Some [(fld_0, (B "json")); (fld_1, v_na); (fld_2, v_na); (fld_3, (B ";")); (fld_10, v_true); (fld_30, (B "csv")); (fld_33, v_na); (fld_39, v_true)]);
    ([tok_2; tok_29; tok_53], Some [(fld_0, (B "json")); (fld_1, v_na); (fld_2, v_na); (fld_3, (B ";")); (fld_10, v_true); (fld_30, (B "csv")); (fld_33, v_na)]);
    ([tok_2; tok_106], Some [(fld_0, (B "json")); (fld_1, v_na); (fld_2, v_na); (fld_3, (B ";")); (fld_10, v_true)]);
    ([tok_2; tok_29; tok_56], Some [(fld_0, (B "json")); (fld_1, v_na); (fld_2, v_na); (fld_3, (B ";")); (fld_10, v_true)]);
    ([tok_2; tok_44], Some [(fld_0, (B "json")); (fld_1, v_na); (fld_2, v_na); (fld_3, (B ";")); (fld_10, v_true); (fld_30, (B "json")); (fld_31, v_na); (fld_32, v_na); (fld_33, v_na); (fld_65, v_false)]);
    ([tok_2; tok_29; tok_57], Some [(fld_0, (B "json")); (fld_1, v_na); (fld_2, v_na); (fld_3, (B ";")); (fld_10, v_true); (fld_30, (B "json")); (fld_31, v_na); (fld_32, v_na); (fld_33, v_na); (fld_65, v_false)]);
    ([tok_2; tok_107], Some [(fld_0, (B "json")); (fld_1, v_na); (fld_2, v_na); (fld_3, (B ";")); (fld_10, v_true); (fld_30, (B "jsonl")); (fld_31, (B "")); (fld_32, (B "")); (fld_33, (B "")); (fld_65, v_false)]);
    ([tok_2; tok_29; tok_58], Some [(fld_0, (B "json")); (fld_1, v_na); (fld_2, v_na); (fld_3, (B ";")); (fld_10, v_true); (fld_30, (B "jsonl")); (fld_31, (B "")); (fld_32, (B "")); (fld_33, (B "")); (fld_65, v_false)]);
    ([tok_2; tok_108], Some [(fld_0, (B "json")); (fld_1, v_na); (fld_2, v_na); (fld_3, (B ";")); (fld_10, v_true); (fld_30, (B "markdown")); (fld_32, (B " ")); (fld_33, v_na)]);
    ([tok_2; tok_29; tok_59], Some [(fld_0, (B "json")); (fld_1, v_na); (fld_2, v_na); (fld_3, (B ";")); (fld_10, v_true); (fld_30, (B "markdown")); (fld_32, (B " ")); (fld_33, v_na)]);
    ([tok_2; tok_109], Some [(fld_0, (B "json")); (fld_1, v_na); (fld_2, v_na); (fld_3, (B ";")); (fld_10, v_true); (fld_30, (B "nidx")); (fld_32, (B " ")); (fld_33, v_na); (fld_37, v_true)]);
    ([tok_2; tok_29; tok_61], Some [(fld_0, (B "json")); (fld_1, v_na); (fld_2, v_na); (fld_3, (B ";")); (fld_10, v_true); (fld_30, (B "nidx")); (fld_32, (B " ")); (fld_33, v_na); (fld_37, v_true)]);
    ([tok_2; tok_110], Some [(fld_0, (B "json")); (fld_1, v_na); (fld_2, v_na); (fld_3, (B ";")); (fld_10, v_true); (fld_30, (B "pprint")); (fld_32, (B " ")); (fld_33, v_na)]);
    ([tok_2; tok_29; tok_62], Some [(fld_0, (B "json")); (fld_1, v_na); (fld_2, v_na); (fld_3, (B ";")); (fld_10, v_true); (fld_30, (B "pprint")); (fld_32, (B " ")); (fld_33, v_na)]);
    ([tok_2; tok_111], Some [(fld_0, (B "json")); (fld_1, v_na); (fld_2, v_na); (fld_3, (B ";")); (fld_10, v_true); (fld_30, (B "tsv")); (fld_32, (bs [9]%N)); (fld_33, v_na); (fld_37, v_true)]);
    ([tok_2; tok_29; tok_64], Some [(fld_0, (B "json")); (fld_1, v_na); (fld_2, v_na); (fld_3, (B ";")); (fld_10, v_true); (fld_30, (B "tsv")); (fld_32, (bs [9]%N)); (fld_33, v_na); (fld_37, v_true)]);
    ([tok_2; tok_112], Some [(fld_0, (B "json")); (fld_1, v_na); (fld_2, v_na); (fld_3, (B ";")); (fld_10, v_true); (fld_30, (B "xtab")); (fld_31, (bs [10;10]%N)); (fld_32, (bs [10]%N)); (fld_33, (B " "))]);
    ([tok_2; tok_29; tok_68], Some [(fld_0, (B "json")); (fld_1, v_na); (fld_2, v_na); (fld_3, (B ";")); (fld_10, v_true); (fld_30, (B "xtab")); (fld_31, (bs [10;10]%N)); (fld_32, (bs [10]%N)); (fld_33, (B " "))]);
    ([tok_2; tok_113], Some [(fld_0, (B "json")); (fld_1, v_na); (fld_2, v_na); (fld_3, (B ";")); (fld_10, v_true); (fld_30, (B "yaml")); (fld_31, v_na); (fld_32, v_na); (fld_33, v_na); (fld_65, v_false)]);
    ([tok_2; tok_29; tok_69], Some [(fld_0, (B "json")); (fld_1, v_na); (fld_2, v_na); (fld_3, (B ";")); (fld_10, v_true); (fld_30, (B "yaml")); (fld_31, v_na); (fld_32, v_na); (fld_33, v_na); (fld_65, v_false)]);
    ([tok_2; tok_114], Some [(fld_0, (B "json")); (fld_1, v_na); (fld_2, v_na); (fld_3, (B ";")); (fld_10, v_true); (fld_30, (B "pprint")); (fld_32, (B " ")); (fld_33, v_na); (fld_41, v_true)]);
    ([tok_2; tok_30; tok_62; tok_233], Some [(fld_0, (B "json")); (fld_1, v_na); (fld_2, v_na); (fld_3, (B ";")); (fld_10, v_true); (fld_30, (B "pprint")); (fld_32, (B " ")); (fld_33, v_na); (fld_41, v_true)]);
    ([tok_2; tok_115], Some [(fld_0, (B "json")); (fld_1, v_na); (fld_2, v_na); (fld_3, (B ";")); (fld_10, v_true); (fld_30, (B "csv")); (fld_33, v_na); (fld_39, v_true)]);
    ([tok_2; tok_30; tok_53], Some [(fld_0, (B "json")); (fld_1, v_na); (fld_2, v_na); (fld_3, (B ";")); (fld_10, v_true); (fld_30, (B "csv")); (fld_33, v_na)]);
    ([tok_2; tok_116], Some [(fld_0, (B "json")); (fld_1, v_na); (fld_2, v_na); (fld_3, (B ";")); (fld_10, v_true)]);
    ([tok_2; tok_30; tok_56], Some [(fld_0, (B "json")); (fld_1, v_na); (fld_2, v_na); (fld_3, (B ";")); (fld_10, v_true)]);
    ([tok_2; tok_117], Some [(fld_0, (B "json")); (fld_1, v_na); (fld_2, v_na); (fld_3, (B ";")); (fld_10, v_true); (fld_30, (B "json")); (fld_31, v_na); (fld_32, v_na); (fld_33, v_na); (fld_65, v_false)]);
    ([tok_2; tok_30; tok_57], Some [(fld_0, (B "json")); (fld_1, v_na); (fld_2, v_na); (fld_3, (B ";")); (fld_10, v_true); (fld_30, (B "json")); (fld_31, v_na); (fld_32, v_na); (fld_33, v_na); (fld_65, v_false)]);
    ([tok_2; tok_46], Some [(fld_0, (B "json")); (fld_1, v_na); (fld_2, v_na); (fld_3, (B ";")); (fld_10, v_true); (fld_30, (B "jsonl")); (fld_31, (B "")); (fld_32, (B "")); (fld_33, (B "")); (fld_65, v_false)]);
    ([tok_2; tok_30; tok_58], Some [(fld_0, (B "json")); (fld_1, v_na); (fld_2, v_na); (fld_3, (B ";")); (fld_10, v_true); (fld_30, (B "jsonl")); (fld_31, (B "")); (fld_32, (B "")); (fld_33, (B "")); (fld_65, v_false)]);
    ([tok_2; tok_118], Some [(fld_0, (B "json")); (fld_1, v_na); (fld_2, v_na); (fld_3, (B ";")); (fld_10, v_true); (fld_30, (B "markdown")); (fld_32, (B " ")); (fld_33, v_na)]);
    ([tok_2; tok_30; tok_59], Some [(fld_0, (B "json")); (fld_1, v_na); (fld_2, v_na); (fld_3, (B ";")); (fld_10, v_true); (fld_30, (B "markdown")); (fld_32, (B " ")); (fld_33, v_na)]);
    ([tok_2; tok_119], Some [(fld_0, (B "json")); (fld_1, v_na); (fld_2, v_na); (fld_3, (B ";")); (fld_10, v_true); (fld_30, (B "nidx")); (fld_32, (B " ")); (fld_33, v_na); (fld_37, v_true)]);
    ([tok_2; tok_30; tok_61], Some [(fld_0, (B "json")); (fld_1, v_na); (fld_2, v_na); (fld_3, (B ";")); (fld_10, v_true); (fld_30, (B "nidx")); (fld_32, (B " ")); (fld_33, v_na); (fld_37, v_true)]);
    ([tok_2; tok_120], Some [(fld_0, (B "json")); (fld_1, v_na); (fld_2, v_na); (fld_3, (B ";")); (fld_10, v_true); (fld_30, (B "pprint")); (fld_32, (B " ")); (fld_33, v_na)]);
    ([tok_2; tok_30; tok_62], Some [(fld_0, (B "json")); (fld_1, v_na); (fld_2, v_na); (fld_3, (B ";")); (fld_10, v_true); (fld_30, (B "pprint")); (fld_32, (B " ")); (fld_33, v_na)]);
    ([tok_2; tok_121], Some [(fld_0, (B "json")); (fld_1, v_na); (fld_2, v_na); (fld_3, (B ";")); (fld_10, v_true); (fld_30, (B "tsv")); (fld_32, (bs [9]%N)); (fld_33, v_na); (fld_37, v_true)]);
    ([tok_2; tok_30; tok_64], Some [(fld_0, (B "json")); (fld_1, v_na); (fld_2, v_na); (fld_3, (B ";")); (fld_10, v_true); (fld_30, (B "tsv")); (fld_32, (bs [9]%N)); (fld_33, v_na); (fld_37, v_true)]);
    ([tok_2; tok_122], Some [(fld_0, (B "json")); (fld_1, v_na); (fld_2, v_na); (fld_3, (B ";")); (fld_10, v_true); (fld_30, (B "xtab")); (fld_31, (bs [10;10]%N)); (fld_32, (bs [10]%N)); (fld_33, (B " "))]);
    ([tok_2; tok_30; tok_68], Some [(fld_0, (B "json")); (fld_1, v_na); (fld_2, v_na); (fld_3, (B ";")); (fld_10, v_true); (fld_30, (B "xtab")); (fld_31, (bs [10;10]%N)); (fld_32, (bs [10]%N)); (fld_33, (B " "))]);
    ([tok_2; tok_123], Some [(fld_0, (B "json")); (fld_1, v_na); (fld_2, v_na); (fld_3, (B ";")); (fld_10, v_true); (fld_30, (B "yaml")); (fld_31, v_na); (fld_32, v_na); (fld_33, v_na); (fld_65, v_false)]);
    ([tok_2; tok_30; tok_69], Some [(fld_0, (B "json")); (fld_1, v_na); (fld_2, v_na); (fld_3, (B ";")); (fld_10, v_true); (fld_30, (B "yaml")); (fld_31, v_na); (fld_32, v_na); (fld_33, v_na); (fld_65, v_false)]);
    ([tok_2; tok_124], Some [(fld_0, (B "markdown")); (fld_1, (B " ")); (fld_2, v_na); (fld_3, (B ";")); (fld_10, v_true); (fld_30, (B "csv")); (fld_33, v_na); (fld_39, v_true)]);
    ([tok_2; tok_31; tok_53], Some [(fld_0, (B "markdown")); (fld_1, (B " ")); (fld_2, v_na); (fld_3, (B ";")); (fld_10, v_true); (fld_30, (B "csv")); (fld_33, v_na)]);
    ([tok_2; tok_125], Some [(fld_0, (B "markdown")); (fld_1, (B " ")); (fld_2, v_na); (fld_3, (B ";")); (fld_10, v_true)]);
    ([tok_2; tok_31; tok_56], Some [(fld_0, (B "markdown")); (fld_1, (B " ")); (fld_2, v_na); (fld_3, (B ";")); (fld_10, v_true)]);
    ([tok_2; tok_126], Some [(fld_0, (B "markdown")); (fld_1, (B " ")); (fld_2, v_na); (fld_3, (B ";")); (fld_10, v_true); (fld_30, (B "json")); (fld_31, v_na); (fld_32, v_na); (fld_33, v_na); (fld_65, v_false); (fld_66, v_true)]);
    ([tok_2; tok_31; tok_57], Some [(fld_0, (B "markdown")); (fld_1, (B " ")); (fld_2, v_na); (fld_3, (B ";")); (fld_10, v_true); (fld_30, (B "json")); (fld_31, v_na); (fld_32, v_na); (fld_33, v_na); (fld_65, v_false); (fld_66, v_true)]);
    ([tok_2; tok_127], Some [(fld_0, (B "markdown")); (fld_1, (B " ")); (fld_2, v_na); (fld_3, (B ";")); (fld_10, v_true); (fld_30, (B "jsonl")); (fld_31, (B "")); (fld_32, (B "")); (fld_33, (B "")); (fld_65, v_false); (fld_66, v_true)]);
    ([tok_2; tok_31; tok_58], Some [(fld_0, (B "markdown")); (fld_1, (B " ")); (fld_2, v_na); (fld_3, (B ";")); (fld_10, v_true); (fld_30, (B "jsonl")); (fld_31, (B "")); (fld_32, (B "")); (fld_33, (B "")); (fld_65, v_false); (fld_66, v_true)]);
    ([tok_2; tok_128], Some [(fld_0, (B "markdown")); (fld_1, (B " ")); (fld_2, v_na); (fld_3, (B ";")); (fld_10, v_true); (fld_30, (B "nidx")); (fld_32, (B " ")); (fld_33, v_na); (fld_37, v_true)]);
    ([tok_2; tok_31; tok_61], Some [(fld_0, (B "markdown")); (fld_1, (B " ")); (fld_2, v_na); (fld_3, (B ";")); (fld_10, v_true); (fld_30, (B "nidx")); (fld_32, (B " ")); (fld_33, v_na); (fld_37, v_true)]);
    ([tok_2; tok_129], Some [(fld_0, (B "markdown")); (fld_1, (B " ")); (fld_2, v_na); (fld_3, (B ";")); (fld_10, v_true); (fld_30, (B "pprint")); (fld_32, (B " ")); (fld_33, v_na)]);
    ([tok_2; tok_31; tok_62], Some [(fld_0, (B "markdown")); (fld_1, (B " ")); (fld_2, v_na); (fld_3, (B ";")); (fld_10, v_true); (fld_30, (B "pprint")); (fld_32, (B " ")); (fld_33, v_na)]);
    ([tok_2; tok_130], Some [(fld_0, (B "markdown")); (fld_1, (B " ")); (fld_2, v_na); (fld_3, (B ";")); (fld_10, v_true); (fld_30, (B "tsv")); (fld_32, (bs [9]%N)); (fld_33, v_na); (fld_37, v_true)]);
    ([tok_2; tok_31; tok_64], Some [(fld_0, (B "markdown")); (fld_1, (B " ")); (fld_2, v_na); (fld_3, (B ";")); (fld_10, v_true); (fld_30, (B "tsv")); (fld_32, (bs [9]%N)); (fld_33, v_na); (fld_37, v_true)]);
    ([tok_2; tok_131], Some [(fld_0, (B "markdown")); (fld_1, (B " ")); (fld_2, v_na); (fld_3, (B ";")); (fld_10, v_true); (fld_30, (B "xtab")); (fld_31, (bs [10;10]%N)); (fld_32, (bs [10]%N)); (fld_33, (B " "))]);
    ([tok_2; tok_31; tok_68], Some [(fld_0, (B "markdown")); (fld_1, (B " ")); (fld_2, v_na); (fld_3, (B ";")); (fld_10, v_true); (fld_30, (B "xtab")); (fld_31, (bs [10;10]%N)); (fld_32, (bs [10]%N)); (fld_33, (B " "))]);
    ([tok_2; tok_132], Some [(fld_0, (B "markdown")); (fld_1, (B " ")); (fld_2, v_na); (fld_3, (B ";")); (fld_10, v_true); (fld_30, (B "yaml")); (fld_31, v_na); (fld_32, v_na); (fld_33, v_na); (fld_65, v_false); (fld_66, v_true)]);
    ([tok_2; tok_31; tok_69], Some [(fld_0, (B "markdown")); (fld_1, (B " ")); (fld_2, v_na); (fld_3, (B ";")); (fld_10, v_true); (fld_30, (B "yaml")); (fld_31, v_na); (fld_32, v_na); (fld_33, v_na); (fld_65, v_false); (fld_66, v_true)]);
    ([tok_2; tok_198], Some [(fld_0, (B "markdown")); (fld_1, (B " ")); (fld_2, v_na); (fld_3, (B ";")); (fld_10, v_true); (fld_30, (B "markdown")); (fld_32, (B " ")); (fld_33, v_na); (fld_45, v_true)]);
    ([tok_2; tok_47; tok_199], Some [(fld_0, (B "markdown")); (fld_1, (B " ")); (fld_2, v_na); (fld_3, (B ";")); (fld_10, v_true); (fld_30, (B "markdown")); (fld_32, (B " ")); (fld_33, v_na); (fld_45, v_true)]);
    ([tok_2; tok_197], Some [(fld_0, (B "markdown")); (fld_1, (B " ")); (fld_2, v_na); (fld_3, (B ";")); (fld_10, v_true); (fld_30, (B "markdown")); (fld_32, (B " ")); (fld_33, v_na); (fld_45, v_true)]);
    ([tok_2; tok_133], Some [(fld_0, (B "nidx")); (fld_1, (B " ")); (fld_2, v_na); (fld_3, (B ";")); (fld_5, (B "([ \t])+")); (fld_10, v_true); (fld_30, (B "pprint")); (fld_32, (B " ")); (fld_33, v_na); (fld_41, v_true)]);
    ([tok_2; tok_33; tok_62; tok_233], Some [(fld_0, (B "nidx")); (fld_1, (B " ")); (fld_2, v_na); (fld_3, (B ";")); (fld_5, (B "([ \t])+")); (fld_10, v_true); (fld_30, (B "pprint")); (fld_32, (B " ")); (fld_33, v_na); (fld_41, v_true)]);
    ([tok_2; tok_134], Some [(fld_0, (B "nidx")); (fld_1, (B " ")); (fld_2, v_na); (fld_3, (B ";")); (fld_5, (B "([ \t])+")); (fld_10, v_true); (fld_30, (B "csv")); (fld_33, v_na); (fld_39, v_true)]);
    ([tok_2; tok_33; tok_53], Some [(fld_0, (B "nidx")); (fld_1, (B " ")); (fld_2, v_na); (fld_3, (B ";")); (fld_5, (B "([ \t])+")); (fld_10, v_true); (fld_30, (B "csv")); (fld_33, v_na)]);
    ([tok_2; tok_135], Some [(fld_0, (B "nidx")); (fld_1, (B " ")); (fld_2, v_na); (fld_3, (B ";")); (fld_5, (B "([ \t])+")); (fld_10, v_true)]);
    ([tok_2; tok_33; tok_56], Some [(fld_0, (B "nidx")); (fld_1, (B " ")); (fld_2, v_na); (fld_3, (B ";")); (fld_5, (B "([ \t])+")); (fld_10, v_true)]);
    ([tok_2; tok_136], Some [(fld_0, (B "nidx")); (fld_1, (B " ")); (fld_2, v_na); (fld_3, (B ";")); (fld_5, (B "([ \t])+")); (fld_10, v_true); (fld_30, (B "json")); (fld_31, v_na); (fld_32, v_na); (fld_33, v_na); (fld_65, v_false); (fld_66, v_true)]);
    ([tok_2; tok_33; tok_57], Some [(fld_0, (B "nidx")); (fld_1, (B " ")); (fld_2, v_na); (fld_3, (B ";")); (fld_5, (B "([ \t])+")); (fld_10, v_true); (fld_30, (B "json")); (fld_31, v_na); (fld_32, v_na); (fld_33, v_na); (fld_65, v_false); (fld_66, v_true)]);
    ([tok_2; tok_137], Some [(fld_0, (B "nidx")); (fld_1, (B " ")); (fld_2, v_na); (fld_3, (B ";")); (fld_5, (B "([ \t])+")); (fld_10, v_true); (fld_30, (B "jsonl")); (fld_31, (B "")); (fld_32, (B "")); (fld_33, (B "")); (fld_65, v_false); (fld_66, v_true)]);
    ([tok_2; tok_33; tok_58], Some [(fld_0, (B "nidx")); (fld_1, (B " ")); (fld_2, v_na); (fld_3, (B ";")); (fld_5, (B "([ \t])+")); (fld_10, v_true); (fld_30, (B "jsonl")); (fld_31, (B "")); (fld_32, (B "")); (fld_33, (B "")); (fld_65, v_false); (fld_66, v_true)]);
    ([tok_2; tok_138], Some [(fld_0, (B "nidx")); (fld_1, (B " ")); (fld_2, v_na); (fld_3, (B ";")); (fld_5, (B "([ \t])+")); (fld_10, v_true); (fld_30, (B "markdown")); (fld_32, (B " ")); (fld_33, v_na)]);
    ([tok_2; tok_33; tok_59], Some [(fld_0, (B "nidx")); (fld_1, (B " ")); (fld_2, v_na); (fld_3, (B ";")); (fld_5, (B "([ \t])+")); (fld_10, v_true); (fld_30, (B "markdown")); (fld_32, (B " ")); (fld_33, v_na)]);
    ([tok_2; tok_50], Some [(fld_0, (B "nidx")); (fld_1, (B " ")); (fld_2, v_na); (fld_3, (B ";")); (fld_5, (B "([ \t])+")); (fld_10, v_true); (fld_30, (B "nidx")); (fld_32, (B " ")); (fld_33, v_na); (fld_37, v_true)]);
    ([tok_2; tok_33; tok_61], Some [(fld_0, (B "nidx")); (fld_1, (B " ")); (fld_2, v_na); (fld_3, (B ";")); (fld_5, (B "([ \t])+")); (fld_10, v_true); (fld_30, (B "nidx")); (fld_32, (B " ")); (fld_33, v_na); (fld_37, v_true)]);
    ([tok_2; tok_139], Some [(fld_0, (B "nidx")); (fld_1, (B " ")); (fld_2, v_na); (fld_3, (B ";")); (fld_5, (B "([ \t])+")); (fld_10, v_true); (fld_30, (B "pprint")); (fld_32, (B " ")); (fld_33, v_na)]);
    ([tok_2; tok_33; tok_62], Some [(fld_0, (B "nidx")); (fld_1, (B " ")); (fld_2, v_na); (fld_3, (B ";")); (fld_5, (B "([ \t])+")); (fld_10, v_true); (fld_30, (B "pprint")); (fld_32, (B " ")); (fld_33, v_na)]);
    ([tok_2; tok_140], Some [(fld_0, (B "nidx")); (fld_1, (B " ")); (fld_2, v_na); (fld_3, (B ";")); (fld_5, (B "([ \t])+")); (fld_10, v_true); (fld_30, (B "tsv")); (fld_32, (bs [9]%N)); (fld_33, v_na); (fld_37, v_true)]);
    ([tok_2; tok_33; tok_64], Some [(fld_0, (B "nidx")); (fld_1, (B " ")); (fld_2, v_na); (fld_3, (B ";")); (fld_5, (B "([ \t])+")); (fld_10, v_true); (fld_30, (B "tsv")); (fld_32, (bs [9]%N)); (fld_33, v_na); (fld_37, v_true)]);
    ([tok_2; tok_141], Some [(fld_0, (B "nidx")); (fld_1, (B " ")); (fld_2, v_na); (fld_3, (B ";")); (fld_5, (B "([ \t])+")); (fld_10, v_true); (fld_30, (B "xtab")); (fld_31, (bs [10;10]%N)); (fld_32, (bs [10]%N)); (fld_33, (B " "))]);
    ([tok_2; tok_33; tok_68], Some [(fld_0, (B "nidx")); (fld_1, (B " ")); (fld_2, v_na); (fld_3, (B ";")); (fld_5, (B "([ \t])+")); (fld_10, v_true); (fld_30, (B "xtab")); (fld_31, (bs [10;10]%N)); (fld_32, (bs [10]%N)); (fld_33, (B " "))]);
    ([tok_2; tok_142], Some [(fld_0, (B "nidx")); (fld_1, (B " ")); (fld_2, v_na); (fld_3, (B ";")); (fld_5, (B "([ \t])+")); (fld_10, v_true); (fld_30, (B "yaml")); (fld_31, v_na); (fld_32, v_na); (fld_33, v_na); (fld_65, v_false); (fld_66, v_true)]);
    ([tok_2; tok_33; tok_69], Some [(fld_0, (B "nidx")); (fld_1, (B " ")); (fld_2, v_na); (fld_3, (B ";")); (fld_5, (B "([ \t])+")); (fld_10, v_true); (fld_30, (B "yaml")); (fld_31, v_na); (fld_32, v_na); (fld_33, v_na); (fld_65, v_false); (fld_66, v_true)]);
    ([tok_2; tok_143], Some [(fld_0, (B "pprint")); (fld_1, (B " ")); (fld_2, v_na); (fld_3, (B ";")); (fld_4, v_true); (fld_8, v_true); (fld_10, v_true); (fld_30, (B "csv")); (fld_33, v_na); (fld_39, v_true)]);
    ([tok_2; tok_34; tok_53], Some [(fld_0, (B "pprint")); (fld_1, (B " ")); (fld_2, v_na); (fld_3, (B ";")); (fld_4, v_true); (fld_8, v_true); (fld_10, v_true); (fld_30, (B "csv")); (fld_33, v_na)]);
    ([tok_2; tok_144], Some [(fld_0, (B "pprint")); (fld_1, (B " ")); (fld_2, v_na); (fld_3, (B ";")); (fld_4, v_true); (fld_8, v_true); (fld_10, v_true)]);
    ([tok_2; tok_34; tok_56], Some [(fld_0, (B "pprint")); (fld_1, (B " ")); (fld_2, v_na); (fld_3, (B ";")); (fld_4, v_true); (fld_8, v_true); (fld_10, v_true)]);
    ([tok_2; tok_145], Some [(fld_0, (B "pprint")); (fld_1, (B " ")); (fld_2, v_na); (fld_3, (B ";")); (fld_4, v_true); (fld_8, v_true); (fld_10, v_true); (fld_30, (B "json")); (fld_31, v_na); (fld_32, v_na); (fld_33, v_na); (fld_65, v_false); (fld_66, v_true)]);
    ([tok_2; tok_34; tok_57], Some [(fld_0, (B "pprint")); (fld_1, (B " ")); (fld_2, v_na); (fld_3, (B ";")); (fld_4, v_true); (fld_8, v_true); (fld_10, v_true); (fld_30, (B "json")); (fld_31, v_na); (fld_32, v_na); (fld_33, v_na); (fld_65, v_false); (fld_66, v_true)]);
    ([tok_2; tok_146], Some [(fld_0, (B "pprint")); (fld_1, (B " ")); (fld_2, v_na); (fld_3, (B ";")); (fld_4, v_true); (fld_8, v_true); (fld_10, v_true); (fld_30, (B "jsonl")); (fld_31, (B "")); (fld_32, (B "")); (fld_33, (B "")); (fld_65, v_false); (fld_66, v_true)]);
    ([tok_2; tok_34; tok_58], Some [(fld_0, (B "pprint")); (fld_1, (B " ")); (fld_2, v_na); (fld_3, (B ";")); (fld_4, v_true); (fld_8, v_true); (fld_10, v_true); (fld_30, (B "jsonl")); (fld_31, (B "")); (fld_32, (B "")); (fld_33, (B "")); (fld_65, v_false); (fld_66, v_true)]);
    ([tok_2; tok_147], Some [(fld_0, (B "pprint")); (fld_1, (B " ")); (fld_2, v_na); (fld_3, (B ";")); (fld_4, v_true); (fld_8, v_true); (fld_10, v_true); (fld_30, (B "markdown")); (fld_32, (B " ")); (fld_33, v_na)]);
    ([tok_2; tok_34; tok_59], Some [(fld_0, (B "pprint")); (fld_1, (B " ")); (fld_2, v_na); (fld_3, (B ";")); (fld_4, v_true); (fld_8, v_true); (fld_10, v_true); (fld_30, (B "markdown")); (fld_32, (B " ")); (fld_33, v_na)]);
    ([tok_2; tok_148], Some [(fld_0, (B "pprint")); (fld_1, (B " ")); (fld_2, v_na); (fld_3, (B ";")); (fld_4, v_true); (fld_8, v_true); (fld_10, v_true); (fld_30, (B "nidx")); (fld_32, (B " ")); (fld_33, v_na); (fld_37, v_true)]);
    ([tok_2; tok_34; tok_61], Some [(fld_0, (B "pprint")); (fld_1, (B " ")); (fld_2, v_na); (fld_3, (B ";")); (fld_4, v_true); (fld_8, v_true); (fld_10, v_true); (fld_30, (B "nidx")); (fld_32, (B " ")); (fld_33, v_na); (fld_37, v_true)]);
    ([tok_2; tok_71], Some [(fld_0, (B "pprint")); (fld_1, (B " ")); (fld_2, v_na); (fld_3, (B ";")); (fld_4, v_true); (fld_8, v_true); (fld_10, v_true); (fld_30, (B "pprint")); (fld_32, (B " ")); (fld_33, v_na)]);
    ([tok_2; tok_34; tok_62], Some [(fld_0, (B "pprint")); (fld_1, (B " ")); (fld_2, v_na); (fld_3, (B ";")); (fld_4, v_true); (fld_8, v_true); (fld_10, v_true); (fld_30, (B "pprint")); (fld_32, (B " ")); (fld_33, v_na)]);
    ([tok_2; tok_149], Some [(fld_0, (B "pprint")); (fld_1, (B " ")); (fld_2, v_na); (fld_3, (B ";")); (fld_4, v_true); (fld_8, v_true); (fld_10, v_true); (fld_30, (B "tsv")); (fld_32, (bs [9]%N)); (fld_33, v_na); (fld_37, v_true)]);
    ([tok_2; tok_34; tok_64], Some [(fld_0, (B "pprint")); (fld_1, (B " ")); (fld_2, v_na); (fld_3, (B ";")); (fld_4, v_true); (fld_8, v_true); (fld_10, v_true); (fld_30, (B "tsv")); (fld_32, (bs [9]%N)); (fld_33, v_na); (fld_37, v_true)]);
    ([tok_2; tok_150], Some [(fld_0, (B "pprint")); (fld_1, (B " ")); (fld_2, v_na); (fld_3, (B ";")); (fld_4, v_true); (fld_8, v_true); (fld_10, v_true); (fld_30, (B "xtab")); (fld_31, (bs [10;10]%N)); (fld_32, (bs [10]%N)); (fld_33, (B " "))]);
    ([tok_2; tok_34; tok_68], Some [(fld_0, (B "pprint")); (fld_1, (B " ")); (fld_2, v_na); (fld_3, (B ";")); (fld_4, v_true); (fld_8, v_true); (fld_10, v_true); (fld_30, (B "xtab")); (fld_31, (bs [10;10]%N)); (fld_32, (bs [10]%N)); (fld_33, (B " "))]);
    ([tok_2; tok_151], Some [(fld_0, (B "pprint")); (fld_1, (B " ")); (fld_2, v_na); (fld_3, (B ";")); (fld_4, v_true); (fld_8, v_true); (fld_10, v_true); (fld_30, (B "yaml")); (fld_31, v_na); (fld_32, v_na); (fld_33, v_na); (fld_65, v_false); (fld_66, v_true)]);
    ([tok_2; tok_34; tok_69], Some [(fld_0, (B "pprint")); (fld_1, (B " ")); (fld_2, v_na); (fld_3, (B ";")); (fld_4, v_true); (fld_8, v_true); (fld_10, v_true); (fld_30, (B "yaml")); (fld_31, v_na); (fld_32, v_na); (fld_33, v_na); (fld_65, v_false); (fld_66, v_true)]);
    ([tok_2; tok_152], Some [(fld_0, (B "tsv")); (fld_1, (bs [9]%N)); (fld_2, v_na); (fld_3, (B ";")); (fld_10, v_true); (fld_30, (B "pprint")); (fld_32, (B " ")); (fld_33, v_na); (fld_41, v_true)]);
    ([tok_2; tok_36; tok_62; tok_233], Some [(fld_0, (B "tsv")); (fld_1, (bs [9]%N)); (fld_2, v_na); (fld_3, (B ";")); (fld_10, v_true); (fld_30, (B "pprint")); (fld_32, (B " ")); (fld_33, v_na); (fld_41, v_true)]);
    ([tok_2; tok_153], Some [(fld_0, (B "tsv")); (fld_1, (bs [9]%N)); (fld_2, v_na); (fld_3, (B ";")); (fld_10, v_true); (fld_30, (B "csv")); (fld_33, v_na)]);
    ([tok_2; tok_36; tok_53], Some [(fld_0, (B "tsv")); (fld_1, (bs [9]%N)); (fld_2, v_na); (fld_3, (B ";")); (fld_10, v_true); (fld_30, (B "csv")); (fld_33, v_na)]);
    ([tok_2; tok_154], Some [(fld_0, (B "tsv")); (fld_1, (bs [9]%N)); (fld_2, v_na); (fld_3, (B ";")); (fld_10, v_true)]);
    ([tok_2; tok_36; tok_56], Some [(fld_0, (B "tsv")); (fld_1, (bs [9]%N)); (fld_2, v_na); (fld_3, (B ";")); (fld_10, v_true)]);
    ([tok_2; tok_155], Some [(fld_0, (B "tsv")); (fld_1, (bs [9]%N)); (fld_2, v_na); (fld_3, (B ";")); (fld_10, v_true); (fld_30, (B "json")); (fld_31, v_na); (fld_32, v_na); (fld_33, v_na); (fld_65, v_false); (fld_66, v_true)]);
    ([tok_2; tok_36; tok_57], Some [(fld_0, (B "tsv")); (fld_1, (bs [9]%N)); (fld_2, v_na); (fld_3, (B ";")); (fld_10, v_true); (fld_30, (B "json")); (fld_31, v_na); (fld_32, v_na); (fld_33, v_na); (fld_65, v_false); (fld_66, v_true)]);
    ([tok_2; tok_156], Some [(fld_0, (B "tsv")); (fld_1, (bs [9]%N)); (fld_2, v_na); (fld_3, (B ";")); (fld_10, v_true); (fld_30, (B "jsonl")); (fld_31, (B "")); (fld_32, (B "")); (fld_33, (B "")); (fld_65, v_false); (fld_66, v_true)]);
    ([tok_2; tok_36; tok_58], Some [(fld_0, (B "tsv")); (fld_1, (bs [9]%N)); (fld_2, v_na); (fld_3, (B ";")); (fld_10, v_true); (fld_30, (B "jsonl")); (fld_31, (B "")); (fld_32, (B "")); (fld_33, (B "")); (fld_65, v_false); (fld_66, v_true)]);
    ([tok_2; tok_157], Some [(fld_0, (B "tsv")); (fld_1, (bs [9]%N)); (fld_2, v_na); (fld_3, (B ";")); (fld_10, v_true); (fld_30, (B "markdown")); (fld_32, (B " ")); (fld_33, v_na)]);
    ([tok_2; tok_36; tok_59], Some [(fld_0, (B "tsv")); (fld_1, (bs [9]%N)); (fld_2, v_na); (fld_3, (B ";")); (fld_10, v_true); (fld_30, (B "markdown")); (fld_32, (B " ")); (fld_33, v_na)]);
    ([tok_2; tok_158], Some [(fld_0, (B "tsv")); (fld_1, (bs [9]%N)); (fld_2, v_na); (fld_3, (B ";")); (fld_10, v_true); (fld_30, (B "nidx")); (fld_32, (B " ")); (fld_33, v_na); (fld_37, v_true)]);
    ([tok_2; tok_36; tok_61], Some [(fld_0, (B "tsv")); (fld_1, (bs [9]%N)); (fld_2, v_na); (fld_3, (B ";")); (fld_10, v_true); (fld_30, (B "nidx")); (fld_32, (B " ")); (fld_33, v_na); (fld_37, v_true)]);
    ([tok_2; tok_159], Some [(fld_0, (B "tsv")); (fld_1, (bs [9]%N)); (fld_2, v_na); (fld_3, (B ";")); (fld_10, v_true); (fld_30, (B "pprint")); (fld_32, (B " ")); (fld_33, v_na)]);
    ([tok_2; tok_36; tok_62], Some [(fld_0, (B "tsv")); (fld_1, (bs [9]%N)); (fld_2, v_na); (fld_3, (B ";")); (fld_10, v_true); (fld_30, (B "pprint")); (fld_32, (B " ")); (fld_33, v_na)]);
    ([tok_2; tok_75], Some [(fld_0, (B "tsv")); (fld_1, (bs [9]%N)); (fld_2, v_na); (fld_3, (B ";")); (fld_10, v_true); (fld_30, (B "tsv")); (fld_32, (bs [9]%N)); (fld_33, v_na); (fld_37, v_true)]);
    ([tok_2; tok_36; tok_64], Some [(fld_0, (B "tsv")); (fld_1, (bs [9]%N)); (fld_2, v_na); (fld_3, (B ";")); (fld_10, v_true); (fld_30, (B "tsv")); (fld_32, (bs [9]%N)); (fld_33, v_na); (fld_37, v_true)]);
    ([tok_2; tok_160], Some [(fld_0, (B "tsv")); (fld_1, (bs [9]%N)); (fld_2, v_na); (fld_3, (B ";")); (fld_10, v_true); (fld_30, (B "xtab")); (fld_31, (bs [10;10]%N)); (fld_32, (bs [10]%N)); (fld_33, (B " "))]);
    ([tok_2; tok_36; tok_68], Some [(fld_0, (B "tsv")); (fld_1, (bs [9]%N)); (fld_2, v_na); (fld_3, (B ";")); (fld_10, v_true); (fld_30, (B "xtab")); (fld_31, (bs [10;10]%N)); (fld_32, (bs [10]%N)); (fld_33, (B " "))]);
    ([tok_2; tok_161], Some [(fld_0, (B "tsv")); (fld_1, (bs [9]%N)); (fld_2, v_na); (fld_3, (B ";")); (fld_10, v_true); (fld_30, (B "yaml")); (fld_31, v_na); (fld_32, v_na); (fld_33, v_na); (fld_65, v_false); (fld_66, v_true)]);
    ([tok_2; tok_36; tok_69], Some [(fld_0, (B "tsv")); (fld_1, (bs [9]%N)); (fld_2, v_na); (fld_3, (B ";")); (fld_10, v_true); (fld_30, (B "yaml")); (fld_31, v_na); (fld_32, v_na); (fld_33, v_na); (fld_65, v_false); (fld_66, v_true)]);
    ([tok_2; tok_162], Some [(fld_0, (B "xtab")); (fld_1, (bs [10]%N)); (fld_2, (B " ")); (fld_3, (B ";")); (fld_10, v_true); (fld_30, (B "pprint")); (fld_32, (B " ")); (fld_33, v_na); (fld_41, v_true)]);
    ([tok_2; tok_40; tok_62; tok_233], Some [(fld_0, (B "xtab")); (fld_1, (bs [10]%N)); (fld_2, (B " ")); (fld_3, (B ";")); (fld_10, v_true); (fld_30, (B "pprint")); (fld_32, (B " ")); (fld_33, v_na); (fld_41, v_true)]);
    ([tok_2; tok_163], Some [(fld_0, (B "xtab")); (fld_1, (bs [10]%N)); (fld_2, (B " ")); (fld_3, (B ";")); (fld_10, v_true); (fld_30, (B "csv")); (fld_33, v_na); (fld_39, v_true)]);
    ([tok_2; tok_40; tok_53], Some [(fld_0, (B "xtab")); (fld_1, (bs [10]%N)); (fld_2, (B " ")); (fld_3, (B ";")); (fld_10, v_true); (fld_30, (B "csv")); (fld_33, v_na)]);
    ([tok_2; tok_164], Some [(fld_0, (B "xtab")); (fld_1, (bs [10]%N)); (fld_2, (B " ")); (fld_3, (B ";")); (fld_10, v_true)]);
    ([tok_2; tok_40; tok_56], Some [(fld_0, (B "xtab")); (fld_1, (bs [10]%N)); (fld_2, (B " ")); (fld_3, (B ";")); (fld_10, v_true)]);
    ([tok_2; tok_165], Some [(fld_0, (B "xtab")); (fld_1, (bs [10]%N)); (fld_2, (B " ")); (fld_3, (B ";")); (fld_10, v_true); (fld_30, (B "json")); (fld_31, v_na); (fld_32, v_na); (fld_33, v_na); (fld_65, v_false); (fld_66, v_true)]);
    ([tok_2; tok_40; tok_57], Some [(fld_0, (B "xtab")); (fld_1, (bs [10]%N)); (fld_2, (B " ")); (fld_3, (B ";")); (fld_10, v_true); (fld_30, (B "json")); (fld_31, v_na); (fld_32, v_na); (fld_33, v_na); (fld_65, v_false); (fld_66, v_true)]);
    ([tok_2; tok_166], Some [(fld_0, (B "xtab")); (fld_1, (bs [10]%N)); (fld_2, (B " ")); (fld_3, (B ";")); (fld_10, v_true); (fld_30, (B "jsonl")); (fld_31, (B "")); (fld_32, (B "")); (fld_33, (B "")); (fld_65, v_false); (fld_66, v_true)]);
    ([tok_2; tok_40; tok_58], Some [(fld_0, (B "xtab")); (fld_1, (bs [10]%N)); (fld_2, (B " ")); (fld_3, (B ";")); (fld_10, v_true); (fld_30, (B "jsonl")); (fld_31, (B "")); (fld_32, (B "")); (fld_33, (B "")); (fld_65, v_false); (fld_66, v_true)]);
    ([tok_2; tok_167], Some [(fld_0, (B "xtab")); (fld_1, (bs [10]%N)); (fld_2, (B " ")); (fld_3, (B ";")); (fld_10, v_true); (fld_30, (B "markdown")); (fld_32, (B " ")); (fld_33, v_na)]);
    ([tok_2; tok_40; tok_59], Some [(fld_0, (B "xtab")); (fld_1, (bs [10]%N)); (fld_2, (B " ")); (fld_3, (B ";")); (fld_10, v_true); (fld_30, (B "markdown")); (fld_32, (B " ")); (fld_33, v_na)]);
    ([tok_2; tok_168], Some [(fld_0, (B "xtab")); (fld_1, (bs [10]%N)); (fld_2, (B " ")); (fld_3, (B ";")); (fld_10, v_true); (fld_30, (B "nidx")); (fld_32, (B " ")); (fld_33, v_na); (fld_37, v_true)]);
    ([tok_2; tok_40; tok_61], Some [(fld_0, (B "xtab")); (fld_1, (bs [10]%N)); (fld_2, (B " ")); (fld_3, (B ";")); (fld_10, v_true); (fld_30, (B "nidx")); (fld_32, (B " ")); (fld_33, v_na); (fld_37, v_true)]);
    ([tok_2; tok_169], Some [(fld_0, (B "xtab")); (fld_1, (bs [10]%N)); (fld_2, (B " ")); (fld_3, (B ";")); (fld_10, v_true); (fld_30, (B "pprint")); (fld_32, (B " ")); (fld_33, v_na)]);
    ([tok_2; tok_40; tok_62], Some [(fld_0, (B "xtab")); (fld_1, (bs [10]%N)); (fld_2, (B " ")); (fld_3, (B ";")); (fld_10, v_true); (fld_30, (B "pprint")); (fld_32, (B " ")); (fld_33, v_na)]);
    ([tok_2; tok_170], Some [(fld_0, (B "xtab")); (fld_1, (bs [10]%N)); (fld_2, (B " ")); (fld_3, (B ";")); (fld_10, v_true); (fld_30, (B "tsv")); (fld_32, (bs [9]%N)); (fld_33, v_na); (fld_37, v_true)]);
    ([tok_2; tok_40; tok_64], Some [(fld_0, (B "xtab")); (fld_1, (bs [10]%N)); (fld_2, (B " ")); (fld_3, (B ";")); (fld_10, v_true); (fld_30, (B "tsv")); (fld_32, (bs [9]%N)); (fld_33, v_na); (fld_37, v_true)]);
    ([tok_2; tok_80], Some [(fld_0, (B "xtab")); (fld_1, (bs [10]%N)); (fld_2, (B " ")); (fld_3, (B ";")); (fld_10, v_true); (fld_30, (B "xtab")); (fld_31, (bs [10;10]%N)); (fld_32, (bs [10]%N)); (fld_33, (B " "))]);
    ([tok_2; tok_40; tok_68], Some [(fld_0, (B "xtab")); (fld_1, (bs [10]%N)); (fld_2, (B " ")); (fld_3, (B ";")); (fld_10, v_true); (fld_30, (B "xtab")); (fld_31, (bs [10;10]%N)); (fld_32, (bs [10]%N)); (fld_33, (B " "))]);
    ([tok_2; tok_171], Some [(fld_0, (B "xtab")); (fld_1, (bs [10]%N)); (fld_2, (B " ")); (fld_3, (B ";")); (fld_10, v_true); (fld_30, (B "yaml")); (fld_31, v_na); (fld_32, v_na); (fld_33, v_na); (fld_65, v_false); (fld_66, v_true)]);
    ([tok_2; tok_40; tok_69], Some [(fld_0, (B "xtab")); (fld_1, (bs [10]%N)); (fld_2, (B " ")); (fld_3, (B ";")); (fld_10, v_true); (fld_30, (B "yaml")); (fld_31, v_na); (fld_32, v_na); (fld_33, v_na); (fld_65, v_false); (fld_66, v_true)]);
    ([tok_2; tok_172], Some [(fld_0, (B "yaml")); (fld_1, v_na); (fld_2, v_na); (fld_3, (B ";")); (fld_10, v_true); (fld_30, (B "csv")); (fld_33, v_na); (fld_39, v_true)]);
    ([tok_2; tok_41; tok_53], Some [(fld_0, (B "yaml")); (fld_1, v_na); (fld_2, v_na); (fld_3, (B ";")); (fld_10, v_true); (fld_30, (B "csv")); (fld_33, v_na)]);
    ([tok_2; tok_173], Some [(fld_0, (B "yaml")); (fld_1, v_na); (fld_2, v_na); (fld_3, (B ";")); (fld_10, v_true)]);
    ([tok_2; tok_41; tok_56], Some [(fld_0, (B "yaml")); (fld_1, v_na); (fld_2, v_na); (fld_3, (B ";")); (fld_10, v_true)]);
    ([tok_2; tok_174], Some [(fld_0, (B "yaml")); (fld_1, v_na); (fld_2, v_na); (fld_3, (B ";")); (fld_10, v_true); (fld_30, (B "json")); (fld_31, v_na); (fld_32, v_na); (fld_33, v_na); (fld_65, v_false)]);
    ([tok_2; tok_41; tok_57], Some [(fld_0, (B "yaml")); (fld_1, v_na); (fld_2, v_na); (fld_3, (B ";")); (fld_10, v_true); (fld_30, (B "json")); (fld_31, v_na); (fld_32, v_na); (fld_33, v_na); (fld_65, v_false)]);
    ([tok_2; tok_175], Some [(fld_0, (B "yaml")); (fld_1, v_na); (fld_2, v_na); (fld_3, (B ";")); (fld_10, v_true); (fld_30, (B "jsonl")); (fld_31, (B "")); (fld_32, (B "")); (fld_33, (B "")); (fld_65, v_false)]);
    ([tok_2; tok_41; tok_58], Some [(fld_0, (B "yaml")); (fld_1, v_na); (fld_2, v_na); (fld_3, (B ";")); (fld_10, v_true); (fld_30, (B "jsonl")); (fld_31, (B "")); (fld_32, (B "")); (fld_33, (B "")); (fld_65, v_false)]);
    ([tok_2; tok_176], Some [(fld_0, (B "yaml")); (fld_1, v_na); (fld_2, v_na); (fld_3, (B ";")); (fld_10, v_true); (fld_30, (B "markdown")); (fld_32, (B " ")); (fld_33, v_na)]);
    ([tok_2; tok_41; tok_59], Some [(fld_0, (B "yaml")); (fld_1, v_na); (fld_2, v_na); (fld_3, (B ";")); (fld_10, v_true); (fld_30, (B "markdown")); (fld_32, (B " ")); (fld_33, v_na)]);
    ([tok_2; tok_177], Some [(fld_0, (B "yaml")); (fld_1, v_na); (fld_2, v_na); (fld_3, (B ";")); (fld_10, v_true); (fld_30, (B "nidx")); (fld_32, (B " ")); (fld_33, v_na); (fld_37, v_true)]);
    ([tok_2; tok_41; tok_61], Some [(fld_0, (B "yaml")); (fld_1, v_na); (fld_2, v_na); (fld_3, (B ";")); (fld_10, v_true); (fld_30, (B "nidx")); (fld_32, (B " ")); (fld_33, v_na); (fld_37, v_true)]);
    ([tok_2; tok_178], Some [(fld_0, (B "yaml")); (fld_1, v_na); (fld_2, v_na); (fld_3, (B ";")); (fld_10, v_true); (fld_30, (B "pprint")); (fld_32, (B " ")); (fld_33, v_na)]);
    ([tok_2; tok_41; tok_62], Some [(fld_0, (B "yaml")); (fld_1, v_na); (fld_2, v_na); (fld_3, (B ";")); (fld_10, v_true); (fld_30, (B "pprint")); (fld_32, (B " ")); (fld_33, v_na)]);
    ([tok_2; tok_179], Some [(fld_0, (B "yaml")); (fld_1, v_na); (fld_2, v_na); (fld_3, (B ";")); (fld_10, v_true); (fld_30, (B "tsv")); (fld_32, (bs [9]%N)); (fld_33, v_na); (fld_37, v_true)]);
    ([tok_2; tok_41; tok_64], Some [(fld_0, (B "yaml")); (fld_1, v_na); (fld_2, v_na); (fld_3, (B ";")); (fld_10, v_true); (fld_30, (B "tsv")); (fld_32, (bs [9]%N)); (fld_33, v_na); (fld_37, v_true)]);
    ([tok_2; tok_180], Some [(fld_0, (B "yaml")); (fld_1, v_na); (fld_2, v_na); (fld_3, (B ";")); (fld_10, v_true); (fld_30, (B "xtab")); (fld_31, (bs [10;10]%N)); (fld_32, (bs [10]%N)); (fld_33, (B " "))]);
    ([tok_2; tok_41; tok_68], Some [(fld_0, (B "yaml")); (fld_1, v_na); (fld_2, v_na); (fld_3, (B ";")); (fld_10, v_true); (fld_30, (B "xtab")); (fld_31, (bs [10;10]%N)); (fld_32, (bs [10]%N)); (fld_33, (B " "))]);
    ([tok_2; tok_83], Some [(fld_0, (B "yaml")); (fld_1, v_na); (fld_2, v_na); (fld_3, (B ";")); (fld_10, v_true); (fld_30, (B "yaml")); (fld_31, v_na); (fld_32, v_na); (fld_33, v_na); (fld_65, v_false)]);
    ([tok_2; tok_41; tok_69], Some [(fld_0, (B "yaml")); (fld_1, v_na); (fld_2, v_na); (fld_3, (B ";")); (fld_10, v_true); (fld_30, (B "yaml")); (fld_31, v_na); (fld_32, v_na); (fld_33, v_na); (fld_65, v_false)]);
    ([tok_2; tok_235], Some [(fld_3, (B ";")); (fld_10, v_true); (fld_12, v_true); (fld_40, v_true)]);
    ([tok_2; tok_207; tok_204], Some [(fld_3, (B ";")); (fld_10, v_true); (fld_12, v_true); (fld_40, v_true)]);
    ([tok_2; tok_182], Some [(fld_0, (B "nidx")); (fld_1, (bs [9]%N)); (fld_2, v_na); (fld_3, (B ";")); (fld_8, v_true); (fld_10, v_true); (fld_30, (B "nidx")); (fld_32, (bs [9]%N)); (fld_33, v_na); (fld_37, v_true)]);
    ([tok_2; tok_49; tok_236; tok_237], Some [(fld_0, (B "nidx")); (fld_1, (bs [9]%N)); (fld_2, v_na); (fld_3, (B ";")); (fld_8, v_true); (fld_10, v_true); (fld_30, (B "nidx")); (fld_32, (bs [9]%N)); (fld_33, v_na); (fld_37, v_true)]);
    ([tok_2; tok_181], Some [(fld_0, (B "nidx")); (fld_1, (B " ")); (fld_2, v_na); (fld_3, (B ";")); (fld_4, v_true); (fld_8, v_true); (fld_10, v_true); (fld_11, v_true); (fld_30, (B "nidx")); (fld_32, (B " ")); (fld_33, v_na); (fld_37, v_true)]);
    ([tok_2; tok_49; tok_236; tok_238; tok_239], Some [(fld_0, (B "nidx")); (fld_1, (B " ")); (fld_2, v_na); (fld_3, (B ";")); (fld_4, v_true); (fld_8, v_true); (fld_10, v_true); (fld_11, v_true); (fld_30, (B "nidx")); (fld_32, (B " ")); (fld_33, v_na); (fld_37, v_true)]);
    ([tok_263], Some [(fld_3, (bs [27]%N)); (fld_10, v_true)]);
    ([tok_264], Some [(fld_3, (bs [27]%N)); (fld_10, v_true)]);
    ([tok_265], Some [(fld_3, (bs [3]%N)); (fld_10, v_true)]);
    ([tok_266], Some [(fld_3, (bs [3]%N)); (fld_10, v_true)]);
    ([tok_267], Some [(fld_3, (bs [28]%N)); (fld_10, v_true)]);
    ([tok_268], Some [(fld_3, (bs [28]%N)); (fld_10, v_true)]);
    ([tok_269], Some [(fld_3, (bs [29]%N)); (fld_10, v_true)]);
    ([tok_270], Some [(fld_3, (bs [29]%N)); (fld_10, v_true)]);
    ([tok_271], Some [(fld_3, (bs [0]%N)); (fld_10, v_true)]);
    ([tok_272], Some [(fld_3, (bs [0]%N)); (fld_10, v_true)]);
    ([tok_273], Some [(fld_3, (bs [30]%N)); (fld_10, v_true)]);
    ([tok_274], Some [(fld_3, (bs [30]%N)); (fld_10, v_true)]);
    ([tok_275], Some [(fld_3, (bs [1]%N)); (fld_10, v_true)]);
    ([tok_276], Some [(fld_3, (bs [1]%N)); (fld_10, v_true)]);
    ([tok_277], Some [(fld_3, (bs [2]%N)); (fld_10, v_true)]);
    ([tok_278], Some [(fld_3, (bs [2]%N)); (fld_10, v_true)]);
    ([tok_279], Some [(fld_3, (bs [31]%N)); (fld_10, v_true)]);
    ([tok_280], Some [(fld_3, (bs [31]%N)); (fld_10, v_true)]);
    ([tok_281], Some [(fld_3, (bs [31]%N)); (fld_10, v_true)]);
    ([tok_282], Some [(fld_3, (bs [30]%N)); (fld_10, v_true)]);
    ([tok_283], Some [(fld_3, (B ":")); (fld_10, v_true)]);
    ([tok_4], Some [(fld_3, (B ":")); (fld_10, v_true)]);
    ([tok_284], Some [(fld_3, (B ",")); (fld_10, v_true)]);
    ([tok_285], Some [(fld_3, (B ",")); (fld_10, v_true)]);
    ([tok_286], Some [(fld_3, (bs [13]%N)); (fld_10, v_true)]);
    ([tok_287], Some [(fld_3, (bs [13]%N)); (fld_10, v_true)]);
    ([tok_288], Some [(fld_3, (bs [13;13]%N)); (fld_10, v_true)]);
    ([tok_289], Some [(fld_3, (bs [13;13]%N)); (fld_10, v_true)]);
    ([tok_290], Some [(fld_3, (bs [13;10]%N)); (fld_10, v_true)]);
    ([tok_291], Some [(fld_3, (bs [13;10]%N)); (fld_10, v_true)]);
    ([tok_292], Some [(fld_3, (bs [13;10;13;10]%N)); (fld_10, v_true)]);
    ([tok_293], Some [(fld_3, (bs [13;10;13;10]%N)); (fld_10, v_true)]);
    ([tok_294], Some [(fld_3, (B "=")); (fld_10, v_true)]);
    ([tok_295], Some [(fld_3, (B "=")); (fld_10, v_true)]);
    ([tok_296], Some [(fld_10, v_true)]);
    ([tok_297], Some [(fld_10, v_true)]);
    ([tok_298], Some [(fld_3, (bs [10;10]%N)); (fld_10, v_true)]);
    ([tok_299], Some [(fld_3, (bs [10;10]%N)); (fld_10, v_true)]);
    ([tok_300], Some [(fld_10, v_true)]);
    ([tok_301], Some [(fld_3, (B "|")); (fld_10, v_true)]);
    ([tok_302], Some [(fld_3, (B "|")); (fld_10, v_true)]);
    ([tok_214], Some [(fld_3, (B ";")); (fld_10, v_true)]);
    ([tok_2], Some [(fld_3, (B ";")); (fld_10, v_true)]);
    ([tok_303], Some [(fld_3, (B "/")); (fld_10, v_true)]);
    ([tok_304], Some [(fld_3, (B "/")); (fld_10, v_true)]);
    ([tok_238], Some [(fld_3, (B " ")); (fld_10, v_true)]);
    ([tok_305], Some [(fld_3, (B " ")); (fld_10, v_true)]);
    ([tok_237], Some [(fld_3, (bs [9]%N)); (fld_10, v_true)]);
    ([tok_306], Some [(fld_3, (bs [9]%N)); (fld_10, v_true)]);
    ([tok_307], Some [(fld_3, (bs [226;144;159]%N)); (fld_10, v_true)]);
    ([tok_308], Some [(fld_3, (bs [226;144;159]%N)); (fld_10, v_true)]);
    ([tok_309], Some [(fld_3, (bs [226;144;158]%N)); (fld_10, v_true)]);
    ([tok_310], Some [(fld_3, (bs [226;144;158]%N)); (fld_10, v_true)])]);
  (tok_8, [
    ([tok_2; tok_84], Some [(fld_0, (B "csv")); (fld_2, v_na); (fld_10, v_true); (fld_30, (B "pprint")); (fld_31, (B ";")); (fld_32, (B " ")); (fld_33, v_na); (fld_39, v_true); (fld_41, v_true)]);
    ([tok_2; tok_24; tok_62; tok_233], Some [(fld_0, (B "csv")); (fld_2, v_na); (fld_30, (B "pprint")); (fld_31, (B ";")); (fld_32, (B " ")); (fld_33, v_na); (fld_39, v_true); (fld_41, v_true)]);
    ([tok_2; tok_12], Some [(fld_0, (B "csv")); (fld_2, v_na); (fld_30, (B "csv")); (fld_31, (B ";")); (fld_33, v_na); (fld_39, v_true)]);
    ([tok_2; tok_24; tok_53], Some [(fld_0, (B "csv")); (fld_2, v_na); (fld_30, (B "csv")); (fld_31, (B ";")); (fld_33, v_na); (fld_39, v_true)]);
    ([tok_2; tok_85], Some [(fld_0, (B "csv")); (fld_2, v_na); (fld_10, v_true); (fld_31, (B ";")); (fld_39, v_true)]);
    ([tok_2; tok_24; tok_56], Some [(fld_0, (B "csv")); (fld_2, v_na); (fld_31, (B ";")); (fld_39, v_true)]);
    ([tok_2; tok_86], Some [(fld_0, (B "csv")); (fld_2, v_na); (fld_10, v_true); (fld_30, (B "json")); (fld_31, (B ";")); (fld_32, v_na); (fld_33, v_na); (fld_39, v_true); (fld_65, v_false); (fld_66, v_true)]);
    ([tok_2; tok_24; tok_57], Some [(fld_0, (B "csv")); (fld_2, v_na); (fld_30, (B "json")); (fld_31, (B ";")); (fld_32, v_na); (fld_33, v_na); (fld_39, v_true); (fld_65, v_false); (fld_66, v_true)]);
    ([tok_2; tok_87], Some [(fld_0, (B "csv")); (fld_2, v_na); (fld_10, v_true); (fld_30, (B "jsonl")); (fld_31, (B ";")); (fld_32, (B "")); (fld_33, (B "")); (fld_39, v_true); (fld_65, v_false); (fld_66, v_true)]);
    ([tok_2; tok_24; tok_58], Some [(fld_0, (B "csv")); (fld_2, v_na); (fld_30, (B "jsonl")); (fld_31, (B ";")); (fld_32, (B "")); (fld_33, (B "")); (fld_39, v_true); (fld_65, v_false); (fld_66, v_true)]);
    ([tok_2; tok_88], Some [(fld_0, (B "csv")); (fld_2, v_na); (fld_10, v_true); (fld_30, (B "markdown")); (fld_31, (B ";")); (fld_32, (B " ")); (fld_33, v_na); (fld_39, v_true)]);
    ([tok_2; tok_24; tok_59], Some [(fld_0, (B "csv")); (fld_2, v_na); (fld_30, (B "markdown")); (fld_31, (B ";")); (fld_32, (B " ")); (fld_33, v_na); (fld_39, v_true)]);
    ([tok_2; tok_89], Some [(fld_0, (B "csv")); (fld_2, v_na); (fld_10, v_true); (fld_30, (B "nidx")); (fld_31, (B ";")); (fld_32, (B " ")); (fld_33, v_na); (fld_37, v_true); (fld_39, v_true)]);
    ([tok_2; tok_24; tok_61], Some [(fld_0, (B "csv")); (fld_2, v_na); (fld_30, (B "nidx")); (fld_31, (B ";")); (fld_32, (B " ")); (fld_33, v_na); (fld_37, v_true); (fld_39, v_true)]);
    ([tok_2; tok_90], Some [(fld_0, (B "csv")); (fld_2, v_na); (fld_10, v_true); (fld_30, (B "pprint")); (fld_31, (B ";")); (fld_32, (B " ")); (fld_33, v_na); (fld_39, v_true)]);
    ([tok_2; tok_24; tok_62], Some [(fld_0, (B "csv")); (fld_2, v_na); (fld_30, (B "pprint")); (fld_31, (B ";")); (fld_32, (B " ")); (fld_33, v_na); (fld_39, v_true)]);
    ([tok_2; tok_91], Some [(fld_0, (B "csv")); (fld_2, v_na); (fld_10, v_true); (fld_30, (B "tsv")); (fld_31, (B ";")); (fld_32, (bs [9]%N)); (fld_33, v_na); (fld_37, v_true); (fld_39, v_true)]);
    ([tok_2; tok_24; tok_64], Some [(fld_0, (B "csv")); (fld_2, v_na); (fld_30, (B "tsv")); (fld_31, (B ";")); (fld_32, (bs [9]%N)); (fld_33, v_na); (fld_37, v_true); (fld_39, v_true)]);
    ([tok_2; tok_92], Some [(fld_0, (B "csv")); (fld_2, v_na); (fld_10, v_true); (fld_30, (B "xtab")); (fld_31, (B ";")); (fld_32, (bs [10]%N)); (fld_33, (B " ")); (fld_39, v_true)]);
    ([tok_2; tok_24; tok_68], Some [(fld_0, (B "csv")); (fld_2, v_na); (fld_30, (B "xtab")); (fld_31, (B ";")); (fld_32, (bs [10]%N)); (fld_33, (B " ")); (fld_39, v_true)]);
    ([tok_2; tok_93], Some [(fld_0, (B "csv")); (fld_2, v_na); (fld_10, v_true); (fld_30, (B "yaml")); (fld_31, (B ";")); (fld_32, v_na); (fld_33, v_na); (fld_39, v_true); (fld_65, v_false); (fld_66, v_true)]);
    ([tok_2; tok_24; tok_69], Some [(fld_0, (B "csv")); (fld_2, v_na); (fld_30, (B "yaml")); (fld_31, (B ";")); (fld_32, v_na); (fld_33, v_na); (fld_39, v_true); (fld_65, v_false); (fld_66, v_true)]);
    ([tok_2; tok_94], Some [(fld_30, (B "pprint")); (fld_31, (B ";")); (fld_32, (B " ")); (fld_33, v_na); (fld_39, v_true); (fld_41, v_true)]);
    ([tok_2; tok_27; tok_62; tok_233], Some [(fld_30, (B "pprint")); (fld_31, (B ";")); (fld_32, (B " ")); (fld_33, v_na); (fld_39, v_true); (fld_41, v_true)]);
    ([tok_2; tok_95], Some [(fld_30, (B "csv")); (fld_31, (B ";")); (fld_33, v_na); (fld_39, v_true)]);
    ([tok_2; tok_27; tok_53], Some [(fld_30, (B "csv")); (fld_31, (B ";")); (fld_33, v_na); (fld_39, v_true)]);
    ([tok_2; tok_16], Some [(fld_31, (B ";")); (fld_39, v_true)]);
    ([tok_2; tok_27; tok_56], Some [(fld_31, (B ";")); (fld_39, v_true)]);
    ([tok_2; tok_96], Some [(fld_30, (B "json")); (fld_31, (B ";")); (fld_32, v_na); (fld_33, v_na); (fld_39, v_true); (fld_65, v_false); (fld_66, v_true)]);
    ([tok_2; tok_27; tok_57], Some [(fld_30, (B "json")); (fld_31, (B ";")); (fld_32, v_na); (fld_33, v_na); (fld_39, v_true); (fld_65, v_false); (fld_66, v_true)]);
    ([tok_2; tok_97], Some [(fld_30, (B "jsonl")); (fld_31, (B ";")); (fld_32, (B "")); (fld_33, (B "")); (fld_39, v_true); (fld_65, v_false); (fld_66, v_true)]);
    ([tok_2; tok_27; tok_58], Some [(fld_30, (B "jsonl")); (fld_31, (B ";")); (fld_32, (B "")); (fld_33, (B "")); (fld_39, v_true); (fld_65, v_false); (fld_66, v_true)]);
    ([tok_2; tok_98], Some [(fld_30, (B "markdown")); (fld_31, (B ";")); (fld_32, (B " ")); (fld_33, v_na); (fld_39, v_true)]);
    ([tok_2; tok_27; tok_59], Some [(fld_30, (B "markdown")); (fld_31, (B ";")); (fld_32, (B " ")); (fld_33, v_na); (fld_39, v_true)]);
    ([tok_2; tok_99], Some [(fld_30, (B "nidx")); (fld_31, (B ";")); (fld_32, (B " ")); (fld_33, v_na); (fld_37, v_true); (fld_39, v_true)]);
    ([tok_2; tok_27; tok_61], Some [(fld_30, (B "nidx")); (fld_31, (B ";")); (fld_32, (B " ")); (fld_33, v_na); (fld_37, v_true); (fld_39, v_true)]);
    ([tok_2; tok_100], Some [(fld_30, (B "pprint")); (fld_31, (B ";")); (fld_32, (B " ")); (fld_33, v_na); (fld_39, v_true)]);
    ([tok_2; tok_27; tok_62], Some [(fld_30, (B "pprint")); (fld_31, (B ";")); (fld_32, (B " ")); (fld_33, v_na); (fld_39, v_true)]);
    ([tok_2; tok_101], Some [(fld_30, (B "tsv")); (fld_31, (B ";")); (fld_32, (bs [9]%N)); (fld_33, v_na); (fld_37, v_true); (fld_39, v_true)]);
    ([tok_2; tok_27; tok_64], Some [(fld_30, (B "tsv")); (fld_31, (B ";")); (fld_32, (bs [9]%N)); (fld_33, v_na); (fld_37, v_true); (fld_39, v_true)]);
    ([tok_2; tok_102], Some [(fld_30, (B "xtab")); (fld_31, (B ";")); (fld_32, (bs [10]%N)); (fld_33, (B " ")); (fld_39, v_true)]);
    ([tok_2; tok_27; tok_68], Some [(fld_30, (B "xtab")); (fld_31, (B ";")); (fld_32, (bs [10]%N)); (fld_33, (B " ")); (fld_39, v_true)]);
    ([tok_2; tok_103], Some [(fld_30, (B "yaml")); (fld_31, (B ";")); (fld_32, v_na); (fld_33, v_na); (fld_39, v_true); (fld_65, v_false); (fld_66, v_true)]);
    ([tok_2; tok_27; tok_69], Some [(fld_30, (B "yaml")); (fld_31, (B ";")); (fld_32, v_na); (fld_33, v_na); (fld_39, v_true); (fld_65, v_false); (fld_66, v_true)]);
    ([tok_2; tok_104], Some [(fld_0, (B "json")); (fld_1, v_na); (fld_2, v_na); (fld_3, v_na); (fld_30, (B "pprint")); (fld_31, (B ";")); (fld_32, (B " ")); (fld_33, v_na); (fld_39, v_true); (fld_41, v_true)]);
    ([tok_2; tok_29; tok_62; tok_233], Some [(fld_0, (B "json")); (fld_1, v_na); (fld_2, v_na); (fld_3, v_na); (fld_30, (B "pprint")); (fld_31, (B ";")); (fld_32, (B " ")); (fld_33, v_na); (fld_39, v_true); (fld_41, v_true)]);
    ([tok_2; tok_105], Some [(fld_0, (B "json")); (fld_1, v_na); (fld_2, v_na); (fld_3, v_na); (fld_30, (B "csv")); (fld_31, (B ";")); (fld_33, v_na); (fld_39, v_true)]);
    ([tok_2; tok_29; tok_53], Some [(fld_0, (B "json")); (fld_1, v_na); (fld_2, v_na); (fld_3, v_na); (fld_30, (B "csv")); (fld_31, (B ";")); (fld_33, v_na); (fld_39, v_true)]);
    ([tok_2; tok_106], Some [(fld_0, (B "json")); (fld_1, v_na); (fld_2, v_na); (fld_3, v_na); (fld_31, (B ";")); (fld_39, v_true)]);
    ([tok_2; tok_29; tok_56], Some [(fld_0, (B "json")); (fld_1, v_na); (fld_2, v_na); (fld_3, v_na); (fld_31, (B ";")); (fld_39, v_true)]);
    ([tok_2; tok_44], Some [(fld_0, (B "json")); (fld_1, v_na); (fld_2, v_na); (fld_3, v_na); (fld_30, (B "json")); (fld_31, (B ";")); (fld_32, v_na); (fld_33, v_na); (fld_39, v_true); (fld_65, v_false)]);
    ([tok_2; tok_29; tok_57], Some [(fld_0, (B "json")); (fld_1, v_na); (fld_2, v_na); (fld_3, v_na); (fld_30, (B "json")); (fld_31, (B ";")); (fld_32, v_na); (fld_33, v_na); (fld_39, v_true); (fld_65, v_false)]);
    ([tok_2; tok_107], Some [(fld_0, (B "json")); (fld_1, v_na); (fld_2, v_na); (fld_3, v_na); (fld_30, (B "jsonl")); (fld_31, (B ";")); (fld_32, (B "")); (fld_33, (B "")); (fld_39, v_true); (fld_65, v_false)]);
    ([tok_2; tok_29; tok_58], Some [(fld_0, (B "json")); (fld_1, v_na); (fld_2, v_na); (fld_3, v_na); (fld_30, (B "jsonl")); (fld_31, (B ";")); (fld_32, (B "")); (fld_33, (B "")); (fld_39, v_true); (fld_65, v_false)]);
    ([tok_2; tok_108], Some [(fld_0, (B "json")); (fld_1, v_na); (fld_2, v_na); (fld_3, v_na); (fld_30, (B "markdown")); (fld_31, (B ";")); (fld_32, (B " ")); (fld_33, v_na); (fld_39, v_true)]);
    ([tok_2; tok_29; tok_59], Some [(fld_0, (B "json")); (fld_1, v_na); (fld_2, v_na); (fld_3, v_na); (fld_30, (B "markdown")); (fld_31, (B ";")); (fld_32, (B " ")); (fld_33, v_na); (fld_39, v_true)]);
    ([tok_2; tok_109], Some [(fld_0, (B "json")); (fld_1, v_na); (fld_2, v_na); (fld_3, v_na); (fld_30, (B "nidx")); (fld_31, (B ";")); (fld_32, (B " ")); (fld_33, v_na); (fld_37, v_true); (fld_39, v_true)]);
    ([tok_2; tok_29; tok_61], Some [(fld_0, (B "json")); (fld_1, v_na); (fld_2, v_na); (fld_3, v_na); (fld_30, (B "nidx")); (fld_31, (B ";")); (fld_32, (B " ")); (fld_33, v_na); (fld_37, v_true); (fld_39, v_true)]);
    ([tok_2; tok_110], Some [(fld_0, (B "json")); (fld_1, v_na); (fld_2, v_na); (fld_3, v_na); (fld_30, (B "pprint")); (fld_31, (B ";")); (fld_32, (B " ")); (fld_33, v_na); (fld_39, v_true)]);
    ([tok_2; tok_29; tok_62], Some [(fld_0, (B "json")); (fld_1, v_na); (fld_2, v_na); (fld_3, v_na); (fld_30, (B "pprint")); (fld_31, (B ";")); (fld_32, (B " ")); (fld_33, v_na); (fld_39, v_true)]);
    ([tok_2; tok_111], Some [(fld_0, (B "json")); (fld_1, v_na); (fld_2, v_na); (fld_3, v_na); (fld_30, (B "tsv")); (fld_31, (B ";")); (fld_32, (bs [9]%N)); (fld_33, v_na); (fld_37, v_true); (fld_39, v_true)]);
    ([tok_2; tok_29; tok_64], Some [(fld_0, (B "json")); (fld_1, v_na); (fld_2, v_na); (fld_3, v_na); (fld_30, (B "tsv")); (fld_31, (B ";")); (fld_32, (bs [9]%N)); (fld_33, v_na); (fld_37, v_true); (fld_39, v_true)]);
    ([tok_2; tok_112], Some [(fld_0, (B "json")); (fld_1, v_na); (fld_2, v_na); (fld_3, v_na); (fld_30, (B "xtab")); (fld_31, (B ";")); (fld_32, (bs [10]%N)); (fld_33, (B " ")); (fld_39, v_true)]);
    ([tok_2; tok_29; tok_68], Some [(fld_0, (B "json")); (fld_1, v_na); (fld_2, v_na); (fld_3, v_na); (fld_30, (B "xtab")); (fld_31, (B ";")); (fld_32, (bs [10]%N)); (fld_33, (B " ")); (fld_39, v_true)]);
    ([tok_2; tok_113], Some [(fld_0, (B "json")); (fld_1, v_na); (fld_2, v_na); (fld_3, v_na); (fld_30, (B "yaml")); (fld_31, (B ";")); (fld_32, v_na); (fld_33, v_na); (fld_39, v_true); (fld_65, v_false)]);
    ([tok_2; tok_29; tok_69], Some [(fld_0, (B "json")); (fld_1, v_na); (fld_2, v_na); (fld_3, v_na); (fld_30, (B "yaml")); (fld_31, (B ";")); (fld_32, v_na); (fld_33, v_na); (fld_39, v_true); (fld_65, v_false)]);
    ([tok_2; tok_114], Some [(fld_0, (B "json")); (fld_1, v_na); (fld_2, v_na); (fld_3, v_na); (fld_30, (B "pprint")); (fld_31, (B ";")); (fld_32, (B " ")); (fld_33, v_na); (fld_39, v_true); (fld_41, v_true)]);
    ([tok_2; tok_30; tok_62; tok_233], Some [(fld_0, (B "json")); (fld_1, v_na); (fld_2, v_na); (fld_3, v_na); (fld_30, (B "pprint")); (fld_31, (B ";")); (fld_32, (B " ")); (fld_33, v_na); (fld_39, v_true); (fld_41, v_true)]);
    ([tok_2; tok_115], Some [(fld_0, (B "json")); (fld_1, v_na); (fld_2, v_na); (fld_3, v_na); (fld_30, (B "csv")); (fld_31, (B ";")); (fld_33, v_na); (fld_39, v_true)]);
    ([tok_2; tok_30; tok_53], Some [(fld_0, (B "json")); (fld_1, v_na); (fld_2, v_na); (fld_3, v_na); (fld_30, (B "csv")); (fld_31, (B ";")); (fld_33, v_na); (fld_39, v_true)]);
    ([tok_2; tok_116], Some [(fld_0, (B "json")); (fld_1, v_na); (fld_2, v_na); (fld_3, v_na); (fld_31, (B ";")); (fld_39, v_true)]);
    ([tok_2; tok_30; tok_56], Some [(fld_0, (B "json")); (fld_1, v_na); (fld_2, v_na); (fld_3, v_na); (fld_31, (B ";")); (fld_39, v_true)]);
    ([tok_2; tok_117], Some [(fld_0, (B "json")); (fld_1, v_na); (fld_2, v_na); (fld_3, v_na); (fld_30, (B "json")); (fld_31, (B ";")); (fld_32, v_na); (fld_33, v_na); (fld_39, v_true); (fld_65, v_false)]);
    ([tok_2; tok_30; tok_57], Some [(fld_0, (B "json")); (fld_1, v_na); (fld_2, v_na); (fld_3, v_na); (fld_30, (B "json")); (fld_31, (B ";")); (fld_32, v_na); (fld_33, v_na); (fld_39, v_true); (fld_65, v_false)]);
    ([tok_2; tok_46], Some [(fld_0, (B "json")); (fld_1, v_na); (fld_2, v_na); (fld_3, v_na); (fld_30, (B "jsonl")); (fld_31, (B ";")); (fld_32, (B "")); (fld_33, (B "")); (fld_39, v_true); (fld_65, v_false)]);
    ([tok_2; tok_30; tok_58], Some [(fld_0, (B "json")); (fld_1, v_na); (fld_2, v_na); (fld_3, v_na); (fld_30, (B "jsonl")); (fld_31, (B ";")); (fld_32, (B "")); (fld_33, (B "")); (fld_39, v_true); (fld_65, v_false)]);
    ([tok_2; tok_118], Some [(fld_0, (B "json")); (fld_1, v_na); (fld_2, v_na); (fld_3, v_na); (fld_30, (B "markdown")); (fld_31, (B ";")); (fld_32, (B " ")); (fld_33, v_na); (fld_39, v_true)]);
    ([tok_2; tok_30; tok_59], Some [(fld_0, (B "json")); (fld_1, v_na); (fld_2, v_na); (fld_3, v_na); (fld_30, (B "markdown")); (fld_31, (B ";")); (fld_32, (B " ")); (fld_33, v_na); (fld_39, v_true)]);
    ([tok_2; tok_119], Some [(fld_0, (B "json")); (fld_1, v_na); (fld_2, v_na); (fld_3, v_na); (fld_30, (B "nidx")); (fld_31, (B ";")); (fld_32, (B " ")); (fld_33, v_na); (fld_37, v_true); (fld_39, v_true)]);
    ([tok_2; tok_30; tok_61], Some [(fld_0, (B "json")); (fld_1, v_na); (fld_2, v_na); (fld_3, v_na); (fld_30, (B "nidx")); (fld_31, (B ";")); (fld_32, (B " ")); (fld_33, v_na); (fld_37, v_true); (fld_39, v_true)]);
    ([tok_2; tok_120], Some [(fld_0, (B "json")); (fld_1, v_na); (fld_2, v_na); (fld_3, v_na); (fld_30, (B "pprint")); (fld_31, (B ";")); (fld_32, (B " ")); (fld_33, v_na); (fld_39, v_true)]);
    ([tok_2; tok_30; tok_62], Some [(fld_0, (B "json")); (fld_1, v_na); (fld_2, v_na); (fld_3, v_na); (fld_30, (B "pprint")); (fld_31, (B ";")); (fld_32, (B " ")); (fld_33, v_na); (fld_39, v_true)]);
    ([tok_2; tok_121], Some [(fld_0, (B "json")); (fld_1, v_na); (fld_2, v_na); (fld_3, v_na); (fld_30, (B "tsv")); (fld_31, (B ";")); (fld_32, (bs [9]%N)); (fld_33, v_na); (fld_37, v_true); (fld_39, v_true)]);
    ([tok_2; tok_30; tok_64], Some [(fld_0, (B "json")); (fld_1, v_na); (fld_2, v_na); (fld_3, v_na); (fld_30, (B "tsv")); (fld_31, (B ";")); (fld_32, (bs [9]%N)); (fld_33, v_na); (fld_37, v_true); (fld_39, v_true)]);
    ([tok_2; tok_122], Some [(fld_0, (B "json")); (fld_1, v_na); (fld_2, v_na); (fld_3, v_na); (fld_30, (B "xtab")); (fld_31, (B ";")); (fld_32, (bs [10]%N)); (fld_33, (B " ")); (fld_39, v_true)]);
    ([tok_2; tok_30; tok_68], Some [(fld_0, (B "json")); (fld_1, v_na); (fld_2, v_na); (fld_3, v_na); (fld_30, (B "xtab")); (fld_31, (B ";")); (fld_32, (bs [10]%N)); (fld_33, (B " ")); (fld_39, v_true)]);
    ([tok_2; tok_123], Some [(fld_0, (B "json")); (fld_1, v_na); (fld_2, v_na); (fld_3, v_na); (fld_30, (B "yaml")); (fld_31, (B ";")); (fld_32, v_na); (fld_33, v_na); (fld_39, v_true); (fld_65, v_false)]);
    ([tok_2; tok_30; tok_69], Some [(fld_0, (B "json")); (fld_1, v_na); (fld_2, v_na); (fld_3, v_na); (fld_30, (B "yaml")); (fld_31, (B ";")); (fld_32, v_na); (fld_33, v_na); (fld_39, v_true); (fld_65, v_false)]);
    ([tok_2; tok_124], Some [(fld_0, (B "markdown")); (fld_1, (B " ")); (fld_2, v_na); (fld_30, (B "csv")); (fld_31, (B ";")); (fld_33, v_na); (fld_39, v_true)]);
    ([tok_2; tok_31; tok_53], Some [(fld_0, (B "markdown")); (fld_1, (B " ")); (fld_2, v_na); (fld_30, (B "csv")); (fld_31, (B ";")); (fld_33, v_na); (fld_39, v_true)]);
    ([tok_2; tok_125], Some [(fld_0, (B "markdown")); (fld_1, (B " ")); (fld_2, v_na); (fld_31, (B ";")); (fld_39, v_true)]);
    ([tok_2; tok_31; tok_56], Some [(fld_0, (B "markdown")); (fld_1, (B " ")); (fld_2, v_na); (fld_31, (B ";")); (fld_39, v_true)]);
    ([tok_2; tok_126], Some [(fld_0, (B "markdown")); (fld_1, (B " ")); (fld_2, v_na); (fld_30, (B "json")); (fld_31, (B ";")); (fld_32, v_na); (fld_33, v_na); (fld_39, v_true); (fld_65, v_false); (fld_66, v_true)]);
    ([tok_2; tok_31; tok_57], Some [(fld_0, (B "markdown")); (fld_1, (B " ")); (fld_2, v_na); (fld_30, (B "json")); (fld_31, (B ";")); (fld_32, v_na); (fld_33, v_na); (fld_39, v_true); (fld_65, v_false); (fld_66, v_true)]);
    ([tok_2; tok_127], Some [(fld_0, (B "markdown")); (fld_1, (B " ")); (fld_2, v_na); (fld_30, (B "jsonl")); (fld_31, (B ";")); (fld_32, (B "")); (fld_33, (B "")); (fld_39, v_true); (fld_65, v_false); (fld_66, v_true)]);
    ([tok_2; tok_31; tok_58], Some [(fld_0, (B "markdown")); (fld_1, (B " ")); (fld_2, v_na); (fld_30, (B "jsonl")); (fld_31, (B ";")); (fld_32, (B "")); (fld_33, (B "")); (fld_39, v_true); (fld_65, v_false); (fld_66, v_true)]);
    ([tok_2; tok_128], Some [(fld_0, (B "markdown")); (fld_1, (B " ")); (fld_2, v_na); (fld_30, (B "nidx")); (fld_31, (B ";")); (fld_32, (B " ")); (fld_33, v_na); (fld_37, v_true); (fld_39, v_true)]);
    ([tok_2; tok_31; tok_61], Some [(fld_0, (B "markdown")); (fld_1, (B " ")); (fld_2, v_na); (fld_30, (B "nidx")); (fld_31, (B ";")); (fld_32, (B " ")); (fld_33, v_na); (fld_37, v_true); (fld_39, v_true)]);
    ([tok_2; tok_129], Some [(fld_0, (B "markdown")); (fld_1, (B " ")); (fld_2, v_na); (fld_30, (B "pprint")); (fld_31, (B ";")); (fld_32, (B " ")); (fld_33, v_na); (fld_39, v_true)]);
    ([tok_2; tok_31; tok_62], Some [(fld_0, (B "markdown")); (fld_1, (B " ")); (fld_2, v_na); (fld_30, (B "pprint")); (fld_31, (B ";")); (fld_32, (B " ")); (fld_33, v_na); (fld_39, v_true)]);
    ([tok_2; tok_130], Some [(fld_0, (B "markdown")); (fld_1, (B " ")); (fld_2, v_na); (fld_30, (B "tsv")); (fld_31, (B ";")); (fld_32, (bs [9]%N)); (fld_33, v_na); (fld_37, v_true); (fld_39, v_true)]);
    ([tok_2; tok_31; tok_64], Some [(fld_0, (B "markdown")); (fld_1, (B " ")); (fld_2, v_na); (fld_30, (B "tsv")); (fld_31, (B ";")); (fld_32, (bs [9]%N)); (fld_33, v_na); (fld_37, v_true); (fld_39, v_true)]);
    ([tok_2; tok_131], Some [(fld_0, (B "markdown")); (fld_1, (B " ")); (fld_2, v_na); (fld_30, (B "xtab")); (fld_31, (B ";")); (fld_32, (bs [10]%N)); (fld_33, (B " ")); (fld_39, v_true)]);
    ([tok_2; tok_31; tok_68], Some [(fld_0, (B "markdown")); (fld_1, (B " ")); (fld_2, v_na); (fld_30, (B "xtab")); (fld_31, (B ";")); (fld_32, (bs [10]%N)); (fld_33, (B " ")); (fld_39, v_true)]);
    ([tok_2; tok_132], Some [(fld_0, (B "markdown")); (fld_1, (B " ")); (fld_2, v_na); (fld_30, (B "yaml")); (fld_31, (B ";")); (fld_32, v_na); (fld_33, v_na); (fld_39, v_true); (fld_65, v_false); (fld_66, v_true)]);
    ([tok_2; tok_31; tok_69], Some [(fld_0, (B "markdown")); (fld_1, (B " ")); (fld_2, v_na); (fld_30, (B "yaml")); (fld_31, (B ";")); (fld_32, v_na); (fld_33, v_na); (fld_39, v_true); (fld_65, v_false); (fld_66, v_true)]);
    ([tok_2; tok_198], Some [(fld_0, (B "markdown")); (fld_1, (B " ")); (fld_2, v_na); (fld_30, (B "markdown")); (fld_31, (B ";")); (fld_32, (B " ")); (fld_33, v_na); (fld_39, v_true); (fld_45, v_true)]);
    ([tok_2; tok_47; tok_199], Some [(fld_0, (B "markdown")); (fld_1, (B " ")); (fld_2, v_na); (fld_30, (B "markdown")); (fld_31, (B ";")); (fld_32, (B " ")); (fld_33, v_na); (fld_39, v_true); (fld_45, v_true)]);
    ([tok_2; tok_197], Some [(fld_0, (B "markdown")); (fld_1, (B " ")); (fld_2, v_na); (fld_30, (B "markdown")); (fld_31, (B ";")); (fld_32, (B " ")); (fld_33, v_na); (fld_39, v_true); (fld_45, v_true)]);
    ([tok_2; tok_133], Some [(fld_0, (B "nidx")); (fld_1, (B " ")); (fld_2, v_na); (fld_5, (B "([ \t])+")); (fld_30, (B "pprint")); (fld_31, (B ";")); (fld_32, (B " ")); (fld_33, v_na); (fld_39, v_true); (fld_41, v_true)]);
    ([tok_2; tok_33; tok_62; tok_233], Some [(fld_0, (B "nidx")); (fld_1, (B " ")); (fld_2, v_na); (fld_5, (B "([ \t])+")); (fld_30, (B "pprint")); (fld_31, (B ";")); (fld_32, (B " ")); (fld_33, v_na); (fld_39, v_true); (fld_41, v_true)]);
    ([tok_2; tok_134], Some [(fld_0, (B "nidx")); (fld_1, (B " ")); (fld_2, v_na); (fld_5, (B "([ \t])+")); (fld_30, (B "csv")); (fld_31, (B ";")); (fld_33, v_na); (fld_39, v_true)]);
    ([tok_2; tok_33; tok_53], Some [(fld_0, (B "nidx")); (fld_1, (B " ")); (fld_2, v_na); (fld_5, (B "([ \t])+")); (fld_30, (B "csv")); (fld_31, (B ";")); (fld_33, v_na); (fld_39, v_true)]);
    ([tok_2; tok_135], Some [(fld_0, (B "nidx")); (fld_1, (B " ")); (fld_2, v_na); (fld_5, (B "([ \t])+")); (fld_31, (B ";")); (fld_39, v_true)]);
    ([tok_2; tok_33; tok_56], Some [(fld_0, (B "nidx")); (fld_1, (B " ")); (fld_2, v_na); (fld_5, (B "([ \t])+")); (fld_31, (B ";")); (fld_39, v_true)]);
    ([tok_2; tok_136], Some [(fld_0, (B "nidx")); (fld_1, (B " ")); (fld_2, v_na); (fld_5, (B "([ \t])+")); (fld_30, (B "json")); (fld_31, (B ";")); (fld_32, v_na); (fld_33, v_na); (fld_39, v_true); (fld_65, v_false); (fld_66, v_true)]);
    ([tok_2; tok_33; tok_57], Some [(fld_0, (B "nidx")); (fld_1, (B " ")); (fld_2, v_na); (fld_5, (B "([ \t])+")); (fld_30, (B "json")); (fld_31, (B ";")); (fld_32, v_na); (fld_33, v_na); (fld_39, v_true); (fld_65, v_false); (fld_66, v_true)]);
    ([tok_2; tok_137], Some [(fld_0, (B "nidx")); (fld_1, (B " ")); (fld_2, v_na); (fld_5, (B "([ \t])+")); (fld_30, (B "jsonl")); (fld_31, (B ";")); (fld_32, (B "")); (fld_33, (B "")); (fld_39, v_true); (fld_65, v_false); (fld_66, v_true)]);
    ([tok_2; tok_33; tok_58], Some [(fld_0, (B "nidx")); (fld_1, (B " ")); (fld_2, v_na); (fld_5, (B "([ \t])+")); (fld_30, (B "jsonl")); (fld_31, (B ";")); (fld_32, (B "")); (fld_33, (B "")); (fld_39, v_true); (fld_65, v_false); (fld_66, v_true)]);
    ([tok_2; tok_138], Some [(fld_0, (B "nidx")); (fld_1, (B " ")); (fld_2, v_na); (fld_5, (B "([ \t])+")); (fld_30, (B "markdown")); (fld_31, (B ";")); (fld_32, (B " ")); (fld_33, v_na); (fld_39, v_true)]);
    ([tok_2; tok_33; tok_59], Some [(fld_0, (B "nidx")); (fld_1, (B " ")); (fld_2, v_na); (fld_5, (B "([ \t])+")); (fld_30, (B "markdown")); (fld_31, (B ";")); (fld_32, (B " ")); (fld_33, v_na); (fld_39, v_true)]);
    ([tok_2; tok_50], Some [(fld_0, (B "nidx")); (fld_1, (B " ")); (fld_2, v_na); (fld_5, (B "([ \t])+")); (fld_30, (B "nidx")); (fld_31, (B ";")); (fld_32, (B " ")); (fld_33, v_na); (fld_37, v_true); (fld_39, v_true)]);
    ([tok_2; tok_33; tok_61], Some [(fld_0, (B "nidx")); (fld_1, (B " ")); (fld_2, v_na); (fld_5, (B "([ \t])+")); (fld_30, (B "nidx")); (fld_31, (B ";")); (fld_32, (B " ")); (fld_33, v_na); (fld_37, v_true); (fld_39, v_true)]);
    ([tok_2; tok_139], Some [(fld_0, (B "nidx")); (fld_1, (B " ")); (fld_2, v_na); (fld_5, (B "([ \t])+")); (fld_30, (B "pprint")); (fld_31, (B ";")); (fld_32, (B " ")); (fld_33, v_na); (fld_39, v_true)]);
    ([tok_2; tok_33; tok_62], Some [(fld_0, (B "nidx")); (fld_1, (B " ")); (fld_2, v_na); (fld_5, (B "([ \t])+")); (fld_30, (B "pprint")); (fld_31, (B ";")); (fld_32, (B " ")); (fld_33, v_na); (fld_39, v_true)]);
    ([tok_2; tok_140], Some [(fld_0, (B "nidx")); (fld_1, (B " ")); (fld_2, v_na); (fld_5, (B "([ \t])+")); (fld_30, (B "tsv")); (fld_31, (B ";")); (fld_32, (bs [9]%N)); (fld_33, v_na); (fld_37, v_true); (fld_39, v_true)]);
    ([tok_2; tok_33; tok_64], Some [(fld_0, (B "nidx")); (fld_1, (B " ")); (fld_2, v_na); (fld_5, (B "([ \t])+")); (fld_30, (B "tsv")); (fld_31, (B ";")); (fld_32, (bs [9]%N)); (fld_33, v_na); (fld_37, v_true); (fld_39, v_true)]);
    ([tok_2; tok_141], Some [(fld_0, (B "nidx")); (fld_1, (B " ")); (fld_2, v_na); (fld_5, (B "([ \t])+")); (fld_30, (B "xtab")); (fld_31, (B ";")); (fld_32, (bs [10]%N)); (fld_33, (B " ")); (fld_39, v_true)]);
    ([tok_2; tok_33; tok_68], Some [(fld_0, (B "nidx")); (fld_1, (B " ")); (fld_2, v_na); (fld_5, (B "([ \t])+")); (fld_30, (B "xtab")); (fld_31, (B ";")); (fld_32, (bs [10]%N)); (fld_33, (B " ")); (fld_39, v_true)]);
    ([tok_2; tok_142], Some [(fld_0, (B "nidx")); (fld_1, (B " ")); (fld_2, v_na); (fld_5, (B "([ \t])+")); (fld_30, (B "yaml")); (fld_31, (B ";")); (fld_32, v_na); (fld_33, v_na); (fld_39, v_true); (fld_65, v_false); (fld_66, v_true)]);
    ([tok_2; tok_33; tok_69], Some [(fld_0, (B "nidx")); (fld_1, (B " ")); (fld_2, v_na); (fld_5, (B "([ \t])+")); (fld_30, (B "yaml")); (fld_31, (B ";")); (fld_32, v_na); (fld_33, v_na); (fld_39, v_true); (fld_65, v_false); (fld_66, v_true)]);
    ([tok_2; tok_143], Some [(fld_0, (B "pprint")); (fld_1, (B " ")); (fld_2, v_na); (fld_4, v_true); (fld_8, v_true); (fld_30, (B "csv")); (fld_31, (B ";")); (fld_33, v_na); (fld_39, v_true)]);
    ([tok_2; tok_34; tok_53], Some [(fld_0, (B "pprint")); (fld_1, (B " ")); (fld_2, v_na); (fld_4, v_true); (fld_8, v_true); (fld_30, (B "csv")); (fld_31, (B ";")); (fld_33, v_na); (fld_39, v_true)]);
    ([tok_2; tok_144], Some [(fld_0, (B "pprint")); (fld_1, (B " ")); (fld_2, v_na); (fld_4, v_true); (fld_8, v_true); (fld_31, (B ";")); (fld_39, v_true)]);
    ([tok_2; tok_34; tok_56], Some [(fld_0, (B "pprint")); (fld_1, (B " ")); (fld_2, v_na); (fld_4, v_true); (fld_8, v_true); (fld_31, (B ";")); (fld_39, v_true)]);
    ([tok_2; tok_145], Some [(fld_0, (B "pprint")); (fld_1, (B " ")); (fld_2, v_na); (fld_4, v_true); (fld_8, v_true); (fld_30, (B "json")); (fld_31, (B ";")); (fld_32, v_na); (fld_33, v_na); (fld_39, v_true); (fld_65, v_false); (fld_66, v_true)]);
    ([tok_2; tok_34; tok_57], Some [(fld_0, (B "pprint")); (fld_1, (B " ")); (fld_2, v_na); (fld_4, v_true); (fld_8, v_true); (fld_30, (B "json")); (fld_31, (B ";")); (fld_32, v_na); (fld_33, v_na); (fld_39, v_true); (fld_65, v_false); (fld_66, v_true)]);
    ([tok_2; tok_146], Some [(fld_0, (B "pprint")); (fld_1, (B " ")); (fld_2, v_na); (fld_4, v_true); (fld_8, v_true); (fld_30, (B "jsonl")); (fld_31, (B ";")); (fld_32, (B "")); (fld_33, (B "")); (fld_39, v_true); (fld_65, v_false); (fld_66, v_true)]);
    ([tok_2; tok_34; tok_58], Some [(fld_0, (B "pprint")); (fld_1, (B " ")); (fld_2, v_na); (fld_4, v_true); (fld_8, v_true); (fld_30, (B "jsonl")); (fld_31, (B ";")); (fld_32, (B "")); (fld_33, (B "")); (fld_39, v_true); (fld_65, v_false); (fld_66, v_true)]);
    ([tok_2; tok_147], Some [(fld_0, (B "pprint")); (fld_1, (B " ")); (fld_2, v_na); (fld_4, v_true); (fld_8, v_true); (fld_30, (B "markdown")); (fld_31, (B ";")); (fld_32, (B " ")); (fld_33, v_na); (fld_39, v_true)]);
    ([tok_2; tok_34; tok_59], Some [(fld_0, (B "pprint")); (fld_1, (B " ")); (fld_2, v_na); (fld_4, v_true); (fld_8, v_true); (fld_30, (B "markdown")); (fld_31, (B ";")); (fld_32, (B " ")); (fld_33, v_na); (fld_39, v_true)]);
    ([tok_2; tok_148], Some [(fld_0, (B "pprint")); (fld_1, (B " ")); (fld_2, v_na); (fld_4, v_true); (fld_8, v_true); (fld_30, (B "nidx")); (fld_31, (B ";")); (fld_32, (B " ")); (fld_33, v_na); (fld_37, v_true); (fld_39, v_true)]);
    ([tok_2; tok_34; tok_61], Some [(fld_0, (B "pprint")); (fld_1, (B " ")); (fld_2, v_na); (fld_4, v_true); (fld_8, v_true); (fld_30, (B "nidx")); (fld_31, (B ";")); (fld_32, (B " ")); (fld_33, v_na); (fld_37, v_true); (fld_39, v_true)]);
    ([tok_2; tok_71], Some [(fld_0, (B "pprint")); (fld_1, (B " ")); (fld_2, v_na); (fld_4, v_true); (fld_8, v_true); (fld_30, (B "pprint")); (fld_31, (B ";")); (fld_32, (B " ")); (fld_33, v_na); (fld_39, v_true)]);
    ([tok_2; tok_34; tok_62], Some [(fld_0, (B "pprint")); (fld_1, (B " ")); (fld_2, v_na); (fld_4, v_true); (fld_8, v_true); (fld_30, (B "pprint")); (fld_31, (B ";")); (fld_32, (B " ")); (fld_33, v_na); (fld_39, v_true)]);
    ([tok_2; tok_149], Some [(fld_0, (B "pprint")); (fld_1, (B " ")); (fld_2, v_na); (fld_4, v_true); (fld_8, v_true); (fld_30, (B "tsv")); (fld_31, (B ";")); (fld_32, (bs [9]%N)); (fld_33, v_na); (fld_37, v_true); (fld_39, v_true)]);
    ([tok_2; tok_34; tok_64], Some [(fld_0, (B "pprint")); (fld_1, (B " ")); (fld_2, v_na); (fld_4, v_true); (fld_8, v_true); (fld_30, (B "tsv")); (fld_31, (B ";")); (fld_32, (bs [9]%N)); (fld_33, v_na); (fld_37, v_true); (fld_39, v_true)]);
    ([tok_2; tok_150], Some [(fld_0, (B "pprint")); (fld_1, (B " ")); (fld_2, v_na); (fld_4, v_true); (fld_8, v_true); (fld_30, (B "xtab")); (fld_31, (B ";")); (fld_32, (bs [10]%N)); (fld_33, (B " ")); (fld_39, v_true)]);
    ([tok_2; tok_34; tok_68], Some [(fld_0, (B "pprint")); (fld_1, (B " ")); (fld_2, v_na); (fld_4, v_true); (fld_8, v_true); (fld_30, (B "xtab")); (fld_31, (B ";")); (fld_32, (bs [10]%N)); (fld_33, (B " ")); (fld_39, v_true)]);
    ([tok_2; tok_151], Some [(fld_0, (B "pprint")); (fld_1, (B " ")); (fld_2, v_na); (fld_4, v_true); (fld_8, v_true); (fld_30, (B "yaml")); (fld_31, (B ";")); (fld_32, v_na); (fld_33, v_na); (fld_39, v_true); (fld_65, v_false); (fld_66, v_true)]);
    ([tok_2; tok_34; tok_69], Some [(fld_0, (B "pprint")); (fld_1, (B " ")); (fld_2, v_na); (fld_4, v_true); (fld_8, v_true); (fld_30, (B "yaml")); (fld_31, (B ";")); (fld_32, v_na); (fld_33, v_na); (fld_39, v_true); (fld_65, v_false); (fld_66, v_true)]);
    ([tok_2; tok_152], Some [(fld_0, (B "tsv")); (fld_1, (bs [9]%N)); (fld_2, v_na); (fld_30, (B "pprint")); (fld_31, (B ";")); (fld_32, (B " ")); (fld_33, v_na); (fld_39, v_true); (fld_41, v_true)]);
    ([tok_2; tok_36; tok_62; tok_233], Some [(fld_0, (B "tsv")); (fld_1, (bs [9]%N)); (fld_2, v_na); (fld_30, (B "pprint")); (fld_31, (B ";")); (fld_32, (B " ")); (fld_33, v_na); (fld_39, v_true); (fld_41, v_true)]);
    ([tok_2; tok_153], Some [(fld_0, (B "tsv")); (fld_1, (bs [9]%N)); (fld_2, v_na); (fld_30, (B "csv")); (fld_31, (B ";")); (fld_33, v_na); (fld_39, v_true)]);
    ([tok_2; tok_36; tok_53], Some [(fld_0, (B "tsv")); (fld_1, (bs [9]%N)); (fld_2, v_na); (fld_30, (B "csv")); (fld_31, (B ";")); (fld_33, v_na); (fld_39, v_true)]);
    ([tok_2; tok_154], Some [(fld_0, (B "tsv")); (fld_1, (bs [9]%N)); (fld_2, v_na); (fld_31, (B ";")); (fld_39, v_true)]);
    ([tok_2; tok_36; tok_56], Some [(fld_0, (B "tsv")); (fld_1, (bs [9]%N)); (fld_2, v_na); (fld_31, (B ";")); (fld_39, v_true)]);
    ([tok_2; tok_155], Some [(fld_0, (B "tsv")); (fld_1, (bs [9]%N)); (fld_2, v_na); (fld_30, (B "json")); (fld_31, (B ";")); (fld_32, v_na); (fld_33, v_na); (fld_39, v_true); (fld_65, v_false); (fld_66, v_true)]);
    ([tok_2; tok_36; tok_57], Some [(fld_0, (B "tsv")); (fld_1, (bs [9]%N)); (fld_2, v_na); (fld_30, (B "json")); (fld_31, (B ";")); (fld_32, v_na); (fld_33, v_na); (fld_39, v_true); (fld_65, v_false); (fld_66, v_true)]);
    ([tok_2; tok_156], Some [(fld_0, (B "tsv")); (fld_1, (bs [9]%N)); (fld_2, v_na); (fld_30, (B "jsonl")); (fld_31, (B ";")); (fld_32, (B "")); (fld_33, (B "")); (fld_39, v_true); (fld_65, v_false); (fld_66, v_true)]);
    ([tok_2; tok_36; tok_58], Some [(fld_0, (B "tsv")); (fld_1, (bs [9]%N)); (fld_2, v_na); (fld_30, (B "jsonl")); (fld_31, (B ";")); (fld_32, (B "")); (fld_33, (B "")); (fld_39, v_true); (fld_65, v_false); (fld_66, v_true)]);
    ([tok_2; tok_157], Some [(fld_0, (B "tsv")); (fld_1, (bs [9]%N)); (fld_2, v_na); (fld_30, (B "markdown")); (fld_31, (B ";")); (fld_32, (B " ")); (fld_33, v_na); (fld_39, v_true)]);
    ([tok_2; tok_36; tok_59], Some [(fld_0, (B "tsv")); (fld_1, (bs [9]%N)); (fld_2, v_na); (fld_30, (B "markdown")); (fld_31, (B ";")); (fld_32, (B " ")); (fld_33, v_na); (fld_39, v_true)]);
    ([tok_2; tok_158], Some [(fld_0, (B "tsv")); (fld_1, (bs [9]%N)); (fld_2, v_na); (fld_30, (B "nidx")); (fld_31, (B ";")); (fld_32, (B " ")); (fld_33, v_na); (fld_37, v_true); (fld_39, v_true)]);
    ([tok_2; tok_36; tok_61], Some [(fld_0, (B "tsv")); (fld_1, (bs [9]%N)); (fld_2, v_na); (fld_30, (B "nidx")); (fld_31, (B ";")); (fld_32, (B " ")); (fld_33, v_na); (fld_37, v_true); (fld_39, v_true)]);
    ([tok_2; tok_159], Some [(fld_0, (B "tsv")); (fld_1, (bs [9]%N)); (fld_2, v_na); (fld_30, (B "pprint")); (fld_31, (B ";")); (fld_32, (B " ")); (fld_33, v_na); (fld_39, v_true)]);
    ([tok_2; tok_36; tok_62], Some [(fld_0, (B "tsv")); (fld_1, (bs [9]%N)); (fld_2, v_na); (fld_30, (B "pprint")); (fld_31, (B ";")); (fld_32, (B " ")); (fld_33, v_na); (fld_39, v_true)]);
    ([tok_2; tok_75], Some [(fld_0, (B "tsv")); (fld_1, (bs [9]%N)); (fld_2, v_na); (fld_30, (B "tsv")); (fld_31, (B ";")); (fld_32, (bs [9]%N)); (fld_33, v_na); (fld_37, v_true); (fld_39, v_true)]);
    ([tok_2; tok_36; tok_64], Some [(fld_0, (B "tsv")); (fld_1, (bs [9]%N)); (fld_2, v_na); (fld_30, (B "tsv")); (fld_31, (B ";")); (fld_32, (bs [9]%N)); (fld_33, v_na); (fld_37, v_true); (fld_39, v_true)]);
    ([tok_2; tok_160], Some [(fld_0, (B "tsv")); (fld_1, (bs [9]%N)); (fld_2, v_na); (fld_30, (B "xtab")); (fld_31, (B ";")); (fld_32, (bs [10]%N)); (fld_33, (B " ")); (fld_39, v_true)]);
    ([tok_2; tok_36; tok_68], Some [(fld_0, (B "tsv")); (fld_1, (bs [9]%N)); (fld_2, v_na); (fld_30, (B "xtab")); (fld_31, (B ";")); (fld_32, (bs [10]%N)); (fld_33, (B " ")); (fld_39, v_true)]);
    ([tok_2; tok_161], Some [(fld_0, (B "tsv")); (fld_1, (bs [9]%N)); (fld_2, v_na); (fld_30, (B "yaml")); (fld_31, (B ";")); (fld_32, v_na); (fld_33, v_na); (fld_39, v_true); (fld_65, v_false); (fld_66, v_true)]);
    ([tok_2; tok_36; tok_69], Some [(fld_0, (B "tsv")); (fld_1, (bs [9]%N)); (fld_2, v_na); (fld_30, (B "yaml")); (fld_31, (B ";")); (fld_32, v_na); (fld_33, v_na); (fld_39, v_true); (fld_65, v_false); (fld_66, v_true)]);
    ([tok_2; tok_162], Some [(fld_0, (B "xtab")); (fld_1, (bs [10]%N)); (fld_2, (B " ")); (fld_3, (bs [10;10]%N)); (fld_30, (B "pprint")); (fld_31, (B ";")); (fld_32, (B " ")); (fld_33, v_na); (fld_39, v_true); (fld_41, v_true)]);
    ([tok_2; tok_40; tok_62; tok_233], Some [(fld_0, (B "xtab")); (fld_1, (bs [10]%N)); (fld_2, (B " ")); (fld_3, (bs [10;10]%N)); (fld_30, (B "pprint")); (fld_31, (B ";")); (fld_32, (B " ")); (fld_33, v_na); (fld_39, v_true); (fld_41, v_true)]);
    ([tok_2; tok_163], Some [(fld_0, (B "xtab")); (fld_1, (bs [10]%N)); (fld_2, (B " ")); (fld_3, (bs [10;10]%N)); (fld_30, (B "csv")); (fld_31, (B ";")); (fld_33, v_na); (fld_39, v_true)]);
    ([tok_2; tok_40; tok_53], Some [(fld_0, (B "xtab")); (fld_1, (bs [10]%N)); (fld_2, (B " ")); (fld_3, (bs [10;10]%N)); (fld_30, (B "csv")); (fld_31, (B ";")); (fld_33, v_na); (fld_39, v_true)]);
    ([tok_2; tok_164], Some [(fld_0, (B "xtab")); (fld_1, (bs [10]%N)); (fld_2, (B " ")); (fld_3, (bs [10;10]%N)); (fld_31, (B ";")); (fld_39, v_true)]);
    ([tok_2; tok_40; tok_56], Some [(fld_0, (B "xtab")); (fld_1, (bs [10]%N)); (fld_2, (B " ")); (fld_3, (bs [10;10]%N)); (fld_31, (B ";")); (fld_39, v_true)]);
    ([tok_2; tok_165], Some [(fld_0, (B "xtab")); (fld_1, (bs [10]%N)); (fld_2, (B " ")); (fld_3, (bs [10;10]%N)); (fld_30, (B "json")); (fld_31, (B ";")); (fld_32, v_na); (fld_33, v_na); (fld_39, v_true); (fld_65, v_false); (fld_66, v_true)]);
    ([tok_2; tok_40; tok_57], Some [(fld_0, (B "xtab")); (fld_1, (bs [10]%N)); (fld_2, (B " ")); (fld_3, (bs [10;10]%N)); (fld_30, (B "json")); (fld_31, (B ";")); (fld_32, v_na); (fld_33, v_na); (fld_39, v_true); (fld_65, v_false); (fld_66, v_true)]);
    ([tok_2; tok_166], Some [(fld_0, (B "xtab")); (fld_1, (bs [10]%N)); (fld_2, (B " ")); (fld_3, (bs [10;10]%N)); (fld_30, (B "jsonl")); (fld_31, (B ";")); (fld_32, (B "")); (fld_33, (B "")); (fld_39, v_true); (fld_65, v_false); (fld_66, v_true)]);
    ([tok_2; tok_40; tok_58], Some [(fld_0, (B "xtab")); (fld_1, (bs [10]%N)); (fld_2, (B " ")); (fld_3, (bs [10;10]%N)); (fld_30, (B "jsonl")); (fld_31, (B ";")); (fld_32, (B "")); (fld_33, (B "")); (fld_39, v_true); (fld_65, v_false); (fld_66, v_true)]);
    ([tok_2; tok_167], Some [(fld_0, (B "xtab")); (fld_1, (bs [10]%N)); (fld_2, (B " ")); (fld_3, (bs [10;10]%N)); (fld_30, (B "markdown")); (fld_31, (B ";")); (fld_32, (B " ")); (fld_33, v_na); (fld_39, v_true)]);
    ([tok_2; tok_40; tok_59], Some [(fld_0, (B "xtab")); (fld_1, (bs [10]%N)); (fld_2, (B " ")); (fld_3, (bs [10;10]%N)); (fld_30, (B "markdown")); (fld_31, (B ";")); (fld_32, (B " ")); (fld_33, v_na); (fld_39, v_true)]);
    ([tok_2; tok_168], Some [(fld_0, (B "xtab")); (fld_1, (bs [10]%N)); (fld_2, (B " ")); (fld_3, (bs [10;10]%N)); (fld_30, (B "nidx")); (fld_31, (B ";")); (fld_32, (B " ")); (fld_33, v_na); (fld_37, v_true); (fld_39, v_true)]);
    ([tok_2; tok_40; tok_61], Some [(fld_0, (B "xtab")); (fld_1, (bs [10]%N)); (fld_2, (B " ")); (fld_3, (bs [10;10]%N)); (fld_30, (B "nidx")); (fld_31, (B ";")); (fld_32, (B " ")); (fld_33, v_na); (fld_37, v_true); (fld_39, v_true)]);
    ([tok_2; tok_169], Some [(fld_0, (B "xtab")); (fld_1, (bs [10]%N)); (fld_2, (B " ")); (fld_3, (bs [10;10]%N)); (fld_30, (B "pprint")); (fld_31, (B ";")); (fld_32, (B " ")); (fld_33, v_na); (fld_39, v_true)]);
    ([tok_2; tok_40; tok_62], Some [(fld_0, (B "xtab")); (fld_1, (bs [10]%N)); (fld_2, (B " ")); (fld_3, (bs [10;10]%N)); (fld_30, (B "pprint")); (fld_31, (B ";")); (fld_32, (B " ")); (fld_33, v_na); (fld_39, v_true)]);
    ([tok_2; tok_170], Some [(fld_0, (B "xtab")); (fld_1, (bs [10]%N)); (fld_2, (B " ")); (fld_3, (bs [10;10]%N)); (fld_30, (B "tsv")); (fld_31, (B ";")); (fld_32, (bs [9]%N)); (fld_33, v_na); (fld_37, v_true); (fld_39, v_true)]);
    ([tok_2; tok_40; tok_64], Some [(fld_0, (B "xtab")); (fld_1, (bs [10]%N)); (fld_2, (B " ")); (fld_3, (bs [10;10]%N)); (fld_30, (B "tsv")); (fld_31, (B ";")); (fld_32, (bs [9]%N)); (fld_33, v_na); (fld_37, v_true); (fld_39, v_true)]);
    ([tok_2; tok_80], Some [(fld_0, (B "xtab")); (fld_1, (bs [10]%N)); (fld_2, (B " ")); (fld_3, (bs [10;10]%N)); (fld_30, (B "xtab")); (fld_31, (B ";")); (fld_32, (bs [10]%N)); (fld_33, (B " ")); (fld_39, v_true)]);
    ([tok_2; tok_40; tok_68], Some [(fld_0, (B "xtab")); (fld_1, (bs [10]%N)); (fld_2, (B " ")); (fld_3, (bs [10;10]%N)); (fld_30, (B "xtab")); (fld_31, (B ";")); (fld_32, (bs [10]%N)); (fld_33, (B " ")); (fld_39, v_true)]);
    ([tok_2; tok_171], Some [(fld_0, (B "xtab")); (fld_1, (bs [10]%N)); (fld_2, (B " ")); (fld_3, (bs [10;10]%N)); (fld_30, (B "yaml")); (fld_31, (B ";")); (fld_32, v_na); (fld_33, v_na); (fld_39, v_true); (fld_65, v_false); (fld_66, v_true)]);
    ([tok_2; tok_40; tok_69], Some [(fld_0, (B "xtab")); (fld_1, (bs [10]%N)); (fld_2, (B " ")); (fld_3, (bs [10;10]%N)); (fld_30, (B "yaml")); (fld_31, (B ";")); (fld_32, v_na); (fld_33, v_na); (fld_39, v_true); (fld_65, v_false); (fld_66, v_true)]);
    ([tok_2; tok_172], Some [(fld_0, (B "yaml")); (fld_1, v_na); (fld_2, v_na); (fld_3, v_na); (fld_30, (B "csv")); (fld_31, (B ";")); (fld_33, v_na); (fld_39, v_true)]);
    ([tok_2; tok_41; tok_53], Some [(fld_0, (B "yaml")); (fld_1, v_na); (fld_2, v_na); (fld_3, v_na); (fld_30, (B "csv")); (fld_31, (B ";")); (fld_33, v_na); (fld_39, v_true)]);
    ([tok_2; tok_173], Some [(fld_0, (B "yaml")); (fld_1, v_na); (fld_2, v_na); (fld_3, v_na); (fld_31, (B ";")); (fld_39, v_true)]);
    ([tok_2; tok_41; tok_56], Some [(fld_0, (B "yaml")); (fld_1, v_na); (fld_2, v_na); (fld_3, v_na); (fld_31, (B ";")); (fld_39, v_true)]);
    ([tok_2; tok_174], Some [(fld_0, (B "yaml")); (fld_1, v_na); (fld_2, v_na); (fld_3, v_na); (fld_30, (B "json")); (fld_31, (B ";")); (fld_32, v_na); (fld_33, v_na); (fld_39, v_true); (fld_65, v_false)]);
    ([tok_2; tok_41; tok_57], Some [(fld_0, (B "yaml")); (fld_1, v_na); (fld_2, v_na); (fld_3, v_na); (fld_30, (B "json")); (fld_31, (B ";")); (fld_32, v_na); (fld_33, v_na); (fld_39, v_true); (fld_65, v_false)]);
    ([tok_2; tok_175], Some [(fld_0, (B "yaml")); (fld_1, v_na); (fld_2, v_na); (fld_3, v_na); (fld_30, (B "jsonl")); (fld_31, (B ";")); (fld_32, (B "")); (fld_33, (B "")); (fld_39, v_true); (fld_65, v_false)]);
    ([tok_2; tok_41; tok_58], Some [(fld_0, (B "yaml")); (fld_1, v_na); (fld_2, v_na); (fld_3, v_na); (fld_30, (B "jsonl")); (fld_31, (B ";")); (fld_32, (B "")); (fld_33, (B "")); (fld_39, v_true); (fld_65, v_false)]);
    ([tok_2; tok_176], Some [(fld_0, (B "yaml")); (fld_1, v_na); (fld_2, v_na); (fld_3, v_na); (fld_30, (B "markdown")); (fld_31, (B ";")); (fld_32, (B " ")); (fld_33, v_na); (fld_39, v_true)]);
    ([tok_2; tok_41; tok_59], Some [(fld_0, (B "yaml")); (fld_1, v_na); (fld_2, v_na); (fld_3, v_na); (fld_30, (B "markdown")); (fld_31, (B ";")); (fld_32, (B " ")); (fld_33, v_na); (fld_39, v_true)]);
    ([tok_2; tok_177], Some [(fld_0, (B "yaml")); (fld_1, v_na); (fld_2, v_na); (fld_3, v_na); (fld_30, (B "nidx")); (fld_31, (B ";")); (fld_32, (B " ")); (fld_33, v_na); (fld_37, v_true); (fld_39, v_true)]);
    ([tok_2; tok_41; tok_61], Some [(fld_0, (B "yaml")); (fld_1, v_na); (fld_2, v_na); (fld_3, v_na); (fld_30, (B "nidx")); (fld_31, (B ";")); (fld_32, (B " ")); (fld_33, v_na); (fld_37, v_true); (fld_39, v_true)]);
    ([tok_2; tok_178], Some [(fld_0, (B "yaml")); (fld_1, v_na); (fld_2, v_na); (fld_3, v_na); (fld_30, (B "pprint")); (fld_31, (B ";")); (fld_32, (B " ")); (fld_33, v_na); (fld_39, v_true)]);
    ([tok_2; tok_41; tok_62], Some [(fld_0, (B "yaml")); (fld_1, v_na); (fld_2, v_na); (fld_3, v_na); (fld_30, (B "pprint")); (fld_31, (B ";")); (fld_32, (B " ")); (fld_33, v_na); (fld_39, v_true)]);
    ([tok_2; tok_179], Some [(fld_0, (B "yaml")); (fld_1, v_na); (fld_2, v_na); (fld_3, v_na); (fld_30, (B "tsv")); (fld_31, (B ";")); (fld_32, (bs [9]%N)); (fld_33, v_na); (fld_37, v_true); (fld_39, v_true)]);
    ([tok_2; tok_41; tok_64], Some [(fld_0, (B "yaml")); (fld_1, v_na); (fld_2, v_na); (fld_3, v_na); (fld_30, (B "tsv")); (fld_31, (B ";")); (fld_32, (bs [9]%N)); (fld_33, v_na); (fld_37, v_true); (fld_39, v_true)]);
    ([tok_2; tok_180], Some [(fld_0, (B "yaml")); (fld_1, v_na); (fld_2, v_na); (fld_3, v_na); (fld_30, (B "xtab")); (fld_31, (B ";")); (fld_32, (bs [10]%N)); (fld_33, (B " ")); (fld_39, v_true)]);
    ([tok_2; tok_41; tok_68], Some [(fld_0, (B "yaml")); (fld_1, v_na); (fld_2, v_na); (fld_3, v_na); (fld_30, (B "xtab")); (fld_31, (B ";")); (fld_32, (bs [10]%N)); (fld_33, (B " ")); (fld_39, v_true)]);
    ([tok_2; tok_83], Some [(fld_0, (B "yaml")); (fld_1, v_na); (fld_2, v_na); (fld_3, v_na); (fld_30, (B "yaml")); (fld_31, (B ";")); (fld_32, v_na); (fld_33, v_na); (fld_39, v_true); (fld_65, v_false)]);
    ([tok_2; tok_41; tok_69], Some [(fld_0, (B "yaml")); (fld_1, v_na); (fld_2, v_na); (fld_3, v_na); (fld_30, (B "yaml")); (fld_31, (B ";")); (fld_32, v_na); (fld_33, v_na); (fld_39, v_true); (fld_65, v_false)]);
    ([tok_2; tok_235], Some [(fld_12, v_true); (fld_31, (B ";")); (fld_39, v_true); (fld_40, v_true)]);
    ([tok_2; tok_207; tok_204], Some [(fld_12, v_true); (fld_31, (B ";")); (fld_39, v_true); (fld_40, v_true)]);
    ([tok_2; tok_182], Some [(fld_0, (B "nidx")); (fld_1, (bs [9]%N)); (fld_2, v_na); (fld_8, v_true); (fld_30, (B "nidx")); (fld_31, (B ";")); (fld_32, (bs [9]%N)); (fld_33, v_na); (fld_37, v_true); (fld_39, v_true)]);
    ([tok_2; tok_49; tok_236; tok_237], Some [(fld_0, (B "nidx")); (fld_1, (bs [9]%N)); (fld_2, v_na); (fld_8, v_true); (fld_30, (B "nidx")); (fld_31, (B ";")); (fld_32, (bs [9]%N)); (fld_33, v_na); (fld_37, v_true); (fld_39, v_true)]);
    ([tok_2; tok_181], Some [(fld_0, (B "nidx")); (fld_1, (B " ")); (fld_2, v_na); (fld_4, v_true); (fld_8, v_true); (fld_11, v_true); (fld_30, (B "nidx")); (fld_31, (B ";")); (fld_32, (B " ")); (fld_33, v_na); (fld_37, v_true); (fld_39, v_true)]);
    ([tok_2; tok_49; tok_236; tok_238; tok_239], Some [(fld_0, (B "nidx")); (fld_1, (B " ")); (fld_2, v_na); (fld_4, v_true); (fld_8, v_true); (fld_11, v_true); (fld_30, (B "nidx")); (fld_31, (B ";")); (fld_32, (B " ")); (fld_33, v_na); (fld_37, v_true); (fld_39, v_true)]);
    ([tok_263], Some [(fld_31, (bs [27]%N)); (fld_39, v_true)]);
    ([tok_264], Some [(fld_31, (bs [27]%N)); (fld_39, v_true)]);
    ([tok_265], Some [(fld_31, (bs [3]%N)); (fld_39, v_true)]);
    ([tok_266], Some [(fld_31, (bs [3]%N)); (fld_39, v_true)]);
    ([tok_267], Some [(fld_31, (bs [28]%N)); (fld_39, v_true)]);
    ([tok_268], Some [(fld_31, (bs [28]%N)); (fld_39, v_true)]);
    ([tok_269], Some [(fld_31, (bs [29]%N)); (fld_39, v_true)]);
    ([tok_270], Some [(fld_31, (bs [29]%N)); (fld_39, v_true)]);
    ([tok_271], Some [(fld_31, (bs [0]%N)); (fld_39, v_true)]);
    ([tok_272], Some [(fld_31, (bs [0]%N)); (fld_39, v_true)]);
    ([tok_273], Some [(fld_31, (bs [30]%N)); (fld_39, v_true)]);
    ([tok_274], Some [(fld_31, (bs [30]%N)); (fld_39, v_true)]);
    ([tok_275], Some [(fld_31, (bs [1]%N)); (fld_39, v_true)]);
    ([tok_276], Some [(fld_31, (bs [1]%N)); (fld_39, v_true)]);
    ([tok_277], Some [(fld_31, (bs [2]%N)); (fld_39, v_true)]);
    ([tok_278], Some [(fld_31, (bs [2]%N)); (fld_39, v_true)]);
    ([tok_279], Some [(fld_31, (bs [31]%N)); (fld_39, v_true)]);
    ([tok_280], Some [(fld_31, (bs [31]%N)); (fld_39, v_true)]);
    ([tok_281], Some [(fld_31, (bs [31]%N)); (fld_39, v_true)]);
    ([tok_282], Some [(fld_31, (bs [30]%N)); (fld_39, v_true)]);
    ([tok_283], Some [(fld_31, (B ":")); (fld_39, v_true)]);
    ([tok_4], Some [(fld_31, (B ":")); (fld_39, v_true)]);
    ([tok_284], Some [(fld_31, (B ",")); (fld_39, v_true)]);
    ([tok_285], Some [(fld_31, (B ",")); (fld_39, v_true)]);
    ([tok_286], Some [(fld_31, (bs [13]%N)); (fld_39, v_true)]);
    ([tok_287], Some [(fld_31, (bs [13]%N)); (fld_39, v_true)]);
    ([tok_288], Some [(fld_31, (bs [13;13]%N)); (fld_39, v_true)]);
    ([tok_289], Some [(fld_31, (bs [13;13]%N)); (fld_39, v_true)]);
    ([tok_290], Some [(fld_31, (bs [13;10]%N)); (fld_39, v_true)]);
    ([tok_291], Some [(fld_31, (bs [13;10]%N)); (fld_39, v_true)]);
    ([tok_292], Some [(fld_31, (bs [13;10;13;10]%N)); (fld_39, v_true)]);
    ([tok_293], Some [(fld_31, (bs [13;10;13;10]%N)); (fld_39, v_true)]);
    ([tok_294], Some [(fld_31, (B "=")); (fld_39, v_true)]);
    ([tok_295], Some [(fld_31, (B "=")); (fld_39, v_true)]);
    ([tok_296], Some [(fld_39, v_true)]);
    ([tok_297], Some [(fld_39, v_true)]);
    ([tok_298], Some [(fld_31, (bs [10;10]%N)); (fld_39, v_true)]);
    ([tok_299], Some [(fld_31, (bs [10;10]%N)); (fld_39, v_true)]);
    ([tok_300], Some [(fld_39, v_true)]);
    ([tok_301], Some [(fld_31, (B "|")); (fld_39, v_true)]);
    ([tok_302], Some [(fld_31, (B "|")); (fld_39, v_true)]);
    ([tok_214], Some [(fld_31, (B ";")); (fld_39, v_true)]);
    ([tok_2], Some [(fld_31, (B ";")); (fld_39, v_true)]);
    ([tok_303], Some [(fld_31, (B "/")); (fld_39, v_true)]);
    ([tok_304], Some [(fld_31, (B "/")); (fld_39, v_true)]);
    ([tok_238], Some [(fld_31, (B " ")); (fld_39, v_true)]);
    ([tok_305], Some [(fld_31, (B " ")); (fld_39, v_true)]);
    ([tok_237], Some [(fld_31, (bs [9]%N)); (fld_39, v_true)]);
    ([tok_306], Some [(fld_31, (bs [9]%N)); (fld_39, v_true)]);
    ([tok_307], Some [(fld_31, (bs [226;144;159]%N)); (fld_39, v_true)]);
    ([tok_308], Some [(fld_31, (bs [226;144;159]%N)); (fld_39, v_true)]);
    ([tok_309], Some [(fld_31, (bs [226;144;158]%N)); (fld_39, v_true)]);
    ([tok_310], Some [(fld_31, (bs [226;144;158]%N)); (fld_39, v_true)])]);
  (tok_235, [
    ([], Some [(fld_12, v_true); (fld_40, v_true)]);
    ([tok_1; tok_2; tok_3; tok_4], Some [(fld_1, (B ";")); (fld_2, (B ":")); (fld_8, v_true); (fld_9, v_true); (fld_12, v_true); (fld_40, v_true)]);
    ([tok_5; tok_2; tok_6; tok_4], Some [(fld_12, v_true); (fld_32, (B ";")); (fld_33, (B ":")); (fld_37, v_true); (fld_38, v_true); (fld_40, v_true)]);
    ([tok_7; tok_2; tok_8; tok_2], Some [(fld_3, (B ";")); (fld_10, v_true); (fld_12, v_true); (fld_31, (B ";")); (fld_39, v_true); (fld_40, v_true)])]);
  (tok_240, [
    ([tok_241], Some [(fld_0, (B "csv")); (fld_2, v_na)]);
    ([tok_241; tok_1; tok_2; tok_3; tok_4], Some [(fld_0, (B "csv")); (fld_1, (B ";")); (fld_2, (B ":")); (fld_8, v_true); (fld_9, v_true)]);
    ([tok_241; tok_5; tok_2; tok_6; tok_4], Some [(fld_0, (B "csv")); (fld_2, v_na); (fld_32, (B ";")); (fld_33, (B ":")); (fld_37, v_true); (fld_38, v_true)]);
    ([tok_241; tok_7; tok_2; tok_8; tok_2], Some [(fld_0, (B "csv")); (fld_2, v_na); (fld_3, (B ";")); (fld_10, v_true); (fld_31, (B ";")); (fld_39, v_true)]);
    ([tok_244], Some [(fld_0, (B "csvlite")); (fld_2, v_na)]);
    ([tok_244; tok_1; tok_2; tok_3; tok_4], Some [(fld_0, (B "csvlite")); (fld_1, (B ";")); (fld_2, (B ":")); (fld_8, v_true); (fld_9, v_true)]);
    ([tok_244; tok_5; tok_2; tok_6; tok_4], Some [(fld_0, (B "csvlite")); (fld_2, v_na); (fld_32, (B ";")); (fld_33, (B ":")); (fld_37, v_true); (fld_38, v_true)]);
    ([tok_244; tok_7; tok_2; tok_8; tok_2], Some [(fld_0, (B "csvlite")); (fld_2, v_na); (fld_3, (B ";")); (fld_10, v_true); (fld_31, (B ";")); (fld_39, v_true)]);
    ([tok_245], Some [(fld_0, (B "dcf")); (fld_1, v_na); (fld_2, v_na); (fld_3, v_na)]);
    ([tok_245; tok_1; tok_2; tok_3; tok_4], Some [(fld_0, (B "dcf")); (fld_1, (B ";")); (fld_2, (B ":")); (fld_3, v_na); (fld_8, v_true); (fld_9, v_true)]);
    ([tok_245; tok_5; tok_2; tok_6; tok_4], Some [(fld_0, (B "dcf")); (fld_1, v_na); (fld_2, v_na); (fld_3, v_na); (fld_32, (B ";")); (fld_33, (B ":")); (fld_37, v_true); (fld_38, v_true)]);
    ([tok_245; tok_7; tok_2; tok_8; tok_2], Some [(fld_0, (B "dcf")); (fld_1, v_na); (fld_2, v_na); (fld_3, (B ";")); (fld_10, v_true); (fld_31, (B ";")); (fld_39, v_true)]);
    ([tok_246], Some []);
    ([tok_246; tok_1; tok_2; tok_3; tok_4], Some [(fld_1, (B ";")); (fld_2, (B ":")); (fld_8, v_true); (fld_9, v_true)]);
    ([tok_246; tok_5; tok_2; tok_6; tok_4], Some [(fld_32, (B ";")); (fld_33, (B ":")); (fld_37, v_true); (fld_38, v_true)]);
    ([tok_246; tok_7; tok_2; tok_8; tok_2], Some [(fld_3, (B ";")); (fld_10, v_true); (fld_31, (B ";")); (fld_39, v_true)]);
    ([tok_247], Some [(fld_0, (B "dkvpx"))]);
    ([tok_247; tok_1; tok_2; tok_3; tok_4], Some [(fld_0, (B "dkvpx")); (fld_1, (B ";")); (fld_2, (B ":")); (fld_8, v_true); (fld_9, v_true)]);
    ([tok_247; tok_5; tok_2; tok_6; tok_4], Some [(fld_0, (B "dkvpx")); (fld_32, (B ";")); (fld_33, (B ":")); (fld_37, v_true); (fld_38, v_true)]);
    ([tok_247; tok_7; tok_2; tok_8; tok_2], Some [(fld_0, (B "dkvpx")); (fld_3, (B ";")); (fld_10, v_true); (fld_31, (B ";")); (fld_39, v_true)]);
    ([tok_250], Some [(fld_0, (B "gen")); (fld_2, v_na)]);
    ([tok_250; tok_1; tok_2; tok_3; tok_4], Some [(fld_0, (B "gen")); (fld_1, (B ";")); (fld_2, (B ":")); (fld_8, v_true); (fld_9, v_true)]);
    ([tok_250; tok_5; tok_2; tok_6; tok_4], Some [(fld_0, (B "gen")); (fld_2, v_na); (fld_32, (B ";")); (fld_33, (B ":")); (fld_37, v_true); (fld_38, v_true)]);
    ([tok_250; tok_7; tok_2; tok_8; tok_2], Some [(fld_0, (B "gen")); (fld_2, v_na); (fld_3, (B ";")); (fld_10, v_true); (fld_31, (B ";")); (fld_39, v_true)]);
    ([tok_253], Some [(fld_0, (B "json")); (fld_1, v_na); (fld_2, v_na); (fld_3, v_na)]);
    ([tok_253; tok_1; tok_2; tok_3; tok_4], Some [(fld_0, (B "json")); (fld_1, (B ";")); (fld_2, (B ":")); (fld_3, v_na); (fld_8, v_true); (fld_9, v_true)]);
    ([tok_253; tok_5; tok_2; tok_6; tok_4], Some [(fld_0, (B "json")); (fld_1, v_na); (fld_2, v_na); (fld_3, v_na); (fld_32, (B ";")); (fld_33, (B ":")); (fld_37, v_true); (fld_38, v_true)]);
    ([tok_253; tok_7; tok_2; tok_8; tok_2], Some [(fld_0, (B "json")); (fld_1, v_na); (fld_2, v_na); (fld_3, (B ";")); (fld_10, v_true); (fld_31, (B ";")); (fld_39, v_true)]);
    ([tok_254], Some [(fld_0, (B "markdown")); (fld_1, (B " ")); (fld_2, v_na)]);
    ([tok_254; tok_1; tok_2; tok_3; tok_4], Some [(fld_0, (B "markdown")); (fld_1, (B ";")); (fld_2, (B ":")); (fld_8, v_true); (fld_9, v_true)]);
    ([tok_254; tok_5; tok_2; tok_6; tok_4], Some [(fld_0, (B "markdown")); (fld_1, (B " ")); (fld_2, v_na); (fld_32, (B ";")); (fld_33, (B ":")); (fld_37, v_true); (fld_38, v_true)]);
    ([tok_254; tok_7; tok_2; tok_8; tok_2], Some [(fld_0, (B "markdown")); (fld_1, (B " ")); (fld_2, v_na); (fld_3, (B ";")); (fld_10, v_true); (fld_31, (B ";")); (fld_39, v_true)]);
    ([tok_255], Some [(fld_0, (B "nidx")); (fld_1, (B " ")); (fld_2, v_na); (fld_5, (B "([ \t])+"))]);
    ([tok_255; tok_1; tok_2; tok_3; tok_4], Some [(fld_0, (B "nidx")); (fld_1, (B ";")); (fld_2, (B ":")); (fld_8, v_true); (fld_9, v_true)]);
    ([tok_255; tok_5; tok_2; tok_6; tok_4], Some [(fld_0, (B "nidx")); (fld_1, (B " ")); (fld_2, v_na); (fld_5, (B "([ \t])+")); (fld_32, (B ";")); (fld_33, (B ":")); (fld_37, v_true); (fld_38, v_true)]);
    ([tok_255; tok_7; tok_2; tok_8; tok_2], Some [(fld_0, (B "nidx")); (fld_1, (B " ")); (fld_2, v_na); (fld_3, (B ";")); (fld_5, (B "([ \t])+")); (fld_10, v_true); (fld_31, (B ";")); (fld_39, v_true)]);
    ([tok_256], Some [(fld_0, (B "pprint")); (fld_1, (B " ")); (fld_2, v_na); (fld_4, v_true)]);
    ([tok_256; tok_1; tok_2; tok_3; tok_4], Some [(fld_0, (B "pprint")); (fld_1, (B ";")); (fld_2, (B ":")); (fld_4, v_true); (fld_8, v_true); (fld_9, v_true)]);
    ([tok_256; tok_5; tok_2; tok_6; tok_4], Some [(fld_0, (B "pprint")); (fld_1, (B " ")); (fld_2, v_na); (fld_4, v_true); (fld_32, (B ";")); (fld_33, (B ":")); (fld_37, v_true); (fld_38, v_true)]);
    ([tok_256; tok_7; tok_2; tok_8; tok_2], Some [(fld_0, (B "pprint")); (fld_1, (B " ")); (fld_2, v_na); (fld_3, (B ";")); (fld_4, v_true); (fld_10, v_true); (fld_31, (B ";")); (fld_39, v_true)]);
    ([tok_257], Some [(fld_0, (B "recutils")); (fld_1, v_na); (fld_2, v_na); (fld_3, v_na)]);
    ([tok_257; tok_1; tok_2; tok_3; tok_4], Some [(fld_0, (B "recutils")); (fld_1, (B ";")); (fld_2, (B ":")); (fld_3, v_na); (fld_8, v_true); (fld_9, v_true)]);
    ([tok_257; tok_5; tok_2; tok_6; tok_4], Some [(fld_0, (B "recutils")); (fld_1, v_na); (fld_2, v_na); (fld_3, v_na); (fld_32, (B ";")); (fld_33, (B ":")); (fld_37, v_true); (fld_38, v_true)]);
    ([tok_257; tok_7; tok_2; tok_8; tok_2], Some [(fld_0, (B "recutils")); (fld_1, v_na); (fld_2, v_na); (fld_3, (B ";")); (fld_10, v_true); (fld_31, (B ";")); (fld_39, v_true)]);
    ([tok_258], Some [(fld_0, (B "tsv")); (fld_1, (bs [9]%N)); (fld_2, v_na)]);
    ([tok_258; tok_1; tok_2; tok_3; tok_4], Some [(fld_0, (B "tsv")); (fld_1, (B ";")); (fld_2, (B ":")); (fld_8, v_true); (fld_9, v_true)]);
    ([tok_258; tok_5; tok_2; tok_6; tok_4], Some [(fld_0, (B "tsv")); (fld_1, (bs [9]%N)); (fld_2, v_na); (fld_32, (B ";")); (fld_33, (B ":")); (fld_37, v_true); (fld_38, v_true)]);
    ([tok_258; tok_7; tok_2; tok_8; tok_2], Some [(fld_0, (B "tsv")); (fld_1, (bs [9]%N)); (fld_2, v_na); (fld_3, (B ";")); (fld_10, v_true); (fld_31, (B ";")); (fld_39, v_true)]);
    ([tok_259], Some [(fld_0, (B "xtab")); (fld_1, (bs [10]%N)); (fld_2, (B " ")); (fld_3, (bs [10;10]%N))]);
    ([tok_259; tok_1; tok_2; tok_3; tok_4], Some [(fld_0, (B "xtab")); (fld_1, (B ";")); (fld_2, (B ":")); (fld_3, (bs [10;10]%N)); (fld_8, v_true); (fld_9, v_true)]);
    ([tok_259; tok_5; tok_2; tok_6; tok_4], Some [(fld_0, (B "xtab")); (fld_1, (bs [10]%N)); (fld_2, (B " ")); (fld_3, (bs [10;10]%N)); (fld_32, (B ";")); (fld_33, (B ":")); (fld_37, v_true); (fld_38, v_true)]);
    ([tok_259; tok_7; tok_2; tok_8; tok_2], Some [(fld_0, (B "xtab")); (fld_1, (bs [10]%N)); (fld_2, (B " ")); (fld_3, (B ";")); (fld_10, v_true); (fld_31, (B ";")); (fld_39, v_true)]);
    ([tok_260], Some [(fld_0, (B "yaml")); (fld_1, v_na); (fld_2, v_na); (fld_3, v_na)]);
    ([tok_260; tok_1; tok_2; tok_3; tok_4], Some [(fld_0, (B "yaml")); (fld_1, (B ";")); (fld_2, (B ":")); (fld_3, v_na); (fld_8, v_true); (fld_9, v_true)]);
    ([tok_260; tok_5; tok_2; tok_6; tok_4], Some [(fld_0, (B "yaml")); (fld_1, v_na); (fld_2, v_na); (fld_3, v_na); (fld_32, (B ";")); (fld_33, (B ":")); (fld_37, v_true); (fld_38, v_true)]);
    ([tok_260; tok_7; tok_2; tok_8; tok_2], Some [(fld_0, (B "yaml")); (fld_1, v_na); (fld_2, v_na); (fld_3, (B ";")); (fld_10, v_true); (fld_31, (B ";")); (fld_39, v_true)]);
    ([tok_261], Some [(fld_0, (B "markdown")); (fld_1, (B " ")); (fld_2, v_na)]);
    ([tok_261; tok_1; tok_2; tok_3; tok_4], Some [(fld_0, (B "markdown")); (fld_1, (B ";")); (fld_2, (B ":")); (fld_8, v_true); (fld_9, v_true)]);
    ([tok_261; tok_5; tok_2; tok_6; tok_4], Some [(fld_0, (B "markdown")); (fld_1, (B " ")); (fld_2, v_na); (fld_32, (B ";")); (fld_33, (B ":")); (fld_37, v_true); (fld_38, v_true)]);
    ([tok_261; tok_7; tok_2; tok_8; tok_2], Some [(fld_0, (B "markdown")); (fld_1, (B " ")); (fld_2, v_na); (fld_3, (B ";")); (fld_10, v_true); (fld_31, (B ";")); (fld_39, v_true)]);
    ([tok_262], Some [(fld_0, (B "json")); (fld_1, v_na); (fld_2, v_na); (fld_3, v_na)]);
    ([tok_262; tok_1; tok_2; tok_3; tok_4], Some [(fld_0, (B "json")); (fld_1, (B ";")); (fld_2, (B ":")); (fld_3, v_na); (fld_8, v_true); (fld_9, v_true)]);
    ([tok_262; tok_5; tok_2; tok_6; tok_4], Some [(fld_0, (B "json")); (fld_1, v_na); (fld_2, v_na); (fld_3, v_na); (fld_32, (B ";")); (fld_33, (B ":")); (fld_37, v_true); (fld_38, v_true)]);
    ([tok_262; tok_7; tok_2; tok_8; tok_2], Some [(fld_0, (B "json")); (fld_1, v_na); (fld_2, v_na); (fld_3, (B ";")); (fld_10, v_true); (fld_31, (B ";")); (fld_39, v_true)])]);
  (tok_242, [
    ([tok_241], Some [(fld_30, (B "csv")); (fld_33, v_na)]);
    ([tok_241; tok_1; tok_2; tok_3; tok_4], Some [(fld_1, (B ";")); (fld_2, (B ":")); (fld_8, v_true); (fld_9, v_true); (fld_30, (B "csv")); (fld_33, v_na)]);
    ([tok_241; tok_5; tok_2; tok_6; tok_4], Some [(fld_30, (B "csv")); (fld_32, (B ";")); (fld_33, (B ":")); (fld_37, v_true); (fld_38, v_true)]);
    ([tok_241; tok_7; tok_2; tok_8; tok_2], Some [(fld_3, (B ";")); (fld_10, v_true); (fld_30, (B "csv")); (fld_31, (B ";")); (fld_33, v_na); (fld_39, v_true)]);
    ([tok_244], Some [(fld_30, (B "csvlite")); (fld_33, v_na)]);
    ([tok_244; tok_1; tok_2; tok_3; tok_4], Some [(fld_1, (B ";")); (fld_2, (B ":")); (fld_8, v_true); (fld_9, v_true); (fld_30, (B "csvlite")); (fld_33, v_na)]);
    ([tok_244; tok_5; tok_2; tok_6; tok_4], Some [(fld_30, (B "csvlite")); (fld_32, (B ";")); (fld_33, (B ":")); (fld_37, v_true); (fld_38, v_true)]);
    ([tok_244; tok_7; tok_2; tok_8; tok_2], Some [(fld_3, (B ";")); (fld_10, v_true); (fld_30, (B "csvlite")); (fld_31, (B ";")); (fld_33, v_na); (fld_39, v_true)]);
    ([tok_245], Some [(fld_30, (B "dcf")); (fld_31, v_na); (fld_32, v_na); (fld_33, v_na); (fld_65, v_false)]);
    ([tok_245; tok_1; tok_2; tok_3; tok_4], Some [(fld_1, (B ";")); (fld_2, (B ":")); (fld_8, v_true); (fld_9, v_true); (fld_30, (B "dcf")); (fld_31, v_na); (fld_32, v_na); (fld_33, v_na); (fld_65, v_false)]);
    ([tok_245; tok_5; tok_2; tok_6; tok_4], Some [(fld_30, (B "dcf")); (fld_31, v_na); (fld_32, (B ";")); (fld_33, (B ":")); (fld_37, v_true); (fld_38, v_true); (fld_65, v_false)]);
    ([tok_245; tok_7; tok_2; tok_8; tok_2], Some [(fld_3, (B ";")); (fld_10, v_true); (fld_30, (B "dcf")); (fld_31, (B ";")); (fld_32, v_na); (fld_33, v_na); (fld_39, v_true); (fld_65, v_false)]);
    ([tok_246], Some []);
    ([tok_246; tok_1; tok_2; tok_3; tok_4], Some [(fld_1, (B ";")); (fld_2, (B ":")); (fld_8, v_true); (fld_9, v_true)]);
    ([tok_246; tok_5; tok_2; tok_6; tok_4], Some [(fld_32, (B ";")); (fld_33, (B ":")); (fld_37, v_true); (fld_38, v_true)]);
    ([tok_246; tok_7; tok_2; tok_8; tok_2], Some [(fld_3, (B ";")); (fld_10, v_true); (fld_31, (B ";")); (fld_39, v_true)]);
    ([tok_247], Some [(fld_30, (B "dkvpx"))]);
    ([tok_247; tok_1; tok_2; tok_3; tok_4], Some [(fld_1, (B ";")); (fld_2, (B ":")); (fld_8, v_true); (fld_9, v_true); (fld_30, (B "dkvpx"))]);
    ([tok_247; tok_5; tok_2; tok_6; tok_4], Some [(fld_30, (B "dkvpx")); (fld_32, (B ";")); (fld_33, (B ":")); (fld_37, v_true); (fld_38, v_true)]);
    ([tok_247; tok_7; tok_2; tok_8; tok_2], Some [(fld_3, (B ";")); (fld_10, v_true); (fld_30, (B "dkvpx")); (fld_31, (B ";")); (fld_39, v_true)]);
    ([tok_250], Some [(fld_30, (B "gen")); (fld_33, v_na)]);
    ([tok_250; tok_1; tok_2; tok_3; tok_4], Some [(fld_1, (B ";")); (fld_2, (B ":")); (fld_8, v_true); (fld_9, v_true); (fld_30, (B "gen")); (fld_33, v_na)]);
    ([tok_250; tok_5; tok_2; tok_6; tok_4], Some [(fld_30, (B "gen")); (fld_32, (B ";")); (fld_33, (B ":")); (fld_37, v_true); (fld_38, v_true)]);
    ([tok_250; tok_7; tok_2; tok_8; tok_2], Some [(fld_3, (B ";")); (fld_10, v_true); (fld_30, (B "gen")); (fld_31, (B ";")); (fld_33, v_na); (fld_39, v_true)]);
    ([tok_253], Some [(fld_30, (B "json")); (fld_31, v_na); (fld_32, v_na); (fld_33, v_na); (fld_65, v_false); (fld_66, v_true)]);
    ([tok_253; tok_1; tok_2; tok_3; tok_4], Some [(fld_1, (B ";")); (fld_2, (B ":")); (fld_8, v_true); (fld_9, v_true); (fld_30, (B "json")); (fld_31, v_na); (fld_32, v_na); (fld_33, v_na); (fld_65, v_false); (fld_66, v_true)]);
    ([tok_253; tok_5; tok_2; tok_6; tok_4], Some [(fld_30, (B "json")); (fld_31, v_na); (fld_32, (B ";")); (fld_33, (B ":")); (fld_37, v_true); (fld_38, v_true); (fld_65, v_false); (fld_66, v_true)]);
    ([tok_253; tok_7; tok_2; tok_8; tok_2], Some [(fld_3, (B ";")); (fld_10, v_true); (fld_30, (B "json")); (fld_31, (B ";")); (fld_32, v_na); (fld_33, v_na); (fld_39, v_true); (fld_65, v_false); (fld_66, v_true)]);
    ([tok_254], Some [(fld_30, (B "markdown")); (fld_32, (B " ")); (fld_33, v_na)]);
    ([tok_254; tok_1; tok_2; tok_3; tok_4], Some [(fld_1, (B ";")); (fld_2, (B ":")); (fld_8, v_true); (fld_9, v_true); (fld_30, (B "markdown")); (fld_32, (B " ")); (fld_33, v_na)]);
    ([tok_254; tok_5; tok_2; tok_6; tok_4], Some [(fld_30, (B "markdown")); (fld_32, (B ";")); (fld_33, (B ":")); (fld_37, v_true); (fld_38, v_true)]);
    ([tok_254; tok_7; tok_2; tok_8; tok_2], Some [(fld_3, (B ";")); (fld_10, v_true); (fld_30, (B "markdown")); (fld_31, (B ";")); (fld_32, (B " ")); (fld_33, v_na); (fld_39, v_true)]);
    ([tok_255], Some [(fld_30, (B "nidx")); (fld_32, (B " ")); (fld_33, v_na)]);
    ([tok_255; tok_1; tok_2; tok_3; tok_4], Some [(fld_1, (B ";")); (fld_2, (B ":")); (fld_8, v_true); (fld_9, v_true); (fld_30, (B "nidx")); (fld_32, (B " ")); (fld_33, v_na)]);
    ([tok_255; tok_5; tok_2; tok_6; tok_4], Some [(fld_30, (B "nidx")); (fld_32, (B ";")); (fld_33, (B ":")); (fld_37, v_true); (fld_38, v_true)]);
    ([tok_255; tok_7; tok_2; tok_8; tok_2], Some [(fld_3, (B ";")); (fld_10, v_true); (fld_30, (B "nidx")); (fld_31, (B ";")); (fld_32, (B " ")); (fld_33, v_na); (fld_39, v_true)]);
    ([tok_256], Some [(fld_30, (B "pprint")); (fld_32, (B " ")); (fld_33, v_na)]);
    ([tok_256; tok_1; tok_2; tok_3; tok_4], Some [(fld_1, (B ";")); (fld_2, (B ":")); (fld_8, v_true); (fld_9, v_true); (fld_30, (B "pprint")); (fld_32, (B " ")); (fld_33, v_na)]);
    ([tok_256; tok_5; tok_2; tok_6; tok_4], Some [(fld_30, (B "pprint")); (fld_32, (B ";")); (fld_33, (B ":")); (fld_37, v_true); (fld_38, v_true)]);
    ([tok_256; tok_7; tok_2; tok_8; tok_2], Some [(fld_3, (B ";")); (fld_10, v_true); (fld_30, (B "pprint")); (fld_31, (B ";")); (fld_32, (B " ")); (fld_33, v_na); (fld_39, v_true)]);
    ([tok_257], Some [(fld_30, (B "recutils")); (fld_31, v_na); (fld_32, v_na); (fld_33, v_na)]);
    ([tok_257; tok_1; tok_2; tok_3; tok_4], Some [(fld_1, (B ";")); (fld_2, (B ":")); (fld_8, v_true); (fld_9, v_true); (fld_30, (B "recutils")); (fld_31, v_na); (fld_32, v_na); (fld_33, v_na)]);
    ([tok_257; tok_5; tok_2; tok_6; tok_4], Some [(fld_30, (B "recutils")); (fld_31, v_na); (fld_32, (B ";")); (fld_33, (B ":")); (fld_37, v_true); (fld_38, v_true)]);
    ([tok_257; tok_7; tok_2; tok_8; tok_2], Some [(fld_3, (B ";")); (fld_10, v_true); (fld_30, (B "recutils")); (fld_31, (B ";")); (fld_32, v_na); (fld_33, v_na); (fld_39, v_true)]);
    ([tok_258], Some [(fld_30, (B "tsv")); (fld_32, (bs [9]%N)); (fld_33, v_na)]);
    ([tok_258; tok_1; tok_2; tok_3; tok_4], Some [(fld_1, (B ";")); (fld_2, (B ":")); (fld_8, v_true); (fld_9, v_true); (fld_30, (B "tsv")); (fld_32, (bs [9]%N)); (fld_33, v_na)]);
    ([tok_258; tok_5; tok_2; tok_6; tok_4], Some [(fld_30, (B "tsv")); (fld_32, (B ";")); (fld_33, (B ":")); (fld_37, v_true); (fld_38, v_true)]);
    ([tok_258; tok_7; tok_2; tok_8; tok_2], Some [(fld_3, (B ";")); (fld_10, v_true); (fld_30, (B "tsv")); (fld_31, (B ";")); (fld_32, (bs [9]%N)); (fld_33, v_na); (fld_39, v_true)]);
    ([tok_259], Some [(fld_30, (B "xtab")); (fld_31, (bs [10;10]%N)); (fld_32, (bs [10]%N)); (fld_33, (B " "))]);
    ([tok_259; tok_1; tok_2; tok_3; tok_4], Some [(fld_1, (B ";")); (fld_2, (B ":")); (fld_8, v_true); (fld_9, v_true); (fld_30, (B "xtab")); (fld_31, (bs [10;10]%N)); (fld_32, (bs [10]%N)); (fld_33, (B " "))]);
    ([tok_259; tok_5; tok_2; tok_6; tok_4], Some [(fld_30, (B "xtab")); (fld_31, (bs [10;10]%N)); (fld_32, (B ";")); (fld_33, (B ":")); (fld_37, v_true); (fld_38, v_true)]);
    ([tok_259; tok_7; tok_2; tok_8; tok_2], Some [(fld_3, (B ";")); (fld_10, v_true); (fld_30, (B "xtab")); (fld_31, (B ";")); (fld_32, (bs [10]%N)); (fld_33, (B " ")); (fld_39, v_true)]);
    ([tok_260], Some [(fld_30, (B "yaml")); (fld_31, v_na); (fld_32, v_na); (fld_33, v_na); (fld_65, v_false); (fld_66, v_true)]);
    ([tok_260; tok_1; tok_2; tok_3; tok_4], Some [(fld_1, (B ";")); (fld_2, (B ":")); (fld_8, v_true); (fld_9, v_true); (fld_30, (B "yaml")); (fld_31, v_na); (fld_32, v_na); (fld_33, v_na); (fld_65, v_false); (fld_66, v_true)]);
    ([tok_260; tok_5; tok_2; tok_6; tok_4], Some [(fld_30, (B "yaml")); (fld_31, v_na); (fld_32, (B ";")); (fld_33, (B ":")); (fld_37, v_true); (fld_38, v_true); (fld_65, v_false); (fld_66, v_true)]);
    ([tok_260; tok_7; tok_2; tok_8; tok_2], Some [(fld_3, (B ";")); (fld_10, v_true); (fld_30, (B "yaml")); (fld_31, (B ";")); (fld_32, v_na); (fld_33, v_na); (fld_39, v_true); (fld_65, v_false); (fld_66, v_true)]);
    ([tok_261], Some [(fld_30, (B "markdown")); (fld_32, (B " ")); (fld_33, v_na)]);
    ([tok_261; tok_1; tok_2; tok_3; tok_4], Some [(fld_1, (B ";")); (fld_2, (B ":")); (fld_8, v_true); (fld_9, v_true); (fld_30, (B "markdown")); (fld_32, (B " ")); (fld_33, v_na)]);
    ([tok_261; tok_5; tok_2; tok_6; tok_4], Some [(fld_30, (B "markdown")); (fld_32, (B ";")); (fld_33, (B ":")); (fld_37, v_true); (fld_38, v_true)]);
    ([tok_261; tok_7; tok_2; tok_8; tok_2], Some [(fld_3, (B ";")); (fld_10, v_true); (fld_30, (B "markdown")); (fld_31, (B ";")); (fld_32, (B " ")); (fld_33, v_na); (fld_39, v_true)]);
    ([tok_262], Some [(fld_30, (B "jsonl")); (fld_31, (B "")); (fld_32, (B "")); (fld_33, (B "")); (fld_65, v_false); (fld_66, v_true)]);
    ([tok_262; tok_1; tok_2; tok_3; tok_4], Some [(fld_1, (B ";")); (fld_2, (B ":")); (fld_8, v_true); (fld_9, v_true); (fld_30, (B "jsonl")); (fld_31, (B "")); (fld_32, (B "")); (fld_33, (B "")); (fld_65, v_false); (fld_66, v_true)]);
    ([tok_262; tok_5; tok_2; tok_6; tok_4], Some [(fld_30, (B "jsonl")); (fld_31, (B "")); (fld_32, (B ";")); (fld_33, (B ":")); (fld_37, v_true); (fld_38, v_true); (fld_65, v_false); (fld_66, v_true)]);
    ([tok_262; tok_7; tok_2; tok_8; tok_2], Some [(fld_3, (B ";")); (fld_10, v_true); (fld_30, (B "jsonl")); (fld_31, (B ";")); (fld_32, (B "")); (fld_33, (B "")); (fld_39, v_true); (fld_65, v_false); (fld_66, v_true)])]);
  (tok_243, [
    ([tok_241], Some [(fld_0, (B "csv")); (fld_2, v_na); (fld_30, (B "csv")); (fld_33, v_na)]);
    ([tok_241; tok_1; tok_2; tok_3; tok_4], Some [(fld_0, (B "csv")); (fld_1, (B ";")); (fld_2, (B ":")); (fld_8, v_true); (fld_9, v_true); (fld_30, (B "csv")); (fld_33, v_na)]);
    ([tok_241; tok_5; tok_2; tok_6; tok_4], Some [(fld_0, (B "csv")); (fld_2, v_na); (fld_30, (B "csv")); (fld_32, (B ";")); (fld_33, (B ":")); (fld_37, v_true); (fld_38, v_true)]);
    ([tok_241; tok_7; tok_2; tok_8; tok_2], Some [(fld_0, (B "csv")); (fld_2, v_na); (fld_3, (B ";")); (fld_10, v_true); (fld_30, (B "csv")); (fld_31, (B ";")); (fld_33, v_na); (fld_39, v_true)]);
    ([tok_244], Some [(fld_0, (B "csvlite")); (fld_2, v_na); (fld_30, (B "csvlite")); (fld_33, v_na)]);
    ([tok_244; tok_1; tok_2; tok_3; tok_4], Some [(fld_0, (B "csvlite")); (fld_1, (B ";")); (fld_2, (B ":")); (fld_8, v_true); (fld_9, v_true); (fld_30, (B "csvlite")); (fld_33, v_na)]);
    ([tok_244; tok_5; tok_2; tok_6; tok_4], Some [(fld_0, (B "csvlite")); (fld_2, v_na); (fld_30, (B "csvlite")); (fld_32, (B ";")); (fld_33, (B ":")); (fld_37, v_true); (fld_38, v_true)]);
    ([tok_244; tok_7; tok_2; tok_8; tok_2], Some [(fld_0, (B "csvlite")); (fld_2, v_na); (fld_3, (B ";")); (fld_10, v_true); (fld_30, (B "csvlite")); (fld_31, (B ";")); (fld_33, v_na); (fld_39, v_true)]);
    ([tok_245], Some [(fld_0, (B "dcf")); (fld_1, v_na); (fld_2, v_na); (fld_3, v_na); (fld_30, (B "dcf")); (fld_31, v_na); (fld_32, v_na); (fld_33, v_na); (fld_65, v_false)]);
    ([tok_245; tok_1; tok_2; tok_3; tok_4], Some [(fld_0, (B "dcf")); (fld_1, (B ";")); (fld_2, (B ":")); (fld_3, v_na); (fld_8, v_true); (fld_9, v_true); (fld_30, (B "dcf")); (fld_31, v_na); (fld_32, v_na); (fld_33, v_na); (fld_65, v_false)]);
    ([tok_245; tok_5; tok_2; tok_6; tok_4], Some [(fld_0, (B "dcf")); (fld_1, v_na); (fld_2, v_na); (fld_3, v_na); (fld_30, (B "dcf")); (fld_31, v_na); (fld_32, (B ";")); (fld_33, (B ":")); (fld_37, v_true); (fld_38, v_true); (fld_65, v_false)]);
    ([tok_245; tok_7; tok_2; tok_8; tok_2], Some [(fld_0, (B "dcf")); (fld_1, v_na); (fld_2, v_na); (fld_3, (B ";")); (fld_10, v_true); (fld_30, (B "dcf")); (fld_31, (B ";")); (fld_32, v_na); (fld_33, v_na); (fld_39, v_true); (fld_65, v_false)]);
    ([tok_246], Some []);
    ([tok_246; tok_1; tok_2; tok_3; tok_4], Some [(fld_1, (B ";")); (fld_2, (B ":")); (fld_8, v_true); (fld_9, v_true)]);
    ([tok_246; tok_5; tok_2; tok_6; tok_4], Some [(fld_32, (B ";")); (fld_33, (B ":")); (fld_37, v_true); (fld_38, v_true)]);
    ([tok_246; tok_7; tok_2; tok_8; tok_2], Some [(fld_3, (B ";")); (fld_10, v_true); (fld_31, (B ";")); (fld_39, v_true)]);
    ([tok_247], Some [(fld_0, (B "dkvpx")); (fld_30, (B "dkvpx"))]);
    ([tok_247; tok_1; tok_2; tok_3; tok_4], Some [(fld_0, (B "dkvpx")); (fld_1, (B ";")); (fld_2, (B ":")); (fld_8, v_true); (fld_9, v_true); (fld_30, (B "dkvpx"))]);
    ([tok_247; tok_5; tok_2; tok_6; tok_4], Some [(fld_0, (B "dkvpx")); (fld_30, (B "dkvpx")); (fld_32, (B ";")); (fld_33, (B ":")); (fld_37, v_true); (fld_38, v_true)]);
    ([tok_247; tok_7; tok_2; tok_8; tok_2], Some [(fld_0, (B "dkvpx")); (fld_3, (B ";")); (fld_10, v_true); (fld_30, (B "dkvpx")); (fld_31, (B ";")); (fld_39, v_true)]);
    ([tok_250], Some [(fld_0, (B "gen")); (fld_2, v_na); (fld_30, (B "gen")); (fld_33, v_na)]);
    ([tok_250; tok_1; tok_2; tok_3; tok_4], Some [(fld_0, (B "gen")); (fld_1, (B ";")); (fld_2, (B ":")); (fld_8, v_true); (fld_9, v_true); (fld_30, (B "gen")); (fld_33, v_na)]);
    ([tok_250; tok_5; tok_2; tok_6; tok_4], Some [(fld_0, (B "gen")); (fld_2, v_na); (fld_30, (B "gen")); (fld_32, (B ";")); (fld_33, (B ":")); (fld_37, v_true); (fld_38, v_true)]);
    ([tok_250; tok_7; tok_2; tok_8; tok_2], Some [(fld_0, (B "gen")); (fld_2, v_na); (fld_3, (B ";")); (fld_10, v_true); (fld_30, (B "gen")); (fld_31, (B ";")); (fld_33, v_na); (fld_39, v_true)]);
    ([tok_253], Some [(fld_0, (B "json")); (fld_1, v_na); (fld_2, v_na); (fld_3, v_na); (fld_30, (B "json")); (fld_31, v_na); (fld_32, v_na); (fld_33, v_na); (fld_65, v_false)]);
    ([tok_253; tok_1; tok_2; tok_3; tok_4], Some [(fld_0, (B "json")); (fld_1, (B ";")); (fld_2, (B ":")); (fld_3, v_na); (fld_8, v_true); (fld_9, v_true); (fld_30, (B "json")); (fld_31, v_na); (fld_32, v_na); (fld_33, v_na); (fld_65, v_false)]);
    ([tok_253; tok_5; tok_2; tok_6; tok_4], Some [(fld_0, (B "json")); (fld_1, v_na); (fld_2, v_na); (fld_3, v_na); (fld_30, (B "json")); (fld_31, v_na); (fld_32, (B ";")); (fld_33, (B ":")); (fld_37, v_true); (fld_38, v_true); (fld_65, v_false)]);
    ([tok_253; tok_7; tok_2; tok_8; tok_2], Some [(fld_0, (B "json")); (fld_1, v_na); (fld_2, v_na); (fld_3, (B ";")); (fld_10, v_true); (fld_30, (B "json")); (fld_31, (B ";")); (fld_32, v_na); (fld_33, v_na); (fld_39, v_true); (fld_65, v_false)]);
    ([tok_254], Some [(fld_0, (B "markdown")); (fld_1, (B " ")); (fld_2, v_na); (fld_30, (B "markdown")); (fld_32, (B " ")); (fld_33, v_na)]);
    ([tok_254; tok_1; tok_2; tok_3; tok_4], Some [(fld_0, (B "markdown")); (fld_1, (B ";")); (fld_2, (B ":")); (fld_8, v_true); (fld_9, v_true); (fld_30, (B "markdown")); (fld_32, (B " ")); (fld_33, v_na)]);
    ([tok_254; tok_5; tok_2; tok_6; tok_4], Some [(fld_0, (B "markdown")); (fld_1, (B " ")); (fld_2, v_na); (fld_30, (B "markdown")); (fld_32, (B ";")); (fld_33, (B ":")); (fld_37, v_true); (fld_38, v_true)]);
    ([tok_254; tok_7; tok_2; tok_8; tok_2], Some [(fld_0, (B "markdown")); (fld_1, (B " ")); (fld_2, v_na); (fld_3, (B ";")); (fld_10, v_true); (fld_30, (B "markdown")); (fld_31, (B ";")); (fld_32, (B " ")); (fld_33, v_na); (fld_39, v_true)]);
    ([tok_255], Some [(fld_0, (B "nidx")); (fld_1, (B " ")); (fld_2, v_na); (fld_5, (B "([ \t])+")); (fld_30, (B "nidx")); (fld_32, (B " ")); (fld_33, v_na)]);
    ([tok_255; tok_1; tok_2; tok_3; tok_4], Some [(fld_0, (B "nidx")); (fld_1, (B ";")); (fld_2, (B ":")); (fld_8, v_true); (fld_9, v_true); (fld_30, (B "nidx")); (fld_32, (B " ")); (fld_33, v_na)]);
    ([tok_255; tok_5; tok_2; tok_6; tok_4], Some [(fld_0, (B "nidx")); (fld_1, (B " ")); (fld_2, v_na); (fld_5, (B "([ \t])+")); (fld_30, (B "nidx")); (fld_32, (B ";")); (fld_33, (B ":")); (fld_37, v_true); (fld_38, v_true)]);
    ([tok_255; tok_7; tok_2; tok_8; tok_2], Some [(fld_0, (B "nidx")); (fld_1, (B " ")); (fld_2, v_na); (fld_3, (B ";")); (fld_5, (B "([ \t])+")); (fld_10, v_true); (fld_30, (B "nidx")); (fld_31, (B ";")); (fld_32, (B " ")); (fld_33, v_na); (fld_39, v_true)]);
    ([tok_256], Some [(fld_0, (B "pprint")); (fld_1, (B " ")); (fld_2, v_na); (fld_4, v_true); (fld_30, (B "pprint")); (fld_32, (B " ")); (fld_33, v_na)]);
    ([tok_256; tok_1; tok_2; tok_3; tok_4], Some [(fld_0, (B "pprint")); (fld_1, (B ";")); (fld_2, (B ":")); (fld_4, v_true); (fld_8, v_true); (fld_9, v_true); (fld_30, (B "pprint")); (fld_32, (B " ")); (fld_33, v_na)]);
    ([tok_256; tok_5; tok_2; tok_6; tok_4], Some [(fld_0, (B "pprint")); (fld_1, (B " ")); (fld_2, v_na); (fld_4, v_true); (fld_30, (B "pprint")); (fld_32, (B ";")); (fld_33, (B ":")); (fld_37, v_true); (fld_38, v_true)]);
    ([tok_256; tok_7; tok_2; tok_8; tok_2], Some [(fld_0, (B "pprint")); (fld_1, (B " ")); (fld_2, v_na); (fld_3, (B ";")); (fld_4, v_true); (fld_10, v_true); (fld_30, (B "pprint")); (fld_31, (B ";")); (fld_32, (B " ")); (fld_33, v_na); (fld_39, v_true)]);
    ([tok_257], Some [(fld_0, (B "recutils")); (fld_1, v_na); (fld_2, v_na); (fld_3, v_na); (fld_30, (B "recutils")); (fld_31, v_na); (fld_32, v_na); (fld_33, v_na)]);
    ([tok_257; tok_1; tok_2; tok_3; tok_4], Some [(fld_0, (B "recutils")); (fld_1, (B ";")); (fld_2, (B ":")); (fld_3, v_na); (fld_8, v_true); (fld_9, v_true); (fld_30, (B "recutils")); (fld_31, v_na); (fld_32, v_na); (fld_33, v_na)]);
    ([tok_257; tok_5; tok_2; tok_6; tok_4], Some [(fld_0, (B "recutils")); (fld_1, v_na); (fld_2, v_na); (fld_3, v_na); (fld_30, (B "recutils")); (fld_31, v_na); (fld_32, (B ";")); (fld_33, (B ":")); (fld_37, v_true); (fld_38, v_true)]);
    ([tok_257; tok_7; tok_2; tok_8; tok_2], Some [(fld_0, (B "recutils")); (fld_1, v_na); (fld_2, v_na); (fld_3, (B ";")); (fld_10, v_true); (fld_30, (B "recutils")); (fld_31, (B ";")); (fld_32, v_na); (fld_33, v_na); (fld_39, v_true)]);
    ([tok_258], Some [(fld_0, (B "tsv")); (fld_1, (bs [9]%N)); (fld_2, v_na); (fld_30, (B "tsv")); (fld_32, (bs [9]%N)); (fld_33, v_na)]);
    ([tok_258; tok_1; tok_2; tok_3; tok_4], Some [(fld_0, (B "tsv")); (fld_1, (B ";")); (fld_2, (B ":")); (fld_8, v_true); (fld_9, v_true); (fld_30, (B "tsv")); (fld_32, (bs [9]%N)); (fld_33, v_na)]);
    ([tok_258; tok_5; tok_2; tok_6; tok_4], Some [(fld_0, (B "tsv")); (fld_1, (bs [9]%N)); (fld_2, v_na); (fld_30, (B "tsv")); (fld_32, (B ";")); (fld_33, (B ":")); (fld_37, v_true); (fld_38, v_true)]);
    ([tok_258; tok_7; tok_2; tok_8; tok_2], Some [(fld_0, (B "tsv")); (fld_1, (bs [9]%N)); (fld_2, v_na); (fld_3, (B ";")); (fld_10, v_true); (fld_30, (B "tsv")); (fld_31, (B ";")); (fld_32, (bs [9]%N)); (fld_33, v_na); (fld_39, v_true)]);
    ([tok_259], Some [(fld_0, (B "xtab")); (fld_1, (bs [10]%N)); (fld_2, (B " ")); (fld_3, (bs [10;10]%N)); (fld_30, (B "xtab")); (fld_31, (bs [10;10]%N)); (fld_32, (bs [10]%N)); (fld_33, (B " "))]);
    ([tok_259; tok_1; tok_2; tok_3; tok_4], Some [(fld_0, (B "xtab")); (fld_1, (B ";")); (fld_2, (B ":")); (fld_3, (bs [10;10]%N)); (fld_8, v_true); (fld_9, v_true); (fld_30, (B "xtab")); (fld_31, (bs [10;10]%N)); (fld_32, (bs [10]%N)); (fld_33, (B " "))]);
    ([tok_259; tok_5; tok_2; tok_6; tok_4], Some [(fld_0, (B "xtab")); (fld_1, (bs [10]%N)); (fld_2, (B " ")); (fld_3, (bs [10;10]%N)); (fld_30, (B "xtab")); (fld_31, (bs [10;10]%N)); (fld_32, (B ";")); (fld_33, (B ":")); (fld_37, v_true); (fld_38, v_true)]);
    ([tok_259; tok_7; tok_2; tok_8; tok_2], Some [(fld_0, (B "xtab")); (fld_1, (bs [10]%N)); (fld_2, (B " ")); (fld_3, (B ";")); (fld_10, v_true); (fld_30, (B "xtab")); (fld_31, (B ";")); (fld_32, (bs [10]%N)); (fld_33, (B " ")); (fld_39, v_true)]);
    ([tok_260], Some [(fld_0, (B "yaml")); (fld_1, v_na); (fld_2, v_na); (fld_3, v_na); (fld_30, (B "yaml")); (fld_31, v_na); (fld_32, v_na); (fld_33, v_na); (fld_65, v_false)]);
    ([tok_260; tok_1; tok_2; tok_3; tok_4], Some [(fld_0, (B "yaml")); (fld_1, (B ";")); (fld_2, (B ":")); (fld_3, v_na); (fld_8, v_true); (fld_9, v_true); (fld_30, (B "yaml")); (fld_31, v_na); (fld_32, v_na); (fld_33, v_na); (fld_65, v_false)]);
    ([tok_260; tok_5; tok_2; tok_6; tok_4], Some [(fld_0, (B "yaml")); (fld_1, v_na); (fld_2, v_na); (fld_3, v_na); (fld_30, (B "yaml")); (fld_31, v_na); (fld_32, (B ";")); (fld_33, (B ":")); (fld_37, v_true); (fld_38, v_true); (fld_65, v_false)]);
    ([tok_260; tok_7; tok_2; tok_8; tok_2], Some [(fld_0, (B "yaml")); (fld_1, v_na); (fld_2, v_na); (fld_3, (B ";")); (fld_10, v_true); (fld_30, (B "yaml")); (fld_31, (B ";")); (fld_32, v_na); (fld_33, v_na); (fld_39, v_true); (fld_65, v_false)]);
    ([tok_261], Some [(fld_0, (B "markdown")); (fld_1, (B " ")); (fld_2, v_na); (fld_30, (B "markdown")); (fld_32, (B " ")); (fld_33, v_na)]);
    ([tok_261; tok_1; tok_2; tok_3; tok_4], Some [(fld_0, (B "markdown")); (fld_1, (B ";")); (fld_2, (B ":")); (fld_8, v_true); (fld_9, v_true); (fld_30, (B "markdown")); (fld_32, (B " ")); (fld_33, v_na)]);
    ([tok_261; tok_5; tok_2; tok_6; tok_4], Some [(fld_0, (B "markdown")); (fld_1, (B " ")); (fld_2, v_na); (fld_30, (B "markdown")); (fld_32, (B ";")); (fld_33, (B ":")); (fld_37, v_true); (fld_38, v_true)]);
    ([tok_261; tok_7; tok_2; tok_8; tok_2], Some [(fld_0, (B "markdown")); (fld_1, (B " ")); (fld_2, v_na); (fld_3, (B ";")); (fld_10, v_true); (fld_30, (B "markdown")); (fld_31, (B ";")); (fld_32, (B " ")); (fld_33, v_na); (fld_39, v_true)]);
    ([tok_262], Some [(fld_0, (B "json")); (fld_1, v_na); (fld_2, v_na); (fld_3, v_na); (fld_30, (B "jsonl")); (fld_31, (B "")); (fld_32, (B "")); (fld_33, (B "")); (fld_65, v_false)]);
    ([tok_262; tok_1; tok_2; tok_3; tok_4], Some [(fld_0, (B "json")); (fld_1, (B ";")); (fld_2, (B ":")); (fld_3, v_na); (fld_8, v_true); (fld_9, v_true); (fld_30, (B "jsonl")); (fld_31, (B "")); (fld_32, (B "")); (fld_33, (B "")); (fld_65, v_false)]);
    ([tok_262; tok_5; tok_2; tok_6; tok_4], Some [(fld_0, (B "json")); (fld_1, v_na); (fld_2, v_na); (fld_3, v_na); (fld_30, (B "jsonl")); (fld_31, (B "")); (fld_32, (B ";")); (fld_33, (B ":")); (fld_37, v_true); (fld_38, v_true); (fld_65, v_false)]);
    ([tok_262; tok_7; tok_2; tok_8; tok_2], Some [(fld_0, (B "json")); (fld_1, v_na); (fld_2, v_na); (fld_3, (B ";")); (fld_10, v_true); (fld_30, (B "jsonl")); (fld_31, (B ";")); (fld_32, (B "")); (fld_33, (B "")); (fld_39, v_true); (fld_65, v_false)])]);
  (tok_248, [
    ([], None);
    ([tok_1; tok_2; tok_3; tok_4], None);
    ([tok_5; tok_2; tok_6; tok_4], None);
    ([tok_7; tok_2; tok_8; tok_2], None)]);
  (tok_249, [
    ([], None);
    ([tok_1; tok_2; tok_3; tok_4], None);
    ([tok_5; tok_2; tok_6; tok_4], None);
    ([tok_7; tok_2; tok_8; tok_2], None)]);
  (tok_251, [
    ([], None);
    ([tok_1; tok_2; tok_3; tok_4], None);
    ([tok_5; tok_2; tok_6; tok_4], None);
    ([tok_7; tok_2; tok_8; tok_2], None)]);
  (tok_252, [
    ([], None);
    ([tok_1; tok_2; tok_3; tok_4], None);
    ([tok_5; tok_2; tok_6; tok_4], None);
    ([tok_7; tok_2; tok_8; tok_2], None)]);
  (tok_236, [
    ([tok_263], Some [(fld_1, (bs [27]%N)); (fld_8, v_true); (fld_32, (bs [27]%N)); (fld_37, v_true)]);
    ([tok_264], Some [(fld_1, (bs [27]%N)); (fld_8, v_true); (fld_32, (bs [27]%N)); (fld_37, v_true)]);
    ([tok_265], Some [(fld_1, (bs [3]%N)); (fld_8, v_true); (fld_32, (bs [3]%N)); (fld_37, v_true)]);
    ([tok_266], Some [(fld_1, (bs [3]%N)); (fld_8, v_true); (fld_32, (bs [3]%N)); (fld_37, v_true)]);
    ([tok_267], Some [(fld_1, (bs [28]%N)); (fld_8, v_true); (fld_32, (bs [28]%N)); (fld_37, v_true)]);
    ([tok_268], Some [(fld_1, (bs [28]%N)); (fld_8, v_true); (fld_32, (bs [28]%N)); (fld_37, v_true)]);
    ([tok_269], Some [(fld_1, (bs [29]%N)); (fld_8, v_true); (fld_32, (bs [29]%N)); (fld_37, v_true)]);
    ([tok_270], Some [(fld_1, (bs [29]%N)); (fld_8, v_true); (fld_32, (bs [29]%N)); (fld_37, v_true)]);
    ([tok_271], Some [(fld_1, (bs [0]%N)); (fld_8, v_true); (fld_32, (bs [0]%N)); (fld_37, v_true)]);
    ([tok_272], Some [(fld_1, (bs [0]%N)); (fld_8, v_true); (fld_32, (bs [0]%N)); (fld_37, v_true)]);
    ([tok_273], Some [(fld_1, (bs [30]%N)); (fld_8, v_true); (fld_32, (bs [30]%N)); (fld_37, v_true)]);
    ([tok_274], Some [(fld_1, (bs [30]%N)); (fld_8, v_true); (fld_32, (bs [30]%N)); (fld_37, v_true)]);
    ([tok_275], Some [(fld_1, (bs [1]%N)); (fld_8, v_true); (fld_32, (bs [1]%N)); (fld_37, v_true)]);
    ([tok_276], Some [(fld_1, (bs [1]%N)); (fld_8, v_true); (fld_32, (bs [1]%N)); (fld_37, v_true)]);
    ([tok_277], Some [(fld_1, (bs [2]%N)); (fld_8, v_true); (fld_32, (bs [2]%N)); (fld_37, v_true)]);
    ([tok_278], Some [(fld_1, (bs [2]%N)); (fld_8, v_true); (fld_32, (bs [2]%N)); (fld_37, v_true)]);
    ([tok_279], Some [(fld_1, (bs [31]%N)); (fld_8, v_true); (fld_32, (bs [31]%N)); (fld_37, v_true)]);
    ([tok_280], Some [(fld_1, (bs [31]%N)); (fld_8, v_true); (fld_32, (bs [31]%N)); (fld_37, v_true)]);
    ([tok_281], Some [(fld_1, (bs [31]%N)); (fld_8, v_true); (fld_32, (bs [31]%N)); (fld_37, v_true)]);
    ([tok_282], Some [(fld_1, (bs [30]%N)); (fld_8, v_true); (fld_32, (bs [30]%N)); (fld_37, v_true)]);
    ([tok_283], Some [(fld_1, (B ":")); (fld_8, v_true); (fld_32, (B ":")); (fld_37, v_true)]);
    ([tok_4], Some [(fld_1, (B ":")); (fld_8, v_true); (fld_32, (B ":")); (fld_37, v_true)]);
    ([tok_284], Some [(fld_8, v_true); (fld_37, v_true)]);
    ([tok_285], Some [(fld_8, v_true); (fld_37, v_true)]);
    ([tok_286], Some [(fld_1, (bs [13]%N)); (fld_8, v_true); (fld_32, (bs [13]%N)); (fld_37, v_true)]);
    ([tok_287], Some [(fld_1, (bs [13]%N)); (fld_8, v_true); (fld_32, (bs [13]%N)); (fld_37, v_true)]);
    ([tok_288], Some [(fld_1, (bs [13;13]%N)); (fld_8, v_true); (fld_32, (bs [13;13]%N)); (fld_37, v_true)]);
    ([tok_289], Some [(fld_1, (bs [13;13]%N)); (fld_8, v_true); (fld_32, (bs [13;13]%N)); (fld_37, v_true)]);
    ([tok_290], Some [(fld_1, (bs [13;10]%N)); (fld_8, v_true); (fld_32, (bs [13;10]%N)); (fld_37, v_true)]);
    ([tok_291], Some [(fld_1, (bs [13;10]%N)); (fld_8, v_true); (fld_32, (bs [13;10]%N)); (fld_37, v_true)]);
    ([tok_292], Some [(fld_1, (bs [13;10;13;10]%N)); (fld_8, v_true); (fld_32, (bs [13;10;13;10]%N)); (fld_37, v_true)]);
    ([tok_293], Some [(fld_1, (bs [13;10;13;10]%N)); (fld_8, v_true); (fld_32, (bs [13;10;13;10]%N)); (fld_37, v_true)]);
    ([tok_294], Some [(fld_1, (B "=")); (fld_8, v_true); (fld_32, (B "=")); (fld_37, v_true)]);
    ([tok_295], Some [(fld_1, (B "=")); (fld_8, v_true); (fld_32, (B "=")); (fld_37, v_true)]);
    ([tok_296], Some [(fld_1, (bs [10]%N)); (fld_8, v_true); (fld_32, (bs [10]%N)); (fld_37, v_true)]);
    ([tok_297], Some [(fld_1, (bs [10]%N)); (fld_8, v_true); (fld_32, (bs [10]%N)); (fld_37, v_true)]);
    ([tok_298], Some [(fld_1, (bs [10;10]%N)); (fld_8, v_true); (fld_32, (bs [10;10]%N)); (fld_37, v_true)]);
    ([tok_299], Some [(fld_1, (bs [10;10]%N)); (fld_8, v_true); (fld_32, (bs [10;10]%N)); (fld_37, v_true)]);
    ([tok_300], Some [(fld_1, (bs [10]%N)); (fld_8, v_true); (fld_32, (bs [10]%N)); (fld_37, v_true)]);
    ([tok_301], Some [(fld_1, (B "|")); (fld_8, v_true); (fld_32, (B "|")); (fld_37, v_true)]);
    ([tok_302], Some [(fld_1, (B "|")); (fld_8, v_true); (fld_32, (B "|")); (fld_37, v_true)]);
    ([tok_214], Some [(fld_1, (B ";")); (fld_8, v_true); (fld_32, (B ";")); (fld_37, v_true)]);
    ([tok_2], Some [(fld_1, (B ";")); (fld_8, v_true); (fld_32, (B ";")); (fld_37, v_true)]);
    ([tok_303], Some [(fld_1, (B "/")); (fld_8, v_true); (fld_32, (B "/")); (fld_37, v_true)]);
    ([tok_304], Some [(fld_1, (B "/")); (fld_8, v_true); (fld_32, (B "/")); (fld_37, v_true)]);
    ([tok_238], Some [(fld_1, (B " ")); (fld_8, v_true); (fld_32, (B " ")); (fld_37, v_true)]);
    ([tok_305], Some [(fld_1, (B " ")); (fld_8, v_true); (fld_32, (B " ")); (fld_37, v_true)]);
    ([tok_237], Some [(fld_1, (bs [9]%N)); (fld_8, v_true); (fld_32, (bs [9]%N)); (fld_37, v_true)]);
    ([tok_306], Some [(fld_1, (bs [9]%N)); (fld_8, v_true); (fld_32, (bs [9]%N)); (fld_37, v_true)]);
    ([tok_307], Some [(fld_1, (bs [226;144;159]%N)); (fld_8, v_true); (fld_32, (bs [226;144;159]%N)); (fld_37, v_true)]);
    ([tok_308], Some [(fld_1, (bs [226;144;159]%N)); (fld_8, v_true); (fld_32, (bs [226;144;159]%N)); (fld_37, v_true)]);
    ([tok_309], Some [(fld_1, (bs [226;144;158]%N)); (fld_8, v_true); (fld_32, (bs [226;144;158]%N)); (fld_37, v_true)]);
    ([tok_310], Some [(fld_1, (bs [226;144;158]%N)); (fld_8, v_true); (fld_32, (bs [226;144;158]%N)); (fld_37, v_true)])]);
  (tok_311, [
    ([tok_263], Some [(fld_2, (bs [27]%N)); (fld_9, v_true); (fld_33, (bs [27]%N)); (fld_38, v_true)]);
    ([tok_264], Some [(fld_2, (bs [27]%N)); (fld_9, v_true); (fld_33, (bs [27]%N)); (fld_38, v_true)]);
    ([tok_265], Some [(fld_2, (bs [3]%N)); (fld_9, v_true); (fld_33, (bs [3]%N)); (fld_38, v_true)]);
    ([tok_266], Some [(fld_2, (bs [3]%N)); (fld_9, v_true); (fld_33, (bs [3]%N)); (fld_38, v_true)]);
    ([tok_267], Some [(fld_2, (bs [28]%N)); (fld_9, v_true); (fld_33, (bs [28]%N)); (fld_38, v_true)]);
    ([tok_268], Some [(fld_2, (bs [28]%N)); (fld_9, v_true); (fld_33, (bs [28]%N)); (fld_38, v_true)]);
    ([tok_269], Some [(fld_2, (bs [29]%N)); (fld_9, v_true); (fld_33, (bs [29]%N)); (fld_38, v_true)]);
    ([tok_270], Some [(fld_2, (bs [29]%N)); (fld_9, v_true); (fld_33, (bs [29]%N)); (fld_38, v_true)]);
    ([tok_271], Some [(fld_2, (bs [0]%N)); (fld_9, v_true); (fld_33, (bs [0]%N)); (fld_38, v_true)]);
    ([tok_272], Some [(fld_2, (bs [0]%N)); (fld_9, v_true); (fld_33, (bs [0]%N)); (fld_38, v_true)]);
    ([tok_273], Some [(fld_2, (bs [30]%N)); (fld_9, v_true); (fld_33, (bs [30]%N)); (fld_38, v_true)]);
    ([tok_274], Some [(fld_2, (bs [30]%N)); (fld_9, v_true); (fld_33, (bs [30]%N)); (fld_38, v_true)]);
    ([tok_275], Some [(fld_2, (bs [1]%N)); (fld_9, v_true); (fld_33, (bs [1]%N)); (fld_38, v_true)]);
    ([tok_276], Some [(fld_2, (bs [1]%N)); (fld_9, v_true); (fld_33, (bs [1]%N)); (fld_38, v_true)]);
    ([tok_277], Some [(fld_2, (bs [2]%N)); (fld_9, v_true); (fld_33, (bs [2]%N)); (fld_38, v_true)]);
    ([tok_278], Some [(fld_2, (bs [2]%N)); (fld_9, v_true); (fld_33, (bs [2]%N)); (fld_38, v_true)]);
    ([tok_279], Some [(fld_2, (bs [31]%N)); (fld_9, v_true); (fld_33, (bs [31]%N)); (fld_38, v_true)]);
    ([tok_280], Some [(fld_2, (bs [31]%N)); (fld_9, v_true); (fld_33, (bs [31]%N)); (fld_38, v_true)]);
    ([tok_281], Some [(fld_2, (bs [31]%N)); (fld_9, v_true); (fld_33, (bs [31]%N)); (fld_38, v_true)]);
    ([tok_282], Some [(fld_2, (bs [30]%N)); (fld_9, v_true); (fld_33, (bs [30]%N)); (fld_38, v_true)]);
    ([tok_283], Some [(fld_2, (B ":")); (fld_9, v_true); (fld_33, (B ":")); (fld_38, v_true)]);
    ([tok_4], Some [(fld_2, (B ":")); (fld_9, v_true); (fld_33, (B ":")); (fld_38, v_true)]);
    ([tok_284], Some [(fld_2, (B ",")); (fld_9, v_true); (fld_33, (B ",")); (fld_38, v_true)]);
    ([tok_285], Some [(fld_2, (B ",")); (fld_9, v_true); (fld_33, (B ",")); (fld_38, v_true)]);
    ([tok_286], Some [(fld_2, (bs [13]%N)); (fld_9, v_true); (fld_33, (bs [13]%N)); (fld_38, v_true)]);
    ([tok_287], Some [(fld_2, (bs [13]%N)); (fld_9, v_true); (fld_33, (bs [13]%N)); (fld_38, v_true)]);
    ([tok_288], Some [(fld_2, (bs [13;13]%N)); (fld_9, v_true); (fld_33, (bs [13;13]%N)); (fld_38, v_true)]);
    ([tok_289], Some [(fld_2, (bs [13;13]%N)); (fld_9, v_true); (fld_33, (bs [13;13]%N)); (fld_38, v_true)]);
    ([tok_290], Some [(fld_2, (bs [13;10]%N)); (fld_9, v_true); (fld_33, (bs [13;10]%N)); (fld_38, v_true)]);
    ([tok_291], Some [(fld_2, (bs [13;10]%N)); (fld_9, v_true); (fld_33, (bs [13;10]%N)); (fld_38, v_true)]);
    ([tok_292], Some [(fld_2, (bs [13;10;13;10]%N)); (fld_9, v_true); (fld_33, (bs [13;10;13;10]%N)); (fld_38, v_true)]);
    ([tok_293], Some [(fld_2, (bs [13;10;13;10]%N)); (fld_9, v_true); (fld_33, (bs [13;10;13;10]%N)); (fld_38, v_true)]);
    ([tok_294], Some [(fld_9, v_true); (fld_38, v_true)]);
    ([tok_295], Some [(fld_9, v_true); (fld_38, v_true)]);
    ([tok_296], Some [(fld_2, (bs [10]%N)); (fld_9, v_true); (fld_33, (bs [10]%N)); (fld_38, v_true)]);
    ([tok_297], Some [(fld_2, (bs [10]%N)); (fld_9, v_true); (fld_33, (bs [10]%N)); (fld_38, v_true)]);
    ([tok_298], Some [(fld_2, (bs [10;10]%N)); (fld_9, v_true); (fld_33, (bs [10;10]%N)); (fld_38, v_true)]);
    ([tok_299], Some [(fld_2, (bs [10;10]%N)); (fld_9, v_true); (fld_33, (bs [10;10]%N)); (fld_38, v_true)]);
    ([tok_300], Some [(fld_2, (bs [10]%N)); (fld_9, v_true); (fld_33, (bs [10]%N)); (fld_38, v_true)]);
    ([tok_301], Some [(fld_2, (B "|")); (fld_9, v_true); (fld_33, (B "|")); (fld_38, v_true)]);
    ([tok_302], Some [(fld_2, (B "|")); (fld_9, v_true); (fld_33, (B "|")); (fld_38, v_true)]);
    ([tok_214], Some [(fld_2, (B ";")); (fld_9, v_true); (fld_33, (B ";")); (fld_38, v_true)]);
    ([tok_2], Some [(fld_2, (B ";")); (fld_9, v_true); (fld_33, (B ";")); (fld_38, v_true)]);
    ([tok_303], Some [(fld_2, (B "/")); (fld_9, v_true); (fld_33, (B "/")); (fld_38, v_true)]);
    ([tok_304], Some [(fld_2, (B "/")); (fld_9, v_true); (fld_33, (B "/")); (fld_38, v_true)]);
    ([tok_238], Some [(fld_2, (B " ")); (fld_9, v_true); (fld_33, (B " ")); (fld_38, v_true)]);
    ([tok_305], Some [(fld_2, (B " ")); (fld_9, v_true); (fld_33, (B " ")); (fld_38, v_true)]);
    ([tok_237], Some [(fld_2, (bs [9]%N)); (fld_9, v_true); (fld_33, (bs [9]%N)); (fld_38, v_true)]);
    ([tok_306], Some [(fld_2, (bs [9]%N)); (fld_9, v_true); (fld_33, (bs [9]%N)); (fld_38, v_true)]);
    ([tok_307], Some [(fld_2, (bs [226;144;159]%N)); (fld_9, v_true); (fld_33, (bs [226;144;159]%N)); (fld_38, v_true)]);
    ([tok_308], Some [(fld_2, (bs [226;144;159]%N)); (fld_9, v_true); (fld_33, (bs [226;144;159]%N)); (fld_38, v_true)]);
    ([tok_309], Some [(fld_2, (bs [226;144;158]%N)); (fld_9, v_true); (fld_33, (bs [226;144;158]%N)); (fld_38, v_true)]);
    ([tok_310], Some [(fld_2, (bs [226;144;158]%N)); (fld_9, v_true); (fld_33, (bs [226;144;158]%N)); (fld_38, v_true)])]);
  (tok_312, [
    ([tok_263], Some [(fld_3, (bs [27]%N)); (fld_10, v_true); (fld_31, (bs [27]%N)); (fld_39, v_true)]);
    ([tok_264], Some [(fld_3, (bs [27]%N)); (fld_10, v_true); (fld_31, (bs [27]%N)); (fld_39, v_true)]);
    ([tok_265], Some [(fld_3, (bs [3]%N)); (fld_10, v_true); (fld_31, (bs [3]%N)); (fld_39, v_true)]);
    ([tok_266], Some [(fld_3, (bs [3]%N)); (fld_10, v_true); (fld_31, (bs [3]%N)); (fld_39, v_true)]);
    ([tok_267], Some [(fld_3, (bs [28]%N)); (fld_10, v_true); (fld_31, (bs [28]%N)); (fld_39, v_true)]);
    ([tok_268], Some [(fld_3, (bs [28]%N)); (fld_10, v_true); (fld_31, (bs [28]%N)); (fld_39, v_true)]);
    ([tok_269], Some [(fld_3, (bs [29]%N)); (fld_10, v_true); (fld_31, (bs [29]%N)); (fld_39, v_true)]);
    ([tok_270], Some [(fld_3, (bs [29]%N)); (fld_10, v_true); (fld_31, (bs [29]%N)); (fld_39, v_true)]);
    ([tok_271], Some [(fld_3, (bs [0]%N)); (fld_10, v_true); (fld_31, (bs [0]%N)); (fld_39, v_true)]);
    ([tok_272], Some [(fld_3, (bs [0]%N)); (fld_10, v_true); (fld_31, (bs [0]%N)); (fld_39, v_true)]);
    ([tok_273], Some [(fld_3, (bs [30]%N)); (fld_10, v_true); (fld_31, (bs [30]%N)); (fld_39, v_true)]);
    ([tok_274], Some [(fld_3, (bs [30]%N)); (fld_10, v_true); (fld_31, (bs [30]%N)); (fld_39, v_true)]);
    ([tok_275], Some [(fld_3, (bs [1]%N)); (fld_10, v_true); (fld_31, (bs [1]%N)); (fld_39, v_true)]);
    ([tok_276], Some [(fld_3, (bs [1]%N)); (fld_10, v_true); (fld_31, (bs [1]%N)); (fld_39, v_true)]);
    ([tok_277], Some [(fld_3, (bs [2]%N)); (fld_10, v_true); (fld_31, (bs [2]%N)); (fld_39, v_true)]);
    ([tok_278], Some [(fld_3, (bs [2]%N)); (fld_10, v_true); (fld_31, (bs [2]%N)); (fld_39, v_true)]);
    ([tok_279], Some [(fld_3, (bs [31]%N)); (fld_10, v_true); (fld_31, (bs [31]%N)); (fld_39, v_true)]);
    ([tok_280], Some [(fld_3, (bs [31]%N)); (fld_10, v_true); (fld_31, (bs [31]%N)); (fld_39, v_true)]);
    ([tok_281], Some [(fld_3, (bs [31]%N)); (fld_10, v_true); (fld_31, (bs [31]%N)); (fld_39, v_true)]);
    ([tok_282], Some [(fld_3, (bs [30]%N)); (fld_10, v_true); (fld_31, (bs [30]%N)); (fld_39, v_true)]);
    ([tok_283], Some [(fld_3, (B ":")); (fld_10, v_true); (fld_31, (B ":")); (fld_39, v_true)]);
    ([tok_4], Some [(fld_3, (B ":")); (fld_10, v_true); (fld_31, (B ":")); (fld_39, v_true)]);
    ([tok_284], Some [(fld_3, (B ",")); (fld_10, v_true); (fld_31, (B ",")); (fld_39, v_true)]);
    ([tok_285], Some [(fld_3, (B ",")); (fld_10, v_true); (fld_31, (B ",")); (fld_39, v_true)]);
    ([tok_286], Some [(fld_3, (bs [13]%N)); (fld_10, v_true); (fld_31, (bs [13]%N)); (fld_39, v_true)]);
    ([tok_287], Some [(fld_3, (bs [13]%N)); (fld_10, v_true); (fld_31, (bs [13]%N)); (fld_39, v_true)]);
    ([tok_288], Some [(fld_3, (bs [13;13]%N)); (fld_10, v_true); (fld_31, (bs [13;13]%N)); (fld_39, v_true)]);
    ([tok_289], Some [(fld_3, (bs [13;13]%N)); (fld_10, v_true); (fld_31, (bs [13;13]%N)); (fld_39, v_true)]);
    ([tok_290], Some [(fld_3, (bs [13;10]%N)); (fld_10, v_true); (fld_31, (bs [13;10]%N)); (fld_39, v_true)]);
    ([tok_291], Some [(fld_3, (bs [13;10]%N)); (fld_10, v_true); (fld_31, (bs [13;10]%N)); (fld_39, v_true)]);
    ([tok_292], Some [(fld_3, (bs [13;10;13;10]%N)); (fld_10, v_true); (fld_31, (bs [13;10;13;10]%N)); (fld_39, v_true)]);
    ([tok_293], Some [(fld_3, (bs [13;10;13;10]%N)); (fld_10, v_true); (fld_31, (bs [13;10;13;10]%N)); (fld_39, v_true)]);
    ([tok_294], Some [(fld_3, (B "=")); (fld_10, v_true); (fld_31, (B "=")); (fld_39, v_true)]);
    ([tok_295], Some [(fld_3, (B "=")); (fld_10, v_true); (fld_31, (B "=")); (fld_39, v_true)]);
    ([tok_296], Some [(fld_10, v_true); (fld_39, v_true)]);
    ([tok_297], Some [(fld_10, v_true); (fld_39, v_true)]);
    ([tok_298], Some [(fld_3, (bs [10;10]%N)); (fld_10, v_true); (fld_31, (bs [10;10]%N)); (fld_39, v_true)]);
    ([tok_299], Some [(fld_3, (bs [10;10]%N)); (fld_10, v_true); (fld_31, (bs [10;10]%N)); (fld_39, v_true)]);
    ([tok_300], Some [(fld_10, v_true); (fld_39, v_true)]);
    ([tok_301], Some [(fld_3, (B "|")); (fld_10, v_true); (fld_31, (B "|")); (fld_39, v_true)]);
    ([tok_302], Some [(fld_3, (B "|")); (fld_10, v_true); (fld_31, (B "|")); (fld_39, v_true)]);
    ([tok_214], Some [(fld_3, (B ";")); (fld_10, v_true); (fld_31, (B ";")); (fld_39, v_true)]);
    ([tok_2], Some [(fld_3, (B ";")); (fld_10, v_true); (fld_31, (B ";")); (fld_39, v_true)]);
    ([tok_303], Some [(fld_3, (B "/")); (fld_10, v_true); (fld_31, (B "/")); (fld_39, v_true)]);
    ([tok_304], Some [(fld_3, (B "/")); (fld_10, v_true); (fld_31, (B "/")); (fld_39, v_true)]);
    ([tok_238], Some [(fld_3, (B " ")); (fld_10, v_true); (fld_31, (B " ")); (fld_39, v_true)]);
    ([tok_305], Some [(fld_3, (B " ")); (fld_10, v_true); (fld_31, (B " ")); (fld_39, v_true)]);
    ([tok_237], Some [(fld_3, (bs [9]%N)); (fld_10, v_true); (fld_31, (bs [9]%N)); (fld_39, v_true)]);
    ([tok_306], Some [(fld_3, (bs [9]%N)); (fld_10, v_true); (fld_31, (bs [9]%N)); (fld_39, v_true)]);
    ([tok_307], Some [(fld_3, (bs [226;144;159]%N)); (fld_10, v_true); (fld_31, (bs [226;144;159]%N)); (fld_39, v_true)]);
    ([tok_308], Some [(fld_3, (bs [226;144;159]%N)); (fld_10, v_true); (fld_31, (bs [226;144;159]%N)); (fld_39, v_true)]);
    ([tok_309], Some [(fld_3, (bs [226;144;158]%N)); (fld_10, v_true); (fld_31, (bs [226;144;158]%N)); (fld_39, v_true)]);
    ([tok_310], Some [(fld_3, (bs [226;144;158]%N)); (fld_10, v_true); (fld_31, (bs [226;144;158]%N)); (fld_39, v_true)])]);
  (tok_313, [
    ([tok_314], Some [(fld_5, (B "( )+")); (fld_8, v_true)]);
    ([tok_315], Some [(fld_5, (B "( )+")); (fld_8, v_true)]);
    ([tok_316], Some [(fld_5, (B "(\t)+")); (fld_8, v_true)]);
    ([tok_317], Some [(fld_5, (B "(\t)+")); (fld_8, v_true)]);
    ([tok_318], Some [(fld_5, (B "([ \t])+")); (fld_8, v_true)]);
    ([tok_319], Some [(fld_5, (B "([ \t])+")); (fld_8, v_true)])]);
  (tok_320, [
    ([tok_314], Some [(fld_6, (B "( )+")); (fld_9, v_true)]);
    ([tok_315], Some [(fld_6, (B "( )+")); (fld_9, v_true)]);
    ([tok_316], Some [(fld_6, (B "(\t)+")); (fld_9, v_true)]);
    ([tok_317], Some [(fld_6, (B "(\t)+")); (fld_9, v_true)]);
    ([tok_318], Some [(fld_6, (B "([ \t])+")); (fld_9, v_true)]);
    ([tok_319], Some [(fld_6, (B "([ \t])+")); (fld_9, v_true)])])].

(* the same as a flat association list: argv -> result *)
Definition gen_evals : list (list bytes * option (list (bytes * bytes))) :=
  ([], Some []) :: flat_map (fun g => map (fun e => (fst g :: fst e, snd e)) (snd g)) gen_evals_by_head.

Definition gen_sep_aliases : list (bytes * bytes) :=
  [((B "ascii_esc"), (B "\x1b")); ((B "ascii_etx"), (B "\x03")); ((B "ascii_fs"), (B "\x1c")); ((B "ascii_gs"), (B "\x1d")); ((B "ascii_null"), (B "\x00")); ((B "ascii_rs"), (B "\x1e")); ((B "ascii_soh"), (B "\x01")); ((B "ascii_stx"), (B "\x02")); ((B "ascii_us"), (B "\x1f")); ((B "asv_fs"), (B "\x1f")); ((B "asv_rs"), (B "\x1e")); ((B "colon"), (B ":")); ((B "comma"), (B ",")); ((B "cr"), (B "\r")); ((B "crcr"), (B "\r\r")); ((B "crlf"), (B "\r\n")); ((B "crlfcrlf"), (B "\r\n\r\n")); ((B "equals"), (B "=")); ((B "lf"), (B "\n")); ((B "lflf"), (B "\n\n")); ((B "newline"), (B "\n")); ((B "pipe"), (B "|")); ((B "semicolon"), (B ";")); ((B "slash"), (B "/")); ((B "space"), (B " ")); ((B "tab"), (B "\t")); ((B "usv_fs"), (B "\xe2\x90\x9f")); ((B "usv_rs"), (B "\xe2\x90\x9e"))].

Definition gen_sep_regex_aliases : list (bytes * bytes) :=
  [((B "spaces"), (B "( )+")); ((B "tabs"), (B "(\t)+")); ((B "whitespace"), (B "([ \t])+"))].

Definition gen_default_fs : list (bytes * bytes) :=
  [((B "csv"), (B ",")); ((B "csvlite"), (B ",")); ((B "dcf"), (B "N/A")); ((B "dkvp"), (B ",")); ((B "dkvpx"), (B ",")); ((B "gen"), (B ",")); ((B "json"), (B "N/A")); ((B "markdown"), (B " ")); ((B "nidx"), (B " ")); ((B "pprint"), (B " ")); ((B "recutils"), (B "N/A")); ((B "tsv"), (bs [9]%N)); ((B "xtab"), (bs [10]%N)); ((B "yaml"), (B "N/A"))].

Definition gen_default_ps : list (bytes * bytes) :=
  [((B "csv"), (B "N/A")); ((B "csvlite"), (B "N/A")); ((B "dcf"), (B "N/A")); ((B "dkvp"), (B "=")); ((B "dkvpx"), (B "=")); ((B "gen"), (B "N/A")); ((B "json"), (B "N/A")); ((B "markdown"), (B "N/A")); ((B "nidx"), (B "N/A")); ((B "pprint"), (B "N/A")); ((B "recutils"), (B "N/A")); ((B "tsv"), (B "N/A")); ((B "xtab"), (B " ")); ((B "yaml"), (B "N/A"))].

Definition gen_default_rs : list (bytes * bytes) :=
  [((B "csv"), (bs [10]%N)); ((B "csvlite"), (bs [10]%N)); ((B "dcf"), (B "N/A")); ((B "dkvp"), (bs [10]%N)); ((B "dkvpx"), (bs [10]%N)); ((B "gen"), (bs [10]%N)); ((B "json"), (B "N/A")); ((B "markdown"), (bs [10]%N)); ((B "nidx"), (bs [10]%N)); ((B "pprint"), (bs [10]%N)); ((B "recutils"), (B "N/A")); ((B "tsv"), (bs [10]%N)); ((B "xtab"), (bs [10;10]%N)); ((B "yaml"), (B "N/A"))].

Definition gen_default_repifs : list (bytes * bool) :=
  [((B "csv"), false); ((B "csvlite"), false); ((B "dcf"), false); ((B "dkvp"), false); ((B "dkvpx"), false); ((B "gen"), false); ((B "json"), false); ((B "markdown"), false); ((B "nidx"), false); ((B "pprint"), true); ((B "recutils"), false); ((B "tsv"), false); ((B "xtab"), false); ((B "yaml"), false)].
