(* REGENERATED on every run by harness/py/checks/c17_exitsites.py from pkg/**/*.go and cmd/mlr/**/*.go of the Miller
   tree under check: every os.Exit call, every creation of the lib.ExitRequest sentinel, every return of the
   cli.ErrUsagePrinted sentinel.  Columns: file, function, line, exit-code literal (None = an expression), a write to
   os.Stderr precedes in the same block, a stdout print precedes in the same block, kind of the guarding condition,
   the guarding condition is an `err != nil` test. *)
From Coq Require Import List String ZArith.
From Miller Require Import C17.ExitSiteTypes.
Import ListNotations.
Local Open Scope string_scope.
Definition exit_sites : list site := [
 mkSite "pkg/bifs/types.go" "assertingCommon" 344 (Some 1%Z) true false GOther false;
 mkSite "pkg/dsl/cst/builtin_function_manager.go" "hashifyLookupTable" 2692 (Some 1%Z) true false GOther false;
 mkSite "pkg/dsl/cst/evaluable.go" "Evaluate" 170 (Some 1%Z) true false GErrTest true;
 mkSite "pkg/dsl/cst/hofs.go" "getHOFSpace" 105 (Some 1%Z) true false GOther false;
 mkSite "pkg/dsl/cst/hofs.go" "getHOFSpace" 115 (Some 1%Z) true false GErrTest false;
 mkSite "pkg/dsl/cst/hofs.go" "getHOFSpace" 129 (Some 1%Z) true false GOther false;
 mkSite "pkg/dsl/cst/hofs.go" "hofCheckDie" 181 (Some 1%Z) true false GOther false;
 mkSite "pkg/dsl/cst/hofs.go" "isFunctionOrDie" 201 (Some 1%Z) true false GOther false;
 mkSite "pkg/dsl/cst/hofs.go" "selectArray" 247 (Some 1%Z) true false GErrTest false;
 mkSite "pkg/dsl/cst/hofs.go" "selectMap" 284 (Some 1%Z) true false GErrTest false;
 mkSite "pkg/dsl/cst/hofs.go" "SortHOF" 552 (Some 1%Z) true false GOther false;
 mkSite "pkg/dsl/cst/hofs.go" "sortAF" 869 (Some 1%Z) true false GErrTest false;
 mkSite "pkg/dsl/cst/hofs.go" "sortMF" 913 (Some 1%Z) true false GErrTest false;
 mkSite "pkg/dsl/cst/hofs.go" "anyArray" 965 (Some 1%Z) true false GErrTest false;
 mkSite "pkg/dsl/cst/hofs.go" "anyMap" 1003 (Some 1%Z) true false GErrTest false;
 mkSite "pkg/dsl/cst/hofs.go" "everyArray" 1055 (Some 1%Z) true false GErrTest false;
 mkSite "pkg/dsl/cst/hofs.go" "everyMap" 1093 (Some 1%Z) true false GErrTest false;
 mkSite "pkg/dsl/cst/udf.go" "Evaluate" 131 (Some 1%Z) true false GErrTest false;
 mkSite "pkg/dsl/cst/udf.go" "Evaluate" 188 (Some 1%Z) true false GOther false;
 mkSite "pkg/dsl/cst/udf.go" "Evaluate" 200 (Some 1%Z) true false GErrTest true;
 mkSite "pkg/dsl/cst/udf.go" "EvaluateWithArguments" 244 (Some 1%Z) true false GErrTest true;
 mkSite "pkg/dsl/cst/udf.go" "EvaluateWithArguments" 258 (Some 1%Z) true false GErrTest true;
 mkSite "pkg/dsl/cst/udf.go" "EvaluateWithArguments" 268 (Some 1%Z) true false GErrTest true;
 mkSite "pkg/dsl/cst/udf.go" "EvaluateWithArguments" 283 (Some 1%Z) true false GErrTest true;
 mkSite "pkg/dsl/cst/udf.go" "EvaluateWithArguments" 299 (Some 1%Z) true false GErrTest true;
 mkSite "pkg/entrypoint/entrypoint.go" "Main" 43 None false false GAuxent false;
 mkSite "pkg/entrypoint/entrypoint.go" "exitOnError" 80 (Some 0%Z) false false GHelp false;
 mkSite "pkg/entrypoint/entrypoint.go" "exitOnError" 82 (Some 1%Z) false false GUsagePrinted false;
 mkSite "pkg/entrypoint/entrypoint.go" "exitOnError" 84 None false false GExitRequest false;
 mkSite "pkg/entrypoint/entrypoint.go" "exitOnError" 87 (Some 1%Z) true false GOther false;
 mkSite "pkg/entrypoint/entrypoint.go" "exitOnError" 90 (Some 1%Z) true false GOther false;
 mkSite "pkg/lib/logger.go" "InternalCodingErrorIf" 41 (Some 1%Z) true false GOther false;
 mkSite "pkg/lib/logger.go" "InternalCodingErrorWithMessageIf" 73 (Some 1%Z) true false GOther false;
 mkSite "pkg/lib/mlrmath.go" "Invqnorm" 81 (Some 1%Z) true false GOther false;
 mkSite "pkg/lib/mlrmath.go" "GetRealSymmetricEigensystem" 181 (Some 1%Z) true false GOther false;
 mkSite "pkg/lib/mlrmath.go" "logisticRegressionAux" 420 (Some 1%Z) true false GOther false;
 mkSite "pkg/lib/regex.go" "CompileMillerRegexOrDie" 134 (Some 1%Z) true false GErrTest true;
 mkSite "pkg/mlrval/mlrval_get.go" "GetNumericToFloatValueOrDie" 175 (Some 1%Z) true false GErrTest false;
 mkSite "pkg/mlrval/mlrval_get.go" "StrictModeCheck" 187 (Some 1%Z) true false GOther false;
 mkSite "pkg/mlrval/mlrval_output.go" "setPrintRep" 103 (Some 1%Z) true false GErrTest true;
 mkSite "pkg/mlrval/mlrval_output.go" "setPrintRep" 112 (Some 1%Z) true false GErrTest true;
 mkSite "pkg/transformers/seqgen.go" "next" 206 (Some 1%Z) true false GOther false
].
Definition exit_request_sites : list site := [
 mkSite "pkg/cli/option_parse.go" "init" 3505 (Some 0%Z) false false GOther false;
 mkSite "pkg/cli/option_parse.go" "init" 3514 (Some 0%Z) false false GOther false;
 mkSite "pkg/climain/mlrcli_parse.go" "parseCommandLinePassOne" 157 (Some 0%Z) false true GOther false;
 mkSite "pkg/climain/mlrcli_parse.go" "parseCommandLinePassOne" 163 (Some 0%Z) false true GOther false;
 mkSite "pkg/climain/mlrcli_parse.go" "parseCommandLinePassOne" 169 (Some 0%Z) false false GOther false;
 mkSite "pkg/climain/mlrcli_parse.go" "parseCommandLinePassTwo" 401 None false false GOther false;
 mkSite "pkg/lib/exit.go" "NewExitZeroRequest" 23 (Some 0%Z) false false GExitRequest false;
 mkSite "pkg/transformers/put_or_filter.go" "NewTransformerPut" 480 (Some 0%Z) false true GOther false;
 mkSite "pkg/transformers/put_or_filter.go" "NewTransformerPut" 491 (Some 1%Z) true false GOther false;
 mkSite "pkg/transformers/put_or_filter.go" "NewTransformerPut" 495 (Some 0%Z) false false GOther false
].
Definition usage_printed_sites : list site := [
 mkSite "pkg/climain/mlrcli_parse.go" "parseCommandLinePassOne" 282 (Some 1%Z) true false GOther false;
 mkSite "pkg/transformers/gap.go" "transformerGapParseCLI" 88 (Some 1%Z) true false GErrTest false;
 mkSite "pkg/transformers/subs.go" "transformerSubsParseCLI" 198 (Some 1%Z) true false GOther false;
 mkSite "pkg/transformers/subs.go" "transformerSubsParseCLI" 204 (Some 1%Z) true false GErrTest false;
 mkSite "pkg/transformers/subs.go" "transformerSubsParseCLI" 210 (Some 1%Z) true false GOther false
].
