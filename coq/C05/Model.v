(* C05 model.  Definitions only.
   (1) Stream verbs and `then`-chaining: pkg/transformers/aaa_chain_transformer.go (ChainTransformer: verb i's output
       channel is verb i+1's input channel; runSingleTransformerBatch: one batch in, one batch out, the end-of-stream
       marker triggers the verb's end-of-stream emission and is forwarded).
   (2) The reader side: pkg/types/context.go (UpdateForStartOfFile / UpdateForInputRecord), the per-file reset of
       header state in pkg/input/record_reader_csv.go processHandle (needHeader / header), implicit header,
       pkg/input/record_reader_dkvp_nidx.go.
   (3) A dozen concrete type-stable verbs used by the correspondence check. *)
From Miller Require Import Base.Bytes Base.Record.
Open Scope Z_scope.

(* ------------------------------------------------------------------ (1) verbs and chains *)
Record verb := Verb {
  vstate : Type;
  vinit : vstate;
  vstep : vstate -> record -> vstate * list record;   (* Transform on a record *)
  vfinish : vstate -> list record                      (* Transform on the end-of-stream marker *)
}.

Fixpoint feed (v : verb) (s : vstate v) (xs : list record) : vstate v * list record :=
  match xs with
  | [] => (s, [])
  | x :: t => let '(s1, o1) := vstep v s x in let '(s2, o2) := feed v s1 t in (s2, o1 ++ o2)
  end.

Definition run (v : verb) (xs : list record) : list record :=
  let '(s, out) := feed v (vinit v) xs in out ++ vfinish v s.

(* `A then B`: B consumes what A emits, as it is emitted; at end of stream A's final emission is fed to B, then B ends *)
Definition chain (a b : verb) : verb :=
  Verb (vstate a * vstate b) (vinit a, vinit b)
       (fun s r => let '(sa, ys) := vstep a (fst s) r in let '(sb, zs) := feed b (snd s) ys in ((sa, sb), zs))
       (fun s => let '(sb, zs) := feed b (snd s) (vfinish a (fst s)) in zs ++ vfinish b sb).

Definition vcat : verb := Verb unit tt (fun s r => (s, [r])) (fun _ => []).

Fixpoint chain_list (vs : list verb) : verb :=
  match vs with [] => vcat | [v] => v | v :: t => chain v (chain_list t) end.

Fixpoint run_list (vs : list verb) (xs : list record) : list record :=
  match vs with [] => xs | v :: t => run_list t (run v xs) end.

(* batched execution (runSingleTransformerBatch): the reader delivers the input in batches of any sizes;
   the state persists across batches; the end-of-stream marker arrives after the last batch *)
Fixpoint feed_batches (v : verb) (s : vstate v) (bs : list (list record)) : vstate v * list (list record) :=
  match bs with
  | [] => (s, [])
  | b :: t => let '(s1, o1) := feed v s b in let '(s2, os) := feed_batches v s1 t in (s2, o1 :: os)
  end.
Definition run_batched (v : verb) (bs : list (list record)) : list record :=
  let '(s, outs) := feed_batches v (vinit v) bs in List.concat outs ++ vfinish v s.

(* ------------------------------------------------------------------ (2) context bookkeeping and multi-file reading *)
Record context := Ctx { filename : bytes; filenum : Z; nr : Z; fnr : Z }.
Definition ctx0 : context := Ctx (B "(stdin)") 0 0 0.                      (* NewContext *)
Definition start_file (c : context) (name : bytes) : context := Ctx name (filenum c + 1) (nr c) 0.   (* UpdateForStartOfFile *)
Definition input_record (c : context) : context := Ctx (filename c) (filenum c) (nr c + 1) (fnr c + 1).  (* UpdateForInputRecord *)

(* a line is the list of its fields; for DKVP each field carries its key, for CSV-like formats the key part is unused *)
Definition line := list (bytes * bytes).
Inductive rmode := MPairs | MHeader | MImplicit.

(* decimal rendering of positional keys / counters *)
Fixpoint dec_digits (fuel : nat) (n : Z) (acc : bytes) : bytes :=
  match fuel with
  | O => acc
  | S f => let d := ascii_of_N (Z.to_N (48 + n mod 10)) in
           if n <? 10 then d :: acc else dec_digits f (n / 10) (d :: acc)
  end.
Definition dec (n : Z) : bytes := if n <? 0 then "-"%char :: dec_digits 20 (- n) [] else dec_digits 20 n [].

Fixpoint positional (i : Z) (l : line) : record :=
  match l with [] => [] | (_, v) :: t => (dec i, v) :: positional (i + 1) t end.

(* header line + data line -> record; None on a length mismatch (the reader reports an error).
   Header keys are assumed distinct (the reader's key de-duplication a,a_2,... is not modelled). *)
Fixpoint zip_header (h : list bytes) (l : line) : option record :=
  match h, l with
  | [], [] => Some []
  | k :: h', (_, v) :: l' => match zip_header h' l' with Some r => Some ((k, v) :: r) | None => None end
  | _, _ => None
  end.
(* PutReference semantics for duplicate keys in a DKVP line: later value overwrites in place *)
Fixpoint of_pairs (l : line) (acc : record) : record :=
  match l with [] => acc | (k, v) :: t => of_pairs t (put k v acc) end.

(* the reader as a state machine over the flat event stream of all files *)
Inductive event := FileStart (name : bytes) | Line (l : line).
Record rstate := RS { rctx : context; rheader : option (list bytes); rfailed : bool }.

Definition reader_step (m : rmode) (s : rstate) (e : event) : rstate * list (record * context) :=
  if rfailed s then (s, []) else
  match e with
  | FileStart name =>
      (* processHandle: context.UpdateForStartOfFile; reader.needHeader / reader.header reset *)
      (RS (start_file (rctx s) name) None false, [])
  | Line l =>
      match m with
      | MPairs => let c := input_record (rctx s) in (RS c (rheader s) false, [(of_pairs l [], c)])
      | MImplicit => let c := input_record (rctx s) in (RS c (rheader s) false, [(positional 1 l, c)])
      | MHeader =>
          match rheader s with
          | None => (RS (rctx s) (Some (map snd l)) false, [])
          | Some h =>
              match zip_header h l with
              | Some r => let c := input_record (rctx s) in (RS c (rheader s) false, [(r, c)])
              | None => (RS (rctx s) (rheader s) true, [])
              end
          end
      end
  end.

Fixpoint reader_run (m : rmode) (s : rstate) (es : list event) : rstate * list (record * context) :=
  match es with
  | [] => (s, [])
  | e :: t => let '(s1, o1) := reader_step m s e in let '(s2, o2) := reader_run m s1 t in (s2, o1 ++ o2)
  end.

Definition file := (bytes * list line)%type.
Definition events_of (fs : list file) : list event :=
  flat_map (fun f => FileStart (fst f) :: map Line (snd f)) fs.
Definition rs0 : rstate := RS ctx0 None false.
Definition read_files (m : rmode) (fs : list file) : rstate * list (record * context) := reader_run m rs0 (events_of fs).

(* reading one file alone, as a function (the specification side of "inputs concatenate") *)
Fixpoint parse_rows (h : list bytes) (rows : list line) : option (list record) :=
  match rows with
  | [] => Some []
  | l :: t => match zip_header h l, parse_rows h t with
              | Some r, Some rs => Some (r :: rs)
              | _, _ => None
              end
  end.
Definition parse_file (m : rmode) (ls : list line) : option (list record) :=
  match m with
  | MPairs => Some (map (fun l => of_pairs l []) ls)
  | MImplicit => Some (map (positional 1) ls)
  | MHeader => match ls with [] => Some [] | h :: rows => parse_rows (map snd h) rows end
  end.

(* closed form of the contexts: record i (0-based) of file j (0-based), [before] records in earlier files *)
Fixpoint number_from (name : bytes) (fnum : Z) (before : Z) (i : Z) (rs : list record) : list (record * context) :=
  match rs with
  | [] => []
  | r :: t => (r, Ctx name fnum (before + i) i) :: number_from name fnum before (i + 1) t
  end.
Fixpoint spec_files (fnum : Z) (before : Z) (fs : list (bytes * list record)) : list (record * context) :=
  match fs with
  | [] => []
  | (name, rs) :: t => number_from name (fnum + 1) before 1 rs ++ spec_files (fnum + 1) (before + Z.of_nat (List.length rs)) t
  end.

(* ------------------------------------------------------------------ (3) concrete verbs *)
Fixpoint rename_key (old new : bytes) (r : record) : record :=
  match r with [] => [] | (k, v) :: t => if beqb k old then (new, v) :: t else (k, v) :: rename_key old new t end.
Definition rename_rec (old new : bytes) (r : record) : record :=
  match get old r with
  | None => r
  | Some v => if has new r then remove old (put new v r) else rename_key old new r
  end.

Definition v_map (f : record -> record) : verb := Verb unit tt (fun s r => (s, [f r])) (fun _ => []).
Definition v_tac : verb := Verb (list record) [] (fun s r => (r :: s, [])) (fun s => s).
Definition v_head (n : Z) : verb := Verb Z 0 (fun c r => if c <? n then (c + 1, [r]) else (c, [])) (fun _ => []).
Fixpoint lastn (n : nat) (l : list record) : list record :=
  if (Nat.leb (List.length l) n) then l else match l with [] => [] | _ :: t => lastn n t end.
Definition v_tail (n : Z) : verb := Verb (list record) [] (fun s r => (s ++ [r], [])) (fun s => lastn (Z.to_nat n) s).
Definition v_rename (old new : bytes) : verb := v_map (rename_rec old new).
Definition v_cut_keep (ks : list bytes) : verb := v_map (filter (fun kv => mem (fst kv) ks)).
Definition v_cut_drop (ks : list bytes) : verb := v_map (filter (fun kv => negb (mem (fst kv) ks))).
Definition v_reorder_head (k : bytes) : verb :=
  v_map (fun r => match get k r with Some v => (k, v) :: remove k r | None => r end).
Definition v_reorder_tail (k : bytes) : verb :=
  v_map (fun r => match get k r with Some v => remove k r ++ [(k, v)] | None => r end).
(* fill-down -f k (default: a field is missing when absent or empty); with only_if_absent (-a --only-if-absent) *)
Definition v_fill_down (only_if_absent : bool) (k : bytes) : verb :=
  Verb (option bytes) None
       (fun last r =>
          let present := match get k r with
                         | None => false
                         | Some v => if only_if_absent then true else match v with [] => false | _ => true end
                         end in
          if present then (get k r, [r])
          else match last with Some p => (last, [put k p r]) | None => (last, [r]) end)
       (fun _ => []).
(* put '$z = $x . "sfx"': absent . s = s *)
Definition v_put_dot (z x sfx : bytes) : verb :=
  v_map (fun r => put z (match get x r with Some v => v ++ sfx | None => sfx end) r).
(* cat -n: counter prepended under key n (PrependCopy: an existing n is overwritten in place) *)
Definition v_cat_n : verb :=
  Verb Z 0 (fun c r => (c + 1, [if has (B "n") r then put (B "n") (dec (c + 1)) r else (B "n", dec (c + 1)) :: r])) (fun _ => []).
(* count-similar -g k: groups in first-appearance order, emitted at end with the group size appended as count *)
Fixpoint group_add (key : bytes) (r : record) (gs : list (bytes * list record)) : list (bytes * list record) :=
  match gs with
  | [] => [(key, [r])]
  | (k, rs) :: t => if beqb k key then (k, rs ++ [r]) :: t else (k, rs) :: group_add key r t
  end.
Definition v_count_similar (k : bytes) : verb :=
  Verb (list (bytes * list record)) []
       (fun gs r => match get k r with Some v => (group_add v r gs, []) | None => (gs, []) end)
       (fun gs => flat_map (fun g => map (put (B "count") (dec (Z.of_nat (List.length (snd g))))) (snd g)) gs).
(* sort -f k: records having k, grouped by value in first-appearance order, groups ordered lexically ascending
   (bytewise); then the records lacking k, in original order *)
Fixpoint bytes_ltb (a b : bytes) : bool :=
  match a, b with
  | [], [] => false
  | [], _ :: _ => true
  | _ :: _, [] => false
  | x :: a', y :: b' => if (code x <? code y)%N then true else if (code y <? code x)%N then false else bytes_ltb a' b'
  end.
Fixpoint insert_group (g : bytes * list record) (gs : list (bytes * list record)) : list (bytes * list record) :=
  match gs with
  | [] => [g]
  | h :: t => if bytes_ltb (fst g) (fst h) then g :: h :: t else h :: insert_group g t
  end.
Definition sort_groups (gs : list (bytes * list record)) : list (bytes * list record) :=
  fold_left (fun acc g => insert_group g acc) gs [].
Definition v_sort_f (k : bytes) : verb :=
  Verb (list (bytes * list record) * list record) ([], [])
       (fun s r => match get k r with Some v => ((group_add v r (fst s), snd s), []) | None => ((fst s, snd s ++ [r]), []) end)
       (fun s => flat_map snd (sort_groups (fst s)) ++ snd s).
Definition v_nothing : verb := Verb unit tt (fun s _ => (s, [])) (fun _ => []).

Inductive vcode :=
| VCat | VTac | VHead (n : Z) | VTail (n : Z) | VRename (old new : bytes) | VCutKeep (ks : list bytes) | VCutDrop (ks : list bytes)
| VReorderHead (k : bytes) | VReorderTail (k : bytes) | VFillDown (a : bool) (k : bytes) | VPutDot (z x sfx : bytes) | VCatN
| VCountSimilar (k : bytes) | VSortF (k : bytes) | VNothing.

Definition verb_of (c : vcode) : verb :=
  match c with
  | VCat => vcat | VTac => v_tac | VHead n => v_head n | VTail n => v_tail n | VRename a b => v_rename a b
  | VCutKeep ks => v_cut_keep ks | VCutDrop ks => v_cut_drop ks | VReorderHead k => v_reorder_head k
  | VReorderTail k => v_reorder_tail k | VFillDown a k => v_fill_down a k | VPutDot z x s => v_put_dot z x s | VCatN => v_cat_n
  | VCountSimilar k => v_count_similar k | VSortF k => v_sort_f k | VNothing => v_nothing
  end.

Fixpoint zseq (start : Z) (n : nat) : list Z :=
  match n with O => [] | S k => start :: zseq (start + 1) k end.
Definition total_records (recs : list (list record)) : nat := List.length (List.concat recs).
