(* C05 model.  Definitions only.
   (1) Stream verbs and `then`-chaining: pkg/transformers/aaa_chain_transformer.go (ChainTransformer: verb i's output
       channel is verb i+1's input channel; runSingleTransformerBatch: one batch in, one batch out, the end-of-stream
       marker triggers the verb's end-of-stream emission and is forwarded).
   (2) The reader side: pkg/types/context.go (UpdateForStartOfFile / UpdateForInputRecord), the per-file reset of
       header state in pkg/input/record_reader_csv.go processHandle (needHeader / header), implicit header,
       pkg/input/record_reader_dkvp_nidx.go.
   (3) A dozen concrete type-stable verbs used by the correspondence check. *)
From Miller Require Import Base.Bytes Base.Record.
Open Scope Z_scope.

(* ------------------------------------------------------------------ (1) verbs and chains *)
Record verb := Verb {
  vstate : Type;
  vinit : vstate;
  vstep : vstate -> record -> vstate * list record;   (* Transform on a record *)
  vfinish : vstate -> list record                      (* Transform on the end-of-stream marker *)
}.

Fixpoint feed (v : verb) (s : vstate v) (xs : list record) : vstate v * list record :=
  match xs with
  | [] => (s, [])
  | x :: t => let '(s1, o1) := vstep v s x in let '(s2, o2) := feed v s1 t in (s2, o1 ++ o2)
  end.

Definition run (v : verb) (xs : list record) : list record :=
  let '(s, out) := feed v (vinit v) xs in out ++ vfinish v s.

(* `A then B`: B consumes what A emits, as it is emitted; at end of stream A's final emission is fed to B, then B ends *)
Definition chain (a b : verb) : verb :=
  Verb (vstate a * vstate b) (vinit a, vinit b)
       (fun s r => let '(sa, ys) := vstep a (fst s) r in let '(sb, zs) := feed b (snd s) ys in ((sa, sb), zs))
       (fun s => let '(sb, zs) := feed b (snd s) (vfinish a (fst s)) in zs ++ vfinish b sb).

Definition vcat : verb := Verb unit tt (fun s r => (s, [r])) (fun _ => []).

Fixpoint chain_list (vs : list verb) : verb :=
  match vs with [] => vcat | [v] => v | v :: t => chain v (chain_list t) end.

Fixpoint run_list (vs : list verb) (xs : list record) : list record :=
  match vs with [] => xs | v :: t => run_list t (run v xs) end.

(* batched execution (runSingleTransformerBatch): the reader delivers the input in batches of any sizes;
   the state persists across batches; the end-of-stream marker arrives after the last batch *)
Fixpoint feed_batches (v : verb) (s : vstate v) (bs : list (list record)) : vstate v * list (list record) :=
  match bs with
  | [] => (s, [])
  | b :: t => let '(s1, o1) := feed v s b in let '(s2, os) := feed_batches v s1 t in (s2, o1 :: os)
  end.
Definition run_batched (v : verb) (bs : list (list record)) : list record :=
  let '(s, outs) := feed_batches v (vinit v) bs in List.concat outs ++ vfinish v s.

(* ------------------------------------------------------------------ (2) context bookkeeping and multi-file reading *)
Record context := Ctx { filename : bytes; filenum : Z; nr : Z; fnr : Z }.
Definition ctx0 : context := Ctx (B "(stdin)") 0 0 0.                      (* NewContext *)
Definition start_file (c : context) (name : bytes) : context := Ctx name (filenum c + 1) (nr c) 0.   (* UpdateForStartOfFile *)
Definition input_record (c : context) : context := Ctx (filename c) (filenum c) (nr c + 1) (fnr c + 1).  (* UpdateForInputRecord *)

(* a line is the list of its fields; for DKVP each field carries its key, for CSV-like formats the key part is unused;
   the empty list is a blank line *)
Definition line := list (bytes * bytes).
Inductive rmode := MPairs | MHeader | MImplicit | MNidx.
(* reader options: format family; csvlite (vs csv); --no-dedupe-field-names off/on; --allow-ragged-csv-input *)
Record ropts := ROpts { o_mode : rmode; o_lite : bool; o_dedupe : bool; o_ragged : bool }.

(* decimal rendering of positional keys / counters *)
Fixpoint dec_digits (fuel : nat) (n : Z) (acc : bytes) : bytes :=
  match fuel with
  | O => acc
  | S f => let d := ascii_of_N (Z.to_N (48 + n mod 10)) in
           if n <? 10 then d :: acc else dec_digits f (n / 10) (d :: acc)
  end.
Definition dec (n : Z) : bytes := if n <? 0 then "-"%char :: dec_digits 20 (- n) [] else dec_digits 20 n [].

Fixpoint positional (i : Z) (l : line) : record :=
  match l with [] => [] | (_, v) :: t => (dec i, v) :: positional (i + 1) t end.
Fixpoint pos_keys (i : Z) (n : nat) : list bytes :=
  match n with O => [] | S k => dec i :: pos_keys (i + 1) k end.

(* RecordArena.PutDeferred (record_arena.go): new key -> append; existing key -> overwrite in place without dedupe,
   else append under the first free key_2, key_3, ... *)
Fixpoint first_free (fuel : nat) (k : bytes) (i : Z) (r : record) : bytes :=
  let cand := k ++ "_"%char :: dec i in
  match fuel with
  | O => cand
  | S f => if has cand r then first_free f k (i + 1) r else cand
  end.
Definition put_deferred (dedupe : bool) (k v : bytes) (r : record) : record :=
  if has k r then (if dedupe then put (first_free (S (List.length r)) k 2 r) v r else put k v r) else put k v r.

Fixpoint of_pairs (dedupe : bool) (l : line) (acc : record) : record :=
  match l with [] => acc | (k, v) :: t => of_pairs dedupe t (put_deferred dedupe k v acc) end.
(* header keys zipped with values, as far as both go *)
Fixpoint build (dedupe : bool) (h : list bytes) (vs : list bytes) (acc : record) : record :=
  match h, vs with
  | k :: h', v :: vs' => build dedupe h' vs' (put_deferred dedupe k v acc)
  | _, _ => acc
  end.
(* data longer than header: 1-up positional keys for the surplus *)
Fixpoint extras (dedupe : bool) (i : Z) (vs : list bytes) (acc : record) : record :=
  match vs with [] => acc | v :: t => extras dedupe (i + 1) t (put_deferred dedupe (dec i) v acc) end.
(* csvlite, header longer than data: empty values for the missing fields *)
Fixpoint fills (dedupe : bool) (h : list bytes) (acc : record) : record :=
  match h with [] => acc | k :: t => fills dedupe t (put_deferred dedupe k [] acc) end.

Definition row (o : ropts) (h vs : list bytes) : option record :=
  let nh := List.length h in let nd := List.length vs in
  if Nat.eqb nh nd then Some (build (o_dedupe o) h vs [])
  else if o_ragged o then
    let base := build (o_dedupe o) h vs [] in
    if Nat.ltb nh nd then Some (extras (o_dedupe o) (Z.of_nat nh + 1) (skipn nh vs) base)
    else if o_lite o then Some (fills (o_dedupe o) (skipn nd h) base)
    else Some base                      (* csv: "leave it short. This is a job for unsparsify." *)
  else None.                            (* header/data length mismatch: the reader reports an error *)

(* one input line against the header state of the current file *)
Inductive lres := LFail | LSkip (h : option (list bytes)) | LRec (h : option (list bytes)) (r : record).
Definition line_step (o : ropts) (h : option (list bytes)) (l : line) : lres :=
  match o_mode o with
  | MPairs => LRec h (of_pairs (o_dedupe o) l [])
  | MNidx => LRec h (positional 1 l)
  | MHeader | MImplicit =>
      (* a blank line: csvlite resets the schema; the CSV reader sees a row with one empty field *)
      let l1 := match l with [] => if o_lite o then [] else [([], [])] | _ => l end in
      match l1 with
      | [] => LSkip None
      | _ =>
          let vs := map snd l1 in
          match h with
          | None =>
              match o_mode o with
              | MHeader => LSkip (Some vs)
              | _ => let hh := pos_keys 1 (List.length vs) in
                     match row o hh vs with Some r => LRec (Some hh) r | None => LFail end
              end
          | Some hh => match row o hh vs with Some r => LRec h r | None => LFail end
          end
      end
  end.

(* the reader as a state machine over the flat event stream of all files *)
Inductive event := FileStart (name : bytes) | Line (l : line).
Record rstate := RS { rctx : context; rheader : option (list bytes); rfailed : bool }.

Definition reader_step (o : ropts) (s : rstate) (e : event) : rstate * list (record * context) :=
  if rfailed s then (s, []) else
  match e with
  | FileStart name =>
      (* processHandle: context.UpdateForStartOfFile; reader.needHeader / reader.header / headerStrings reset *)
      (RS (start_file (rctx s) name) None false, [])
  | Line l =>
      match line_step o (rheader s) l with
      | LFail => (RS (rctx s) (rheader s) true, [])
      | LSkip h => (RS (rctx s) h false, [])
      | LRec h r => let c := input_record (rctx s) in (RS c h false, [(r, c)])
      end
  end.

Fixpoint reader_run (o : ropts) (s : rstate) (es : list event) : rstate * list (record * context) :=
  match es with
  | [] => (s, [])
  | e :: t => let '(s1, o1) := reader_step o s e in let '(s2, o2) := reader_run o s1 t in (s2, o1 ++ o2)
  end.

Definition file := (bytes * list line)%type.
Definition events_of (fs : list file) : list event :=
  flat_map (fun f => FileStart (fst f) :: map Line (snd f)) fs.
Definition rs0 : rstate := RS ctx0 None false.
Definition read_files (o : ropts) (fs : list file) : rstate * list (record * context) := reader_run o rs0 (events_of fs).

(* reading one file alone, as a function (the specification side of "inputs concatenate") *)
Fixpoint parse_lines (o : ropts) (h : option (list bytes)) (ls : list line) : option (list record) :=
  match ls with
  | [] => Some []
  | l :: t =>
      match line_step o h l with
      | LFail => None
      | LSkip h' => parse_lines o h' t
      | LRec h' r => match parse_lines o h' t with Some rs => Some (r :: rs) | None => None end
      end
  end.
Definition parse_file (o : ropts) (ls : list line) : option (list record) := parse_lines o None ls.

(* closed form of the contexts: record i (0-based) of file j (0-based), [before] records in earlier files *)
Fixpoint number_from (name : bytes) (fnum : Z) (before : Z) (i : Z) (rs : list record) : list (record * context) :=
  match rs with
  | [] => []
  | r :: t => (r, Ctx name fnum (before + i) i) :: number_from name fnum before (i + 1) t
  end.
Fixpoint spec_files (fnum : Z) (before : Z) (fs : list (bytes * list record)) : list (record * context) :=
  match fs with
  | [] => []
  | (name, rs) :: t => number_from name (fnum + 1) before 1 rs ++ spec_files (fnum + 1) (before + Z.of_nat (List.length rs)) t
  end.

(* ------------------------------------------------------------------ (3) concrete verbs *)
Fixpoint rename_key (old new : bytes) (r : record) : record :=
  match r with [] => [] | (k, v) :: t => if beqb k old then (new, v) :: t else (k, v) :: rename_key old new t end.
Definition rename_rec (old new : bytes) (r : record) : record :=
  match get old r with
  | None => r
  | Some v => if beqb old new then r        (* no-op since /repo bdf02f36c *)
              else if has new r then remove old (put new v r) else rename_key old new r
  end.

Definition v_map (f : record -> record) : verb := Verb unit tt (fun s r => (s, [f r])) (fun _ => []).
Definition v_tac : verb := Verb (list record) [] (fun s r => (r :: s, [])) (fun s => s).
Definition v_head (n : Z) : verb := Verb Z 0 (fun c r => if c <? n then (c + 1, [r]) else (c, [])) (fun _ => []).
Fixpoint lastn (n : nat) (l : list record) : list record :=
  if (Nat.leb (List.length l) n) then l else match l with [] => [] | _ :: t => lastn n t end.
Definition v_tail (n : Z) : verb := Verb (list record) [] (fun s r => (s ++ [r], [])) (fun s => lastn (Z.to_nat n) s).
Definition v_rename (old new : bytes) : verb := v_map (rename_rec old new).
Definition v_cut_keep (ks : list bytes) : verb := v_map (filter (fun kv => mem (fst kv) ks)).
Definition v_cut_drop (ks : list bytes) : verb := v_map (filter (fun kv => negb (mem (fst kv) ks))).
Definition v_reorder_head (k : bytes) : verb :=
  v_map (fun r => match get k r with Some v => (k, v) :: remove k r | None => r end).
Definition v_reorder_tail (k : bytes) : verb :=
  v_map (fun r => match get k r with Some v => remove k r ++ [(k, v)] | None => r end).
(* fill-down -f k (default: a field is missing when absent or empty); with only_if_absent (-a --only-if-absent) *)
Definition v_fill_down (only_if_absent : bool) (k : bytes) : verb :=
  Verb (option bytes) None
       (fun last r =>
          let present := match get k r with
                         | None => false
                         | Some v => if only_if_absent then true else match v with [] => false | _ => true end
                         end in
          if present then (get k r, [r])
          else match last with Some p => (last, [put k p r]) | None => (last, [r]) end)
       (fun _ => []).
(* put '$z = $x . "sfx"': absent . s = s *)
Definition v_put_dot (z x sfx : bytes) : verb :=
  v_map (fun r => put z (match get x r with Some v => v ++ sfx | None => sfx end) r).
(* cat -n: counter prepended under key n (PrependCopy: an existing n is overwritten in place) *)
Definition v_cat_n : verb :=
  Verb Z 0 (fun c r => (c + 1, [if has (B "n") r then put (B "n") (dec (c + 1)) r else (B "n", dec (c + 1)) :: r])) (fun _ => []).
(* count-similar -g k: groups in first-appearance order, emitted at end with the group size appended as count *)
Fixpoint group_add (key : bytes) (r : record) (gs : list (bytes * list record)) : list (bytes * list record) :=
  match gs with
  | [] => [(key, [r])]
  | (k, rs) :: t => if beqb k key then (k, rs ++ [r]) :: t else (k, rs) :: group_add key r t
  end.
Definition v_count_similar (k : bytes) : verb :=
  Verb (list (bytes * list record)) []
       (fun gs r => match get k r with Some v => (group_add v r gs, []) | None => (gs, []) end)
       (fun gs => flat_map (fun g => map (put (B "count") (dec (Z.of_nat (List.length (snd g))))) (snd g)) gs).
(* sort -f k: records having k, grouped by value in first-appearance order, groups ordered lexically ascending
   (bytewise); then the records lacking k, in original order *)
Fixpoint bytes_ltb (a b : bytes) : bool :=
  match a, b with
  | [], [] => false
  | [], _ :: _ => true
  | _ :: _, [] => false
  | x :: a', y :: b' => if (code x <? code y)%N then true else if (code y <? code x)%N then false else bytes_ltb a' b'
  end.
Fixpoint insert_group (lt : bytes -> bytes -> bool) (g : bytes * list record) (gs : list (bytes * list record)) : list (bytes * list record) :=
  match gs with
  | [] => [g]
  | h :: t => if lt (fst g) (fst h) then g :: h :: t else h :: insert_group lt g t
  end.
Definition sort_groups (lt : bytes -> bytes -> bool) (gs : list (bytes * list record)) : list (bytes * list record) :=
  fold_left (fun acc g => insert_group lt g acc) gs [].
Definition v_sort_by (lt : bytes -> bytes -> bool) (k : bytes) : verb :=
  Verb (list (bytes * list record) * list record) ([], [])
       (fun s r => match get k r with Some v => ((group_add v r (fst s), snd s), []) | None => ((fst s, snd s ++ [r]), []) end)
       (fun s => flat_map snd (sort_groups lt (fst s)) ++ snd s).
Definition v_sort_f (k : bytes) : verb := v_sort_by bytes_ltb k.

(* sort -nf / -nr: mlrval.Cmp on values from data, restricted to the value domain of the generator: canonical decimal
   integers (numeric), every other text (string or empty; ordered bytewise, after all numbers) *)
Fixpoint parse_digits (s : bytes) (acc : Z) : Z :=
  match s with [] => acc | c :: t => parse_digits t (acc * 10 + (Z.of_N (code c) - 48)) end.
Definition parse_dec (s : bytes) : Z :=
  match s with c :: t => if Ascii.eqb c "-" then - parse_digits t 0 else parse_digits s 0 | [] => 0 end.
Definition num_of (s : bytes) : option Z := let n := parse_dec s in if beqb (dec n) s then Some n else None.
Definition ncmp_lt (a b : bytes) : bool :=
  match num_of a, num_of b with
  | Some x, Some y => x <? y
  | Some _, None => true
  | None, Some _ => false
  | None, None => bytes_ltb a b
  end.
Definition v_sort_n (descending : bool) (k : bytes) : verb :=
  v_sort_by (fun a b => if descending then ncmp_lt b a else ncmp_lt a b) k.

(* label n1,n2,...: Mlrmap.Label *)
Fixpoint label_take (names : list bytes) (r : record) (acc : record) : record * record :=
  match names, r with
  | n :: ns, (_, v) :: t => label_take ns t (put n v acc)
  | _, _ => (acc, r)
  end.
Definition label_rec (names : list bytes) (r : record) : record :=
  let '(other, rest) := label_take names r [] in
  fold_left (fun o kv => if has (fst kv) o then o else o ++ [kv]) rest other.
Definition v_label (names : list bytes) : verb := v_map (label_rec names).

(* regularize: records with the same key set get the key order of the first such record *)
Fixpoint insert_key (k : bytes) (l : list bytes) : list bytes :=
  match l with [] => [k] | h :: t => if bytes_ltb k h then k :: h :: t else h :: insert_key k t end.
Definition sort_keys (l : list bytes) : list bytes := fold_right insert_key [] l.
Fixpoint keys_eqb (a b : list bytes) : bool :=
  match a, b with [] , [] => true | x :: a', y :: b' => beqb x y && keys_eqb a' b' | _, _ => false end.
Fixpoint lookup_keys (sk : list bytes) (st : list (list bytes * list bytes)) : option (list bytes) :=
  match st with [] => None | (s, o) :: t => if keys_eqb sk s then Some o else lookup_keys sk t end.
Definition v_regularize : verb :=
  Verb (list (list bytes * list bytes)) []
       (fun st r => let ks := keys r in let sk := sort_keys ks in
                    match lookup_keys sk st with
                    | None => (st ++ [(sk, ks)], [r])
                    | Some orig => (st, [map (fun n => (n, match get n r with Some v => v | None => [] end)) orig])
                    end)
       (fun _ => []).

Definition v_nothing : verb := Verb unit tt (fun s _ => (s, [])) (fun _ => []).

(* fill-empty [-v X] [-S]: every empty-string value becomes the fill value (default N/A) *)
Definition v_fill_empty (fill : bytes) : verb :=
  v_map (map (fun kv => (fst kv, match snd kv with [] => fill | v => v end))).

(* fill-down --all [-a]: fill_down.go transformAll walks the record's own fields; a field is present when non-empty
   (or, with -a, always: it is in the record); present values are remembered per key, missing ones replaced in place *)
Fixpoint fda_fields (only_if_absent : bool) (st : record) (fs : record) : record * record :=
  match fs with
  | [] => (st, [])
  | (k, v) :: t =>
      let present := if only_if_absent then true else match v with [] => false | _ => true end in
      if present then let '(st1, t1) := fda_fields only_if_absent (put k v st) t in (st1, (k, v) :: t1)
      else let '(st1, t1) := fda_fields only_if_absent st t in
           (st1, (k, match get k st with Some p => p | None => v end) :: t1)
  end.
Definition v_fill_down_all (only_if_absent : bool) : verb :=
  Verb record [] (fun st r => let '(st1, r1) := fda_fields only_if_absent st r in (st1, [r1])) (fun _ => []).

(* cat -n -g k: per-group counters (the group is the value of k); records lacking k share the ungrouped counter;
   PrependCopy: an existing n is overwritten in place *)
Fixpoint bump (key : bytes) (cs : list (bytes * Z)) : Z * list (bytes * Z) :=
  match cs with
  | [] => (1, [(key, 1)])
  | (k, n) :: t => if beqb k key then (n + 1, (k, n + 1) :: t) else let '(c, t1) := bump key t in (c, (k, n) :: t1)
  end.
Definition v_cat_n_g (k : bytes) : verb :=
  Verb (Z * list (bytes * Z)) (0, [])
       (fun st r =>
          let '(c, st1) := match get k r with
                           | Some v => let '(c, cs) := bump v (snd st) in (c, (fst st, cs))
                           | None => (fst st + 1, (fst st + 1, snd st))
                           end in
          (st1, [if has (B "n") r then put (B "n") (dec c) r else (B "n", dec c) :: r]))
       (fun _ => []).

(* tee {file}: the records go on unchanged (the side file is not part of the stream) *)
Definition v_tee : verb := vcat.

Inductive vcode :=
| VCat | VTac | VHead (n : Z) | VTail (n : Z) | VRename (old new : bytes) | VCutKeep (ks : list bytes) | VCutDrop (ks : list bytes)
| VReorderHead (k : bytes) | VReorderTail (k : bytes) | VFillDown (a : bool) (k : bytes) | VPutDot (z x sfx : bytes) | VCatN
| VCountSimilar (k : bytes) | VSortF (k : bytes) | VNothing
| VSortN (descending : bool) (k : bytes) | VLabel (names : list bytes) | VRegularize
| VFillEmpty (fill : bytes) | VFillDownAll (only_if_absent : bool) | VCatNG (k : bytes) | VTee.

Definition verb_of (c : vcode) : verb :=
  match c with
  | VCat => vcat | VTac => v_tac | VHead n => v_head n | VTail n => v_tail n | VRename a b => v_rename a b
  | VCutKeep ks => v_cut_keep ks | VCutDrop ks => v_cut_drop ks | VReorderHead k => v_reorder_head k
  | VReorderTail k => v_reorder_tail k | VFillDown a k => v_fill_down a k | VPutDot z x s => v_put_dot z x s | VCatN => v_cat_n
  | VCountSimilar k => v_count_similar k | VSortF k => v_sort_f k | VNothing => v_nothing
  | VSortN d k => v_sort_n d k | VLabel ns => v_label ns | VRegularize => v_regularize
  | VFillEmpty f => v_fill_empty f | VFillDownAll a => v_fill_down_all a | VCatNG k => v_cat_n_g k | VTee => v_tee
  end.

Fixpoint zseq (start : Z) (n : nat) : list Z :=
  match n with O => [] | S k => start :: zseq (start + 1) k end.
Definition total_records (recs : list (list record)) : nat := List.length (List.concat recs).

(* ------------------------------------------------------------------ (4) verbs that can see the context *)
(* What a Go verb really receives: records WITH their contexts, and the end-of-stream marker's context.  A verb is
   oblivious when its output records do not depend on the contexts. *)
Definition crec := (record * context)%type.
Record cverb := CVerb {
  cstate : Type;
  cinit : cstate;
  cstep : cstate -> crec -> cstate * list crec;
  cfinish : cstate -> context -> list crec
}.
Fixpoint cfeed (v : cverb) (s : cstate v) (xs : list crec) : cstate v * list crec :=
  match xs with
  | [] => (s, [])
  | x :: t => let '(s1, o1) := cstep v s x in let '(s2, o2) := cfeed v s1 t in (s2, o1 ++ o2)
  end.
Definition crun (v : cverb) (xs : list crec) (endc : context) : list crec :=
  let '(s, out) := cfeed v (cinit v) xs in out ++ cfinish v s endc.
Definition cchain (a b : cverb) : cverb :=
  CVerb (cstate a * cstate b) (cinit a, cinit b)
        (fun s x => let '(sa, ys) := cstep a (fst s) x in let '(sb, zs) := cfeed b (snd s) ys in ((sa, sb), zs))
        (fun s c => let '(sb, zs) := cfeed b (snd s) (cfinish a (fst s) c) in zs ++ cfinish b sb c).
Definition oblivious (v : cverb) : Prop :=
  forall xs ys c c', map fst xs = map fst ys -> map fst (crun v xs c) = map fst (crun v ys c').
(* a context-free verb seen as a context-taking one: outputs carry the context of the input that triggered them *)
Definition lift (v : verb) : cverb :=
  CVerb (vstate v) (vinit v)
        (fun s x => let '(s1, outs) := vstep v s (fst x) in (s1, map (fun r => (r, snd x)) outs))
        (fun s c => map (fun r => (r, c)) (vfinish v s)).
(* a pipe: the downstream process reads the records afresh and numbers them itself *)
Definition renumber (name : bytes) (rs : list record) : list crec := number_from name 1 0 1 rs.
(* put '$nr = NR': NOT oblivious *)
Definition cput_nr : cverb :=
  CVerb unit tt (fun s x => (s, [(put (B "nr") (dec (nr (snd x))) (fst x), snd x)])) (fun _ _ => []).
