(* C05, contexts through the chain.  Definitions only.
   What the Go code does: every verb receives *types.RecordAndContext; the record-selecting / reordering verbs (tac,
   head, tail, filter, sort, grep, decimate, group-like, ...) pass those objects through unchanged, so a record keeps the
   context it was read with; put/filter bind the DSL's NR/FNR/FILENAME/FILENUM to the context of the record at hand
   (runtime.State.Update(inrec, context) in put_or_filter.go) and, for the end block, to the context carried by the
   end-of-stream marker, which is the reader's final context (stream.go / ChainTransformer forward the marker). *)
From Miller Require Import Base.Bytes Base.Record C05.Model.
Open Scope Z_scope.

(* put '... $_nr = NR; $_fnr = FNR; $_fn = FILENAME; $_fnum = FILENUM ...' under a guard on the record
   (unconditional, if, pattern-action block, ternary: the guard decides whether the variables are evaluated at all) *)
Definition annotate (c : context) (r : record) : record :=
  put (B "_fnum") (dec (filenum c)) (put (B "_fn") (filename c) (put (B "_fnr") (dec (fnr c)) (put (B "_nr") (dec (nr c)) r))).
Definition annot (guard : record -> bool) (x : crec) : crec :=
  (if guard (fst x) then annotate (snd x) (fst x) else fst x, snd x).
Definition cput_ctx (guard : record -> bool) : cverb :=
  CVerb unit tt (fun s x => (s, [annot guard x])) (fun _ _ => []).

(* filter '<predicate on NR/FNR/FILENAME/FILENUM>' *)
Definition cfilter_ctx (p : context -> bool) : cverb :=
  CVerb unit tt (fun s x => (s, if p (snd x) then [x] else [])) (fun _ _ => []).

(* put -q 'end { emit {"e": NR . ":" . FNR . ":" . FILENAME . ":" . FILENUM} }' *)
Definition end_record (c : context) : record :=
  [(B "e", dec (nr c) ++ ":"%char :: dec (fnr c) ++ ":"%char :: filename c ++ ":"%char :: dec (filenum c))].
Definition cput_end : cverb := CVerb unit tt (fun s _ => (s, [])) (fun _ c => [(end_record c, c)]).

(* context-preserving selectors *)
Definition c_tac : cverb := CVerb (list crec) [] (fun s x => (x :: s, [])) (fun s _ => s).
Definition c_head (n : Z) : cverb := CVerb Z 0 (fun k x => if k <? n then (k + 1, [x]) else (k, [])) (fun _ _ => []).
Definition c_filter (p : record -> bool) : cverb := CVerb unit tt (fun s x => (s, if p (fst x) then [x] else [])) (fun _ _ => []).
Definition c_nothing : cverb := CVerb unit tt (fun s _ => (s, [])) (fun _ _ => []).

(* a selector only ever emits records it received, each with the context it arrived with *)
Definition selector (v : cverb) : Prop := forall xs c, incl (crun v xs c) xs.

(* the reader's context after the last file: FILENAME/FILENUM of the last file (also when it is empty), FNR = its record
   count, NR = all records *)
Definition end_ctx (c0 : context) (fs : list (bytes * list record)) : context :=
  fold_left (fun c f => Ctx (fst f) (filenum c + 1) (nr c + Z.of_nat (List.length (snd f))) (Z.of_nat (List.length (snd f)))) fs c0.
