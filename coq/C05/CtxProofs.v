(* C05, contexts through the chain: proofs. *)
From Miller Require Import Base.Bytes Base.Record C05.Model C05.Proofs C05.CtxModel.
Require Import Lia.
Open Scope Z_scope.

(* ---------- stateless per-record verbs ---------- *)
Lemma cfeed_map (f : crec -> list crec) (fin : unit -> context -> list crec) xs :
  cfeed (CVerb unit tt (fun s x => (s, f x)) fin) tt xs = (tt, flat_map f xs).
Proof.
  induction xs as [|x t IH]; cbn [cfeed flat_map]; [reflexivity|].
  cbn [cstep]. change (cfeed (CVerb unit tt (fun s x => (s, f x)) fin) tt t) with (cfeed (CVerb unit tt (fun s x => (s, f x)) fin) tt t).
  rewrite IH. reflexivity.
Qed.

Lemma crun_put_ctx guard ys c : crun (cput_ctx guard) ys c = map (annot guard) ys.
Proof.
  unfold crun, cput_ctx. cbn [cinit]. rewrite (cfeed_map (fun x => [annot guard x])). cbn [cfinish].
  rewrite app_nil_r. induction ys as [|y t IH]; cbn; [reflexivity|]. now rewrite IH.
Qed.

Lemma crun_filter_ctx p ys c : crun (cfilter_ctx p) ys c = filter (fun x => p (snd x)) ys.
Proof.
  unfold crun, cfilter_ctx. cbn [cinit]. rewrite (cfeed_map (fun x => if p (snd x) then [x] else [])). cbn [cfinish].
  rewrite app_nil_r. induction ys as [|y t IH]; cbn; [reflexivity|]. rewrite IH. destruct (p (snd y)); reflexivity.
Qed.

Lemma crun_put_end ys c : crun cput_end ys c = [(end_record c, c)].
Proof.
  unfold crun, cput_end. cbn [cinit]. rewrite (cfeed_map (fun _ => [])). cbn [cfinish].
  assert (H : flat_map (fun _ : crec => @nil crec) ys = []) by (induction ys; cbn; auto). now rewrite H.
Qed.

(* NR/FNR/FILENAME/FILENUM evaluated after ANY verb are those of the context each record carries out of that verb *)
Lemma context_travels v guard xs c :
  crun (cchain v (cput_ctx guard)) xs c = map (annot guard) (crun v xs c).
Proof. now rewrite cchain_is_composition, crun_put_ctx. Qed.

Lemma context_filter_after v p xs c :
  crun (cchain v (cfilter_ctx p)) xs c = filter (fun x => p (snd x)) (crun v xs c).
Proof. now rewrite cchain_is_composition, crun_filter_ctx. Qed.

(* ... and after a selector they are those of the record's own source *)
Lemma selector_annotates_own_source v guard xs c y :
  selector v -> In y (crun (cchain v (cput_ctx guard)) xs c) -> exists x, In x xs /\ y = annot guard x.
Proof.
  intros Hs Hy. rewrite context_travels in Hy. apply in_map_iff in Hy as (x & <- & Hx).
  exists x. split; [now apply (Hs xs c)|reflexivity].
Qed.

(* the end block sees the context of the end-of-stream marker whatever the verbs before it did *)
Lemma end_block_context v xs c : crun (cchain v cput_end) xs c = [(end_record c, c)].
Proof. now rewrite cchain_is_composition, crun_put_end. Qed.

(* ---------- selectors ---------- *)
Lemma selector_chain a b : selector a -> selector b -> selector (cchain a b).
Proof.
  intros Ha Hb xs c. rewrite cchain_is_composition. intros y Hy. apply (Ha xs c). now apply (Hb _ c).
Qed.

Lemma selector_filter p : selector (c_filter p).
Proof.
  intros xs c. unfold crun, c_filter. cbn [cinit]. rewrite (cfeed_map (fun x => if p (fst x) then [x] else [])). cbn [cfinish].
  rewrite app_nil_r. intros y Hy. apply in_flat_map in Hy as (x & Hx & Hy). destruct (p (fst x)); [|contradiction].
  destruct Hy as [<-|[]]. exact Hx.
Qed.

Lemma selector_nothing : selector c_nothing.
Proof.
  intros xs c. unfold crun, c_nothing. cbn [cinit]. rewrite (cfeed_map (fun _ => [])). cbn [cfinish].
  rewrite app_nil_r. intros y Hy. apply in_flat_map in Hy as (x & _ & []).
Qed.

Lemma tac_feed xs : forall s, cfeed c_tac s xs = (rev xs ++ s, []).
Proof.
  induction xs as [|x t IH]; intros s; cbn [cfeed]; [reflexivity|]. cbn [c_tac cstep].
  change (cfeed (CVerb (list crec) [] (fun s x => (x :: s, [])) (fun s _ => s)) (x :: s) t) with (cfeed c_tac (x :: s) t).
  rewrite IH. cbn [rev]. now rewrite <- app_assoc.
Qed.
Lemma crun_tac xs c : crun c_tac xs c = rev xs.
Proof. unfold crun. change (cinit c_tac) with (@nil crec). rewrite tac_feed. cbn. now rewrite app_nil_r. Qed.
Lemma selector_tac : selector c_tac.
Proof. intros xs c y Hy. rewrite crun_tac in Hy. now apply in_rev. Qed.

Lemma head_feed n xs : forall k, incl (snd (cfeed (c_head n) k xs)) xs.
Proof.
  induction xs as [|x t IH]; intros k; cbn [cfeed]; [intros y []|]. cbn [c_head cstep].
  destruct (k <? n).
  - change (cfeed (CVerb Z 0 (fun k x => if k <? n then (k + 1, [x]) else (k, [])) (fun _ _ => [])) (k + 1) t) with (cfeed (c_head n) (k + 1) t).
    specialize (IH (k + 1)). destruct (cfeed (c_head n) (k + 1) t) as [s2 o2]. cbn [snd app] in *.
    intros y [<-|Hy]; [now left|right; now apply IH].
  - change (cfeed (CVerb Z 0 (fun k x => if k <? n then (k + 1, [x]) else (k, [])) (fun _ _ => [])) k t) with (cfeed (c_head n) k t).
    specialize (IH k). destruct (cfeed (c_head n) k t) as [s2 o2]. cbn [snd app] in *.
    intros y Hy. right. now apply IH.
Qed.
Lemma selector_head n : selector (c_head n).
Proof.
  intros xs c. unfold crun. pose proof (head_feed n xs (cinit (c_head n))) as H.
  destruct (cfeed (c_head n) (cinit (c_head n)) xs) as [s o]. cbn [snd] in H. cbn [c_head cfinish]. now rewrite app_nil_r.
Qed.

(* ---------- the reader's final context ---------- *)
Lemma files_run_end m : forall fs recs c0 h0,
  Forall2 (fun f rs => parse_file m (snd f) = Some rs) fs recs ->
  rctx (fst (reader_run m (RS c0 h0 false) (events_of fs))) = end_ctx c0 (combine (map fst fs) recs).
Proof.
  induction fs as [|[name ls] t IH]; intros recs c0 h0 HF; inversion HF as [|? rs ? recs' Hp HF']; subst.
  - reflexivity.
  - unfold events_of. cbn [flat_map fst snd]. fold (events_of t).
    change (FileStart name :: map Line ls ++ events_of t) with ((FileStart name :: map Line ls) ++ events_of t).
    rewrite reader_run_app.
    destruct (file_run m name ls rs c0 h0 Hp) as [h1 H1]. rewrite H1.
    specialize (IH recs' (Ctx name (filenum c0 + 1) (nr c0 + Z.of_nat (List.length rs)) (Z.of_nat (List.length rs))) h1 HF').
    destruct (reader_run m (RS (Ctx name (filenum c0 + 1) (nr c0 + Z.of_nat (List.length rs)) (Z.of_nat (List.length rs))) h1 false) (events_of t)) as [s2 o2].
    cbn [fst] in *. rewrite IH. reflexivity.
Qed.

Lemma end_context_closed_form m fs recs :
  Forall2 (fun f rs => parse_file m (snd f) = Some rs) fs recs ->
  rctx (fst (read_files m fs)) = end_ctx ctx0 (combine (map fst fs) recs).
Proof. intros H. unfold read_files, rs0. now apply files_run_end. Qed.

Lemma end_ctx_counts : forall fs c0,
  filenum (end_ctx c0 fs) = filenum c0 + Z.of_nat (List.length fs)
  /\ nr (end_ctx c0 fs) = nr c0 + Z.of_nat (List.length (List.concat (map snd fs))).
Proof.
  induction fs as [|f t IH]; intros c0; cbn [end_ctx fold_left List.length map List.concat].
  - split; lia.
  - fold (end_ctx (Ctx (fst f) (filenum c0 + 1) (nr c0 + Z.of_nat (List.length (snd f))) (Z.of_nat (List.length (snd f)))) t).
    destruct (IH (Ctx (fst f) (filenum c0 + 1) (nr c0 + Z.of_nat (List.length (snd f))) (Z.of_nat (List.length (snd f))))) as [H1 H2].
    rewrite H1, H2. cbn [filenum nr]. rewrite app_length. split; lia.
Qed.

Lemma end_ctx_last c0 fs name rs :
  end_ctx c0 (fs ++ [(name, rs)]) =
  Ctx name (filenum c0 + Z.of_nat (List.length fs) + 1)
      (nr c0 + Z.of_nat (List.length (List.concat (map snd fs))) + Z.of_nat (List.length rs)) (Z.of_nat (List.length rs)).
Proof.
  unfold end_ctx. rewrite fold_left_app. cbn [fold_left fst snd]. fold (end_ctx c0 fs).
  destruct (end_ctx_counts fs c0) as [H1 H2]. now rewrite H1, H2.
Qed.
