(* C05 correspondence harness (vm_compute on cases written by harness/py/checks/c05.py). *)
From Miller Require Import Base.Bytes Base.Record C05.Model.
Open Scope Z_scope.

(* chain case: (verb codes, input records, observed output of `mlr v1 then v2 then ...`) *)
Definition chain_case := (list vcode * list record * list record)%type.
Definition chk_chain (c : chain_case) : bool :=
  let '(vs, xs, obs) := c in records_eqb (run (chain_list (map verb_of vs)) xs) obs.

(* multi-file case: (options, files, observed records each followed by its NR, FNR, FILENAME, FILENUM, observed NR in the
   end block or -1 when the run failed).  options = (mode, lite, dedupe, ragged) *)
Definition mode_of (z : Z) : rmode := if z =? 1 then MHeader else if z =? 2 then MImplicit else if z =? 3 then MNidx else MPairs.
Definition opts_of (t : Z * bool * bool * bool) : ropts := let '(m, l, d, r) := t in ROpts (mode_of m) l d r.
Definition files_case := ((Z * bool * bool * bool) * list file * list (record * (Z * Z * bytes * Z)) * Z)%type.

Fixpoint ctxs_ok (ms : list (record * context)) (os : list (record * (Z * Z * bytes * Z))) : bool :=
  match ms, os with
  | [], [] => true
  | (r, c) :: ms', (r', (onr, ofnr, ofile, ofnum)) :: os' =>
      record_eqb r r' && (nr c =? onr) && (fnr c =? ofnr) && beqb (filename c) ofile && (filenum c =? ofnum) && ctxs_ok ms' os'
  | _, _ => false
  end.

(* a failing read (header/data length mismatch) must be an error exit; what was printed before it is not compared *)
Definition chk_files (c : files_case) : bool :=
  let '(o, fs, obs, endnr) := c in
  let '(s, out) := read_files (opts_of o) fs in
  if rfailed s then endnr =? -1
  else ctxs_ok out obs && (nr (rctx s) =? endnr).
