(* C05 lemmas: chains are compositions, batching is irrelevant, multi-file bookkeeping has a closed form. *)
From Miller Require Import Base.Bytes Base.Record C05.Model.
Open Scope Z_scope.

(* ---------- chains ---------- *)
Lemma feed_app v : forall xs ys s,
  feed v s (xs ++ ys) = let '(s1, o1) := feed v s xs in let '(s2, o2) := feed v s1 ys in (s2, o1 ++ o2).
Proof.
  induction xs as [|x t IH]; intros ys s; cbn [feed app].
  - destruct (feed v s ys); reflexivity.
  - destruct (vstep v s x) as [s1 o1]. rewrite IH. destruct (feed v s1 t) as [s2 o2].
    destruct (feed v s2 ys) as [s3 o3]. now rewrite app_assoc.
Qed.

Lemma chain_feed a b : forall xs sa sb,
  feed (chain a b) (sa, sb) xs =
  let '(sa1, ys) := feed a sa xs in let '(sb1, zs) := feed b sb ys in ((sa1, sb1), zs).
Proof.
  induction xs as [|x t IH]; intros sa sb; cbn [feed]; [reflexivity|].
  cbn [chain vstep fst snd]. destruct (vstep a sa x) as [sa1 y1].
  destruct (feed b sb y1) as [sb1 z1] eqn:E1. rewrite IH.
  destruct (feed a sa1 t) as [sa2 y2]. rewrite feed_app, E1.
  destruct (feed b sb1 y2) as [sb2 z2]. reflexivity.
Qed.

Lemma chain_is_composition a b xs : run (chain a b) xs = run b (run a xs).
Proof.
  unfold run. cbn [vinit chain]. rewrite chain_feed.
  destruct (feed a (vinit a) xs) as [sa ys]. rewrite feed_app.
  destruct (feed b (vinit b) ys) as [sb zs]. cbn [vfinish chain fst snd].
  destruct (feed b sb (vfinish a sa)) as [sb2 ws]. now rewrite app_assoc.
Qed.

Lemma feed_vcat xs : forall s, feed vcat s xs = (s, xs).
Proof. induction xs as [|x t IH]; intros s; cbn; [reflexivity|]. now rewrite IH. Qed.

Lemma run_vcat xs : run vcat xs = xs.
Proof. unfold run. rewrite feed_vcat. cbn. apply app_nil_r. Qed.

Lemma chain_list_run vs : forall xs, run (chain_list vs) xs = run_list vs xs.
Proof.
  induction vs as [|v t IH]; intros xs; cbn [chain_list run_list]; [apply run_vcat|].
  destruct t as [|w t']; [reflexivity|]. rewrite chain_is_composition. apply IH.
Qed.

Lemma chain_assoc a b c xs : run (chain (chain a b) c) xs = run (chain a (chain b c)) xs.
Proof. now rewrite !chain_is_composition. Qed.

Lemma feed_batches_concat v : forall bs s,
  feed v s (List.concat bs) = let '(s1, outs) := feed_batches v s bs in (s1, List.concat outs).
Proof.
  induction bs as [|b t IH]; intros s; cbn [List.concat feed_batches feed]; [reflexivity|].
  rewrite feed_app. destruct (feed v s b) as [s1 o1]. rewrite IH. destruct (feed_batches v s1 t) as [s2 os]. reflexivity.
Qed.

Lemma batch_independence v bs : run_batched v bs = run v (List.concat bs).
Proof.
  unfold run_batched, run. rewrite feed_batches_concat. destruct (feed_batches v (vinit v) bs). reflexivity.
Qed.

Lemma chain_equals_pipe {T} (enc : list record -> T) (dec : T -> list record) a b xs :
  dec (enc (run a xs)) = run a xs -> run b (dec (enc (run a xs))) = run (chain a b) xs.
Proof. intros H. now rewrite H, chain_is_composition. Qed.

(* ---------- reader ---------- *)
Ltac ctx_eq :=
  repeat match goal with
         | |- (_, _) = (_, _) => f_equal
         | |- RS _ _ _ = RS _ _ _ => f_equal
         | |- Ctx _ _ _ _ = Ctx _ _ _ _ => f_equal
         | |- _ :: _ = _ :: _ => f_equal
         end; try reflexivity; try lia.

Lemma reader_run_app m : forall es1 es2 s,
  reader_run m s (es1 ++ es2) =
  let '(s1, o1) := reader_run m s es1 in let '(s2, o2) := reader_run m s1 es2 in (s2, o1 ++ o2).
Proof.
  induction es1 as [|e t IH]; intros es2 s; cbn [reader_run app].
  - destruct (reader_run m s es2); reflexivity.
  - destruct (reader_step m s e) as [s1 o1]. rewrite IH. destruct (reader_run m s1 t) as [s2 o2].
    destruct (reader_run m s2 es2) as [s3 o3]. now rewrite app_assoc.
Qed.

(* the lines of one file, from any header state *)
Lemma lines_run o name fn before : forall ls h rs i,
  parse_lines o h ls = Some rs ->
  exists h1,
  reader_run o (RS (Ctx name fn (before + i - 1) (i - 1)) h false) (map Line ls) =
  (RS (Ctx name fn (before + i - 1 + Z.of_nat (List.length rs)) (i - 1 + Z.of_nat (List.length rs))) h1 false,
   number_from name fn before i rs).
Proof.
  induction ls as [|l t IH]; intros h rs i Hp; cbn [parse_lines] in Hp.
  - injection Hp as <-. exists h. cbn. ctx_eq.
  - cbn [map reader_run reader_step rfailed rheader rctx].
    destruct (line_step o h l) as [|h'|h' r] eqn:E; [discriminate| |].
    + destruct (IH h' rs i Hp) as [h1 H1]. exists h1. rewrite H1. reflexivity.
    + destruct (parse_lines o h' t) as [rs'|] eqn:Ep; [|discriminate]. injection Hp as <-.
      destruct (IH h' rs' (i + 1) Ep) as [h1 H1]. exists h1.
      unfold input_record. cbn [filename filenum nr fnr].
      replace (before + i - 1 + 1) with (before + (i + 1) - 1) by lia.
      replace (i - 1 + 1) with (i + 1 - 1) by lia.
      rewrite H1. cbn [number_from app List.length]. ctx_eq.
Qed.

(* one whole file, from any non-failed state *)
Lemma file_run m name ls rs c0 h0 :
  parse_file m ls = Some rs ->
  exists h1,
  reader_run m (RS c0 h0 false) (FileStart name :: map Line ls) =
  (RS (Ctx name (filenum c0 + 1) (nr c0 + Z.of_nat (List.length rs)) (Z.of_nat (List.length rs))) h1 false,
   number_from name (filenum c0 + 1) (nr c0) 1 rs).
Proof.
  intros Hp. cbn [reader_run reader_step rfailed rctx]. unfold start_file.
  destruct (lines_run m name (filenum c0 + 1) (nr c0) ls None rs 1 Hp) as [h1 H].
  replace (nr c0 + 1 - 1) with (nr c0) in H by lia. replace (1 - 1) with 0 in H by lia.
  exists h1. rewrite H. cbn [app]. ctx_eq.
Qed.

Lemma files_run m : forall fs recs c0 h0,
  Forall2 (fun f rs => parse_file m (snd f) = Some rs) fs recs ->
  exists h1 name1 fnr1,
  reader_run m (RS c0 h0 false) (events_of fs) =
  (RS (Ctx name1 (filenum c0 + Z.of_nat (List.length fs)) (nr c0 + Z.of_nat (total_records recs)) fnr1) h1 false,
   spec_files (filenum c0) (nr c0) (combine (map fst fs) recs)).
Proof.
  induction fs as [|[name ls] t IH]; intros recs c0 h0 HF; inversion HF as [|? rs ? recs' Hp HF']; subst.
  - exists h0, (filename c0), (fnr c0). cbn. destruct c0; cbn. ctx_eq.
  - unfold events_of. cbn [flat_map fst snd]. fold (events_of t).
    change (FileStart name :: map Line ls ++ events_of t) with ((FileStart name :: map Line ls) ++ events_of t).
    rewrite reader_run_app.
    destruct (file_run m name ls rs c0 h0 Hp) as [h1 H1]. rewrite H1.
    destruct (IH recs' (Ctx name (filenum c0 + 1) (nr c0 + Z.of_nat (List.length rs)) (Z.of_nat (List.length rs))) h1 HF')
      as (h2 & n2 & f2 & H2).
    rewrite H2. exists h2, n2, f2. cbn [filename filenum nr fnr map combine spec_files fst].
    unfold total_records. cbn [List.concat List.length]. rewrite app_length. ctx_eq.
Qed.

Lemma number_from_fst name fn before : forall rs i, map fst (number_from name fn before i rs) = rs.
Proof. induction rs as [|r t IH]; intros i; cbn; [reflexivity|]. now rewrite IH. Qed.

Lemma number_from_nr name fn before : forall rs i,
  map (fun rc => nr (snd rc)) (number_from name fn before i rs) = zseq (before + i) (List.length rs).
Proof.
  induction rs as [|r t IH]; intros i; cbn; [reflexivity|]. rewrite IH. f_equal. f_equal. lia.
Qed.

Lemma zseq_app a n m : zseq a (n + m) = zseq a n ++ zseq (a + Z.of_nat n) m.
Proof.
  revert a. induction n as [|n IH]; intros a; cbn [zseq Nat.add app].
  - f_equal. cbn. lia.
  - rewrite IH. f_equal. f_equal. f_equal. lia.
Qed.

Lemma spec_files_fst : forall fs fn before, map fst (spec_files fn before fs) = List.concat (map snd fs).
Proof.
  induction fs as [|[name rs] t IH]; intros fn before; cbn; [reflexivity|].
  now rewrite map_app, number_from_fst, IH.
Qed.

Lemma spec_files_nr : forall fs fn before,
  map (fun rc => nr (snd rc)) (spec_files fn before fs) = zseq (before + 1) (List.length (List.concat (map snd fs))).
Proof.
  induction fs as [|[name rs] t IH]; intros fn before; cbn [spec_files map List.concat snd]; [reflexivity|].
  rewrite map_app, number_from_nr, IH, app_length, zseq_app. f_equal. f_equal. lia.
Qed.

Lemma combine_snd {A C} : forall (l1 : list A) (l2 : list C), List.length l1 = List.length l2 -> map snd (combine l1 l2) = l2.
Proof.
  induction l1 as [|a t IH]; intros [|b u] H; cbn in *; try discriminate; [reflexivity|]. f_equal. apply IH. lia.
Qed.

Lemma forall2_length {A C} (P : A -> C -> Prop) l1 l2 : Forall2 P l1 l2 -> List.length l1 = List.length l2.
Proof. induction 1; cbn; auto. Qed.

(* ---------- statements used by Props.v ---------- *)
Lemma multi_file_contexts m fs recs :
  Forall2 (fun f rs => parse_file m (snd f) = Some rs) fs recs ->
  snd (read_files m fs) = spec_files 0 0 (combine (map fst fs) recs).
Proof.
  intros H. destruct (files_run m fs recs ctx0 None H) as (h1 & n1 & f1 & E). unfold read_files, rs0. now rewrite E.
Qed.

Lemma combine_names_recs m (fs : list file) recs :
  Forall2 (fun f rs => parse_file m (snd f) = Some rs) fs recs -> map snd (combine (map fst fs) recs) = recs.
Proof. intros H. apply combine_snd. rewrite map_length. eapply forall2_length; eauto. Qed.

Lemma inputs_concatenate m fs recs :
  Forall2 (fun f rs => parse_file m (snd f) = Some rs) fs recs ->
  map fst (snd (read_files m fs)) = List.concat recs.
Proof.
  intros H. rewrite (multi_file_contexts m fs recs H), spec_files_fst. now rewrite (combine_names_recs m fs recs H).
Qed.

Lemma nr_counts_across_files m fs recs :
  Forall2 (fun f rs => parse_file m (snd f) = Some rs) fs recs ->
  map (fun rc => nr (snd rc)) (snd (read_files m fs)) = zseq 1 (total_records recs).
Proof.
  intros H. rewrite (multi_file_contexts m fs recs H), spec_files_nr. now rewrite (combine_names_recs m fs recs H).
Qed.

Lemma end_block_sees_final_nr m fs recs :
  Forall2 (fun f rs => parse_file m (snd f) = Some rs) fs recs ->
  nr (rctx (fst (read_files m fs))) = Z.of_nat (total_records recs)
  /\ filenum (rctx (fst (read_files m fs))) = Z.of_nat (List.length fs)
  /\ rfailed (fst (read_files m fs)) = false.
Proof.
  intros H. destruct (files_run m fs recs ctx0 None H) as (h1 & n1 & f1 & E). unfold read_files, rs0. rewrite E. cbn.
  repeat split; lia.
Qed.

(* FNR restarts at 1 in each file and FILENAME/FILENUM name the source: the contexts of file j's records *)
Lemma number_from_ctx name fn before : forall rs i rc,
  In rc (number_from name fn before i rs) ->
  filename (snd rc) = name /\ filenum (snd rc) = fn /\ nr (snd rc) = before + fnr (snd rc)
  /\ i <= fnr (snd rc) < i + Z.of_nat (List.length rs).
Proof.
  induction rs as [|r t IH]; intros i rc Hin; cbn in Hin; [contradiction|].
  destruct Hin as [<-|Hin]; cbn [snd filename filenum nr fnr List.length].
  - repeat split; lia.
  - destruct (IH (i + 1) rc Hin) as (H1 & H2 & H3 & H4). repeat split; auto; lia.
Qed.

Lemma number_from_fnr name fn before : forall rs i,
  map (fun rc => fnr (snd rc)) (number_from name fn before i rs) = zseq i (List.length rs).
Proof. induction rs as [|r t IH]; intros i; cbn; [reflexivity|]. now rewrite IH. Qed.

(* ---------- verbs that can see contexts; obliviousness ---------- *)
Lemma cfeed_app v : forall xs ys s,
  cfeed v s (xs ++ ys) = let '(s1, o1) := cfeed v s xs in let '(s2, o2) := cfeed v s1 ys in (s2, o1 ++ o2).
Proof.
  induction xs as [|x t IH]; intros ys s; cbn [cfeed app].
  - destruct (cfeed v s ys); reflexivity.
  - destruct (cstep v s x) as [s1 o1]. rewrite IH. destruct (cfeed v s1 t) as [s2 o2].
    destruct (cfeed v s2 ys) as [s3 o3]. now rewrite app_assoc.
Qed.

Lemma cchain_feed a b : forall xs sa sb,
  cfeed (cchain a b) (sa, sb) xs =
  let '(sa1, ys) := cfeed a sa xs in let '(sb1, zs) := cfeed b sb ys in ((sa1, sb1), zs).
Proof.
  induction xs as [|x t IH]; intros sa sb; cbn [cfeed]; [reflexivity|].
  cbn [cchain cstep fst snd]. destruct (cstep a sa x) as [sa1 y1].
  destruct (cfeed b sb y1) as [sb1 z1] eqn:E1. rewrite IH.
  destruct (cfeed a sa1 t) as [sa2 y2]. rewrite cfeed_app, E1.
  destruct (cfeed b sb1 y2) as [sb2 z2]. reflexivity.
Qed.

Lemma cchain_is_composition a b xs c : crun (cchain a b) xs c = crun b (crun a xs c) c.
Proof.
  unfold crun. cbn [cinit cchain]. rewrite cchain_feed.
  destruct (cfeed a (cinit a) xs) as [sa ys]. rewrite cfeed_app.
  destruct (cfeed b (cinit b) ys) as [sb zs]. cbn [cfinish cchain fst snd].
  destruct (cfeed b sb (cfinish a sa c)) as [sb2 ws]. now rewrite app_assoc.
Qed.

Lemma lift_feed v : forall xs s,
  fst (cfeed (lift v) s xs) = fst (feed v s (map fst xs))
  /\ map fst (snd (cfeed (lift v) s xs)) = snd (feed v s (map fst xs)).
Proof.
  induction xs as [|x t IH]; intros s; cbn [cfeed feed map]; [split; reflexivity|].
  cbn [lift cstep]. destruct (vstep v s (fst x)) as [s1 o1].
  destruct (IH s1) as [H1 H2].
  change (cstate (lift v)) with (vstate v) in *.
  destruct (cfeed (lift v) s1 t) as [s2 o2]. destruct (feed v s1 (map fst t)) as [s2' o2']. cbn [fst snd] in *. subst.
  split; [reflexivity|]. rewrite map_app, map_map. cbn [fst]. now rewrite map_id.
Qed.

Lemma lift_run v xs c : map fst (crun (lift v) xs c) = run v (map fst xs).
Proof.
  unfold crun, run. destruct (lift_feed v xs (vinit v)) as [H1 H2].
  change (cinit (lift v)) with (vinit v).
  change (cstate (lift v)) with (vstate v) in *.
  destruct (cfeed (lift v) (vinit v) xs) as [s o]. destruct (feed v (vinit v) (map fst xs)) as [s' o']. cbn [fst snd] in *. subst.
  rewrite map_app. f_equal. cbn [lift cfinish]. rewrite map_map. cbn [fst]. now rewrite map_id.
Qed.

Lemma lift_oblivious v : oblivious (lift v).
Proof. intros xs ys c c' H. now rewrite !lift_run, H. Qed.

Lemma oblivious_chain a b : oblivious a -> oblivious b -> oblivious (cchain a b).
Proof.
  intros Ha Hb xs ys c c' H. rewrite !cchain_is_composition. apply Hb. now apply Ha.
Qed.

Lemma renumber_fst name rs : map fst (renumber name rs) = rs.
Proof. apply number_from_fst. Qed.

(* chain = pipe needs only the DOWNSTREAM verb to be oblivious: the pipe's second process renumbers the records *)
Lemma chain_equals_pipe_oblivious a b xs c name c' :
  oblivious b ->
  map fst (crun b (renumber name (map fst (crun a xs c))) c') = map fst (crun (cchain a b) xs c).
Proof.
  intros Hb. rewrite cchain_is_composition. apply Hb. apply renumber_fst.
Qed.

Lemma modelled_verbs_oblivious (vc : vcode) : oblivious (lift (verb_of vc)).
Proof. apply lift_oblivious. Qed.

Lemma chain_differs_from_pipe_for_nr :
  exists (xs : list crec) (c : context),
  map fst (crun cput_nr (renumber (B "(stdin)") (map fst (crun (lift v_tac) xs c))) c)
  <> map fst (crun (cchain (lift v_tac) cput_nr) xs c).
Proof.
  exists (renumber (B "f") [[(B "a", B "1")]; [(B "a", B "2")]]), (Ctx (B "f") 1 2 2).
  vm_compute. discriminate.
Qed.
