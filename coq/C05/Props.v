(* C05 property theorems.  Only statements closed by [exact]; each followed by Print Assumptions. *)
From Miller Require Import Base.Bytes Base.Record C05.Model C05.Proofs C05.CtxModel C05.CtxProofs C05.Harness.
Open Scope Z_scope.

(* `mlr A then B` = B applied to the output of A, for ALL verbs of the stream shape (any state type, any step and
   end-of-stream functions) and all inputs *)
Theorem C05_chain_is_composition : forall (a b : verb) (xs : list record), run (chain a b) xs = run b (run a xs).
Proof. exact chain_is_composition. Qed.
Print Assumptions C05_chain_is_composition.

(* chains of any length (2..4 and beyond) *)
Theorem C05_chain_list_is_iterated_composition : forall (vs : list verb) (xs : list record), run (chain_list vs) xs = run_list vs xs.
Proof. exact chain_list_run. Qed.
Print Assumptions C05_chain_list_is_iterated_composition.

Theorem C05_chain_associative : forall (a b c : verb) xs, run (chain (chain a b) c) xs = run (chain a (chain b c)) xs.
Proof. exact chain_assoc. Qed.
Print Assumptions C05_chain_associative.

(* piping through any intermediate format that is lossless on the stream A produced *)
Theorem C05_chain_equals_pipe :
  forall (T : Type) (write : list record -> T) (read : T -> list record) (a b : verb) (xs : list record),
  read (write (run a xs)) = run a xs -> run b (read (write (run a xs))) = run (chain a b) xs.
Proof. exact (@chain_equals_pipe). Qed.
Print Assumptions C05_chain_equals_pipe.

(* the reader may cut the input into batches of any sizes (runSingleTransformerBatch) *)
Theorem C05_batch_independence : forall (v : verb) (batches : list (list record)), run_batched v batches = run v (List.concat batches).
Proof. exact batch_independence. Qed.
Print Assumptions C05_batch_independence.

(* reading f1..fn: closed form of every record's context.  [recs] are the records of each file read alone. *)
Theorem C05_multi_file_contexts :
  forall (m : ropts) (fs : list file) (recs : list (list record)),
  Forall2 (fun f rs => parse_file m (snd f) = Some rs) fs recs ->
  snd (read_files m fs) = spec_files 0 0 (combine (map fst fs) recs).
Proof. exact (multi_file_contexts). Qed.
Print Assumptions C05_multi_file_contexts.

(* inputs concatenate *)
Theorem C05_inputs_concatenate :
  forall (m : ropts) (fs : list file) (recs : list (list record)),
  Forall2 (fun f rs => parse_file m (snd f) = Some rs) fs recs ->
  map fst (snd (read_files m fs)) = List.concat recs.
Proof. exact (inputs_concatenate). Qed.
Print Assumptions C05_inputs_concatenate.

(* NR counts 1..N across files *)
Theorem C05_NR_counts_across_files :
  forall (m : ropts) (fs : list file) (recs : list (list record)),
  Forall2 (fun f rs => parse_file m (snd f) = Some rs) fs recs ->
  map (fun rc => nr (snd rc)) (snd (read_files m fs)) = zseq 1 (total_records recs).
Proof. exact (nr_counts_across_files). Qed.
Print Assumptions C05_NR_counts_across_files.

(* the end block sees the final NR (and FILENUM = number of files) *)
Theorem C05_end_block_sees_final_NR :
  forall (m : ropts) (fs : list file) (recs : list (list record)),
  Forall2 (fun f rs => parse_file m (snd f) = Some rs) fs recs ->
  nr (rctx (fst (read_files m fs))) = Z.of_nat (total_records recs)
  /\ filenum (rctx (fst (read_files m fs))) = Z.of_nat (List.length fs)
  /\ rfailed (fst (read_files m fs)) = false.
Proof. exact (end_block_sees_final_nr). Qed.
Print Assumptions C05_end_block_sees_final_NR.

(* FNR restarts at 1 in every file; FILENAME/FILENUM are those of the file; NR = records before the file + FNR *)
Theorem C05_FNR_FILENAME_FILENUM_per_file :
  forall name fn before rs,
  map (fun rc => fnr (snd rc)) (number_from name fn before 1 rs) = zseq 1 (List.length rs)
  /\ forall rc, In rc (number_from name fn before 1 rs) ->
       filename (snd rc) = name /\ filenum (snd rc) = fn /\ nr (snd rc) = before + fnr (snd rc)
       /\ 1 <= fnr (snd rc) < 1 + Z.of_nat (List.length rs).
Proof. exact (fun name fn before rs => conj (number_from_fnr name fn before rs 1) (number_from_ctx name fn before rs 1)). Qed.
Print Assumptions C05_FNR_FILENAME_FILENUM_per_file.

(* ---- the side condition "verbs that do not consult the original record counters" ---- *)
(* every modelled verb, seen as a function of records WITH contexts, is oblivious *)
Theorem C05_modelled_verbs_are_oblivious : forall vc : vcode, oblivious (lift (verb_of vc)).
Proof. exact modelled_verbs_oblivious. Qed.
Print Assumptions C05_modelled_verbs_are_oblivious.

Theorem C05_oblivious_closed_under_chain : forall a b : cverb, oblivious a -> oblivious b -> oblivious (cchain a b).
Proof. exact oblivious_chain. Qed.
Print Assumptions C05_oblivious_closed_under_chain.

(* with contexts: the downstream process of a pipe renumbers the records it reads; the outputs agree with the chain as
   soon as the downstream verb is oblivious (the upstream verb may be anything) *)
Theorem C05_chain_equals_pipe_with_contexts :
  forall (a b : cverb) (xs : list crec) (c : context) (name : bytes) (c' : context),
  oblivious b ->
  map fst (crun b (renumber name (map fst (crun a xs c))) c') = map fst (crun (cchain a b) xs c).
Proof. exact chain_equals_pipe_oblivious. Qed.
Print Assumptions C05_chain_equals_pipe_with_contexts.

(* the side condition is necessary: `tac then put '$nr = NR'` differs from `tac | put '$nr = NR'` *)
Theorem C05_chain_differs_from_pipe_for_NR_refuted :
  exists (xs : list crec) (c : context),
  map fst (crun cput_nr (renumber (B "(stdin)") (map fst (crun (lift v_tac) xs c))) c)
  <> map fst (crun (cchain (lift v_tac) cput_nr) xs c).
Proof. exact chain_differs_from_pipe_for_nr. Qed.
Print Assumptions C05_chain_differs_from_pipe_for_NR_refuted.

(* ---- contexts travel with the records through the chain; the end block sees the reader's final context (round 2) ---- *)
(* NR/FNR/FILENAME/FILENUM evaluated by a put (unconditionally or under any guard: if, pattern-action, ternary) placed after ANY
   verb are those of the context each record carries out of that verb ... *)
Theorem C05_context_variables_follow_the_record :
  forall (v : cverb) (guard : record -> bool) (xs : list crec) (c : context),
  crun (cchain v (cput_ctx guard)) xs c = map (annot guard) (crun v xs c)
  /\ forall p, crun (cchain v (cfilter_ctx p)) xs c = filter (fun x => p (snd x)) (crun v xs c).
Proof. exact (fun v guard xs c => conj (context_travels v guard xs c) (fun p => context_filter_after v p xs c)). Qed.
Print Assumptions C05_context_variables_follow_the_record.

(* ... and after record-selecting / reordering verbs (tac, head, filter on fields, nothing, and any chain of them) every surviving
   record is labelled with the context of ITS OWN source, i.e. with the closed form of C05_multi_file_contexts *)
Theorem C05_selectors_keep_each_records_own_context :
  selector c_tac /\ (forall n, selector (c_head n)) /\ (forall p, selector (c_filter p)) /\ selector c_nothing
  /\ (forall a b, selector a -> selector b -> selector (cchain a b))
  /\ forall v guard xs c y, selector v -> In y (crun (cchain v (cput_ctx guard)) xs c) -> exists x, In x xs /\ y = annot guard x.
Proof. exact (conj selector_tac (conj selector_head (conj selector_filter (conj selector_nothing (conj selector_chain selector_annotates_own_source))))). Qed.
Print Assumptions C05_selectors_keep_each_records_own_context.

(* the end block after ANY verbs sees exactly the context carried by the end-of-stream marker ... *)
Theorem C05_end_block_sees_marker_context_through_any_chain :
  forall (v : cverb) (xs : list crec) (c : context), crun (cchain v cput_end) xs c = [(end_record c, c)].
Proof. exact end_block_context. Qed.
Print Assumptions C05_end_block_sees_marker_context_through_any_chain.

(* ... which is the reader's final context: FILENAME/FILENUM of the LAST file (also when it is empty), FNR = its record count,
   NR = all records *)
Theorem C05_end_context_closed_form :
  (forall (m : ropts) (fs : list file) (recs : list (list record)),
     Forall2 (fun f rs => parse_file m (snd f) = Some rs) fs recs ->
     rctx (fst (read_files m fs)) = end_ctx ctx0 (combine (map fst fs) recs))
  /\ forall c0 fs name rs,
     end_ctx c0 (fs ++ [(name, rs)]) =
     Ctx name (filenum c0 + Z.of_nat (List.length fs) + 1)
         (nr c0 + Z.of_nat (List.length (List.concat (map snd fs))) + Z.of_nat (List.length rs)) (Z.of_nat (List.length rs)).
Proof. exact (conj end_context_closed_form end_ctx_last). Qed.
Print Assumptions C05_end_context_closed_form.

Example C05_context_nonvacuous :
  let xs := [([(B "id", B "r1")], Ctx (B "f1") 1 1 1); ([(B "id", B "r2")], Ctx (B "f2") 2 2 1); ([(B "id", B "r3")], Ctx (B "f2") 2 3 2)] in
  let c := Ctx (B "empty") 3 3 0 in
  map fst (crun (cchain c_tac (cput_ctx (fun _ => true))) xs c)
  = [[(B "id", B "r3"); (B "_nr", B "3"); (B "_fnr", B "2"); (B "_fn", B "f2"); (B "_fnum", B "2")];
     [(B "id", B "r2"); (B "_nr", B "2"); (B "_fnr", B "1"); (B "_fn", B "f2"); (B "_fnum", B "2")];
     [(B "id", B "r1"); (B "_nr", B "1"); (B "_fnr", B "1"); (B "_fn", B "f1"); (B "_fnum", B "1")]]
  /\ map fst (crun (cchain (c_head 1) cput_end) xs c) = [[(B "e", B "3:0:empty:3")]]
  /\ end_ctx ctx0 [(B "f1", [[(B "id", B "r1")]]); (B "f2", [[(B "id", B "r2")]; [(B "id", B "r3")]]); (B "empty", [])] = c.
Proof. vm_compute. repeat split; reflexivity. Qed.

(* non-vacuity: a three-file CSV input with differing headers and an empty file meets the hypothesis; closed form evaluated *)
Example C05_nonvacuous :
  let f1 := (B "f1.csv", [[(B "", B "a"); (B "", B "b")]; [(B "", B "1"); (B "", B "2")]; [(B "", B "3"); (B "", B "4")]]) in
  let f2 := (B "empty.csv", []) in
  let f3 := (B "f3.csv", [[(B "", B "c")]; [(B "", B "5")]]) in
  Forall2 (fun f rs => parse_file (ROpts MHeader false true false) (snd f) = Some rs) [f1; f2; f3]
          [[[(B "a", B "1"); (B "b", B "2")]; [(B "a", B "3"); (B "b", B "4")]]; []; [[(B "c", B "5")]]]
  /\ map snd (snd (read_files (ROpts MHeader false true false) [f1; f2; f3]))
     = [Ctx (B "f1.csv") 1 1 1; Ctx (B "f1.csv") 1 2 2; Ctx (B "f3.csv") 3 3 1]
  /\ run (chain_list (map verb_of [VSortF (B "a"); VHead 2; VPutDot (B "z") (B "a") (B "!")]))
         [[(B "a", B "b")]; [(B "x", B "1")]; [(B "a", B "a")]; [(B "a", B "c")]]
     = [[(B "a", B "a"); (B "z", B "a!")]; [(B "a", B "b"); (B "z", B "b!")]].
Proof. split; [repeat constructor|vm_compute; split; reflexivity]. Qed.

(* reader details: field-name de-duplication, ragged lines with and without --allow-ragged-csv-input, csvlite schema change *)
Example C05_reader_details :
  let v (s : string) := (B "", B s) in
  parse_file (ROpts MHeader false true false) [[v "a"%string; v "a"%string; v "b"%string]; [v "1"%string; v "2"%string; v "3"%string]]
    = Some [[(B "a", B "1"); (B "a_2", B "2"); (B "b", B "3")]]
  /\ parse_file (ROpts MHeader false false false) [[v "a"%string; v "a"%string; v "b"%string]; [v "1"%string; v "2"%string; v "3"%string]]
    = Some [[(B "a", B "2"); (B "b", B "3")]]
  /\ parse_file (ROpts MHeader false true false) [[v "a"%string; v "b"%string]; [v "1"%string]] = None
  /\ parse_file (ROpts MHeader false true true) [[v "a"%string; v "b"%string]; [v "1"%string]; [v "1"%string; v "2"%string; v "3"%string]]
    = Some [[(B "a", B "1")]; [(B "a", B "1"); (B "b", B "2"); (B "3", B "3")]]
  /\ parse_file (ROpts MHeader true true true) [[v "a"%string; v "b"%string]; [v "1"%string]] = Some [[(B "a", B "1"); (B "b", B "")]]
  /\ parse_file (ROpts MHeader true true false) [[v "a"%string]; [v "1"%string]; []; [v "b"%string; v "c"%string]; [v "2"%string; v "3"%string]]
    = Some [[(B "a", B "1")]; [(B "b", B "2"); (B "c", B "3")]]
  /\ parse_file (ROpts MPairs false true false) [[(B "a", B "1"); (B "a", B "2")]] = Some [[(B "a", B "1"); (B "a_2", B "2")]].
Proof. vm_compute. repeat split; reflexivity. Qed.
