(* C08 -- re-proved on EVERY run against gen/Gen_Dispositions.v (regenerated from the implementation):
   each lemma is an exhaustive evaluation of a rule of Model.v over the explicit finite domain. *)
From Coq Require Import List String Bool Arith.
From Miller Require Import C08.Model C08.Proofs gen.Gen_Dispositions.
Import ListNotations.
Local Open Scope string_scope.

Notation T := gen_binary.
Notation U := gen_unary.
Notation V := gen_variadic.
Notation O := open_findings.

Lemma t_absent_left : forallb (fun op => forallb (r_absent_left O T op) (identity_kinds op)) accumulate_ops = true.
Proof. vm_compute. reflexivity. Qed.
Lemma t_absent_right : forallb (fun op => forallb (r_absent_right O T op) (identity_kinds op)) accumulate_ops = true.
Proof. vm_compute. reflexivity. Qed.
Lemma t_absent_both : forallb (r_absent_both T) (dot_op :: accumulate_ops) = true.
Proof. vm_compute. reflexivity. Qed.
Lemma t_dot_absent : forallb (r_dot_absent T) scalar_kinds = true.
Proof. vm_compute. reflexivity. Qed.
Lemma t_unary_absent : forallb (r_unary_absent U) (math_unary_ops ++ unary_operator_ops ++ ["bitcount"; "min1"; "max1"])%list = true.
Proof. vm_compute. reflexivity. Qed.
Lemma t_math_empty : forallb (r_math_empty U) math_unary_ops = true.
Proof. vm_compute. reflexivity. Qed.
Lemma t_error : forallb (fun op => forallb (r_error O T op) (scalar_kinds ++ [KNull; KAbsent])%list) (dot_op :: accumulate_ops) = true.
Proof. vm_compute. reflexivity. Qed.
Lemma t_commutes : forallb (fun op => forallb (fun k1 => forallb (r_commutes O T op k1) all_kinds) all_kinds) commutative_ops = true.
Proof. vm_compute. reflexivity. Qed.
Lemma t_empty_number : forallb (fun op => forallb (r_empty_number O T op) number_kinds) empty_number_ops = true.
Proof. vm_compute. reflexivity. Qed.
Lemma t_empty_minus : forallb (fun op => forallb (r_empty_minus T op) number_kinds) empty_minus_ops = true.
Proof. vm_compute. reflexivity. Qed.
Lemma t_empty_absorbs : forallb (fun op => forallb (r_empty_absorbs T op) number_kinds) empty_absorbing_ops = true.
Proof. vm_compute. reflexivity. Qed.
Lemma t_variadic : forallb (fun op => forallb (r_variadic V op) scalar_kinds) ["min"; "max"] = true.
Proof. vm_compute. reflexivity. Qed.
Lemma t_uniform : forallb (fun op => forallb (fun k1 => forallb (r_uniform T op k1) all_kinds) all_kinds) matrix_ops = true.
Proof. vm_compute. reflexivity. Qed.
Lemma t_no_panic2 : forallb (fun op => forallb (fun k1 => forallb (fun k2 => no_panic (lookup2 T op k1 k2)) all_kinds) all_kinds) (map fst T) = true.
Proof. vm_compute. reflexivity. Qed.
Lemma t_no_panic1 : forallb (fun op => forallb (fun k => no_panic (lookup1 U op k)) all_kinds) (map fst U) = true.
Proof. vm_compute. reflexivity. Qed.
Lemma t_predicates : forallb (r_predicates U) all_kinds = true.
Proof. vm_compute. reflexivity. Qed.
Lemma t_pred_relations : forallb (r_pred_relations U) all_kinds = true.
Proof. vm_compute. reflexivity. Qed.
Lemma t_partition : forallb (r_partition U) all_kinds = true.
Proof. vm_compute. reflexivity. Qed.
Lemma t_doc_plus : forallb (fun i => forallb (r_doc_table T "+" doc_plus i) six) six = true.
Proof. vm_compute. reflexivity. Qed.
Lemma t_doc_and : forallb (fun i => forallb (r_doc_logical gen_dsl_logical "&&" doc_and i) six) six = true.
Proof. vm_compute. reflexivity. Qed.
Lemma t_doc_or : forallb (fun i => forallb (r_doc_logical gen_dsl_logical "||" doc_or i) six) six = true.
Proof. vm_compute. reflexivity. Qed.
Lemma t_open_refuted : forallb (refuted T) O = true.
Proof. vm_compute. reflexivity. Qed.
