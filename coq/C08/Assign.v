(* C08 -- executable model of DSL assignment (pkg/dsl/cst/assignments.go AssignmentNode.Execute and the
   Assign/AssignIndexed methods of every lvalue node in pkg/dsl/cst/lvalues.go, over
   Mlrmap.PutCopy / PutIndexed / PutNameWithPositionalIndex / PutCopyWithPositionalIndex of pkg/mlrval).
   Definitions only.  Values: absent, empty, int, string, error, map (string keys, insertion ordered).
   Not modelled: arrays and integer indices, typed-local type gates, scopes (C14), float formatting. *)
From Coq Require Import List String Bool Arith ZArith.
Import ListNotations.
Local Open Scope string_scope.

Inductive val :=
| VAbsent | VEmpty | VError
| VInt (z : Z)
| VStr (s : string)
| VMap (m : list (string * val)).

Definition amap := list (string * val).

Definition is_absent (v : val) : bool := match v with VAbsent => true | _ => false end.

Fixpoint get (k : string) (m : amap) : option val :=
  match m with
  | [] => None
  | (k', v) :: m' => if String.eqb k' k then Some v else get k m'
  end.

(* Mlrmap.PutCopy: overwrite in place, or append *)
Fixpoint put (k : string) (v : val) (m : amap) : amap :=
  match m with
  | [] => [(k, v)]
  | (k', v') :: m' => if String.eqb k' k then (k', v) :: m' else (k', v') :: put k v m'
  end.

(* Mlrmap.PutIndexed with string keys: walk / create nested maps; a non-map value on the way is replaced *)
Fixpoint nest (keys : list string) (v : val) : val :=
  match keys with
  | [] => v
  | k :: ks => VMap [(k, nest ks v)]
  end.

Fixpoint put_indexed (keys : list string) (v : val) (m : amap) : amap :=
  match keys with
  | [] => m
  | [k] => put k v m
  | k :: ks =>
      match get k m with
      | Some (VMap sub) => put k (VMap (put_indexed ks v sub)) m
      | _ => put k (nest ks v) m
      end
  end.

(* positional access, 1-up; out of range: unchanged *)
Fixpoint rename_nth (n : nat) (newname : string) (m : amap) : amap :=
  match m, n with
  | [], _ => []
  | (_, v) :: m', O => (newname, v) :: m'
  | kv :: m', S n' => kv :: rename_nth n' newname m'
  end.
Fixpoint setval_nth (n : nat) (v : val) (m : amap) : amap :=
  match m, n with
  | [], _ => []
  | (k, _) :: m', O => (k, v) :: m'
  | kv :: m', S n' => kv :: setval_nth n' v m'
  end.

Record state := mkstate { srec : amap; oos : amap; loc : amap; env : amap }.

(* ---- expressions (right-hand sides and indices) *)
Inductive expr :=
| ELit (v : val)
| EField (n : string)            (* $n *)
| EOosvar (n : string)           (* @n *)
| ELocal (n : string)
| EIndex (e k : expr)            (* e[k] *)
| EPlus (a b : expr)             (* a + b *)
| ECoalesce (a b : expr)         (* a ?? b   AbsentCoalesceOperatorNode: b only when a is absent *)
| EEmptyCoalesce (a b : expr)    (* a ??? b  EmptyCoalesceOperatorNode: b when a is absent or empty *)
| EMapLit (kvs : list (string * expr)).   (* {"k": e, ...} *)

(* `+` restricted to the model's kinds: the cells of plus_dispositions (pkg/bifs/arithmetic.go) *)
Definition plus (a b : val) : val :=
  match a, b with
  | VMap _, _ | _, VMap _ => VAbsent
  | VError, _ | _, VError => VError
  | VStr _, _ | _, VStr _ => VError
  | VInt x, VInt y => VInt (x + y)
  | VInt x, _ => VInt x
  | _, VInt y => VInt y
  | VEmpty, VEmpty => VEmpty
  | _, _ => VAbsent
  end.

Definition text_of (v : val) : option string :=
  match v with VStr s => Some s | VEmpty => Some "" | _ => None end.

Fixpoint eval (st : state) (e : expr) : val :=
  match e with
  | ELit v => v
  | EField n => match get n (srec st) with Some v => v | None => VAbsent end
  | EOosvar n => match get n (oos st) with Some v => v | None => VAbsent end
  | ELocal n => match get n (loc st) with Some v => v | None => VAbsent end
  | EIndex b k =>
      match eval st b, eval st k with
      | VAbsent, _ => VAbsent
      | VMap m, VStr s => match get s m with Some v => v | None => VAbsent end
      | _, _ => VError          (* also map[absent]: "(error)", observed *)
      end
  | EPlus a b => plus (eval st a) (eval st b)
  | ECoalesce a b => match eval st a with VAbsent => eval st b | v => v end
  | EEmptyCoalesce a b => match eval st a with VAbsent | VEmpty => eval st b | v => v end
  | EMapLit kvs =>
      (* map literals skip absent values too (MapLiteralNode) *)
      VMap ((fix go (l : list (string * expr)) (acc : amap) : amap :=
               match l with
               | [] => acc
               | (k, x) :: l' => let v := eval st x in go l' (if is_absent v then acc else put k v acc)
               end) kvs [])
  end.

(* ---- lvalues: one constructor per lvalue node type of lvalues.go *)
Inductive lval :=
| LField (n : string) (idx : list expr)        (* $n, $n[i]...           DirectFieldValueLvalueNode (+ IndexedLvalueNode) *)
| LFieldIndirect (name : expr) (idx : list expr) (* $[name], ${..}[i]      IndirectFieldValueLvalueNode *)
| LPosName (i : nat)                           (* $[[i]] = newname        PositionalFieldNameLvalueNode *)
| LPosValue (i : nat)                          (* $[[[i]]] = value        PositionalFieldValueLvalueNode *)
| LSrec (idx : list expr)                      (* $* = map, $*[i]...      FullSrecLvalueNode *)
| LOosvar (n : string) (idx : list expr)       (* @n, @n[i]...            DirectOosvarValueLvalueNode *)
| LOosvarIndirect (name : expr) (idx : list expr) (* @[name]              IndirectOosvarValueLvalueNode *)
| LFullOosvar (idx : list expr)                (* @* = map, @*[i]...      FullOosvarLvalueNode *)
| LLocal (n : string) (idx : list expr)        (* n, n[i]...              LocalVariableLvalueNode *)
| LEnv (name : expr).                          (* ENV[name]               EnvironmentVariableLvalueNode *)

Inductive stmt := SAssign (l : lval) (e : expr).

(* IndexedLvalueNode.Assign: evaluate the indices; ANY absent index => the assignment is skipped *)
Fixpoint eval_keys (st : state) (idx : list expr) : option (list val) :=
  match idx with
  | [] => Some []
  | e :: idx' =>
      let v := eval st e in
      if is_absent v then None
      else match eval_keys st idx' with Some l => Some (v :: l) | None => None end
  end.

(* string keys only: anything else is outside the model (reported as model-domain error, never generated) *)
Fixpoint keys_text (l : list val) : option (list string) :=
  match l with
  | [] => Some []
  | v :: l' => match text_of v, keys_text l' with Some s, Some r => Some (s :: r) | _, _ => None end
  end.

(* Fatal: mlr stops with an error message (exit status 1) *)
Inductive outcome := Ok (st : state) | Fatal | OutOfModel.

Definition with_rec (st : state) (m : amap) := mkstate m (oos st) (loc st) (env st).
Definition with_oos (st : state) (m : amap) := mkstate (srec st) m (loc st) (env st).
Definition with_loc (st : state) (m : amap) := mkstate (srec st) (oos st) m (env st).
Definition with_env (st : state) (m : amap) := mkstate (srec st) (oos st) (loc st) m.

(* assignment of a NON-absent value v to `base[keys]` inside the map m *)
Definition assign_in (m : amap) (base : option string) (keys : list string) (v : val) : option amap :=
  match base, keys with
  | Some n, [] => Some (put n v m)
  | Some n, _ => Some (put_indexed (n :: keys) v m)
  | None, [] => match v with VMap m' => Some m' | _ => None end     (* $* = map, @* = map *)
  | None, _ => Some (put_indexed keys v m)
  end.

Definition do_assign (st : state) (l : lval) (v : val) : outcome :=
  let indexed (idx : list expr) (k : list string -> outcome) : outcome :=
    match eval_keys st idx with
    | None => Ok st                                   (* absent index: skipped *)
    | Some vs => match keys_text vs with Some ks => k ks | None => OutOfModel end
    end in
  let lift (o : option amap) (f : amap -> state) : outcome :=
    match o with Some m => Ok (f m) | None => OutOfModel end in
  match l with
  | LField n idx => indexed idx (fun ks => lift (assign_in (srec st) (Some n) ks v) (with_rec st))
  | LFieldIndirect ne idx =>
      match eval st ne with
      | VAbsent => match eval_keys st idx with None => Ok st | Some _ => Fatal end  (* "indices must be string, int ...; got absent" *)
      | nv => match text_of nv with
              | Some n => indexed idx (fun ks => lift (assign_in (srec st) (Some n) ks v) (with_rec st))
              | None => OutOfModel
              end
      end
  | LPosName i => match text_of v, i with
                  | Some s, S n => Ok (with_rec st (rename_nth n s (srec st)))
                  | _, _ => OutOfModel
                  end
  | LPosValue i => match i with S n => Ok (with_rec st (setval_nth n v (srec st))) | O => OutOfModel end
  | LSrec idx => indexed idx (fun ks => lift (assign_in (srec st) None ks v) (with_rec st))
  | LOosvar n idx => indexed idx (fun ks => lift (assign_in (oos st) (Some n) ks v) (with_oos st))
  | LOosvarIndirect ne idx =>
      match eval st ne with
      | VAbsent => match eval_keys st idx with None => Ok st | Some _ => Fatal end
      | nv => match text_of nv with
              | Some n => indexed idx (fun ks => lift (assign_in (oos st) (Some n) ks v) (with_oos st))
              | None => OutOfModel
              end
      end
  | LFullOosvar idx => indexed idx (fun ks => lift (assign_in (oos st) None ks v) (with_oos st))
  | LLocal n idx => indexed idx (fun ks => lift (assign_in (loc st) (Some n) ks v) (with_loc st))
  | LEnv ne =>
      match eval st ne with
      | VAbsent => Ok st
      | nv => match text_of nv, text_of v with
              | Some n, Some s => Ok (with_env st (put n (if String.eqb s "" then VEmpty else VStr s) (env st)))
              | _, _ => OutOfModel
              end
      end
  end.

(* AssignmentNode.Execute: evaluate the right-hand side; absent => nothing happens *)
Definition exec (st : state) (s : stmt) : outcome :=
  let '(SAssign l e) := s in
  let v := eval st e in
  if is_absent v then Ok st else do_assign st l v.

Fixpoint run (st : state) (p : list stmt) : outcome :=
  match p with
  | [] => Ok st
  | s :: p' => match exec st s with Ok st' => run st' p' | o => o end
  end.

Definition lval_indices (l : lval) : list expr :=
  match l with
  | LField _ i | LSrec i | LOosvar _ i | LFullOosvar i | LLocal _ i => i
  | LFieldIndirect _ i | LOosvarIndirect _ i => i
  | LEnv n => [n]
  | LPosName _ | LPosValue _ => []
  end.

(* ---- compound assignment `lhs op= rhs` is built by BuildCompoundAssignmentNode as the assignment `lhs = lhs op rhs`:
   the lvalue read back as an expression *)
Fixpoint index_all (e : expr) (idx : list expr) : expr :=
  match idx with [] => e | i :: idx' => index_all (EIndex e i) idx' end.
Definition lval_as_expr (l : lval) : option expr :=
  match l with
  | LField n idx => Some (index_all (EField n) idx)
  | LOosvar n idx => Some (index_all (EOosvar n) idx)
  | LLocal n idx => Some (index_all (ELocal n) idx)
  | _ => None
  end.
Inductive cop := OpPlus | OpCoalesce | OpEmptyCoalesce.
Definition apply_cop (o : cop) (a b : expr) : expr :=
  match o with OpPlus => EPlus a b | OpCoalesce => ECoalesce a b | OpEmptyCoalesce => EEmptyCoalesce a b end.
Definition compound (l : lval) (o : cop) (e : expr) : option stmt :=
  match lval_as_expr l with Some le => Some (SAssign l (apply_cop o le e)) | None => None end.

(* ---- the accumulation idiom  @sum[$a] += $x  (compound assignment = assignment of `lhs + rhs`) *)
Definition accumulate : stmt :=
  SAssign (LOosvar "sum" [EField "a"]) (EPlus (EIndex (EOosvar "sum") (EField "a")) (EField "x")).
(* ... which is what `@sum[$a] += $x` is built into *)
Definition accumulate_is_compound : compound (LOosvar "sum" [EField "a"]) OpPlus (EField "x") = Some accumulate := eq_refl.

(* run the same program on each record of a stream, threading oosvars (locals and record are per record) *)
Fixpoint stream (o : amap) (e : amap) (p : list stmt) (recs : list amap) : option amap :=
  match recs with
  | [] => Some o
  | r :: recs' => match run (mkstate r o [] e) p with
                  | Ok st' => stream (oos st') (env st') p recs'
                  | _ => None
                  end
  end.
