(* C08 -- the null-data algebra: vocabulary for the REGENERATED disposition tables (gen/Gen_Dispositions.v)
   and the rules of the property as executable predicates over such tables.  Definitions only.

   A table cell is what `implrun c08-matrix` observed when it applied the real BIF behind an operator to
   every tuple of >=3 representative values of the argument kinds:
     c_cls   : the result classes common to ALL representative tuples (so `In (CArg 2) (c_cls c)` means
               "for every tested representative the result was, in kind and value, the second argument")
     c_kinds : every result kind that was seen. *)
From Coq Require Import List String Bool Arith.
Import ListNotations.
Local Open Scope string_scope.

Inductive kind := KInt | KFloat | KBool | KVoid | KString | KBytes | KArray | KMap | KFunc | KError | KNull | KAbsent.

(* Mlrval type numbering of pkg/mlrval/mlrval_type.go (MT_INT = 0 ... MT_ABSENT = 11) *)
Definition kind_index (k : kind) : nat :=
  match k with
  | KInt => 0 | KFloat => 1 | KBool => 2 | KVoid => 3 | KString => 4 | KBytes => 5
  | KArray => 6 | KMap => 7 | KFunc => 8 | KError => 9 | KNull => 10 | KAbsent => 11
  end.
Definition all_kinds : list kind :=
  [KInt; KFloat; KBool; KVoid; KString; KBytes; KArray; KMap; KFunc; KError; KNull; KAbsent].
Definition kind_eqb (a b : kind) : bool := Nat.eqb (kind_index a) (kind_index b).

Inductive cls :=
| CAbsent | CError | CVoid | CNull | CTrue | CFalse | CInt0 | CFloat0
| CArg (i : nat)      (* the i-th argument (1-up), same kind and value *)
| CNegArg (i : nat)   (* unary minus of the i-th argument *)
| CStrArg (i : nat)   (* a string/empty value whose text is the text of the i-th argument *)
| CPanic.

Definition cls_eqb (a b : cls) : bool :=
  match a, b with
  | CAbsent, CAbsent | CError, CError | CVoid, CVoid | CNull, CNull | CTrue, CTrue | CFalse, CFalse
  | CInt0, CInt0 | CFloat0, CFloat0 | CPanic, CPanic => true
  | CArg i, CArg j | CNegArg i, CNegArg j | CStrArg i, CStrArg j => Nat.eqb i j
  | _, _ => false
  end.

Record cell := mkcell { c_cls : list cls; c_kinds : list kind }.

(* operator name -> 12 x 12 matrix (rows: kind of argument 1) *)
Definition bintable := list (string * list (list cell)).
(* operator name -> vector of 12 *)
Definition untable := list (string * list cell).
(* variadic: (function name, argument kinds) -> cell *)
Definition vartable := list (string * list kind * cell).

Fixpoint assoc {A} (name : string) (t : list (string * A)) : option A :=
  match t with
  | [] => None
  | (n, a) :: t' => if String.eqb n name then Some a else assoc name t'
  end.

Definition lookup2 (t : bintable) (op : string) (k1 k2 : kind) : option cell :=
  match assoc op t with
  | None => None
  | Some m => match nth_error m (kind_index k1) with
              | None => None
              | Some row => nth_error row (kind_index k2)
              end
  end.

Definition lookup1 (t : untable) (op : string) (k : kind) : option cell :=
  match assoc op t with
  | None => None
  | Some v => nth_error v (kind_index k)
  end.

Fixpoint kinds_eqb (a b : list kind) : bool :=
  match a, b with
  | [], [] => true
  | x :: a', y :: b' => kind_eqb x y && kinds_eqb a' b'
  | _, _ => false
  end.

Fixpoint lookupv (t : vartable) (op : string) (ks : list kind) : option cell :=
  match t with
  | [] => None
  | (n, ks', c) :: t' => if String.eqb n op && kinds_eqb ks ks' then Some c else lookupv t' op ks
  end.

Definition cell_in (c : cls) (ce : option cell) : bool :=
  match ce with Some x => existsb (cls_eqb c) (c_cls x) | None => false end.

(* a missing cell has NO class: every rule below is false on a table that lacks the cell *)
Definition has2 (t : bintable) (op : string) (k1 k2 : kind) (c : cls) : bool := cell_in c (lookup2 t op k1 k2).
Definition has1 (t : untable) (op : string) (k : kind) (c : cls) : bool := cell_in c (lookup1 t op k).
Definition hasv (t : vartable) (op : string) (ks : list kind) (c : cls) : bool := cell_in c (lookupv t op ks).

Definition kinds_of (ce : option cell) : option (list kind) :=
  match ce with Some x => Some (c_kinds x) | None => None end.
Definition same_result_kinds (a b : option cell) : bool :=
  match a, b with
  | Some x, Some y => kinds_eqb (c_kinds x) (c_kinds y)
  | _, _ => false
  end.

(* ------------------------------------------------------------------ operator groups *)
Definition arith_ops : list string := ["+"; "-"; "*"; "/"; "//"; "%"; "**"].
Definition dot_arith_ops : list string := [".+"; ".-"; ".*"; "./"].
Definition bitwise_ops : list string := ["&"; "|"; "^"; "<<"; ">>"; ">>>"].
Definition minmax_ops : list string := ["min"; "max"; "min_binary"; "max_binary"].
Definition dot_op : string := ".".
(* the operators of the accumulation clause *)
Definition accumulate_ops : list string := arith_ops ++ dot_arith_ops ++ bitwise_ops ++ minmax_ops.
Definition commutative_ops : list string :=
  ["+"; "*"; ".+"; ".*"; "&"; "|"; "^"; "min"; "max"; "min_binary"; "max_binary"; "=="; "!="; "^^"].
Definition math_unary_ops : list string :=
  ["acos"; "acosh"; "asin"; "asinh"; "atan"; "atanh"; "cbrt"; "cos"; "cosh"; "erf"; "erfc"; "exp"; "expm1";
   "invqnorm"; "log"; "log10"; "log1p"; "qnorm"; "sin"; "sinh"; "sqrt"; "tan"; "tanh";
   "abs"; "ceil"; "floor"; "round"; "sgn"].
Definition unary_operator_ops : list string := ["+u"; "-u"; "~"].

Definition mem (s : string) (l : list string) : bool := existsb (String.eqb s) l.

(* kinds x for which `absent op x = x` is claimed *)
Definition identity_kinds (op : string) : list kind :=
  if mem op bitwise_ops then [KInt]
  else if mem op minmax_ops then [KInt; KFloat; KBool; KVoid; KString]
  else [KInt; KFloat].
Definition number_kinds : list kind := [KInt; KFloat].
Definition scalar_kinds : list kind := [KInt; KFloat; KBool; KVoid; KString].

(* ------------------------------------------------------------------ known deviations (findings) *)
(* Each constructor is one witness class of harness/py/checks/c08.findings.md.  `open` (generated on every
   run into gen/Gen_Dispositions.v) lists the classes the implementation exhibits NOW; the theorems of
   Props.v hold for every cell outside the footprints of the open classes, and every open class is shown to
   be a real refutation inside its footprint.  With `open = []` the theorems are the full clauses.
   Deviations repaired in /repo have NO constructor here (absent .- x = -x and "" .* x = -x were repaired by fix: 481d57d86;
   [..] ^ null = absent, max(error, null) = null and error ** absent = absent by the round-3 fix: commits):
   their cells can no longer be excluded, so a regression breaks the theorems. *)
Inductive finding :=
| F_absent_left_zero (op : string)     (* absent op x = 0 for op in / // % ** *)
| F_max_empty_number.                  (* max("", number) = "" *)

Definition cellkey := (string * kind * kind)%type.
Definition footprint (f : finding) : list cellkey :=
  match f with
  | F_absent_left_zero op => [(op, KAbsent, KInt); (op, KAbsent, KFloat)]
  | F_max_empty_number =>
      flat_map (fun op => [(op, KVoid, KInt); (op, KVoid, KFloat); (op, KInt, KVoid); (op, KFloat, KVoid)]) ["max"; "max_binary"]
  end.

Definition key_eqb (a b : cellkey) : bool :=
  let '(o1, k1, k2) := a in let '(o2, j1, j2) := b in String.eqb o1 o2 && kind_eqb k1 j1 && kind_eqb k2 j2.
Definition excluded (open : list finding) (key : cellkey) : bool :=
  existsb (key_eqb key) (flat_map footprint open).

(* ------------------------------------------------------------------ the rules, as predicates over a table *)
Section Rules.
  Variable open : list finding.
  Variable T : bintable.
  Variable U : untable.
  Variable V : vartable.

  Definition ok (key : cellkey) (b : bool) : bool := excluded open key || b.

  (* absent is the identity: absent op x = x, x op absent = x, absent op absent = absent *)
  Definition r_absent_left (op : string) (k : kind) : bool := ok (op, KAbsent, k) (has2 T op KAbsent k (CArg 2)).
  Definition r_absent_right (op : string) (k : kind) : bool := ok (op, k, KAbsent) (has2 T op k KAbsent (CArg 1)).
  Definition r_absent_both (op : string) : bool := has2 T op KAbsent KAbsent CAbsent.
  (* dot: the text of x (a string, since dot is string concatenation) *)
  Definition r_dot_absent (k : kind) : bool :=
    (has2 T dot_op KAbsent k (CArg 2) || has2 T dot_op KAbsent k (CStrArg 2))
    && (has2 T dot_op k KAbsent (CArg 1) || has2 T dot_op k KAbsent (CStrArg 1)).

  (* math-library functions and unary operators of absent are absent *)
  Definition r_unary_absent (op : string) : bool := has1 U op KAbsent CAbsent.
  (* ... and of empty are empty (reference-main-null-data: log("") is "") *)
  Definition r_math_empty (op : string) : bool := has1 U op KVoid CVoid.

  (* an error operand with any scalar yields an error *)
  Definition r_error (op : string) (k : kind) : bool :=
    ok (op, KError, k) (has2 T op KError k CError) && ok (op, k, KError) (has2 T op k KError CError).

  (* commutative operators: same result kinds for (a,b) and (b,a) *)
  Definition r_commutes (op : string) (k1 k2 : kind) : bool :=
    ok (op, k1, k2) (same_result_kinds (lookup2 T op k1 k2) (lookup2 T op k2 k1)).

  (* empty with a number yields the number for + * .+ .* min max; for - and .- empty acts as 0 *)
  Definition empty_number_ops : list string := ["+"; "*"; ".+"; ".*"; "min"; "max"; "min_binary"; "max_binary"].
  Definition empty_minus_ops : list string := ["-"; ".-"].
  Definition r_empty_number (op : string) (k : kind) : bool :=
    ok (op, KVoid, k) (has2 T op KVoid k (CArg 2)) && ok (op, k, KVoid) (has2 T op k KVoid (CArg 1))
    && has2 T op KVoid KVoid CVoid.
  Definition r_empty_minus (op : string) (k : kind) : bool :=
    has2 T op KVoid k (CNegArg 2) && has2 T op k KVoid (CArg 1) && has2 T op KVoid KVoid CVoid.
  (* every other arithmetic/bitwise operator: an empty operand gives empty *)
  Definition empty_absorbing_ops : list string := ["/"; "//"; "%"; "**"; "./"] ++ bitwise_ops.
  Definition r_empty_absorbs (op : string) (k : kind) : bool :=
    has2 T op KVoid k CVoid && has2 T op k KVoid CVoid && has2 T op KVoid KVoid CVoid.

  (* variadic min/max: absent arguments are ignored wherever they stand; no argument at all gives empty *)
  Definition r_variadic (op : string) (k : kind) : bool :=
    hasv V op [k; KAbsent; KAbsent] (CArg 1) && hasv V op [KAbsent; k; KAbsent] (CArg 2)
    && hasv V op [KAbsent; KAbsent; k] (CArg 3) && hasv V op [] CVoid.

  (* kind-uniformity of the classification: except for the numeric kernels, every cell of a disposition
     matrix behaves the same way for every representative of its kind pair *)
  Definition numeric (k : kind) : bool := match k with KInt | KFloat => true | _ => false end.
  Definition uniform_cell (ce : option cell) : bool :=
    match ce with
    | Some c => negb (Nat.eqb (List.length (c_cls c)) 0) || Nat.eqb (List.length (c_kinds c)) 1
    | None => false
    end.
  Definition matrix_ops : list string :=
    arith_ops ++ dot_arith_ops ++ bitwise_ops ++ ["."; "min_binary"; "max_binary"; "=="; "!="; ">"; ">="; "<"; "<="; "<=>"; "^^"; "atan2"; "roundm"].
  Definition r_uniform (op : string) (k1 k2 : kind) : bool :=
    (numeric k1 && numeric k2) || uniform_cell (lookup2 T op k1 k2).

  (* no cell panics *)
  Definition no_panic (ce : option cell) : bool :=
    match ce with Some c => negb (existsb (cls_eqb CPanic) (c_cls c)) && negb (Nat.eqb (List.length (c_kinds c)) 0) | None => false end.

  (* ---- type predicates: the truth value of predicate p on kind k, when it is the same for all representatives *)
  Definition pred (p : string) (k : kind) : option bool :=
    if has1 U p k CTrue then Some true else if has1 U p k CFalse then Some false else None.
  Definition pred_is (p : string) (k : kind) (b : bool) : bool :=
    match pred p k with Some x => Bool.eqb x b | None => false end.
  Definition r_predicates (k : kind) : bool :=
    pred_is "is_absent" k (kind_eqb k KAbsent)
    && pred_is "is_present" k (negb (kind_eqb k KAbsent))
    && pred_is "is_error" k (kind_eqb k KError)
    && pred_is "is_int" k (kind_eqb k KInt)
    && pred_is "is_float" k (kind_eqb k KFloat)
    && pred_is "is_numeric" k (numeric k)
    && pred_is "is_bool" k (kind_eqb k KBool) && pred_is "is_boolean" k (kind_eqb k KBool)
    && pred_is "is_bytes" k (kind_eqb k KBytes)
    && pred_is "is_map" k (kind_eqb k KMap) && pred_is "is_not_map" k (negb (kind_eqb k KMap))
    && pred_is "is_array" k (kind_eqb k KArray) && pred_is "is_not_array" k (negb (kind_eqb k KArray))
    && pred_is "is_string" k (kind_eqb k KString || kind_eqb k KVoid)
    && pred_is "is_empty" k (kind_eqb k KVoid)
    && pred_is "is_not_empty" k (negb (kind_eqb k KVoid || kind_eqb k KAbsent))
    && pred_is "is_null" k (kind_eqb k KVoid || kind_eqb k KAbsent || kind_eqb k KNull)
    && pred_is "is_not_null" k (negb (kind_eqb k KVoid || kind_eqb k KAbsent || kind_eqb k KNull)).
End Rules.

(* the relations between predicates stated in the property, over whatever the table says *)
Definition r_pred_relations (U : untable) (k : kind) : bool :=
  match pred U "is_null" k, pred U "is_empty" k, pred U "is_absent" k, pred U "is_not_null" k,
        pred U "is_present" k, pred U "is_not_empty" k, pred U "is_numeric" k, pred U "is_int" k, pred U "is_float" k with
  | Some nul, Some emp, Some ab, Some nnul, Some pres, Some nemp, Some num, Some i, Some f =>
      Bool.eqb nul (emp || ab || kind_eqb k KNull)
      && Bool.eqb nnul (negb nul) && Bool.eqb pres (negb ab)
      && Bool.eqb nemp (negb emp && pres) && Bool.eqb num (i || f)
  | _, _, _, _, _, _, _, _, _ => false
  end.

(* exactly one of the basic type predicates holds for each kind that has one (every kind but funct and JSON null) *)
Definition basic_predicates : list string :=
  ["is_int"; "is_float"; "is_boolean"; "is_string"; "is_bytes"; "is_array"; "is_map"; "is_error"; "is_absent"].
Definition count_true (U : untable) (k : kind) : nat :=
  List.length (filter (fun p => match pred U p k with Some true => true | _ => false end) basic_predicates).
Definition r_partition (U : untable) (k : kind) : bool :=
  forallb (fun p => match pred U p k with Some _ => true | None => false end) basic_predicates
  && Nat.eqb (count_true U k) (match k with KFunc | KNull => 0 | _ => 1 end).

(* ------------------------------------------------------------------ the documented tables
   docs/src/reference-main-null-data.md, "Arithmetic rules": the (+) table, transcribed by hand.
   Operand columns/rows: 1, 2.5, true, (empty), (absent), (error).  Entries: what the result must be. *)
Inductive docres := DSum | DArg1 | DArg2 | DErr | DEmpty | DAbs.
Definition doc_kinds : list kind := [KInt; KFloat; KBool; KVoid; KAbsent; KError].
Definition doc_plus : list (list docres) :=
  (*            1      2.5    true  empty   absent error *)
  [ (* 1      *) [DSum;  DSum;  DErr; DArg1;  DArg1; DErr];
    (* 2.5    *) [DSum;  DSum;  DErr; DArg1;  DArg1; DErr];
    (* true   *) [DErr;  DErr;  DErr; DErr;   DErr;  DErr];
    (* empty  *) [DArg2; DArg2; DErr; DEmpty; DAbs;  DErr];
    (* absent *) [DArg2; DArg2; DErr; DAbs;   DAbs;  DErr];
    (* error  *) [DErr;  DErr;  DErr; DErr;   DErr;  DErr] ].

Definition doc_cell_ok (ce : option cell) (d : docres) : bool :=
  match d with
  | DSum => match ce with
            | Some c => forallb numeric (c_kinds c) && negb (Nat.eqb (List.length (c_kinds c)) 0)
            | None => false end
  | DArg1 => cell_in (CArg 1) ce
  | DArg2 => cell_in (CArg 2) ce
  | DErr => cell_in CError ce
  | DEmpty => cell_in CVoid ce
  | DAbs => cell_in CAbsent ce
  end.

Definition r_doc_table (T : bintable) (op : string) (doc : list (list docres)) (i j : nat) : bool :=
  match nth_error doc_kinds i, nth_error doc_kinds j, nth_error doc i with
  | Some k1, Some k2, Some row =>
      match nth_error row j with
      | Some d => doc_cell_ok (lookup2 T op k1 k2) d
      | None => false
      end
  | _, _, _ => false
  end.

(* the (&&) and (||) tables of the same page; operands: true, false, 3, (empty), (absent), (error).
   These operators short-circuit inside the DSL evaluator, so their table is observed through `mlr`
   (gen_dsl_logical) : result classes LTrue .. LAbsent *)
Inductive lres := LTrue | LFalse | LError | LAbsent | LEmpty | LOther.
Definition lres_eqb (a b : lres) : bool :=
  match a, b with
  | LTrue, LTrue | LFalse, LFalse | LError, LError | LAbsent, LAbsent | LEmpty, LEmpty | LOther, LOther => true
  | _, _ => false
  end.
Definition doc_and : list (list lres) :=
  (*             true    false   3       empty   absent   error *)
  [ (* true   *) [LTrue;  LFalse; LError; LError; LAbsent; LError];
    (* false  *) [LFalse; LFalse; LFalse; LFalse; LFalse;  LFalse];
    (* 3      *) [LError; LError; LError; LError; LAbsent; LError];
    (* empty  *) [LTrue;  LFalse; LError; LError; LAbsent; LError];
    (* absent *) [LTrue;  LFalse; LError; LAbsent; LAbsent; LError];
    (* error  *) [LError; LError; LError; LError; LError;  LError] ].
Definition doc_or : list (list lres) :=
  [ (* true   *) [LTrue;  LTrue;  LTrue;  LTrue;  LTrue;   LTrue];
    (* false  *) [LTrue;  LFalse; LError; LError; LAbsent; LError];
    (* 3      *) [LError; LError; LError; LError; LAbsent; LError];
    (* empty  *) [LTrue;  LFalse; LError; LError; LAbsent; LError];
    (* absent *) [LTrue;  LFalse; LError; LAbsent; LAbsent; LError];
    (* error  *) [LError; LError; LError; LError; LError;  LError] ].
Definition logtable := list (string * list (list lres)).
Definition r_doc_logical (L : logtable) (op : string) (doc : list (list lres)) (i j : nat) : bool :=
  match assoc op L with
  | Some m => match nth_error m i, nth_error doc i with
              | Some row, Some drow =>
                  match nth_error row j, nth_error drow j with
                  | Some x, Some d => lres_eqb x d
                  | _, _ => false
                  end
              | _, _ => false
              end
  | None => false
  end.
Definition six : list nat := [0; 1; 2; 3; 4; 5].

(* ------------------------------------------------------------------ every open finding is a real refutation *)
Definition refuted (T : bintable) (f : finding) : bool :=
  match f with
  | F_absent_left_zero op =>
      has2 T op KAbsent KInt CInt0 && has2 T op KAbsent KFloat CFloat0 && negb (has2 T op KAbsent KInt (CArg 2))
  | F_max_empty_number =>
      existsb (fun key => let '(op, k1, k2) := key in has2 T op k1 k2 CVoid) (footprint F_max_empty_number)
  end.
