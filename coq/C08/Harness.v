(* C08 correspondence harness: the assignment model run by vm_compute on cases written by the Python driver. *)
From Coq Require Import List String Bool Arith ZArith NArith.
From Miller Require Import C08.Assign.
Import ListNotations.
Local Open Scope string_scope.

Fixpoint val_eqb (a b : val) : bool :=
  match a, b with
  | VAbsent, VAbsent | VEmpty, VEmpty | VError, VError => true
  | VInt x, VInt y => Z.eqb x y
  | VStr s, VStr t => String.eqb s t
  | VMap m, VMap n =>
      (fix go (m n : amap) : bool :=
         match m, n with
         | [], [] => true
         | (k, v) :: m', (k', v') :: n' => String.eqb k k' && val_eqb v v' && go m' n'
         | _, _ => false
         end) m n
  | _, _ => false
  end.

(* what mlr printed at the end of the program: record, oosvars, the named locals and ENV entries (absent -> VAbsent) *)
Inductive observed :=
| ObsFatal
| ObsState (rec oosv : amap) (locals envs : amap).

Definition pick (names : list string) (m : amap) (dflt : val) : amap :=
  map (fun n => (n, match get n m with Some v => v | None => dflt end)) names.

Definition case := (amap * list stmt * observed)%type.

Definition chk (c : case) : bool :=
  let '(r, p, o) := c in
  match run (mkstate r [] [] []) p, o with
  | Fatal, ObsFatal => true
  | Ok st, ObsState r' o' l' e' =>
      val_eqb (VMap (srec st)) (VMap r') && val_eqb (VMap (oos st)) (VMap o')
      && val_eqb (VMap (pick (map fst l') (loc st) VAbsent)) (VMap l')
      && val_eqb (VMap (pick (map fst e') (env st) VEmpty)) (VMap e')
  | _, _ => false
  end.

(* the program stays inside the model's domain (string map keys ...): OutOfModel cases are not comparisons *)
Definition in_model (c : case) : bool :=
  let '(r, p, _) := c in match run (mkstate r [] [] []) p with OutOfModel => false | _ => true end.

(* the model's `+` against the regenerated table, at kind level *)
From Miller Require Import C08.Model gen.Gen_Dispositions.
Definition kind_of (v : val) : kind :=
  match v with VAbsent => KAbsent | VEmpty => KVoid | VError => KError | VInt _ => KInt | VStr _ => KString | VMap _ => KMap end.
Definition plus_samples : list val := [VAbsent; VEmpty; VError; VInt 3; VInt (-7); VStr "abc"; VMap []; VMap [("k", VInt 1)]].
Definition plus_agrees (a b : val) : bool :=
  let ce := lookup2 gen_binary "+" (kind_of a) (kind_of b) in
  match plus a b, a, b with
  | VInt z, VInt x, VInt y => Z.eqb z (x + y) && match ce with Some c => forallb numeric (c_kinds c) | None => false end
  | VInt z, VInt x, _ => Z.eqb z x && cell_in (CArg 1) ce
  | VInt z, _, VInt y => Z.eqb z y && cell_in (CArg 2) ce
  | VAbsent, _, _ => cell_in CAbsent ce
  | VError, _, _ => cell_in CError ce
  | VEmpty, _, _ => cell_in CVoid ce
  | _, _, _ => false
  end.
Lemma plus_model_matches_table :
  forallb (fun a => forallb (plus_agrees a) plus_samples) plus_samples = true.
Proof. vm_compute. reflexivity. Qed.
