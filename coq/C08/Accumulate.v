(* C08 -- the accumulation idiom  @sum[$a] += $x  over a stream of records of any length. *)
From Coq Require Import List String Bool Arith ZArith Lia.
From Miller Require Import C08.Assign.
Import ListNotations.
Local Open Scope string_scope.

Lemma get_put_same k v m : get k (put k v m) = Some v.
Proof.
  induction m as [|[k' v'] m IH]; cbn [put get].
  - rewrite String.eqb_refl. reflexivity.
  - destruct (String.eqb k' k) eqn:E; cbn [get]; rewrite E; [reflexivity|exact IH].
Qed.

Lemma get_put_other k k' v m : String.eqb k k' = false -> get k' (put k v m) = get k' m.
Proof.
  intro Hne. induction m as [|[k0 v0] m IH]; cbn [put get].
  - rewrite Hne. reflexivity.
  - destruct (String.eqb k0 k) eqn:E; cbn [get].
    + apply String.eqb_eq in E. subst k0. rewrite Hne. reflexivity.
    + destruct (String.eqb k0 k'); [reflexivity|exact IH].
Qed.

(* what a record contributes: its $a must be a string and its $x an int, else nothing *)
Definition contrib (r : amap) : option (string * Z) :=
  match get "a" r, get "x" r with
  | Some (VStr s), Some (VInt z) => Some (s, z)
  | _, _ => None
  end.

Definition contrib_for (s : string) (r : amap) : option Z :=
  match contrib r with Some (s', z) => if String.eqb s' s then Some z else None | None => None end.

Definition combine (c t : option Z) : option Z :=
  match c, t with
  | None, _ => t
  | Some c, None => Some c
  | Some c, Some t => Some (c + t)%Z
  end.

(* first-principles total for key s: None when no record contributes *)
Fixpoint total (s : string) (recs : list amap) : option Z :=
  match recs with
  | [] => None
  | r :: rs => combine (contrib_for s r) (total s rs)
  end.

Definition lookup_sum (o : amap) (s : string) : option Z :=
  match get "sum" o with
  | Some (VMap m) => match get s m with Some (VInt z) => Some z | _ => None end
  | _ => None
  end.

Definition ints (m : amap) : Prop := forall k v, get k m = Some v -> exists z, v = VInt z.
Definition sum_ok (o : amap) : Prop :=
  get "sum" o = None \/ exists m, get "sum" o = Some (VMap m) /\ ints m.

(* records whose $a, when present, is a string and whose $x, when present, is an int *)
Definition rec_ok (r : amap) : Prop :=
  (get "a" r = None \/ exists s, get "a" r = Some (VStr s)) /\ (get "x" r = None \/ exists z, get "x" r = Some (VInt z)).

Lemma ints_put k z m : ints m -> ints (put k (VInt z) m).
Proof.
  intros H k' v Hg. destruct (String.eqb k k') eqn:E.
  - apply String.eqb_eq in E. subst. rewrite get_put_same in Hg. injection Hg as <-. eauto.
  - rewrite (get_put_other _ _ _ _ E) in Hg. eauto.
Qed.

Lemma combine_assoc a b c : combine (combine a b) c = combine a (combine b c).
Proof. destruct a, b, c; cbn; try reflexivity; f_equal; lia. Qed.

(* one record *)
Lemma step r o e : rec_ok r -> sum_ok o ->
  exists o', run (mkstate r o [] e) [accumulate] = Ok (mkstate r o' [] e) /\ sum_ok o'
             /\ forall s, lookup_sum o' s = combine (lookup_sum o s) (contrib_for s r).
Proof.
  intros [Ha Hx] Hs.
  unfold accumulate. cbn [run exec eval srec oos].
  destruct Ha as [Ha|[sa Ha]].
  - (* no $a: the index is absent *)
    exists o. rewrite Ha. unfold contrib_for, contrib. rewrite Ha.
    split; [|split; [exact Hs|intro s; destruct (lookup_sum o s); reflexivity]].
    destruct Hx as [Hx|[z Hx]]; rewrite Hx; destruct (get "sum" o) as [[| | | | |m]|]; cbn; rewrite ?Ha; reflexivity.
  - rewrite Ha.
    destruct Hs as [Hn|[m [Hm Hi]]].
    + (* @sum not yet set *)
      rewrite Hn. destruct Hx as [Hx|[z Hx]]; rewrite Hx; cbn.
      * exists o. split; [reflexivity|split; [left; exact Hn|]].
        intro s. unfold contrib_for, contrib. rewrite Ha, Hx. destruct (lookup_sum o s); reflexivity.
      * rewrite Ha. cbn. rewrite Hn. cbn.
        exists (put "sum" (VMap [(sa, VInt z)]) o). split; [reflexivity|split].
        -- right. exists [(sa, VInt z)]. split; [apply get_put_same|].
           intros k v Hg. cbn in Hg. destruct (String.eqb sa k); [injection Hg as <-; eauto|discriminate].
        -- intro s. unfold lookup_sum at 1. rewrite get_put_same. unfold lookup_sum. rewrite Hn.
           unfold contrib_for, contrib. rewrite Ha, Hx. cbn [get combine]. destruct (String.eqb sa s); reflexivity.
    + rewrite Hm. cbn [eval].
      assert (Hcur : get sa m = None \/ exists c, get sa m = Some (VInt c)).
      { destruct (get sa m) as [v|] eqn:G; [right|left; reflexivity]. destruct (Hi _ _ G) as [c ->]. eauto. }
      destruct Hcur as [Hc|[c Hc]]; rewrite Hc; destruct Hx as [Hx|[z Hx]]; rewrite Hx; cbn.
      * exists o. split; [reflexivity|split; [right; eauto|]].
        intro s. unfold contrib_for, contrib. rewrite Ha, Hx. destruct (lookup_sum o s); reflexivity.
      * rewrite Ha. cbn. rewrite Hm.
        exists (put "sum" (VMap (put sa (VInt z) m)) o). split; [reflexivity|split].
        -- right. eexists. split; [apply get_put_same|apply ints_put; exact Hi].
        -- intro s. unfold lookup_sum at 1. rewrite get_put_same. unfold lookup_sum. rewrite Hm.
           unfold contrib_for, contrib. rewrite Ha, Hx.
           destruct (String.eqb sa s) eqn:E.
           ++ apply String.eqb_eq in E. subst s. rewrite get_put_same, Hc. reflexivity.
           ++ rewrite (get_put_other _ _ _ _ E). destruct (get s m) as [[]|]; reflexivity.
      * rewrite Ha. cbn. rewrite Hm.
        exists (put "sum" (VMap (put sa (VInt c) m)) o). split; [reflexivity|split].
        -- right. eexists. split; [apply get_put_same|apply ints_put; exact Hi].
        -- intro s. unfold lookup_sum at 1. rewrite get_put_same. unfold lookup_sum. rewrite Hm.
           unfold contrib_for, contrib. rewrite Ha, Hx.
           destruct (String.eqb sa s) eqn:E.
           ++ apply String.eqb_eq in E. subst s. rewrite get_put_same, Hc. reflexivity.
           ++ rewrite (get_put_other _ _ _ _ E). destruct (get s m) as [[]|]; reflexivity.
      * rewrite Ha. cbn. rewrite Hm.
        exists (put "sum" (VMap (put sa (VInt (c + z)) m)) o). split; [reflexivity|split].
        -- right. eexists. split; [apply get_put_same|apply ints_put; exact Hi].
        -- intro s. unfold lookup_sum at 1. rewrite get_put_same. unfold lookup_sum. rewrite Hm.
           unfold contrib_for, contrib. rewrite Ha, Hx.
           destruct (String.eqb sa s) eqn:E.
           ++ apply String.eqb_eq in E. subst s. rewrite get_put_same, Hc. reflexivity.
           ++ rewrite (get_put_other _ _ _ _ E). destruct (get s m) as [[]|]; reflexivity.
Qed.

Lemma stream_accumulates recs : forall o e, Forall rec_ok recs -> sum_ok o ->
  exists o', stream o e [accumulate] recs = Some o' /\ sum_ok o'
             /\ forall s, lookup_sum o' s = combine (lookup_sum o s) (total s recs).
Proof.
  induction recs as [|r recs IH]; intros o e Hr Hs.
  - exists o. split; [reflexivity|split; [exact Hs|]]. intro s. cbn. destruct (lookup_sum o s); reflexivity.
  - inversion Hr as [|? ? Hr1 Hr2]; subst.
    destruct (step r o e Hr1 Hs) as [o1 [Hrun [Hs1 Hl1]]].
    destruct (IH o1 e Hr2 Hs1) as [o2 [Hst [Hs2 Hl2]]].
    exists o2. split; [|split; [exact Hs2|]].
    + cbn [stream]. rewrite Hrun. cbn [oos env]. exact Hst.
    + intro s. rewrite Hl2, Hl1. cbn [total]. apply combine_assoc.
Qed.

(* from an unset @sum: the final @sum[s] is exactly the first-principles total, and absent when nothing contributed *)
Lemma accumulate_from_unset recs o e : Forall rec_ok recs -> get "sum" o = None ->
  exists o', stream o e [accumulate] recs = Some o' /\ forall s, lookup_sum o' s = total s recs.
Proof.
  intros Hr Hn. destruct (stream_accumulates recs o e Hr (or_introl Hn)) as [o' [H1 [_ H3]]].
  exists o'. split; [exact H1|]. intro s. rewrite H3. unfold lookup_sum. rewrite Hn. reflexivity.
Qed.
