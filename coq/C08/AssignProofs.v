(* C08 -- proofs about the assignment model: for ALL states, lvalues, expressions, programs. *)
From Coq Require Import List String Bool Arith ZArith Lia.
From Miller Require Import C08.Assign.
Import ListNotations.
Local Open Scope string_scope.

(* an absent right-hand side: nothing happens, whatever the lvalue *)
Lemma exec_absent_noop st l e : eval st e = VAbsent -> exec st (SAssign l e) = Ok st.
Proof. intro H. unfold exec. rewrite H. reflexivity. Qed.

Lemma run_absent_noop p : forall st,
  Forall (fun s => match s with SAssign _ e => eval st e = VAbsent end) p -> run st p = Ok st.
Proof.
  induction p as [|[l e] p IH]; intros st H; [reflexivity|].
  inversion H as [|? ? He Hp]; subst. cbn [run]. rewrite (exec_absent_noop st l e He). exact (IH st Hp).
Qed.

Lemma eval_keys_absent st idx e : In e idx -> eval st e = VAbsent -> eval_keys st idx = None.
Proof.
  induction idx as [|x idx IH]; intros Hin He; [contradiction|].
  cbn [eval_keys]. destruct Hin as [->|Hin].
  - rewrite He. reflexivity.
  - destruct (is_absent (eval st x)); [reflexivity|]. rewrite (IH Hin He). reflexivity.
Qed.

(* an absent index / ENV name: skipped too, whatever the (non-absent) value.  The lvalue forms with an index list *)
Definition direct_indexed (l : lval) : bool :=
  match l with LField _ _ | LSrec _ | LOosvar _ _ | LFullOosvar _ | LLocal _ _ | LEnv _ => true | _ => false end.

Lemma do_assign_absent_index st l v e :
  direct_indexed l = true -> In e (lval_indices l) -> eval st e = VAbsent -> do_assign st l v = Ok st.
Proof.
  intros Hd Hin He. destruct l as [n idx|ne idx|i|i|idx|n idx|ne idx|idx|n idx|ne]; try discriminate Hd;
    cbn [lval_indices] in Hin; cbn [do_assign].
  1-5: rewrite (eval_keys_absent st idx e Hin He); reflexivity.
  destruct Hin as [->|[]]. rewrite He. reflexivity.
Qed.

Lemma exec_absent_index st l x e :
  direct_indexed l = true -> In e (lval_indices l) -> eval st e = VAbsent -> exec st (SAssign l x) = Ok st.
Proof.
  intros Hd Hin He. unfold exec. destruct (is_absent (eval st x)); [reflexivity|].
  exact (do_assign_absent_index st l _ e Hd Hin He).
Qed.

(* consequence: no key appears anywhere *)
Lemma exec_absent_keys st l e st' :
  eval st e = VAbsent -> exec st (SAssign l e) = Ok st' ->
  map fst (srec st') = map fst (srec st) /\ map fst (oos st') = map fst (oos st)
  /\ map fst (loc st') = map fst (loc st) /\ map fst (env st') = map fst (env st).
Proof. intros H E. rewrite (exec_absent_noop st l e H) in E. inversion E; subst. repeat split. Qed.

(* map literals never hold an absent value at their top level *)
Definition no_absent (m : amap) : Prop := Forall (fun kv => snd kv <> VAbsent) m.

Lemma put_no_absent k v m : v <> VAbsent -> no_absent m -> no_absent (put k v m).
Proof.
  intros Hv. induction m as [|[k' v'] m IH]; intro H; cbn [put].
  - constructor; [exact Hv|constructor].
  - inversion H as [|? ? H1 H2]; subst. destruct (String.eqb k' k).
    + constructor; [exact Hv|exact H2].
    + constructor; [exact H1|exact (IH H2)].
Qed.

Lemma is_absent_false v : is_absent v = false -> v <> VAbsent.
Proof. destruct v; cbn; congruence. Qed.

Lemma maplit_no_absent st kvs m : eval st (EMapLit kvs) = VMap m -> no_absent m.
Proof.
  cbn [eval]. intro H. injection H as <-.
  assert (G : forall l acc, no_absent acc ->
    no_absent ((fix go (l : list (string * expr)) (acc : amap) : amap :=
               match l with
               | [] => acc
               | (k, x) :: l' => let v := eval st x in go l' (if is_absent v then acc else put k v acc)
               end) l acc)).
  { induction l as [|[k x] l IH]; intros acc Ha; [exact Ha|].
    cbv zeta. apply IH. destruct (is_absent (eval st x)) eqn:E; [exact Ha|].
    apply put_no_absent; [apply is_absent_false; exact E|exact Ha]. }
  apply G. constructor.
Qed.

(* compound assignments: `lhs op= rhs` with BOTH sides absent is skipped (absent op absent = absent for +, ??, ???), so an
   accumulator stays unset until a present value arrives; and `lhs ??= rhs` never overwrites a present lhs with a different value *)
Lemma compound_absent_noop st l o e le :
  lval_as_expr l = Some le -> eval st le = VAbsent -> eval st e = VAbsent ->
  exists s, compound l o e = Some s /\ exec st s = Ok st.
Proof.
  intros Hl Ha He. unfold compound. rewrite Hl. eexists. split; [reflexivity|].
  apply exec_absent_noop. destruct o; cbn [apply_cop eval]; rewrite Ha, He; reflexivity.
Qed.

Lemma coalesce_keeps_present st a b : eval st a <> VAbsent -> eval st (ECoalesce a b) = eval st a.
Proof. intro H. cbn [eval]. destruct (eval st a); try reflexivity. contradiction. Qed.

Lemma coalesce_absent st a b : eval st a = VAbsent -> eval st (ECoalesce a b) = eval st b.
Proof. intro H. cbn [eval]. rewrite H. reflexivity. Qed.
