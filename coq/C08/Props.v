(* C08 property theorems.  Only statements closed by [exact]; each followed by Print Assumptions.

   Part 1 is stated over the tables REGENERATED on every run from the implementation (gen/Gen_Dispositions.v:
   gen_binary / gen_unary / gen_variadic = the real pkg/bifs functions applied to >= 3 representatives of each of the
   12 Mlrval kinds; gen_dsl_logical = && and || through mlr).  `has2 T op k1 k2 c = true` reads: the table has the
   cell and, for EVERY tested pair of representatives of kinds k1, k2, the result of `op` was of class c
   (CArg i = the i-th operand itself, kind and value).  The domains are finite and enumerated completely; the bound
   is the explicit list in each statement.

   `open_findings` (regenerated) lists the known deviations (harness/py/checks/c08.findings.md) the implementation
   exhibits in this run; a theorem with the hypothesis `excluded open_findings cell = false` is the full clause of
   the property when `open_findings = []`, and otherwise the clause outside the footprint of the listed deviations
   (theorem C08_open_findings_are_refutations shows every listed deviation is real, so nothing is excluded that holds
   by accident of the list).  Part 2 is over the assignment model (Assign.v), for all states and programs. *)
From Coq Require Import List String Bool Arith ZArith.
From Miller Require Import C08.Model C08.Proofs C08.TableProofs C08.DslRules gen.Gen_Dispositions gen.Gen_AbsentDSL C08.Assign C08.AssignProofs C08.Accumulate C08.Harness.
Import ListNotations.
Local Open Scope string_scope.

(* ---- absent is the identity of accumulation ---- *)
Theorem C08_absent_identity_left_except_open_findings :
  forall op k, In op accumulate_ops -> In k (identity_kinds op) ->
    excluded open_findings (op, KAbsent, k) = false -> has2 gen_binary op KAbsent k (CArg 2) = true.
Proof. exact (fun op k Ho Hk => ok_elim _ _ _ (lift2 _ _ _ t_absent_left op k Ho Hk)). Qed.
Print Assumptions C08_absent_identity_left_except_open_findings.

Theorem C08_absent_identity_right :
  forall op k, In op accumulate_ops -> In k (identity_kinds op) ->
    excluded open_findings (op, k, KAbsent) = false -> has2 gen_binary op k KAbsent (CArg 1) = true.
Proof. exact (fun op k Ho Hk => ok_elim _ _ _ (lift2 _ _ _ t_absent_right op k Ho Hk)). Qed.
Print Assumptions C08_absent_identity_right.

Theorem C08_absent_op_absent_is_absent :
  forall op, In op (dot_op :: accumulate_ops) -> has2 gen_binary op KAbsent KAbsent CAbsent = true.
Proof. exact (lift1 _ _ t_absent_both). Qed.
Print Assumptions C08_absent_op_absent_is_absent.

Theorem C08_dot_absent_is_identity :
  forall k, In k scalar_kinds -> r_dot_absent gen_binary k = true.
Proof. exact (lift1 _ _ t_dot_absent). Qed.
Print Assumptions C08_dot_absent_is_identity.

Theorem C08_variadic_minmax_ignore_absent :
  forall op k, In op ["min"; "max"] -> In k scalar_kinds ->
    hasv gen_variadic op [k; KAbsent; KAbsent] (CArg 1) = true /\ hasv gen_variadic op [KAbsent; k; KAbsent] (CArg 2) = true
    /\ hasv gen_variadic op [KAbsent; KAbsent; k] (CArg 3) = true /\ hasv gen_variadic op [] CVoid = true.
Proof.
  exact (fun op k Ho Hk =>
    match andb_prop _ _ (lift2 _ (fun _ => scalar_kinds) _ t_variadic op k Ho Hk) with
    | conj H123 H4 => match and3 _ _ _ H123 with conj H1 (conj H2 H3) => conj H1 (conj H2 (conj H3 H4)) end
    end).
Qed.
Print Assumptions C08_variadic_minmax_ignore_absent.

(* ---- math-library functions (and unary operators) of absent are absent; of empty, empty ---- *)
Theorem C08_unary_of_absent_is_absent :
  forall op, In op (math_unary_ops ++ unary_operator_ops ++ ["bitcount"; "min1"; "max1"])%list -> has1 gen_unary op KAbsent CAbsent = true.
Proof. exact (lift1 _ _ t_unary_absent). Qed.
Print Assumptions C08_unary_of_absent_is_absent.

Theorem C08_math_of_empty_is_empty :
  forall op, In op math_unary_ops -> has1 gen_unary op KVoid CVoid = true.
Proof. exact (lift1 _ _ t_math_empty). Qed.
Print Assumptions C08_math_of_empty_is_empty.

(* ---- an error operand with any scalar (also JSON null, absent) yields an error ---- *)
Theorem C08_error_absorbs_except_open_findings :
  forall op k, In op (dot_op :: accumulate_ops) -> In k (scalar_kinds ++ [KNull; KAbsent])%list ->
    (excluded open_findings (op, KError, k) = false -> has2 gen_binary op KError k CError = true)
    /\ (excluded open_findings (op, k, KError) = false -> has2 gen_binary op k KError CError = true).
Proof.
  exact (fun op k Ho Hk =>
    match andb_prop _ _ (lift2 _ (fun _ => (scalar_kinds ++ [KNull; KAbsent])%list) _ t_error op k Ho Hk) with
    | conj H1 H2 => conj (ok_elim _ _ _ H1) (ok_elim _ _ _ H2)
    end).
Qed.
Print Assumptions C08_error_absorbs_except_open_findings.

(* ---- commutative operators: same result kinds for (a,b) and (b,a), all 12 x 12 kind pairs ---- *)
Theorem C08_commutative_result_kinds_except_open_findings :
  forall op k1 k2, In op commutative_ops -> excluded open_findings (op, k1, k2) = false ->
    same_result_kinds (lookup2 gen_binary op k1 k2) (lookup2 gen_binary op k2 k1) = true.
Proof.
  exact (fun op k1 k2 Ho => ok_elim _ _ _ (lift3 _ _ _ _ t_commutes op k1 k2 Ho (all_kinds_complete k1) (all_kinds_complete k2))).
Qed.
Print Assumptions C08_commutative_result_kinds_except_open_findings.

(* ---- empty operands ---- *)
Theorem C08_empty_with_number_yields_number_except_open_findings :
  forall op k, In op empty_number_ops -> In k number_kinds ->
    (excluded open_findings (op, KVoid, k) = false -> has2 gen_binary op KVoid k (CArg 2) = true)
    /\ (excluded open_findings (op, k, KVoid) = false -> has2 gen_binary op k KVoid (CArg 1) = true)
    /\ has2 gen_binary op KVoid KVoid CVoid = true.
Proof.
  exact (fun op k Ho Hk =>
    match and3 _ _ _ (lift2 _ (fun _ => number_kinds) _ t_empty_number op k Ho Hk) with
    | conj H1 (conj H2 H3) => conj (ok_elim _ _ _ H1) (conj (ok_elim _ _ _ H2) H3)
    end).
Qed.
Print Assumptions C08_empty_with_number_yields_number_except_open_findings.

Theorem C08_empty_is_zero_for_subtraction :
  forall op k, In op empty_minus_ops -> In k number_kinds ->
    has2 gen_binary op KVoid k (CNegArg 2) = true /\ has2 gen_binary op k KVoid (CArg 1) = true /\ has2 gen_binary op KVoid KVoid CVoid = true.
Proof. exact (fun op k Ho Hk => and3 _ _ _ (lift2 _ (fun _ => number_kinds) _ t_empty_minus op k Ho Hk)). Qed.
Print Assumptions C08_empty_is_zero_for_subtraction.

Theorem C08_empty_absorbs_other_operators :
  forall op k, In op empty_absorbing_ops -> In k number_kinds ->
    has2 gen_binary op KVoid k CVoid = true /\ has2 gen_binary op k KVoid CVoid = true /\ has2 gen_binary op KVoid KVoid CVoid = true.
Proof. exact (fun op k Ho Hk => and3 _ _ _ (lift2 _ (fun _ => number_kinds) _ t_empty_absorbs op k Ho Hk)). Qed.
Print Assumptions C08_empty_absorbs_other_operators.

(* ---- the tables printed in reference-main-null-data.md, cell by cell ---- *)
Theorem C08_documented_plus_table :
  forall i j, In i six -> In j six -> r_doc_table gen_binary "+" doc_plus i j = true.
Proof. exact (lift2 _ (fun _ => six) _ t_doc_plus). Qed.
Print Assumptions C08_documented_plus_table.

Theorem C08_documented_and_table :
  forall i j, In i six -> In j six -> r_doc_logical gen_dsl_logical "&&" doc_and i j = true.
Proof. exact (lift2 _ (fun _ => six) _ t_doc_and). Qed.
Print Assumptions C08_documented_and_table.

Theorem C08_documented_or_table :
  forall i j, In i six -> In j six -> r_doc_logical gen_dsl_logical "||" doc_or i j = true.
Proof. exact (lift2 _ (fun _ => six) _ t_doc_or). Qed.
Print Assumptions C08_documented_or_table.

(* ---- is_* predicates ---- *)
Theorem C08_is_predicates_classify_every_kind :
  forall k, r_predicates gen_unary k = true.
Proof. exact (fun k => lift1 _ _ t_predicates k (all_kinds_complete k)). Qed.
Print Assumptions C08_is_predicates_classify_every_kind.

Theorem C08_is_predicates_relations :
  forall k, r_pred_relations gen_unary k = true.
Proof. exact (fun k => lift1 _ _ t_pred_relations k (all_kinds_complete k)). Qed.
Print Assumptions C08_is_predicates_relations.

Theorem C08_is_predicates_partition :
  forall k, r_partition gen_unary k = true.
Proof. exact (fun k => lift1 _ _ t_partition k (all_kinds_complete k)). Qed.
Print Assumptions C08_is_predicates_partition.

(* ---- the classification itself: kind-uniform, and no BIF panics on any kind pair ---- *)
Theorem C08_disposition_cells_kind_uniform :
  forall op k1 k2, In op matrix_ops -> r_uniform gen_binary op k1 k2 = true.
Proof. exact (fun op k1 k2 Ho => lift3 _ _ _ _ t_uniform op k1 k2 Ho (all_kinds_complete k1) (all_kinds_complete k2)). Qed.
Print Assumptions C08_disposition_cells_kind_uniform.

Theorem C08_no_cell_panics :
  (forall op k1 k2, In op (map fst gen_binary) -> no_panic (lookup2 gen_binary op k1 k2) = true)
  /\ (forall op k, In op (map fst gen_unary) -> no_panic (lookup1 gen_unary op k) = true).
Proof.
  exact (conj (fun op k1 k2 Ho => lift3 _ _ _ _ t_no_panic2 op k1 k2 Ho (all_kinds_complete k1) (all_kinds_complete k2))
              (fun op k Ho => lift2 _ (fun _ => all_kinds) _ t_no_panic1 op k Ho (all_kinds_complete k))).
Qed.
Print Assumptions C08_no_cell_panics.

(* ---- every deviation listed as open is exhibited by the table (nothing is excluded by an outdated list) ---- *)
Theorem C08_open_findings_are_refutations :
  forall f, In f open_findings -> refuted gen_binary f = true.
Proof. exact (lift1 _ _ t_open_refuted). Qed.
Print Assumptions C08_open_findings_are_refutations.

(* ================= Part 1c: absent through the DSL evaluator (tables regenerated from `mlr -n put`: gen/Gen_AbsentDSL.v) ================= *)

(* a ?? b is b exactly when a is absent, a ??? b exactly when a is absent or empty -- for every kind of a a DSL expression can
   denote (11) and right-hand sides of 4 kinds; co_expected is that rule, lookup_co reads the regenerated table *)
Theorem C08_coalescing_operators_over_all_kinds :
  forall op a b, In op coalesce_ops -> In a dsl_kinds -> In b rhs_kinds ->
    exists c, lookup_co gen_coalesce op a b = Some c /\ cls_eqb c (co_expected op a) = true.
Proof.
  exact (fun op a b Ho Ha Hb =>
    match lookup_co gen_coalesce op a b as o
      return (match o with Some c => cls_eqb c (co_expected op a) | None => false end = true -> exists c, o = Some c /\ cls_eqb c (co_expected op a) = true) with
    | Some c => fun H => ex_intro _ c (conj eq_refl H)
    | None => fun H => match Bool.diff_false_true H with end
    end (lift3 _ _ _ _ t_coalesce op a b Ho Ha Hb)).
Qed.
Print Assumptions C08_coalescing_operators_over_all_kinds.

(* "absent in, absent out" for the listed string / math / formatting functions (first argument absent) *)
Theorem C08_functions_of_absent_are_absent :
  (forall f, In f absent_out_1 -> fn_is_absent gen_fn1_absent f = true) /\ (forall f, In f absent_out_n -> fn_is_absent gen_fnn_absent f = true).
Proof. exact (conj (lift1 _ _ t_fn1_absent) (lift1 _ _ t_fnn_absent)). Qed.
Print Assumptions C08_functions_of_absent_are_absent.

(* EVERY one-argument function of the built-in function table applied to absent gives absent or an error value, except the
   is_* predicates (a boolean) and the listed functions fn1_other; none stops the process *)
Theorem C08_one_argument_functions_of_absent_classified :
  forall e, In e gen_fn1_absent -> r_fn1_class e = true.
Proof. exact (lift1 _ _ t_fn1_class). Qed.
Print Assumptions C08_one_argument_functions_of_absent_classified.

(* asserting_p(v) returns exactly when is_p(v) is true; every predicate is observed on an absent argument *)
Theorem C08_asserting_agrees_with_is_predicates :
  (forall e, In e gen_asserting -> r_asserting e = true) /\ (forall p, In p asserting_preds -> asserting_covers_absent p = true).
Proof. exact (conj (lift1 _ _ t_asserting) (lift1 _ _ t_asserting_cover)). Qed.
Print Assumptions C08_asserting_agrees_with_is_predicates.

(* absent in statements: print/dump/emit print "" or nothing, unset of absent things and absent map keys/values change nothing,
   typed locals stay unset (the skip rule precedes the type gate) while typed parameters/returns reject absent, positional names,
   $* and ENV are not assigned, absent as a condition is an error (if / ?:) and drops the record (filter) *)
Theorem C08_absent_in_statements :
  forall e, In e expected_stmt -> r_stmt e = true.
Proof. exact (lift1 _ _ t_stmt). Qed.
Print Assumptions C08_absent_in_statements.

(* ================= Part 2: assignment (model of AssignmentNode.Execute + every lvalue node), all states ================= *)

(* an assignment whose right-hand side evaluates to absent changes nothing -- for every lvalue form (field, indirect
   field, positional name/value, $*, oosvar, indirect oosvar, @*, local, ENV; indexed or not) *)
Theorem C08_assignment_of_absent_is_skipped :
  forall st l e, eval st e = VAbsent -> exec st (SAssign l e) = Ok st.
Proof. exact exec_absent_noop. Qed.
Print Assumptions C08_assignment_of_absent_is_skipped.

(* ... hence it never creates a key, in the record, the oosvars, the locals or the environment *)
Theorem C08_assignment_of_absent_creates_no_key :
  forall st l e st', eval st e = VAbsent -> exec st (SAssign l e) = Ok st' ->
    map fst (srec st') = map fst (srec st) /\ map fst (oos st') = map fst (oos st)
    /\ map fst (loc st') = map fst (loc st) /\ map fst (env st') = map fst (env st).
Proof. exact exec_absent_keys. Qed.
Print Assumptions C08_assignment_of_absent_creates_no_key.

(* a whole program of such assignments, of any length *)
Theorem C08_program_of_absent_assignments_is_identity :
  forall p st, Forall (fun s => match s with SAssign _ e => eval st e = VAbsent end) p -> run st p = Ok st.
Proof. exact run_absent_noop. Qed.
Print Assumptions C08_program_of_absent_assignments_is_identity.

(* an absent index (or ENV name) skips the assignment as well, whatever the value *)
Theorem C08_assignment_with_absent_index_is_skipped :
  forall st l x e, direct_indexed l = true -> In e (lval_indices l) -> eval st e = VAbsent -> exec st (SAssign l x) = Ok st.
Proof. exact exec_absent_index. Qed.
Print Assumptions C08_assignment_with_absent_index_is_skipped.

(* compound assignment `lhs op= rhs` (op in +, ??, ???; built as `lhs = lhs op rhs`): with lhs unset and rhs absent nothing is
   assigned, so `@sum += $x` / `@v ??= $x` leave the variable unset on records lacking the field *)
Theorem C08_compound_assignment_of_absent_operands_is_skipped :
  forall st l o e le, lval_as_expr l = Some le -> eval st le = VAbsent -> eval st e = VAbsent ->
    exists s, compound l o e = Some s /\ exec st s = Ok st.
Proof. exact compound_absent_noop. Qed.
Print Assumptions C08_compound_assignment_of_absent_operands_is_skipped.

(* a ?? b is b exactly when a is absent *)
Theorem C08_absent_coalescing :
  forall st a b, (eval st a <> VAbsent -> eval st (ECoalesce a b) = eval st a)
              /\ (eval st a = VAbsent -> eval st (ECoalesce a b) = eval st b).
Proof. exact (fun st a b => conj (coalesce_keeps_present st a b) (coalesce_absent st a b)). Qed.
Print Assumptions C08_absent_coalescing.

(* map literals drop absent values: no absent is ever stored through `x = {...}` *)
Theorem C08_map_literal_holds_no_absent :
  forall st kvs m, eval st (EMapLit kvs) = VMap m -> Forall (fun kv => snd kv <> VAbsent) m.
Proof. exact maplit_no_absent. Qed.
Print Assumptions C08_map_literal_holds_no_absent.

(* `@sum[$a] += $x` over a stream of ANY length, started from an unset @sum: the run succeeds and, for every key s,
   @sum[s] is the first-principles total of $x over the records having $a = s and an $x (records lacking either field
   are ignored), and is unset when no record contributes.  rec_ok: $a, when present, is a string and $x, when present,
   an int (int overflow is C07's subject: the model adds in Z). *)
Theorem C08_accumulation_from_unset_variable :
  forall recs o e, Forall rec_ok recs -> get "sum" o = None ->
    exists o', stream o e [accumulate] recs = Some o' /\ forall s, lookup_sum o' s = total s recs.
Proof. exact accumulate_from_unset. Qed.
Print Assumptions C08_accumulation_from_unset_variable.

(* the `+` of the assignment model is the `+` of the regenerated table, at kind level, on the listed sample values *)
Theorem C08_model_plus_matches_table :
  forall a b, In a plus_samples -> In b plus_samples -> plus_agrees a b = true.
Proof. exact (lift2 _ (fun _ => plus_samples) _ plus_model_matches_table). Qed.
Print Assumptions C08_model_plus_matches_table.

(* non-vacuity: the tables are populated, the quantified domains are non-empty, cells carry real classes *)
Example C08_nonvacuous :
  List.length gen_binary = 34 /\ List.length gen_unary >= 50 /\ List.length accumulate_ops = 21
  /\ has2 gen_binary "+" KAbsent KInt (CArg 2) = true /\ has2 gen_binary "+" KAbsent KInt (CArg 1) = false
  /\ has2 gen_binary "+" KInt KAbsent (CArg 1) = true /\ has2 gen_binary "nosuch" KInt KInt (CArg 1) = false
  /\ excluded open_findings ("+", KAbsent, KInt) = false
  /\ lookup2 gen_binary "==" KInt KBool <> None
  (* assignment: a concrete state and program meeting the hypotheses, and the same lvalues DO assign present values *)
  /\ (let st := mkstate [("x", VInt 3)] [] [] [] in
      eval st (EPlus (EField "nosuch") (EOosvar "sum")) = VAbsent
      /\ exec st (SAssign (LField "new" []) (EField "x")) = Ok (mkstate [("x", VInt 3); ("new", VInt 3)] [] [] [])
      /\ exec st (SAssign (LOosvar "sum" [ELit (VStr "k")]) (EPlus (EIndex (EOosvar "sum") (ELit (VStr "k"))) (EField "x")))
         = Ok (mkstate [("x", VInt 3)] [("sum", VMap [("k", VInt 3)])] [] [])
      /\ direct_indexed (LOosvar "sum" [EField "nosuch"]) = true)
  /\ (let recs := [[("a", VStr "p"); ("x", VInt 7)]; [("a", VStr "q")]; [("x", VInt 5)]; [("a", VStr "p"); ("x", VInt 9)]] in
      rec_ok (hd [] recs) /\ total "p" recs = Some 16%Z /\ total "q" recs = None
      /\ stream [] [] [accumulate] recs = Some [("sum", VMap [("p", VInt 16)])]).
Proof.
  vm_compute. repeat split; try reflexivity; try (apply Nat.leb_le; reflexivity); try discriminate;
    try (right; eexists; reflexivity).
Qed.
