(* C08 part (C) -- absent through the DSL evaluator: rules over the tables REGENERATED on every run into gen/Gen_AbsentDSL.v
   (mlr -n put observations: ?? and ??? over every operand kind, built-in functions applied to absent, asserting_* against is_*,
   what print / dump / emit / unset / typed locals / typed returns / filter / if do with absent).  Each lemma is an exhaustive
   evaluation over the explicit finite domain. *)
From Coq Require Import List String Bool Arith.
From Miller Require Import C08.Model C08.Proofs gen.Gen_Dispositions gen.Gen_AbsentDSL.
Import ListNotations.
Local Open Scope string_scope.

(* the kinds a DSL expression can denote (function values are not first-class in expressions) *)
Definition dsl_kinds : list kind := [KInt; KFloat; KBool; KVoid; KString; KBytes; KArray; KMap; KError; KNull; KAbsent].
Definition rhs_kinds : list kind := [KInt; KString; KVoid; KAbsent].
Definition coalesce_ops : list string := ["??"; "???"].

Fixpoint lookup_co (t : list (string * kind * kind * cls)) (op : string) (a b : kind) : option cls :=
  match t with
  | [] => None
  | (o, x, y, c) :: t' => if String.eqb o op && kind_eqb x a && kind_eqb y b then Some c else lookup_co t' op a b
  end.

(* a ?? b is b exactly when a is absent; a ??? b is b exactly when a is absent or empty *)
Definition co_expected (op : string) (a : kind) : cls :=
  if kind_eqb a KAbsent || (String.eqb op "???" && kind_eqb a KVoid) then CArg 2 else CArg 1.
Definition r_coalesce (op : string) (a b : kind) : bool :=
  match lookup_co gen_coalesce op a b with Some c => cls_eqb c (co_expected op a) | None => false end.

Lemma t_coalesce : forallb (fun op => forallb (fun a => forallb (r_coalesce op a) rhs_kinds) dsl_kinds) coalesce_ops = true.
Proof. vm_compute. reflexivity. Qed.

(* functions of an absent argument *)
Definition absent_out_1 : list string :=
  ["capitalize"; "collapse_whitespace"; "lstrip"; "rstrip"; "strip"; "tolower"; "toupper"; "bitcount";
   "abs"; "ceil"; "floor"; "round"; "sgn"; "exp"; "log"; "log10"; "sqrt"; "sin"; "cos"; "tan"; "sec2gmtdate"; "hexfmt"].
Definition absent_out_n : list string := ["sub"; "gsub"; "ssub"; "gssub"; "truncate"; "splitax"].
Definition fn_is_absent (t : list (string * option kind)) (f : string) : bool :=
  match assoc f t with Some (Some KAbsent) => true | _ => false end.

Lemma t_fn1_absent : forallb (fn_is_absent gen_fn1_absent) absent_out_1 = true.
Proof. vm_compute. reflexivity. Qed.
Lemma t_fnn_absent : forallb (fn_is_absent gen_fnn_absent) absent_out_n = true.
Proof. vm_compute. reflexivity. Qed.

(* EVERY one-argument function of the function table: absent or an error value, except the is_* predicates (a boolean) and the
   listed functions *)
Definition fn1_other : list (string * kind) := [("typeof", KString); ("string", KString); ("clean_whitespace", KString); ("length", KInt)].
Definition is_pred_name (f : string) : bool := String.prefix "is_" f.
Definition r_fn1_class (e : string * option kind) : bool :=
  match snd e with
  | Some KAbsent | Some KError => true
  | Some k => (is_pred_name (fst e) && kind_eqb k KBool)
              || match assoc (fst e) fn1_other with Some k' => kind_eqb k k' | None => false end
  | None => false
  end.
Lemma t_fn1_class : forallb r_fn1_class gen_fn1_absent = true.
Proof. vm_compute. reflexivity. Qed.

(* asserting_p(v) returns exactly when is_p(v) is true (is_p from the regenerated BIF table gen_unary) *)
Definition r_asserting (e : string * kind * bool) : bool :=
  let '(p, k, b) := e in match pred gen_unary p k with Some x => Bool.eqb x b | None => false end.
Lemma t_asserting : forallb r_asserting gen_asserting = true.
Proof. vm_compute. reflexivity. Qed.
Definition asserting_preds : list string :=
  ["is_absent"; "is_present"; "is_null"; "is_not_null"; "is_empty"; "is_not_empty"; "is_error"; "is_int"; "is_float"; "is_numeric"; "is_string";
   "is_bool"; "is_boolean"; "is_map"; "is_not_map"; "is_array"; "is_not_array"; "is_bytes"].
Definition asserting_covers_absent (p : string) : bool :=
  existsb (fun e : string * kind * bool => let '(q, k, _) := e in String.eqb p q && kind_eqb k KAbsent) gen_asserting.
Lemma t_asserting_cover : forallb asserting_covers_absent asserting_preds = true.
Proof. vm_compute. reflexivity. Qed.

(* statements: expected output (newline written /; FATAL = mlr stops with an error) *)
Definition expected_stmt : list (string * string) := [
   ("print_absent", "/|/");
   ("print_concat_absent", "[]/");
   ("dump_absent", "|/");
   ("emit_absent", "|/");
   ("emitp_absent", "|/");
   ("emit_lashed_absent", "/|/");
   ("unset_absent_things", "{/  ""m"": {/    ""a"": 1/  }/}/");
   ("map_absent_key_or_value", "{/  ""m"": {/    ""a"": 1/  }/}/");
   ("typed_local_str", "absent/");
   ("typed_local_num", "absent/");
   ("typed_local_map", "absent/");
   ("typed_local_var", "absent/");
   ("typed_local_keeps_value", "4/");
   ("untyped_function_without_return", "absent/");
   ("untyped_function_returns_absent", "absent/");
   ("typed_return_int_absent", "FATAL");
   ("typed_parameter_int_absent", "FATAL");
   ("array_index_absent", "error/");
   ("map_index_absent", "error/");
   ("ternary_absent_condition", "error/");
   ("if_absent_condition", "FATAL");
   ("env_assign_absent", "v/");
   ("positional_name_assign_absent", "a=1,b=2/");
   ("positional_value_assign_absent", "a=1,b=2/");
   ("srec_assign_absent", "a=1,b=2/");
   ("filter_absent_condition", "");
   ("filter_absent_comparison", "")].
Definition r_stmt (e : string * string) : bool :=
  match assoc (fst e) gen_stmt with Some o => String.eqb o (snd e) | None => false end.
Lemma t_stmt : forallb r_stmt expected_stmt = true.
Proof. vm_compute. reflexivity. Qed.
