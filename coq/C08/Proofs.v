(* C08 -- generic lifting of exhaustive boolean checks over explicit finite lists to quantified statements. *)
From Coq Require Import List String Bool Arith.
From Miller Require Import C08.Model.
Import ListNotations.

Lemma lift1 {A} (L : list A) (f : A -> bool) :
  forallb f L = true -> forall a, In a L -> f a = true.
Proof. intros H a Ha. exact (proj1 (forallb_forall f L) H a Ha). Qed.

Lemma lift2 {A B} (L1 : list A) (L2 : A -> list B) (f : A -> B -> bool) :
  forallb (fun a => forallb (f a) (L2 a)) L1 = true ->
  forall a b, In a L1 -> In b (L2 a) -> f a b = true.
Proof.
  intros H a b Ha Hb.
  pose proof (proj1 (forallb_forall _ L1) H a Ha) as H1. cbv beta in H1.
  exact (proj1 (forallb_forall _ (L2 a)) H1 b Hb).
Qed.

Lemma lift3 {A B C} (L1 : list A) (L2 : list B) (L3 : list C) (f : A -> B -> C -> bool) :
  forallb (fun a => forallb (fun b => forallb (f a b) L3) L2) L1 = true ->
  forall a b c, In a L1 -> In b L2 -> In c L3 -> f a b c = true.
Proof.
  intros H a b c Ha Hb Hc.
  pose proof (proj1 (forallb_forall _ L1) H a Ha) as H1. cbv beta in H1.
  pose proof (proj1 (forallb_forall _ L2) H1 b Hb) as H2. cbv beta in H2.
  exact (proj1 (forallb_forall _ L3) H2 c Hc).
Qed.

(* ok open key b = true and the key is not excluded  ->  b = true *)
Lemma ok_elim open key b : ok open key b = true -> excluded open key = false -> b = true.
Proof. unfold ok. intros H E. rewrite E in H. exact H. Qed.

Lemma and3 a b c : a && b && c = true -> a = true /\ b = true /\ c = true.
Proof. intro H. apply andb_true_iff in H. destruct H as [H Hc]. apply andb_true_iff in H. tauto. Qed.

Lemma all_kinds_complete k : In k all_kinds.
Proof. destruct k; cbn; tauto. Qed.
