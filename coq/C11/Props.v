(* C11 property theorems: statements closed by [exact], each followed by Print Assumptions.
   All are over the verb models of C11/Model.v -- the definitions C11/Harness.v runs against the real mlr --
   for every input stream (no size bound), every count, every group-by list, every evaluation history / oracle. *)
From Miller Require Import Base.Record C11.Model C11.UniqModel C11.Checkers C11.Proofs C11.Proofs2 C11.CheckerProofs C11.SampleProofs C11.UniqProofs C11.ChainProofs.
From Coq Require Import Permutation.
Open Scope Z_scope.

(* ---- nothing altered or invented: every output record of every selecting verb is an input record *)
Theorem C11_selects_only : forall l,
  (forall n g, incl (head n g l) l)
  /\ (forall n plus fs, incl (tail n plus fs l) l)
  /\ (forall n b e fs, incl (decimate n b e fs l) l)
  /\ (forall isf inv vs o, filter_run isf inv vs l = Some o -> incl o l)
  /\ (forall mt i v, incl (grep mt i v l) l)
  /\ (forall mode names mt, incl (having_fields mode names mt l) l)
  /\ incl (tac l) l
  /\ (forall fs, incl (group_by fs l) l)
  /\ incl (group_like l) l
  /\ incl (uniq_a l) l
  /\ incl (skip_trivial l) l
  /\ incl (nothing l) l
  /\ (forall us, incl (shuffle us l) l)
  /\ (forall n us, incl (bootstrap n us l) l).
Proof. exact selects_only. Qed.
Print Assumptions C11_selects_only.

(* ---- order kept (subsequence of the input) by the streaming selectors *)
Theorem C11_streaming_selectors_keep_order : forall l,
  (forall k g, 0 <= k -> sublist (head k g l) l)
  /\ (forall n fs, sublist (tail n true fs l) l)
  /\ (forall n b e fs, sublist (decimate n b e fs l) l)
  /\ (forall isf inv vs o, filter_run isf inv vs l = Some o -> sublist o l)
  /\ (forall mt i v, sublist (grep mt i v l) l)
  /\ (forall mode names mt, sublist (having_fields mode names mt l) l)
  /\ sublist (uniq_a l) l /\ sublist (skip_trivial l) l.
Proof.
  exact (fun l => conj (fun k g Hk => head_nonneg_sublist k g l Hk)
        (conj (fun n fs => proj1 (tail_plus_spec n fs l))
        (conj (fun n b e fs => proj1 (decimate_spec n b e fs l))
        (conj (fun isf inv vs o => filter_run_sublist isf inv vs l o)
        (conj (fun mt i v => grep_sublist mt i v l)
        (conj (fun mode names mt => having_fields_sublist mode names mt l)
        (conj (uniq_a_sublist l) (skip_trivial_sublist l)))))))).
Qed.
Print Assumptions C11_streaming_selectors_keep_order.

(* ---- head *)
Theorem C11_head_is_first_k : forall k l, 0 <= k -> head k None l = firstn (Z.to_nat k) l.
Proof. exact head_first_k. Qed.
Print Assumptions C11_head_is_first_k.

Theorem C11_head_per_group : forall k fs l, 0 <= k ->
  sublist (head k (Some fs) l) l
  /\ (forall r, In r (head k (Some fs) l) -> has_key (grouping_key fs) r = true)
  /\ (forall g, group_of (grouping_key fs) g (head k (Some fs) l) = firstn (Z.to_nat k) (group_of (grouping_key fs) g l)).
Proof. exact head_grouped_spec. Qed.
Print Assumptions C11_head_per_group.

Theorem C11_head_negative_all_but_last_k : forall k l, 0 < k ->
  head (- k) None l = firstn (List.length l - Z.to_nat k) l.
Proof. exact head_negative_ungrouped. Qed.
Print Assumptions C11_head_negative_all_but_last_k.

(* per group; the relative order of records of different groups in the output is the order in which they leave
   their windows (not the input order), which the documentation does not fix *)
Theorem C11_head_negative_per_group : forall k g l, 0 < k ->
  let fs := match g with Some fs => fs | None => [] end in
  incl (head (- k) g l) l
  /\ (forall r, In r (head (- k) g l) -> has_key (grouping_key fs) r = true)
  /\ (forall x, let xs := group_of (grouping_key fs) x l in
                group_of (grouping_key fs) x (head (- k) g l) = firstn (List.length xs - Z.to_nat k) xs).
Proof. exact head_negative_spec. Qed.
Print Assumptions C11_head_negative_per_group.

(* ---- tail *)
Theorem C11_tail_last_k_per_group : forall n fs l,
  tail n false fs l = flat_map (fun g => lastn (Z.abs_nat n) (group_of (grouping_key fs) g l)) (dkeys (grouping_key fs) l).
Proof. exact tail_spec. Qed.
Print Assumptions C11_tail_last_k_per_group.

Theorem C11_tail_is_last_k : forall n l, tail n false [] l = skipn (List.length l - Z.abs_nat n) l.
Proof. exact tail_ungrouped. Qed.
Print Assumptions C11_tail_is_last_k.

Theorem C11_tail_mirrors_head : forall k l, 0 <= k -> tail k false [] l = tac (head k None (tac l)).
Proof. exact tail_mirrors_head. Qed.
Print Assumptions C11_tail_mirrors_head.

Theorem C11_tail_plus_per_group : forall n fs l,
  let s := Z.to_nat (Z.max (n - 1) 0) in
  sublist (tail n true fs l) l
  /\ (forall r, In r (tail n true fs l) -> has_key (grouping_key fs) r = true)
  /\ (forall g, group_of (grouping_key fs) g (tail n true fs l) = skipn s (group_of (grouping_key fs) g l)).
Proof. exact tail_plus_spec. Qed.
Print Assumptions C11_tail_plus_per_group.

(* ---- |head -n k| + |tail -n +(k+1)| = N, and in fact head ++ tail = input *)
Theorem C11_head_tail_count : forall k l, 0 <= k ->
  head k None l ++ tail (k + 1) true [] l = l
  /\ (List.length (head k None l) + List.length (tail (k + 1) true [] l) = List.length l)%nat.
Proof. exact (fun k l Hk => conj (head_tail_split k l Hk) (head_tail_count k l Hk)). Qed.
Print Assumptions C11_head_tail_count.

(* ---- decimate: of each group, the records at 0-based positions j with j mod n = n-1 (or 0 with -b) *)
Theorem C11_decimate_positions : forall n b e fs l,
  let rem := if b && negb e then 0 else n - 1 in
  sublist (decimate n b e fs l) l
  /\ (forall r, In r (decimate n b e fs l) -> has_key (grouping_key fs) r = true)
  /\ (forall g, let xs := group_of (grouping_key fs) g l in
                group_of (grouping_key fs) g (decimate n b e fs l)
                = map snd (filter (fun p => fst p mod n =? rem) (combine (zseq 0 (List.length xs)) xs))).
Proof. exact decimate_spec. Qed.
Print Assumptions C11_decimate_positions.

(* ---- filter / filter -x partition the input, for every history of boolean-or-absent verdicts *)
Theorem C11_filter_partition : forall vs l,
  List.length vs = List.length l -> forallb bool_or_absent vs = true ->
  exists a b, filter_run true false vs l = Some a /\ filter_run true true vs l = Some b
              /\ split3 l a b /\ Permutation (a ++ b) l /\ sublist a l /\ sublist b l.
Proof.
  exact (fun vs l H1 H2 => match filter_partition vs l H1 H2 with
         | ex_intro _ a (ex_intro _ b (conj Ha (conj Hb Hs))) =>
           ex_intro _ a (ex_intro _ b (conj Ha (conj Hb (conj Hs (conj (split3_perm _ _ _ Hs) (split3_sublists _ _ _ Hs))))))
         end).
Qed.
Print Assumptions C11_filter_partition.

Theorem C11_filter_true_passes_rest_inverted : forall vs l,
  List.length vs = List.length l -> forallb bool_or_absent vs = true ->
  filter_run true false vs l = Some (map snd (filter (fun p => match fst p with VTrue => true | _ => false end) (combine vs l)))
  /\ filter_run true true vs l = Some (map snd (filter (fun p => match fst p with VTrue => false | _ => true end) (combine vs l))).
Proof. exact filter_run_is_filter. Qed.
Print Assumptions C11_filter_true_passes_rest_inverted.

(* ---- tac *)
Theorem C11_tac_involutive_permutation : forall l, tac (tac l) = l /\ Permutation (tac l) l.
Proof. exact (fun l => conj (tac_involutive l) (tac_permutation l)). Qed.
Print Assumptions C11_tac_involutive_permutation.

(* ---- group-by / group-like: groups in first-appearance order, each in input order; a permutation of the keyed records *)
Theorem C11_group_by_order : forall fs l,
  group_by fs l = flat_map (fun g => group_of (grouping_key fs) g l) (dkeys (grouping_key fs) l)
  /\ Permutation (group_by fs l) (filter (has_key (grouping_key fs)) l).
Proof. exact (fun fs l => conj (group_by_spec fs l) (group_by_permutation fs l)). Qed.
Print Assumptions C11_group_by_order.

Theorem C11_group_like_order : forall l,
  group_like l = flat_map (fun g => group_of keys_key g l) (dkeys keys_key l) /\ Permutation (group_like l) l.
Proof. exact (fun l => conj (group_like_spec l) (group_like_permutation l)). Qed.
Print Assumptions C11_group_like_order.

Theorem C11_group_sizes_sum : forall fs l,
  fold_right (fun g acc => (List.length (group_of (grouping_key fs) g l) + acc)%nat) O (dkeys (grouping_key fs) l)
  = List.length (filter (has_key (grouping_key fs)) l)
  /\ List.length (group_by fs l) = List.length (filter (has_key (grouping_key fs)) l).
Proof. exact (fun fs l => conj (group_sizes_sum fs l) (Permutation_length (group_by_permutation fs l))). Qed.
Print Assumptions C11_group_sizes_sum.

(* "group" = same joined key text = same group-by values, as long as no value contains a comma ... *)
Theorem C11_grouping_key_faithful_without_commas : forall fs r1 r2 v1 v2,
  selected_values fs r1 = Some v1 -> selected_values fs r2 = Some v2 ->
  Forall comma_free v1 -> Forall comma_free v2 ->
  (grouping_key fs r1 = grouping_key fs r2 <-> v1 = v2).
Proof. exact grouping_key_faithful. Qed.
Print Assumptions C11_grouping_key_faithful_without_commas.

(* ... and false otherwise: records with different group-by values share a group, so head -n 1 -g a,b drops the
   first record of a group (witness class grouping-key-comma-collision) *)
Theorem C11_groups_are_value_tuples_refuted : exists fs r1 r2,
  selected_values fs r1 <> selected_values fs r2
  /\ grouping_key fs r1 = grouping_key fs r2
  /\ head 1 (Some fs) [r1; r2] = [r1].
Proof.
  exact (ex_intro _ [B "a"; B "b"] (ex_intro _ [(B "a", B "x,y"); (B "b", B "z")] (ex_intro _ [(B "a", B "x"); (B "b", B "y,z")]
         grouping_key_collision))).
Qed.
Print Assumptions C11_groups_are_value_tuples_refuted.

(* ---- uniq -a: exactly the first occurrence of each distinct record *)
Theorem C11_uniq_a_first_occurrences : forall l,
  sublist (uniq_a l) l /\ NoDup (uniq_a l) /\ (forall r, In r (uniq_a l) <-> In r l).
Proof.
  exact (fun l => conj (uniq_a_sublist l) (conj (proj1 (uniq_a_run_spec l []))
        (fun r => match proj2 (uniq_a_run_spec l []) r with
                  | conj f g => conj (fun H => proj1 (f H)) (fun H => g (conj H (fun F : In r [] => F)))
                  end))).
Qed.
Print Assumptions C11_uniq_a_first_occurrences.

(* ---- having-fields --at-least *)
Theorem C11_having_at_least : forall names mt r, names <> [] ->
  having_pred HAtLeast names mt r
  = (Z.of_nat (List.length names) <=? Z.of_nat (List.length (filter (fun k => mem k names) (keys r)))).
Proof. exact having_at_least_spec. Qed.
Print Assumptions C11_having_at_least.

(* ---- cat -n [-g]: each group numbered 1..n, records otherwise untouched (counter name not already a field) *)
Theorem C11_cat_n_numbers_stream : forall name l,
  cat (Some name) None l = map (fun p => prepend name (dec_of_Z (fst p)) (snd p)) (combine (zseq 1 (List.length l)) l).
Proof. exact (fun name l => cat_n_ungrouped_spec name l 0). Qed.
Print Assumptions C11_cat_n_numbers_stream.

Theorem C11_cat_n_g_numbers_each_group : forall name fs g l,
  mem name fs = false -> unprepended name l ->
  group_of (grouping_key fs) g (cat (Some name) (Some fs) l) = number_from name 0 (group_of (grouping_key fs) g l).
Proof. exact (fun name fs g l H1 H2 => cat_n_grouped_group name fs g l H1 H2 0 []). Qed.
Print Assumptions C11_cat_n_g_numbers_each_group.

(* ---- random verbs, for EVERY sequence of draws *)
Theorem C11_shuffle_is_permutation : forall us l, Permutation (shuffle us l) l.
Proof. exact shuffle_permutation. Qed.
Print Assumptions C11_shuffle_is_permutation.

Theorem C11_bootstrap_from_input : forall nout us l,
  incl (bootstrap nout us l) l
  /\ (Forall (fun i => (i < List.length l)%nat) us -> (List.length l <= List.length us)%nat -> nout = -1 ->
      List.length (bootstrap nout us l) = List.length l).
Proof.
  exact (fun nout us l => conj (bootstrap_incl nout us l) (bootstrap_length_default nout us l)).
Qed.
Print Assumptions C11_bootstrap_from_input.

(* ---- the checkers run on mlr's output for shuffle / bootstrap / sample mean what they should *)
Theorem C11_checkers_correct :
  (forall inp out, check_shuffle inp out = true <-> Permutation inp out)
  /\ (forall nout inp out, check_bootstrap nout inp out = true
        <-> Z.of_nat (List.length out) = (if nout =? -1 then Z.of_nat (List.length inp) else nout) /\ incl out inp)
  /\ (forall k fs inp out, check_sample k fs inp out = true ->
        let keyf := grouping_key fs in
        (exists rest, Permutation inp (out ++ rest))
        /\ (forall r, In r out -> has_key keyf r = true)
        /\ (forall g, In g (dkeys keyf inp) ->
              Z.of_nat (List.length (group_of keyf g out)) = Z.min k (Z.of_nat (List.length (group_of keyf g inp))))
        /\ out = flat_map (fun g => group_of keyf g out) (dkeys keyf inp)).
Proof. exact (conj check_shuffle_spec (conj check_bootstrap_spec check_sample_sound)). Qed.
Print Assumptions C11_checkers_correct.

(* ---- sample (reservoir per group): for EVERY sequence of draws (at least one per record) the model's output passes the
   checker, i.e. (by C11_checkers_correct) it is, group by group in first-appearance order, a without-replacement
   sample of min(k, group size) records of that group; records lacking a group-by field are dropped *)
Theorem C11_sample_model_satisfies_checker : forall k fs ds l,
  0 <= k -> (List.length l <= List.length ds)%nat -> check_sample k fs l (sample k fs ds l) = true.
Proof. exact (fun k fs ds l Hk Hd => sample_passes_checker k fs Hk ds l Hd). Qed.
Print Assumptions C11_sample_model_satisfies_checker.

(* ---- contexts: the models of head, tail, decimate, cat -n/-g, filter's emit decision, ... are functions of the record
   stream alone, so whatever they count they count ARRIVALS: two streams with the same records and arbitrary, different
   NR/FNR/FILENAME contexts give the same output.  (The correspondence check feeds the real verbs records whose NR is
   not the arrival index and expects exactly this.) *)
Theorem C11_verb_models_oblivious_to_context :
  (forall n g, oblivious (on_records (head n g)))
  /\ (forall n plus fs, oblivious (on_records (tail n plus fs)))
  /\ (forall n b e fs, oblivious (on_records (decimate n b e fs)))
  /\ (forall name g, oblivious (on_records (cat name g)))
  /\ (forall isf inv vs, oblivious (on_records (filter_run isf inv vs)))
  /\ oblivious (on_records tac) /\ (forall fs, oblivious (on_records (group_by fs))) /\ oblivious (on_records group_like)
  /\ oblivious (on_records uniq_a) /\ oblivious (on_records skip_trivial)
  /\ (forall k fs ds, oblivious (on_records (sample k fs ds))).
Proof.
  exact (conj (fun n g => on_records_oblivious _) (conj (fun n plus fs => on_records_oblivious _)
        (conj (fun n b e fs => on_records_oblivious _) (conj (fun name g => on_records_oblivious _)
        (conj (fun isf inv vs => on_records_oblivious _) (conj (on_records_oblivious _) (conj (fun fs => on_records_oblivious _)
        (conj (on_records_oblivious _) (conj (on_records_oblivious _) (conj (on_records_oblivious _) (fun k fs ds => on_records_oblivious _))))))))))).
Qed.
Print Assumptions C11_verb_models_oblivious_to_context.

(* `tail -n +N` skips the first N-1 records THAT ARRIVE, whatever NR they carry -- and that differs from selecting by NR
   as soon as an upstream verb has dropped records (witness: the survivors of a filter keeping NR 1, 3, 5) *)
Theorem C11_tail_plus_counts_arrivals_not_NR :
  (forall n (s : cstream), on_records (tail n true []) s = skipn (Z.to_nat (Z.max (n - 1) 0)) (map fst s))
  /\ exists s, on_records (tail 3 true []) s <> tail_plus_by_nr 3 s.
Proof.
  exact (conj tail_plus_counts_arrivals tail_plus_differs_from_by_nr).
Qed.
Print Assumptions C11_tail_plus_counts_arrivals_not_NR.

(* ---- non-vacuity: concrete streams meeting the hypotheses, with non-trivial outcomes *)
Definition ex_stream : list record :=
  [ [(B "a", B "pan"); (B "b", B "1")]; [(B "a", B "eks"); (B "b", B "2")]; [(B "b", B "3")];
    [(B "a", B "pan"); (B "b", B "4")]; [(B "a", B "eks"); (B "b", B "5")]; [(B "a", B "pan"); (B "b", B "6")] ].
Example C11_nonvacuous :
  head 1 (Some [B "a"]) ex_stream = [nth 0 ex_stream []; nth 1 ex_stream []]
  /\ head (-1) (Some [B "a"]) ex_stream = [nth 0 ex_stream []; nth 1 ex_stream []; nth 3 ex_stream []]
  /\ tail 1 false [B "a"] ex_stream = [nth 5 ex_stream []; nth 4 ex_stream []]
  /\ tail 5 true [] ex_stream = [nth 4 ex_stream []; nth 5 ex_stream []]
  /\ decimate 2 false false [B "a"] ex_stream = [nth 3 ex_stream []; nth 4 ex_stream []]
  /\ List.length (group_by [B "a"] ex_stream) = 5%nat
  /\ filter_run true true [VTrue; VAbsent; VFalse; VTrue; VTrue; VAbsent] ex_stream
     = Some [nth 1 ex_stream []; nth 2 ex_stream []; nth 5 ex_stream []]
  /\ forallb bool_or_absent [VTrue; VAbsent; VFalse; VTrue; VTrue; VAbsent] = true
  /\ unprepended (B "n") ex_stream
  /\ shuffle [3; 3; 5; 0; 4; 5]%nat ex_stream <> ex_stream
  /\ sample 1 [B "a"] [8; 1; 6; 0; 0; 0] ex_stream = [nth 5 ex_stream []; nth 1 ex_stream []].
Proof.
  repeat split; try (vm_compute; reflexivity).
  - intros r Hr. cbn in Hr. repeat (destruct Hr as [<-|Hr]; [reflexivity|]). destruct Hr.
  - vm_compute. discriminate.
Qed.

(* ---- then-chains: `mlr v1 then v2 then ...` of selecting verbs selects, at each of the three strengths
   (membership / sub-multiset / subsequence), by induction on the chain *)
Theorem C11_then_chains_select : forall vs,
  (Forall selects vs -> selects (chain vs))
  /\ (Forall selects_submultiset vs -> selects_submultiset (chain vs))
  /\ (Forall selects_in_order vs -> selects_in_order (chain vs)).
Proof. exact (fun vs => conj (chain_selects vs) (conj (chain_selects_submultiset vs) (chain_selects_in_order vs))). Qed.
Print Assumptions C11_then_chains_select.

(* which verb is in which class (subsequence => sub-multiset => membership); bootstrap draws with replacement and is in
   the membership class only (C11_selects_only); head -n -k -g: membership and per-group content (C11_head_negative_per_group) *)
Theorem C11_selecting_verb_classes :
  ((forall k g, 0 <= k -> selects_in_order (head k g))
   /\ (forall k, 0 < k -> selects_in_order (head (- k) None))
   /\ (forall n fs, selects_in_order (tail n true fs))
   /\ (forall n b e fs, selects_in_order (decimate n b e fs))
   /\ (forall isf inv vs, selects_in_order (filter_verb isf inv vs))
   /\ (forall mt i v, selects_in_order (grep mt i v))
   /\ (forall mode names mt, selects_in_order (having_fields mode names mt))
   /\ selects_in_order uniq_a /\ selects_in_order skip_trivial /\ selects_in_order nothing)
  /\ ((forall n plus fs, selects_submultiset (tail n plus fs))
      /\ selects_submultiset tac
      /\ (forall us, selects_submultiset (shuffle us))
      /\ (forall fs, selects_submultiset (group_by fs))
      /\ selects_submultiset group_like
      /\ (forall k fs ds, 0 <= k -> forall l, (List.length l <= List.length ds)%nat -> exists rest, Permutation l (sample k fs ds l ++ rest)))
  /\ (forall f, selects_in_order f -> selects_submultiset f) /\ (forall f, selects_submultiset f -> selects f).
Proof. exact (conj in_order_verbs (conj submultiset_verbs (conj in_order_submultiset submultiset_incl))). Qed.
Print Assumptions C11_selecting_verb_classes.

(* ---- grep: for EVERY matcher (the regex library is a parameter) grep and grep -v split the input, each record on
   exactly one side, order kept; counts add up.  Same for having-fields --any-matching / --none-matching. *)
Theorem C11_grep_partition : forall (mt : bytes -> bool) v l,
  split3 l (grep mt false v l) (grep mt true v l)
  /\ (List.length (grep mt false v l) + List.length (grep mt true v l) = List.length l)%nat
  /\ Permutation (grep mt false v l ++ grep mt true v l) l
  /\ (forall names, split3 l (having_fields HAnyMatching names mt l) (having_fields HNoneMatching names mt l)).
Proof.
  exact (fun mt v l => conj (grep_partition mt v l) (conj (proj1 (grep_count mt v l)) (conj (proj2 (grep_count mt v l))
        (fun names => having_any_none_partition names mt l)))).
Qed.
Print Assumptions C11_grep_partition.

(* ---- uniq -g / -x (without counts): the projection on the grouping fields of the FIRST record of each group, in
   input order (the records `head -n 1 -g` keeps); without -x the grouping key is the one of head/tail/group-by *)
Theorem C11_uniq_g_first_of_each_group : forall inv fs l,
  exists sel, uniq_g inv fs l = map (uniq_proj inv fs) sel
              /\ sublist sel l
              /\ (forall r, In r sel -> has_key (uniq_key inv fs) r = true)
              /\ (forall g, group_of (uniq_key inv fs) g sel = firstn 1 (group_of (uniq_key inv fs) g l)).
Proof. exact uniq_g_spec. Qed.
Print Assumptions C11_uniq_g_first_of_each_group.

(* ---- uniq -c / count-distinct: one record per group in first-appearance order = the projection of the group's first
   record plus ONLY the count field (its size); the counts add up to the number of records having the grouping fields;
   uniq -n / count-distinct -n print the number of groups *)
Theorem C11_uniq_counts : forall inv fs oname l,
  let keyf := uniq_key inv fs in
  uniq_c inv fs oname l
  = map (fun g => let xs := group_of keyf g l in put oname (dec_of_Z (Z.of_nat (List.length xs))) (uniq_proj inv fs (hd [] xs)))
        (dkeys keyf l)
  /\ fold_right (fun g acc => (List.length (group_of keyf g l) + acc)%nat) O (dkeys keyf l) = List.length (filter (has_key keyf) l)
  /\ uniq_n inv fs l = [[(B "count", dec_of_Z (Z.of_nat (List.length (dkeys keyf l))))]].
Proof. exact (fun inv fs oname l => conj (uniq_c_spec inv fs oname l) (conj (uniq_counts_sum inv fs l) (uniq_n_spec inv fs l))). Qed.
Print Assumptions C11_uniq_counts.

(* ---- nothing invented by the projection: every field it shows is a field of the record, with its value; with -x no
   excluded field is shown, without -x only named fields *)
Theorem C11_uniq_projection_only_selects_fields : forall inv fs r kv, In kv (uniq_proj inv fs r) ->
  get (fst kv) r = Some (snd kv) /\ In (fst kv) (uniq_names inv fs r) /\ (inv = true -> mem (fst kv) fs = false).
Proof.
  exact (fun inv fs r kv H => conj (uniq_proj_fields inv fs r kv H) (conj (uniq_proj_names inv fs r kv H)
        (fun E => uniq_x_excludes fs r kv (eq_ind inv (fun b => In kv (uniq_proj b fs r)) H true E)))).
Qed.
Print Assumptions C11_uniq_projection_only_selects_fields.

(* ---- uniq / count-distinct -x (code as repaired by /repo 30bef5caa): records in one group have the same remaining
   field NAMES (names non-empty, without ',' and ';'), and the same remaining sub-record when no value has a comma;
   the unrepaired key (values only) merged x=3 with y=3 *)
Theorem C11_uniq_x_groups_by_names_and_values : forall fs r1 r2 k,
  Forall plain_name (keys_except fs r1) -> Forall plain_name (keys_except fs r2) ->
  uniq_key true fs r1 = Some k -> uniq_key true fs r2 = Some k ->
  keys_except fs r1 = keys_except fs r2
  /\ ((forall v, In v (values r1) -> comma_free v) -> (forall v, In v (values r2) -> comma_free v) ->
      uniq_proj true fs r1 = uniq_proj true fs r2).
Proof. exact uniq_x_key_faithful. Qed.
Print Assumptions C11_uniq_x_groups_by_names_and_values.

Theorem C11_uniq_x_unqualified_key_merged_names_refuted :
  exists fs r1 r2, keys_except fs r1 <> keys_except fs r2
                   /\ uniq_key_unqualified true fs r1 = uniq_key_unqualified true fs r2
                   /\ uniq_key true fs r1 <> uniq_key true fs r2.
Proof. exact uniq_x_unqualified_merged. Qed.
Print Assumptions C11_uniq_x_unqualified_key_merged_names_refuted.

(* ---- uniq -a -c: the records of uniq -a, each with ONLY its number of occurrences prepended; uniq -a -n their number *)
Theorem C11_uniq_a_counts : forall oname l,
  uniq_a_c oname l = map (fun r => prepend oname (dec_of_Z (occurrences r l)) r) (uniq_a l)
  /\ uniq_a_n oname l = [[(oname, dec_of_Z (Z.of_nat (List.length (uniq_a l))))]].
Proof. exact (fun oname l => conj (uniq_a_c_spec oname l) (uniq_a_n_spec oname l)). Qed.
Print Assumptions C11_uniq_a_counts.

Example C11_nonvacuous_uniq :
  uniq_g false [B "a"] ex_stream = [[(B "a", B "pan")]; [(B "a", B "eks")]]
  /\ uniq_c false [B "a"] (B "count") ex_stream = [[(B "a", B "pan"); (B "count", B "3")]; [(B "a", B "eks"); (B "count", B "2")]]
  /\ uniq_n true [B "b"] ex_stream = [[(B "count", B "3")]]
  /\ uniq_g true [B "b"] ex_stream = [[(B "a", B "pan")]; [(B "a", B "eks")]; []]
  /\ uniq_a_c (B "n") (ex_stream ++ ex_stream) = map (prepend (B "n") (B "2")) ex_stream
  /\ Forall plain_name (keys_except [B "b"] (nth 0 ex_stream []))
  /\ chain [head 2 (Some [B "a"]); tac; grep (substr_match false (B "pan")) false false] ex_stream = [nth 3 ex_stream []; nth 0 ex_stream []]
  /\ grep (substr_match false (B "a=pan,")) true false ex_stream = [nth 1 ex_stream []; nth 2 ex_stream []; nth 4 ex_stream []].
Proof.
  repeat split; try (vm_compute; reflexivity).
  vm_compute. repeat constructor; try discriminate; intros H; cbn in H; intuition discriminate.
Qed.
