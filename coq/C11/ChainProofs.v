(* C11 -- then-chains of selecting verbs select (closure by induction on the chain), the three strengths of
   "selects": membership, sub-multiset, subsequence; grep / grep -v and having-fields --any-matching / --none-matching
   partition the input for EVERY matcher. *)
From Miller Require Import Base.Record C11.Model C11.Checkers C11.Proofs C11.Proofs2 C11.CheckerProofs C11.SampleProofs.
From Coq Require Import Permutation Lia.
Open Scope Z_scope.

Definition verb := list record -> list record.
(* every output record is an input record *)
Definition selects (f : verb) : Prop := forall l, incl (f l) l.
(* ... and no record comes out more often than it went in *)
Definition selects_submultiset (f : verb) : Prop := forall l, exists rest, Permutation l (f l ++ rest).
(* ... and the input order is kept *)
Definition selects_in_order (f : verb) : Prop := forall l, sublist (f l) l.

(* mlr v1 then v2 then ... : each verb reads the previous verb's output *)
Definition chain (vs : list verb) : verb := fun l => fold_left (fun acc f => f acc) vs l.

Lemma sublist_trans {A} (b c : list A) : sublist b c -> forall a, sublist a b -> sublist a c.
Proof.
  induction 1 as [|x b c H IH|x b c H IH]; intros a Ha; [assumption|auto|].
  inversion Ha; subst; auto.
Qed.

Lemma sublist_submultiset {A} (a b : list A) : sublist a b -> exists rest, Permutation b (a ++ rest).
Proof.
  induction 1 as [|x a b H [rest IH]|x a b H [rest IH]].
  - exists []. constructor.
  - exists (x :: rest). now apply Permutation_cons_app.
  - exists rest. cbn. now constructor.
Qed.

Lemma submultiset_incl (f : verb) : selects_submultiset f -> selects f.
Proof.
  intros H l r Hr. destruct (H l) as [rest Hp]. apply (Permutation_in _ (Permutation_sym Hp)). apply in_or_app. auto.
Qed.
Lemma in_order_submultiset (f : verb) : selects_in_order f -> selects_submultiset f.
Proof. intros H l. apply sublist_submultiset, H. Qed.
Lemma permutation_submultiset (f : verb) : (forall l, Permutation (f l) l) -> selects_submultiset f.
Proof. intros H l. exists []. rewrite app_nil_r. symmetry. apply H. Qed.

(* ---- closure under then-chaining *)
Lemma chain_selects vs : Forall selects vs -> selects (chain vs).
Proof.
  unfold chain. induction 1 as [|f vs Hf Hvs IH]; intros l; cbn [fold_left]; [apply incl_refl|].
  eapply incl_tran; [apply IH|apply Hf].
Qed.
Lemma chain_selects_in_order vs : Forall selects_in_order vs -> selects_in_order (chain vs).
Proof.
  unfold chain. induction 1 as [|f vs Hf Hvs IH]; intros l; cbn [fold_left]; [apply sublist_refl|].
  eapply sublist_trans; [apply Hf|apply IH].
Qed.
Lemma chain_selects_submultiset vs : Forall selects_submultiset vs -> selects_submultiset (chain vs).
Proof.
  unfold chain. induction 1 as [|f vs Hf Hvs IH]; intros l; cbn [fold_left]; [exists []; now rewrite app_nil_r|].
  destruct (Hf l) as [r1 H1]. destruct (IH (f l)) as [r2 H2]. exists (r2 ++ r1).
  rewrite H1, H2 at 1. now rewrite app_assoc.
Qed.
Lemma chain_app vs ws l : chain (vs ++ ws) l = chain ws (chain vs l).
Proof. unfold chain. apply fold_left_app. Qed.

(* ---- the verbs, by class.  filter as a verb: the verdict history is fixed; a failing run prints nothing *)
Definition filter_verb (isf inv : bool) (vs : list verdict) : verb :=
  fun l => match filter_run isf inv vs l with Some o => o | None => [] end.

Lemma sublist_flat_map {A B} (f h : A -> list B) ks : (forall g, sublist (f g) (h g)) -> sublist (flat_map f ks) (flat_map h ks).
Proof. intros H. induction ks as [|k ks IH]; cbn; [constructor|]. apply sublist_app; auto. Qed.

Lemma tail_lastn_submultiset n fs : selects_submultiset (tail n false fs).
Proof.
  intros l. rewrite tail_spec.
  assert (H1 : sublist (flat_map (fun g => lastn (Z.abs_nat n) (group_of (grouping_key fs) g l)) (dkeys (grouping_key fs) l))
                       (group_by fs l)).
  { rewrite group_by_spec. apply sublist_flat_map. intros g. unfold lastn. apply sublist_skipn. }
  destruct (sublist_submultiset _ _ H1) as [r1 P1].
  destruct (sublist_submultiset _ _ (sublist_filter (has_key (grouping_key fs)) l)) as [r2 P2].
  exists (r1 ++ r2). rewrite P2 at 1. rewrite <- (group_by_permutation fs l), P1. now rewrite app_assoc.
Qed.

Lemma in_order_verbs :
  (forall k g, 0 <= k -> selects_in_order (head k g))
  /\ (forall k, 0 < k -> selects_in_order (head (- k) None))
  /\ (forall n fs, selects_in_order (tail n true fs))
  /\ (forall n b e fs, selects_in_order (decimate n b e fs))
  /\ (forall isf inv vs, selects_in_order (filter_verb isf inv vs))
  /\ (forall mt i v, selects_in_order (grep mt i v))
  /\ (forall mode names mt, selects_in_order (having_fields mode names mt))
  /\ selects_in_order uniq_a /\ selects_in_order skip_trivial /\ selects_in_order nothing.
Proof.
  repeat split; intros.
  - intros l. now apply head_nonneg_sublist.
  - intros l. rewrite head_negative_ungrouped by assumption. apply sublist_firstn.
  - intros l. apply tail_plus_spec.
  - intros l. apply decimate_spec.
  - intros l. unfold filter_verb. destruct (filter_run isf inv vs l) eqn:E; [eapply filter_run_sublist; eauto|apply sublist_nil].
  - intros l. apply grep_sublist.
  - intros l. apply having_fields_sublist.
  - intros l. apply uniq_a_sublist.
  - intros l. apply skip_trivial_sublist.
  - intros l. apply sublist_nil.
Qed.

Lemma submultiset_verbs :
  (forall n plus fs, selects_submultiset (tail n plus fs))
  /\ selects_submultiset tac
  /\ (forall us, selects_submultiset (shuffle us))
  /\ (forall fs, selects_submultiset (group_by fs))
  /\ selects_submultiset group_like
  /\ (forall k fs ds, 0 <= k -> forall l, (List.length l <= List.length ds)%nat -> exists rest, Permutation l (sample k fs ds l ++ rest)).
Proof.
  repeat split; intros.
  - destruct plus; [apply in_order_submultiset; intros l; apply tail_plus_spec|apply tail_lastn_submultiset].
  - apply permutation_submultiset, tac_permutation.
  - apply permutation_submultiset, shuffle_permutation.
  - intros l. destruct (sublist_submultiset _ _ (sublist_filter (has_key (grouping_key fs)) l)) as [r P].
    exists r. rewrite P at 1. now rewrite <- (group_by_permutation fs l).
  - apply permutation_submultiset, group_like_permutation.
  - pose proof (sample_passes_checker k fs H ds l H0) as Hc. apply check_sample_sound in Hc.
    destruct Hc as [[rest Hp] _]. exists rest. exact Hp.
Qed.

(* ---- partitions by a predicate: grep / grep -v, having-fields --any-matching / --none-matching *)
Lemma filter_split3 {A} (p : A -> bool) l : split3 l (filter p l) (filter (fun x => negb (p x)) l).
Proof. induction l as [|x l IH]; cbn; [constructor|]. destruct (p x); cbn; now constructor. Qed.

Lemma grep_partition mt v l : split3 l (grep mt false v l) (grep mt true v l).
Proof. apply (filter_split3 (fun r => mt (if v then nidx_string r else dkvp_string r))). Qed.

Lemma grep_count mt v l :
  (List.length (grep mt false v l) + List.length (grep mt true v l) = List.length l)%nat
  /\ Permutation (grep mt false v l ++ grep mt true v l) l.
Proof.
  pose proof (split3_perm _ _ _ (grep_partition mt v l)) as P. split; [|exact P].
  rewrite <- app_length. now apply Permutation_length.
Qed.

Lemma having_any_none_partition names mt l :
  split3 l (having_fields HAnyMatching names mt l) (having_fields HNoneMatching names mt l).
Proof. apply (filter_split3 (fun r => existsb mt (keys r))). Qed.

(* the text grep matches: the record rendered with "=" and "," whatever the I/O separators are *)
Lemma grep_text_example :
  dkvp_string [(B "a", B "1"); (B "b", B "x;y")] = B "a=1,b=x;y" /\ nidx_string [(B "a", B "1"); (B "b", B "x;y")] = B "1,x;y".
Proof. split; reflexivity. Qed.
