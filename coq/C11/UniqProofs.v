(* C11 -- proofs about the uniq / count-distinct models of UniqModel.v *)
From Miller Require Import Base.Record C11.Model C11.UniqModel C11.Proofs.
From Coq Require Import Permutation Lia.
Open Scope Z_scope.

Lemma iter_succ_r {A} (f : A -> A) n : forall x, Nat.iter (S n) f x = Nat.iter n f (f x).
Proof. induction n as [|n IH]; intros x; [reflexivity|]. cbn in *. now rewrite IH. Qed.

(* ================================================================== keyed fold: ordered map key -> A *)
Section KeyedFold.
  Context {A : Type}.
  Variable keyf : record -> option bytes.
  Variable init : record -> A.
  Variable step : A -> A.

  Fixpoint kfold (m : list (bytes * A)) (l : list record) : list (bytes * A) :=
    match l with
    | [] => m
    | r :: t =>
      match keyf r with
      | None => kfold m t
      | Some g => match alookup g m with
                  | None => kfold (aput g (init r) m) t
                  | Some a => kfold (aput g (step a) m) t
                  end
      end
    end.

  Lemma kfold_keys l : forall m,
    akeys (kfold m l) = akeys m ++ filter (fun g => negb (mem g (akeys m))) (dkeys keyf l).
  Proof.
    induction l as [|r t IH]; intros m; cbn [kfold dkeys]; [cbn; now rewrite app_nil_r|].
    destruct (keyf r) as [g0|] eqn:E; [|apply IH].
    assert (H : forall v : A, akeys (kfold (aput g0 v m) t)
                = akeys m ++ filter (fun g => negb (mem g (akeys m))) (g0 :: filter (fun x => negb (beqb x g0)) (dkeys keyf t))).
    { intros v. rewrite IH, akeys_aput. cbn [filter]. destruct (mem g0 (akeys m)) eqn:Em; cbn [negb].
      - f_equal. symmetry. apply filter_filter_imp. intros x Hx. rewrite negb_true_iff in *.
        destruct (beqb_spec x g0); [subst; congruence|reflexivity].
      - rewrite <- app_assoc. cbn [app]. f_equal. f_equal.
        rewrite filter_filter_and. apply filter_ext. intros x.
        rewrite mem_app. cbn. rewrite orb_false_r, negb_orb. apply andb_comm. }
    destruct (alookup g0 m); apply H.
  Qed.

  Lemma kfold_lookup g l : forall m,
    alookup g (kfold m l)
    = match alookup g m with
      | Some a => Some (Nat.iter (List.length (group_of keyf g l)) step a)
      | None => match group_of keyf g l with
                | [] => None
                | r :: t => Some (Nat.iter (List.length t) step (init r))
                end
      end.
  Proof.
    induction l as [|r t IH]; intros m; cbn [kfold].
    - cbn. destruct (alookup g m); reflexivity.
    - destruct (keyf r) as [g0|] eqn:E.
      + destruct (beqb_spec g0 g) as [->|Hne].
        * rewrite (group_of_cons_same _ _ _ _ E). destruct (alookup g m) as [a|] eqn:El.
          -- rewrite IH, alookup_aput_same. cbn [List.length]. now rewrite iter_succ_r.
          -- rewrite IH, alookup_aput_same. reflexivity.
        * rewrite (group_of_cons_other _ _ _ _ _ E Hne).
          destruct (alookup g0 m); rewrite IH, alookup_aput_other by assumption; reflexivity.
      + rewrite (group_of_cons_none _ _ _ _ E). apply IH.
  Qed.
End KeyedFold.

Definition aget {A} (d : A) (g : bytes) (m : list (bytes * A)) : A := match alookup g m with Some a => a | None => d end.
Lemma assoc_by_keys {A} (d : A) (m : list (bytes * A)) :
  NoDup (akeys m) -> m = map (fun g => (g, aget d g m)) (akeys m).
Proof.
  induction m as [|[k v] m IH]; cbn; intros Hnd; [reflexivity|].
  inversion Hnd as [|? ? Hni Hnd']; subst. unfold aget at 1. cbn. rewrite beqb_refl. f_equal.
  rewrite IH at 1 by assumption. apply map_ext_in. intros g Hg. unfold aget. cbn.
  destruct (beqb_spec g k); [subst; tauto|reflexivity].
Qed.

Lemma assoc_by_keys' {A} (d : A) (m : list (bytes * A)) ks :
  akeys m = ks -> NoDup ks -> m = map (fun g => (g, aget d g m)) ks.
Proof. intros <-. apply assoc_by_keys. Qed.

(* ================================================================== uniq -c / count-distinct / uniq -n *)
Lemma uniq_c_run_kfold inv fs l : forall m,
  uniq_c_run inv fs m l = kfold (uniq_key inv fs) (fun r => (1, uniq_proj inv fs r)) (fun cp => (fst cp + 1, snd cp)) m l.
Proof.
  induction l as [|r t IH]; intros m; cbn [uniq_c_run kfold]; [reflexivity|].
  destruct (uniq_key inv fs r) as [g|]; [|apply IH]. destruct (alookup g m); apply IH.
Qed.

Lemma iter_count n : forall c (p : record), Nat.iter n (fun cp : Z * record => (fst cp + 1, snd cp)) (c, p) = (c + Z.of_nat n, p).
Proof.
  induction n as [|n IH]; intros c p; [cbn; f_equal; lia|].
  rewrite iter_succ_r. cbn [fst snd]. rewrite IH. f_equal. lia.
Qed.

Lemma uniq_c_run_keys inv fs l : akeys (uniq_c_run inv fs [] l) = dkeys (uniq_key inv fs) l.
Proof. rewrite uniq_c_run_kfold, kfold_keys. cbn. apply filter_true. reflexivity. Qed.

(* the groups in first-appearance order; each group gives the projection of its FIRST record and its size *)
Lemma uniq_c_run_spec inv fs l :
  uniq_c_run inv fs [] l
  = map (fun g => let xs := group_of (uniq_key inv fs) g l in
                  (g, (Z.of_nat (List.length xs), uniq_proj inv fs (hd [] xs))))
        (dkeys (uniq_key inv fs) l).
Proof.
  pose proof (uniq_c_run_keys inv fs l) as Hk.
  rewrite (assoc_by_keys' (0, []) (uniq_c_run inv fs [] l) _ Hk (dkeys_NoDup _ _)) at 1.
  apply map_ext_in. intros g Hg. cbn zeta. f_equal.
  unfold aget. rewrite uniq_c_run_kfold, kfold_lookup. cbn [alookup].
  destruct (dkeys_sound _ _ _ Hg) as (r & Hr & Hkr).
  destruct (group_of (uniq_key inv fs) g l) as [|x xs] eqn:Eg.
  - exfalso. assert (Hin : In r (group_of (uniq_key inv fs) g l)).
    { unfold group_of. apply filter_In. split; [assumption|]. rewrite Hkr. cbn. apply beqb_refl. }
    rewrite Eg in Hin. destruct Hin.
  - rewrite iter_count. cbn [hd List.length]. f_equal. lia.
Qed.

Lemma uniq_c_spec inv fs oname l :
  uniq_c inv fs oname l
  = map (fun g => let xs := group_of (uniq_key inv fs) g l in
                  put oname (dec_of_Z (Z.of_nat (List.length xs))) (uniq_proj inv fs (hd [] xs)))
        (dkeys (uniq_key inv fs) l).
Proof. unfold uniq_c. rewrite uniq_c_run_spec, map_map. reflexivity. Qed.

Lemma uniq_n_spec inv fs l :
  uniq_n inv fs l = [[(B "count", dec_of_Z (Z.of_nat (List.length (dkeys (uniq_key inv fs) l))))]].
Proof. unfold uniq_n. rewrite <- uniq_c_run_keys. unfold akeys. now rewrite map_length. Qed.

(* counts add up: the group sizes sum to the number of records that have the grouping fields *)
Lemma uniq_counts_sum inv fs l :
  fold_right (fun g acc => (List.length (group_of (uniq_key inv fs) g l) + acc)%nat) O (dkeys (uniq_key inv fs) l)
  = List.length (filter (has_key (uniq_key inv fs)) l).
Proof.
  rewrite <- (length_flat_map (fun g => group_of (uniq_key inv fs) g l)).
  apply Permutation_length. apply groups_permutation.
Qed.

(* ================================================================== uniq -g / -x without counts *)
Fixpoint firsts (keyf : record -> option bytes) (seen : list bytes) (l : list record) : list record :=
  match l with
  | [] => []
  | r :: t => match keyf r with
              | None => firsts keyf seen t
              | Some g => if mem g seen then firsts keyf seen t else r :: firsts keyf (g :: seen) t
              end
  end.

Lemma uniq_g_run_firsts inv fs l : forall seen,
  uniq_g_run inv fs seen l = map (uniq_proj inv fs) (firsts (uniq_key inv fs) seen l).
Proof.
  induction l as [|r t IH]; intros seen; cbn [uniq_g_run firsts]; [reflexivity|].
  destruct (uniq_key inv fs r) as [g|]; [|apply IH]. destruct (mem g seen); [apply IH|]. cbn [map]. now rewrite IH.
Qed.

Lemma firsts_sublist keyf l : forall seen, sublist (firsts keyf seen l) l.
Proof.
  induction l as [|r t IH]; intros seen; cbn [firsts]; [constructor|].
  destruct (keyf r) as [g|]; [|auto]. destruct (mem g seen); auto.
Qed.

Lemma firsts_has_key keyf l : forall seen r, In r (firsts keyf seen l) -> has_key keyf r = true.
Proof.
  induction l as [|r t IH]; intros seen x; cbn [firsts]; [intros []|].
  destruct (keyf r) as [g|] eqn:E; [|apply IH]. destruct (mem g seen); [apply IH|].
  intros [<-|H]; [unfold has_key; now rewrite E|eapply IH; eauto].
Qed.

Lemma firsts_group keyf g l : forall seen,
  group_of keyf g (firsts keyf seen l) = if mem g seen then [] else firstn 1 (group_of keyf g l).
Proof.
  induction l as [|r t IH]; intros seen; cbn [firsts].
  - cbn. destruct (mem g seen); reflexivity.
  - destruct (keyf r) as [g0|] eqn:E.
    + destruct (beqb_spec g0 g) as [->|Hne].
      * rewrite (group_of_cons_same _ _ _ _ E). destruct (mem g seen) eqn:Em.
        -- rewrite IH, Em. reflexivity.
        -- rewrite (group_of_cons_same _ _ _ _ E), IH. cbn [mem existsb]. rewrite beqb_refl. reflexivity.
      * rewrite (group_of_cons_other _ _ _ _ _ E Hne). destruct (mem g0 seen); [apply IH|].
        rewrite (group_of_cons_other _ _ _ _ _ E Hne), IH. unfold mem. cbn [existsb].
        destruct (beqb_spec g g0); [congruence|reflexivity].
    + rewrite (group_of_cons_none _ _ _ _ E). apply IH.
Qed.

(* uniq -g / -x = the projection of the first record of each group, in input order *)
Lemma uniq_g_spec inv fs l :
  exists sel, uniq_g inv fs l = map (uniq_proj inv fs) sel
              /\ sublist sel l
              /\ (forall r, In r sel -> has_key (uniq_key inv fs) r = true)
              /\ (forall g, group_of (uniq_key inv fs) g sel = firstn 1 (group_of (uniq_key inv fs) g l)).
Proof.
  exists (firsts (uniq_key inv fs) [] l). split; [apply uniq_g_run_firsts|]. split; [apply firsts_sublist|].
  split; [apply firsts_has_key|]. intros g. apply firsts_group.
Qed.

(* without -x the groups are those of head -n 1 -g *)
Lemma uniq_key_plain fs r : uniq_key false fs r = grouping_key fs r.
Proof. reflexivity. Qed.

(* ================================================================== nothing invented: every output field is an input field *)
Lemma in_put k v (r : record) kv : In kv (put k v r) -> kv = (k, v) \/ In kv r.
Proof.
  induction r as [|[k' v'] r IH]; cbn; [intros [<-|[]]; auto|].
  destruct (beqb_spec k k') as [->|Hne]; cbn.
  - intros [<-|H]; auto.
  - intros [<-|H]; auto. destruct (IH H); auto.
Qed.

Lemma selected_values_get ns r : forall vs, selected_values ns r = Some vs ->
  forall kv, In kv (combine ns vs) -> get (fst kv) r = Some (snd kv).
Proof.
  induction ns as [|n ns IH]; intros vs; cbn [selected_values].
  - intros _ kv [].
  - destruct (get n r) as [v|] eqn:Eg; [|discriminate]. destruct (selected_values ns r) as [vs'|]; [|discriminate].
    intros H; injection H as <-. cbn. intros kv [<-|Hin]; [exact Eg|]. eapply IH; eauto.
Qed.

Lemma build_fields (P : field -> Prop) ps : (forall kv, In kv ps -> P kv) -> forall acc : record,
  (forall kv, In kv acc -> P kv) -> forall kv, In kv (fold_left (fun r kv => put (fst kv) (snd kv) r) ps acc) -> P kv.
Proof.
  induction ps as [|[k v] ps IH]; intros Hps acc Hacc kv; cbn [fold_left]; [apply Hacc|].
  apply IH; [intros; apply Hps; cbn; auto|]. intros x Hx. destruct (in_put _ _ _ _ Hx) as [->|Hin]; [apply Hps; cbn; auto|auto].
Qed.

Lemma uniq_proj_fields inv fs r kv : In kv (uniq_proj inv fs r) -> get (fst kv) r = Some (snd kv).
Proof.
  unfold uniq_proj. destruct (selected_values (uniq_names inv fs r) r) as [vs|] eqn:E; [|intros []].
  unfold build. apply (build_fields (fun kv => get (fst kv) r = Some (snd kv))).
  - apply (selected_values_get _ _ _ E).
  - intros x [].
Qed.

(* with -x the projection never shows an excluded field; without -x only named fields *)
Lemma build_keys ns : forall vs acc kv, In kv (fold_left (fun r kv => put (fst kv) (snd kv) r) (combine ns vs) acc) ->
  In (fst kv) ns \/ In kv acc.
Proof.
  induction ns as [|n ns IH]; intros [|v vs] acc kv; cbn [combine fold_left]; auto.
  intros H. destruct (IH _ _ _ H) as [Hin|Hin]; [left; cbn; auto|].
  destruct (in_put _ _ _ _ Hin) as [->|Hacc]; [left; cbn; auto|auto].
Qed.
Lemma uniq_proj_names inv fs r kv : In kv (uniq_proj inv fs r) -> In (fst kv) (uniq_names inv fs r).
Proof.
  unfold uniq_proj. destruct (selected_values (uniq_names inv fs r) r) as [vs|]; [|intros []].
  intros H. destruct (build_keys _ _ _ _ H) as [Hin|[]]. exact Hin.
Qed.
Lemma uniq_x_excludes fs r kv : In kv (uniq_proj true fs r) -> mem (fst kv) fs = false.
Proof.
  intros H. apply uniq_proj_names in H. cbn in H. unfold keys_except in H. apply filter_In in H.
  now rewrite <- negb_true_iff.
Qed.

(* ================================================================== -x: the repaired key separates field names *)
Definition free_of (c : ascii) (v : bytes) : Prop := ~ In c v.
Lemma app_sep_inj c (x y a b : bytes) : free_of c x -> free_of c y -> x ++ c :: a = y ++ c :: b -> x = y /\ a = b.
Proof.
  revert y. induction x as [|d x IH]; intros [|e y] Hx Hy H; cbn in H.
  - injection H as ->. auto.
  - injection H as <- _. exfalso. apply Hy. cbn. auto.
  - injection H as -> _. exfalso. apply Hx. cbn. auto.
  - injection H as <- H. destruct (IH y) as [-> ->]; auto.
    + intros Hin. apply Hx. cbn. auto.
    + intros Hin. apply Hy. cbn. auto.
Qed.

(* a usable field name: not empty, no ',' and no ';' *)
Definition plain_name (n : bytes) : Prop := n <> [] /\ comma_free n /\ free_of ";"%char n.

Lemma join_comma_free_of c ns : c <> ","%char -> Forall (free_of c) ns -> free_of c (join_comma ns).
Proof.
  intros Hc. induction 1 as [|n ns Hn Hns IH]; [intros []|].
  destruct ns as [|n2 ns]; [exact Hn|]. rewrite join_comma_cons by congruence.
  intros Hin. apply in_app_or in Hin. destruct Hin as [Hin|[Hin|Hin]]; [now apply Hn|congruence|now apply IH].
Qed.

Lemma join_comma_nonempty n ns : n <> [] -> join_comma (n :: ns) <> [].
Proof. destruct ns; cbn; [auto|]. destruct n; [congruence|discriminate]. Qed.

Lemma join_comma_inj_names a : forall b, Forall plain_name a -> Forall plain_name b -> join_comma a = join_comma b -> a = b.
Proof.
  induction a as [|x a IH]; intros [|y b] Ha Hb H.
  - reflexivity.
  - inversion Hb as [|? ? [Hy _] _]; subst. symmetry in H. now apply join_comma_nonempty in H.
  - inversion Ha as [|? ? [Hx _] _]; subst. now apply join_comma_nonempty in H.
  - inversion Ha as [|? ? (Hx0 & Hx & _) Ha']; subst. inversion Hb as [|? ? (Hy0 & Hy & _) Hb']; subst.
    destruct a as [|x2 a]; destruct b as [|y2 b].
    + cbn in H. congruence.
    + rewrite (join_comma_cons y (y2 :: b)) in H by congruence. cbn [join_comma] in H.
      exfalso. apply Hx. rewrite H. apply in_or_app. right. cbn. auto.
    + rewrite (join_comma_cons x (x2 :: a)) in H by congruence. cbn [join_comma] in H.
      exfalso. apply Hy. rewrite <- H. apply in_or_app. right. cbn. auto.
    + rewrite (join_comma_cons x (x2 :: a)), (join_comma_cons y (y2 :: b)) in H by congruence.
      destruct (app_comma_inj _ _ _ _ Hx Hy H) as [-> H2]. f_equal. apply IH; auto.
Qed.

(* two records are in the same uniq -x group only if their remaining field NAMES agree; if the remaining values have
   no comma either, only if the remaining sub-records agree *)
Lemma uniq_x_key_faithful fs r1 r2 k :
  Forall plain_name (keys_except fs r1) -> Forall plain_name (keys_except fs r2) ->
  uniq_key true fs r1 = Some k -> uniq_key true fs r2 = Some k ->
  keys_except fs r1 = keys_except fs r2
  /\ ((forall v, In v (values r1) -> comma_free v) -> (forall v, In v (values r2) -> comma_free v) ->
      uniq_proj true fs r1 = uniq_proj true fs r2).
Proof.
  intros N1 N2. unfold uniq_key, uniq_proj. cbn [uniq_names].
  destruct (selected_values (keys_except fs r1) r1) as [v1|] eqn:E1; [|discriminate].
  destruct (selected_values (keys_except fs r2) r2) as [v2|] eqn:E2; [|discriminate].
  intros H1 H2. injection H1 as <-. injection H2 as H.
  assert (Hsemi : forall ns, Forall plain_name ns -> free_of ";"%char (join_comma ns)).
  { intros ns Hns. apply join_comma_free_of; [discriminate|]. eapply Forall_impl; [|exact Hns]. intros a (_ & _ & Ha). exact Ha. }
  destruct (app_sep_inj _ _ _ _ _ (Hsemi _ N2) (Hsemi _ N1) H) as [Hn Hv].
  apply join_comma_inj_names in Hn; auto. split; [congruence|].
  intros C1 C2. rewrite <- Hn in *. f_equal.
  assert (Hval : forall r vs ns, selected_values ns r = Some vs -> forall v, In v vs -> In v (values r)).
  { intros r vs ns. revert vs. induction ns as [|n ns IH]; intros vs; cbn [selected_values].
    - intros Hs; injection Hs as <-. intros v [].
    - destruct (get n r) as [w|] eqn:Eg; [|discriminate]. destruct (selected_values ns r) as [vs'|]; [|discriminate].
      intros Hs; injection Hs as <-. intros v [<-|Hin]; [|eapply IH; eauto].
      clear - Eg. induction r as [|[k' v'] r IHr]; cbn in *; [discriminate|].
      destruct (beqb n k'); [injection Eg as ->; auto|right; auto]. }
  symmetry. apply join_comma_inj; auto.
  - rewrite (selected_values_length _ _ _ E1), (selected_values_length _ _ _ E2). reflexivity.
  - apply Forall_forall. intros v Hv'. apply C2. eapply Hval; eauto.
  - apply Forall_forall. intros v Hv'. apply C1. eapply Hval; eauto.
Qed.

(* what 30bef5caa repaired: x=3 and y=3 had one key (values only); now they have two *)
Lemma uniq_x_names_separated :
  let r1 := [(B "a", B "1"); (B "x", B "3")] in
  let r2 := [(B "a", B "2"); (B "y", B "3")] in
  uniq_key_unqualified true [B "a"] r1 = uniq_key_unqualified true [B "a"] r2
  /\ uniq_key true [B "a"] r1 <> uniq_key true [B "a"] r2
  /\ uniq_g true [B "a"] [r1; r2] = [[(B "x", B "3")]; [(B "y", B "3")]]
  /\ uniq_c true [B "a"] (B "count") [r1; r2; r1] = [[(B "x", B "3"); (B "count", B "2")]; [(B "y", B "3"); (B "count", B "1")]].
Proof. cbn zeta. split; [reflexivity|]. split; [discriminate|]. split; reflexivity. Qed.

Lemma uniq_x_unqualified_merged :
  exists fs r1 r2, keys_except fs r1 <> keys_except fs r2
                   /\ uniq_key_unqualified true fs r1 = uniq_key_unqualified true fs r2
                   /\ uniq_key true fs r1 <> uniq_key true fs r2.
Proof.
  exists [B "a"], [(B "a", B "1"); (B "x", B "3")], [(B "a", B "2"); (B "y", B "3")].
  split; [vm_compute; discriminate|]. split; [reflexivity|vm_compute; discriminate].
Qed.

(* ================================================================== uniq -a -c / -a -n *)
Definition occurrences (r : record) (l : list record) : Z := Z.of_nat (List.length (filter (record_eqb r) l)).

Lemma rbump_fst r m : map fst (rbump r m) = if existsb (record_eqb r) (map fst m) then map fst m else map fst m ++ [r].
Proof.
  induction m as [|[r' c] m IH]; cbn; [reflexivity|].
  destruct (record_eqb r r') eqn:E; cbn; [reflexivity|]. rewrite IH.
  destruct (existsb (record_eqb r) (map fst m)); reflexivity.
Qed.

Fixpoint rget (r : record) (m : list (record * Z)) : Z :=
  match m with [] => 0 | (r', c) :: t => if record_eqb r r' then c else rget r t end.
Lemma rget_rbump_same r m : rget r (rbump r m) = rget r m + 1.
Proof.
  induction m as [|[r' c] m IH]; cbn.
  - destruct (record_eqb_spec r r); [reflexivity|congruence].
  - destruct (record_eqb r r') eqn:E; cbn; rewrite E; auto.
Qed.
Lemma rget_rbump_other r x m : x <> r -> rget x (rbump r m) = rget x m.
Proof.
  intros Hne. induction m as [|[r' c] m IH]; cbn.
  - destruct (record_eqb_spec x r); [congruence|reflexivity].
  - destruct (record_eqb_spec r r') as [<-|Hr]; cbn.
    + destruct (record_eqb_spec x r); [congruence|reflexivity].
    + destruct (record_eqb x r'); auto.
Qed.

Lemma uniq_a_counts_rget x l : forall m, rget x (fold_left (fun m r => rbump r m) l m) = rget x m + occurrences x l.
Proof.
  unfold occurrences. induction l as [|r t IH]; intros m; cbn [fold_left filter]; [cbn; lia|].
  rewrite IH. destruct (record_eqb_spec x r) as [<-|Hne].
  - rewrite rget_rbump_same. cbn [List.length]. lia.
  - rewrite rget_rbump_other by assumption. lia.
Qed.

(* first occurrences, in order: the records uniq -a prints *)
Lemma uniq_a_run_snoc l : forall seen r,
  uniq_a_run seen (l ++ [r]) = uniq_a_run seen l ++ (if existsb (record_eqb r) (seen ++ uniq_a_run seen l) then [] else [r]).
Proof.
  induction l as [|x t IH]; intros seen r; cbn [app uniq_a_run].
  - rewrite app_nil_r. destruct (existsb (record_eqb r) seen); reflexivity.
  - destruct (existsb (record_eqb x) seen) eqn:Ex.
    + apply IH.
    + cbn [app]. rewrite IH. f_equal. f_equal.
      assert (Hp : forall a b : list record, existsb (record_eqb r) (a ++ x :: b) = existsb (record_eqb r) ((x :: a) ++ b)).
      { intros a b. cbn. rewrite !existsb_app. cbn. destruct (record_eqb r x), (existsb (record_eqb r) a); reflexivity. }
      rewrite Hp. reflexivity.
Qed.

Lemma uniq_a_counts_fst l : map fst (uniq_a_counts l) = uniq_a l.
Proof.
  unfold uniq_a_counts, uniq_a. induction l as [|r l IH] using rev_ind; [reflexivity|].
  rewrite fold_left_app. cbn [fold_left]. rewrite rbump_fst, IH, uniq_a_run_snoc. cbn [app].
  destruct (existsb (record_eqb r) (uniq_a_run [] l)); [now rewrite app_nil_r|reflexivity].
Qed.

Lemma rget_lookup m : NoDup (map fst m) -> m = map (fun r => (r, rget r m)) (map fst m).
Proof.
  induction m as [|[r c] m IH]; cbn; intros Hnd; [reflexivity|].
  inversion Hnd as [|? ? Hni Hnd']; subst.
  destruct (record_eqb_spec r r); [|congruence]. f_equal.
  rewrite IH at 1 by assumption. apply map_ext_in. intros x Hx.
  destruct (record_eqb_spec x r); [subst; tauto|reflexivity].
Qed.

Lemma uniq_a_NoDup l : NoDup (uniq_a l).
Proof.
  unfold uniq_a. assert (H : forall seen, NoDup (uniq_a_run seen l) /\ forall r, In r (uniq_a_run seen l) -> ~ In r seen).
  { induction l as [|r t IH]; intros seen; cbn [uniq_a_run]; [split; [constructor|intros ? []]|].
    destruct (existsb (record_eqb r) seen) eqn:E; [apply IH|].
    destruct (IH (r :: seen)) as [Hnd Hseen]. split.
    - constructor; [|assumption]. intros Hin. apply (Hseen r Hin). cbn. auto.
    - intros x [<-|Hin].
      + intros Hs. apply existsb_record_In in Hs. congruence.
      + intros Hs. apply (Hseen x Hin). cbn. auto. }
  apply H.
Qed.

(* uniq -a -c: the records of uniq -a, each with its number of occurrences prepended *)
Lemma uniq_a_c_spec oname l :
  uniq_a_c oname l = map (fun r => prepend oname (dec_of_Z (occurrences r l)) r) (uniq_a l).
Proof.
  unfold uniq_a_c. rewrite (rget_lookup (uniq_a_counts l)) by (rewrite uniq_a_counts_fst; apply uniq_a_NoDup).
  rewrite uniq_a_counts_fst, map_map. apply map_ext. intros r. cbn [fst snd].
  unfold uniq_a_counts. rewrite uniq_a_counts_rget. reflexivity.
Qed.

Lemma uniq_a_n_spec oname l : uniq_a_n oname l = [[(oname, dec_of_Z (Z.of_nat (List.length (uniq_a l))))]].
Proof. unfold uniq_a_n. rewrite <- uniq_a_counts_fst, map_length. reflexivity. Qed.
