(* C11 -- the reservoir model of `mlr sample` satisfies its checker for every sequence of draws:
   per group a without-replacement sample of min(k, group size) records, groups in first-appearance order. *)
From Miller Require Import Base.Record C11.Model C11.Checkers C11.Proofs C11.CheckerProofs.
From Coq Require Import Permutation.
Open Scope Z_scope.

Lemma set_nth_none {A} (l : list A) : forall i x, nth_error l i = None -> set_nth i x l = l.
Proof. induction l as [|y l IH]; intros [|i] x H; cbn in *; try discriminate; try reflexivity. f_equal. auto. Qed.
Lemma set_nth_in {A} (l : list A) : forall i x y, In y (set_nth i x l) -> y = x \/ In y l.
Proof.
  induction l as [|z l IH]; intros [|i] x y H; cbn in *; try tauto.
  - destruct H as [<-|H]; auto.
  - destruct H as [<-|H]; auto. destruct (IH i x y H); auto.
Qed.
Lemma set_nth_sub (w : list record) i r : exists x, Permutation (w ++ [r]) (set_nth i r w ++ x).
Proof.
  destruct (nth_error w i) as [a|] eqn:E.
  - exists [a]. rewrite <- !Permutation_cons_append. now apply set_nth_perm.
  - exists [r]. now rewrite set_nth_none.
Qed.

Section Sample.
  Variable k : Z.
  Variable fs : list bytes.
  Hypothesis Hk : 0 <= k.
  Let keyf := grouping_key fs.

  Lemma sample_run_keys l : forall m nr ds, (List.length l <= List.length ds)%nat ->
    akeys (sample_run k fs m nr ds l) = akeys m ++ filter (fun g => negb (mem g (akeys m))) (dkeys keyf l).
  Proof.
    induction l as [|r t IH]; intros m nr ds Hd; cbn [sample_run dkeys]; [cbn; now rewrite app_nil_r|].
    fold keyf. destruct (keyf r) as [g0|] eqn:E; [|apply IH; cbn in Hd; lia].
    assert (Step : forall w1 ds', (List.length t <= List.length ds')%nat ->
      akeys (sample_run k fs (aput g0 w1 m) (nr + 1) ds' t)
      = akeys m ++ filter (fun g => negb (mem g (akeys m))) (g0 :: filter (fun x => negb (beqb x g0)) (dkeys keyf t))).
    { intros w1 ds' Hd'. rewrite IH by assumption. rewrite akeys_aput. cbn [filter].
      destruct (mem g0 (akeys m)) eqn:Em; cbn [negb].
      - f_equal. symmetry. apply filter_filter_imp. intros x Hx. rewrite negb_true_iff in *.
        destruct (beqb_spec x g0); [subst; congruence|reflexivity].
      - rewrite <- app_assoc. cbn [app]. f_equal. f_equal.
        rewrite filter_filter_and. apply filter_ext. intros x.
        rewrite mem_app. cbn. rewrite orb_false_r, negb_orb. apply andb_comm. }
    cbn zeta. cbn in Hd. destruct (Z.of_nat (List.length (bucket g0 m)) <? k); [apply Step; lia|].
    destruct ds as [|d ds']; [cbn in Hd; lia|]. cbn in Hd.
    destruct (d mod nr <? k); apply Step; lia.
  Qed.

  Definition keyed_bucket (m : list (bytes * list record)) (g : bytes) : Prop := forall r, In r (bucket g m) -> keyf r = Some g.

  Lemma sample_run_bucket g l : forall m nr ds, (List.length l <= List.length ds)%nat ->
    let m' := sample_run k fs m nr ds l in
    (exists rest, Permutation (bucket g m ++ group_of keyf g l) (bucket g m' ++ rest))
    /\ (keyed_bucket m g -> keyed_bucket m' g)
    /\ (Z.of_nat (List.length (bucket g m)) <= k ->
        Z.of_nat (List.length (bucket g m')) = Z.min k (Z.of_nat (List.length (bucket g m) + List.length (group_of keyf g l)))).
  Proof.
    induction l as [|r t IH]; intros m nr ds Hd; cbn [sample_run].
    - cbn zeta. cbn [group_of filter]. rewrite app_nil_r, Nat.add_0_r. split; [exists []; now rewrite app_nil_r|]. split; [auto|lia].
    - fold keyf. destruct (keyf r) as [g0|] eqn:E.
      2:{ rewrite (group_of_cons_none _ _ _ _ E). apply IH. cbn in Hd. lia. }
      assert (Step : forall w1 ds' x, (List.length t <= List.length ds')%nat ->
                Permutation (bucket g0 m ++ [r]) (w1 ++ x) ->
                (forall y, In y w1 -> y = r \/ In y (bucket g0 m)) ->
                (Z.of_nat (List.length (bucket g0 m)) <= k ->
                   Z.of_nat (List.length w1) = Z.min k (Z.of_nat (List.length (bucket g0 m)) + 1)) ->
                let m' := sample_run k fs (aput g0 w1 m) (nr + 1) ds' t in
                (exists rest, Permutation (bucket g m ++ group_of keyf g (r :: t)) (bucket g m' ++ rest))
                /\ (keyed_bucket m g -> keyed_bucket m' g)
                /\ (Z.of_nat (List.length (bucket g m)) <= k ->
                    Z.of_nat (List.length (bucket g m')) = Z.min k (Z.of_nat (List.length (bucket g m) + List.length (group_of keyf g (r :: t)))))).
      { intros w1 ds' x Hd' Hp Hin Hlen. cbn zeta.
        destruct (IH (aput g0 w1 m) (nr + 1) ds' Hd') as ((rest' & P') & K' & L'). cbn zeta in *.
        destruct (beqb_spec g0 g) as [->|Hne].
        - rewrite (group_of_cons_same _ _ _ _ E).
          pose proof (bucket_aput_same g w1 m) as Hb1. rewrite Hb1 in P', L'. split; [|split].
          + exists (rest' ++ x).
            replace (bucket g m ++ r :: group_of keyf g t) with ((bucket g m ++ [r]) ++ group_of keyf g t) by (now rewrite <- app_assoc).
            rewrite Hp. rewrite <- app_assoc. rewrite (Permutation_app_comm x). rewrite app_assoc. rewrite P'. now rewrite <- app_assoc.
          + intros Hkb. apply K'. intros y Hy. rewrite Hb1 in Hy.
            destruct (Hin y Hy) as [->|Hy']; [exact E|now apply Hkb].
          + intros Hle. pose proof (Hlen Hle) as Hl1. rewrite L' by lia. cbn [List.length]. lia.
        - rewrite (group_of_cons_other _ _ _ _ _ E Hne). rewrite bucket_aput_other in * by assumption.
          split; [exists rest'; exact P'|]. split; [|exact L'].
          intros Hkb. apply K'. unfold keyed_bucket. now rewrite bucket_aput_other. }
      cbn zeta. cbn in Hd.
      destruct (Z.ltb_spec (Z.of_nat (List.length (bucket g0 m))) k) as [Hlt|Hge].
      + apply (Step _ ds []); [lia|now rewrite app_nil_r| |].
        * intros y Hy. apply in_app_or in Hy. destruct Hy as [Hy|[<-|[]]]; auto.
        * intros _. rewrite app_length. cbn. lia.
      + destruct ds as [|d ds']; [cbn in Hd; lia|]. cbn in Hd.
        destruct (d mod nr <? k).
        * destruct (set_nth_sub (bucket g0 m) (Z.to_nat (d mod nr)) r) as (x & Hx).
          apply (Step _ ds' x); [lia|exact Hx|apply set_nth_in|]. intros Hle. rewrite set_nth_length. lia.
        * apply (Step _ ds' [r]); [lia|reflexivity|auto|]. intros Hle. lia.
  Qed.

  Lemma group_of_flat_family (B : bytes -> list record) g gs :
    NoDup gs -> (forall h r, In r (B h) -> keyf r = Some h) ->
    group_of keyf g (flat_map B gs) = if mem g gs then B g else [].
  Proof.
    intros Hnd HB. induction Hnd as [|h gs Hni Hnd IH]; [reflexivity|].
    cbn [flat_map]. rewrite group_of_app, IH. cbn [mem existsb]. fold (mem g gs).
    destruct (beqb_spec g h) as [->|Hne]; cbn [orb].
    - rewrite (group_of_all keyf h (B h) (HB h)). destruct (mem h gs) eqn:Em; [apply mem_In in Em; tauto|apply app_nil_r].
    - rewrite (group_of_none keyf g h (B h)); [reflexivity|congruence|apply HB].
  Qed.

  Lemma flat_map_pointwise_perm {A} (f h : A -> list record) l :
    (forall x, Permutation (f x) (h x)) -> Permutation (flat_map f l) (flat_map h l).
  Proof. intros H. induction l as [|x l IH]; cbn; [constructor|]. now apply Permutation_app. Qed.
  Lemma flat_map_app_perm {A} (f h : A -> list record) l :
    Permutation (flat_map (fun x => f x ++ h x) l) (flat_map f l ++ flat_map h l).
  Proof.
    induction l as [|x l IH]; cbn; [constructor|]. rewrite IH. rewrite <- !app_assoc. apply Permutation_app_head.
    rewrite !app_assoc. apply Permutation_app_tail. apply Permutation_app_comm.
  Qed.

  Theorem sample_passes_checker ds l : (List.length l <= List.length ds)%nat ->
    check_sample k fs l (sample k fs ds l) = true.
  Proof.
    intros Hd. unfold sample. set (m' := sample_run k fs [] 1 ds l).
    assert (Hkeys : akeys m' = dkeys keyf l).
    { unfold m'. rewrite sample_run_keys by assumption. cbn. apply filter_true. reflexivity. }
    assert (Hnd : NoDup (akeys m')) by (rewrite Hkeys; apply dkeys_NoDup).
    assert (Hb : forall g, (exists rest, Permutation (group_of keyf g l) (bucket g m' ++ rest))
                           /\ keyed_bucket m' g
                           /\ Z.of_nat (List.length (bucket g m')) = Z.min k (Z.of_nat (List.length (group_of keyf g l)))).
    { intros g. destruct (sample_run_bucket g l [] 1 ds Hd) as (P & K & L). fold m' in P, K, L. cbn in P, L.
      split; [exact P|]. split; [apply K; intros r []|apply L; lia]. }
    rewrite (emit_buckets_flat (fun w _ => w) m' Hnd), Hkeys.
    set (B := fun g => bucket g m').
    assert (HB : forall h r, In r (B h) -> keyf r = Some h) by (intros h r; apply (proj1 (proj2 (Hb h)))).
    assert (Hg : forall g, In g (dkeys keyf l) -> group_of keyf g (flat_map B (dkeys keyf l)) = B g).
    { intros g Hin. rewrite (group_of_flat_family B g _ (dkeys_NoDup keyf l) HB).
      apply mem_In in Hin. now rewrite Hin. }
    unfold check_sample. cbn zeta. fold keyf. rewrite !andb_true_iff. repeat split.
    - apply submset_b_spec.
      set (R := fun g => match msub (B g) (group_of keyf g l) with Some c => c | None => [] end).
      assert (HR : forall g, Permutation (group_of keyf g l) (B g ++ R g)).
      { intros g. destruct (proj1 (Hb g)) as (rest & P). destruct (msub_complete (B g) (group_of keyf g l) rest P) as (c' & Ec & _).
        unfold R. rewrite Ec. now apply msub_sound. }
      exists (flat_map R (dkeys keyf l) ++ filter (fun r => negb (has_key keyf r)) l).
      rewrite app_assoc. rewrite <- flat_map_app_perm.
      rewrite <- (flat_map_pointwise_perm _ _ (dkeys keyf l) HR).
      rewrite groups_permutation. symmetry.
      clear. induction l as [|x t IH]; cbn; [constructor|].
      destruct (has_key keyf x); cbn; [now constructor|]. symmetry. apply Permutation_cons_app. now symmetry.
    - apply forallb_forall. intros r Hr. apply in_flat_map in Hr. destruct Hr as (g & _ & Hr).
      unfold has_key. now rewrite (HB g r Hr).
    - apply forallb_forall. intros g Hin. apply Z.eqb_eq. rewrite (Hg g Hin). apply (proj2 (proj2 (Hb g))).
    - assert (E : flat_map (fun g => group_of keyf g (flat_map B (dkeys keyf l))) (dkeys keyf l) = flat_map B (dkeys keyf l))
        by (apply flat_map_ext_in; exact Hg).
      rewrite E. destruct (records_eqb_spec (flat_map B (dkeys keyf l)) (flat_map B (dkeys keyf l))); congruence.
  Qed.
End Sample.
