(* C11 correspondence harness: [chk] is evaluated by vm_compute on cases written by harness/py/checks/c11.py.
   A case holds the verb, its options, the input records and the records the real mlr printed.
   Deterministic verbs: model output = observed output.  Random verbs (shuffle, bootstrap, sample): the verified
   boolean checkers of Checkers.v are run on the observed output. *)
From Miller Require Import Base.Record C11.Model C11.UniqModel C11.Checkers.
Open Scope Z_scope.

Definition case := (Z * list Z * list (list bytes) * list record * list record)%type.

Definition zarg (i : nat) (zs : list Z) : Z := nth i zs 0.
Definition sarg (i : nat) (ss : list (list bytes)) : list bytes := nth i ss [].
Definition zb (z : Z) : bool := negb (z =? 0).

Definition verdict_of (z : Z) : verdict :=
  if z =? 1 then VTrue else if z =? 0 then VFalse else if z =? 2 then VAbsent else VOther.
Definition mode_of (z : Z) : hf_mode :=
  if z =? 0 then HAtLeast else if z =? 1 then HWhichAre else if z =? 2 then HAtMost
  else if z =? 3 then HAllMatching else if z =? 4 then HAnyMatching else HNoneMatching.

Definition eqo (a : list record) (b : list record) : bool := records_eqb a b.

Definition chk (c : case) : bool :=
  let '(verb, zs, ss, inp, out) := c in
  match verb with
  | 1 => eqo (head (zarg 0 zs) (if zb (zarg 1 zs) then Some (sarg 0 ss) else None) inp) out
  | 2 => eqo (tail (zarg 0 zs) (zb (zarg 1 zs)) (sarg 0 ss) inp) out
  | 3 => eqo (decimate (zarg 0 zs) (zb (zarg 1 zs)) (zb (zarg 2 zs)) (sarg 0 ss) inp) out
  | 4 => match filter_run (zb (zarg 0 zs)) (zb (zarg 1 zs)) (map verdict_of (skipn 2 zs)) inp with
         | Some o => eqo o out
         | None => false
         end
  | 40 => match filter_run (zb (zarg 0 zs)) (zb (zarg 1 zs)) (map verdict_of (skipn 2 zs)) inp with
          | Some _ => false
          | None => true
          end
  | 5 => eqo (grep (substr_match (zb (zarg 2 zs)) (hd [] (sarg 0 ss))) (zb (zarg 0 zs)) (zb (zarg 1 zs)) inp) out
  | 6 => eqo (having_fields (mode_of (zarg 0 zs)) (sarg 0 ss) (substr_match false (hd [] (sarg 0 ss))) inp) out
  | 7 => eqo (tac inp) out
  | 8 => eqo (group_by (sarg 0 ss) inp) out
  | 9 => eqo (group_like inp) out
  | 10 => eqo (nothing inp) out
  | 11 => eqo (skip_trivial inp) out
  | 12 => eqo (uniq_a inp) out
  | 13 => eqo (cat (if zb (zarg 0 zs) then Some (hd [] (sarg 0 ss)) else None)
                   (if zb (zarg 1 zs) then Some (sarg 1 ss) else None) inp) out
  | 14 => check_shuffle inp out
  | 15 => check_bootstrap (zarg 0 zs) inp out
  | 16 => check_sample (zarg 0 zs) (sarg 0 ss) inp out
  (* uniq.go beyond -a: zs = [invert], ss = [field names; [output field name]] *)
  | 17 => eqo (uniq_g (zb (zarg 0 zs)) (sarg 0 ss) inp) out
  | 18 => eqo (uniq_c (zb (zarg 0 zs)) (sarg 0 ss) (hd [] (sarg 1 ss)) inp) out
  | 19 => eqo (uniq_n (zb (zarg 0 zs)) (sarg 0 ss) inp) out
  | 20 => eqo (uniq_a_c (hd [] (sarg 1 ss)) inp) out
  | 21 => eqo (uniq_a_n (hd [] (sarg 1 ss)) inp) out
  | 22 => eqo (count_distinct_u (zb (zarg 0 zs)) (sarg 0 ss) inp) out
  | _ => false
  end.
