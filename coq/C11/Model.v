(* C11 -- executable Gallina models of the record-selecting verbs, one definition per Go function named in the
   comment above it.  Definitions only.  Records are insertion-ordered (key, value-text) lists (Base/Record.v);
   a stream is a list of records; the end-of-stream marker is the end of the list.

   Conventions mirrored from the code:
   * grouping key = values of the group-by fields joined with "," (mlrmap_accessors.go:GetSelectedValuesJoined);
     a record lacking one of the fields has no key and is skipped by the grouped verbs;
   * Go maps keyed by the grouping key are association lists ([alookup]/[aput]); lib.OrderedMap.Put overwrites in
     place or appends, which is [aput], so iteration order = first-insertion order. *)
From Miller Require Export Base.Record.
From Coq Require Import DecimalString.
Open Scope Z_scope.

(* ------------------------------------------------------------------ association lists *)
Section Assoc.
  Context {A : Type}.
  Fixpoint alookup (k : bytes) (m : list (bytes * A)) : option A :=
    match m with
    | [] => None
    | (k', v) :: t => if beqb k k' then Some v else alookup k t
    end.
  Fixpoint aput (k : bytes) (v : A) (m : list (bytes * A)) : list (bytes * A) :=
    match m with
    | [] => [(k, v)]
    | (k', v') :: t => if beqb k k' then (k', v) :: t else (k', v') :: aput k v t
    end.
End Assoc.

Definition cnt (g : bytes) (m : list (bytes * Z)) : Z := match alookup g m with Some c => c | None => 0 end.
Definition bucket (g : bytes) (m : list (bytes * list record)) : list record :=
  match alookup g m with Some w => w | None => [] end.

(* ------------------------------------------------------------------ grouping keys *)
Fixpoint join_comma (l : list bytes) : bytes :=
  match l with
  | [] => []
  | [x] => x
  | x :: t => x ++ ","%char :: join_comma t
  end.

Fixpoint selected_values (fs : list bytes) (r : record) : option (list bytes) :=
  match fs with
  | [] => Some []
  | f :: t => match get f r with
              | None => None
              | Some v => match selected_values t r with Some vs => Some (v :: vs) | None => None end
              end
  end.

(* GetSelectedValuesJoined *)
Definition grouping_key (fs : list bytes) (r : record) : option bytes :=
  match selected_values fs r with Some vs => Some (join_comma vs) | None => None end.

(* GetKeysJoined (group-like) *)
Definition keys_key (r : record) : option bytes := Some (join_comma (keys r)).

Definition okey_eqb (a : option bytes) (g : bytes) : bool := match a with Some x => beqb x g | None => false end.
Definition has_key (keyf : record -> option bytes) (r : record) : bool := match keyf r with Some _ => true | None => false end.
(* the records of group g, in input order *)
Definition group_of (keyf : record -> option bytes) (g : bytes) (l : list record) : list record :=
  filter (fun r => okey_eqb (keyf r) g) l.
(* distinct keys in first-appearance order *)
Fixpoint dkeys (keyf : record -> option bytes) (l : list record) : list bytes :=
  match l with
  | [] => []
  | r :: t => match keyf r with
              | None => dkeys keyf t
              | Some g => g :: filter (fun x => negb (beqb x g)) (dkeys keyf t)
              end
  end.

(* ------------------------------------------------------------------ head.go *)
(* transformUnkeyed: count is incremented first, record passes while count <= headCount *)
Fixpoint head_unkeyed (k c : Z) (l : list record) : list record :=
  match l with
  | [] => []
  | r :: t => let c' := c + 1 in
              if c' <=? k then r :: head_unkeyed k c' t else head_unkeyed k c' t
  end.

(* transformKeyed *)
Fixpoint head_keyed (k : Z) (fs : list bytes) (m : list (bytes * Z)) (l : list record) : list record :=
  match l with
  | [] => []
  | r :: t =>
    match grouping_key fs r with
    | None => head_keyed k fs m t
    | Some g => let c := match alookup g m with Some c => c + 1 | None => 1 end in
                let m' := aput g c m in
                if c <=? k then r :: head_keyed k fs m' t else head_keyed k fs m' t
    end
  end.

(* the window loop shared by head -n -k and tail -n k:
     for len(list) > count { emit/drop list[0]; list = list[1:] }   -- returns (emitted, remaining window) *)
Fixpoint drain (fuel : nat) (k : Z) (w : list record) : list record * list record :=
  match fuel with
  | O => ([], w)
  | S f => if Z.of_nat (List.length w) >? k
           then match w with
                | [] => ([], [])
                | x :: w' => let '(e, w'') := drain f k w' in (x :: e, w'')
                end
           else ([], w)
  end.
Definition push_drain (k : Z) (w : list record) (r : record) : list record * list record :=
  let w1 := w ++ [r] in drain (List.length w1) k w1.

(* transformAllButLast *)
Fixpoint head_abl (k : Z) (fs : list bytes) (m : list (bytes * list record)) (l : list record) : list record :=
  match l with
  | [] => []
  | r :: t =>
    match grouping_key fs r with
    | None => head_abl k fs m t
    | Some g => let '(e, w) := push_drain k (bucket g m) r in
                e ++ head_abl k fs (aput g w m) t
    end
  end.

(* NewTransformerHead: negative count selects all-but-last; no -g is the nil field list there (key "") *)
Definition head (n : Z) (g : option (list bytes)) (l : list record) : list record :=
  if n <? 0 then head_abl (- n) (match g with Some fs => fs | None => [] end) [] l
  else match g with
       | None => head_unkeyed n 0 l
       | Some fs => head_keyed n fs [] l
       end.

(* ------------------------------------------------------------------ ordered-map bucketing (tail, group-by, group-like) *)
Fixpoint bucketize (upd : list record -> record -> list record) (keyf : record -> option bytes)
         (m : list (bytes * list record)) (l : list record) : list (bytes * list record) :=
  match l with
  | [] => m
  | r :: t => match keyf r with
              | None => bucketize upd keyf m t
              | Some g => bucketize upd keyf (aput g (upd (bucket g m) r) m) t
              end
  end.
(* end of stream: the buckets are emitted in the ordered map's iteration order *)
Definition emit_buckets (m : list (bytes * list record)) : list record := List.concat (map snd m).

(* ------------------------------------------------------------------ tail.go *)
(* transformLastN *)
Definition tail_lastn (k : Z) (fs : list bytes) (l : list record) : list record :=
  emit_buckets (bucketize (fun w r => snd (push_drain k w r)) (grouping_key fs) [] l).

(* transformFromStart: countsByGroup[g]++ ; pass when > count *)
Fixpoint tail_from (s : Z) (fs : list bytes) (m : list (bytes * Z)) (l : list record) : list record :=
  match l with
  | [] => []
  | r :: t =>
    match grouping_key fs r with
    | None => tail_from s fs m t
    | Some g => let c := cnt g m + 1 in
                let m' := aput g c m in
                if c >? s then r :: tail_from s fs m' t else tail_from s fs m' t
    end
  end.

(* NewTransformerTail; [plus] = the count was written with a leading '+' *)
Definition tail (n : Z) (plus : bool) (fs : list bytes) (l : list record) : list record :=
  if plus then tail_from (Z.max (n - 1) 0) fs [] l
  else tail_lastn (Z.abs n) fs l.

(* ------------------------------------------------------------------ decimate.go *)
Fixpoint decimate_run (n rem : Z) (fs : list bytes) (m : list (bytes * Z)) (l : list record) : list record :=
  match l with
  | [] => []
  | r :: t =>
    match grouping_key fs r with
    | None => decimate_run n rem fs m t
    | Some g => let c := cnt g m in
                let m' := aput g (c + 1) m in
                if (c mod n) =? rem then r :: decimate_run n rem fs m' t else decimate_run n rem fs m' t
    end
  end.
(* NewTransformerDecimate: remainderToKeep = n-1, or 0 when -b without -e *)
Definition decimate (n : Z) (b e : bool) (fs : list bytes) (l : list record) : list record :=
  decimate_run n (if b && negb e then 0 else n - 1) fs [] l.

(* ------------------------------------------------------------------ put_or_filter.go: Transform, the emit decision.
   The DSL evaluation is abstracted to the value left in runtimeState.FilterExpression after the main block ran on
   each record (one verdict per record, so expressions depending on NR, oosvars ... are covered). *)
Inductive verdict := VTrue | VFalse | VAbsent | VOther.

(* None = "filter expression did not evaluate to boolean" (mlr exits non-zero) *)
Fixpoint filter_run (is_filter invert : bool) (vs : list verdict) (l : list record) : option (list record) :=
  match l, vs with
  | [], _ => Some []
  | _ :: _, [] => None
  | r :: t, v :: vt =>
    let ob := match v with
              | VTrue => Some true
              | VFalse => Some false
              | VAbsent => if is_filter then Some false else Some true
              | VOther => if is_filter then None else Some true
              end in
    match ob with
    | None => None
    | Some b => match filter_run is_filter invert vt t with
                | None => None
                | Some rest => if xorb b invert then Some (r :: rest) else Some rest
                end
    end
  end.

(* ------------------------------------------------------------------ grep.go *)
Fixpoint dkvp_string (r : record) : bytes :=
  match r with
  | [] => []
  | [(k, v)] => k ++ "="%char :: v
  | (k, v) :: t => k ++ "="%char :: v ++ ","%char :: dkvp_string t
  end.
Definition nidx_string (r : record) : bytes := join_comma (values r).

(* the regex library is a parameter: [mt] decides whether the text matches *)
Definition grep (mt : bytes -> bool) (invert values_only : bool) (l : list record) : list record :=
  filter (fun r => let s := if values_only then nidx_string r else dkvp_string r in
                   if invert then negb (mt s) else mt s) l.

(* literal (metacharacter-free) patterns, used by the correspondence check: substring search, ASCII case folding for -i *)
Definition lower (c : ascii) : ascii :=
  if in_range "A" "Z" c then ascii_of_N (code c + 32) else c.
Fixpoint has_prefix_ci (ci : bool) (p s : bytes) : bool :=
  match p, s with
  | [], _ => true
  | x :: p', y :: s' => (if ci then Ascii.eqb (lower x) (lower y) else Ascii.eqb x y) && has_prefix_ci ci p' s'
  | _ :: _, [] => false
  end.
Fixpoint substr_match (ci : bool) (p s : bytes) : bool :=
  has_prefix_ci ci p s || match s with [] => false | _ :: s' => substr_match ci p s' end.

(* ------------------------------------------------------------------ having_fields.go *)
Fixpoint at_least_walk (names : list bytes) (num found : Z) (ks : list bytes) : bool :=
  match ks with
  | [] => false
  | k :: t => if mem k names
              then (if found + 1 =? num then true else at_least_walk names num (found + 1) t)
              else at_least_walk names num found t
  end.
Inductive hf_mode := HAtLeast | HWhichAre | HAtMost | HAllMatching | HAnyMatching | HNoneMatching.
Definition having_pred (mode : hf_mode) (names : list bytes) (mt : bytes -> bool) (r : record) : bool :=
  match mode with
  | HAtLeast => at_least_walk names (Z.of_nat (List.length names)) 0 (keys r)
  | HWhichAre => (Z.of_nat (List.length r) =? Z.of_nat (List.length names)) && forallb (fun k => mem k names) (keys r)
  | HAtMost => forallb (fun k => mem k names) (keys r)
  | HAllMatching => forallb mt (keys r)
  | HAnyMatching => existsb mt (keys r)
  | HNoneMatching => negb (existsb mt (keys r))
  end.
Definition having_fields mode names mt (l : list record) : list record := filter (having_pred mode names mt) l.

(* ------------------------------------------------------------------ tac.go, group_by.go, group_like.go, nothing.go *)
Definition tac (l : list record) : list record := rev l.
Definition group_by (fs : list bytes) (l : list record) : list record :=
  emit_buckets (bucketize (fun w r => w ++ [r]) (grouping_key fs) [] l).
Definition group_like (l : list record) : list record :=
  emit_buckets (bucketize (fun w r => w ++ [r]) keys_key [] l).
Definition nothing (l : list record) : list record := [].

(* skip_trivial_records.go: a record passes when some value is non-empty *)
Definition nonempty_b (b : bytes) : bool := match b with [] => false | _ => true end.
Definition skip_trivial (l : list record) : list record :=
  filter (fun r => existsb (fun kv => nonempty_b (snd kv)) r) l.

(* uniq.go transformUniqifyEntireRecords: first occurrences.  The code keys its map by recordKey (/repo 853ce11e9): the
   length-prefixed field names and value texts as read (plus type names), an injective rendering: same key = same record. *)
Fixpoint uniq_a_run (seen : list record) (l : list record) : list record :=
  match l with
  | [] => []
  | r :: t => if existsb (record_eqb r) seen then uniq_a_run seen t else r :: uniq_a_run (r :: seen) t
  end.
Definition uniq_a := uniq_a_run [].

(* ------------------------------------------------------------------ cat.go *)
Definition dec_of_Z (z : Z) : bytes :=
  match z with
  | Z0 => B "0"
  | Zpos p => list_ascii_of_string (NilEmpty.string_of_uint (Pos.to_uint p))
  | Zneg p => "-"%char :: list_ascii_of_string (NilEmpty.string_of_uint (Pos.to_uint p))
  end.
(* Mlrmap.PrependReference: overwrite in place when the key exists, else new head entry *)
Definition prepend (k v : bytes) (r : record) : record := if has k r then put k v r else (k, v) :: r.

(* countersUngrouped *)
Fixpoint cat_n_ungrouped (name : bytes) (c : Z) (l : list record) : list record :=
  match l with
  | [] => []
  | r :: t => prepend name (dec_of_Z (c + 1)) r :: cat_n_ungrouped name (c + 1) t
  end.
(* countersGrouped: a record lacking a group-by field is numbered by the separate unkeyed counter *)
Fixpoint cat_n_grouped (name : bytes) (fs : list bytes) (c : Z) (m : list (bytes * Z)) (l : list record) : list record :=
  match l with
  | [] => []
  | r :: t =>
    match grouping_key fs r with
    | None => prepend name (dec_of_Z (c + 1)) r :: cat_n_grouped name fs (c + 1) m t
    | Some g => let k := match alookup g m with Some k => k + 1 | None => 1 end in
                prepend name (dec_of_Z k) r :: cat_n_grouped name fs c (aput g k m) t
    end
  end.
(* NewTransformerCat: [name] = Some counter field name when -n / -N was given *)
Definition cat (name : option bytes) (g : option (list bytes)) (l : list record) : list record :=
  match name with
  | None => l
  | Some nm => match g with
               | None => cat_n_ungrouped nm 0 l
               | Some fs => cat_n_grouped nm fs 0 [] l
               end
  end.

(* ------------------------------------------------------------------ shuffle.go / bootstrap.go / sample.go
   The pseudo-random draws are an explicit list (an arbitrary oracle); out-of-range draws leave the state unchanged,
   an exhausted oracle stops the loop. *)
Fixpoint set_nth {A} (i : nat) (x : A) (l : list A) : list A :=
  match l, i with
  | [], _ => []
  | _ :: t, O => x :: t
  | y :: t, S i' => y :: set_nth i' x t
  end.
Definition swap_nth {A} (i j : nat) (l : list A) : list A :=
  match nth_error l i, nth_error l j with
  | Some a, Some b => set_nth i b (set_nth j a l)
  | _, _ => l
  end.
(* the Knuth-shuffle loop over the image map: for i := range n { u := draw; swap images[u], images[i] } *)
Fixpoint shuffle_loop (i : nat) (steps : nat) (us : list nat) (images : list nat) : list nat :=
  match steps, us with
  | S s, u :: us' => shuffle_loop (S i) s us' (swap_nth u i images)
  | _, _ => images
  end.
Fixpoint pick_all {A} (idx : list nat) (arr : list A) : list A :=
  match idx with
  | [] => []
  | i :: t => match nth_error arr i with Some x => x :: pick_all t arr | None => pick_all t arr end
  end.
Definition shuffle (us : list nat) (l : list record) : list record :=
  pick_all (shuffle_loop 0 (List.length l) us (seq 0 (List.length l))) l.

(* bootstrap: nout draws with replacement (nout = -1 means as many as the input) *)
Definition bootstrap (nout : Z) (us : list nat) (l : list record) : list record :=
  let n := if nout =? -1 then List.length l else Z.to_nat nout in
  pick_all (firstn n us) l.

(* sample: reservoir per group.  handleRecord: fill the bucket up to k, then r := draw % NR and replace slot r when r < k *)
Fixpoint sample_run (k : Z) (fs : list bytes) (m : list (bytes * list record)) (nr : Z) (ds : list Z) (l : list record)
  : list (bytes * list record) :=
  match l with
  | [] => m
  | r :: t =>
    match grouping_key fs r with
    | None => sample_run k fs m (nr + 1) ds t
    | Some g =>
      let w := bucket g m in
      if Z.of_nat (List.length w) <? k then sample_run k fs (aput g (w ++ [r]) m) (nr + 1) ds t
      else match ds with
           | [] => m
           | d :: ds' => let i := d mod nr in
                         if i <? k then sample_run k fs (aput g (set_nth (Z.to_nat i) r w) m) (nr + 1) ds' t
                         else sample_run k fs (aput g w m) (nr + 1) ds' t
           end
    end
  end.
Definition sample (k : Z) (fs : list bytes) (ds : list Z) (l : list record) : list record :=
  emit_buckets (sample_run k fs [] 1 ds l).

(* ------------------------------------------------------------------ contexts
   In the implementation every record travels with the context (NR, FNR, FILENAME) its record-reader gave it; downstream
   of filter / tac / sort / head -g ... those NR values are no longer the arrival index (gaps, disorder, repeats).
   The verb models above take the bare record stream: whatever they count (head, tail, decimate, cat -n), they count
   ARRIVALS.  [on_records] runs a model on a stream of (record, context) pairs; the correspondence check feeds the real
   verbs such pairs with arbitrary contexts and expects the model's answer. *)
Definition context := (Z * Z * bytes)%type.                  (* NR, FNR, FILENAME *)
Definition ctx_nr (c : context) : Z := fst (fst c).
Definition cstream := list (record * context).
Definition on_records {A} (v : list record -> A) (s : cstream) : A := v (map fst s).
(* the reading a verb must NOT have: `tail -n +N` as "records whose NR is at least N" *)
Definition tail_plus_by_nr (n : Z) (s : cstream) : list record :=
  map fst (filter (fun p => ctx_nr (snd p) >? Z.max (n - 1) 0) s).
