(* Meaning of the boolean checkers of Checkers.v. *)
From Miller Require Import Base.Record C11.Model C11.Checkers C11.Proofs.
From Coq Require Import Permutation.
Open Scope Z_scope.

Lemma record_eqb_refl r : record_eqb r r = true.
Proof. destruct (record_eqb_spec r r); congruence. Qed.

Lemma remove1_perm r l : forall l', remove1 r l = Some l' -> Permutation l (r :: l').
Proof.
  induction l as [|x t IH]; intros l'; cbn [remove1]; [discriminate|].
  destruct (record_eqb_spec r x) as [->|Hne].
  - intros H; injection H as <-. reflexivity.
  - destruct (remove1 r t) as [t'|]; [|discriminate]. intros H; injection H as <-.
    etransitivity; [apply perm_skip, (IH t' eq_refl)|apply perm_swap].
Qed.
Lemma remove1_in r l : In r l -> exists l', remove1 r l = Some l'.
Proof.
  induction l as [|x t IH]; cbn [remove1 In]; [tauto|].
  destruct (record_eqb_spec r x) as [->|Hne]; [eauto|].
  intros [->|H]; [congruence|]. destruct (IH H) as (t' & ->). eauto.
Qed.

Lemma msub_sound a : forall b c, msub a b = Some c -> Permutation b (a ++ c).
Proof.
  induction a as [|x a IH]; intros b c; cbn [msub].
  - intros H; injection H as <-. reflexivity.
  - destruct (remove1 x b) as [b'|] eqn:E; [|discriminate]. intros H.
    rewrite (remove1_perm _ _ _ E). cbn. apply perm_skip. now apply IH.
Qed.
Lemma msub_complete a : forall b c, Permutation b (a ++ c) -> exists c', msub a b = Some c' /\ Permutation c c'.
Proof.
  induction a as [|x a IH]; intros b c H; cbn [msub].
  - exists b. split; [reflexivity|now symmetry].
  - assert (Hin : In x b) by (eapply Permutation_in; [symmetry; exact H|cbn; auto]).
    destruct (remove1_in _ _ Hin) as (b' & E). rewrite E.
    apply IH. apply (Permutation_cons_inv (a := x)). rewrite <- (remove1_perm _ _ _ E). exact H.
Qed.

Lemma perm_b_spec a b : perm_b a b = true <-> Permutation a b.
Proof.
  unfold perm_b. split.
  - destruct (msub a b) as [[|? ?]|] eqn:E; try discriminate. intros _.
    apply msub_sound in E. rewrite app_nil_r in E. now symmetry.
  - intros H. destruct (msub_complete a b []) as (c' & -> & Hc); [rewrite app_nil_r; now symmetry|].
    apply Permutation_nil in Hc. now subst.
Qed.

(* a is a sub-multiset of b: some rest completes it to a rearrangement of b *)
Lemma submset_b_spec a b : submset_b a b = true <-> exists rest, Permutation b (a ++ rest).
Proof.
  unfold submset_b. split.
  - destruct (msub a b) as [c|] eqn:E; [|discriminate]. intros _. exists c. now apply msub_sound.
  - intros (rest & H). destruct (msub_complete a b rest H) as (c' & -> & _). reflexivity.
Qed.

Lemma memr_spec r l : memr r l = true <-> In r l.
Proof. apply existsb_record_In. Qed.

Lemma check_shuffle_spec inp out : check_shuffle inp out = true <-> Permutation inp out.
Proof. apply perm_b_spec. Qed.

Lemma check_bootstrap_spec nout inp out :
  check_bootstrap nout inp out = true
  <-> Z.of_nat (List.length out) = (if nout =? -1 then Z.of_nat (List.length inp) else nout) /\ incl out inp.
Proof.
  unfold check_bootstrap. rewrite andb_true_iff, Z.eqb_eq, forallb_forall. split; intros [H1 H2]; split; auto.
  - intros r Hr. apply memr_spec. auto.
  - intros r Hr. apply memr_spec. auto.
Qed.

Lemma check_sample_sound k fs inp out : check_sample k fs inp out = true ->
  let keyf := grouping_key fs in
  (exists rest, Permutation inp (out ++ rest))
  /\ (forall r, In r out -> has_key keyf r = true)
  /\ (forall g, In g (dkeys keyf inp) ->
        Z.of_nat (List.length (group_of keyf g out)) = Z.min k (Z.of_nat (List.length (group_of keyf g inp))))
  /\ out = flat_map (fun g => group_of keyf g out) (dkeys keyf inp).
Proof.
  unfold check_sample. cbn zeta. rewrite !andb_true_iff. intros [[[H1 H2] H3] H4].
  split; [now apply submset_b_spec|]. split; [now apply forallb_forall|]. split.
  - intros g Hg. rewrite forallb_forall in H3. apply Z.eqb_eq. auto.
  - destruct (records_eqb_spec (flat_map (fun g => group_of (grouping_key fs) g out) (dkeys (grouping_key fs) inp)) out); congruence.
Qed.

(* the models satisfy their checkers for every oracle *)
Lemma shuffle_passes_checker us l : check_shuffle l (shuffle us l) = true.
Proof. apply check_shuffle_spec. symmetry. apply shuffle_permutation. Qed.
