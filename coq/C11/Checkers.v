(* Boolean checkers run on the implementation's observed output for the verbs whose output depends on pseudo-random
   draws (shuffle, bootstrap, sample).  Their meaning is proved in CheckerProofs.v. *)
From Miller Require Import Base.Record C11.Model.
Open Scope Z_scope.

(* remove the first occurrence of r *)
Fixpoint remove1 (r : record) (l : list record) : option (list record) :=
  match l with
  | [] => None
  | x :: t => if record_eqb r x then Some t
              else match remove1 r t with Some t' => Some (x :: t') | None => None end
  end.

(* a is a sub-multiset of b; returns what is left of b *)
Fixpoint msub (a b : list record) : option (list record) :=
  match a with
  | [] => Some b
  | x :: a' => match remove1 x b with Some b' => msub a' b' | None => None end
  end.

Definition perm_b (a b : list record) : bool := match msub a b with Some [] => true | _ => false end.
Definition submset_b (a b : list record) : bool := match msub a b with Some _ => true | None => false end.
Definition memr (r : record) (l : list record) : bool := existsb (record_eqb r) l.

Definition check_shuffle (inp out : list record) : bool := perm_b inp out.

Definition check_bootstrap (nout : Z) (inp out : list record) : bool :=
  (Z.of_nat (List.length out) =? (if nout =? -1 then Z.of_nat (List.length inp) else nout))
  && forallb (fun r => memr r inp) out.

Definition check_sample (k : Z) (fs : list bytes) (inp out : list record) : bool :=
  let keyf := grouping_key fs in
  submset_b out inp
  && forallb (has_key keyf) out
  && forallb (fun g => Z.of_nat (List.length (group_of keyf g out)) =? Z.min k (Z.of_nat (List.length (group_of keyf g inp))))
             (dkeys keyf inp)
  && records_eqb (flat_map (fun g => group_of keyf g out) (dkeys keyf inp)) out.
