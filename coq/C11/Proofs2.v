(* C11 -- head -n -k (all but the last k of each group), and the one-statement "selects only" summary. *)
From Miller Require Import Base.Record C11.Model C11.Proofs.
From Coq Require Import Permutation.
Open Scope Z_scope.

Section HeadAbl.
  Variable k : Z.
  Variable fs : list bytes.
  Hypothesis Hk : 0 <= k.
  Let keyf := grouping_key fs.

  (* window invariant: every bucket holds records of its own group, at most k of them *)
  Definition wb (m : list (bytes * list record)) : Prop :=
    forall g, (forall r, In r (bucket g m) -> keyf r = Some g) /\ (List.length (bucket g m) <= Z.to_nat k)%nat.

  Lemma firstn_split_app (d n : nat) (a b : list record) : (d <= n)%nat -> (d <= List.length a)%nat ->
    firstn n (a ++ b) = firstn d a ++ firstn (n - d) (skipn d a ++ b).
  Proof.
    intros H1 H2. rewrite <- (firstn_skipn d a) at 1. rewrite <- app_assoc.
    replace n with (List.length (firstn d a) + (n - d))%nat at 1 by (rewrite firstn_length; lia).
    apply firstn_app_2.
  Qed.

  Lemma wb_step m g0 r : wb m -> keyf r = Some g0 ->
    let w1 := bucket g0 m ++ [r] in
    let d := (List.length w1 - Z.to_nat k)%nat in
    wb (aput g0 (skipn d w1) m) /\ (forall x, In x (firstn d w1) -> keyf x = Some g0).
  Proof.
    intros Hw E. cbn zeta. set (w1 := bucket g0 m ++ [r]). set (d := (List.length w1 - Z.to_nat k)%nat).
    assert (Hall : forall x, In x w1 -> keyf x = Some g0).
    { intros x Hx. apply in_app_or in Hx. destruct Hx as [Hx|[<-|[]]]; [now apply (proj1 (Hw g0))|exact E]. }
    split.
    - intros g. destruct (beqb_spec g0 g) as [->|Hne].
      + rewrite bucket_aput_same. split.
        * intros x Hx. apply Hall. eapply sublist_incl; [apply sublist_skipn|exact Hx].
        * rewrite skipn_length. lia.
      + rewrite bucket_aput_other by assumption. apply Hw.
    - intros x Hx. apply Hall. eapply sublist_incl; [apply sublist_firstn|exact Hx].
  Qed.

  Lemma head_abl_group g l : forall m, wb m ->
    group_of keyf g (head_abl k fs m l)
    = firstn (List.length (bucket g m ++ group_of keyf g l) - Z.to_nat k) (bucket g m ++ group_of keyf g l).
  Proof.
    induction l as [|r t IH]; intros m Hw; cbn [head_abl].
    - cbn [group_of filter]. rewrite app_nil_r. replace (_ - _)%nat with O by (pose proof (proj2 (Hw g)); lia). reflexivity.
    - fold keyf. destruct (keyf r) as [g0|] eqn:E.
      + rewrite push_drain_spec by assumption.
        destruct (wb_step m g0 r Hw E) as [Hw' He]. cbn zeta in Hw', He.
        set (w1 := bucket g0 m ++ [r]) in *. set (d := (List.length w1 - Z.to_nat k)%nat) in *.
        unfold lastn. fold d. rewrite group_of_app, (IH _ Hw').
        destruct (beqb_spec g0 g) as [->|Hne].
        * rewrite (group_of_all keyf g _ He). rewrite bucket_aput_same.
          rewrite (group_of_cons_same _ _ _ _ E).
          replace (bucket g m ++ r :: group_of keyf g t) with (w1 ++ group_of keyf g t)
            by (unfold w1; now rewrite <- app_assoc).
          rewrite (firstn_split_app d (List.length (w1 ++ group_of keyf g t) - Z.to_nat k)); [|rewrite app_length; lia|lia].
          f_equal. f_equal. rewrite !app_length, skipn_length. lia.
        * rewrite (group_of_none keyf g g0 _ Hne He). rewrite bucket_aput_other by assumption.
          rewrite (group_of_cons_other _ _ _ _ _ E Hne). reflexivity.
      + rewrite (group_of_cons_none _ _ _ _ E). now apply IH.
  Qed.

  Lemma head_abl_keys l : forall m, wb m -> forall r, In r (head_abl k fs m l) -> has_key keyf r = true.
  Proof.
    induction l as [|r t IH]; intros m Hw x; cbn [head_abl]; [intros []|].
    fold keyf. destruct (keyf r) as [g0|] eqn:E; [|now apply IH].
    rewrite push_drain_spec by assumption. destruct (wb_step m g0 r Hw E) as [Hw' He]. cbn zeta in Hw', He.
    intros Hx. apply in_app_or in Hx. destruct Hx as [Hx|Hx].
    - unfold has_key. now rewrite (He x Hx).
    - eapply IH; [exact Hw'|exact Hx].
  Qed.

  (* every emitted record is an input record or was already in a window *)
  Lemma head_abl_incl l : forall m L, incl l L -> (forall g r, In r (bucket g m) -> In r L) -> incl (head_abl k fs m l) L.
  Proof.
    induction l as [|r t IH]; intros m L Hl Hm; cbn [head_abl]; [intros x []|].
    assert (Hr : In r L) by (apply Hl; cbn; auto).
    assert (Ht : incl t L) by (intros x Hx; apply Hl; cbn; auto).
    destruct (grouping_key fs r) as [g0|]; [|now apply IH].
    rewrite push_drain_spec by assumption.
    assert (Hall : forall x, In x (bucket g0 m ++ [r]) -> In x L).
    { intros x Hx. apply in_app_or in Hx. destruct Hx as [Hx|[<-|[]]]; eauto. }
    apply incl_app.
    - intros x Hx. apply Hall. eapply sublist_incl; [apply sublist_firstn|exact Hx].
    - apply IH; [exact Ht|]. intros g x. destruct (beqb_spec g0 g) as [->|Hne].
      + rewrite bucket_aput_same. intros Hx. apply Hall. unfold lastn in Hx. eapply sublist_incl; [apply sublist_skipn|exact Hx].
      + rewrite bucket_aput_other by assumption. apply Hm.
  Qed.
End HeadAbl.

Lemma wb_nil k fs : wb k fs [].
Proof. intros g. cbn. split; [intros r []|lia]. Qed.

(* head -n -k [-g fs]: of every group, all but the last k, in input order; nothing else *)
Lemma head_negative_spec k g l : 0 < k ->
  let fs := match g with Some fs => fs | None => [] end in
  incl (head (- k) g l) l
  /\ (forall r, In r (head (- k) g l) -> has_key (grouping_key fs) r = true)
  /\ (forall x, let xs := group_of (grouping_key fs) x l in
                group_of (grouping_key fs) x (head (- k) g l) = firstn (List.length xs - Z.to_nat k) xs).
Proof.
  intros Hk. cbn zeta. unfold head. destruct (Z.ltb_spec (- k) 0); [|lia]. rewrite Z.opp_involutive.
  split; [|split].
  - apply (head_abl_incl k _ ltac:(lia)); [apply incl_refl|intros x r []].
  - apply (head_abl_keys k _ ltac:(lia)). apply wb_nil.
  - intros x. rewrite (head_abl_group k _ ltac:(lia) x l [] (wb_nil k _)). reflexivity.
Qed.

Lemma has_key_nil r : has_key (grouping_key []) r = true.
Proof. reflexivity. Qed.

(* without -g: exactly the stream minus its last k records *)
Lemma head_negative_ungrouped k l : 0 < k -> head (- k) None l = firstn (List.length l - Z.to_nat k) l.
Proof.
  intros Hk. destruct (head_negative_spec k None l Hk) as (_ & _ & H). cbn zeta in H.
  specialize (H []). rewrite !group_of_nil_key in H. exact H.
Qed.

(* ------------------------------------------------------------------ selects only: every output record is an input record *)
Lemma selects_only l :
  (forall n g, incl (head n g l) l)
  /\ (forall n plus fs, incl (tail n plus fs l) l)
  /\ (forall n b e fs, incl (decimate n b e fs l) l)
  /\ (forall isf inv vs o, filter_run isf inv vs l = Some o -> incl o l)
  /\ (forall mt i v, incl (grep mt i v l) l)
  /\ (forall mode names mt, incl (having_fields mode names mt l) l)
  /\ incl (tac l) l
  /\ (forall fs, incl (group_by fs l) l)
  /\ incl (group_like l) l
  /\ incl (uniq_a l) l
  /\ incl (skip_trivial l) l
  /\ incl (nothing l) l
  /\ (forall us, incl (shuffle us l) l)
  /\ (forall n us, incl (bootstrap n us l) l).
Proof.
  repeat split.
  - intros n g. destruct (Z.ltb_spec n 0).
    + replace n with (- (- n)) by lia. apply head_negative_spec. lia.
    + apply sublist_incl. now apply head_nonneg_sublist.
  - intros n [|] fs; [apply sublist_incl, tail_plus_spec|apply tail_lastn_incl].
  - intros. apply sublist_incl, decimate_spec.
  - intros. eapply sublist_incl, filter_run_sublist; eauto.
  - intros. apply sublist_incl, grep_sublist.
  - intros. apply sublist_incl, having_fields_sublist.
  - apply Permutation_incl, tac_permutation.
  - intros fs r Hr. apply (Permutation_in _ (group_by_permutation fs l)) in Hr. apply filter_In in Hr. tauto.
  - apply Permutation_incl, group_like_permutation.
  - apply sublist_incl, uniq_a_sublist.
  - apply sublist_incl, skip_trivial_sublist.
  - intros x [].
  - intros. apply Permutation_incl, shuffle_permutation.
  - intros. apply bootstrap_incl.
Qed.

Lemma bootstrap_length_default nout us l :
  Forall (fun i => (i < List.length l)%nat) us -> (List.length l <= List.length us)%nat -> nout = -1 ->
  List.length (bootstrap nout us l) = List.length l.
Proof.
  intros Hf Hl ->. unfold bootstrap. cbn. rewrite pick_all_length.
  - rewrite firstn_length. lia.
  - apply Forall_forall. intros i Hi. rewrite Forall_forall in Hf. apply Hf.
    eapply sublist_incl; [apply sublist_firstn|exact Hi].
Qed.

(* ------------------------------------------------------------------ contexts are ignored *)
Definition oblivious {A} (f : cstream -> A) : Prop := forall s s', map fst s = map fst s' -> f s = f s'.
Lemma on_records_oblivious {A} (v : list record -> A) : oblivious (on_records v).
Proof. intros s s' H. unfold on_records. now rewrite H. Qed.

Lemma tail_plus_counts_arrivals n (s : cstream) :
  on_records (tail n true []) s = skipn (Z.to_nat (Z.max (n - 1) 0)) (map fst s).
Proof. apply tail_plus_ungrouped. Qed.

Lemma tail_plus_is_not_by_nr :
  let s : cstream := [([(B "i", B "1")], (1, 1, [])); ([(B "i", B "3")], (3, 3, [])); ([(B "i", B "5")], (5, 5, []))] in
  on_records (tail 3 true []) s = [[(B "i", B "5")]]
  /\ tail_plus_by_nr 3 s = [[(B "i", B "3")]; [(B "i", B "5")]].
Proof. cbn zeta. split; reflexivity. Qed.
Lemma tail_plus_differs_from_by_nr : exists s, on_records (tail 3 true []) s <> tail_plus_by_nr 3 s.
Proof.
  exists [([(B "i", B "1")], (1, 1, [])); ([(B "i", B "3")], (3, 3, [])); ([(B "i", B "5")], (5, 5, []))].
  vm_compute. discriminate.
Qed.
