(* C11 -- executable Gallina model of pkg/transformers/uniq.go beyond `uniq -a`: uniq -g/-x (streaming, without counts),
   uniq -c / count-distinct (-f/-g/-x, counts at end of stream), uniq -n / count-distinct -n, uniq -a -c, uniq -a -n and
   count-distinct -u (unlashed).  Definitions only; one definition per Go function named above it.
   The code is modelled as repaired by /repo 30bef5caa: with -x the names of the fields used for grouping are part of the
   grouping key (qualifyGroupingKey). *)
From Miller Require Export Base.Record C11.Model.
Open Scope Z_scope.

(* Mlrmap.GetKeysExcept *)
Definition keys_except (xs : list bytes) (r : record) : list bytes := filter (fun k => negb (mem k xs)) (keys r).
(* getFieldNamesForGrouping *)
Definition uniq_names (invert : bool) (fs : list bytes) (r : record) : list bytes :=
  if invert then keys_except fs r else fs.
(* GetSelectedValuesAndJoined + qualifyGroupingKey: with -x the key is <names joined by ","> ";" <values joined by ","> *)
Definition uniq_key (invert : bool) (fs : list bytes) (r : record) : option bytes :=
  let ns := uniq_names invert fs r in
  match selected_values ns r with
  | None => None
  | Some vs => Some (if invert then join_comma ns ++ ";"%char :: join_comma vs else join_comma vs)
  end.
(* the key of the code before 30bef5caa (values only): kept to state what the repair separates *)
Definition uniq_key_unqualified (invert : bool) (fs : list bytes) (r : record) : option bytes :=
  grouping_key (uniq_names invert fs r) r.

(* the output record: for i, name := range names { outrec.PutCopy(name, values[i]) } *)
Definition build (ns vs : list bytes) : record :=
  fold_left (fun r kv => put (fst kv) (snd kv) r) (combine ns vs) [].
Definition uniq_proj (invert : bool) (fs : list bytes) (r : record) : record :=
  match selected_values (uniq_names invert fs r) r with
  | Some vs => build (uniq_names invert fs r) vs
  | None => []
  end.

(* transformWithoutCounts: the projection is emitted when its key is seen for the first time *)
Fixpoint uniq_g_run (invert : bool) (fs : list bytes) (seen : list bytes) (l : list record) : list record :=
  match l with
  | [] => []
  | r :: t =>
    match uniq_key invert fs r with
    | None => uniq_g_run invert fs seen t
    | Some g => if mem g seen then uniq_g_run invert fs seen t
                else uniq_proj invert fs r :: uniq_g_run invert fs (g :: seen) t
    end
  end.
Definition uniq_g invert fs l := uniq_g_run invert fs [] l.

(* transformWithCounts: countsByGroup / valuesByGroup / keysByGroup, all keyed by the grouping key; the three ordered
   maps are one association list key -> (count, projection of the first record of the group) *)
Fixpoint uniq_c_run (invert : bool) (fs : list bytes) (m : list (bytes * (Z * record))) (l : list record)
  : list (bytes * (Z * record)) :=
  match l with
  | [] => m
  | r :: t =>
    match uniq_key invert fs r with
    | None => uniq_c_run invert fs m t
    | Some g => match alookup g m with
                | None => uniq_c_run invert fs (aput g (1, uniq_proj invert fs r) m) t
                | Some cp => uniq_c_run invert fs (aput g (fst cp + 1, snd cp) m) t
                end
    end
  end.
(* end of stream: the group's fields, then PutReference(outputFieldName, count) *)
Definition uniq_c (invert : bool) (fs : list bytes) (oname : bytes) (l : list record) : list record :=
  map (fun e => put oname (dec_of_Z (fst (snd e))) (snd (snd e))) (uniq_c_run invert fs [] l).
(* transformNumDistinctOnly: one record count=<number of groups>; the field is always called "count" *)
Definition uniq_n (invert : bool) (fs : list bytes) (l : list record) : list record :=
  [[(B "count", dec_of_Z (Z.of_nat (List.length (uniq_c_run invert fs [] l))))]].

(* transformUniqifyEntireRecordsShowCounts: map record text -> count and -> first record, in first-seen order.
   The map key is recordKey (/repo 853ce11e9): length-prefixed field names, value texts as read and type names, hence
   injective on (name, text) lists: equality of keys = equality of records (for values of one origin). *)
Fixpoint rbump (r : record) (m : list (record * Z)) : list (record * Z) :=
  match m with
  | [] => [(r, 1)]
  | (r', c) :: t => if record_eqb r r' then (r', c + 1) :: t else (r', c) :: rbump r t
  end.
Definition uniq_a_counts (l : list record) : list (record * Z) := fold_left (fun m r => rbump r m) l [].
Definition uniq_a_c (oname : bytes) (l : list record) : list record :=
  map (fun e => prepend oname (dec_of_Z (snd e)) (fst e)) (uniq_a_counts l).
(* transformUniqifyEntireRecordsShowNumDistinctOnly *)
Definition uniq_a_n (oname : bytes) (l : list record) : list record :=
  [[(oname, dec_of_Z (Z.of_nat (List.length (uniq_a_counts l))))]].

(* transformUnlashed: field name -> value text -> count, both ordered maps; a named field gets its (possibly empty)
   inner map as soon as any record arrives *)
Fixpoint unl_fields (ns : list bytes) (r : record) (m : list (bytes * list (bytes * Z))) : list (bytes * list (bytes * Z)) :=
  match ns with
  | [] => m
  | f :: t =>
    let cm := match alookup f m with Some cm => cm | None => [] end in
    let cm' := match get f r with Some v => aput v (cnt v cm + 1) cm | None => cm end in
    unl_fields t r (aput f cm' m)
  end.
Definition unl_run (invert : bool) (fs : list bytes) (l : list record) : list (bytes * list (bytes * Z)) :=
  fold_left (fun m r => unl_fields (uniq_names invert fs r) r m) l [].
Definition count_distinct_u (invert : bool) (fs : list bytes) (l : list record) : list record :=
  flat_map (fun e => map (fun vc => [(B "field", fst e); (B "value", fst vc); (B "count", dec_of_Z (snd vc))]) (snd e))
           (unl_run invert fs l).
