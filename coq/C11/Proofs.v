(* C11 -- lemmas about the verb models of Model.v.  Everything is by induction over the whole input stream: no size bound. *)
From Miller Require Import Base.Record C11.Model.
From Coq Require Import Permutation.
Open Scope Z_scope.

(* ================================================================== generic list facts *)
Inductive sublist {A} : list A -> list A -> Prop :=
| sl_nil : sublist [] []
| sl_skip x a b : sublist a b -> sublist a (x :: b)
| sl_take x a b : sublist a b -> sublist (x :: a) (x :: b).
#[export] Hint Constructors sublist : core.

Lemma sublist_refl {A} (l : list A) : sublist l l.
Proof. induction l; auto. Qed.
Lemma sublist_nil {A} (l : list A) : sublist [] l.
Proof. induction l; auto. Qed.
Lemma sublist_incl {A} (a b : list A) : sublist a b -> incl a b.
Proof.
  induction 1 as [|x a b H IH|x a b H IH]; intros y Hy; cbn in *; auto.
  destruct Hy as [->|Hy]; auto.
Qed.
Lemma sublist_length {A} (a b : list A) : sublist a b -> (List.length a <= List.length b)%nat.
Proof. induction 1; cbn; lia. Qed.
Lemma sublist_filter {A} (f : A -> bool) l : sublist (filter f l) l.
Proof. induction l as [|x l IH]; cbn; auto. destruct (f x); auto. Qed.
Lemma sublist_app {A} (a b c d : list A) : sublist a b -> sublist c d -> sublist (a ++ c) (b ++ d).
Proof. induction 1; cbn; auto. Qed.
Lemma sublist_firstn {A} n (l : list A) : sublist (firstn n l) l.
Proof. revert l; induction n; intros [|x l]; cbn; auto using sublist_nil. Qed.
Lemma sublist_skipn {A} n (l : list A) : sublist (skipn n l) l.
Proof. revert l; induction n; intros [|x l]; cbn; auto using sublist_refl. Qed.

Lemma filter_filter_imp {A} (f g : A -> bool) l :
  (forall x, f x = true -> g x = true) -> filter f (filter g l) = filter f l.
Proof.
  intros H. induction l as [|x l IH]; cbn; [reflexivity|].
  destruct (g x) eqn:Eg; cbn.
  - destruct (f x); rewrite IH; reflexivity.
  - destruct (f x) eqn:Ef; [apply H in Ef; congruence|exact IH].
Qed.
Lemma filter_filter_and {A} (f g : A -> bool) l : filter f (filter g l) = filter (fun x => g x && f x) l.
Proof.
  induction l as [|x l IH]; cbn; [reflexivity|].
  destruct (g x); cbn; [destruct (f x); rewrite IH; reflexivity|exact IH].
Qed.
Lemma filter_true {A} (f : A -> bool) l : (forall x, In x l -> f x = true) -> filter f l = l.
Proof.
  induction l as [|x l IH]; cbn; intros H; [reflexivity|].
  rewrite (H x (or_introl eq_refl)), IH; auto.
Qed.
Lemma filter_false {A} (f : A -> bool) l : (forall x, In x l -> f x = false) -> filter f l = [].
Proof.
  induction l as [|x l IH]; cbn; intros H; [reflexivity|].
  rewrite (H x (or_introl eq_refl)), IH; auto.
Qed.
Lemma flat_map_ext_in {A B} (f g : A -> list B) l : (forall x, In x l -> f x = g x) -> flat_map f l = flat_map g l.
Proof.
  induction l as [|x l IH]; cbn; intros H; [reflexivity|].
  rewrite (H x (or_introl eq_refl)), IH; auto.
Qed.
Lemma NoDup_filter' {A} (f : A -> bool) l : NoDup l -> NoDup (filter f l).
Proof.
  induction 1 as [|x l Hni Hnd IH]; cbn; [constructor|].
  destruct (f x); [constructor; auto|auto]. intros Hin. apply filter_In in Hin. tauto.
Qed.

Lemma beqb_sym a b : beqb a b = beqb b a.
Proof. destruct (beqb_spec a b), (beqb_spec b a); congruence. Qed.
Lemma beqb_false_iff a b : beqb a b = false <-> a <> b.
Proof. destruct (beqb_spec a b); split; congruence. Qed.
Lemma mem_app x a b : mem x (a ++ b) = mem x a || mem x b.
Proof. unfold mem. apply existsb_app. Qed.

(* ================================================================== association lists *)
Section AssocFacts.
  Context {A : Type}.
  Implicit Types m : list (bytes * A).
  Lemma alookup_aput_same k (v : A) m : alookup k (aput k v m) = Some v.
  Proof.
    induction m as [|[k' v'] m IH]; cbn; [now rewrite beqb_refl|].
    destruct (beqb k k') eqn:E; cbn; rewrite E; auto.
  Qed.
  Lemma alookup_aput_other k k' (v : A) m : k <> k' -> alookup k' (aput k v m) = alookup k' m.
  Proof.
    intros Hne. induction m as [|[k2 v2] m IH]; cbn.
    - destruct (beqb_spec k' k); [congruence|reflexivity].
    - destruct (beqb_spec k k2) as [->|Hk]; cbn.
      + destruct (beqb_spec k' k2); [congruence|reflexivity].
      + destruct (beqb k' k2); auto.
  Qed.
  Definition akeys m : list bytes := map fst m.
  Lemma akeys_aput k (v : A) m : akeys (aput k v m) = if mem k (akeys m) then akeys m else akeys m ++ [k].
  Proof.
    induction m as [|[k' v'] m IH]; cbn; [reflexivity|].
    destruct (beqb k k') eqn:E; cbn; [reflexivity|].
    unfold akeys in *. rewrite IH. unfold mem. destruct (existsb (beqb k) (map fst m)); reflexivity.
  Qed.
  Lemma alookup_notin k m : ~ In k (akeys m) -> alookup k m = None.
  Proof.
    induction m as [|[k' v'] m IH]; cbn; [reflexivity|]. intros H.
    destruct (beqb_spec k k') as [->|Hne]; [tauto|]. apply IH. tauto.
  Qed.
End AssocFacts.

Lemma cnt_aput_same g v m : cnt g (aput g v m) = v.
Proof. unfold cnt. now rewrite alookup_aput_same. Qed.
Lemma cnt_aput_other g g' v m : g <> g' -> cnt g' (aput g v m) = cnt g' m.
Proof. intros H. unfold cnt. now rewrite alookup_aput_other. Qed.
Lemma bucket_aput_same g v m : bucket g (aput g v m) = v.
Proof. unfold bucket. now rewrite alookup_aput_same. Qed.
Lemma bucket_aput_other g g' v m : g <> g' -> bucket g' (aput g v m) = bucket g' m.
Proof. intros H. unfold bucket. now rewrite alookup_aput_other. Qed.

(* ================================================================== groups *)
Section Groups.
  Variable keyf : record -> option bytes.

  Lemma group_of_cons_same r g t : keyf r = Some g -> group_of keyf g (r :: t) = r :: group_of keyf g t.
  Proof. intros H. unfold group_of. cbn. rewrite H. cbn. now rewrite beqb_refl. Qed.
  Lemma group_of_cons_other r g g' t : keyf r = Some g' -> g' <> g -> group_of keyf g (r :: t) = group_of keyf g t.
  Proof. intros H Hne. unfold group_of. cbn. rewrite H. cbn. destruct (beqb_spec g' g); [congruence|reflexivity]. Qed.
  Lemma group_of_cons_none r g t : keyf r = None -> group_of keyf g (r :: t) = group_of keyf g t.
  Proof. intros H. unfold group_of. cbn. now rewrite H. Qed.
  Lemma group_of_app g a b : group_of keyf g (a ++ b) = group_of keyf g a ++ group_of keyf g b.
  Proof. apply filter_app. Qed.
  Lemma group_of_all g l : (forall r, In r l -> keyf r = Some g) -> group_of keyf g l = l.
  Proof. intros H. apply filter_true. intros r Hr. rewrite (H r Hr). cbn. apply beqb_refl. Qed.
  Lemma group_of_none g g' l : g' <> g -> (forall r, In r l -> keyf r = Some g') -> group_of keyf g l = [].
  Proof.
    intros Hne H. apply filter_false. intros r Hr. rewrite (H r Hr). cbn.
    destruct (beqb_spec g' g); congruence.
  Qed.
  Lemma group_of_key g l r : In r (group_of keyf g l) -> keyf r = Some g.
  Proof.
    unfold group_of. rewrite filter_In. intros [_ H]. destruct (keyf r) as [x|]; [|discriminate].
    cbn in H. destruct (beqb_spec x g); congruence.
  Qed.

  Lemma dkeys_NoDup l : NoDup (dkeys keyf l).
  Proof.
    induction l as [|r t IH]; cbn; [constructor|].
    destruct (keyf r) as [g|]; [|exact IH].
    constructor; [|now apply NoDup_filter'].
    rewrite filter_In. intros [_ H]. now rewrite beqb_refl in H.
  Qed.
  Lemma dkeys_complete g l : ~ In g (dkeys keyf l) -> group_of keyf g l = [].
  Proof.
    induction l as [|r t IH]; cbn [dkeys]; [reflexivity|].
    destruct (keyf r) as [g1|] eqn:E; intros H.
    - cbn in H. assert (Hne : g1 <> g) by tauto.
      rewrite (group_of_cons_other _ _ _ _ E Hne). apply IH. intros Hin. apply H. right.
      rewrite filter_In. split; [exact Hin|]. rewrite negb_true_iff. apply beqb_false_iff. congruence.
    - rewrite (group_of_cons_none _ _ _ E). auto.
  Qed.
  Lemma dkeys_sound g l : In g (dkeys keyf l) -> exists r, In r l /\ keyf r = Some g.
  Proof.
    induction l as [|r t IH]; cbn; [tauto|].
    destruct (keyf r) as [g1|] eqn:E; intros H.
    - destruct H as [->|H]; [exists r; auto|]. apply filter_In in H. destruct (IH (proj1 H)) as (r' & ? & ?). exists r'; auto.
    - destruct (IH H) as (r' & ? & ?). exists r'; auto.
  Qed.

  (* the groups, concatenated in first-appearance order, are a rearrangement of the records that have a key *)
  Lemma flat_map_pull (f : bytes -> list record) g0 ks :
    NoDup ks -> (~ In g0 ks -> f g0 = []) ->
    Permutation (flat_map f ks) (f g0 ++ flat_map f (filter (fun x => negb (beqb x g0)) ks)).
  Proof.
    induction 1 as [|x ks Hni Hnd IH]; intros Hz.
    - cbn. rewrite Hz; auto.
    - cbn [flat_map filter]. destruct (beqb_spec x g0) as [->|Hne]; cbn [negb].
      + rewrite filter_true; [reflexivity|]. intros y Hy. rewrite negb_true_iff. apply beqb_false_iff. congruence.
      + cbn [flat_map]. rewrite IH by (intros H; apply Hz; cbn; tauto).
        rewrite !app_assoc. apply Permutation_app_tail. apply Permutation_app_comm.
  Qed.

  Lemma groups_permutation l :
    Permutation (flat_map (fun g => group_of keyf g l) (dkeys keyf l)) (filter (has_key keyf) l).
  Proof.
    induction l as [|r t IH]; [constructor|].
    cbn [dkeys filter]. unfold has_key at 1. destruct (keyf r) as [g0|] eqn:E.
    - cbn [flat_map]. rewrite (group_of_cons_same _ _ _ E). rewrite <- app_comm_cons. apply perm_skip.
      rewrite (flat_map_ext_in _ (fun g => group_of keyf g t)).
      + rewrite <- IH. symmetry. apply (flat_map_pull (fun g => group_of keyf g t) g0); [apply dkeys_NoDup|apply dkeys_complete].
      + intros g Hg. apply filter_In in Hg. destruct Hg as [_ Hg]. rewrite negb_true_iff in Hg.
        apply (group_of_cons_other _ _ _ _ E). apply beqb_false_iff in Hg. congruence.
    - rewrite (flat_map_ext_in _ (fun g => group_of keyf g t)); [exact IH|].
      intros g _. apply (group_of_cons_none _ _ _ E).
  Qed.
End Groups.

(* ================================================================== counting selectors (head -g, tail -n +k, decimate) *)
Fixpoint sel_idx (dec : Z -> bool) (c : Z) (xs : list record) : list record :=
  match xs with
  | [] => []
  | x :: t => if dec c then x :: sel_idx dec (c + 1) t else sel_idx dec (c + 1) t
  end.

Fixpoint keyed_select (dec : Z -> bool) (keyf : record -> option bytes) (m : list (bytes * Z)) (l : list record) : list record :=
  match l with
  | [] => []
  | r :: t =>
    match keyf r with
    | None => keyed_select dec keyf m t
    | Some g => let c := cnt g m in
                let m' := aput g (c + 1) m in
                if dec c then r :: keyed_select dec keyf m' t else keyed_select dec keyf m' t
    end
  end.

Lemma head_keyed_eq k fs l : forall m, head_keyed k fs m l = keyed_select (fun c => c + 1 <=? k) (grouping_key fs) m l.
Proof.
  induction l as [|r t IH]; intros m; cbn [head_keyed keyed_select]; [reflexivity|].
  destruct (grouping_key fs r) as [g|]; [|apply IH].
  unfold cnt. destruct (alookup g m) as [c|]; cbn zeta; rewrite ?Z.add_0_l, IH; reflexivity.
Qed.
Lemma tail_from_eq s fs l : forall m, tail_from s fs m l = keyed_select (fun c => c + 1 >? s) (grouping_key fs) m l.
Proof.
  induction l as [|r t IH]; intros m; cbn [tail_from keyed_select]; [reflexivity|].
  destruct (grouping_key fs r) as [g|]; [|apply IH]. cbn zeta. rewrite IH. reflexivity.
Qed.
Lemma decimate_eq n rem fs l : forall m, decimate_run n rem fs m l = keyed_select (fun c => c mod n =? rem) (grouping_key fs) m l.
Proof.
  induction l as [|r t IH]; intros m; cbn [decimate_run keyed_select]; [reflexivity|].
  destruct (grouping_key fs r) as [g|]; [|apply IH]. cbn zeta. rewrite IH. reflexivity.
Qed.

Section KeyedSelect.
  Variable dec : Z -> bool.
  Variable keyf : record -> option bytes.

  Lemma keyed_select_sublist l : forall m, sublist (keyed_select dec keyf m l) l.
  Proof.
    induction l as [|r t IH]; intros m; cbn [keyed_select]; [constructor|].
    destruct (keyf r) as [g|]; [|auto]. cbn zeta. destruct (dec (cnt g m)); auto.
  Qed.
  Lemma keyed_select_has_key l : forall m r, In r (keyed_select dec keyf m l) -> has_key keyf r = true.
  Proof.
    induction l as [|r t IH]; intros m x; cbn [keyed_select]; [intros []|].
    destruct (keyf r) as [g|] eqn:E; [|apply IH]. cbn zeta.
    destruct (dec (cnt g m)); [|apply IH]. intros [<-|H]; [unfold has_key; now rewrite E|eapply IH; eauto].
  Qed.
  (* the projection of the output on a group is decided by the position inside the group alone *)
  Lemma keyed_select_group g l : forall m,
    group_of keyf g (keyed_select dec keyf m l) = sel_idx dec (cnt g m) (group_of keyf g l).
  Proof.
    induction l as [|r t IH]; intros m; cbn [keyed_select]; [reflexivity|].
    destruct (keyf r) as [g0|] eqn:E.
    - cbn zeta. destruct (beqb_spec g0 g) as [->|Hne].
      + rewrite (group_of_cons_same _ _ _ _ E). cbn [sel_idx].
        destruct (dec (cnt g m)); [rewrite (group_of_cons_same _ _ _ _ E)|]; rewrite IH, cnt_aput_same; reflexivity.
      + rewrite (group_of_cons_other _ _ _ _ _ E Hne).
        destruct (dec (cnt g0 m)); [rewrite (group_of_cons_other _ _ _ _ _ E Hne)|]; rewrite IH, cnt_aput_other; auto.
    - rewrite (group_of_cons_none _ _ _ _ E). apply IH.
  Qed.
End KeyedSelect.

Fixpoint zseq (c : Z) (n : nat) : list Z := match n with O => [] | S n' => c :: zseq (c + 1) n' end.

(* position form: the j-th record of the group (counting from c) is kept iff dec j *)
Lemma sel_idx_positions dec xs : forall c,
  sel_idx dec c xs = map snd (filter (fun p => dec (fst p)) (combine (zseq c (List.length xs)) xs)).
Proof.
  induction xs as [|x t IH]; intros c; cbn; [reflexivity|].
  destruct (dec c); cbn; rewrite IH; reflexivity.
Qed.
Lemma sel_idx_firstn k xs : forall c, sel_idx (fun c => c + 1 <=? k) c xs = firstn (Z.to_nat (k - c)) xs.
Proof.
  induction xs as [|x t IH]; intros c; cbn [sel_idx]; [now rewrite firstn_nil|].
  rewrite IH. destruct (Z.leb_spec (c + 1) k).
  - replace (Z.to_nat (k - c)) with (S (Z.to_nat (k - (c + 1)))) by lia. reflexivity.
  - replace (Z.to_nat (k - c)) with O by lia. replace (Z.to_nat (k - (c + 1))) with O by lia. reflexivity.
Qed.
Lemma sel_idx_skipn s xs : forall c, sel_idx (fun c => c + 1 >? s) c xs = skipn (Z.to_nat (s - c)) xs.
Proof.
  induction xs as [|x t IH]; intros c; cbn [sel_idx]; [now rewrite skipn_nil|].
  rewrite IH. rewrite Z.gtb_ltb. destruct (Z.ltb_spec s (c + 1)).
  - replace (Z.to_nat (s - c)) with O by lia. replace (Z.to_nat (s - (c + 1))) with O by lia. reflexivity.
  - replace (Z.to_nat (s - c)) with (S (Z.to_nat (s - (c + 1)))) by lia. reflexivity.
Qed.

(* ================================================================== head *)
Lemma head_unkeyed_firstn k l : forall c, head_unkeyed k c l = firstn (Z.to_nat (k - c)) l.
Proof.
  induction l as [|r t IH]; intros c; cbn [head_unkeyed]; [now rewrite firstn_nil|].
  cbn zeta. rewrite IH. destruct (Z.leb_spec (c + 1) k).
  - replace (Z.to_nat (k - c)) with (S (Z.to_nat (k - (c + 1)))) by lia. reflexivity.
  - replace (Z.to_nat (k - c)) with O by lia. replace (Z.to_nat (k - (c + 1))) with O by lia. reflexivity.
Qed.

Lemma head_first_k k l : 0 <= k -> head k None l = firstn (Z.to_nat k) l.
Proof.
  intros Hk. unfold head. destruct (Z.ltb_spec k 0); [lia|].
  rewrite head_unkeyed_firstn. now rewrite Z.sub_0_r.
Qed.

Lemma head_grouped_spec k fs l : 0 <= k ->
  sublist (head k (Some fs) l) l
  /\ (forall r, In r (head k (Some fs) l) -> has_key (grouping_key fs) r = true)
  /\ (forall g, group_of (grouping_key fs) g (head k (Some fs) l) = firstn (Z.to_nat k) (group_of (grouping_key fs) g l)).
Proof.
  intros Hk. unfold head. destruct (Z.ltb_spec k 0); [lia|]. rewrite head_keyed_eq.
  split; [apply keyed_select_sublist|]. split; [apply keyed_select_has_key|].
  intros g. rewrite keyed_select_group, sel_idx_firstn. unfold cnt. cbn. now rewrite Z.sub_0_r.
Qed.

(* ================================================================== tail -n +k *)
Lemma cnt_nil g : cnt g [] = 0.
Proof. reflexivity. Qed.

Lemma tail_plus_spec n fs l :
  let s := Z.to_nat (Z.max (n - 1) 0) in
  sublist (tail n true fs l) l
  /\ (forall r, In r (tail n true fs l) -> has_key (grouping_key fs) r = true)
  /\ (forall g, group_of (grouping_key fs) g (tail n true fs l) = skipn s (group_of (grouping_key fs) g l)).
Proof.
  cbn zeta. unfold tail. rewrite tail_from_eq.
  split; [apply keyed_select_sublist|]. split; [apply keyed_select_has_key|].
  intros g. rewrite keyed_select_group, sel_idx_skipn, cnt_nil. now rewrite Z.sub_0_r.
Qed.

Lemma grouping_key_nil r : grouping_key [] r = Some [].
Proof. reflexivity. Qed.

Lemma keyed_select_total dec keyf g0 l : (forall r, keyf r = Some g0) ->
  forall m, keyed_select dec keyf m l = sel_idx dec (cnt g0 m) l.
Proof.
  intros Hk. induction l as [|r t IH]; intros m; cbn [keyed_select sel_idx]; [reflexivity|].
  rewrite Hk. cbn zeta. destruct (dec (cnt g0 m)); rewrite IH, cnt_aput_same; reflexivity.
Qed.

Lemma tail_plus_ungrouped n l : tail n true [] l = skipn (Z.to_nat (Z.max (n - 1) 0)) l.
Proof.
  unfold tail. rewrite tail_from_eq.
  rewrite (keyed_select_total _ _ [] l grouping_key_nil). rewrite sel_idx_skipn, cnt_nil. now rewrite Z.sub_0_r.
Qed.

(* |head -n k| + |tail -n +(k+1)| = N, in the strong form: the two outputs concatenate to the input *)
Lemma head_tail_split k l : 0 <= k -> head k None l ++ tail (k + 1) true [] l = l.
Proof.
  intros Hk. rewrite head_first_k by lia. rewrite tail_plus_ungrouped.
  replace (Z.max (k + 1 - 1) 0) with k by lia. apply firstn_skipn.
Qed.
Lemma head_tail_count k l : 0 <= k ->
  (List.length (head k None l) + List.length (tail (k + 1) true [] l) = List.length l)%nat.
Proof. intros Hk. rewrite <- app_length. now rewrite head_tail_split. Qed.

(* ================================================================== decimate *)
Lemma decimate_spec n b e fs l :
  let rem := if b && negb e then 0 else n - 1 in
  sublist (decimate n b e fs l) l
  /\ (forall r, In r (decimate n b e fs l) -> has_key (grouping_key fs) r = true)
  /\ (forall g, let xs := group_of (grouping_key fs) g l in
                group_of (grouping_key fs) g (decimate n b e fs l)
                = map snd (filter (fun p => fst p mod n =? rem) (combine (zseq 0 (List.length xs)) xs))).
Proof.
  cbn zeta. unfold decimate. rewrite decimate_eq.
  split; [apply keyed_select_sublist|]. split; [apply keyed_select_has_key|].
  intros g. rewrite keyed_select_group, cnt_nil. apply sel_idx_positions.
Qed.

(* ================================================================== ordered-map bucketing *)
Section Bucketize.
  Variable upd : list record -> record -> list record.
  Variable keyf : record -> option bytes.

  Lemma bucketize_bucket g l : forall m,
    bucket g (bucketize upd keyf m l) = fold_left upd (group_of keyf g l) (bucket g m).
  Proof.
    induction l as [|r t IH]; intros m; cbn [bucketize]; [reflexivity|].
    destruct (keyf r) as [g0|] eqn:E.
    - rewrite IH. destruct (beqb_spec g0 g) as [->|Hne].
      + rewrite (group_of_cons_same _ _ _ _ E). cbn [fold_left]. now rewrite bucket_aput_same.
      + rewrite (group_of_cons_other _ _ _ _ _ E Hne). now rewrite bucket_aput_other.
    - rewrite (group_of_cons_none _ _ _ _ E). apply IH.
  Qed.

  Lemma bucketize_keys l : forall m,
    akeys (bucketize upd keyf m l) = akeys m ++ filter (fun g => negb (mem g (akeys m))) (dkeys keyf l).
  Proof.
    induction l as [|r t IH]; intros m; cbn [bucketize dkeys]; [cbn; now rewrite app_nil_r|].
    destruct (keyf r) as [g0|] eqn:E; [|apply IH].
    rewrite IH, akeys_aput. cbn [filter]. destruct (mem g0 (akeys m)) eqn:Em; cbn [negb].
    - f_equal. symmetry. apply filter_filter_imp. intros x Hx. rewrite negb_true_iff in *.
      destruct (beqb_spec x g0); [subst; congruence|reflexivity].
    - rewrite <- app_assoc. cbn [app]. f_equal. f_equal.
      rewrite filter_filter_and. apply filter_ext. intros x.
      rewrite mem_app. cbn. rewrite orb_false_r, negb_orb. apply andb_comm.
  Qed.

  Lemma emit_buckets_flat m : NoDup (akeys m) -> emit_buckets m = flat_map (fun g => bucket g m) (akeys m).
  Proof.
    unfold emit_buckets. induction m as [|[k v] m IH]; cbn; intros Hnd; [reflexivity|].
    inversion Hnd as [|? ? Hni Hnd']; subst.
    unfold bucket at 1. cbn. rewrite beqb_refl. f_equal. rewrite IH by assumption.
    apply flat_map_ext_in. intros g Hg. unfold bucket. cbn.
    destruct (beqb_spec g k); [subst; tauto|reflexivity].
  Qed.

  Lemma bucketize_emit l :
    emit_buckets (bucketize upd keyf [] l) = flat_map (fun g => fold_left upd (group_of keyf g l) []) (dkeys keyf l).
  Proof.
    assert (Hk : akeys (bucketize upd keyf [] l) = dkeys keyf l).
    { rewrite bucketize_keys. cbn. apply filter_true. reflexivity. }
    rewrite emit_buckets_flat by (rewrite Hk; apply dkeys_NoDup).
    rewrite Hk. apply flat_map_ext_in. intros g _. now rewrite bucketize_bucket.
  Qed.
End Bucketize.

Lemma fold_left_snoc (xs w : list record) : fold_left (fun w r => w ++ [r]) xs w = w ++ xs.
Proof.
  revert w; induction xs as [|x t IH]; intros w; cbn; [now rewrite app_nil_r|].
  rewrite IH. now rewrite <- app_assoc.
Qed.

(* group-by / group-like: groups in first-appearance order, each group in input order *)
Lemma group_by_spec fs l :
  group_by fs l = flat_map (fun g => group_of (grouping_key fs) g l) (dkeys (grouping_key fs) l).
Proof.
  unfold group_by. rewrite bucketize_emit. apply flat_map_ext_in. intros g _. apply fold_left_snoc.
Qed.
Lemma group_like_spec l :
  group_like l = flat_map (fun g => group_of keys_key g l) (dkeys keys_key l).
Proof.
  unfold group_like. rewrite bucketize_emit. apply flat_map_ext_in. intros g _. apply fold_left_snoc.
Qed.
Lemma group_by_permutation fs l : Permutation (group_by fs l) (filter (has_key (grouping_key fs)) l).
Proof. rewrite group_by_spec. apply groups_permutation. Qed.
Lemma group_like_permutation l : Permutation (group_like l) l.
Proof.
  rewrite group_like_spec. rewrite groups_permutation. rewrite filter_true; [reflexivity|]. reflexivity.
Qed.
Lemma length_flat_map {A B} (f : A -> list B) l :
  List.length (flat_map f l) = fold_right (fun x acc => (List.length (f x) + acc)%nat) O l.
Proof. induction l as [|x l IH]; cbn; [reflexivity|]. now rewrite app_length, IH. Qed.
Lemma group_sizes_sum fs l :
  fold_right (fun g acc => (List.length (group_of (grouping_key fs) g l) + acc)%nat) O (dkeys (grouping_key fs) l)
  = List.length (filter (has_key (grouping_key fs)) l).
Proof.
  rewrite <- (length_flat_map (fun g => group_of (grouping_key fs) g l)).
  apply Permutation_length. apply groups_permutation.
Qed.

(* ================================================================== tail -n k *)
Definition lastn (k : nat) (xs : list record) : list record := skipn (List.length xs - k) xs.

Lemma drain_spec fuel : forall k w, 0 <= k -> (List.length w <= fuel)%nat ->
  drain fuel k w = (firstn (List.length w - Z.to_nat k) w, skipn (List.length w - Z.to_nat k) w).
Proof.
  induction fuel as [|f IH]; intros k w Hk Hf.
  - destruct w; [reflexivity|cbn in Hf; lia].
  - cbn [drain]. rewrite Z.gtb_ltb. destruct (Z.ltb_spec k (Z.of_nat (List.length w))) as [Hlt|Hge].
    + destruct w as [|x w']; [cbn in Hlt; lia|].
      cbn [List.length] in *. rewrite IH by lia.
      replace (S (List.length w') - Z.to_nat k)%nat with (S (List.length w' - Z.to_nat k)) by lia. reflexivity.
    + replace (List.length w - Z.to_nat k)%nat with O by lia. reflexivity.
Qed.

Lemma push_drain_spec k w r : 0 <= k ->
  push_drain k w r = (firstn (List.length (w ++ [r]) - Z.to_nat k) (w ++ [r]), lastn (Z.to_nat k) (w ++ [r])).
Proof. intros Hk. unfold push_drain. cbn zeta. rewrite drain_spec by lia. reflexivity. Qed.

Lemma skipn_add {A} a b (l : list A) : skipn (a + b) l = skipn b (skipn a l).
Proof.
  revert l; induction a as [|a IH]; intros l; [reflexivity|].
  destruct l; cbn [Nat.add skipn]; [now rewrite skipn_nil|apply IH].
Qed.
Lemma lastn_lastn_app k a t : lastn k (lastn k a ++ t) = lastn k (a ++ t).
Proof.
  unfold lastn. set (d := (List.length a - k)%nat).
  rewrite !app_length, skipn_length.
  replace (List.length a + List.length t - k)%nat with (d + (List.length a - d + List.length t - k))%nat by lia.
  rewrite skipn_add. f_equal. rewrite skipn_app. replace (d - List.length a)%nat with O by lia. reflexivity.
Qed.
Lemma fold_push_drain k xs : 0 <= k -> forall w,
  fold_left (fun w r => snd (push_drain k w r)) xs (lastn (Z.to_nat k) w) = lastn (Z.to_nat k) (w ++ xs).
Proof.
  intros Hk. induction xs as [|x t IH]; intros w; cbn [fold_left]; [now rewrite app_nil_r|].
  rewrite push_drain_spec by assumption. cbn [snd]. rewrite lastn_lastn_app. rewrite IH. now rewrite <- app_assoc.
Qed.

Lemma tail_lastn_spec k fs l : 0 <= k ->
  tail_lastn k fs l = flat_map (fun g => lastn (Z.to_nat k) (group_of (grouping_key fs) g l)) (dkeys (grouping_key fs) l).
Proof.
  intros Hk. unfold tail_lastn. rewrite bucketize_emit. apply flat_map_ext_in. intros g _.
  apply (fold_push_drain k _ Hk []).
Qed.

Lemma tail_spec n fs l :
  tail n false fs l = flat_map (fun g => lastn (Z.abs_nat n) (group_of (grouping_key fs) g l)) (dkeys (grouping_key fs) l).
Proof.
  unfold tail. rewrite tail_lastn_spec by lia. now rewrite Zabs2Nat.abs_nat_spec.
Qed.

Lemma group_of_nil_key l : group_of (grouping_key []) [] l = l.
Proof. apply group_of_all. reflexivity. Qed.
Lemma dkeys_nil_key l : l <> [] -> dkeys (grouping_key []) l = [[]].
Proof.
  induction l as [|r t IH]; [congruence|]. intros _. cbn [dkeys]. rewrite grouping_key_nil.
  destruct t as [|r' t']; [reflexivity|]. rewrite IH by congruence. reflexivity.
Qed.
Lemma tail_ungrouped n l : tail n false [] l = lastn (Z.abs_nat n) l.
Proof.
  rewrite tail_spec. destruct l as [|r t]; [reflexivity|].
  rewrite dkeys_nil_key by congruence. cbn [flat_map]. now rewrite group_of_nil_key, app_nil_r.
Qed.

(* tail mirrors head: the last k are the first k of the reversed stream, reversed *)
Lemma lastn_rev k l : lastn k l = rev (firstn k (rev l)).
Proof.
  unfold lastn. rewrite firstn_rev, rev_involutive. reflexivity.
Qed.
Lemma tail_mirrors_head k l : 0 <= k -> tail k false [] l = tac (head k None (tac l)).
Proof.
  intros Hk. rewrite tail_ungrouped, head_first_k by assumption. unfold tac.
  rewrite lastn_rev. now rewrite Zabs2Nat.abs_nat_nonneg.
Qed.

(* ================================================================== filter *)
Lemma filter_run_sublist isf inv vs l : forall o, filter_run isf inv vs l = Some o -> sublist o l.
Proof.
  revert vs. induction l as [|r t IH]; intros vs o.
  - destruct vs; cbn; intros H; injection H as <-; constructor.
  - destruct vs as [|v vt]; cbn [filter_run]; [discriminate|].
    destruct (match v with VTrue => Some true | VFalse => Some false | VAbsent => if isf then Some false else Some true
                          | VOther => if isf then None else Some true end) as [b|]; [|discriminate].
    destruct (filter_run isf inv vt t) as [rest|] eqn:E; [|discriminate].
    specialize (IH vt rest E). destruct (xorb b inv); intros H; injection H as <-; auto.
Qed.

Definition bool_or_absent (v : verdict) : bool := match v with VOther => false | _ => true end.

(* for every evaluation history made of booleans and absents (one verdict per record), filter never fails and
   filter / filter -x split the input: each record goes to exactly one side, order kept on both *)
Inductive split3 {A} : list A -> list A -> list A -> Prop :=
| sp_nil : split3 [] [] []
| sp_left x l a b : split3 l a b -> split3 (x :: l) (x :: a) b
| sp_right x l a b : split3 l a b -> split3 (x :: l) a (x :: b).

Lemma split3_perm {A} (l a b : list A) : split3 l a b -> Permutation (a ++ b) l.
Proof.
  induction 1; cbn; auto. symmetry. apply Permutation_cons_app. now symmetry.
Qed.
Lemma split3_sublists {A} (l a b : list A) : split3 l a b -> sublist a l /\ sublist b l.
Proof. induction 1 as [|x l a b H [IH1 IH2]|x l a b H [IH1 IH2]]; auto. Qed.

Lemma filter_partition vs l :
  List.length vs = List.length l -> forallb bool_or_absent vs = true ->
  exists a b, filter_run true false vs l = Some a /\ filter_run true true vs l = Some b /\ split3 l a b.
Proof.
  revert vs. induction l as [|r t IH]; intros vs Hlen Hv.
  - exists [], []. destruct vs; cbn; repeat split; constructor.
  - destruct vs as [|v vt]; [discriminate|]. cbn in Hlen, Hv. apply andb_true_iff in Hv. destruct Hv as [Hv1 Hv2].
    destruct (IH vt ltac:(lia) Hv2) as (a & b & Ha & Hb & Hs).
    cbn [filter_run]. rewrite Ha, Hb.
    destruct v; cbn in *; try discriminate;
      [exists (r :: a), b|exists a, (r :: b)|exists a, (r :: b)]; repeat split; constructor; assumption.
Qed.

(* a record passes `filter` exactly when its verdict is true; everything else (false, absent) passes `filter -x` *)
Lemma filter_run_is_filter vs l : List.length vs = List.length l -> forallb bool_or_absent vs = true ->
  filter_run true false vs l = Some (map snd (filter (fun p => match fst p with VTrue => true | _ => false end) (combine vs l)))
  /\ filter_run true true vs l = Some (map snd (filter (fun p => match fst p with VTrue => false | _ => true end) (combine vs l))).
Proof.
  revert vs. induction l as [|r t IH]; intros vs Hlen Hv.
  - destruct vs; cbn; auto.
  - destruct vs as [|v vt]; [discriminate|]. cbn in Hlen, Hv. apply andb_true_iff in Hv. destruct Hv as [Hv1 Hv2].
    destruct (IH vt ltac:(lia) Hv2) as [Ha Hb]. cbn [filter_run combine filter]. rewrite Ha, Hb.
    destruct v; cbn in *; try discriminate; auto.
Qed.

(* ================================================================== tac, simple selectors *)
Lemma tac_involutive l : tac (tac l) = l.
Proof. unfold tac. apply rev_involutive. Qed.
Lemma tac_permutation l : Permutation (tac l) l.
Proof. unfold tac. symmetry. apply Permutation_rev. Qed.

Lemma uniq_a_run_sublist l : forall seen, sublist (uniq_a_run seen l) l.
Proof.
  induction l as [|r t IH]; intros seen; cbn [uniq_a_run]; [constructor|].
  destruct (existsb (record_eqb r) seen); auto.
Qed.
Lemma existsb_record_In r l : existsb (record_eqb r) l = true <-> In r l.
Proof.
  rewrite existsb_exists. split.
  - intros (x & Hx & E). destruct (record_eqb_spec r x); [subst; auto|discriminate].
  - intros H. exists r. split; [auto|]. destruct (record_eqb_spec r r); congruence.
Qed.
(* uniq -a keeps exactly the first occurrence of every distinct record *)
Lemma uniq_a_run_spec l : forall seen,
  NoDup (uniq_a_run seen l)
  /\ (forall r, In r (uniq_a_run seen l) <-> In r l /\ ~ In r seen).
Proof.
  induction l as [|r t IH]; intros seen; cbn [uniq_a_run].
  - split; [constructor|]. cbn. tauto.
  - destruct (existsb (record_eqb r) seen) eqn:E.
    + apply existsb_record_In in E. destruct (IH seen) as [Hnd Hin]. split; [assumption|].
      intros x. rewrite Hin. cbn. split; [tauto|]. intros [[<-|H] Hn]; tauto.
    + assert (Hr : ~ In r seen) by (rewrite <- existsb_record_In; congruence).
      destruct (IH (r :: seen)) as [Hnd Hin]. split.
      * constructor; [|assumption]. rewrite Hin. cbn. tauto.
      * intros x. cbn. rewrite Hin. cbn. split.
        -- intros [<-|[H1 H2]]; tauto.
        -- intros [[<-|H1] H2]; [tauto|]. destruct (record_eqb_spec r x); [tauto|]. right. tauto.
Qed.

(* ================================================================== selects-only, verb by verb *)
Lemma grep_sublist mt i v l : sublist (grep mt i v l) l.
Proof. apply sublist_filter. Qed.
Lemma having_fields_sublist mode names mt l : sublist (having_fields mode names mt l) l.
Proof. apply sublist_filter. Qed.
Lemma skip_trivial_sublist l : sublist (skip_trivial l) l.
Proof. apply sublist_filter. Qed.
Lemma uniq_a_sublist l : sublist (uniq_a l) l.
Proof. apply uniq_a_run_sublist. Qed.
Lemma head_nonneg_sublist k g l : 0 <= k -> sublist (head k g l) l.
Proof.
  intros Hk. destruct g as [fs|]; [apply (head_grouped_spec k fs l Hk)|].
  rewrite head_first_k by assumption. apply sublist_firstn.
Qed.

Lemma Permutation_incl {A} (a b : list A) : Permutation a b -> incl a b.
Proof. intros H x Hx. eapply Permutation_in; eauto. Qed.

Lemma tail_lastn_incl n fs l : incl (tail n false fs l) l.
Proof.
  rewrite tail_spec. intros r Hr. apply in_flat_map in Hr. destruct Hr as (g & _ & Hr).
  unfold lastn in Hr. apply (sublist_incl _ _ (sublist_skipn _ _)) in Hr.
  unfold group_of in Hr. apply filter_In in Hr. tauto.
Qed.

(* ================================================================== having-fields meaning *)
Lemma at_least_walk_false names num found ks :
  (Z.of_nat (List.length (filter (fun k => mem k names) ks)) < num - found) -> at_least_walk names num found ks = false.
Proof.
  revert found. induction ks as [|k t IH]; intros found H; cbn [at_least_walk]; [reflexivity|].
  cbn [filter] in H. destruct (mem k names); [|auto].
  cbn [List.length] in H. destruct (Z.eqb_spec (found + 1) num); [lia|]. apply IH. lia.
Qed.
Lemma at_least_walk_true names num found ks : found < num ->
  (Z.of_nat (List.length (filter (fun k => mem k names) ks)) >= num - found) -> at_least_walk names num found ks = true.
Proof.
  revert found. induction ks as [|k t IH]; intros found Hf H; cbn [at_least_walk].
  - cbn in H. lia.
  - cbn [filter] in H. destruct (mem k names); [|auto].
    cbn [List.length] in H. destruct (Z.eqb_spec (found + 1) num); [reflexivity|]. apply IH; lia.
Qed.
(* --at-least: the record has at least as many of its keys among the names as names were given *)
Lemma having_at_least_spec names mt r : names <> [] ->
  having_pred HAtLeast names mt r = (Z.of_nat (List.length names) <=? Z.of_nat (List.length (filter (fun k => mem k names) (keys r)))).
Proof.
  intros Hn. cbn [having_pred]. destruct (Z.leb_spec (Z.of_nat (List.length names)) (Z.of_nat (List.length (filter (fun k => mem k names) (keys r))))).
  - apply at_least_walk_true; [destruct names; [congruence|cbn; lia]|lia].
  - apply at_least_walk_false. lia.
Qed.

(* ================================================================== cat -n *)
Lemma cat_n_ungrouped_spec name l : forall c,
  cat_n_ungrouped name c l = map (fun p => prepend name (dec_of_Z (fst p)) (snd p)) (combine (zseq (c + 1) (List.length l)) l).
Proof.
  induction l as [|r t IH]; intros c; cbn; [reflexivity|]. now rewrite IH.
Qed.

(* numbering of one group: its records carry (count before + 1), (count before + 2), ... *)
Definition unprepended (name : bytes) (l : list record) : Prop := forall r, In r l -> has name r = false.

Fixpoint number_from (name : bytes) (c : Z) (xs : list record) : list record :=
  match xs with [] => [] | x :: t => ((name, dec_of_Z (c + 1)) :: x) :: number_from name (c + 1) t end.

Lemma prepend_fresh name v r : has name r = false -> prepend name v r = (name, v) :: r.
Proof. intros H. unfold prepend. now rewrite H. Qed.

Lemma grouping_key_cons_fresh fs name v r : mem name fs = false -> grouping_key fs ((name, v) :: r) = grouping_key fs r.
Proof.
  intros Hm. unfold grouping_key. replace (selected_values fs ((name, v) :: r)) with (selected_values fs r); [reflexivity|].
  induction fs as [|f t IH]; cbn [selected_values]; [reflexivity|].
  cbn in Hm. apply orb_false_iff in Hm. destruct Hm as [Hf Ht]. cbn [get]. rewrite beqb_sym in Hf. rewrite Hf.
  destruct (get f r); [|reflexivity]. now rewrite IH.
Qed.

Lemma cat_n_grouped_group name fs g l : mem name fs = false -> unprepended name l -> forall c m,
  group_of (grouping_key fs) g (cat_n_grouped name fs c m l) = number_from name (cnt g m) (group_of (grouping_key fs) g l).
Proof.
  intros Hm. induction l as [|r t IH]; intros Hu c m; cbn [cat_n_grouped]; [reflexivity|].
  assert (Hr : has name r = false) by (apply Hu; cbn; auto).
  assert (Hu' : unprepended name t) by (intros x Hx; apply Hu; cbn; auto).
  destruct (grouping_key fs r) as [g0|] eqn:E.
  - rewrite prepend_fresh by assumption.
    assert (E' : forall v, grouping_key fs ((name, v) :: r) = Some g0) by (intros v; now rewrite grouping_key_cons_fresh).
    destruct (beqb_spec g0 g) as [->|Hne].
    + rewrite (group_of_cons_same _ _ _ _ (E' _)), (group_of_cons_same _ _ _ _ E). cbn [number_from].
      rewrite IH by assumption. rewrite cnt_aput_same. unfold cnt. destruct (alookup g m); rewrite ?Z.add_0_l; reflexivity.
    + rewrite (group_of_cons_other _ _ _ _ _ (E' _) Hne), (group_of_cons_other _ _ _ _ _ E Hne).
      rewrite IH by assumption. now rewrite cnt_aput_other.
  - rewrite prepend_fresh by assumption.
    assert (E' : forall v, grouping_key fs ((name, v) :: r) = None) by (intros v; now rewrite grouping_key_cons_fresh).
    rewrite (group_of_cons_none _ _ _ _ (E' _)), (group_of_cons_none _ _ _ _ E). now apply IH.
Qed.

(* ================================================================== grouping key: when "same joined text" means "same values" *)
Definition comma_free (v : bytes) : Prop := ~ In ","%char v.

Lemma join_comma_cons x t : t <> [] -> join_comma (x :: t) = x ++ ","%char :: join_comma t.
Proof. destruct t; [congruence|reflexivity]. Qed.

Lemma app_comma_inj (x y a b : bytes) : comma_free x -> comma_free y ->
  x ++ ","%char :: a = y ++ ","%char :: b -> x = y /\ a = b.
Proof.
  revert y. induction x as [|c x IH]; intros [|d y] Hx Hy H; cbn in H.
  - injection H as ->. auto.
  - injection H as <- _. exfalso. apply Hy. cbn. auto.
  - injection H as -> _. exfalso. apply Hx. cbn. auto.
  - injection H as <- H. destruct (IH y) as [-> ->]; auto.
    + intros Hin. apply Hx. cbn. auto.
    + intros Hin. apply Hy. cbn. auto.
Qed.

Lemma join_comma_no_comma x y : comma_free x -> x = y ++ ","%char :: join_comma [] -> False.
Proof. intros Hx ->. apply Hx. apply in_or_app. right. cbn. auto. Qed.

Lemma join_comma_inj a : forall b, List.length a = List.length b -> Forall comma_free a -> Forall comma_free b ->
  join_comma a = join_comma b -> a = b.
Proof.
  induction a as [|x a IH]; intros [|y b] Hl Ha Hb H; cbn in Hl; try discriminate; [reflexivity|].
  inversion Ha as [|? ? Hx Ha']; subst. inversion Hb as [|? ? Hy Hb']; subst.
  destruct a as [|x2 a]; destruct b as [|y2 b]; cbn in Hl; try discriminate.
  - cbn in H. congruence.
  - rewrite (join_comma_cons x (x2 :: a)), (join_comma_cons y (y2 :: b)) in H by congruence.
    destruct (app_comma_inj _ _ _ _ Hx Hy H) as [-> H2]. f_equal. apply IH; auto.
Qed.

Lemma selected_values_length fs r vs : selected_values fs r = Some vs -> List.length vs = List.length fs.
Proof.
  revert vs. induction fs as [|f t IH]; intros vs; cbn [selected_values].
  - intros H; injection H as <-. reflexivity.
  - destruct (get f r); [|discriminate]. destruct (selected_values t r) as [vs'|]; [|discriminate].
    intros H; injection H as <-. cbn. f_equal. now apply IH.
Qed.

(* two records fall in the same group exactly when their group-by values agree -- provided no value has a comma *)
Lemma grouping_key_faithful fs r1 r2 v1 v2 :
  selected_values fs r1 = Some v1 -> selected_values fs r2 = Some v2 ->
  Forall comma_free v1 -> Forall comma_free v2 ->
  (grouping_key fs r1 = grouping_key fs r2 <-> v1 = v2).
Proof.
  intros H1 H2 F1 F2. unfold grouping_key. rewrite H1, H2. split; [|congruence].
  intros H. injection H as H. apply join_comma_inj; auto.
  rewrite (selected_values_length _ _ _ H1), (selected_values_length _ _ _ H2). reflexivity.
Qed.

(* ... and not otherwise: different group-by values, same group *)
Lemma grouping_key_collision :
  let r1 := [(B "a", B "x,y"); (B "b", B "z")] in
  let r2 := [(B "a", B "x"); (B "b", B "y,z")] in
  selected_values [B "a"; B "b"] r1 <> selected_values [B "a"; B "b"] r2
  /\ grouping_key [B "a"; B "b"] r1 = grouping_key [B "a"; B "b"] r2
  /\ head 1 (Some [B "a"; B "b"]) [r1; r2] = [r1].
Proof. cbn zeta. split; [|split]; [discriminate|reflexivity|reflexivity]. Qed.

(* ================================================================== shuffle / bootstrap *)
Lemma set_nth_length {A} i (x : A) l : List.length (set_nth i x l) = List.length l.
Proof. revert i; induction l as [|y l IH]; intros [|i]; cbn; auto. Qed.

Lemma set_nth_perm {A} (l : list A) : forall i a x, nth_error l i = Some a ->
  Permutation (x :: l) (a :: set_nth i x l).
Proof.
  induction l as [|y l IH]; intros [|i] a x H; cbn in *; try discriminate.
  - injection H as ->. apply perm_swap.
  - etransitivity; [apply perm_swap|]. etransitivity; [apply perm_skip, (IH i a x H)|apply perm_swap].
Qed.
Lemma nth_error_set_nth_same {A} (l : list A) : forall i x, (i < List.length l)%nat -> nth_error (set_nth i x l) i = Some x.
Proof. induction l as [|y l IH]; intros [|i] x H; cbn in *; try lia; [reflexivity|]. apply IH. lia. Qed.
Lemma nth_error_set_nth_other {A} (l : list A) : forall i j x, i <> j -> nth_error (set_nth i x l) j = nth_error l j.
Proof. induction l as [|y l IH]; intros [|i] [|j] x H; cbn; try congruence; auto. Qed.

Lemma swap_nth_perm {A} i j (l : list A) : Permutation (swap_nth i j l) l.
Proof.
  unfold swap_nth. destruct (nth_error l i) as [a|] eqn:Ei; [|reflexivity].
  destruct (nth_error l j) as [b|] eqn:Ej; [|reflexivity].
  destruct (Nat.eq_dec i j) as [->|Hne].
  - assert (a = b) by congruence. subst b.
    pose proof (set_nth_perm l j a a Ej) as P1.
    assert (Ej' : nth_error (set_nth j a l) j = Some a).
    { apply nth_error_set_nth_same. apply nth_error_Some. congruence. }
    pose proof (set_nth_perm _ j a a Ej') as P2.
    symmetry. apply (Permutation_cons_inv (a := a)). etransitivity; [exact P1|exact P2].
  - pose proof (set_nth_perm l j b a Ej) as P1.
    assert (Ei' : nth_error (set_nth j a l) i = Some a) by (rewrite nth_error_set_nth_other; auto).
    pose proof (set_nth_perm _ i a b Ei') as P2.
    symmetry. apply (Permutation_cons_inv (a := a)). etransitivity; [exact P1|exact P2].
Qed.

Lemma shuffle_loop_perm steps : forall i us images, Permutation (shuffle_loop i steps us images) images.
Proof.
  induction steps as [|s IH]; intros i us images; cbn [shuffle_loop]; [destruct us; reflexivity|].
  destruct us as [|u us']; [reflexivity|]. rewrite IH. apply swap_nth_perm.
Qed.

Lemma pick_all_perm {A} (arr : list A) idx idx' : Permutation idx idx' -> Permutation (pick_all idx arr) (pick_all idx' arr).
Proof.
  induction 1 as [|x a b H IH|x y a|a b c H1 IH1 H2 IH2]; cbn [pick_all].
  - reflexivity.
  - destruct (nth_error arr x); [constructor|]; assumption.
  - destruct (nth_error arr x), (nth_error arr y); try reflexivity. apply perm_swap.
  - etransitivity; eauto.
Qed.
Lemma pick_all_seq {A} (arr : list A) : forall pre, pick_all (seq (List.length pre) (List.length arr)) (pre ++ arr) = arr.
Proof.
  induction arr as [|x arr IH]; intros pre; cbn [List.length seq pick_all]; [reflexivity|].
  rewrite nth_error_app2 by lia. rewrite Nat.sub_diag. cbn [nth_error]. f_equal.
  specialize (IH (pre ++ [x])). rewrite app_length in IH. cbn in IH. rewrite Nat.add_1_r in IH.
  rewrite <- app_assoc in IH. exact IH.
Qed.

(* for every sequence of draws, shuffle outputs a permutation of its input *)
Lemma shuffle_permutation us l : Permutation (shuffle us l) l.
Proof.
  unfold shuffle. rewrite (pick_all_perm l _ _ (shuffle_loop_perm _ _ _ _)).
  pose proof (pick_all_seq l []) as H. cbn in H. now rewrite H.
Qed.

Lemma pick_all_incl {A} (arr : list A) idx : incl (pick_all idx arr) arr.
Proof.
  induction idx as [|i t IH]; cbn [pick_all]; [intros x []|].
  destruct (nth_error arr i) eqn:E; [|exact IH]. intros x [<-|H]; [eapply nth_error_In; eauto|auto].
Qed.
Lemma pick_all_length {A} (arr : list A) idx : Forall (fun i => (i < List.length arr)%nat) idx ->
  List.length (pick_all idx arr) = List.length idx.
Proof.
  induction 1 as [|i t Hi Ht IH]; cbn [pick_all]; [reflexivity|].
  destruct (nth_error arr i) eqn:E; [cbn; now rewrite IH|]. apply nth_error_None in E. lia.
Qed.
Lemma bootstrap_incl nout us l : incl (bootstrap nout us l) l.
Proof. apply pick_all_incl. Qed.
