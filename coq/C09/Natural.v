(* C09 -- natural order: github.com/facette/natsort Compare (C09.Model.natsort_less) IS the non-strict part "<=" of a
   three-way comparison [nat_cmp3] of the chunk lists (chunks both numeric: by value; otherwise bytewise; a proper
   prefix first), and [nat_cmp3] is a total preorder on the clean domain: texts none of whose digit runs exceeds
   2^63-1 (so that strconv.Atoi succeeds on every digit chunk). *)
From Miller Require Import Base.Record C06.Model C11.Model C09.Model C09.Proofs.
Open Scope Z_scope.

(* ------------------------------------------------------------------ lexicographic three-way comparison of lists,
   a proper prefix first *)
Section Lcmp.
  Context {A : Type}.
  Variable c : A -> A -> Z.
  Fixpoint lcmp (la lb : list A) : Z :=
    match la, lb with
    | [], [] => 0
    | [], _ :: _ => -1
    | _ :: _, [] => 1
    | a :: ra, b :: rb => let r := c a b in if r <? 0 then -1 else if 0 <? r then 1 else lcmp ra rb
    end.

  Lemma lcmp_range la : forall lb, lcmp la lb = -1 \/ lcmp la lb = 0 \/ lcmp la lb = 1.
  Proof.
    induction la as [|a ra IH]; intros [|b rb]; cbn [lcmp]; auto. cbn zeta.
    destruct (c a b <? 0); auto. destruct (0 <? c a b); auto.
  Qed.

  Hypothesis c_refl : forall a, c a a = 0.
  Hypothesis c_sym : forall a b, c a b = - c b a.

  Lemma lcmp_refl la : lcmp la la = 0.
  Proof. induction la as [|a ra IH]; cbn [lcmp]; [reflexivity|]. cbn zeta. rewrite c_refl. cbn. exact IH. Qed.

  Lemma lcmp_sym la : forall lb, lcmp la lb = - lcmp lb la.
  Proof.
    induction la as [|a ra IH]; intros [|b rb]; cbn [lcmp]; try reflexivity. cbn zeta.
    rewrite (c_sym b a).
    destruct (Z.ltb_spec (c a b) 0), (Z.ltb_spec 0 (c a b)), (Z.ltb_spec (- c a b) 0), (Z.ltb_spec 0 (- c a b)); try lia.
    apply IH.
  Qed.

  Variable D : A -> Prop.
  Hypothesis c_trans : forall a b x, D a -> D b -> D x -> c a b <= 0 -> c b x <= 0 -> c a x <= 0.

  Lemma lcmp_trans la : forall lb lx, Forall D la -> Forall D lb -> Forall D lx ->
    lcmp la lb <= 0 -> lcmp lb lx <= 0 -> lcmp la lx <= 0.
  Proof.
    induction la as [|a ra IH]; intros [|b rb] [|x rx] Ha Hb Hx; cbn [lcmp]; try lia. cbn zeta.
    inversion Ha as [|? ? Da Ha']; subst. inversion Hb as [|? ? Db Hb']; subst. inversion Hx as [|? ? Dx Hx']; subst.
    pose proof (c_sym a b). pose proof (c_sym b x). pose proof (c_sym a x).
    pose proof (c_trans a b x Da Db Dx). pose proof (c_trans x b a Dx Db Da).
    pose proof (c_trans b x a Db Dx Da). pose proof (c_trans x a b Dx Da Db).
    pose proof (c_sym b a). pose proof (c_sym x b). pose proof (c_sym x a).
    destruct (Z.ltb_spec (c a b) 0), (Z.ltb_spec 0 (c a b)), (Z.ltb_spec (c b x) 0), (Z.ltb_spec 0 (c b x)),
             (Z.ltb_spec (c a x) 0), (Z.ltb_spec 0 (c a x)); try lia.
    apply IH; assumption.
  Qed.

  Lemma lcmp_preorder : total_preorder_on (Forall D) lcmp.
  Proof.
    split; [intros; apply lcmp_refl|]. split; [intros; apply lcmp_sym|].
    intros a b x. apply lcmp_trans.
  Qed.
End Lcmp.

(* ------------------------------------------------------------------ chunks *)
(* the comparison natsort makes between two chunks *)
Definition chunk_cmp3 (a b : bytes) : Z :=
  match chunk_num a, chunk_num b with
  | Some x, Some y => cmpZ x y
  | _, _ => lex_cmp a b
  end.
(* a chunk as chunkify produces it on the clean domain: non-empty; a digit chunk converts (strconv.Atoi succeeds) *)
Definition good_chunk (c : bytes) : bool :=
  match c with
  | [] => false
  | d :: _ => if is_dig d then match chunk_num c with Some _ => true | None => false end else true
  end.
Definition chunks_of (s : bytes) : list bytes := chunkify (List.length s) s.
Definition clean (s : bytes) : bool := forallb good_chunk (chunks_of s).
Definition nat_cmp3 (a b : bytes) : Z := lcmp chunk_cmp3 (chunks_of a) (chunks_of b).

(* first-byte class: 0 below '0' (and the empty chunk), 1 a digit, 2 above '9' *)
Definition cls (c : bytes) : Z :=
  match c with
  | [] => 0
  | d :: _ => if (code d <? 48)%N then 0 else if (code d <=? 57)%N then 1 else 2
  end.
Definition cval (c : bytes) : Z := match chunk_num c with Some v => v | None => 0 end.
Definition ccmp (a b : bytes) : Z :=
  if cls a <? cls b then -1 else if cls b <? cls a then 1
  else if cls a =? 1 then cmpZ (cval a) (cval b) else lex_cmp a b.

Lemma is_dig_cls d t : is_dig d = true <-> cls (d :: t) = 1.
Proof.
  unfold is_dig, in_range, cle, cls. change (code "0"%char) with 48%N. change (code "9"%char) with 57%N.
  rewrite andb_true_iff, !N.leb_le.
  destruct (N.ltb_spec (code d) 48), (N.leb_spec (code d) 57); split; intros; try lia; discriminate.
Qed.
Lemma cls_range c : 0 <= cls c <= 2.
Proof. destruct c as [|d t]; cbn [cls]; [lia|]. destruct (code d <? 48)%N; [lia|]. destruct (code d <=? 57)%N; lia. Qed.

Lemma lex_cls_lt a b : cls a < cls b -> lex_cmp a b = -1.
Proof.
  destruct a as [|x a], b as [|y b]; cbn [lex_cmp]; intros H; try reflexivity.
  - cbn [cls] in H. lia.
  - pose proof (cls_range (x :: a)). change (cls []) with 0 in H. lia.
  - cbn [cls] in H.
    destruct (N.ltb_spec (code x) 48), (N.leb_spec (code x) 57), (N.ltb_spec (code y) 48), (N.leb_spec (code y) 57); try lia;
      destruct (N.ltb_spec (code x) (code y)); try reflexivity; lia.
Qed.
Lemma lex_cls_gt a b : cls b < cls a -> lex_cmp a b = 1.
Proof. intros H. rewrite lex_sym, (lex_cls_lt b a H). reflexivity. Qed.

Lemma chunk_num_some_cls c v : chunk_num c = Some v -> cls c = 1.
Proof.
  destruct c as [|d t]; [discriminate|]. unfold chunk_num. destruct (is_dig d) eqn:E; [|discriminate].
  intros _. now apply is_dig_cls.
Qed.
Lemma good_cls1 c : good_chunk c = true -> cls c = 1 -> exists v, chunk_num c = Some v.
Proof.
  destruct c as [|d t]; [discriminate|]. intros Hg Hc. apply is_dig_cls in Hc. unfold good_chunk in Hg. rewrite Hc in Hg.
  destruct (chunk_num (d :: t)) as [v|]; [eauto|discriminate].
Qed.

Lemma chunk_cmp3_ccmp a b : good_chunk a = true -> good_chunk b = true -> chunk_cmp3 a b = ccmp a b.
Proof.
  intros Ga Gb. unfold chunk_cmp3, ccmp.
  destruct (Z.ltb_spec (cls a) (cls b)) as [H|H].
  - rewrite (lex_cls_lt a b H).
    destruct (chunk_num a) as [x|] eqn:Ea; [|reflexivity]. destruct (chunk_num b) as [y|] eqn:Eb; [|reflexivity].
    apply chunk_num_some_cls in Ea. apply chunk_num_some_cls in Eb. lia.
  - destruct (Z.ltb_spec (cls b) (cls a)) as [H'|H'].
    + rewrite (lex_cls_gt a b H').
      destruct (chunk_num a) as [x|] eqn:Ea; [|reflexivity]. destruct (chunk_num b) as [y|] eqn:Eb; [|reflexivity].
      apply chunk_num_some_cls in Ea. apply chunk_num_some_cls in Eb. lia.
    + destruct (Z.eqb_spec (cls a) 1) as [E|E].
      * destruct (good_cls1 a Ga E) as [x Ea]. destruct (good_cls1 b Gb ltac:(lia)) as [y Eb].
        unfold cval. rewrite Ea, Eb. reflexivity.
      * destruct (chunk_num a) as [x|] eqn:Ea; [apply chunk_num_some_cls in Ea; lia|reflexivity].
Qed.

Lemma ccmp_refl a : ccmp a a = 0.
Proof. unfold ccmp. rewrite Z.ltb_irrefl. destruct (cls a =? 1); [apply cmpZ_refl|apply lex_refl]. Qed.
Lemma ccmp_sym a b : ccmp a b = - ccmp b a.
Proof.
  unfold ccmp. destruct (Z.ltb_spec (cls a) (cls b)), (Z.ltb_spec (cls b) (cls a)); try lia; try reflexivity.
  assert (E : cls a = cls b) by lia. rewrite E. destruct (cls b =? 1); [apply cmpZ_sym|apply lex_sym].
Qed.
Lemma ccmp_trans a b x : ccmp a b <= 0 -> ccmp b x <= 0 -> ccmp a x <= 0.
Proof.
  unfold ccmp.
  destruct (Z.ltb_spec (cls a) (cls b)), (Z.ltb_spec (cls b) (cls a)), (Z.ltb_spec (cls b) (cls x)), (Z.ltb_spec (cls x) (cls b)),
           (Z.ltb_spec (cls a) (cls x)), (Z.ltb_spec (cls x) (cls a)); try lia.
  assert (E : cls a = cls b) by lia. assert (E' : cls b = cls x) by lia. rewrite E, E'.
  destruct (cls x =? 1); [rewrite !cmpZ_le; lia|apply lex_trans].
Qed.

Lemma chunk_cmp3_refl a : chunk_cmp3 a a = 0.
Proof. unfold chunk_cmp3. destruct (chunk_num a); [apply cmpZ_refl|apply lex_refl]. Qed.
Lemma chunk_cmp3_sym a b : chunk_cmp3 a b = - chunk_cmp3 b a.
Proof. unfold chunk_cmp3. destruct (chunk_num a), (chunk_num b); try apply lex_sym. apply cmpZ_sym. Qed.
Lemma chunk_cmp3_trans a b x : good_chunk a = true -> good_chunk b = true -> good_chunk x = true ->
  chunk_cmp3 a b <= 0 -> chunk_cmp3 b x <= 0 -> chunk_cmp3 a x <= 0.
Proof. intros Ga Gb Gx. rewrite !chunk_cmp3_ccmp by assumption. apply ccmp_trans. Qed.

(* ------------------------------------------------------------------ natsort.Compare is "<=" of nat_cmp3 *)
Lemma cmpZ_zero x y : cmpZ x y = 0 <-> x = y.
Proof. unfold cmpZ. destruct (Z.ltb_spec x y), (Z.ltb_spec y x); split; intros; try lia; discriminate. Qed.

Lemma nat_chunks_less_lcmp ca : forall cb, ca <> [] -> cb <> [] ->
  nat_chunks_less ca cb = (lcmp chunk_cmp3 ca cb <=? 0).
Proof.
  induction ca as [|a ra IH]; intros [|b rb] Ha Hb; try congruence.
  cbn [nat_chunks_less lcmp]. cbn zeta. unfold chunk_cmp3 at 1 2.
  destruct (chunk_num a) as [x|] eqn:Ea, (chunk_num b) as [y|] eqn:Eb.
  - unfold cmpZ. destruct (Z.eqb_spec x y) as [->|Hne].
    + rewrite Z.ltb_irrefl. cbn.
      destruct ra as [|a' ra']; [destruct rb; reflexivity|]. destruct rb as [|b' rb']; [reflexivity|].
      apply IH; congruence.
    + destruct (Z.ltb_spec x y); [reflexivity|]. destruct (Z.ltb_spec y x); [reflexivity|lia].
  - destruct (beqb_spec a b) as [->|Hne].
    + rewrite lex_refl. cbn.
      destruct ra as [|a' ra']; [destruct rb; reflexivity|]. destruct rb as [|b' rb']; [reflexivity|].
      apply IH; congruence.
    + pose proof (lex_range a b) as R. pose proof (lex_eq a b) as Q.
      destruct (Z.ltb_spec (lex_cmp a b) 0); [reflexivity|]. destruct (Z.ltb_spec 0 (lex_cmp a b)); [reflexivity|].
      exfalso. apply Hne, Q. lia.
  - destruct (beqb_spec a b) as [->|Hne].
    + rewrite lex_refl. cbn.
      destruct ra as [|a' ra']; [destruct rb; reflexivity|]. destruct rb as [|b' rb']; [reflexivity|].
      apply IH; congruence.
    + pose proof (lex_range a b) as R. pose proof (lex_eq a b) as Q.
      destruct (Z.ltb_spec (lex_cmp a b) 0); [reflexivity|]. destruct (Z.ltb_spec 0 (lex_cmp a b)); [reflexivity|].
      exfalso. apply Hne, Q. lia.
  - destruct (beqb_spec a b) as [->|Hne].
    + rewrite lex_refl. cbn.
      destruct ra as [|a' ra']; [destruct rb; reflexivity|]. destruct rb as [|b' rb']; [reflexivity|].
      apply IH; congruence.
    + pose proof (lex_range a b) as R. pose proof (lex_eq a b) as Q.
      destruct (Z.ltb_spec (lex_cmp a b) 0); [reflexivity|]. destruct (Z.ltb_spec 0 (lex_cmp a b)); [reflexivity|].
      exfalso. apply Hne, Q. lia.
Qed.

Lemma chunks_of_nil s : chunks_of s = [] <-> s = [].
Proof.
  unfold chunks_of. destruct s as [|c t]; [split; reflexivity|]. cbn [List.length chunkify].
  destruct (take_run (is_dig c) (c :: t)). split; discriminate.
Qed.

Lemma natsort_less_cmp3 a b : a <> [] -> b <> [] -> natsort_less a b = (nat_cmp3 a b <=? 0).
Proof.
  intros Ha Hb. unfold natsort_less, nat_cmp3. apply nat_chunks_less_lcmp; fold (chunks_of a); fold (chunks_of b); now rewrite chunks_of_nil.
Qed.

Lemma nat_cmp3_refl a : nat_cmp3 a a = 0.
Proof. apply lcmp_refl. exact chunk_cmp3_refl. Qed.
Lemma nat_cmp3_sym a b : nat_cmp3 a b = - nat_cmp3 b a.
Proof. apply lcmp_sym. exact chunk_cmp3_sym. Qed.
Lemma nat_cmp3_range a b : nat_cmp3 a b = -1 \/ nat_cmp3 a b = 0 \/ nat_cmp3 a b = 1.
Proof. apply lcmp_range. Qed.

Lemma nat_cmp3_preorder : total_preorder_on (fun a => clean a = true) nat_cmp3.
Proof.
  split; [intros; apply nat_cmp3_refl|]. split; [intros; apply nat_cmp3_sym|].
  intros a b x Ha Hb Hx. unfold nat_cmp3.
  apply (lcmp_trans chunk_cmp3 chunk_cmp3_sym (fun c => good_chunk c = true)).
  - intros a0 b0 x0 Ga Gb Gx. exact (chunk_cmp3_trans a0 b0 x0 Ga Gb Gx).
  - apply Forall_forall. apply forallb_forall. exact Ha.
  - apply Forall_forall. apply forallb_forall. exact Hb.
  - apply Forall_forall. apply forallb_forall. exact Hx.
Qed.

(* the empty text: no chunks, a proper prefix of everything *)
Lemma nat_cmp3_nil_l b : b <> [] -> nat_cmp3 [] b = -1.
Proof.
  intros Hb. unfold nat_cmp3. change (chunks_of []) with (@nil bytes).
  destruct (chunks_of b) eqn:E; [apply chunks_of_nil in E; congruence|reflexivity].
Qed.
Lemma nat_cmp3_nil_r a : a <> [] -> nat_cmp3 a [] = 1.
Proof. intros Ha. rewrite nat_cmp3_sym, nat_cmp3_nil_l by assumption. reflexivity. Qed.

(* ------------------------------------------------------------------ the verb's natural comparators ARE nat_cmp3 *)
Section Flags.
  Variable infer : bytes -> ival.
  Lemma nac_is_cmp3 a b : nac natsort_less a b = nat_cmp3 b a.
  Proof.
    unfold nac. destruct (beqb_spec a b) as [->|Hne]; [now rewrite nat_cmp3_refl|].
    destruct a as [|x a]; [destruct b as [|y b]; [congruence|]; now rewrite nat_cmp3_nil_r|].
    destruct b as [|y b]; [now rewrite nat_cmp3_nil_l|].
    rewrite !natsort_less_cmp3 by discriminate. cbn zeta.
    pose proof (nat_cmp3_sym (x :: a) (y :: b)) as S. pose proof (nat_cmp3_range (y :: b) (x :: a)) as R.
    destruct R as [R|[R|R]]; rewrite R in *; rewrite S; reflexivity.
  Qed.
  Lemma natural_flags_are_cmp3 a b :
    flag_cmp infer natsort_less Ft a b = nat_cmp3 a b /\ flag_cmp infer natsort_less Ftr a b = nat_cmp3 b a.
  Proof. cbn [flag_cmp]. now rewrite !nac_is_cmp3. Qed.

  Lemma natural_total_preorder :
    total_preorder_on (fun a => clean a = true) (flag_cmp infer natsort_less Ft)
    /\ total_preorder_on (fun a => clean a = true) (flag_cmp infer natsort_less Ftr).
  Proof.
    assert (E1 : forall a b, flag_cmp infer natsort_less Ft a b = nat_cmp3 a b) by (intros; apply natural_flags_are_cmp3).
    assert (E2 : forall a b, flag_cmp infer natsort_less Ftr a b = nat_cmp3 b a) by (intros; apply natural_flags_are_cmp3).
    destruct nat_cmp3_preorder as (Hr & Hs & Ht). split.
    - split; [intros; rewrite E1; auto|]. split; [intros; rewrite !E1; auto|]. intros a b x Ha Hb Hx. rewrite !E1. now apply Ht.
    - destruct (total_preorder_flip _ _ nat_cmp3_preorder) as (Fr' & Fs & Ft').
      split; [intros; rewrite E2; auto|]. split; [intros a b Ha Hb; rewrite !E2; now apply Fs|].
      intros a b x Ha Hb Hx. rewrite !E2. now apply Ft'.
  Qed.

  Variable exact : Z -> Prop.
  Hypothesis exact_mono : forall x y, exact x -> exact y -> x < y -> fkey (float_of_int x) < fkey (float_of_int y).
  (* the domain of all eight verb flags: numeric domain (integers exactly representable as doubles) and clean digit runs *)
  Definition sort_dom (a : bytes) : Prop := num_dom infer exact a /\ clean a = true.
  Definition verb_flags : list sflag := [Ff; Fr; Fc; Fcr; Fnf; Fnr; Ft; Ftr].

  Lemma verb_flag_preorder f : In f verb_flags -> total_preorder_on sort_dom (flag_cmp infer natsort_less f).
  Proof.
    intros Hin. cbn in Hin. destruct Hin as [<-|[<-|[<-|[<-|[<-|[<-|[<-|[<-|[]]]]]]]]];
      try (apply (total_preorder_weaken (num_dom infer exact)); [intros a [H _]; exact H|];
           apply (std_flag_preorder infer natsort_less exact exact_mono); cbn; tauto).
    - apply (total_preorder_weaken (fun a => clean a = true)); [intros a [_ H]; exact H|apply natural_total_preorder].
    - apply (total_preorder_weaken (fun a => clean a = true)); [intros a [_ H]; exact H|apply natural_total_preorder].
  Qed.
  Lemma verb_chain_preorder fl : (forall f, In f fl -> In f verb_flags) ->
    total_preorder_on (fun l => List.length l = List.length fl /\ Forall sort_dom l) (chain_cmp infer natsort_less fl).
  Proof. intros H. apply chain_preorder. intros f Hf. apply verb_flag_preorder. auto. Qed.
End Flags.
