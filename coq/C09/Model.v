(* C09 -- model of `mlr sort` (pkg/transformers/sort.go) and of the comparators of pkg/mlrval/mlrval_sort.go,
   mlrval_cmp.go.  Definitions only.

   sort.Slice (pdqsort) is NOT modelled as a function: it is unspecified on ties.  The model is a *specification*
   [sort_spec] of the acceptable outputs and a boolean checker [check_sort] (proved sound in Proofs.v) that the
   harness runs on the implementation's actual output.

   Field values are texts; their type is what the inferrer says (C06 model: int / float / empty / string --
   data read from files never has boolean type). *)
From Miller Require Export Base.Record.
From Miller Require Import C06.Model C11.Model C11.Checkers.
Open Scope Z_scope.

(* ------------------------------------------------------------------ comparators: -1 / 0 / 1 *)
Definition cmpZ (a b : Z) : Z := if a <? b then -1 else if b <? a then 1 else 0.

(* Go string comparison: bytewise lexicographic *)
Fixpoint lex_cmp (a b : bytes) : Z :=
  match a, b with
  | [], [] => 0
  | [], _ :: _ => -1
  | _ :: _, [] => 1
  | x :: a', y :: b' => if (code x <? code y)%N then -1 else if (code y <? code x)%N then 1 else lex_cmp a' b'
  end.

(* order-preserving key of a non-NaN binary64 bit pattern (sign-magnitude -> integer line; -0 and +0 coincide) *)
Definition fkey (bits : Z) : Z := if bits <? two63 then bits else - (bits - two63).

Section Comparators.
  Variable infer : bytes -> ival.                 (* type inference from data: C06 ginfer FDefault *)
  Variable nat_less : bytes -> bytes -> bool.     (* github.com/facette/natsort Compare: a parameter, no laws assumed *)

  (* mlrval.Cmp through cmp_dispositions, rows/columns INT FLOAT VOID STRING:
     numbers by value (int-int exactly, mixed through float64(int)), then void and string by text *)
  Definition num_cmp (a b : bytes) : Z :=
    match infer a, infer b with
    | VInt x, VInt y => cmpZ x y
    | VInt x, VFloat g => cmpZ (fkey (float_of_int x)) (fkey g)
    | VFloat f, VInt y => cmpZ (fkey f) (fkey (float_of_int y))
    | VFloat f, VFloat g => cmpZ (fkey f) (fkey g)
    | (VInt _ | VFloat _), _ => -1
    | _, (VInt _ | VFloat _) => 1
    | _, _ => lex_cmp a b
    end.

  (* CaseFoldAscendingComparator: strings.ToLower of every value's text, number-like ones included (since the repair of
     sort-c-does-not-fold-number-like-text; ASCII model of ToLower) *)
  Definition fold_text (s : bytes) : bytes := map lower s.
  Definition case_cmp (a b : bytes) : Z := lex_cmp (fold_text a) (fold_text b).

  (* NaturalAscendingComparator (which, despite its name, yields 1 when natsort says a <= b only).  natsort.Compare is a
     non-strict "<=": since the repair of natural-ties-hide-later-keys both directions are asked and distinct texts that
     natsort deems equal (01, 1) tie *)
  Definition nac (a b : bytes) : Z :=
    if beqb a b then 0
    else match a, b with
         | [], _ => 1
         | _, [] => -1
         | _, _ => let ab := nat_less a b in let ba := nat_less b a in
                   if ab && ba then 0 else if ab then 1 else -1
         end.

  (* Dc..Dtr: the callbacks of the DSL function sort(array, flags), pkg/dsl/cst/hofs.go sortACaseFold and sortANatural, where they differ *)
  Inductive sflag := Ff | Fr | Fc | Fcr | Fnf | Fnr | Ft | Ftr | Dc | Dcr | Dt | Dtr.
  (* natsort.Compare x x is true (it is not irreflexive); identical texts are taken as equal in the specification *)
  Definition nat3 (a b : bytes) : Z := if beqb a b then 0 else if nat_less a b then -1 else if nat_less b a then 1 else 0.
  Definition flag_cmp (f : sflag) (a b : bytes) : Z :=
    match f with
    | Ff => lex_cmp a b                 (* LexicalAscendingComparator *)
    | Fr => lex_cmp b a                 (* LexicalDescendingComparator *)
    | Fc => case_cmp a b
    | Fcr => case_cmp b a
    | Fnf => num_cmp a b                (* -n, -nf, "-n -f" *)
    | Fnr => - num_cmp a b              (* -nr, "-n -r" *)
    | Ft => nac b a                     (* -t  -> NaturalDescendingComparator = NaturalAscendingComparator(b, a) *)
    | Ftr => nac a b                    (* -tr / -rt / "-t -r" / "-r -t" -> NaturalAscendingComparator *)
    | Dc => lex_cmp (map lower a) (map lower b)     (* sortACaseFold: ToLower of every element's text *)
    | Dcr => lex_cmp (map lower b) (map lower a)
    | Dt => nat3 a b                    (* sortANatural: less(i,j) = natsort.Compare(a[i], a[j]) *)
    | Dtr => nat3 b a
    end.

  (* the sort.Slice callback: first key that differs decides *)
  Fixpoint chain_cmp (fl : list sflag) (a b : list bytes) : Z :=
    match fl, a, b with
    | f :: fl', x :: a', y :: b' => let r := flag_cmp f x y in
                                    if r <? 0 then -1 else if 0 <? r then 1 else chain_cmp fl' a' b'
    | _, _, _ => 0
    end.
  Definition less (fl : list sflag) (a b : list bytes) : bool := chain_cmp fl a b <? 0.

  (* ---------------------------------------------------------------- the verb *)
  Definition sort_keyf (ks : list (bytes * sflag)) : record -> option bytes := grouping_key (map fst ks).
  (* groupHeads: the values of the first record of the group *)
  Definition head_vals (ks : list (bytes * sflag)) (inp : list record) (g : bytes) : list bytes :=
    match group_of (sort_keyf ks) g inp with
    | r :: _ => match selected_values (map fst ks) r with Some vs => vs | None => [] end
    | [] => []
    end.
  Definition spill (ks : list (bytes * sflag)) (inp : list record) : list record :=
    filter (fun r => negb (has_key (sort_keyf ks) r)) inp.

  (* no later element is strictly less than an earlier one: what a comparison sort guarantees *)
  Fixpoint ordered_by {A} (lt : A -> A -> bool) (l : list A) : bool :=
    match l with
    | [] => true
    | x :: t => forallb (fun y => negb (lt y x)) t && ordered_by lt t
    end.

  (* acceptable outputs of `mlr sort ks` on inp, given the order gs in which the groups are emitted *)
  Definition sort_output (ks : list (bytes * sflag)) (inp : list record) (gs : list bytes) : list record :=
    flat_map (fun g => group_of (sort_keyf ks) g inp) gs ++ spill ks inp.

  (* "The sort is stable" (reference-verbs; sort.SliceStable over the group heads, which are in first-appearance
     order): groups whose heads compare equal under the whole flag chain stay in first-appearance order. *)
  Fixpoint index_of (g : bytes) (l : list bytes) : nat :=
    match l with [] => O | x :: t => if beqb g x then O else S (index_of g t) end.
  Fixpoint stable_by (eqv : bytes -> bytes -> bool) (pos : bytes -> nat) (l : list bytes) : bool :=
    match l with
    | [] => true
    | x :: t => forallb (fun y => negb (eqv x y) || (pos x <? pos y)%nat) t && stable_by eqv pos t
    end.
  Definition check_stable (ks : list (bytes * sflag)) (inp out : list record) : bool :=
    let keyf := sort_keyf ks in
    stable_by (fun g h => chain_cmp (map snd ks) (head_vals ks inp g) (head_vals ks inp h) =? 0)
              (fun g => index_of g (dkeys keyf inp)) (dkeys keyf out).

  Definition check_sort (ks : list (bytes * sflag)) (inp out : list record) : bool :=
    let keyf := sort_keyf ks in
    let gs := dkeys keyf out in
    records_eqb out (sort_output ks inp gs)
    && (List.length gs =? List.length (dkeys keyf inp))%nat
    && forallb (fun g => mem g gs) (dkeys keyf inp)
    && ordered_by (fun g h => less (map snd ks) (head_vals ks inp g) (head_vals ks inp h)) gs
    && check_stable ks inp out.

  (* What sort.SliceStable guarantees WHATEVER the callback (natural-order keys: the callback need not be a strict weak
     order, C09_natural_transitive_refuted): on at most 20 elements it is a plain insertion sort (sort.stable: blockSize 20),
     which never leaves an element strictly less than its immediate predecessor. *)
  Fixpoint adjacent_by {A} (lt : A -> A -> bool) (l : list A) : bool :=
    match l with
    | x :: t => match t with y :: _ => negb (lt y x) | [] => true end && adjacent_by lt t
    | [] => true
    end.
  Definition check_sort_adj (ks : list (bytes * sflag)) (inp out : list record) : bool :=
    let keyf := sort_keyf ks in
    let gs := dkeys keyf out in
    records_eqb out (sort_output ks inp gs)
    && (List.length gs =? List.length (dkeys keyf inp))%nat
    && forallb (fun g => mem g gs) (dkeys keyf inp)
    && adjacent_by (fun g h => less (map snd ks) (head_vals ks inp g) (head_vals ks inp h)) gs.

  (* sort.SliceStable on n <= 20 elements IS insertionSort_func (sort/zsortfunc.go: stable_func, blockSize 20):
       for i := a+1; i < b; i++ { for j := i; j > a && less(j, j-1); j-- { swap(j, j-1) } }
     -- a function of the callback alone, strict weak order or not.  [ins_rev] inserts into the reversed sorted prefix. *)
  Fixpoint ins_rev {A} (lt : A -> A -> bool) (x : A) (rp : list A) : list A :=
    match rp with
    | [] => [x]
    | y :: rp' => if lt x y then y :: ins_rev lt x rp' else x :: rp
    end.
  Definition isort {A} (lt : A -> A -> bool) (l : list A) : list A := rev (fold_left (fun rp x => ins_rev lt x rp) l []).
  (* the verb as a function, for at most 20 distinct groups *)
  Definition sort_model (ks : list (bytes * sflag)) (inp : list record) : list record :=
    sort_output ks inp (isort (fun g h => less (map snd ks) (head_vals ks inp g) (head_vals ks inp h)) (dkeys (sort_keyf ks) inp)).

  (* DSL sort(array, flags | function): elements are single-field records (name, value); equal-comparing elements may
     come out in any order, so there is no grouping: permutation + no later element strictly less than an earlier one *)
  Definition field_val (name : bytes) (r : record) : bytes := match get name r with Some v => v | None => [] end.
  Definition check_array_sort (name : bytes) (f : sflag) (inp out : list record) : bool :=
    perm_b inp out && ordered_by (fun r s => flag_cmp f (field_val name r) (field_val name s) <? 0) out.

  (* ---------------------------------------------------------------- top -n k -f x [-g fs] -a [--min]
     (pkg/transformers/top.go + utils/top_keeper.go).  The keeper's binary-search insertion is not modelled; the
     checker below is run on the implementation's output.  Records lacking the value field or a group-by field are
     ignored; groups come out in first-appearance order; of each group the k records with the largest (--min:
     smallest) value under the numeric collation, best first. *)
  Definition top_keyf (x : bytes) (fs : list bytes) (r : record) : option bytes :=
    if has x r then grouping_key fs r else None.
  Definition top_cmp (domax : bool) (x : bytes) (r s : record) : Z :=
    let c := num_cmp (field_val x r) (field_val x s) in if domax then c else - c.      (* > 0: r is better than s *)
  Definition check_top_group (domax : bool) (k : Z) (x : bytes) (G O : list record) : bool :=
    match msub O G with
    | None => false
    | Some rest =>
      (Z.of_nat (List.length O) =? Z.min k (Z.of_nat (List.length G)))
      && ordered_by (fun r s => 0 <? top_cmp domax x r s) O            (* no later record strictly better than an earlier one *)
      && forallb (fun r => forallb (fun o => negb (0 <? top_cmp domax x r o)) O) rest    (* nothing left out is strictly better *)
    end.
  Definition check_top (domax : bool) (k : Z) (x : bytes) (fs : list bytes) (inp out : list record) : bool :=
    let keyf := top_keyf x fs in
    records_eqb out (flat_map (fun g => group_of keyf g out) (dkeys keyf inp))
    && forallb (has_key keyf) out
    && forallb (fun g => check_top_group domax k x (group_of keyf g inp) (group_of keyf g out)) (dkeys keyf inp).
End Comparators.

(* ------------------------------------------------------------------ github.com/facette/natsort Compare, modelled:
   chunks = maximal runs of ASCII digits / non-digits (regexp (\d+|\D+), RE2: \d is [0-9] only, \D any other byte incl.
   newline); two chunks compare as integers when strconv.Atoi succeeds on BOTH (a digit run whose value exceeds
   2^63-1 makes Atoi fail with a range error; leading zeros are harmless), otherwise bytewise. *)
Definition is_dig (c : ascii) : bool := in_range "0" "9" c.
Fixpoint take_run (d : bool) (s : bytes) : bytes * bytes :=
  match s with
  | [] => ([], [])
  | c :: t => if Bool.eqb (is_dig c) d then let '(r, rest) := take_run d t in (c :: r, rest) else ([], s)
  end.
Fixpoint chunkify (fuel : nat) (s : bytes) : list bytes :=
  match fuel, s with
  | S f, c :: _ => let '(r, rest) := take_run (is_dig c) s in r :: chunkify f rest
  | _, _ => []
  end.
Definition chunk_num (c : bytes) : option Z :=
  match c with
  | d :: _ => if is_dig d
              then let v := fold_left (fun acc x => acc * 10 + (Z.of_N (code x) - 48)) c 0 in
                   if v <? 2 ^ 63 then Some v else None          (* strconv.Atoi: ErrRange beyond int64 *)
              else None
  | [] => None
  end.
Fixpoint nat_chunks_less (ca cb : list bytes) : bool :=
  match ca, cb with
  | a :: ra, b :: rb =>
    let both := match chunk_num a, chunk_num b with Some x, Some y => Some (x, y) | _, _ => None end in
    let equal := match both with Some (x, y) => x =? y | None => beqb a b end in
    if equal then match ra, rb with
                  | [], _ => true
                  | _, [] => false
                  | _, _ => nat_chunks_less ra rb
                  end
    else match both with Some (x, y) => x <? y | None => lex_cmp a b <? 0 end
  | _, _ => false
  end.
Definition natsort_less (a b : bytes) : bool :=
  nat_chunks_less (chunkify (List.length a) a) (chunkify (List.length b) b).

(* ------------------------------------------------------------------ sort-within-records (no options):
   fields in lexically ascending key order *)
Fixpoint insert_field (f : field) (r : record) : record :=
  match r with
  | [] => [f]
  | g :: t => if lex_cmp (fst f) (fst g) <=? 0 then f :: g :: t else g :: insert_field f t
  end.
Definition sort_within_record (r : record) : record := fold_right insert_field [] r.
