(* C09 -- sort-within-records (C09/WithinModel.v): theorems *)
From Miller Require Import Base.Record C09.Model C09.Proofs C09.StableSort C09.WithinModel.
From Coq Require Import Permutation.
Open Scope Z_scope.

(* ---- induction principle through the nested lists *)
Section JvInd.
  Variable P : jv -> Prop.
  Hypothesis HS : forall s, P (JS s).
  Hypothesis HA : forall l, P (JA l).
  Hypothesis HM : forall m, Forall (fun e => P (snd e)) m -> P (JM m).
  Fixpoint jv_ind2 (v : jv) : P v :=
    match v with
    | JS s => HS s
    | JA l => HA l
    | JM m => HM m ((fix go (m : list (bytes * jv)) : Forall (fun e => P (snd e)) m :=
                       match m with
                       | [] => Forall_nil _
                       | e :: t => Forall_cons e (jv_ind2 (snd e)) (go t)
                       end) m)
    end.
End JvInd.

(* ---- leaves with their paths: what "every value unchanged" means for nested records *)
Fixpoint jflat (v : jv) : list (list bytes * jv) :=
  match v with
  | JM m => flat_map (fun e => map (fun pl => (fst e :: fst pl, snd pl)) (jflat (snd e))) m
  | _ => [([], v)]
  end.

Lemma flat_map_perm_pointwise {A B} (f g : A -> list B) l :
  Forall (fun x => Permutation (f x) (g x)) l -> Permutation (flat_map f l) (flat_map g l).
Proof. induction 1 as [|x t Hx Ht IH]; cbn [flat_map]; [reflexivity|]. now apply Permutation_app. Qed.

(* every (path, leaf) pair is kept, for ANY callback (natural order included) *)
Theorem jsort_keeps_leaves lt v : Permutation (jflat (jsort lt v)) (jflat v).
Proof.
  induction v as [s|l|m IH] using jv_ind2; try reflexivity.
  cbn [jsort jflat]. unfold sort_fields.
  rewrite (Permutation_flat_map _ (isort_perm_any (key_lt lt) (map (fun e => (fst e, jsort lt (snd e))) m))).
  rewrite flat_map_concat_map, map_map, <- flat_map_concat_map. cbn [fst snd].
  apply flat_map_perm_pointwise. eapply Forall_impl; [|exact IH]. cbn beta. intros e He. now apply Permutation_map.
Qed.

(* ascending at every level *)
Inductive jsorted : jv -> Prop :=
| jsorted_s s : jsorted (JS s)
| jsorted_a l : jsorted (JA l)
| jsorted_m m : ForallOrdPairs (fun e f => lex_cmp (fst e) (fst f) <= 0) m -> Forall (fun e => jsorted (snd e)) m -> jsorted (JM m).

Lemma lex_lt_asym a b : lex_lt a b = true -> lex_lt b a = false.
Proof. unfold lex_lt. rewrite (lex_sym b a). intros H. apply Z.ltb_lt in H. apply Z.ltb_ge. lia. Qed.
Lemma lex_lt_negtrans a b c : lex_lt b a = false -> lex_lt c b = false -> lex_lt c a = false.
Proof.
  unfold lex_lt. rewrite !Z.ltb_ge. intros H1 H2. rewrite (lex_sym b a) in H1. rewrite (lex_sym c b) in H2. rewrite (lex_sym c a).
  assert (lex_cmp a c <= 0); [|lia]. apply (lex_trans a b c); lia.
Qed.

Lemma FOP_true {A} (l : list A) : ForallOrdPairs (fun _ _ => True) l.
Proof. induction l; constructor; [apply Forall_forall; auto|assumption]. Qed.

Lemma sort_fields_lex_sorted {V} (m : list (bytes * V)) :
  ForallOrdPairs (fun e f => lex_cmp (fst e) (fst f) <= 0) (sort_fields lex_lt m) /\ Permutation (sort_fields lex_lt m) m.
Proof.
  destruct (isort_stable_sorted (key_lt lex_lt) (fun _ _ => True) (fun _ : bytes * V => True)
              (fun a b _ _ => lex_lt_asym (fst a) (fst b)) (fun a b c _ _ _ => lex_lt_negtrans (fst a) (fst b) (fst c)) m) as [Hp Hf].
  - apply Forall_forall. auto.
  - apply FOP_true.
  - split; [|exact Hp]. eapply FOP_impl; [|exact Hf]. intros e f [H _]. unfold key_lt, lex_lt in H. apply Z.ltb_ge in H.
    rewrite (lex_sym (fst e) (fst f)). lia.
Qed.

Theorem jsort_lex_sorted v : jsorted (jsort lex_lt v).
Proof.
  induction v as [s|l|m IH] using jv_ind2; try constructor.
  - apply sort_fields_lex_sorted.
  - destruct (sort_fields_lex_sorted (map (fun e => (fst e, jsort lex_lt (snd e))) m)) as [_ Hp].
    apply Forall_forall. intros e He. apply (Permutation_in _ Hp) in He. apply in_map_iff in He. destruct He as (e0 & <- & He0).
    rewrite Forall_forall in IH. exact (IH e0 He0).
Qed.

(* the verb: selected fields first (sorted), the others after them in record order; nothing lost *)
Theorem swr_model_perm nat_less recurse natural names r :
  Permutation (swr_model nat_less recurse natural (Some names) r) r.
Proof.
  unfold swr_model, sort_fields. rewrite isort_perm_any. apply filter_partition_perm.
Qed.
Theorem swr_model_top_level nat_less natural r :
  Permutation (swr_model nat_less false natural None r) r
  /\ Permutation (swr_model nat_less true natural None r) (map (fun e => (fst e, jsort (if natural then nat_less else lex_lt) (snd e))) r).
Proof. unfold swr_model, jsort_rec, sort_fields. split; apply isort_perm_any. Qed.
Theorem swr_model_recursive_sorted nat_less r : jsorted (JM (swr_model nat_less true false None r)).
Proof. exact (jsort_lex_sorted (JM r)). Qed.
Theorem swr_model_recursive_keeps_leaves nat_less natural r :
  Permutation (jflat (JM (swr_model nat_less true natural None r))) (jflat (JM r)).
Proof. exact (jsort_keeps_leaves (if natural then nat_less else lex_lt) (JM r)). Qed.
