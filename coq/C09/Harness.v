(* C09 correspondence harness.  The verified checker [check_sort] (C09/Proofs.v: check_sort_sound) is RUN ON THE
   IMPLEMENTATION'S OUTPUT; inference is the C06 model instantiated with the digit tables regenerated from /repo. *)
From Miller Require Import Base.Record C06.Model C06.Harness C11.Model C09.Model C09.WithinModel.
Open Scope Z_scope.

Definition flag_of_code (z : Z) : sflag :=
  if z =? 0 then Ff else if z =? 1 then Fr else if z =? 2 then Fc else if z =? 3 then Fcr
  else if z =? 4 then Fnf else if z =? 5 then Fnr else if z =? 6 then Ft else if z =? 7 then Ftr
  else if z =? 8 then Dc else if z =? 9 then Dcr else if z =? 10 then Dt else Dtr.

Definition dinfer := ginfer FDefault.

(* kind 0: sort verb / DSL sort(array): the checker.  kind 1: the documentation's stability claim.
   kind 2: sort-within-records: model output = observed output.  kind 3: DSL sort(array, ...): array checker.
   kind 5: sort verb with natural-order keys outside the clean domain: the weak checker (adjacent pairs)
   and, the harness sending at most 20 groups, output = the verb model [sort_model] (insertion sort by the modelled callback).
   kind 6: as kind 0, and output = [sort_model] (at most 20 groups). *)
Definition case := (Z * list (bytes * Z) * list record * list record)%type.
Definition chk (c : case) : bool :=
  let '(kind, ks, inp, out) := c in
  let ks' := map (fun p => (fst p, flag_of_code (snd p))) ks in
  if kind =? 0 then check_sort dinfer natsort_less ks' inp out
  else if kind =? 1 then check_stable dinfer natsort_less ks' inp out
  else if kind =? 5 then check_sort_adj dinfer natsort_less ks' inp out && records_eqb out (sort_model dinfer natsort_less ks' inp)
  else if kind =? 6 then check_sort dinfer natsort_less ks' inp out && records_eqb out (sort_model dinfer natsort_less ks' inp)
  else if kind =? 3 then match ks' with
                         | (name, f) :: _ => check_array_sort dinfer natsort_less name f inp out
                         | [] => false
                         end
  else if kind =? 4 then    (* top -a: ks = [(x, domax); (k-as-decimal-text, _); group-by names ...] *)
    match ks with
    | (x, mx) :: (kt, _) :: g => match C06.Model.parse_int 10 kt with
                                 | Some k => check_top dinfer (negb (mx =? 0)) k x (map fst g) inp out
                                 | None => false
                                 end
    | _ => false
    end
  else records_eqb (map sort_within_record inp) out.

(* sort-within-records with options on nested (JSON) records: flags bit 0 = -r (recursive), bit 1 = -n (natural);
   sel = the -f names.  The model's output must EQUAL mlr's. *)
Definition jcase := (Z * option (list bytes) * list jrec * list jrec)%type.
Definition chk_j (c : jcase) : bool :=
  let '(fl, sel, inp, out) := c in
  jrecs_eqb (map (swr_model natsort_less (Z.odd fl) (Z.odd (fl / 2)) sel) inp) out.
