(* C09 -- stable sorting, abstractly.  sort.SliceStable is not modelled beyond its insertion-sort blocks (symMerge);
   instead: the stable sorted permutation of a list under a strict weak order is UNIQUE ([stable_sorted_unique]), so
   EVERY function that meets the contract of sort.SliceStable ("sorts ... keeping equal elements in their original
   order") returns the same list as insertion sort ([isort], C09.Model) and as the merge-sort model [msort] below,
   both of which are proved to meet the contract for lists of ANY length. *)
From Miller Require Import Base.Record C09.Model C09.Proofs.
From Coq Require Import Permutation.
Open Scope Z_scope.

(* ------------------------------------------------------------------ ForallOrdPairs toolkit *)
Lemma FOP_app {A} (P : A -> A -> Prop) l1 l2 :
  ForallOrdPairs P (l1 ++ l2) <-> ForallOrdPairs P l1 /\ ForallOrdPairs P l2 /\ (forall x y, In x l1 -> In y l2 -> P x y).
Proof.
  induction l1 as [|a t IH]; cbn [app].
  - split; [intros H; repeat split; [constructor|exact H|intros x y []]|tauto].
  - split.
    + intros H. inversion H as [|? ? Ha Ht]; subst. apply IH in Ht. destruct Ht as (H1 & H2 & H3).
      rewrite Forall_forall in Ha. repeat split; [constructor; [apply Forall_forall; intros; apply Ha, in_or_app; auto|exact H1]|exact H2|].
      intros x y [<-|Hx] Hy; [apply Ha, in_or_app; auto|auto].
    + intros (H1 & H2 & H3). inversion H1 as [|? ? Ha Ht]; subst. constructor.
      * apply Forall_forall. intros y Hy. apply in_app_or in Hy. destruct Hy as [Hy|Hy]; [rewrite Forall_forall in Ha; auto|apply H3; cbn; auto].
      * apply IH. repeat split; auto. intros x y Hx Hy. apply H3; cbn; auto.
Qed.
Lemma FOP_rev {A} (P : A -> A -> Prop) l : ForallOrdPairs P (rev l) <-> ForallOrdPairs (fun x y => P y x) l.
Proof.
  induction l as [|a t IH]; cbn [rev]; [split; constructor|].
  rewrite FOP_app, IH. split.
  - intros (H1 & _ & H3). constructor; [|exact H1]. apply Forall_forall. intros y Hy. apply H3; [now apply in_rev in Hy|cbn; auto].
  - intros H. inversion H as [|? ? Ha Ht]; subst. repeat split; [exact Ht|repeat constructor|].
    intros x y Hx [<-|[]]. rewrite Forall_forall in Ha. apply Ha. now apply in_rev.
Qed.
Lemma FOP_In {A} (P : A -> A -> Prop) a t : ForallOrdPairs P (a :: t) -> forall y, In y t -> P a y.
Proof. intros H y Hy. inversion H as [|? ? Ha _]; subst. rewrite Forall_forall in Ha. auto. Qed.
Lemma FOP_tail {A} (P : A -> A -> Prop) a t : ForallOrdPairs P (a :: t) -> ForallOrdPairs P t.
Proof. intros H. now inversion H. Qed.
Lemma FOP_cons_intro {A} (P : A -> A -> Prop) a t : (forall y, In y t -> P a y) -> ForallOrdPairs P t -> ForallOrdPairs P (a :: t).
Proof. intros H Ht. constructor; [now apply Forall_forall|exact Ht]. Qed.

Section Stable.
  Context {A : Type}.
  Variable lt : A -> A -> bool.        (* the callback: less *)
  Variable before : A -> A -> Prop.    (* x arrived before y (the verb: smaller index in the first-appearance list) *)
  Variable D : A -> Prop.              (* the elements on which the callback is a strict weak order *)
  Hypothesis lt_asym : forall a b, D a -> D b -> lt a b = true -> lt b a = false.
  (* "not less" is transitive: a <= b -> b <= c -> a <= c *)
  Hypothesis lt_negtrans : forall a b c, D a -> D b -> D c -> lt b a = false -> lt c b = false -> lt c a = false.

  (* x may stand before y: y is not less than x, and if they are equivalent x arrived first *)
  Definition may_precede (x y : A) : Prop := lt y x = false /\ (lt x y = false -> before x y).
  (* the contract of a stable sort of l (whose elements arrive in the order of l) *)
  Definition stable_sorted (l out : list A) : Prop := Permutation out l /\ ForallOrdPairs may_precede out.
  Definition arrival_ordered (l : list A) : Prop := ForallOrdPairs before l.

  (* ---- uniqueness *)
  Hypothesis before_asym : forall x y, before x y -> before y x -> False.
  Lemma may_precede_asym x y : D x -> D y -> may_precede x y -> may_precede y x -> False.
  Proof.
    intros Dx Dy [H1 H2] [H3 H4]. specialize (H2 H3). specialize (H4 H1). eauto.
  Qed.
  Lemma stable_sorted_unique_aux o1 : forall o2, Forall D o1 -> Permutation o1 o2 ->
    ForallOrdPairs may_precede o1 -> ForallOrdPairs may_precede o2 -> o1 = o2.
  Proof.
    induction o1 as [|a t1 IH]; intros o2 Hd Hp F1 F2.
    - apply Permutation_nil in Hp. now subst.
    - destruct o2 as [|b t2]; [symmetry in Hp; apply Permutation_nil in Hp; discriminate|].
      assert (E : a = b).
      { assert (Ha : In a (b :: t2)) by (eapply Permutation_in; [exact Hp|cbn; auto]).
        assert (Hb : In b (a :: t1)) by (eapply Permutation_in; [symmetry; exact Hp|cbn; auto]).
        destruct Ha as [Ha|Ha]; [now subst|]. destruct Hb as [Hb|Hb]; [now subst|].
        exfalso. rewrite Forall_forall in Hd. apply (may_precede_asym a b).
        - apply Hd. cbn. auto.
        - apply Hd. cbn. auto.
        - apply (FOP_In _ _ _ F1). exact Hb.
        - apply (FOP_In _ _ _ F2). exact Ha. }
      subst b. f_equal. apply IH.
      + now inversion Hd.
      + eapply Permutation_cons_inv. exact Hp.
      + eapply FOP_tail; eauto.
      + eapply FOP_tail; eauto.
  Qed.
  Theorem stable_sorted_unique l o1 o2 : Forall D l -> stable_sorted l o1 -> stable_sorted l o2 -> o1 = o2.
  Proof.
    intros Hd [P1 F1] [P2 F2]. apply stable_sorted_unique_aux; auto.
    - apply Forall_forall. intros x Hx. rewrite Forall_forall in Hd. apply Hd. exact (Permutation_in x P1 Hx).
    - etransitivity; [exact P1|symmetry; exact P2].
  Qed.

  (* ---- insertion sort (sort.SliceStable on at most 20 elements; here: any length) *)
  Lemma ins_rev_In x rp z : In z (ins_rev lt x rp) <-> z = x \/ In z rp.
  Proof.
    induction rp as [|y rp' IH]; cbn [ins_rev].
    - cbn. intuition.
    - destruct (lt x y); cbn [In]; [rewrite IH|]; intuition.
  Qed.
  Lemma ins_rev_perm x rp : Permutation (ins_rev lt x rp) (x :: rp).
  Proof.
    induction rp as [|y rp' IH]; cbn [ins_rev]; [reflexivity|].
    destruct (lt x y); [|reflexivity]. etransitivity; [apply perm_skip, IH|apply perm_swap].
  Qed.
  (* the reversed sorted prefix: a before b in rp means b is earlier in the output *)
  Definition rp_ok (rp : list A) : Prop := ForallOrdPairs (fun a b => may_precede b a) rp.
  Lemma ins_rev_ok x rp : D x -> Forall D rp -> (forall b, In b rp -> before b x) -> rp_ok rp -> rp_ok (ins_rev lt x rp).
  Proof.
    intros Dx. induction rp as [|y rp' IH]; intros Hd Hpos Hok; cbn [ins_rev].
    - apply FOP_cons_intro; [intros ? []|constructor].
    - inversion Hd as [|? ? Dy Hd']; subst. pose proof Hd' as Hd''. rewrite Forall_forall in Hd''.
      destruct (lt x y) eqn:E.
      + apply FOP_cons_intro.
        * intros z Hz. apply ins_rev_In in Hz. destruct Hz as [->|Hz].
          -- split; [exact (lt_asym x y Dx Dy E)|]. intros H. rewrite E in H. discriminate.
          -- exact (FOP_In _ _ _ Hok z Hz).
        * apply IH; [exact Hd'|intros b Hb; apply Hpos; cbn; auto|eapply FOP_tail; eauto].
      + apply FOP_cons_intro; [|exact Hok].
        intros z [<-|Hz].
        * split; [exact E|]. intros _. apply Hpos. cbn. auto.
        * split.
          -- destruct (FOP_In _ _ _ Hok z Hz) as [H1 _]. apply (lt_negtrans z y x); auto.
          -- intros _. apply Hpos. cbn. auto.
  Qed.

  Lemma isort_fold_ok l : forall rp, Forall D l -> Forall D rp -> arrival_ordered l ->
    (forall b x, In b rp -> In x l -> before b x) -> rp_ok rp ->
    let rp' := fold_left (fun rp x => ins_rev lt x rp) l rp in
    rp_ok rp' /\ Permutation rp' (rev l ++ rp).
  Proof.
    induction l as [|x t IH]; intros rp Hl Hr Ha Hc Hok; cbn [fold_left rev app].
    - split; [exact Hok|reflexivity].
    - inversion Hl as [|? ? Dx Hl']; subst.
      assert (Hr' : Forall D (ins_rev lt x rp)).
      { apply Forall_forall. intros z Hz. apply ins_rev_In in Hz. destruct Hz as [->|Hz]; [exact Dx|]. rewrite Forall_forall in Hr. auto. }
      destruct (IH (ins_rev lt x rp) Hl' Hr' (FOP_tail _ _ _ Ha)) as [H1 H2].
      + intros b y Hb Hy. apply ins_rev_In in Hb. destruct Hb as [->|Hb]; [exact (FOP_In _ _ _ Ha y Hy)|apply Hc; cbn; auto].
      + apply ins_rev_ok; auto. intros b Hb. apply Hc; cbn; auto.
      + split; [exact H1|]. cbn zeta in H2. rewrite H2. rewrite <- app_assoc. cbn [app].
        apply Permutation_app_head. apply ins_rev_perm.
  Qed.

  Theorem isort_stable_sorted l : Forall D l -> arrival_ordered l -> stable_sorted l (isort lt l).
  Proof.
    intros Hl Ha. unfold isort.
    destruct (isort_fold_ok l [] Hl (Forall_nil _) Ha) as [H1 H2]; [intros b x []|constructor|].
    cbn zeta in H1, H2. rewrite app_nil_r in H2. split.
    - rewrite <- (Permutation_rev (fold_left _ l [])). rewrite H2. symmetry. apply Permutation_rev.
    - apply FOP_rev. exact H1.
  Qed.

  (* isort returns a permutation WHATEVER the callback (inconsistent user comparators included) *)
  Theorem isort_perm_any l : Permutation (isort lt l) l.
  Proof.
    unfold isort. rewrite <- Permutation_rev.
    assert (H : forall rp, Permutation (fold_left (fun rp x => ins_rev lt x rp) l rp) (l ++ rp)).
    { induction l as [|x t IH]; intros rp; cbn [fold_left app]; [reflexivity|].
      rewrite IH. rewrite ins_rev_perm. symmetry. apply Permutation_middle. }
    rewrite H. now rewrite app_nil_r.
  Qed.

  (* ---- a merge sort model (top-down, stable: the right run's head is taken only when strictly less) *)
  Fixpoint merge (l1 : list A) : list A -> list A :=
    fix merge_aux (l2 : list A) : list A :=
      match l1, l2 with
      | [], _ => l2
      | _, [] => l1
      | x :: t1, y :: t2 => if lt y x then y :: merge_aux t2 else x :: merge t1 l2
      end.
  Fixpoint msort (fuel : nat) (l : list A) : list A :=
    match fuel with
    | O => l
    | S f => match l with
             | [] | [_] => l
             | _ => let h := Nat.div2 (List.length l) in merge (msort f (firstn h l)) (msort f (skipn h l))
             end
    end.

  Lemma merge_perm l1 : forall l2, Permutation (merge l1 l2) (l1 ++ l2).
  Proof.
    induction l1 as [|x t1 IH1]; intros l2.
    - destruct l2; reflexivity.
    - induction l2 as [|y t2 IH2]; [cbn; now rewrite app_nil_r|].
      cbn [merge]. destruct (lt y x).
      + etransitivity; [apply perm_skip; exact IH2|]. apply (Permutation_middle (x :: t1) t2 y).
      + cbn [app]. apply perm_skip. apply IH1.
  Qed.
  Lemma merge_In l1 l2 z : In z (merge l1 l2) <-> In z l1 \/ In z l2.
  Proof.
    split.
    - intros H. apply in_app_or. eapply Permutation_in; [apply merge_perm|exact H].
    - intros H. eapply Permutation_in; [symmetry; apply merge_perm|]. now apply in_or_app.
  Qed.
  Lemma merge_ok l1 : forall l2, Forall D l1 -> Forall D l2 ->
    ForallOrdPairs may_precede l1 -> ForallOrdPairs may_precede l2 ->
    (forall a b, In a l1 -> In b l2 -> before a b) -> ForallOrdPairs may_precede (merge l1 l2).
  Proof.
    induction l1 as [|x t1 IH1]; intros l2 D1 D2 F1 F2 Hc.
    - destruct l2; exact F2.
    - induction l2 as [|y t2 IH2]; [exact F1|].
      inversion D1 as [|? ? Dx D1']; subst. inversion D2 as [|? ? Dy D2']; subst.
      pose proof D1' as E1. pose proof D2' as E2. rewrite Forall_forall in E1, E2.
      cbn [merge]. destruct (lt y x) eqn:E.
      + apply FOP_cons_intro.
        * intros z Hz. change (In z (merge (x :: t1) t2)) in Hz. apply merge_In in Hz. destruct Hz as [[<-|Hz]|Hz].
          -- split; [exact (lt_asym y x Dy Dx E)|]. intros H. rewrite E in H. discriminate.
          -- destruct (FOP_In _ _ _ F1 z Hz) as [G1 _].
             assert (L : lt y z = true).
             { destruct (lt y z) eqn:L; [reflexivity|]. rewrite (lt_negtrans x z y Dx (E1 z Hz) Dy G1 L) in E. discriminate. }
             split; [exact (lt_asym y z Dy (E1 z Hz) L)|]. intros H. rewrite L in H. discriminate.
          -- exact (FOP_In _ _ _ F2 z Hz).
        * apply IH2; [exact D2'|eapply FOP_tail; eauto|]. intros a b Ha Hb. apply Hc; cbn; auto.
      + apply FOP_cons_intro.
        * intros z Hz. apply merge_In in Hz. destruct Hz as [Hz|[<-|Hz]].
          -- exact (FOP_In _ _ _ F1 z Hz).
          -- split; [exact E|]. intros _. apply Hc; cbn; auto.
          -- destruct (FOP_In _ _ _ F2 z Hz) as [G1 _]. split.
             ++ apply (lt_negtrans x y z); auto.
             ++ intros _. apply Hc; cbn; auto.
        * apply IH1; [exact D1'|exact D2|eapply FOP_tail; eauto|exact F2|]. intros a b Ha Hb. apply Hc; cbn; auto.
  Qed.

  Lemma arrival_ordered_split l h : arrival_ordered l ->
    arrival_ordered (firstn h l) /\ arrival_ordered (skipn h l) /\ (forall a b, In a (firstn h l) -> In b (skipn h l) -> before a b).
  Proof. intros H. unfold arrival_ordered in *. rewrite <- (firstn_skipn h l) in H. apply FOP_app in H. exact H. Qed.

  Theorem msort_stable_sorted fuel : forall l, (List.length l <= fuel)%nat -> Forall D l -> arrival_ordered l -> stable_sorted l (msort fuel l).
  Proof.
    induction fuel as [|f IH]; intros l Hlen Hd Ha.
    - destruct l; [|cbn in Hlen; lia]. split; [reflexivity|constructor].
    - cbn [msort]. destruct l as [|a [|b t]].
      + split; [reflexivity|constructor].
      + split; [reflexivity|]. apply FOP_cons_intro; [intros ? []|constructor].
      + set (l := a :: b :: t) in *. set (h := Nat.div2 (List.length l)). cbn zeta.
        assert (Hh : (1 <= h < List.length l)%nat).
        { unfold h, l. cbn [List.length]. split; [cbn; lia|apply Nat.lt_div2; lia]. }
        destruct (arrival_ordered_split l h Ha) as (A1 & A2 & A3).
        assert (D1 : Forall D (firstn h l)) by (apply Forall_forall; intros z Hz; rewrite Forall_forall in Hd; apply Hd; rewrite <- (firstn_skipn h l); apply in_or_app; auto).
        assert (D2 : Forall D (skipn h l)) by (apply Forall_forall; intros z Hz; rewrite Forall_forall in Hd; apply Hd; rewrite <- (firstn_skipn h l); apply in_or_app; auto).
        destruct (IH (firstn h l)) as [P1 F1]; [rewrite firstn_length; lia|exact D1|exact A1|].
        destruct (IH (skipn h l)) as [P2 F2]; [rewrite skipn_length; lia|exact D2|exact A2|].
        split.
        * rewrite merge_perm, P1, P2. now rewrite firstn_skipn.
        * apply merge_ok; auto.
          -- apply Forall_forall. intros z Hz. rewrite Forall_forall in D1. apply D1. eapply Permutation_in; eauto.
          -- apply Forall_forall. intros z Hz. rewrite Forall_forall in D2. apply D2. eapply Permutation_in; eauto.
          -- intros x y Hx Hy. apply A3; eapply Permutation_in; eauto.
  Qed.

  (* ---- hence: ANY function meeting the contract agrees with insertion sort and with merge sort *)
  Theorem any_stable_sort_is_isort (ssort : list A -> list A) l :
    Forall D l -> arrival_ordered l -> stable_sorted l (ssort l) -> ssort l = isort lt l.
  Proof. intros Hd Ha Hs. eapply stable_sorted_unique; eauto. now apply isort_stable_sorted. Qed.
  Theorem msort_is_isort l : Forall D l -> arrival_ordered l -> msort (List.length l) l = isort lt l.
  Proof. intros Hd Ha. apply (any_stable_sort_is_isort (msort (List.length l))); auto. apply msort_stable_sorted; auto. Qed.
End Stable.
