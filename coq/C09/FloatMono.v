(* float64(int64) of the C06 model is exact, hence strictly monotone, on |n| <= 2^53. *)
From Miller Require Import Base.Record C06.Model C09.Model.
Open Scope Z_scope.

Lemma rpr_exact n e : 0 <= e < 52 -> 2 ^ e <= n < 2 ^ (e + 1) ->
  round_pos_rational n 1 = Some ((e + 1023) * 2 ^ 52 + (n * 2 ^ (52 - e) - 2 ^ 52)).
Proof.
  intros He Hn.
  assert (Hl : Z.log2 n = e) by (apply Z.log2_unique; lia).
  unfold round_pos_rational. rewrite Hl. change (Z.log2 1) with 0. rewrite Z.sub_0_r.
  cbv zeta.
  replace (0 <=? e) with true by (symmetry; apply Z.leb_le; lia).
  replace (1 * 2 ^ e <=? n) with true by (symmetry; apply Z.leb_le; lia).
  replace (Z.max (e - 52) (-1074)) with (e - 52) by lia.
  replace (0 <=? e - 52) with false by (symmetry; apply Z.leb_gt; lia).
  cbv iota beta.
  replace (- (e - 52)) with (52 - e) by lia.
  assert (Hp : 0 < 2 ^ (52 - e)) by (apply Z.pow_pos_nonneg; lia).
  assert (H1 : 2 ^ e * 2 ^ (52 - e) = 2 ^ 52) by (rewrite <- Z.pow_add_r by lia; f_equal; lia).
  assert (H2 : 2 ^ (e + 1) * 2 ^ (52 - e) = 2 ^ 53) by (rewrite <- Z.pow_add_r by lia; f_equal; lia).
  set (p := 2 ^ (52 - e)) in *.
  rewrite Z.mod_1_r, Z.div_1_r. change (2 * 0 <? 1) with true. cbv iota.
  assert (Hlo : 2 ^ 52 <= n * p) by (rewrite <- H1; apply Z.mul_le_mono_nonneg_r; lia).
  assert (Hhi : n * p < 2 ^ 53) by (rewrite <- H2; apply Z.mul_lt_mono_pos_r; lia).
  replace (n * p =? 2 ^ 53) with false by (symmetry; apply Z.eqb_neq; lia).
  cbv iota beta.
  replace (n * p <? 2 ^ 52) with false by (symmetry; apply Z.ltb_ge; lia).
  replace (2047 <=? e - 52 + 52 + 1023) with false by (symmetry; apply Z.leb_gt; lia).
  f_equal. f_equal. f_equal. lia.
Qed.

Lemma rpr_exact52 n : 2 ^ 52 <= n < 2 ^ 53 ->
  round_pos_rational n 1 = Some ((52 + 1023) * 2 ^ 52 + (n * 2 ^ (52 - 52) - 2 ^ 52)).
Proof.
  intros Hn.
  assert (Hl : Z.log2 n = 52) by (apply Z.log2_unique; [lia|exact Hn]).
  unfold round_pos_rational. rewrite Hl. change (Z.log2 1) with 0.
  cbv zeta. change (52 - 0) with 52. change (0 <=? 52) with true. cbv iota.
  replace (1 * 2 ^ 52 <=? n) with true by (symmetry; apply Z.leb_le; lia).
  change (Z.max (52 - 52) (-1074)) with 0. change (0 <=? 0) with true. cbv iota beta.
  change (1 * 2 ^ 0) with 1.
  rewrite Z.mod_1_r, Z.div_1_r. change (2 * 0 <? 1) with true. cbv iota.
  replace (n =? 2 ^ 53) with false by (symmetry; apply Z.eqb_neq; lia).
  cbv iota beta.
  replace (n <? 2 ^ 52) with false by (symmetry; apply Z.ltb_ge; lia).
  change (2047 <=? 0 + 52 + 1023) with false. cbv iota.
  f_equal. change (2 ^ (52 - 52)) with 1. lia.
Qed.

Definition enc (n e : Z) : Z := (e + 1023) * 2 ^ 52 + (n * 2 ^ (52 - e) - 2 ^ 52).

Lemma rpr_enc n e : 0 <= e <= 52 -> 2 ^ e <= n < 2 ^ (e + 1) -> round_pos_rational n 1 = Some (enc n e).
Proof.
  intros He Hn. destruct (Z.eq_dec e 52) as [->|Hne].
  - apply rpr_exact52. exact Hn.
  - apply rpr_exact; [lia|exact Hn].
Qed.

Lemma enc_bounds n e : 0 <= e <= 52 -> 2 ^ e <= n < 2 ^ (e + 1) ->
  (e + 1023) * 2 ^ 52 <= enc n e < (e + 1024) * 2 ^ 52.
Proof.
  intros He Hn. unfold enc.
  assert (Hp : 0 < 2 ^ (52 - e)) by (apply Z.pow_pos_nonneg; lia).
  assert (H1 : 2 ^ e * 2 ^ (52 - e) = 2 ^ 52) by (rewrite <- Z.pow_add_r by lia; f_equal; lia).
  assert (H2 : 2 ^ (e + 1) * 2 ^ (52 - e) = 2 ^ 53) by (rewrite <- Z.pow_add_r by lia; f_equal; lia).
  set (p := 2 ^ (52 - e)) in *.
  assert (Hlo : 2 ^ 52 <= n * p) by (rewrite <- H1; apply Z.mul_le_mono_nonneg_r; lia).
  assert (Hhi : n * p < 2 ^ 53) by (rewrite <- H2; apply Z.mul_lt_mono_pos_r; lia).
  change (2 ^ 53) with (2 * 2 ^ 52) in Hhi. lia.
Qed.

Lemma enc_mono x y e1 e2 : 0 <= e1 <= 52 -> 0 <= e2 <= 52 ->
  2 ^ e1 <= x < 2 ^ (e1 + 1) -> 2 ^ e2 <= y < 2 ^ (e2 + 1) -> x < y -> enc x e1 < enc y e2.
Proof.
  intros H1 H2 Hx Hy Hxy.
  destruct (Z.lt_trichotomy e1 e2) as [Hlt|[->|Hgt]].
  - pose proof (enc_bounds x e1 H1 Hx). pose proof (enc_bounds y e2 H2 Hy).
    assert ((e1 + 1024) * 2 ^ 52 <= (e2 + 1023) * 2 ^ 52) by (apply Z.mul_le_mono_nonneg_r; lia).
    lia.
  - unfold enc. assert (Hp : 0 < 2 ^ (52 - e2)) by (apply Z.pow_pos_nonneg; lia).
    assert (x * 2 ^ (52 - e2) < y * 2 ^ (52 - e2)) by (apply Z.mul_lt_mono_pos_r; lia). lia.
  - exfalso. assert (2 ^ (e2 + 1) <= 2 ^ e1) by (apply Z.pow_le_mono_r; lia). lia.
Qed.

Lemma log2_range n : 0 < n -> 2 ^ Z.log2 n <= n < 2 ^ (Z.log2 n + 1).
Proof. intros H. pose proof (Z.log2_spec n H). rewrite <- Z.add_1_r in H0. replace (Z.succ (Z.log2 n)) with (Z.log2 n + 1) in H0 by lia. exact H0. Qed.

Lemma log2_small n : 0 < n < 2 ^ 53 -> 0 <= Z.log2 n <= 52.
Proof.
  intros H. split; [apply Z.log2_nonneg|].
  assert (Z.log2 n < 53); [|lia]. apply Z.log2_lt_pow2; lia.
Qed.

(* float_of_int on 1 .. 2^53 *)
Definition penc (n : Z) : Z := if n =? 2 ^ 53 then 1076 * 2 ^ 52 else enc n (Z.log2 n).

Lemma float_of_int_pos n : 0 < n <= 2 ^ 53 -> float_of_int n = penc n.
Proof.
  intros H. unfold float_of_int, penc.
  replace (n =? 0) with false by (symmetry; apply Z.eqb_neq; lia).
  replace (n <? 0) with false by (symmetry; apply Z.ltb_ge; lia).
  rewrite Z.abs_eq by lia.
  destruct (Z.eqb_spec n (2 ^ 53)) as [->|Hne]; [vm_compute; reflexivity|].
  rewrite (rpr_enc n (Z.log2 n)); [reflexivity|apply log2_small; lia|apply log2_range; lia].
Qed.
Lemma float_of_int_neg n : 0 < n <= 2 ^ 53 -> float_of_int (- n) = two63 + penc n.
Proof.
  intros H. unfold float_of_int, penc.
  replace (- n =? 0) with false by (symmetry; apply Z.eqb_neq; lia).
  replace (- n <? 0) with true by (symmetry; apply Z.ltb_lt; lia).
  rewrite Z.abs_opp, Z.abs_eq by lia.
  destruct (Z.eqb_spec n (2 ^ 53)) as [->|Hne]; [vm_compute; reflexivity|].
  rewrite (rpr_enc n (Z.log2 n)); [reflexivity|apply log2_small; lia|apply log2_range; lia].
Qed.

Lemma penc_bounds n : 0 < n <= 2 ^ 53 -> 1023 * 2 ^ 52 <= penc n <= 1076 * 2 ^ 52.
Proof.
  intros H. unfold penc. destruct (Z.eqb_spec n (2 ^ 53)) as [->|Hne]; [lia|].
  pose proof (log2_small n ltac:(lia)) as Hl.
  pose proof (enc_bounds n (Z.log2 n) Hl (log2_range n ltac:(lia))) as Hb.
  assert ((Z.log2 n + 1024) * 2 ^ 52 <= 1076 * 2 ^ 52) by (apply Z.mul_le_mono_nonneg_r; lia).
  assert (1023 * 2 ^ 52 <= (Z.log2 n + 1023) * 2 ^ 52) by (apply Z.mul_le_mono_nonneg_r; lia).
  lia.
Qed.
Lemma penc_mono x y : 0 < x -> y <= 2 ^ 53 -> x < y -> penc x < penc y.
Proof.
  intros Hx Hy Hxy. unfold penc.
  destruct (Z.eqb_spec x (2 ^ 53)) as [->|Hnx]; [lia|].
  pose proof (log2_small x ltac:(lia)) as Hlx.
  pose proof (enc_bounds x (Z.log2 x) Hlx (log2_range x ltac:(lia))) as Hbx.
  destruct (Z.eqb_spec y (2 ^ 53)) as [->|Hny].
  - assert ((Z.log2 x + 1024) * 2 ^ 52 <= 1076 * 2 ^ 52) by (apply Z.mul_le_mono_nonneg_r; lia). lia.
  - apply enc_mono; try (apply log2_small; lia); try (apply log2_range; lia). exact Hxy.
Qed.

(* the key used by the numeric comparator is strictly increasing on -2^53 .. 2^53 *)
Theorem float_of_int_mono x y : - 2 ^ 53 <= x -> y <= 2 ^ 53 -> x < y ->
  fkey (float_of_int x) < fkey (float_of_int y).
Proof.
  intros Hx Hy Hxy.
  assert (K : forall n, 0 < n <= 2 ^ 53 -> fkey (float_of_int n) = penc n /\ fkey (float_of_int (- n)) = - penc n /\ 0 < penc n).
  { intros n Hn. pose proof (penc_bounds n Hn) as Hb. rewrite float_of_int_pos, float_of_int_neg by assumption.
    unfold fkey. change two63 with (2048 * 2 ^ 52) in *.
    replace (penc n <? 2048 * 2 ^ 52) with true by (symmetry; apply Z.ltb_lt; lia).
    replace (2048 * 2 ^ 52 + penc n <? 2048 * 2 ^ 52) with false by (symmetry; apply Z.ltb_ge; lia).
    repeat split; lia. }
  assert (K0 : fkey (float_of_int 0) = 0) by reflexivity.
  destruct (Z.lt_trichotomy x 0) as [Hx0|[->|Hx0]]; destruct (Z.lt_trichotomy y 0) as [Hy0|[->|Hy0]]; try lia.
  - destruct (K (- x) ltac:(lia)) as (_ & Kx & _). destruct (K (- y) ltac:(lia)) as (_ & Ky & _).
    rewrite Z.opp_involutive in Kx, Ky. rewrite Kx, Ky.
    assert (penc (- y) < penc (- x)) by (apply penc_mono; lia). lia.
  - destruct (K (- x) ltac:(lia)) as (_ & Kx & Px). rewrite Z.opp_involutive in Kx. rewrite Kx, K0. lia.
  - destruct (K (- x) ltac:(lia)) as (_ & Kx & Px). rewrite Z.opp_involutive in Kx.
    destruct (K y ltac:(lia)) as (Ky & _ & Py). rewrite Kx, Ky. lia.
  - destruct (K y ltac:(lia)) as (Ky & _ & Py). rewrite K0, Ky. lia.
  - destruct (K x ltac:(lia)) as (Kx & _). destruct (K y ltac:(lia)) as (Ky & _). rewrite Kx, Ky. apply penc_mono; lia.
Qed.
